
(** val negb : bool -> bool **)

let negb = function
| true -> false
| false -> true

type nat =
| O
| S of nat

(** val option_map : ('a1 -> 'a2) -> 'a1 option -> 'a2 option **)

let option_map f = function
| Some a -> Some (f a)
| None -> None

type ('a, 'b) sum =
| Inl of 'a
| Inr of 'b

(** val fst : ('a1 * 'a2) -> 'a1 **)

let fst = function
| (x, _) -> x

(** val snd : ('a1 * 'a2) -> 'a2 **)

let snd = function
| (_, y) -> y

(** val length : 'a1 list -> nat **)

let rec length = function
| [] -> O
| _ :: l' -> S (length l')

(** val app : 'a1 list -> 'a1 list -> 'a1 list **)

let rec app l m =
  match l with
  | [] -> m
  | a :: l3 -> a :: (app l3 m)

type comparison =
| Eq
| Lt
| Gt

(** val add : nat -> nat -> nat **)

let rec add n0 m =
  match n0 with
  | O -> m
  | S p -> S (add p m)

(** val sub : nat -> nat -> nat **)

let rec sub n0 m =
  match n0 with
  | O -> n0
  | S k -> (match m with
            | O -> n0
            | S l -> sub k l)

(** val eqb : bool -> bool -> bool **)

let eqb b1 b2 =
  if b1 then b2 else if b2 then false else true

module Nat =
 struct
  (** val add : nat -> nat -> nat **)

  let rec add n0 m =
    match n0 with
    | O -> m
    | S p -> S (add p m)

  (** val sub : nat -> nat -> nat **)

  let rec sub n0 m =
    match n0 with
    | O -> n0
    | S k -> (match m with
              | O -> n0
              | S l -> sub k l)

  (** val eqb : nat -> nat -> bool **)

  let rec eqb n0 m =
    match n0 with
    | O -> (match m with
            | O -> true
            | S _ -> false)
    | S n' -> (match m with
               | O -> false
               | S m' -> eqb n' m')

  (** val leb : nat -> nat -> bool **)

  let rec leb n0 m =
    match n0 with
    | O -> true
    | S n' -> (match m with
               | O -> false
               | S m' -> leb n' m')

  (** val ltb : nat -> nat -> bool **)

  let ltb n0 m =
    leb (S n0) m

  (** val max : nat -> nat -> nat **)

  let rec max n0 m =
    match n0 with
    | O -> m
    | S n' -> (match m with
               | O -> n0
               | S m' -> S (max n' m'))

  (** val min : nat -> nat -> nat **)

  let rec min n0 m =
    match n0 with
    | O -> O
    | S n' -> (match m with
               | O -> O
               | S m' -> S (min n' m'))

  (** val even : nat -> bool **)

  let rec even = function
  | O -> true
  | S n1 -> (match n1 with
             | O -> false
             | S n' -> even n')

  (** val odd : nat -> bool **)

  let odd n0 =
    negb (even n0)

  (** val divmod : nat -> nat -> nat -> nat -> nat * nat **)

  let rec divmod x y q u =
    match x with
    | O -> (q, u)
    | S x' ->
      (match u with
       | O -> divmod x' y (S q) y
       | S u' -> divmod x' y q u')

  (** val div : nat -> nat -> nat **)

  let div x y = match y with
  | O -> y
  | S y' -> fst (divmod x y' O y')

  (** val modulo : nat -> nat -> nat **)

  let modulo x = function
  | O -> x
  | S y' -> sub y' (snd (divmod x y' O y'))
 end

(** val hd : 'a1 -> 'a1 list -> 'a1 **)

let hd default = function
| [] -> default
| x :: _ -> x

(** val tl : 'a1 list -> 'a1 list **)

let tl = function
| [] -> []
| _ :: m -> m

(** val nth : nat -> 'a1 list -> 'a1 -> 'a1 **)

let rec nth n0 l default =
  match n0 with
  | O -> (match l with
          | [] -> default
          | x :: _ -> x)
  | S m -> (match l with
            | [] -> default
            | _ :: t -> nth m t default)

(** val nth_error : 'a1 list -> nat -> 'a1 option **)

let rec nth_error l = function
| O -> (match l with
        | [] -> None
        | x :: _ -> Some x)
| S n1 -> (match l with
           | [] -> None
           | _ :: l0 -> nth_error l0 n1)

(** val last : 'a1 list -> 'a1 -> 'a1 **)

let rec last l d =
  match l with
  | [] -> d
  | a :: l0 -> (match l0 with
                | [] -> a
                | _ :: _ -> last l0 d)

(** val rev : 'a1 list -> 'a1 list **)

let rec rev = function
| [] -> []
| x :: l' -> app (rev l') (x :: [])

(** val map : ('a1 -> 'a2) -> 'a1 list -> 'a2 list **)

let rec map f = function
| [] -> []
| a :: t -> (f a) :: (map f t)

(** val flat_map : ('a1 -> 'a2 list) -> 'a1 list -> 'a2 list **)

let rec flat_map f = function
| [] -> []
| x :: t -> app (f x) (flat_map f t)

(** val fold_left : ('a1 -> 'a2 -> 'a1) -> 'a2 list -> 'a1 -> 'a1 **)

let rec fold_left f l a0 =
  match l with
  | [] -> a0
  | b :: t -> fold_left f t (f a0 b)

(** val existsb : ('a1 -> bool) -> 'a1 list -> bool **)

let rec existsb f = function
| [] -> false
| a :: l0 -> (||) (f a) (existsb f l0)

(** val forallb : ('a1 -> bool) -> 'a1 list -> bool **)

let rec forallb f = function
| [] -> true
| a :: l0 -> (&&) (f a) (forallb f l0)

(** val filter : ('a1 -> bool) -> 'a1 list -> 'a1 list **)

let rec filter f = function
| [] -> []
| x :: l0 -> if f x then x :: (filter f l0) else filter f l0

(** val find : ('a1 -> bool) -> 'a1 list -> 'a1 option **)

let rec find f = function
| [] -> None
| x :: tl0 -> if f x then Some x else find f tl0

(** val combine : 'a1 list -> 'a2 list -> ('a1 * 'a2) list **)

let rec combine l l' =
  match l with
  | [] -> []
  | x :: tl0 ->
    (match l' with
     | [] -> []
     | y :: tl' -> (x, y) :: (combine tl0 tl'))

(** val firstn : nat -> 'a1 list -> 'a1 list **)

let rec firstn n0 l =
  match n0 with
  | O -> []
  | S n1 -> (match l with
             | [] -> []
             | a :: l0 -> a :: (firstn n1 l0))

(** val skipn : nat -> 'a1 list -> 'a1 list **)

let rec skipn n0 l =
  match n0 with
  | O -> l
  | S n1 -> (match l with
             | [] -> []
             | _ :: l0 -> skipn n1 l0)

(** val seq : nat -> nat -> nat list **)

let rec seq start = function
| O -> []
| S len0 -> start :: (seq (S start) len0)

(** val repeat : 'a1 -> nat -> 'a1 list **)

let rec repeat x = function
| O -> []
| S k -> x :: (repeat x k)

type positive =
| XI of positive
| XO of positive
| XH

type n =
| N0
| Npos of positive

module Pos =
 struct
  type mask =
  | IsNul
  | IsPos of positive
  | IsNeg
 end

module Coq_Pos =
 struct
  (** val succ : positive -> positive **)

  let rec succ = function
  | XI p -> XO (succ p)
  | XO p -> XI p
  | XH -> XO XH

  (** val add : positive -> positive -> positive **)

  let rec add x y =
    match x with
    | XI p ->
      (match y with
       | XI q -> XO (add_carry p q)
       | XO q -> XI (add p q)
       | XH -> XO (succ p))
    | XO p ->
      (match y with
       | XI q -> XI (add p q)
       | XO q -> XO (add p q)
       | XH -> XI p)
    | XH -> (match y with
             | XI q -> XO (succ q)
             | XO q -> XI q
             | XH -> XO XH)

  (** val add_carry : positive -> positive -> positive **)

  and add_carry x y =
    match x with
    | XI p ->
      (match y with
       | XI q -> XI (add_carry p q)
       | XO q -> XO (add_carry p q)
       | XH -> XI (succ p))
    | XO p ->
      (match y with
       | XI q -> XO (add_carry p q)
       | XO q -> XI (add p q)
       | XH -> XO (succ p))
    | XH ->
      (match y with
       | XI q -> XI (succ q)
       | XO q -> XO (succ q)
       | XH -> XI XH)

  (** val pred_double : positive -> positive **)

  let rec pred_double = function
  | XI p -> XI (XO p)
  | XO p -> XI (pred_double p)
  | XH -> XH

  type mask = Pos.mask =
  | IsNul
  | IsPos of positive
  | IsNeg

  (** val succ_double_mask : mask -> mask **)

  let succ_double_mask = function
  | IsNul -> IsPos XH
  | IsPos p -> IsPos (XI p)
  | IsNeg -> IsNeg

  (** val double_mask : mask -> mask **)

  let double_mask = function
  | IsPos p -> IsPos (XO p)
  | x0 -> x0

  (** val double_pred_mask : positive -> mask **)

  let double_pred_mask = function
  | XI p -> IsPos (XO (XO p))
  | XO p -> IsPos (XO (pred_double p))
  | XH -> IsNul

  (** val sub_mask : positive -> positive -> mask **)

  let rec sub_mask x y =
    match x with
    | XI p ->
      (match y with
       | XI q -> double_mask (sub_mask p q)
       | XO q -> succ_double_mask (sub_mask p q)
       | XH -> IsPos (XO p))
    | XO p ->
      (match y with
       | XI q -> succ_double_mask (sub_mask_carry p q)
       | XO q -> double_mask (sub_mask p q)
       | XH -> IsPos (pred_double p))
    | XH -> (match y with
             | XH -> IsNul
             | _ -> IsNeg)

  (** val sub_mask_carry : positive -> positive -> mask **)

  and sub_mask_carry x y =
    match x with
    | XI p ->
      (match y with
       | XI q -> succ_double_mask (sub_mask_carry p q)
       | XO q -> double_mask (sub_mask p q)
       | XH -> IsPos (pred_double p))
    | XO p ->
      (match y with
       | XI q -> double_mask (sub_mask_carry p q)
       | XO q -> succ_double_mask (sub_mask_carry p q)
       | XH -> double_pred_mask p)
    | XH -> IsNeg

  (** val mul : positive -> positive -> positive **)

  let rec mul x y =
    match x with
    | XI p -> add y (XO (mul p y))
    | XO p -> XO (mul p y)
    | XH -> y

  (** val compare_cont : comparison -> positive -> positive -> comparison **)

  let rec compare_cont r x y =
    match x with
    | XI p ->
      (match y with
       | XI q -> compare_cont r p q
       | XO q -> compare_cont Gt p q
       | XH -> Gt)
    | XO p ->
      (match y with
       | XI q -> compare_cont Lt p q
       | XO q -> compare_cont r p q
       | XH -> Gt)
    | XH -> (match y with
             | XH -> r
             | _ -> Lt)

  (** val compare : positive -> positive -> comparison **)

  let compare =
    compare_cont Eq

  (** val eqb : positive -> positive -> bool **)

  let rec eqb p q =
    match p with
    | XI p0 -> (match q with
                | XI q0 -> eqb p0 q0
                | _ -> false)
    | XO p0 -> (match q with
                | XO q0 -> eqb p0 q0
                | _ -> false)
    | XH -> (match q with
             | XH -> true
             | _ -> false)

  (** val coq_Nsucc_double : n -> n **)

  let coq_Nsucc_double = function
  | N0 -> Npos XH
  | Npos p -> Npos (XI p)

  (** val coq_Ndouble : n -> n **)

  let coq_Ndouble = function
  | N0 -> N0
  | Npos p -> Npos (XO p)

  (** val coq_land : positive -> positive -> n **)

  let rec coq_land p q =
    match p with
    | XI p0 ->
      (match q with
       | XI q0 -> coq_Nsucc_double (coq_land p0 q0)
       | XO q0 -> coq_Ndouble (coq_land p0 q0)
       | XH -> Npos XH)
    | XO p0 ->
      (match q with
       | XI q0 -> coq_Ndouble (coq_land p0 q0)
       | XO q0 -> coq_Ndouble (coq_land p0 q0)
       | XH -> N0)
    | XH -> (match q with
             | XO _ -> N0
             | _ -> Npos XH)
 end

module N =
 struct
  (** val succ_double : n -> n **)

  let succ_double = function
  | N0 -> Npos XH
  | Npos p -> Npos (XI p)

  (** val double : n -> n **)

  let double = function
  | N0 -> N0
  | Npos p -> Npos (XO p)

  (** val add : n -> n -> n **)

  let add n0 m =
    match n0 with
    | N0 -> m
    | Npos p -> (match m with
                 | N0 -> n0
                 | Npos q -> Npos (Coq_Pos.add p q))

  (** val sub : n -> n -> n **)

  let sub n0 m =
    match n0 with
    | N0 -> N0
    | Npos n' ->
      (match m with
       | N0 -> n0
       | Npos m' ->
         (match Coq_Pos.sub_mask n' m' with
          | Coq_Pos.IsPos p -> Npos p
          | _ -> N0))

  (** val mul : n -> n -> n **)

  let mul n0 m =
    match n0 with
    | N0 -> N0
    | Npos p -> (match m with
                 | N0 -> N0
                 | Npos q -> Npos (Coq_Pos.mul p q))

  (** val compare : n -> n -> comparison **)

  let compare n0 m =
    match n0 with
    | N0 -> (match m with
             | N0 -> Eq
             | Npos _ -> Lt)
    | Npos n' -> (match m with
                  | N0 -> Gt
                  | Npos m' -> Coq_Pos.compare n' m')

  (** val eqb : n -> n -> bool **)

  let eqb n0 m =
    match n0 with
    | N0 -> (match m with
             | N0 -> true
             | Npos _ -> false)
    | Npos p -> (match m with
                 | N0 -> false
                 | Npos q -> Coq_Pos.eqb p q)

  (** val leb : n -> n -> bool **)

  let leb x y =
    match compare x y with
    | Gt -> false
    | _ -> true

  (** val ltb : n -> n -> bool **)

  let ltb x y =
    match compare x y with
    | Lt -> true
    | _ -> false

  (** val pos_div_eucl : positive -> n -> n * n **)

  let rec pos_div_eucl a b =
    match a with
    | XI a' ->
      let (q, r) = pos_div_eucl a' b in
      let r' = succ_double r in
      if leb b r' then ((succ_double q), (sub r' b)) else ((double q), r')
    | XO a' ->
      let (q, r) = pos_div_eucl a' b in
      let r' = double r in
      if leb b r' then ((succ_double q), (sub r' b)) else ((double q), r')
    | XH ->
      (match b with
       | N0 -> (N0, (Npos XH))
       | Npos p -> (match p with
                    | XH -> ((Npos XH), N0)
                    | _ -> (N0, (Npos XH))))

  (** val div_eucl : n -> n -> n * n **)

  let div_eucl a b =
    match a with
    | N0 -> (N0, N0)
    | Npos na -> (match b with
                  | N0 -> (N0, a)
                  | Npos _ -> pos_div_eucl na b)

  (** val div : n -> n -> n **)

  let div a b =
    fst (div_eucl a b)

  (** val modulo : n -> n -> n **)

  let modulo a b =
    snd (div_eucl a b)

  (** val coq_land : n -> n -> n **)

  let coq_land n0 m =
    match n0 with
    | N0 -> N0
    | Npos p -> (match m with
                 | N0 -> N0
                 | Npos q -> Coq_Pos.coq_land p q)
 end

type bclass =
| AL
| AN
| B
| BN
| CS
| EN
| ES
| ET
| FSI
| L
| LRE
| LRI
| LRO
| NSM
| ON
| PDF
| PDI
| R
| RLE
| RLI
| RLO
| SS
| WS

(** val bclass_beq : bclass -> bclass -> bool **)

let bclass_beq x y =
  match x with
  | AL -> (match y with
           | AL -> true
           | _ -> false)
  | AN -> (match y with
           | AN -> true
           | _ -> false)
  | B -> (match y with
          | B -> true
          | _ -> false)
  | BN -> (match y with
           | BN -> true
           | _ -> false)
  | CS -> (match y with
           | CS -> true
           | _ -> false)
  | EN -> (match y with
           | EN -> true
           | _ -> false)
  | ES -> (match y with
           | ES -> true
           | _ -> false)
  | ET -> (match y with
           | ET -> true
           | _ -> false)
  | FSI -> (match y with
            | FSI -> true
            | _ -> false)
  | L -> (match y with
          | L -> true
          | _ -> false)
  | LRE -> (match y with
            | LRE -> true
            | _ -> false)
  | LRI -> (match y with
            | LRI -> true
            | _ -> false)
  | LRO -> (match y with
            | LRO -> true
            | _ -> false)
  | NSM -> (match y with
            | NSM -> true
            | _ -> false)
  | ON -> (match y with
           | ON -> true
           | _ -> false)
  | PDF -> (match y with
            | PDF -> true
            | _ -> false)
  | PDI -> (match y with
            | PDI -> true
            | _ -> false)
  | R -> (match y with
          | R -> true
          | _ -> false)
  | RLE -> (match y with
            | RLE -> true
            | _ -> false)
  | RLI -> (match y with
            | RLI -> true
            | _ -> false)
  | RLO -> (match y with
            | RLO -> true
            | _ -> false)
  | SS -> (match y with
           | SS -> true
           | _ -> false)
  | WS -> (match y with
           | WS -> true
           | _ -> false)

(** val ceq : bclass -> bclass -> bool **)

let ceq =
  bclass_beq

type 'a res =
| Ok of 'a
| Panic of nat

(** val bind : 'a1 res -> ('a1 -> 'a2 res) -> 'a2 res **)

let bind r f =
  match r with
  | Ok a -> f a
  | Panic s -> Panic s

(** val is_ok : 'a1 res -> bool **)

let is_ok = function
| Ok _ -> true
| Panic _ -> false

(** val get : nat -> 'a1 list -> nat -> 'a1 res **)

let get site l i =
  match nth_error l i with
  | Some x -> Ok x
  | None -> Panic site

(** val upd_opt : 'a1 list -> nat -> 'a1 -> 'a1 list option **)

let rec upd_opt l i x =
  match l with
  | [] -> None
  | h :: t ->
    (match i with
     | O -> Some (x :: t)
     | S j ->
       (match upd_opt t j x with
        | Some t' -> Some (h :: t')
        | None -> None))

(** val upd : nat -> 'a1 list -> nat -> 'a1 -> 'a1 list res **)

let upd site l i x =
  match upd_opt l i x with
  | Some l' -> Ok l'
  | None -> Panic site

(** val set_range : nat -> 'a1 list -> nat -> nat -> 'a1 -> 'a1 list res **)

let set_range site l a b x =
  if (&&) (Nat.leb a b) (Nat.leb b (length l))
  then Ok (app (firstn a l) (app (repeat x (sub b a)) (skipn b l)))
  else Panic site

(** val slice : nat -> 'a1 list -> nat -> nat -> 'a1 list res **)

let slice site l a b =
  if (&&) (Nat.leb a b) (Nat.leb b (length l))
  then Ok (firstn (sub b a) (skipn a l))
  else Panic site

(** val set_all : nat -> 'a1 list -> nat list -> 'a1 -> 'a1 list res **)

let rec set_all site l idxs x =
  match idxs with
  | [] -> Ok l
  | j :: rest -> bind (upd site l j x) (fun l' -> set_all site l' rest x)

(** val position : ('a1 -> bool) -> 'a1 list -> nat option **)

let rec position p = function
| [] -> None
| x :: t -> if p x then Some O else option_map (fun x0 -> S x0) (position p t)

(** val rposition_aux :
    ('a1 -> bool) -> 'a1 list -> nat -> nat option -> nat option **)

let rec rposition_aux p l i acc =
  match l with
  | [] -> acc
  | x :: t -> rposition_aux p t (S i) (if p x then Some i else acc)

(** val rposition : ('a1 -> bool) -> 'a1 list -> nat option **)

let rposition p l =
  rposition_aux p l O None

(** val range : nat -> nat -> nat list **)

let range a b =
  seq a (sub b a)

(** val opt_or : 'a1 option -> 'a1 -> 'a1 **)

let opt_or o d =
  match o with
  | Some x -> x
  | None -> d

(** val list_eqb : ('a1 -> 'a1 -> bool) -> 'a1 list -> 'a1 list -> bool **)

let rec list_eqb eqb0 l3 l4 =
  match l3 with
  | [] -> (match l4 with
           | [] -> true
           | _ :: _ -> false)
  | x :: t1 ->
    (match l4 with
     | [] -> false
     | y :: t2 -> (&&) (eqb0 x y) (list_eqb eqb0 t1 t2))

(** val max_depth : nat **)

let max_depth =
  S (S (S (S (S (S (S (S (S (S (S (S (S (S (S (S (S (S (S (S (S (S (S (S (S
    (S (S (S (S (S (S (S (S (S (S (S (S (S (S (S (S (S (S (S (S (S (S (S (S
    (S (S (S (S (S (S (S (S (S (S (S (S (S (S (S (S (S (S (S (S (S (S (S (S
    (S (S (S (S (S (S (S (S (S (S (S (S (S (S (S (S (S (S (S (S (S (S (S (S
    (S (S (S (S (S (S (S (S (S (S (S (S (S (S (S (S (S (S (S (S (S (S (S (S
    (S (S (S (S
    O))))))))))))))))))))))))))))))))))))))))))))))))))))))))))))))))))))))))))))))))))))))))))))))))))))))))))))))))))))))))))))

(** val bracket_limit : nat **)

let bracket_limit =
  S (S (S (S (S (S (S (S (S (S (S (S (S (S (S (S (S (S (S (S (S (S (S (S (S
    (S (S (S (S (S (S (S (S (S (S (S (S (S (S (S (S (S (S (S (S (S (S (S (S
    (S (S (S (S (S (S (S (S (S (S (S (S (S (S
    O))))))))))))))))))))))))))))))))))))))))))))))))))))))))))))))

(** val fc_ALM : n **)

let fc_ALM =
  Npos (XO (XO (XI (XI (XI (XO (XO (XO (XO (XI XH))))))))))

(** val fc_LRM : n **)

let fc_LRM =
  Npos (XO (XI (XI (XI (XO (XO (XO (XO (XO (XO (XO (XO (XO XH)))))))))))))

(** val fc_RLM : n **)

let fc_RLM =
  Npos (XI (XI (XI (XI (XO (XO (XO (XO (XO (XO (XO (XO (XO XH)))))))))))))

(** val fc_LRI : n **)

let fc_LRI =
  Npos (XO (XI (XI (XO (XO (XI (XI (XO (XO (XO (XO (XO (XO XH)))))))))))))

(** val fc_RLI : n **)

let fc_RLI =
  Npos (XI (XI (XI (XO (XO (XI (XI (XO (XO (XO (XO (XO (XO XH)))))))))))))

(** val fc_FSI : n **)

let fc_FSI =
  Npos (XO (XO (XO (XI (XO (XI (XI (XO (XO (XO (XO (XO (XO XH)))))))))))))

(** val fc_PDI : n **)

let fc_PDI =
  Npos (XI (XO (XO (XI (XO (XI (XI (XO (XO (XO (XO (XO (XO XH)))))))))))))

(** val fc_LRE : n **)

let fc_LRE =
  Npos (XO (XI (XO (XI (XO (XI (XO (XO (XO (XO (XO (XO (XO XH)))))))))))))

(** val fc_RLE : n **)

let fc_RLE =
  Npos (XI (XI (XO (XI (XO (XI (XO (XO (XO (XO (XO (XO (XO XH)))))))))))))

(** val fc_PDF : n **)

let fc_PDF =
  Npos (XO (XO (XI (XI (XO (XI (XO (XO (XO (XO (XO (XO (XO XH)))))))))))))

(** val fc_LRO : n **)

let fc_LRO =
  Npos (XI (XO (XI (XI (XO (XI (XO (XO (XO (XO (XO (XO (XO XH)))))))))))))

(** val fc_RLO : n **)

let fc_RLO =
  Npos (XO (XI (XI (XI (XO (XI (XO (XO (XO (XO (XO (XO (XO XH)))))))))))))

(** val unicode_version : (n * n) * n **)

let unicode_version =
  (((Npos (XO (XO (XO (XO XH))))), N0), N0)

(** val bidi_class_table : ((n * n) * bclass) list **)

let bidi_class_table =
  ((N0, (Npos (XO (XO (XO XH))))), BN) :: ((((Npos (XI (XO (XO XH)))), (Npos
    (XI (XO (XO XH))))), SS) :: ((((Npos (XO (XI (XO XH)))), (Npos (XO (XI
    (XO XH))))), B) :: ((((Npos (XI (XI (XO XH)))), (Npos (XI (XI (XO
    XH))))), SS) :: ((((Npos (XO (XO (XI XH)))), (Npos (XO (XO (XI XH))))),
    WS) :: ((((Npos (XI (XO (XI XH)))), (Npos (XI (XO (XI XH))))),
    B) :: ((((Npos (XO (XI (XI XH)))), (Npos (XI (XI (XO (XI XH)))))),
    BN) :: ((((Npos (XO (XO (XI (XI XH))))), (Npos (XO (XI (XI (XI XH)))))),
    B) :: ((((Npos (XI (XI (XI (XI XH))))), (Npos (XI (XI (XI (XI XH)))))),
    SS) :: ((((Npos (XO (XO (XO (XO (XO XH)))))), (Npos (XO (XO (XO (XO (XO
    XH))))))), WS) :: ((((Npos (XI (XO (XO (XO (XO XH)))))), (Npos (XO (XI
    (XO (XO (XO XH))))))), ON) :: ((((Npos (XI (XI (XO (XO (XO XH)))))),
    (Npos (XI (XO (XI (XO (XO XH))))))), ET) :: ((((Npos (XO (XI (XI (XO (XO
    XH)))))), (Npos (XO (XI (XO (XI (XO XH))))))), ON) :: ((((Npos (XI (XI
    (XO (XI (XO XH)))))), (Npos (XI (XI (XO (XI (XO XH))))))),
    ES) :: ((((Npos (XO (XO (XI (XI (XO XH)))))), (Npos (XO (XO (XI (XI (XO
    XH))))))), CS) :: ((((Npos (XI (XO (XI (XI (XO XH)))))), (Npos (XI (XO
    (XI (XI (XO XH))))))), ES) :: ((((Npos (XO (XI (XI (XI (XO XH)))))),
    (Npos (XI (XI (XI (XI (XO XH))))))), CS) :: ((((Npos (XO (XO (XO (XO (XI
    XH)))))), (Npos (XI (XO (XO (XI (XI XH))))))), EN) :: ((((Npos (XO (XI
    (XO (XI (XI XH)))))), (Npos (XO (XI (XO (XI (XI XH))))))),
    CS) :: ((((Npos (XI (XI (XO (XI (XI XH)))))), (Npos (XO (XO (XO (XO (XO
    (XO XH)))))))), ON) :: ((((Npos (XI (XO (XO (XO (XO (XO XH))))))), (Npos
    (XO (XI (XO (XI (XI (XO XH)))))))), L) :: ((((Npos (XI (XI (XO (XI (XI
    (XO XH))))))), (Npos (XO (XO (XO (XO (XO (XI XH)))))))), ON) :: ((((Npos
    (XI (XO (XO (XO (XO (XI XH))))))), (Npos (XO (XI (XO (XI (XI (XI
    XH)))))))), L) :: ((((Npos (XI (XI (XO (XI (XI (XI XH))))))), (Npos (XO
    (XI (XI (XI (XI (XI XH)))))))), ON) :: ((((Npos (XI (XI (XI (XI (XI (XI
    XH))))))), (Npos (XO (XO (XI (XO (XO (XO (XO XH))))))))), BN) :: ((((Npos
    (XI (XO (XI (XO (XO (XO (XO XH)))))))), (Npos (XI (XO (XI (XO (XO (XO (XO
    XH))))))))), B) :: ((((Npos (XO (XI (XI (XO (XO (XO (XO XH)))))))), (Npos
    (XI (XI (XI (XI (XI (XO (XO XH))))))))), BN) :: ((((Npos (XO (XO (XO (XO
    (XO (XI (XO XH)))))))), (Npos (XO (XO (XO (XO (XO (XI (XO XH))))))))),
    CS) :: ((((Npos (XI (XO (XO (XO (XO (XI (XO XH)))))))), (Npos (XI (XO (XO
    (XO (XO (XI (XO XH))))))))), ON) :: ((((Npos (XO (XI (XO (XO (XO (XI (XO
    XH)))))))), (Npos (XI (XO (XI (XO (XO (XI (XO XH))))))))),
    ET) :: ((((Npos (XO (XI (XI (XO (XO (XI (XO XH)))))))), (Npos (XI (XO (XO
    (XI (XO (XI (XO XH))))))))), ON) :: ((((Npos (XO (XI (XO (XI (XO (XI (XO
    XH)))))))), (Npos (XO (XI (XO (XI (XO (XI (XO XH))))))))), L) :: ((((Npos
    (XI (XI (XO (XI (XO (XI (XO XH)))))))), (Npos (XO (XO (XI (XI (XO (XI (XO
    XH))))))))), ON) :: ((((Npos (XI (XO (XI (XI (XO (XI (XO XH)))))))),
    (Npos (XI (XO (XI (XI (XO (XI (XO XH))))))))), BN) :: ((((Npos (XO (XI
    (XI (XI (XO (XI (XO XH)))))))), (Npos (XI (XI (XI (XI (XO (XI (XO
    XH))))))))), ON) :: ((((Npos (XO (XO (XO (XO (XI (XI (XO XH)))))))),
    (Npos (XI (XO (XO (XO (XI (XI (XO XH))))))))), ET) :: ((((Npos (XO (XI
    (XO (XO (XI (XI (XO XH)))))))), (Npos (XI (XI (XO (XO (XI (XI (XO
    XH))))))))), EN) :: ((((Npos (XO (XO (XI (XO (XI (XI (XO XH)))))))),
    (Npos (XO (XO (XI (XO (XI (XI (XO XH))))))))), ON) :: ((((Npos (XI (XO
    (XI (XO (XI (XI (XO XH)))))))), (Npos (XI (XO (XI (XO (XI (XI (XO
    XH))))))))), L) :: ((((Npos (XO (XI (XI (XO (XI (XI (XO XH)))))))), (Npos
    (XO (XO (XO (XI (XI (XI (XO XH))))))))), ON) :: ((((Npos (XI (XO (XO (XI
    (XI (XI (XO XH)))))))), (Npos (XI (XO (XO (XI (XI (XI (XO XH))))))))),
    EN) :: ((((Npos (XO (XI (XO (XI (XI (XI (XO XH)))))))), (Npos (XO (XI (XO
    (XI (XI (XI (XO XH))))))))), L) :: ((((Npos (XI (XI (XO (XI (XI (XI (XO
    XH)))))))), (Npos (XI (XI (XI (XI (XI (XI (XO XH))))))))),
    ON) :: ((((Npos (XO (XO (XO (XO (XO (XO (XI XH)))))))), (Npos (XO (XI (XI
    (XO (XI (XO (XI XH))))))))), L) :: ((((Npos (XI (XI (XI (XO (XI (XO (XI
    XH)))))))), (Npos (XI (XI (XI (XO (XI (XO (XI XH))))))))),
    ON) :: ((((Npos (XO (XO (XO (XI (XI (XO (XI XH)))))))), (Npos (XO (XI (XI
    (XO (XI (XI (XI XH))))))))), L) :: ((((Npos (XI (XI (XI (XO (XI (XI (XI
    XH)))))))), (Npos (XI (XI (XI (XO (XI (XI (XI XH))))))))),
    ON) :: ((((Npos (XO (XO (XO (XI (XI (XI (XI XH)))))))), (Npos (XO (XO (XO
    (XI (XI (XI (XO (XI (XO XH))))))))))), L) :: ((((Npos (XI (XO (XO (XI (XI
    (XI (XO (XI (XO XH)))))))))), (Npos (XO (XI (XO (XI (XI (XI (XO (XI (XO
    XH))))))))))), ON) :: ((((Npos (XI (XI (XO (XI (XI (XI (XO (XI (XO
    XH)))))))))), (Npos (XI (XO (XO (XO (XO (XO (XI (XI (XO XH))))))))))),
    L) :: ((((Npos (XO (XI (XO (XO (XO (XO (XI (XI (XO XH)))))))))), (Npos
    (XI (XI (XI (XI (XO (XO (XI (XI (XO XH))))))))))), ON) :: ((((Npos (XO
    (XO (XO (XO (XI (XO (XI (XI (XO XH)))))))))), (Npos (XI (XO (XO (XO (XI
    (XO (XI (XI (XO XH))))))))))), L) :: ((((Npos (XO (XI (XO (XO (XI (XO (XI
    (XI (XO XH)))))))))), (Npos (XI (XI (XI (XI (XI (XO (XI (XI (XO
    XH))))))))))), ON) :: ((((Npos (XO (XO (XO (XO (XO (XI (XI (XI (XO
    XH)))))))))), (Npos (XO (XO (XI (XO (XO (XI (XI (XI (XO XH))))))))))),
    L) :: ((((Npos (XI (XO (XI (XO (XO (XI (XI (XI (XO XH)))))))))), (Npos
    (XI (XO (XI (XI (XO (XI (XI (XI (XO XH))))))))))), ON) :: ((((Npos (XO
    (XI (XI (XI (XO (XI (XI (XI (XO XH)))))))))), (Npos (XO (XI (XI (XI (XO
    (XI (XI (XI (XO XH))))))))))), L) :: ((((Npos (XI (XI (XI (XI (XO (XI (XI
    (XI (XO XH)))))))))), (Npos (XI (XI (XI (XI (XI (XI (XI (XI (XO
    XH))))))))))), ON) :: ((((Npos (XO (XO (XO (XO (XO (XO (XO (XO (XI
    XH)))))))))), (Npos (XI (XI (XI (XI (XO (XI (XI (XO (XI XH))))))))))),
    NSM) :: ((((Npos (XO (XO (XO (XO (XI (XI (XI (XO (XI XH)))))))))), (Npos
    (XI (XI (XO (XO (XI (XI (XI (XO (XI XH))))))))))), L) :: ((((Npos (XO (XO
    (XI (XO (XI (XI (XI (XO (XI XH)))))))))), (Npos (XI (XO (XI (XO (XI (XI
    (XI (XO (XI XH))))))))))), ON) :: ((((Npos (XO (XI (XI (XO (XI (XI (XI
    (XO (XI XH)))))))))), (Npos (XI (XI (XI (XO (XI (XI (XI (XO (XI
    XH))))))))))), L) :: ((((Npos (XO (XI (XO (XI (XI (XI (XI (XO (XI
    XH)))))))))), (Npos (XI (XO (XI (XI (XI (XI (XI (XO (XI XH))))))))))),
    L) :: ((((Npos (XO (XI (XI (XI (XI (XI (XI (XO (XI XH)))))))))), (Npos
    (XO (XI (XI (XI (XI (XI (XI (XO (XI XH))))))))))), ON) :: ((((Npos (XI
    (XI (XI (XI (XI (XI (XI (XO (XI XH)))))))))), (Npos (XI (XI (XI (XI (XI
    (XI (XI (XO (XI XH))))))))))), L) :: ((((Npos (XO (XO (XI (XO (XO (XO (XO
    (XI (XI XH)))))))))), (Npos (XI (XO (XI (XO (XO (XO (XO (XI (XI
    XH))))))))))), ON) :: ((((Npos (XO (XI (XI (XO (XO (XO (XO (XI (XI
    XH)))))))))), (Npos (XO (XI (XI (XO (XO (XO (XO (XI (XI XH))))))))))),
    L) :: ((((Npos (XI (XI (XI (XO (XO (XO (XO (XI (XI XH)))))))))), (Npos
    (XI (XI (XI (XO (XO (XO (XO (XI (XI XH))))))))))), ON) :: ((((Npos (XO
    (XO (XO (XI (XO (XO (XO (XI (XI XH)))))))))), (Npos (XO (XI (XO (XI (XO
    (XO (XO (XI (XI XH))))))))))), L) :: ((((Npos (XO (XO (XI (XI (XO (XO (XO
    (XI (XI XH)))))))))), (Npos (XO (XO (XI (XI (XO (XO (XO (XI (XI
    XH))))))))))), L) :: ((((Npos (XO (XI (XI (XI (XO (XO (XO (XI (XI
    XH)))))))))), (Npos (XI (XO (XO (XO (XO (XI (XO (XI (XI XH))))))))))),
    L) :: ((((Npos (XI (XI (XO (XO (XO (XI (XO (XI (XI XH)))))))))), (Npos
    (XI (XO (XI (XO (XI (XI (XI (XI (XI XH))))))))))), L) :: ((((Npos (XO (XI
    (XI (XO (XI (XI (XI (XI (XI XH)))))))))), (Npos (XO (XI (XI (XO (XI (XI
    (XI (XI (XI XH))))))))))), ON) :: ((((Npos (XI (XI (XI (XO (XI (XI (XI
    (XI (XI XH)))))))))), (Npos (XO (XI (XO (XO (XO (XO (XO (XI (XO (XO
    XH)))))))))))), L) :: ((((Npos (XI (XI (XO (XO (XO (XO (XO (XI (XO (XO
    XH))))))))))), (Npos (XI (XO (XO (XI (XO (XO (XO (XI (XO (XO
    XH)))))))))))), NSM) :: ((((Npos (XO (XI (XO (XI (XO (XO (XO (XI (XO (XO
    XH))))))))))), (Npos (XI (XI (XI (XI (XO (XI (XO (XO (XI (XO
    XH)))))))))))), L) :: ((((Npos (XI (XO (XO (XO (XI (XI (XO (XO (XI (XO
    XH))))))))))), (Npos (XO (XI (XI (XO (XI (XO (XI (XO (XI (XO
    XH)))))))))))), L) :: ((((Npos (XI (XO (XO (XI (XI (XO (XI (XO (XI (XO
    XH))))))))))), (Npos (XI (XO (XO (XI (XO (XO (XO (XI (XI (XO
    XH)))))))))))), L) :: ((((Npos (XO (XI (XO (XI (XO (XO (XO (XI (XI (XO
    XH))))))))))), (Npos (XO (XI (XO (XI (XO (XO (XO (XI (XI (XO
    XH)))))))))))), ON) :: ((((Npos (XI (XO (XI (XI (XO (XO (XO (XI (XI (XO
    XH))))))))))), (Npos (XO (XI (XI (XI (XO (XO (XO (XI (XI (XO
    XH)))))))))))), ON) :: ((((Npos (XI (XI (XI (XI (XO (XO (XO (XI (XI (XO
    XH))))))))))), (Npos (XI (XI (XI (XI (XO (XO (XO (XI (XI (XO
    XH)))))))))))), ET) :: ((((Npos (XO (XO (XO (XO (XI (XO (XO (XI (XI (XO
    XH))))))))))), (Npos (XO (XO (XO (XO (XI (XO (XO (XI (XI (XO
    XH)))))))))))), R) :: ((((Npos (XI (XO (XO (XO (XI (XO (XO (XI (XI (XO
    XH))))))))))), (Npos (XI (XO (XI (XI (XI (XI (XO (XI (XI (XO
    XH)))))))))))), NSM) :: ((((Npos (XO (XI (XI (XI (XI (XI (XO (XI (XI (XO
    XH))))))))))), (Npos (XO (XI (XI (XI (XI (XI (XO (XI (XI (XO
    XH)))))))))))), R) :: ((((Npos (XI (XI (XI (XI (XI (XI (XO (XI (XI (XO
    XH))))))))))), (Npos (XI (XI (XI (XI (XI (XI (XO (XI (XI (XO
    XH)))))))))))), NSM) :: ((((Npos (XO (XO (XO (XO (XO (XO (XI (XI (XI (XO
    XH))))))))))), (Npos (XO (XO (XO (XO (XO (XO (XI (XI (XI (XO
    XH)))))))))))), R) :: ((((Npos (XI (XO (XO (XO (XO (XO (XI (XI (XI (XO
    XH))))))))))), (Npos (XO (XI (XO (XO (XO (XO (XI (XI (XI (XO
    XH)))))))))))), NSM) :: ((((Npos (XI (XI (XO (XO (XO (XO (XI (XI (XI (XO
    XH))))))))))), (Npos (XI (XI (XO (XO (XO (XO (XI (XI (XI (XO
    XH)))))))))))), R) :: ((((Npos (XO (XO (XI (XO (XO (XO (XI (XI (XI (XO
    XH))))))))))), (Npos (XI (XO (XI (XO (XO (XO (XI (XI (XI (XO
    XH)))))))))))), NSM) :: ((((Npos (XO (XI (XI (XO (XO (XO (XI (XI (XI (XO
    XH))))))))))), (Npos (XO (XI (XI (XO (XO (XO (XI (XI (XI (XO
    XH)))))))))))), R) :: ((((Npos (XI (XI (XI (XO (XO (XO (XI (XI (XI (XO
    XH))))))))))), (Npos (XI (XI (XI (XO (XO (XO (XI (XI (XI (XO
    XH)))))))))))), NSM) :: ((((Npos (XO (XO (XO (XI (XO (XO (XI (XI (XI (XO
    XH))))))))))), (Npos (XI (XI (XI (XI (XI (XI (XI (XI (XI (XO
    XH)))))))))))), R) :: ((((Npos (XO (XO (XO (XO (XO (XO (XO (XO (XO (XI
    XH))))))))))), (Npos (XI (XO (XI (XO (XO (XO (XO (XO (XO (XI
    XH)))))))))))), AN) :: ((((Npos (XO (XI (XI (XO (XO (XO (XO (XO (XO (XI
    XH))))))))))), (Npos (XI (XI (XI (XO (XO (XO (XO (XO (XO (XI
    XH)))))))))))), ON) :: ((((Npos (XO (XO (XO (XI (XO (XO (XO (XO (XO (XI
    XH))))))))))), (Npos (XO (XO (XO (XI (XO (XO (XO (XO (XO (XI
    XH)))))))))))), AL) :: ((((Npos (XI (XO (XO (XI (XO (XO (XO (XO (XO (XI
    XH))))))))))), (Npos (XO (XI (XO (XI (XO (XO (XO (XO (XO (XI
    XH)))))))))))), ET) :: ((((Npos (XI (XI (XO (XI (XO (XO (XO (XO (XO (XI
    XH))))))))))), (Npos (XI (XI (XO (XI (XO (XO (XO (XO (XO (XI
    XH)))))))))))), AL) :: ((((Npos (XO (XO (XI (XI (XO (XO (XO (XO (XO (XI
    XH))))))))))), (Npos (XO (XO (XI (XI (XO (XO (XO (XO (XO (XI
    XH)))))))))))), CS) :: ((((Npos (XI (XO (XI (XI (XO (XO (XO (XO (XO (XI
    XH))))))))))), (Npos (XI (XO (XI (XI (XO (XO (XO (XO (XO (XI
    XH)))))))))))), AL) :: ((((Npos (XO (XI (XI (XI (XO (XO (XO (XO (XO (XI
    XH))))))))))), (Npos (XI (XI (XI (XI (XO (XO (XO (XO (XO (XI
    XH)))))))))))), ON) :: ((((Npos (XO (XO (XO (XO (XI (XO (XO (XO (XO (XI
    XH))))))))))), (Npos (XO (XI (XO (XI (XI (XO (XO (XO (XO (XI
    XH)))))))))))), NSM) :: ((((Npos (XI (XI (XO (XI (XI (XO (XO (XO (XO (XI
    XH))))))))))), (Npos (XO (XI (XO (XI (XO (XO (XI (XO (XO (XI
    XH)))))))))))), AL) :: ((((Npos (XI (XI (XO (XI (XO (XO (XI (XO (XO (XI
    XH))))))))))), (Npos (XI (XI (XI (XI (XI (XO (XI (XO (XO (XI
    XH)))))))))))), NSM) :: ((((Npos (XO (XO (XO (XO (XO (XI (XI (XO (XO (XI
    XH))))))))))), (Npos (XI (XO (XO (XI (XO (XI (XI (XO (XO (XI
    XH)))))))))))), AN) :: ((((Npos (XO (XI (XO (XI (XO (XI (XI (XO (XO (XI
    XH))))))))))), (Npos (XO (XI (XO (XI (XO (XI (XI (XO (XO (XI
    XH)))))))))))), ET) :: ((((Npos (XI (XI (XO (XI (XO (XI (XI (XO (XO (XI
    XH))))))))))), (Npos (XO (XO (XI (XI (XO (XI (XI (XO (XO (XI
    XH)))))))))))), AN) :: ((((Npos (XI (XO (XI (XI (XO (XI (XI (XO (XO (XI
    XH))))))))))), (Npos (XI (XI (XI (XI (XO (XI (XI (XO (XO (XI
    XH)))))))))))), AL) :: ((((Npos (XO (XO (XO (XO (XI (XI (XI (XO (XO (XI
    XH))))))))))), (Npos (XO (XO (XO (XO (XI (XI (XI (XO (XO (XI
    XH)))))))))))), NSM) :: ((((Npos (XI (XO (XO (XO (XI (XI (XI (XO (XO (XI
    XH))))))))))), (Npos (XI (XO (XI (XO (XI (XO (XI (XI (XO (XI
    XH)))))))))))), AL) :: ((((Npos (XO (XI (XI (XO (XI (XO (XI (XI (XO (XI
    XH))))))))))), (Npos (XO (XO (XI (XI (XI (XO (XI (XI (XO (XI
    XH)))))))))))), NSM) :: ((((Npos (XI (XO (XI (XI (XI (XO (XI (XI (XO (XI
    XH))))))))))), (Npos (XI (XO (XI (XI (XI (XO (XI (XI (XO (XI
    XH)))))))))))), AN) :: ((((Npos (XO (XI (XI (XI (XI (XO (XI (XI (XO (XI
    XH))))))))))), (Npos (XO (XI (XI (XI (XI (XO (XI (XI (XO (XI
    XH)))))))))))), ON) :: ((((Npos (XI (XI (XI (XI (XI (XO (XI (XI (XO (XI
    XH))))))))))), (Npos (XO (XO (XI (XO (XO (XI (XI (XI (XO (XI
    XH)))))))))))), NSM) :: ((((Npos (XI (XO (XI (XO (XO (XI (XI (XI (XO (XI
    XH))))))))))), (Npos (XO (XI (XI (XO (XO (XI (XI (XI (XO (XI
    XH)))))))))))), AL) :: ((((Npos (XI (XI (XI (XO (XO (XI (XI (XI (XO (XI
    XH))))))))))), (Npos (XO (XO (XO (XI (XO (XI (XI (XI (XO (XI
    XH)))))))))))), NSM) :: ((((Npos (XI (XO (XO (XI (XO (XI (XI (XI (XO (XI
    XH))))))))))), (Npos (XI (XO (XO (XI (XO (XI (XI (XI (XO (XI
    XH)))))))))))), ON) :: ((((Npos (XO (XI (XO (XI (XO (XI (XI (XI (XO (XI
    XH))))))))))), (Npos (XI (XO (XI (XI (XO (XI (XI (XI (XO (XI
    XH)))))))))))), NSM) :: ((((Npos (XO (XI (XI (XI (XO (XI (XI (XI (XO (XI
    XH))))))))))), (Npos (XI (XI (XI (XI (XO (XI (XI (XI (XO (XI
    XH)))))))))))), AL) :: ((((Npos (XO (XO (XO (XO (XI (XI (XI (XI (XO (XI
    XH))))))))))), (Npos (XI (XO (XO (XI (XI (XI (XI (XI (XO (XI
    XH)))))))))))), EN) :: ((((Npos (XO (XI (XO (XI (XI (XI (XI (XI (XO (XI
    XH))))))))))), (Npos (XO (XO (XO (XO (XI (XO (XO (XO (XI (XI
    XH)))))))))))), AL) :: ((((Npos (XI (XO (XO (XO (XI (XO (XO (XO (XI (XI
    XH))))))))))), (Npos (XI (XO (XO (XO (XI (XO (XO (XO (XI (XI
    XH)))))))))))), NSM) :: ((((Npos (XO (XI (XO (XO (XI (XO (XO (XO (XI (XI
    XH))))))))))), (Npos (XI (XI (XI (XI (XO (XI (XO (XO (XI (XI
    XH)))))))))))), AL) :: ((((Npos (XO (XO (XO (XO (XI (XI (XO (XO (XI (XI
    XH))))))))))), (Npos (XO (XI (XO (XI (XO (XO (XI (XO (XI (XI
    XH)))))))))))), NSM) :: ((((Npos (XI (XI (XO (XI (XO (XO (XI (XO (XI (XI
    XH))))))))))), (Npos (XI (XO (XI (XO (XO (XI (XO (XI (XI (XI
    XH)))))))))))), AL) :: ((((Npos (XO (XI (XI (XO (XO (XI (XO (XI (XI (XI
    XH))))))))))), (Npos (XO (XO (XO (XO (XI (XI (XO (XI (XI (XI
    XH)))))))))))), NSM) :: ((((Npos (XI (XO (XO (XO (XI (XI (XO (XI (XI (XI
    XH))))))))))), (Npos (XI (XI (XI (XI (XI (XI (XO (XI (XI (XI
    XH)))))))))))), AL) :: ((((Npos (XO (XO (XO (XO (XO (XO (XI (XI (XI (XI
    XH))))))))))), (Npos (XO (XI (XO (XI (XO (XI (XI (XI (XI (XI
    XH)))))))))))), R) :: ((((Npos (XI (XI (XO (XI (XO (XI (XI (XI (XI (XI
    XH))))))))))), (Npos (XI (XI (XO (XO (XI (XI (XI (XI (XI (XI
    XH)))))))))))), NSM) :: ((((Npos (XO (XO (XI (XO (XI (XI (XI (XI (XI (XI
    XH))))))))))), (Npos (XI (XO (XI (XO (XI (XI (XI (XI (XI (XI
    XH)))))))))))), R) :: ((((Npos (XO (XI (XI (XO (XI (XI (XI (XI (XI (XI
    XH))))))))))), (Npos (XI (XO (XO (XI (XI (XI (XI (XI (XI (XI
    XH)))))))))))), ON) :: ((((Npos (XO (XI (XO (XI (XI (XI (XI (XI (XI (XI
    XH))))))))))), (Npos (XO (XO (XI (XI (XI (XI (XI (XI (XI (XI
    XH)))))))))))), R) :: ((((Npos (XI (XO (XI (XI (XI (XI (XI (XI (XI (XI
    XH))))))))))), (Npos (XI (XO (XI (XI (XI (XI (XI (XI (XI (XI
    XH)))))))))))), NSM) :: ((((Npos (XO (XI (XI (XI (XI (XI (XI (XI (XI (XI
    XH))))))))))), (Npos (XI (XO (XI (XO (XI (XO (XO (XO (XO (XO (XO
    XH))))))))))))), R) :: ((((Npos (XO (XI (XI (XO (XI (XO (XO (XO (XO (XO
    (XO XH)))))))))))), (Npos (XI (XO (XO (XI (XI (XO (XO (XO (XO (XO (XO
    XH))))))))))))), NSM) :: ((((Npos (XO (XI (XO (XI (XI (XO (XO (XO (XO (XO
    (XO XH)))))))))))), (Npos (XO (XI (XO (XI (XI (XO (XO (XO (XO (XO (XO
    XH))))))))))))), R) :: ((((Npos (XI (XI (XO (XI (XI (XO (XO (XO (XO (XO
    (XO XH)))))))))))), (Npos (XI (XI (XO (XO (XO (XI (XO (XO (XO (XO (XO
    XH))))))))))))), NSM) :: ((((Npos (XO (XO (XI (XO (XO (XI (XO (XO (XO (XO
    (XO XH)))))))))))), (Npos (XO (XO (XI (XO (XO (XI (XO (XO (XO (XO (XO
    XH))))))))))))), R) :: ((((Npos (XI (XO (XI (XO (XO (XI (XO (XO (XO (XO
    (XO XH)))))))))))), (Npos (XI (XI (XI (XO (XO (XI (XO (XO (XO (XO (XO
    XH))))))))))))), NSM) :: ((((Npos (XO (XO (XO (XI (XO (XI (XO (XO (XO (XO
    (XO XH)))))))))))), (Npos (XO (XO (XO (XI (XO (XI (XO (XO (XO (XO (XO
    XH))))))))))))), R) :: ((((Npos (XI (XO (XO (XI (XO (XI (XO (XO (XO (XO
    (XO XH)))))))))))), (Npos (XI (XO (XI (XI (XO (XI (XO (XO (XO (XO (XO
    XH))))))))))))), NSM) :: ((((Npos (XO (XI (XI (XI (XO (XI (XO (XO (XO (XO
    (XO XH)))))))))))), (Npos (XO (XO (XO (XI (XI (XO (XI (XO (XO (XO (XO
    XH))))))))))))), R) :: ((((Npos (XI (XO (XO (XI (XI (XO (XI (XO (XO (XO
    (XO XH)))))))))))), (Npos (XI (XI (XO (XI (XI (XO (XI (XO (XO (XO (XO
    XH))))))))))))), NSM) :: ((((Npos (XO (XO (XI (XI (XI (XO (XI (XO (XO (XO
    (XO XH)))))))))))), (Npos (XI (XI (XI (XI (XI (XO (XI (XO (XO (XO (XO
    XH))))))))))))), R) :: ((((Npos (XO (XO (XO (XO (XO (XI (XI (XO (XO (XO
    (XO XH)))))))))))), (Npos (XO (XI (XO (XI (XO (XI (XI (XO (XO (XO (XO
    XH))))))))))))), AL) :: ((((Npos (XI (XI (XO (XI (XO (XI (XI (XO (XO (XO
    (XO XH)))))))))))), (Npos (XI (XI (XI (XI (XO (XI (XI (XO (XO (XO (XO
    XH))))))))))))), R) :: ((((Npos (XO (XO (XO (XO (XI (XI (XI (XO (XO (XO
    (XO XH)))))))))))), (Npos (XO (XI (XI (XI (XO (XO (XO (XI (XO (XO (XO
    XH))))))))))))), AL) :: ((((Npos (XI (XI (XI (XI (XO (XO (XO (XI (XO (XO
    (XO XH)))))))))))), (Npos (XI (XI (XI (XI (XO (XO (XO (XI (XO (XO (XO
    XH))))))))))))), R) :: ((((Npos (XO (XO (XO (XO (XI (XO (XO (XI (XO (XO
    (XO XH)))))))))))), (Npos (XI (XO (XO (XO (XI (XO (XO (XI (XO (XO (XO
    XH))))))))))))), AN) :: ((((Npos (XO (XI (XO (XO (XI (XO (XO (XI (XO (XO
    (XO XH)))))))))))), (Npos (XO (XI (XI (XO (XI (XO (XO (XI (XO (XO (XO
    XH))))))))))))), R) :: ((((Npos (XI (XI (XI (XO (XI (XO (XO (XI (XO (XO
    (XO XH)))))))))))), (Npos (XI (XI (XI (XI (XI (XO (XO (XI (XO (XO (XO
    XH))))))))))))), NSM) :: ((((Npos (XO (XO (XO (XO (XO (XI (XO (XI (XO (XO
    (XO XH)))))))))))), (Npos (XI (XO (XO (XI (XO (XO (XI (XI (XO (XO (XO
    XH))))))))))))), AL) :: ((((Npos (XO (XI (XO (XI (XO (XO (XI (XI (XO (XO
    (XO XH)))))))))))), (Npos (XI (XO (XO (XO (XO (XI (XI (XI (XO (XO (XO
    XH))))))))))))), NSM) :: ((((Npos (XO (XI (XO (XO (XO (XI (XI (XI (XO (XO
    (XO XH)))))))))))), (Npos (XO (XI (XO (XO (XO (XI (XI (XI (XO (XO (XO
    XH))))))))))))), AN) :: ((((Npos (XI (XI (XO (XO (XO (XI (XI (XI (XO (XO
    (XO XH)))))))))))), (Npos (XO (XI (XO (XO (XO (XO (XO (XO (XI (XO (XO
    XH))))))))))))), NSM) :: ((((Npos (XI (XI (XO (XO (XO (XO (XO (XO (XI (XO
    (XO XH)))))))))))), (Npos (XI (XO (XO (XI (XI (XI (XO (XO (XI (XO (XO
    XH))))))))))))), L) :: ((((Npos (XO (XI (XO (XI (XI (XI (XO (XO (XI (XO
    (XO XH)))))))))))), (Npos (XO (XI (XO (XI (XI (XI (XO (XO (XI (XO (XO
    XH))))))))))))), NSM) :: ((((Npos (XI (XI (XO (XI (XI (XI (XO (XO (XI (XO
    (XO XH)))))))))))), (Npos (XI (XI (XO (XI (XI (XI (XO (XO (XI (XO (XO
    XH))))))))))))), L) :: ((((Npos (XO (XO (XI (XI (XI (XI (XO (XO (XI (XO
    (XO XH)))))))))))), (Npos (XO (XO (XI (XI (XI (XI (XO (XO (XI (XO (XO
    XH))))))))))))), NSM) :: ((((Npos (XI (XO (XI (XI (XI (XI (XO (XO (XI (XO
    (XO XH)))))))))))), (Npos (XO (XO (XO (XO (XO (XO (XI (XO (XI (XO (XO
    XH))))))))))))), L) :: ((((Npos (XI (XO (XO (XO (XO (XO (XI (XO (XI (XO
    (XO XH)))))))))))), (Npos (XO (XO (XO (XI (XO (XO (XI (XO (XI (XO (XO
    XH))))))))))))), NSM) :: ((((Npos (XI (XO (XO (XI (XO (XO (XI (XO (XI (XO
    (XO XH)))))))))))), (Npos (XO (XO (XI (XI (XO (XO (XI (XO (XI (XO (XO
    XH))))))))))))), L) :: ((((Npos (XI (XO (XI (XI (XO (XO (XI (XO (XI (XO
    (XO XH)))))))))))), (Npos (XI (XO (XI (XI (XO (XO (XI (XO (XI (XO (XO
    XH))))))))))))), NSM) :: ((((Npos (XO (XI (XI (XI (XO (XO (XI (XO (XI (XO
    (XO XH)))))))))))), (Npos (XO (XO (XO (XO (XI (XO (XI (XO (XI (XO (XO
    XH))))))))))))), L) :: ((((Npos (XI (XO (XO (XO (XI (XO (XI (XO (XI (XO
    (XO XH)))))))))))), (Npos (XI (XI (XI (XO (XI (XO (XI (XO (XI (XO (XO
    XH))))))))))))), NSM) :: ((((Npos (XO (XO (XO (XI (XI (XO (XI (XO (XI (XO
    (XO XH)))))))))))), (Npos (XI (XO (XO (XO (XO (XI (XI (XO (XI (XO (XO
    XH))))))))))))), L) :: ((((Npos (XO (XI (XO (XO (XO (XI (XI (XO (XI (XO
    (XO XH)))))))))))), (Npos (XI (XI (XO (XO (XO (XI (XI (XO (XI (XO (XO
    XH))))))))))))), NSM) :: ((((Npos (XO (XO (XI (XO (XO (XI (XI (XO (XI (XO
    (XO XH)))))))))))), (Npos (XO (XO (XO (XO (XO (XO (XO (XI (XI (XO (XO
    XH))))))))))))), L) :: ((((Npos (XI (XO (XO (XO (XO (XO (XO (XI (XI (XO
    (XO XH)))))))))))), (Npos (XI (XO (XO (XO (XO (XO (XO (XI (XI (XO (XO
    XH))))))))))))), NSM) :: ((((Npos (XO (XI (XO (XO (XO (XO (XO (XI (XI (XO
    (XO XH)))))))))))), (Npos (XI (XI (XO (XO (XO (XO (XO (XI (XI (XO (XO
    XH))))))))))))), L) :: ((((Npos (XI (XO (XI (XO (XO (XO (XO (XI (XI (XO
    (XO XH)))))))))))), (Npos (XO (XO (XI (XI (XO (XO (XO (XI (XI (XO (XO
    XH))))))))))))), L) :: ((((Npos (XI (XI (XI (XI (XO (XO (XO (XI (XI (XO
    (XO XH)))))))))))), (Npos (XO (XO (XO (XO (XI (XO (XO (XI (XI (XO (XO
    XH))))))))))))), L) :: ((((Npos (XI (XI (XO (XO (XI (XO (XO (XI (XI (XO
    (XO XH)))))))))))), (Npos (XO (XO (XO (XI (XO (XI (XO (XI (XI (XO (XO
    XH))))))))))))), L) :: ((((Npos (XO (XI (XO (XI (XO (XI (XO (XI (XI (XO
    (XO XH)))))))))))), (Npos (XO (XO (XO (XO (XI (XI (XO (XI (XI (XO (XO
    XH))))))))))))), L) :: ((((Npos (XO (XI (XO (XO (XI (XI (XO (XI (XI (XO
    (XO XH)))))))))))), (Npos (XO (XI (XO (XO (XI (XI (XO (XI (XI (XO (XO
    XH))))))))))))), L) :: ((((Npos (XO (XI (XI (XO (XI (XI (XO (XI (XI (XO
    (XO XH)))))))))))), (Npos (XI (XO (XO (XI (XI (XI (XO (XI (XI (XO (XO
    XH))))))))))))), L) :: ((((Npos (XO (XO (XI (XI (XI (XI (XO (XI (XI (XO
    (XO XH)))))))))))), (Npos (XO (XO (XI (XI (XI (XI (XO (XI (XI (XO (XO
    XH))))))))))))), NSM) :: ((((Npos (XI (XO (XI (XI (XI (XI (XO (XI (XI (XO
    (XO XH)))))))))))), (Npos (XO (XO (XO (XO (XO (XO (XI (XI (XI (XO (XO
    XH))))))))))))), L) :: ((((Npos (XI (XO (XO (XO (XO (XO (XI (XI (XI (XO
    (XO XH)))))))))))), (Npos (XO (XO (XI (XO (XO (XO (XI (XI (XI (XO (XO
    XH))))))))))))), NSM) :: ((((Npos (XI (XI (XI (XO (XO (XO (XI (XI (XI (XO
    (XO XH)))))))))))), (Npos (XO (XO (XO (XI (XO (XO (XI (XI (XI (XO (XO
    XH))))))))))))), L) :: ((((Npos (XI (XI (XO (XI (XO (XO (XI (XI (XI (XO
    (XO XH)))))))))))), (Npos (XO (XO (XI (XI (XO (XO (XI (XI (XI (XO (XO
    XH))))))))))))), L) :: ((((Npos (XI (XO (XI (XI (XO (XO (XI (XI (XI (XO
    (XO XH)))))))))))), (Npos (XI (XO (XI (XI (XO (XO (XI (XI (XI (XO (XO
    XH))))))))))))), NSM) :: ((((Npos (XO (XI (XI (XI (XO (XO (XI (XI (XI (XO
    (XO XH)))))))))))), (Npos (XO (XI (XI (XI (XO (XO (XI (XI (XI (XO (XO
    XH))))))))))))), L) :: ((((Npos (XI (XI (XI (XO (XI (XO (XI (XI (XI (XO
    (XO XH)))))))))))), (Npos (XI (XI (XI (XO (XI (XO (XI (XI (XI (XO (XO
    XH))))))))))))), L) :: ((((Npos (XO (XO (XI (XI (XI (XO (XI (XI (XI (XO
    (XO XH)))))))))))), (Npos (XI (XO (XI (XI (XI (XO (XI (XI (XI (XO (XO
    XH))))))))))))), L) :: ((((Npos (XI (XI (XI (XI (XI (XO (XI (XI (XI (XO
    (XO XH)))))))))))), (Npos (XI (XO (XO (XO (XO (XI (XI (XI (XI (XO (XO
    XH))))))))))))), L) :: ((((Npos (XO (XI (XO (XO (XO (XI (XI (XI (XI (XO
    (XO XH)))))))))))), (Npos (XI (XI (XO (XO (XO (XI (XI (XI (XI (XO (XO
    XH))))))))))))), NSM) :: ((((Npos (XO (XI (XI (XO (XO (XI (XI (XI (XI (XO
    (XO XH)))))))))))), (Npos (XI (XO (XO (XO (XI (XI (XI (XI (XI (XO (XO
    XH))))))))))))), L) :: ((((Npos (XO (XI (XO (XO (XI (XI (XI (XI (XI (XO
    (XO XH)))))))))))), (Npos (XI (XI (XO (XO (XI (XI (XI (XI (XI (XO (XO
    XH))))))))))))), ET) :: ((((Npos (XO (XO (XI (XO (XI (XI (XI (XI (XI (XO
    (XO XH)))))))))))), (Npos (XO (XI (XO (XI (XI (XI (XI (XI (XI (XO (XO
    XH))))))))))))), L) :: ((((Npos (XI (XI (XO (XI (XI (XI (XI (XI (XI (XO
    (XO XH)))))))))))), (Npos (XI (XI (XO (XI (XI (XI (XI (XI (XI (XO (XO
    XH))))))))))))), ET) :: ((((Npos (XO (XO (XI (XI (XI (XI (XI (XI (XI (XO
    (XO XH)))))))))))), (Npos (XI (XO (XI (XI (XI (XI (XI (XI (XI (XO (XO
    XH))))))))))))), L) :: ((((Npos (XO (XI (XI (XI (XI (XI (XI (XI (XI (XO
    (XO XH)))))))))))), (Npos (XO (XI (XI (XI (XI (XI (XI (XI (XI (XO (XO
    XH))))))))))))), NSM) :: ((((Npos (XI (XO (XO (XO (XO (XO (XO (XO (XO (XI
    (XO XH)))))))))))), (Npos (XO (XI (XO (XO (XO (XO (XO (XO (XO (XI (XO
    XH))))))))))))), NSM) :: ((((Npos (XI (XI (XO (XO (XO (XO (XO (XO (XO (XI
    (XO XH)))))))))))), (Npos (XI (XI (XO (XO (XO (XO (XO (XO (XO (XI (XO
    XH))))))))))))), L) :: ((((Npos (XI (XO (XI (XO (XO (XO (XO (XO (XO (XI
    (XO XH)))))))))))), (Npos (XO (XI (XO (XI (XO (XO (XO (XO (XO (XI (XO
    XH))))))))))))), L) :: ((((Npos (XI (XI (XI (XI (XO (XO (XO (XO (XO (XI
    (XO XH)))))))))))), (Npos (XO (XO (XO (XO (XI (XO (XO (XO (XO (XI (XO
    XH))))))))))))), L) :: ((((Npos (XI (XI (XO (XO (XI (XO (XO (XO (XO (XI
    (XO XH)))))))))))), (Npos (XO (XO (XO (XI (XO (XI (XO (XO (XO (XI (XO
    XH))))))))))))), L) :: ((((Npos (XO (XI (XO (XI (XO (XI (XO (XO (XO (XI
    (XO XH)))))))))))), (Npos (XO (XO (XO (XO (XI (XI (XO (XO (XO (XI (XO
    XH))))))))))))), L) :: ((((Npos (XO (XI (XO (XO (XI (XI (XO (XO (XO (XI
    (XO XH)))))))))))), (Npos (XI (XI (XO (XO (XI (XI (XO (XO (XO (XI (XO
    XH))))))))))))), L) :: ((((Npos (XI (XO (XI (XO (XI (XI (XO (XO (XO (XI
    (XO XH)))))))))))), (Npos (XO (XI (XI (XO (XI (XI (XO (XO (XO (XI (XO
    XH))))))))))))), L) :: ((((Npos (XO (XO (XO (XI (XI (XI (XO (XO (XO (XI
    (XO XH)))))))))))), (Npos (XI (XO (XO (XI (XI (XI (XO (XO (XO (XI (XO
    XH))))))))))))), L) :: ((((Npos (XO (XO (XI (XI (XI (XI (XO (XO (XO (XI
    (XO XH)))))))))))), (Npos (XO (XO (XI (XI (XI (XI (XO (XO (XO (XI (XO
    XH))))))))))))), NSM) :: ((((Npos (XO (XI (XI (XI (XI (XI (XO (XO (XO (XI
    (XO XH)))))))))))), (Npos (XO (XO (XO (XO (XO (XO (XI (XO (XO (XI (XO
    XH))))))))))))), L) :: ((((Npos (XI (XO (XO (XO (XO (XO (XI (XO (XO (XI
    (XO XH)))))))))))), (Npos (XO (XI (XO (XO (XO (XO (XI (XO (XO (XI (XO
    XH))))))))))))), NSM) :: ((((Npos (XI (XI (XI (XO (XO (XO (XI (XO (XO (XI
    (XO XH)))))))))))), (Npos (XO (XO (XO (XI (XO (XO (XI (XO (XO (XI (XO
    XH))))))))))))), NSM) :: ((((Npos (XI (XI (XO (XI (XO (XO (XI (XO (XO (XI
    (XO XH)))))))))))), (Npos (XI (XO (XI (XI (XO (XO (XI (XO (XO (XI (XO
    XH))))))))))))), NSM) :: ((((Npos (XI (XO (XO (XO (XI (XO (XI (XO (XO (XI
    (XO XH)))))))))))), (Npos (XI (XO (XO (XO (XI (XO (XI (XO (XO (XI (XO
    XH))))))))))))), NSM) :: ((((Npos (XI (XO (XO (XI (XI (XO (XI (XO (XO (XI
    (XO XH)))))))))))), (Npos (XO (XO (XI (XI (XI (XO (XI (XO (XO (XI (XO
    XH))))))))))))), L) :: ((((Npos (XO (XI (XI (XI (XI (XO (XI (XO (XO (XI
    (XO XH)))))))))))), (Npos (XO (XI (XI (XI (XI (XO (XI (XO (XO (XI (XO
    XH))))))))))))), L) :: ((((Npos (XO (XI (XI (XO (XO (XI (XI (XO (XO (XI
    (XO XH)))))))))))), (Npos (XI (XI (XI (XI (XO (XI (XI (XO (XO (XI (XO
    XH))))))))))))), L) :: ((((Npos (XO (XO (XO (XO (XI (XI (XI (XO (XO (XI
    (XO XH)))))))))))), (Npos (XI (XO (XO (XO (XI (XI (XI (XO (XO (XI (XO
    XH))))))))))))), NSM) :: ((((Npos (XO (XI (XO (XO (XI (XI (XI (XO (XO (XI
    (XO XH)))))))))))), (Npos (XO (XO (XI (XO (XI (XI (XI (XO (XO (XI (XO
    XH))))))))))))), L) :: ((((Npos (XI (XO (XI (XO (XI (XI (XI (XO (XO (XI
    (XO XH)))))))))))), (Npos (XI (XO (XI (XO (XI (XI (XI (XO (XO (XI (XO
    XH))))))))))))), NSM) :: ((((Npos (XO (XI (XI (XO (XI (XI (XI (XO (XO (XI
    (XO XH)))))))))))), (Npos (XO (XI (XI (XO (XI (XI (XI (XO (XO (XI (XO
    XH))))))))))))), L) :: ((((Npos (XI (XO (XO (XO (XO (XO (XO (XI (XO (XI
    (XO XH)))))))))))), (Npos (XO (XI (XO (XO (XO (XO (XO (XI (XO (XI (XO
    XH))))))))))))), NSM) :: ((((Npos (XI (XI (XO (XO (XO (XO (XO (XI (XO (XI
    (XO XH)))))))))))), (Npos (XI (XI (XO (XO (XO (XO (XO (XI (XO (XI (XO
    XH))))))))))))), L) :: ((((Npos (XI (XO (XI (XO (XO (XO (XO (XI (XO (XI
    (XO XH)))))))))))), (Npos (XI (XO (XI (XI (XO (XO (XO (XI (XO (XI (XO
    XH))))))))))))), L) :: ((((Npos (XI (XI (XI (XI (XO (XO (XO (XI (XO (XI
    (XO XH)))))))))))), (Npos (XI (XO (XO (XO (XI (XO (XO (XI (XO (XI (XO
    XH))))))))))))), L) :: ((((Npos (XI (XI (XO (XO (XI (XO (XO (XI (XO (XI
    (XO XH)))))))))))), (Npos (XO (XO (XO (XI (XO (XI (XO (XI (XO (XI (XO
    XH))))))))))))), L) :: ((((Npos (XO (XI (XO (XI (XO (XI (XO (XI (XO (XI
    (XO XH)))))))))))), (Npos (XO (XO (XO (XO (XI (XI (XO (XI (XO (XI (XO
    XH))))))))))))), L) :: ((((Npos (XO (XI (XO (XO (XI (XI (XO (XI (XO (XI
    (XO XH)))))))))))), (Npos (XI (XI (XO (XO (XI (XI (XO (XI (XO (XI (XO
    XH))))))))))))), L) :: ((((Npos (XI (XO (XI (XO (XI (XI (XO (XI (XO (XI
    (XO XH)))))))))))), (Npos (XI (XO (XO (XI (XI (XI (XO (XI (XO (XI (XO
    XH))))))))))))), L) :: ((((Npos (XO (XO (XI (XI (XI (XI (XO (XI (XO (XI
    (XO XH)))))))))))), (Npos (XO (XO (XI (XI (XI (XI (XO (XI (XO (XI (XO
    XH))))))))))))), NSM) :: ((((Npos (XI (XO (XI (XI (XI (XI (XO (XI (XO (XI
    (XO XH)))))))))))), (Npos (XO (XO (XO (XO (XO (XO (XI (XI (XO (XI (XO
    XH))))))))))))), L) :: ((((Npos (XI (XO (XO (XO (XO (XO (XI (XI (XO (XI
    (XO XH)))))))))))), (Npos (XI (XO (XI (XO (XO (XO (XI (XI (XO (XI (XO
    XH))))))))))))), NSM) :: ((((Npos (XI (XI (XI (XO (XO (XO (XI (XI (XO (XI
    (XO XH)))))))))))), (Npos (XO (XO (XO (XI (XO (XO (XI (XI (XO (XI (XO
    XH))))))))))))), NSM) :: ((((Npos (XI (XO (XO (XI (XO (XO (XI (XI (XO (XI
    (XO XH)))))))))))), (Npos (XI (XO (XO (XI (XO (XO (XI (XI (XO (XI (XO
    XH))))))))))))), L) :: ((((Npos (XI (XI (XO (XI (XO (XO (XI (XI (XO (XI
    (XO XH)))))))))))), (Npos (XO (XO (XI (XI (XO (XO (XI (XI (XO (XI (XO
    XH))))))))))))), L) :: ((((Npos (XI (XO (XI (XI (XO (XO (XI (XI (XO (XI
    (XO XH)))))))))))), (Npos (XI (XO (XI (XI (XO (XO (XI (XI (XO (XI (XO
    XH))))))))))))), NSM) :: ((((Npos (XO (XO (XO (XO (XI (XO (XI (XI (XO (XI
    (XO XH)))))))))))), (Npos (XO (XO (XO (XO (XI (XO (XI (XI (XO (XI (XO
    XH))))))))))))), L) :: ((((Npos (XO (XO (XO (XO (XO (XI (XI (XI (XO (XI
    (XO XH)))))))))))), (Npos (XI (XO (XO (XO (XO (XI (XI (XI (XO (XI (XO
    XH))))))))))))), L) :: ((((Npos (XO (XI (XO (XO (XO (XI (XI (XI (XO (XI
    (XO XH)))))))))))), (Npos (XI (XI (XO (XO (XO (XI (XI (XI (XO (XI (XO
    XH))))))))))))), NSM) :: ((((Npos (XO (XI (XI (XO (XO (XI (XI (XI (XO (XI
    (XO XH)))))))))))), (Npos (XO (XO (XO (XO (XI (XI (XI (XI (XO (XI (XO
    XH))))))))))))), L) :: ((((Npos (XI (XO (XO (XO (XI (XI (XI (XI (XO (XI
    (XO XH)))))))))))), (Npos (XI (XO (XO (XO (XI (XI (XI (XI (XO (XI (XO
    XH))))))))))))), ET) :: ((((Npos (XI (XO (XO (XI (XI (XI (XI (XI (XO (XI
    (XO XH)))))))))))), (Npos (XI (XO (XO (XI (XI (XI (XI (XI (XO (XI (XO
    XH))))))))))))), L) :: ((((Npos (XO (XI (XO (XI (XI (XI (XI (XI (XO (XI
    (XO XH)))))))))))), (Npos (XI (XI (XI (XI (XI (XI (XI (XI (XO (XI (XO
    XH))))))))))))), NSM) :: ((((Npos (XI (XO (XO (XO (XO (XO (XO (XO (XI (XI
    (XO XH)))))))))))), (Npos (XI (XO (XO (XO (XO (XO (XO (XO (XI (XI (XO
    XH))))))))))))), NSM) :: ((((Npos (XO (XI (XO (XO (XO (XO (XO (XO (XI (XI
    (XO XH)))))))))))), (Npos (XI (XI (XO (XO (XO (XO (XO (XO (XI (XI (XO
    XH))))))))))))), L) :: ((((Npos (XI (XO (XI (XO (XO (XO (XO (XO (XI (XI
    (XO XH)))))))))))), (Npos (XO (XO (XI (XI (XO (XO (XO (XO (XI (XI (XO
    XH))))))))))))), L) :: ((((Npos (XI (XI (XI (XI (XO (XO (XO (XO (XI (XI
    (XO XH)))))))))))), (Npos (XO (XO (XO (XO (XI (XO (XO (XO (XI (XI (XO
    XH))))))))))))), L) :: ((((Npos (XI (XI (XO (XO (XI (XO (XO (XO (XI (XI
    (XO XH)))))))))))), (Npos (XO (XO (XO (XI (XO (XI (XO (XO (XI (XI (XO
    XH))))))))))))), L) :: ((((Npos (XO (XI (XO (XI (XO (XI (XO (XO (XI (XI
    (XO XH)))))))))))), (Npos (XO (XO (XO (XO (XI (XI (XO (XO (XI (XI (XO
    XH))))))))))))), L) :: ((((Npos (XO (XI (XO (XO (XI (XI (XO (XO (XI (XI
    (XO XH)))))))))))), (Npos (XI (XI (XO (XO (XI (XI (XO (XO (XI (XI (XO
    XH))))))))))))), L) :: ((((Npos (XI (XO (XI (XO (XI (XI (XO (XO (XI (XI
    (XO XH)))))))))))), (Npos (XI (XO (XO (XI (XI (XI (XO (XO (XI (XI (XO
    XH))))))))))))), L) :: ((((Npos (XO (XO (XI (XI (XI (XI (XO (XO (XI (XI
    (XO XH)))))))))))), (Npos (XO (XO (XI (XI (XI (XI (XO (XO (XI (XI (XO
    XH))))))))))))), NSM) :: ((((Npos (XI (XO (XI (XI (XI (XI (XO (XO (XI (XI
    (XO XH)))))))))))), (Npos (XO (XI (XI (XI (XI (XI (XO (XO (XI (XI (XO
    XH))))))))))))), L) :: ((((Npos (XI (XI (XI (XI (XI (XI (XO (XO (XI (XI
    (XO XH)))))))))))), (Npos (XI (XI (XI (XI (XI (XI (XO (XO (XI (XI (XO
    XH))))))))))))), NSM) :: ((((Npos (XO (XO (XO (XO (XO (XO (XI (XO (XI (XI
    (XO XH)))))))))))), (Npos (XO (XO (XO (XO (XO (XO (XI (XO (XI (XI (XO
    XH))))))))))))), L) :: ((((Npos (XI (XO (XO (XO (XO (XO (XI (XO (XI (XI
    (XO XH)))))))))))), (Npos (XO (XO (XI (XO (XO (XO (XI (XO (XI (XI (XO
    XH))))))))))))), NSM) :: ((((Npos (XI (XI (XI (XO (XO (XO (XI (XO (XI (XI
    (XO XH)))))))))))), (Npos (XO (XO (XO (XI (XO (XO (XI (XO (XI (XI (XO
    XH))))))))))))), L) :: ((((Npos (XI (XI (XO (XI (XO (XO (XI (XO (XI (XI
    (XO XH)))))))))))), (Npos (XO (XO (XI (XI (XO (XO (XI (XO (XI (XI (XO
    XH))))))))))))), L) :: ((((Npos (XI (XO (XI (XI (XO (XO (XI (XO (XI (XI
    (XO XH)))))))))))), (Npos (XI (XO (XI (XI (XO (XO (XI (XO (XI (XI (XO
    XH))))))))))))), NSM) :: ((((Npos (XI (XO (XI (XO (XI (XO (XI (XO (XI (XI
    (XO XH)))))))))))), (Npos (XO (XI (XI (XO (XI (XO (XI (XO (XI (XI (XO
    XH))))))))))))), NSM) :: ((((Npos (XI (XI (XI (XO (XI (XO (XI (XO (XI (XI
    (XO XH)))))))))))), (Npos (XI (XI (XI (XO (XI (XO (XI (XO (XI (XI (XO
    XH))))))))))))), L) :: ((((Npos (XO (XO (XI (XI (XI (XO (XI (XO (XI (XI
    (XO XH)))))))))))), (Npos (XI (XO (XI (XI (XI (XO (XI (XO (XI (XI (XO
    XH))))))))))))), L) :: ((((Npos (XI (XI (XI (XI (XI (XO (XI (XO (XI (XI
    (XO XH)))))))))))), (Npos (XI (XO (XO (XO (XO (XI (XI (XO (XI (XI (XO
    XH))))))))))))), L) :: ((((Npos (XO (XI (XO (XO (XO (XI (XI (XO (XI (XI
    (XO XH)))))))))))), (Npos (XI (XI (XO (XO (XO (XI (XI (XO (XI (XI (XO
    XH))))))))))))), NSM) :: ((((Npos (XO (XI (XI (XO (XO (XI (XI (XO (XI (XI
    (XO XH)))))))))))), (Npos (XI (XI (XI (XO (XI (XI (XI (XO (XI (XI (XO
    XH))))))))))))), L) :: ((((Npos (XO (XI (XO (XO (XO (XO (XO (XI (XI (XI
    (XO XH)))))))))))), (Npos (XO (XI (XO (XO (XO (XO (XO (XI (XI (XI (XO
    XH))))))))))))), NSM) :: ((((Npos (XI (XI (XO (XO (XO (XO (XO (XI (XI (XI
    (XO XH)))))))))))), (Npos (XI (XI (XO (XO (XO (XO (XO (XI (XI (XI (XO
    XH))))))))))))), L) :: ((((Npos (XI (XO (XI (XO (XO (XO (XO (XI (XI (XI
    (XO XH)))))))))))), (Npos (XO (XI (XO (XI (XO (XO (XO (XI (XI (XI (XO
    XH))))))))))))), L) :: ((((Npos (XO (XI (XI (XI (XO (XO (XO (XI (XI (XI
    (XO XH)))))))))))), (Npos (XO (XO (XO (XO (XI (XO (XO (XI (XI (XI (XO
    XH))))))))))))), L) :: ((((Npos (XO (XI (XO (XO (XI (XO (XO (XI (XI (XI
    (XO XH)))))))))))), (Npos (XI (XO (XI (XO (XI (XO (XO (XI (XI (XI (XO
    XH))))))))))))), L) :: ((((Npos (XI (XO (XO (XI (XI (XO (XO (XI (XI (XI
    (XO XH)))))))))))), (Npos (XO (XI (XO (XI (XI (XO (XO (XI (XI (XI (XO
    XH))))))))))))), L) :: ((((Npos (XO (XO (XI (XI (XI (XO (XO (XI (XI (XI
    (XO XH)))))))))))), (Npos (XO (XO (XI (XI (XI (XO (XO (XI (XI (XI (XO
    XH))))))))))))), L) :: ((((Npos (XO (XI (XI (XI (XI (XO (XO (XI (XI (XI
    (XO XH)))))))))))), (Npos (XI (XI (XI (XI (XI (XO (XO (XI (XI (XI (XO
    XH))))))))))))), L) :: ((((Npos (XI (XI (XO (XO (XO (XI (XO (XI (XI (XI
    (XO XH)))))))))))), (Npos (XO (XO (XI (XO (XO (XI (XO (XI (XI (XI (XO
    XH))))))))))))), L) :: ((((Npos (XO (XO (XO (XI (XO (XI (XO (XI (XI (XI
    (XO XH)))))))))))), (Npos (XO (XI (XO (XI (XO (XI (XO (XI (XI (XI (XO
    XH))))))))))))), L) :: ((((Npos (XO (XI (XI (XI (XO (XI (XO (XI (XI (XI
    (XO XH)))))))))))), (Npos (XI (XO (XO (XI (XI (XI (XO (XI (XI (XI (XO
    XH))))))))))))), L) :: ((((Npos (XO (XI (XI (XI (XI (XI (XO (XI (XI (XI
    (XO XH)))))))))))), (Npos (XI (XI (XI (XI (XI (XI (XO (XI (XI (XI (XO
    XH))))))))))))), L) :: ((((Npos (XO (XO (XO (XO (XO (XO (XI (XI (XI (XI
    (XO XH)))))))))))), (Npos (XO (XO (XO (XO (XO (XO (XI (XI (XI (XI (XO
    XH))))))))))))), NSM) :: ((((Npos (XI (XO (XO (XO (XO (XO (XI (XI (XI (XI
    (XO XH)))))))))))), (Npos (XO (XI (XO (XO (XO (XO (XI (XI (XI (XI (XO
    XH))))))))))))), L) :: ((((Npos (XO (XI (XI (XO (XO (XO (XI (XI (XI (XI
    (XO XH)))))))))))), (Npos (XO (XO (XO (XI (XO (XO (XI (XI (XI (XI (XO
    XH))))))))))))), L) :: ((((Npos (XO (XI (XO (XI (XO (XO (XI (XI (XI (XI
    (XO XH)))))))))))), (Npos (XO (XO (XI (XI (XO (XO (XI (XI (XI (XI (XO
    XH))))))))))))), L) :: ((((Npos (XI (XO (XI (XI (XO (XO (XI (XI (XI (XI
    (XO XH)))))))))))), (Npos (XI (XO (XI (XI (XO (XO (XI (XI (XI (XI (XO
    XH))))))))))))), NSM) :: ((((Npos (XO (XO (XO (XO (XI (XO (XI (XI (XI (XI
    (XO XH)))))))))))), (Npos (XO (XO (XO (XO (XI (XO (XI (XI (XI (XI (XO
    XH))))))))))))), L) :: ((((Npos (XI (XI (XI (XO (XI (XO (XI (XI (XI (XI
    (XO XH)))))))))))), (Npos (XI (XI (XI (XO (XI (XO (XI (XI (XI (XI (XO
    XH))))))))))))), L) :: ((((Npos (XO (XI (XI (XO (XO (XI (XI (XI (XI (XI
    (XO XH)))))))))))), (Npos (XO (XI (XO (XO (XI (XI (XI (XI (XI (XI (XO
    XH))))))))))))), L) :: ((((Npos (XI (XI (XO (XO (XI (XI (XI (XI (XI (XI
    (XO XH)))))))))))), (Npos (XO (XO (XO (XI (XI (XI (XI (XI (XI (XI (XO
    XH))))))))))))), ON) :: ((((Npos (XI (XO (XO (XI (XI (XI (XI (XI (XI (XI
    (XO XH)))))))))))), (Npos (XI (XO (XO (XI (XI (XI (XI (XI (XI (XI (XO
    XH))))))))))))), ET) :: ((((Npos (XO (XI (XO (XI (XI (XI (XI (XI (XI (XI
    (XO XH)))))))))))), (Npos (XO (XI (XO (XI (XI (XI (XI (XI (XI (XI (XO
    XH))))))))))))), ON) :: ((((Npos (XO (XO (XO (XO (XO (XO (XO (XO (XO (XO
    (XI XH)))))))))))), (Npos (XO (XO (XO (XO (XO (XO (XO (XO (XO (XO (XI
    XH))))))))))))), NSM) :: ((((Npos (XI (XO (XO (XO (XO (XO (XO (XO (XO (XO
    (XI XH)))))))))))), (Npos (XI (XI (XO (XO (XO (XO (XO (XO (XO (XO (XI
    XH))))))))))))), L) :: ((((Npos (XO (XO (XI (XO (XO (XO (XO (XO (XO (XO
    (XI XH)))))))))))), (Npos (XO (XO (XI (XO (XO (XO (XO (XO (XO (XO (XI
    XH))))))))))))), NSM) :: ((((Npos (XI (XO (XI (XO (XO (XO (XO (XO (XO (XO
    (XI XH)))))))))))), (Npos (XO (XO (XI (XI (XO (XO (XO (XO (XO (XO (XI
    XH))))))))))))), L) :: ((((Npos (XO (XI (XI (XI (XO (XO (XO (XO (XO (XO
    (XI XH)))))))))))), (Npos (XO (XO (XO (XO (XI (XO (XO (XO (XO (XO (XI
    XH))))))))))))), L) :: ((((Npos (XO (XI (XO (XO (XI (XO (XO (XO (XO (XO
    (XI XH)))))))))))), (Npos (XO (XO (XO (XI (XO (XI (XO (XO (XO (XO (XI
    XH))))))))))))), L) :: ((((Npos (XO (XI (XO (XI (XO (XI (XO (XO (XO (XO
    (XI XH)))))))))))), (Npos (XI (XO (XO (XI (XI (XI (XO (XO (XO (XO (XI
    XH))))))))))))), L) :: ((((Npos (XO (XO (XI (XI (XI (XI (XO (XO (XO (XO
    (XI XH)))))))))))), (Npos (XO (XO (XI (XI (XI (XI (XO (XO (XO (XO (XI
    XH))))))))))))), NSM) :: ((((Npos (XI (XO (XI (XI (XI (XI (XO (XO (XO (XO
    (XI XH)))))))))))), (Npos (XI (XO (XI (XI (XI (XI (XO (XO (XO (XO (XI
    XH))))))))))))), L) :: ((((Npos (XO (XI (XI (XI (XI (XI (XO (XO (XO (XO
    (XI XH)))))))))))), (Npos (XO (XO (XO (XO (XO (XO (XI (XO (XO (XO (XI
    XH))))))))))))), NSM) :: ((((Npos (XI (XO (XO (XO (XO (XO (XI (XO (XO (XO
    (XI XH)))))))))))), (Npos (XO (XO (XI (XO (XO (XO (XI (XO (XO (XO (XI
    XH))))))))))))), L) :: ((((Npos (XO (XI (XI (XO (XO (XO (XI (XO (XO (XO
    (XI XH)))))))))))), (Npos (XO (XO (XO (XI (XO (XO (XI (XO (XO (XO (XI
    XH))))))))))))), NSM) :: ((((Npos (XO (XI (XO (XI (XO (XO (XI (XO (XO (XO
    (XI XH)))))))))))), (Npos (XI (XO (XI (XI (XO (XO (XI (XO (XO (XO (XI
    XH))))))))))))), NSM) :: ((((Npos (XI (XO (XI (XO (XI (XO (XI (XO (XO (XO
    (XI XH)))))))))))), (Npos (XO (XI (XI (XO (XI (XO (XI (XO (XO (XO (XI
    XH))))))))))))), NSM) :: ((((Npos (XO (XO (XO (XI (XI (XO (XI (XO (XO (XO
    (XI XH)))))))))))), (Npos (XO (XI (XO (XI (XI (XO (XI (XO (XO (XO (XI
    XH))))))))))))), L) :: ((((Npos (XI (XO (XI (XI (XI (XO (XI (XO (XO (XO
    (XI XH)))))))))))), (Npos (XI (XO (XI (XI (XI (XO (XI (XO (XO (XO (XI
    XH))))))))))))), L) :: ((((Npos (XO (XO (XO (XO (XO (XI (XI (XO (XO (XO
    (XI XH)))))))))))), (Npos (XI (XO (XO (XO (XO (XI (XI (XO (XO (XO (XI
    XH))))))))))))), L) :: ((((Npos (XO (XI (XO (XO (XO (XI (XI (XO (XO (XO
    (XI XH)))))))))))), (Npos (XI (XI (XO (XO (XO (XI (XI (XO (XO (XO (XI
    XH))))))))))))), NSM) :: ((((Npos (XO (XI (XI (XO (XO (XI (XI (XO (XO (XO
    (XI XH)))))))))))), (Npos (XI (XI (XI (XI (XO (XI (XI (XO (XO (XO (XI
    XH))))))))))))), L) :: ((((Npos (XI (XI (XI (XO (XI (XI (XI (XO (XO (XO
    (XI XH)))))))))))), (Npos (XI (XI (XI (XO (XI (XI (XI (XO (XO (XO (XI
    XH))))))))))))), L) :: ((((Npos (XO (XO (XO (XI (XI (XI (XI (XO (XO (XO
    (XI XH)))))))))))), (Npos (XO (XI (XI (XI (XI (XI (XI (XO (XO (XO (XI
    XH))))))))))))), ON) :: ((((Npos (XI (XI (XI (XI (XI (XI (XI (XO (XO (XO
    (XI XH)))))))))))), (Npos (XO (XO (XO (XO (XO (XO (XO (XI (XO (XO (XI
    XH))))))))))))), L) :: ((((Npos (XI (XO (XO (XO (XO (XO (XO (XI (XO (XO
    (XI XH)))))))))))), (Npos (XI (XO (XO (XO (XO (XO (XO (XI (XO (XO (XI
    XH))))))))))))), NSM) :: ((((Npos (XO (XI (XO (XO (XO (XO (XO (XI (XO (XO
    (XI XH)))))))))))), (Npos (XO (XO (XI (XI (XO (XO (XO (XI (XO (XO (XI
    XH))))))))))))), L) :: ((((Npos (XO (XI (XI (XI (XO (XO (XO (XI (XO (XO
    (XI XH)))))))))))), (Npos (XO (XO (XO (XO (XI (XO (XO (XI (XO (XO (XI
    XH))))))))))))), L) :: ((((Npos (XO (XI (XO (XO (XI (XO (XO (XI (XO (XO
    (XI XH)))))))))))), (Npos (XO (XO (XO (XI (XO (XI (XO (XI (XO (XO (XI
    XH))))))))))))), L) :: ((((Npos (XO (XI (XO (XI (XO (XI (XO (XI (XO (XO
    (XI XH)))))))))))), (Npos (XI (XI (XO (XO (XI (XI (XO (XI (XO (XO (XI
    XH))))))))))))), L) :: ((((Npos (XI (XO (XI (XO (XI (XI (XO (XI (XO (XO
    (XI XH)))))))))))), (Npos (XI (XO (XO (XI (XI (XI (XO (XI (XO (XO (XI
    XH))))))))))))), L) :: ((((Npos (XO (XO (XI (XI (XI (XI (XO (XI (XO (XO
    (XI XH)))))))))))), (Npos (XO (XO (XI (XI (XI (XI (XO (XI (XO (XO (XI
    XH))))))))))))), NSM) :: ((((Npos (XI (XO (XI (XI (XI (XI (XO (XI (XO (XO
    (XI XH)))))))))))), (Npos (XO (XO (XI (XO (XO (XO (XI (XI (XO (XO (XI
    XH))))))))))))), L) :: ((((Npos (XO (XI (XI (XO (XO (XO (XI (XI (XO (XO
    (XI XH)))))))))))), (Npos (XO (XO (XO (XI (XO (XO (XI (XI (XO (XO (XI
    XH))))))))))))), L) :: ((((Npos (XO (XI (XO (XI (XO (XO (XI (XI (XO (XO
    (XI XH)))))))))))), (Npos (XI (XI (XO (XI (XO (XO (XI (XI (XO (XO (XI
    XH))))))))))))), L) :: ((((Npos (XO (XO (XI (XI (XO (XO (XI (XI (XO (XO
    (XI XH)))))))))))), (Npos (XI (XO (XI (XI (XO (XO (XI (XI (XO (XO (XI
    XH))))))))))))), NSM) :: ((((Npos (XI (XO (XI (XO (XI (XO (XI (XI (XO (XO
    (XI XH)))))))))))), (Npos (XO (XI (XI (XO (XI (XO (XI (XI (XO (XO (XI
    XH))))))))))))), L) :: ((((Npos (XI (XO (XI (XI (XI (XO (XI (XI (XO (XO
    (XI XH)))))))))))), (Npos (XO (XI (XI (XI (XI (XO (XI (XI (XO (XO (XI
    XH))))))))))))), L) :: ((((Npos (XO (XO (XO (XO (XO (XI (XI (XI (XO (XO
    (XI XH)))))))))))), (Npos (XI (XO (XO (XO (XO (XI (XI (XI (XO (XO (XI
    XH))))))))))))), L) :: ((((Npos (XO (XI (XO (XO (XO (XI (XI (XI (XO (XO
    (XI XH)))))))))))), (Npos (XI (XI (XO (XO (XO (XI (XI (XI (XO (XO (XI
    XH))))))))))))), NSM) :: ((((Npos (XO (XI (XI (XO (XO (XI (XI (XI (XO (XO
    (XI XH)))))))))))), (Npos (XI (XI (XI (XI (XO (XI (XI (XI (XO (XO (XI
    XH))))))))))))), L) :: ((((Npos (XI (XO (XO (XO (XI (XI (XI (XI (XO (XO
    (XI XH)))))))))))), (Npos (XI (XI (XO (XO (XI (XI (XI (XI (XO (XO (XI
    XH))))))))))))), L) :: ((((Npos (XO (XO (XO (XO (XO (XO (XO (XO (XI (XO
    (XI XH)))))))))))), (Npos (XI (XO (XO (XO (XO (XO (XO (XO (XI (XO (XI
    XH))))))))))))), NSM) :: ((((Npos (XO (XI (XO (XO (XO (XO (XO (XO (XI (XO
    (XI XH)))))))))))), (Npos (XO (XO (XI (XI (XO (XO (XO (XO (XI (XO (XI
    XH))))))))))))), L) :: ((((Npos (XO (XI (XI (XI (XO (XO (XO (XO (XI (XO
    (XI XH)))))))))))), (Npos (XO (XO (XO (XO (XI (XO (XO (XO (XI (XO (XI
    XH))))))))))))), L) :: ((((Npos (XO (XI (XO (XO (XI (XO (XO (XO (XI (XO
    (XI XH)))))))))))), (Npos (XO (XI (XO (XI (XI (XI (XO (XO (XI (XO (XI
    XH))))))))))))), L) :: ((((Npos (XI (XI (XO (XI (XI (XI (XO (XO (XI (XO
    (XI XH)))))))))))), (Npos (XO (XO (XI (XI (XI (XI (XO (XO (XI (XO (XI
    XH))))))))))))), NSM) :: ((((Npos (XI (XO (XI (XI (XI (XI (XO (XO (XI (XO
    (XI XH)))))))))))), (Npos (XO (XO (XO (XO (XO (XO (XI (XO (XI (XO (XI
    XH))))))))))))), L) :: ((((Npos (XI (XO (XO (XO (XO (XO (XI (XO (XI (XO
    (XI XH)))))))))))), (Npos (XO (XO (XI (XO (XO (XO (XI (XO (XI (XO (XI
    XH))))))))))))), NSM) :: ((((Npos (XO (XI (XI (XO (XO (XO (XI (XO (XI (XO
    (XI XH)))))))))))), (Npos (XO (XO (XO (XI (XO (XO (XI (XO (XI (XO (XI
    XH))))))))))))), L) :: ((((Npos (XO (XI (XO (XI (XO (XO (XI (XO (XI (XO
    (XI XH)))))))))))), (Npos (XO (XO (XI (XI (XO (XO (XI (XO (XI (XO (XI
    XH))))))))))))), L) :: ((((Npos (XI (XO (XI (XI (XO (XO (XI (XO (XI (XO
    (XI XH)))))))))))), (Npos (XI (XO (XI (XI (XO (XO (XI (XO (XI (XO (XI
    XH))))))))))))), NSM) :: ((((Npos (XO (XI (XI (XI (XO (XO (XI (XO (XI (XO
    (XI XH)))))))))))), (Npos (XI (XI (XI (XI (XO (XO (XI (XO (XI (XO (XI
    XH))))))))))))), L) :: ((((Npos (XO (XO (XI (XO (XI (XO (XI (XO (XI (XO
    (XI XH)))))))))))), (Npos (XI (XO (XO (XO (XO (XI (XI (XO (XI (XO (XI
    XH))))))))))))), L) :: ((((Npos (XO (XI (XO (XO (XO (XI (XI (XO (XI (XO
    (XI XH)))))))))))), (Npos (XI (XI (XO (XO (XO (XI (XI (XO (XI (XO (XI
    XH))))))))))))), NSM) :: ((((Npos (XO (XI (XI (XO (XO (XI (XI (XO (XI (XO
    (XI XH)))))))))))), (Npos (XI (XI (XI (XI (XI (XI (XI (XO (XI (XO (XI
    XH))))))))))))), L) :: ((((Npos (XI (XO (XO (XO (XO (XO (XO (XI (XI (XO
    (XI XH)))))))))))), (Npos (XI (XO (XO (XO (XO (XO (XO (XI (XI (XO (XI
    XH))))))))))))), NSM) :: ((((Npos (XO (XI (XO (XO (XO (XO (XO (XI (XI (XO
    (XI XH)))))))))))), (Npos (XI (XI (XO (XO (XO (XO (XO (XI (XI (XO (XI
    XH))))))))))))), L) :: ((((Npos (XI (XO (XI (XO (XO (XO (XO (XI (XI (XO
    (XI XH)))))))))))), (Npos (XO (XI (XI (XO (XI (XO (XO (XI (XI (XO (XI
    XH))))))))))))), L) :: ((((Npos (XO (XI (XO (XI (XI (XO (XO (XI (XI (XO
    (XI XH)))))))))))), (Npos (XI (XO (XO (XO (XI (XI (XO (XI (XI (XO (XI
    XH))))))))))))), L) :: ((((Npos (XI (XI (XO (XO (XI (XI (XO (XI (XI (XO
    (XI XH)))))))))))), (Npos (XI (XI (XO (XI (XI (XI (XO (XI (XI (XO (XI
    XH))))))))))))), L) :: ((((Npos (XI (XO (XI (XI (XI (XI (XO (XI (XI (XO
    (XI XH)))))))))))), (Npos (XI (XO (XI (XI (XI (XI (XO (XI (XI (XO (XI
    XH))))))))))))), L) :: ((((Npos (XO (XO (XO (XO (XO (XO (XI (XI (XI (XO
    (XI XH)))))))))))), (Npos (XO (XI (XI (XO (XO (XO (XI (XI (XI (XO (XI
    XH))))))))))))), L) :: ((((Npos (XO (XI (XO (XI (XO (XO (XI (XI (XI (XO
    (XI XH)))))))))))), (Npos (XO (XI (XO (XI (XO (XO (XI (XI (XI (XO (XI
    XH))))))))))))), NSM) :: ((((Npos (XI (XI (XI (XI (XO (XO (XI (XI (XI (XO
    (XI XH)))))))))))), (Npos (XI (XO (XO (XO (XI (XO (XI (XI (XI (XO (XI
    XH))))))))))))), L) :: ((((Npos (XO (XI (XO (XO (XI (XO (XI (XI (XI (XO
    (XI XH)))))))))))), (Npos (XO (XO (XI (XO (XI (XO (XI (XI (XI (XO (XI
    XH))))))))))))), NSM) :: ((((Npos (XO (XI (XI (XO (XI (XO (XI (XI (XI (XO
    (XI XH)))))))))))), (Npos (XO (XI (XI (XO (XI (XO (XI (XI (XI (XO (XI
    XH))))))))))))), NSM) :: ((((Npos (XO (XO (XO (XI (XI (XO (XI (XI (XI (XO
    (XI XH)))))))))))), (Npos (XI (XI (XI (XI (XI (XO (XI (XI (XI (XO (XI
    XH))))))))))))), L) :: ((((Npos (XO (XI (XI (XO (XO (XI (XI (XI (XI (XO
    (XI XH)))))))))))), (Npos (XI (XI (XI (XI (XO (XI (XI (XI (XI (XO (XI
    XH))))))))))))), L) :: ((((Npos (XO (XI (XO (XO (XI (XI (XI (XI (XI (XO
    (XI XH)))))))))))), (Npos (XO (XO (XI (XO (XI (XI (XI (XI (XI (XO (XI
    XH))))))))))))), L) :: ((((Npos (XI (XO (XO (XO (XO (XO (XO (XO (XO (XI
    (XI XH)))))))))))), (Npos (XO (XO (XO (XO (XI (XI (XO (XO (XO (XI (XI
    XH))))))))))))), L) :: ((((Npos (XI (XO (XO (XO (XI (XI (XO (XO (XO (XI
    (XI XH)))))))))))), (Npos (XI (XO (XO (XO (XI (XI (XO (XO (XO (XI (XI
    XH))))))))))))), NSM) :: ((((Npos (XO (XI (XO (XO (XI (XI (XO (XO (XO (XI
    (XI XH)))))))))))), (Npos (XI (XI (XO (XO (XI (XI (XO (XO (XO (XI (XI
    XH))))))))))))), L) :: ((((Npos (XO (XO (XI (XO (XI (XI (XO (XO (XO (XI
    (XI XH)))))))))))), (Npos (XO (XI (XO (XI (XI (XI (XO (XO (XO (XI (XI
    XH))))))))))))), NSM) :: ((((Npos (XI (XI (XI (XI (XI (XI (XO (XO (XO (XI
    (XI XH)))))))))))), (Npos (XI (XI (XI (XI (XI (XI (XO (XO (XO (XI (XI
    XH))))))))))))), ET) :: ((((Npos (XO (XO (XO (XO (XO (XO (XI (XO (XO (XI
    (XI XH)))))))))))), (Npos (XO (XI (XI (XO (XO (XO (XI (XO (XO (XI (XI
    XH))))))))))))), L) :: ((((Npos (XI (XI (XI (XO (XO (XO (XI (XO (XO (XI
    (XI XH)))))))))))), (Npos (XO (XI (XI (XI (XO (XO (XI (XO (XO (XI (XI
    XH))))))))))))), NSM) :: ((((Npos (XI (XI (XI (XI (XO (XO (XI (XO (XO (XI
    (XI XH)))))))))))), (Npos (XI (XI (XO (XI (XI (XO (XI (XO (XO (XI (XI
    XH))))))))))))), L) :: ((((Npos (XI (XO (XO (XO (XO (XO (XO (XI (XO (XI
    (XI XH)))))))))))), (Npos (XO (XI (XO (XO (XO (XO (XO (XI (XO (XI (XI
    XH))))))))))))), L) :: ((((Npos (XO (XO (XI (XO (XO (XO (XO (XI (XO (XI
    (XI XH)))))))))))), (Npos (XO (XO (XI (XO (XO (XO (XO (XI (XO (XI (XI
    XH))))))))))))), L) :: ((((Npos (XO (XI (XI (XO (XO (XO (XO (XI (XO (XI
    (XI XH)))))))))))), (Npos (XO (XI (XO (XI (XO (XO (XO (XI (XO (XI (XI
    XH))))))))))))), L) :: ((((Npos (XO (XO (XI (XI (XO (XO (XO (XI (XO (XI
    (XI XH)))))))))))), (Npos (XI (XI (XO (XO (XO (XI (XO (XI (XO (XI (XI
    XH))))))))))))), L) :: ((((Npos (XI (XO (XI (XO (XO (XI (XO (XI (XO (XI
    (XI XH)))))))))))), (Npos (XI (XO (XI (XO (XO (XI (XO (XI (XO (XI (XI
    XH))))))))))))), L) :: ((((Npos (XI (XI (XI (XO (XO (XI (XO (XI (XO (XI
    (XI XH)))))))))))), (Npos (XO (XO (XO (XO (XI (XI (XO (XI (XO (XI (XI
    XH))))))))))))), L) :: ((((Npos (XI (XO (XO (XO (XI (XI (XO (XI (XO (XI
    (XI XH)))))))))))), (Npos (XI (XO (XO (XO (XI (XI (XO (XI (XO (XI (XI
    XH))))))))))))), NSM) :: ((((Npos (XO (XI (XO (XO (XI (XI (XO (XI (XO (XI
    (XI XH)))))))))))), (Npos (XI (XI (XO (XO (XI (XI (XO (XI (XO (XI (XI
    XH))))))))))))), L) :: ((((Npos (XO (XO (XI (XO (XI (XI (XO (XI (XO (XI
    (XI XH)))))))))))), (Npos (XO (XO (XI (XI (XI (XI (XO (XI (XO (XI (XI
    XH))))))))))))), NSM) :: ((((Npos (XI (XO (XI (XI (XI (XI (XO (XI (XO (XI
    (XI XH)))))))))))), (Npos (XI (XO (XI (XI (XI (XI (XO (XI (XO (XI (XI
    XH))))))))))))), L) :: ((((Npos (XO (XO (XO (XO (XO (XO (XI (XI (XO (XI
    (XI XH)))))))))))), (Npos (XO (XO (XI (XO (XO (XO (XI (XI (XO (XI (XI
    XH))))))))))))), L) :: ((((Npos (XO (XI (XI (XO (XO (XO (XI (XI (XO (XI
    (XI XH)))))))))))), (Npos (XO (XI (XI (XO (XO (XO (XI (XI (XO (XI (XI
    XH))))))))))))), L) :: ((((Npos (XO (XO (XO (XI (XO (XO (XI (XI (XO (XI
    (XI XH)))))))))))), (Npos (XO (XI (XI (XI (XO (XO (XI (XI (XO (XI (XI
    XH))))))))))))), NSM) :: ((((Npos (XO (XO (XO (XO (XI (XO (XI (XI (XO (XI
    (XI XH)))))))))))), (Npos (XI (XO (XO (XI (XI (XO (XI (XI (XO (XI (XI
    XH))))))))))))), L) :: ((((Npos (XO (XO (XI (XI (XI (XO (XI (XI (XO (XI
    (XI XH)))))))))))), (Npos (XI (XI (XI (XI (XI (XO (XI (XI (XO (XI (XI
    XH))))))))))))), L) :: ((((Npos (XO (XO (XO (XO (XO (XO (XO (XO (XI (XI
    (XI XH)))))))))))), (Npos (XI (XI (XI (XO (XI (XO (XO (XO (XI (XI (XI
    XH))))))))))))), L) :: ((((Npos (XO (XO (XO (XI (XI (XO (XO (XO (XI (XI
    (XI XH)))))))))))), (Npos (XI (XO (XO (XI (XI (XO (XO (XO (XI (XI (XI
    XH))))))))))))), NSM) :: ((((Npos (XO (XI (XO (XI (XI (XO (XO (XO (XI (XI
    (XI XH)))))))))))), (Npos (XO (XO (XI (XO (XI (XI (XO (XO (XI (XI (XI
    XH))))))))))))), L) :: ((((Npos (XI (XO (XI (XO (XI (XI (XO (XO (XI (XI
    (XI XH)))))))))))), (Npos (XI (XO (XI (XO (XI (XI (XO (XO (XI (XI (XI
    XH))))))))))))), NSM) :: ((((Npos (XO (XI (XI (XO (XI (XI (XO (XO (XI (XI
    (XI XH)))))))))))), (Npos (XO (XI (XI (XO (XI (XI (XO (XO (XI (XI (XI
    XH))))))))))))), L) :: ((((Npos (XI (XI (XI (XO (XI (XI (XO (XO (XI (XI
    (XI XH)))))))))))), (Npos (XI (XI (XI (XO (XI (XI (XO (XO (XI (XI (XI
    XH))))))))))))), NSM) :: ((((Npos (XO (XO (XO (XI (XI (XI (XO (XO (XI (XI
    (XI XH)))))))))))), (Npos (XO (XO (XO (XI (XI (XI (XO (XO (XI (XI (XI
    XH))))))))))))), L) :: ((((Npos (XI (XO (XO (XI (XI (XI (XO (XO (XI (XI
    (XI XH)))))))))))), (Npos (XI (XO (XO (XI (XI (XI (XO (XO (XI (XI (XI
    XH))))))))))))), NSM) :: ((((Npos (XO (XI (XO (XI (XI (XI (XO (XO (XI (XI
    (XI XH)))))))))))), (Npos (XI (XO (XI (XI (XI (XI (XO (XO (XI (XI (XI
    XH))))))))))))), ON) :: ((((Npos (XO (XI (XI (XI (XI (XI (XO (XO (XI (XI
    (XI XH)))))))))))), (Npos (XI (XI (XI (XO (XO (XO (XI (XO (XI (XI (XI
    XH))))))))))))), L) :: ((((Npos (XI (XO (XO (XI (XO (XO (XI (XO (XI (XI
    (XI XH)))))))))))), (Npos (XO (XO (XI (XI (XO (XI (XI (XO (XI (XI (XI
    XH))))))))))))), L) :: ((((Npos (XI (XO (XO (XO (XI (XI (XI (XO (XI (XI
    (XI XH)))))))))))), (Npos (XO (XI (XI (XI (XI (XI (XI (XO (XI (XI (XI
    XH))))))))))))), NSM) :: ((((Npos (XI (XI (XI (XI (XI (XI (XI (XO (XI (XI
    (XI XH)))))))))))), (Npos (XI (XI (XI (XI (XI (XI (XI (XO (XI (XI (XI
    XH))))))))))))), L) :: ((((Npos (XO (XO (XO (XO (XO (XO (XO (XI (XI (XI
    (XI XH)))))))))))), (Npos (XO (XO (XI (XO (XO (XO (XO (XI (XI (XI (XI
    XH))))))))))))), NSM) :: ((((Npos (XI (XO (XI (XO (XO (XO (XO (XI (XI (XI
    (XI XH)))))))))))), (Npos (XI (XO (XI (XO (XO (XO (XO (XI (XI (XI (XI
    XH))))))))))))), L) :: ((((Npos (XO (XI (XI (XO (XO (XO (XO (XI (XI (XI
    (XI XH)))))))))))), (Npos (XI (XI (XI (XO (XO (XO (XO (XI (XI (XI (XI
    XH))))))))))))), NSM) :: ((((Npos (XO (XO (XO (XI (XO (XO (XO (XI (XI (XI
    (XI XH)))))))))))), (Npos (XO (XO (XI (XI (XO (XO (XO (XI (XI (XI (XI
    XH))))))))))))), L) :: ((((Npos (XI (XO (XI (XI (XO (XO (XO (XI (XI (XI
    (XI XH)))))))))))), (Npos (XI (XI (XI (XO (XI (XO (XO (XI (XI (XI (XI
    XH))))))))))))), NSM) :: ((((Npos (XI (XO (XO (XI (XI (XO (XO (XI (XI (XI
    (XI XH)))))))))))), (Npos (XO (XO (XI (XI (XI (XI (XO (XI (XI (XI (XI
    XH))))))))))))), NSM) :: ((((Npos (XO (XI (XI (XI (XI (XI (XO (XI (XI (XI
    (XI XH)))))))))))), (Npos (XI (XO (XI (XO (XO (XO (XI (XI (XI (XI (XI
    XH))))))))))))), L) :: ((((Npos (XO (XI (XI (XO (XO (XO (XI (XI (XI (XI
    (XI XH)))))))))))), (Npos (XO (XI (XI (XO (XO (XO (XI (XI (XI (XI (XI
    XH))))))))))))), NSM) :: ((((Npos (XI (XI (XI (XO (XO (XO (XI (XI (XI (XI
    (XI XH)))))))))))), (Npos (XO (XO (XI (XI (XO (XO (XI (XI (XI (XI (XI
    XH))))))))))))), L) :: ((((Npos (XO (XI (XI (XI (XO (XO (XI (XI (XI (XI
    (XI XH)))))))))))), (Npos (XO (XI (XO (XI (XI (XO (XI (XI (XI (XI (XI
    XH))))))))))))), L) :: ((((Npos (XO (XO (XO (XO (XO (XO (XO (XO (XO (XO
    (XO (XO XH))))))))))))), (Npos (XO (XO (XI (XI (XO (XI (XO (XO (XO (XO
    (XO (XO XH)))))))))))))), L) :: ((((Npos (XI (XO (XI (XI (XO (XI (XO (XO
    (XO (XO (XO (XO XH))))))))))))), (Npos (XO (XO (XO (XO (XI (XI (XO (XO
    (XO (XO (XO (XO XH)))))))))))))), NSM) :: ((((Npos (XI (XO (XO (XO (XI
    (XI (XO (XO (XO (XO (XO (XO XH))))))))))))), (Npos (XI (XO (XO (XO (XI
    (XI (XO (XO (XO (XO (XO (XO XH)))))))))))))), L) :: ((((Npos (XO (XI (XO
    (XO (XI (XI (XO (XO (XO (XO (XO (XO XH))))))))))))), (Npos (XI (XI (XI
    (XO (XI (XI (XO (XO (XO (XO (XO (XO XH)))))))))))))), NSM) :: ((((Npos
    (XO (XO (XO (XI (XI (XI (XO (XO (XO (XO (XO (XO XH))))))))))))), (Npos
    (XO (XO (XO (XI (XI (XI (XO (XO (XO (XO (XO (XO XH)))))))))))))),
    L) :: ((((Npos (XI (XO (XO (XI (XI (XI (XO (XO (XO (XO (XO (XO
    XH))))))))))))), (Npos (XO (XI (XO (XI (XI (XI (XO (XO (XO (XO (XO (XO
    XH)))))))))))))), NSM) :: ((((Npos (XI (XI (XO (XI (XI (XI (XO (XO (XO
    (XO (XO (XO XH))))))))))))), (Npos (XO (XO (XI (XI (XI (XI (XO (XO (XO
    (XO (XO (XO XH)))))))))))))), L) :: ((((Npos (XI (XO (XI (XI (XI (XI (XO
    (XO (XO (XO (XO (XO XH))))))))))))), (Npos (XO (XI (XI (XI (XI (XI (XO
    (XO (XO (XO (XO (XO XH)))))))))))))), NSM) :: ((((Npos (XI (XI (XI (XI
    (XI (XI (XO (XO (XO (XO (XO (XO XH))))))))))))), (Npos (XI (XI (XI (XO
    (XI (XO (XI (XO (XO (XO (XO (XO XH)))))))))))))), L) :: ((((Npos (XO (XO
    (XO (XI (XI (XO (XI (XO (XO (XO (XO (XO XH))))))))))))), (Npos (XI (XO
    (XO (XI (XI (XO (XI (XO (XO (XO (XO (XO XH)))))))))))))),
    NSM) :: ((((Npos (XO (XI (XO (XI (XI (XO (XI (XO (XO (XO (XO (XO
    XH))))))))))))), (Npos (XI (XO (XI (XI (XI (XO (XI (XO (XO (XO (XO (XO
    XH)))))))))))))), L) :: ((((Npos (XO (XI (XI (XI (XI (XO (XI (XO (XO (XO
    (XO (XO XH))))))))))))), (Npos (XO (XO (XO (XO (XO (XI (XI (XO (XO (XO
    (XO (XO XH)))))))))))))), NSM) :: ((((Npos (XI (XO (XO (XO (XO (XI (XI
    (XO (XO (XO (XO (XO XH))))))))))))), (Npos (XO (XO (XO (XO (XI (XI (XI
    (XO (XO (XO (XO (XO XH)))))))))))))), L) :: ((((Npos (XI (XO (XO (XO (XI
    (XI (XI (XO (XO (XO (XO (XO XH))))))))))))), (Npos (XO (XO (XI (XO (XI
    (XI (XI (XO (XO (XO (XO (XO XH)))))))))))))), NSM) :: ((((Npos (XI (XO
    (XI (XO (XI (XI (XI (XO (XO (XO (XO (XO XH))))))))))))), (Npos (XI (XO
    (XO (XO (XO (XO (XO (XI (XO (XO (XO (XO XH)))))))))))))), L) :: ((((Npos
    (XO (XI (XO (XO (XO (XO (XO (XI (XO (XO (XO (XO XH))))))))))))), (Npos
    (XO (XI (XO (XO (XO (XO (XO (XI (XO (XO (XO (XO XH)))))))))))))),
    NSM) :: ((((Npos (XI (XI (XO (XO (XO (XO (XO (XI (XO (XO (XO (XO
    XH))))))))))))), (Npos (XO (XO (XI (XO (XO (XO (XO (XI (XO (XO (XO (XO
    XH)))))))))))))), L) :: ((((Npos (XI (XO (XI (XO (XO (XO (XO (XI (XO (XO
    (XO (XO XH))))))))))))), (Npos (XO (XI (XI (XO (XO (XO (XO (XI (XO (XO
    (XO (XO XH)))))))))))))), NSM) :: ((((Npos (XI (XI (XI (XO (XO (XO (XO
    (XI (XO (XO (XO (XO XH))))))))))))), (Npos (XO (XO (XI (XI (XO (XO (XO
    (XI (XO (XO (XO (XO XH)))))))))))))), L) :: ((((Npos (XI (XO (XI (XI (XO
    (XO (XO (XI (XO (XO (XO (XO XH))))))))))))), (Npos (XI (XO (XI (XI (XO
    (XO (XO (XI (XO (XO (XO (XO XH)))))))))))))), NSM) :: ((((Npos (XO (XI
    (XI (XI (XO (XO (XO (XI (XO (XO (XO (XO XH))))))))))))), (Npos (XO (XO
    (XI (XI (XI (XO (XO (XI (XO (XO (XO (XO XH)))))))))))))), L) :: ((((Npos
    (XI (XO (XI (XI (XI (XO (XO (XI (XO (XO (XO (XO XH))))))))))))), (Npos
    (XI (XO (XI (XI (XI (XO (XO (XI (XO (XO (XO (XO XH)))))))))))))),
    NSM) :: ((((Npos (XO (XI (XI (XI (XI (XO (XO (XI (XO (XO (XO (XO
    XH))))))))))))), (Npos (XI (XO (XI (XO (XO (XO (XI (XI (XO (XO (XO (XO
    XH)))))))))))))), L) :: ((((Npos (XI (XI (XI (XO (XO (XO (XI (XI (XO (XO
    (XO (XO XH))))))))))))), (Npos (XI (XI (XI (XO (XO (XO (XI (XI (XO (XO
    (XO (XO XH)))))))))))))), L) :: ((((Npos (XI (XO (XI (XI (XO (XO (XI (XI
    (XO (XO (XO (XO XH))))))))))))), (Npos (XI (XO (XI (XI (XO (XO (XI (XI
    (XO (XO (XO (XO XH)))))))))))))), L) :: ((((Npos (XO (XO (XO (XO (XI (XO
    (XI (XI (XO (XO (XO (XO XH))))))))))))), (Npos (XO (XO (XO (XI (XO (XO
    (XI (XO (XO (XI (XO (XO XH)))))))))))))), L) :: ((((Npos (XO (XI (XO (XI
    (XO (XO (XI (XO (XO (XI (XO (XO XH))))))))))))), (Npos (XI (XO (XI (XI
    (XO (XO (XI (XO (XO (XI (XO (XO XH)))))))))))))), L) :: ((((Npos (XO (XO
    (XO (XO (XI (XO (XI (XO (XO (XI (XO (XO XH))))))))))))), (Npos (XO (XI
    (XI (XO (XI (XO (XI (XO (XO (XI (XO (XO XH)))))))))))))), L) :: ((((Npos
    (XO (XO (XO (XI (XI (XO (XI (XO (XO (XI (XO (XO XH))))))))))))), (Npos
    (XO (XO (XO (XI (XI (XO (XI (XO (XO (XI (XO (XO XH)))))))))))))),
    L) :: ((((Npos (XO (XI (XO (XI (XI (XO (XI (XO (XO (XI (XO (XO
    XH))))))))))))), (Npos (XI (XO (XI (XI (XI (XO (XI (XO (XO (XI (XO (XO
    XH)))))))))))))), L) :: ((((Npos (XO (XO (XO (XO (XO (XI (XI (XO (XO (XI
    (XO (XO XH))))))))))))), (Npos (XO (XO (XO (XI (XO (XO (XO (XI (XO (XI
    (XO (XO XH)))))))))))))), L) :: ((((Npos (XO (XI (XO (XI (XO (XO (XO (XI
    (XO (XI (XO (XO XH))))))))))))), (Npos (XI (XO (XI (XI (XO (XO (XO (XI
    (XO (XI (XO (XO XH)))))))))))))), L) :: ((((Npos (XO (XO (XO (XO (XI (XO
    (XO (XI (XO (XI (XO (XO XH))))))))))))), (Npos (XO (XO (XO (XO (XI (XI
    (XO (XI (XO (XI (XO (XO XH)))))))))))))), L) :: ((((Npos (XO (XI (XO (XO
    (XI (XI (XO (XI (XO (XI (XO (XO XH))))))))))))), (Npos (XI (XO (XI (XO
    (XI (XI (XO (XI (XO (XI (XO (XO XH)))))))))))))), L) :: ((((Npos (XO (XO
    (XO (XI (XI (XI (XO (XI (XO (XI (XO (XO XH))))))))))))), (Npos (XO (XI
    (XI (XI (XI (XI (XO (XI (XO (XI (XO (XO XH)))))))))))))), L) :: ((((Npos
    (XO (XO (XO (XO (XO (XO (XI (XI (XO (XI (XO (XO XH))))))))))))), (Npos
    (XO (XO (XO (XO (XO (XO (XI (XI (XO (XI (XO (XO XH)))))))))))))),
    L) :: ((((Npos (XO (XI (XO (XO (XO (XO (XI (XI (XO (XI (XO (XO
    XH))))))))))))), (Npos (XI (XO (XI (XO (XO (XO (XI (XI (XO (XI (XO (XO
    XH)))))))))))))), L) :: ((((Npos (XO (XO (XO (XI (XO (XO (XI (XI (XO (XI
    (XO (XO XH))))))))))))), (Npos (XO (XI (XI (XO (XI (XO (XI (XI (XO (XI
    (XO (XO XH)))))))))))))), L) :: ((((Npos (XO (XO (XO (XI (XI (XO (XI (XI
    (XO (XI (XO (XO XH))))))))))))), (Npos (XO (XO (XO (XO (XI (XO (XO (XO
    (XI (XI (XO (XO XH)))))))))))))), L) :: ((((Npos (XO (XI (XO (XO (XI (XO
    (XO (XO (XI (XI (XO (XO XH))))))))))))), (Npos (XI (XO (XI (XO (XI (XO
    (XO (XO (XI (XI (XO (XO XH)))))))))))))), L) :: ((((Npos (XO (XO (XO (XI
    (XI (XO (XO (XO (XI (XI (XO (XO XH))))))))))))), (Npos (XO (XI (XO (XI
    (XI (XO (XI (XO (XI (XI (XO (XO XH)))))))))))))), L) :: ((((Npos (XI (XO
    (XI (XI (XI (XO (XI (XO (XI (XI (XO (XO XH))))))))))))), (Npos (XI (XI
    (XI (XI (XI (XO (XI (XO (XI (XI (XO (XO XH)))))))))))))),
    NSM) :: ((((Npos (XO (XO (XO (XO (XO (XI (XI (XO (XI (XI (XO (XO
    XH))))))))))))), (Npos (XO (XO (XI (XI (XI (XI (XI (XO (XI (XI (XO (XO
    XH)))))))))))))), L) :: ((((Npos (XO (XO (XO (XO (XO (XO (XO (XI (XI (XI
    (XO (XO XH))))))))))))), (Npos (XI (XI (XI (XI (XO (XO (XO (XI (XI (XI
    (XO (XO XH)))))))))))))), L) :: ((((Npos (XO (XO (XO (XO (XI (XO (XO (XI
    (XI (XI (XO (XO XH))))))))))))), (Npos (XI (XO (XO (XI (XI (XO (XO (XI
    (XI (XI (XO (XO XH)))))))))))))), ON) :: ((((Npos (XO (XO (XO (XO (XO (XI
    (XO (XI (XI (XI (XO (XO XH))))))))))))), (Npos (XI (XO (XI (XO (XI (XI
    (XI (XI (XI (XI (XO (XO XH)))))))))))))), L) :: ((((Npos (XO (XO (XO (XI
    (XI (XI (XI (XI (XI (XI (XO (XO XH))))))))))))), (Npos (XI (XO (XI (XI
    (XI (XI (XI (XI (XI (XI (XO (XO XH)))))))))))))), L) :: ((((Npos (XO (XO
    (XO (XO (XO (XO (XO (XO (XO (XO (XI (XO XH))))))))))))), (Npos (XO (XO
    (XO (XO (XO (XO (XO (XO (XO (XO (XI (XO XH)))))))))))))), ON) :: ((((Npos
    (XI (XO (XO (XO (XO (XO (XO (XO (XO (XO (XI (XO XH))))))))))))), (Npos
    (XI (XI (XI (XI (XI (XI (XI (XO (XO (XI (XI (XO XH)))))))))))))),
    L) :: ((((Npos (XO (XO (XO (XO (XO (XO (XO (XI (XO (XI (XI (XO
    XH))))))))))))), (Npos (XO (XO (XO (XO (XO (XO (XO (XI (XO (XI (XI (XO
    XH)))))))))))))), WS) :: ((((Npos (XI (XO (XO (XO (XO (XO (XO (XI (XO (XI
    (XI (XO XH))))))))))))), (Npos (XO (XI (XO (XI (XI (XO (XO (XI (XO (XI
    (XI (XO XH)))))))))))))), L) :: ((((Npos (XI (XI (XO (XI (XI (XO (XO (XI
    (XO (XI (XI (XO XH))))))))))))), (Npos (XO (XO (XI (XI (XI (XO (XO (XI
    (XO (XI (XI (XO XH)))))))))))))), ON) :: ((((Npos (XO (XO (XO (XO (XO (XI
    (XO (XI (XO (XI (XI (XO XH))))))))))))), (Npos (XO (XO (XO (XI (XI (XI
    (XI (XI (XO (XI (XI (XO XH)))))))))))))), L) :: ((((Npos (XO (XO (XO (XO
    (XO (XO (XO (XO (XI (XI (XI (XO XH))))))))))))), (Npos (XI (XO (XO (XO
    (XI (XO (XO (XO (XI (XI (XI (XO XH)))))))))))))), L) :: ((((Npos (XO (XI
    (XO (XO (XI (XO (XO (XO (XI (XI (XI (XO XH))))))))))))), (Npos (XO (XO
    (XI (XO (XI (XO (XO (XO (XI (XI (XI (XO XH)))))))))))))),
    NSM) :: ((((Npos (XI (XO (XI (XO (XI (XO (XO (XO (XI (XI (XI (XO
    XH))))))))))))), (Npos (XI (XO (XI (XO (XI (XO (XO (XO (XI (XI (XI (XO
    XH)))))))))))))), L) :: ((((Npos (XI (XI (XI (XI (XI (XO (XO (XO (XI (XI
    (XI (XO XH))))))))))))), (Npos (XI (XO (XO (XO (XI (XI (XO (XO (XI (XI
    (XI (XO XH)))))))))))))), L) :: ((((Npos (XO (XI (XO (XO (XI (XI (XO (XO
    (XI (XI (XI (XO XH))))))))))))), (Npos (XI (XI (XO (XO (XI (XI (XO (XO
    (XI (XI (XI (XO XH)))))))))))))), NSM) :: ((((Npos (XO (XO (XI (XO (XI
    (XI (XO (XO (XI (XI (XI (XO XH))))))))))))), (Npos (XO (XI (XI (XO (XI
    (XI (XO (XO (XI (XI (XI (XO XH)))))))))))))), L) :: ((((Npos (XO (XO (XO
    (XO (XO (XO (XI (XO (XI (XI (XI (XO XH))))))))))))), (Npos (XI (XO (XO
    (XO (XI (XO (XI (XO (XI (XI (XI (XO XH)))))))))))))), L) :: ((((Npos (XO
    (XI (XO (XO (XI (XO (XI (XO (XI (XI (XI (XO XH))))))))))))), (Npos (XI
    (XI (XO (XO (XI (XO (XI (XO (XI (XI (XI (XO XH)))))))))))))),
    NSM) :: ((((Npos (XO (XO (XO (XO (XO (XI (XI (XO (XI (XI (XI (XO
    XH))))))))))))), (Npos (XO (XO (XI (XI (XO (XI (XI (XO (XI (XI (XI (XO
    XH)))))))))))))), L) :: ((((Npos (XO (XI (XI (XI (XO (XI (XI (XO (XI (XI
    (XI (XO XH))))))))))))), (Npos (XO (XO (XO (XO (XI (XI (XI (XO (XI (XI
    (XI (XO XH)))))))))))))), L) :: ((((Npos (XO (XI (XO (XO (XI (XI (XI (XO
    (XI (XI (XI (XO XH))))))))))))), (Npos (XI (XI (XO (XO (XI (XI (XI (XO
    (XI (XI (XI (XO XH)))))))))))))), NSM) :: ((((Npos (XO (XO (XO (XO (XO
    (XO (XO (XI (XI (XI (XI (XO XH))))))))))))), (Npos (XI (XI (XO (XO (XI
    (XI (XO (XI (XI (XI (XI (XO XH)))))))))))))), L) :: ((((Npos (XO (XO (XI
    (XO (XI (XI (XO (XI (XI (XI (XI (XO XH))))))))))))), (Npos (XI (XO (XI
    (XO (XI (XI (XO (XI (XI (XI (XI (XO XH)))))))))))))), NSM) :: ((((Npos
    (XO (XI (XI (XO (XI (XI (XO (XI (XI (XI (XI (XO XH))))))))))))), (Npos
    (XO (XI (XI (XO (XI (XI (XO (XI (XI (XI (XI (XO XH)))))))))))))),
    L) :: ((((Npos (XI (XI (XI (XO (XI (XI (XO (XI (XI (XI (XI (XO
    XH))))))))))))), (Npos (XI (XO (XI (XI (XI (XI (XO (XI (XI (XI (XI (XO
    XH)))))))))))))), NSM) :: ((((Npos (XO (XI (XI (XI (XI (XI (XO (XI (XI
    (XI (XI (XO XH))))))))))))), (Npos (XI (XO (XI (XO (XO (XO (XI (XI (XI
    (XI (XI (XO XH)))))))))))))), L) :: ((((Npos (XO (XI (XI (XO (XO (XO (XI
    (XI (XI (XI (XI (XO XH))))))))))))), (Npos (XO (XI (XI (XO (XO (XO (XI
    (XI (XI (XI (XI (XO XH)))))))))))))), NSM) :: ((((Npos (XI (XI (XI (XO
    (XO (XO (XI (XI (XI (XI (XI (XO XH))))))))))))), (Npos (XO (XO (XO (XI
    (XO (XO (XI (XI (XI (XI (XI (XO XH)))))))))))))), L) :: ((((Npos (XI (XO
    (XO (XI (XO (XO (XI (XI (XI (XI (XI (XO XH))))))))))))), (Npos (XI (XI
    (XO (XO (XI (XO (XI (XI (XI (XI (XI (XO XH)))))))))))))),
    NSM) :: ((((Npos (XO (XO (XI (XO (XI (XO (XI (XI (XI (XI (XI (XO
    XH))))))))))))), (Npos (XO (XI (XO (XI (XI (XO (XI (XI (XI (XI (XI (XO
    XH)))))))))))))), L) :: ((((Npos (XI (XI (XO (XI (XI (XO (XI (XI (XI (XI
    (XI (XO XH))))))))))))), (Npos (XI (XI (XO (XI (XI (XO (XI (XI (XI (XI
    (XI (XO XH)))))))))))))), ET) :: ((((Npos (XO (XO (XI (XI (XI (XO (XI (XI
    (XI (XI (XI (XO XH))))))))))))), (Npos (XO (XO (XI (XI (XI (XO (XI (XI
    (XI (XI (XI (XO XH)))))))))))))), L) :: ((((Npos (XI (XO (XI (XI (XI (XO
    (XI (XI (XI (XI (XI (XO XH))))))))))))), (Npos (XI (XO (XI (XI (XI (XO
    (XI (XI (XI (XI (XI (XO XH)))))))))))))), NSM) :: ((((Npos (XO (XO (XO
    (XO (XO (XI (XI (XI (XI (XI (XI (XO XH))))))))))))), (Npos (XI (XO (XO
    (XI (XO (XI (XI (XI (XI (XI (XI (XO XH)))))))))))))), L) :: ((((Npos (XO
    (XO (XO (XO (XI (XI (XI (XI (XI (XI (XI (XO XH))))))))))))), (Npos (XI
    (XO (XO (XI (XI (XI (XI (XI (XI (XI (XI (XO XH)))))))))))))),
    ON) :: ((((Npos (XO (XO (XO (XO (XO (XO (XO (XO (XO (XO (XO (XI
    XH))))))))))))), (Npos (XO (XI (XO (XI (XO (XO (XO (XO (XO (XO (XO (XI
    XH)))))))))))))), ON) :: ((((Npos (XI (XI (XO (XI (XO (XO (XO (XO (XO (XO
    (XO (XI XH))))))))))))), (Npos (XI (XO (XI (XI (XO (XO (XO (XO (XO (XO
    (XO (XI XH)))))))))))))), NSM) :: ((((Npos (XO (XI (XI (XI (XO (XO (XO
    (XO (XO (XO (XO (XI XH))))))))))))), (Npos (XO (XI (XI (XI (XO (XO (XO
    (XO (XO (XO (XO (XI XH)))))))))))))), BN) :: ((((Npos (XI (XI (XI (XI (XO
    (XO (XO (XO (XO (XO (XO (XI XH))))))))))))), (Npos (XI (XI (XI (XI (XO
    (XO (XO (XO (XO (XO (XO (XI XH)))))))))))))), NSM) :: ((((Npos (XO (XO
    (XO (XO (XI (XO (XO (XO (XO (XO (XO (XI XH))))))))))))), (Npos (XI (XO
    (XO (XI (XI (XO (XO (XO (XO (XO (XO (XI XH)))))))))))))), L) :: ((((Npos
    (XO (XO (XO (XO (XO (XI (XO (XO (XO (XO (XO (XI XH))))))))))))), (Npos
    (XO (XO (XO (XI (XI (XI (XI (XO (XO (XO (XO (XI XH)))))))))))))),
    L) :: ((((Npos (XO (XO (XO (XO (XO (XO (XO (XI (XO (XO (XO (XI
    XH))))))))))))), (Npos (XO (XO (XI (XO (XO (XO (XO (XI (XO (XO (XO (XI
    XH)))))))))))))), L) :: ((((Npos (XI (XO (XI (XO (XO (XO (XO (XI (XO (XO
    (XO (XI XH))))))))))))), (Npos (XO (XI (XI (XO (XO (XO (XO (XI (XO (XO
    (XO (XI XH)))))))))))))), NSM) :: ((((Npos (XI (XI (XI (XO (XO (XO (XO
    (XI (XO (XO (XO (XI XH))))))))))))), (Npos (XO (XO (XO (XI (XO (XI (XO
    (XI (XO (XO (XO (XI XH)))))))))))))), L) :: ((((Npos (XI (XO (XO (XI (XO
    (XI (XO (XI (XO (XO (XO (XI XH))))))))))))), (Npos (XI (XO (XO (XI (XO
    (XI (XO (XI (XO (XO (XO (XI XH)))))))))))))), NSM) :: ((((Npos (XO (XI
    (XO (XI (XO (XI (XO (XI (XO (XO (XO (XI XH))))))))))))), (Npos (XO (XI
    (XO (XI (XO (XI (XO (XI (XO (XO (XO (XI XH)))))))))))))), L) :: ((((Npos
    (XO (XO (XO (XO (XI (XI (XO (XI (XO (XO (XO (XI XH))))))))))))), (Npos
    (XI (XO (XI (XO (XI (XI (XI (XI (XO (XO (XO (XI XH)))))))))))))),
    L) :: ((((Npos (XO (XO (XO (XO (XO (XO (XO (XO (XI (XO (XO (XI
    XH))))))))))))), (Npos (XO (XI (XI (XI (XI (XO (XO (XO (XI (XO (XO (XI
    XH)))))))))))))), L) :: ((((Npos (XO (XO (XO (XO (XO (XI (XO (XO (XI (XO
    (XO (XI XH))))))))))))), (Npos (XO (XI (XO (XO (XO (XI (XO (XO (XI (XO
    (XO (XI XH)))))))))))))), NSM) :: ((((Npos (XI (XI (XO (XO (XO (XI (XO
    (XO (XI (XO (XO (XI XH))))))))))))), (Npos (XO (XI (XI (XO (XO (XI (XO
    (XO (XI (XO (XO (XI XH)))))))))))))), L) :: ((((Npos (XI (XI (XI (XO (XO
    (XI (XO (XO (XI (XO (XO (XI XH))))))))))))), (Npos (XO (XO (XO (XI (XO
    (XI (XO (XO (XI (XO (XO (XI XH)))))))))))))), NSM) :: ((((Npos (XI (XO
    (XO (XI (XO (XI (XO (XO (XI (XO (XO (XI XH))))))))))))), (Npos (XI (XI
    (XO (XI (XO (XI (XO (XO (XI (XO (XO (XI XH)))))))))))))), L) :: ((((Npos
    (XO (XO (XO (XO (XI (XI (XO (XO (XI (XO (XO (XI XH))))))))))))), (Npos
    (XI (XO (XO (XO (XI (XI (XO (XO (XI (XO (XO (XI XH)))))))))))))),
    L) :: ((((Npos (XO (XI (XO (XO (XI (XI (XO (XO (XI (XO (XO (XI
    XH))))))))))))), (Npos (XO (XI (XO (XO (XI (XI (XO (XO (XI (XO (XO (XI
    XH)))))))))))))), NSM) :: ((((Npos (XI (XI (XO (XO (XI (XI (XO (XO (XI
    (XO (XO (XI XH))))))))))))), (Npos (XO (XO (XO (XI (XI (XI (XO (XO (XI
    (XO (XO (XI XH)))))))))))))), L) :: ((((Npos (XI (XO (XO (XI (XI (XI (XO
    (XO (XI (XO (XO (XI XH))))))))))))), (Npos (XI (XI (XO (XI (XI (XI (XO
    (XO (XI (XO (XO (XI XH)))))))))))))), NSM) :: ((((Npos (XO (XO (XO (XO
    (XO (XO (XI (XO (XI (XO (XO (XI XH))))))))))))), (Npos (XO (XO (XO (XO
    (XO (XO (XI (XO (XI (XO (XO (XI XH)))))))))))))), ON) :: ((((Npos (XO (XO
    (XI (XO (XO (XO (XI (XO (XI (XO (XO (XI XH))))))))))))), (Npos (XI (XO
    (XI (XO (XO (XO (XI (XO (XI (XO (XO (XI XH)))))))))))))), ON) :: ((((Npos
    (XO (XI (XI (XO (XO (XO (XI (XO (XI (XO (XO (XI XH))))))))))))), (Npos
    (XI (XO (XI (XI (XO (XI (XI (XO (XI (XO (XO (XI XH)))))))))))))),
    L) :: ((((Npos (XO (XO (XO (XO (XI (XI (XI (XO (XI (XO (XO (XI
    XH))))))))))))), (Npos (XO (XO (XI (XO (XI (XI (XI (XO (XI (XO (XO (XI
    XH)))))))))))))), L) :: ((((Npos (XO (XO (XO (XO (XO (XO (XO (XI (XI (XO
    (XO (XI XH))))))))))))), (Npos (XI (XI (XO (XI (XO (XI (XO (XI (XI (XO
    (XO (XI XH)))))))))))))), L) :: ((((Npos (XO (XO (XO (XO (XI (XI (XO (XI
    (XI (XO (XO (XI XH))))))))))))), (Npos (XI (XO (XO (XI (XO (XO (XI (XI
    (XI (XO (XO (XI XH)))))))))))))), L) :: ((((Npos (XO (XO (XO (XO (XI (XO
    (XI (XI (XI (XO (XO (XI XH))))))))))))), (Npos (XO (XI (XO (XI (XI (XO
    (XI (XI (XI (XO (XO (XI XH)))))))))))))), L) :: ((((Npos (XO (XI (XI (XI
    (XI (XO (XI (XI (XI (XO (XO (XI XH))))))))))))), (Npos (XI (XI (XI (XI
    (XI (XI (XI (XI (XI (XO (XO (XI XH)))))))))))))), ON) :: ((((Npos (XO (XO
    (XO (XO (XO (XO (XO (XO (XO (XI (XO (XI XH))))))))))))), (Npos (XO (XI
    (XI (XO (XI (XO (XO (XO (XO (XI (XO (XI XH)))))))))))))), L) :: ((((Npos
    (XI (XI (XI (XO (XI (XO (XO (XO (XO (XI (XO (XI XH))))))))))))), (Npos
    (XO (XO (XO (XI (XI (XO (XO (XO (XO (XI (XO (XI XH)))))))))))))),
    NSM) :: ((((Npos (XI (XO (XO (XI (XI (XO (XO (XO (XO (XI (XO (XI
    XH))))))))))))), (Npos (XO (XI (XO (XI (XI (XO (XO (XO (XO (XI (XO (XI
    XH)))))))))))))), L) :: ((((Npos (XI (XI (XO (XI (XI (XO (XO (XO (XO (XI
    (XO (XI XH))))))))))))), (Npos (XI (XI (XO (XI (XI (XO (XO (XO (XO (XI
    (XO (XI XH)))))))))))))), NSM) :: ((((Npos (XO (XI (XI (XI (XI (XO (XO
    (XO (XO (XI (XO (XI XH))))))))))))), (Npos (XI (XO (XI (XO (XI (XO (XI
    (XO (XO (XI (XO (XI XH)))))))))))))), L) :: ((((Npos (XO (XI (XI (XO (XI
    (XO (XI (XO (XO (XI (XO (XI XH))))))))))))), (Npos (XO (XI (XI (XO (XI
    (XO (XI (XO (XO (XI (XO (XI XH)))))))))))))), NSM) :: ((((Npos (XI (XI
    (XI (XO (XI (XO (XI (XO (XO (XI (XO (XI XH))))))))))))), (Npos (XI (XI
    (XI (XO (XI (XO (XI (XO (XO (XI (XO (XI XH)))))))))))))), L) :: ((((Npos
    (XO (XO (XO (XI (XI (XO (XI (XO (XO (XI (XO (XI XH))))))))))))), (Npos
    (XO (XI (XI (XI (XI (XO (XI (XO (XO (XI (XO (XI XH)))))))))))))),
    NSM) :: ((((Npos (XO (XO (XO (XO (XO (XI (XI (XO (XO (XI (XO (XI
    XH))))))))))))), (Npos (XO (XO (XO (XO (XO (XI (XI (XO (XO (XI (XO (XI
    XH)))))))))))))), NSM) :: ((((Npos (XI (XO (XO (XO (XO (XI (XI (XO (XO
    (XI (XO (XI XH))))))))))))), (Npos (XI (XO (XO (XO (XO (XI (XI (XO (XO
    (XI (XO (XI XH)))))))))))))), L) :: ((((Npos (XO (XI (XO (XO (XO (XI (XI
    (XO (XO (XI (XO (XI XH))))))))))))), (Npos (XO (XI (XO (XO (XO (XI (XI
    (XO (XO (XI (XO (XI XH)))))))))))))), NSM) :: ((((Npos (XI (XI (XO (XO
    (XO (XI (XI (XO (XO (XI (XO (XI XH))))))))))))), (Npos (XO (XO (XI (XO
    (XO (XI (XI (XO (XO (XI (XO (XI XH)))))))))))))), L) :: ((((Npos (XI (XO
    (XI (XO (XO (XI (XI (XO (XO (XI (XO (XI XH))))))))))))), (Npos (XO (XO
    (XI (XI (XO (XI (XI (XO (XO (XI (XO (XI XH)))))))))))))),
    NSM) :: ((((Npos (XI (XO (XI (XI (XO (XI (XI (XO (XO (XI (XO (XI
    XH))))))))))))), (Npos (XO (XI (XO (XO (XI (XI (XI (XO (XO (XI (XO (XI
    XH)))))))))))))), L) :: ((((Npos (XI (XI (XO (XO (XI (XI (XI (XO (XO (XI
    (XO (XI XH))))))))))))), (Npos (XO (XO (XI (XI (XI (XI (XI (XO (XO (XI
    (XO (XI XH)))))))))))))), NSM) :: ((((Npos (XI (XI (XI (XI (XI (XI (XI
    (XO (XO (XI (XO (XI XH))))))))))))), (Npos (XI (XI (XI (XI (XI (XI (XI
    (XO (XO (XI (XO (XI XH)))))))))))))), NSM) :: ((((Npos (XO (XO (XO (XO
    (XO (XO (XO (XI (XO (XI (XO (XI XH))))))))))))), (Npos (XI (XO (XO (XI
    (XO (XO (XO (XI (XO (XI (XO (XI XH)))))))))))))), L) :: ((((Npos (XO (XO
    (XO (XO (XI (XO (XO (XI (XO (XI (XO (XI XH))))))))))))), (Npos (XI (XO
    (XO (XI (XI (XO (XO (XI (XO (XI (XO (XI XH)))))))))))))), L) :: ((((Npos
    (XO (XO (XO (XO (XO (XI (XO (XI (XO (XI (XO (XI XH))))))))))))), (Npos
    (XI (XO (XI (XI (XO (XI (XO (XI (XO (XI (XO (XI XH)))))))))))))),
    L) :: ((((Npos (XO (XO (XO (XO (XI (XI (XO (XI (XO (XI (XO (XI
    XH))))))))))))), (Npos (XO (XI (XI (XI (XO (XO (XI (XI (XO (XI (XO (XI
    XH)))))))))))))), NSM) :: ((((Npos (XO (XO (XO (XO (XO (XO (XO (XO (XI
    (XI (XO (XI XH))))))))))))), (Npos (XI (XI (XO (XO (XO (XO (XO (XO (XI
    (XI (XO (XI XH)))))))))))))), NSM) :: ((((Npos (XO (XO (XI (XO (XO (XO
    (XO (XO (XI (XI (XO (XI XH))))))))))))), (Npos (XI (XI (XO (XO (XI (XI
    (XO (XO (XI (XI (XO (XI XH)))))))))))))), L) :: ((((Npos (XO (XO (XI (XO
    (XI (XI (XO (XO (XI (XI (XO (XI XH))))))))))))), (Npos (XO (XO (XI (XO
    (XI (XI (XO (XO (XI (XI (XO (XI XH)))))))))))))), NSM) :: ((((Npos (XI
    (XO (XI (XO (XI (XI (XO (XO (XI (XI (XO (XI XH))))))))))))), (Npos (XI
    (XO (XI (XO (XI (XI (XO (XO (XI (XI (XO (XI XH)))))))))))))),
    L) :: ((((Npos (XO (XI (XI (XO (XI (XI (XO (XO (XI (XI (XO (XI
    XH))))))))))))), (Npos (XO (XI (XO (XI (XI (XI (XO (XO (XI (XI (XO (XI
    XH)))))))))))))), NSM) :: ((((Npos (XI (XI (XO (XI (XI (XI (XO (XO (XI
    (XI (XO (XI XH))))))))))))), (Npos (XI (XI (XO (XI (XI (XI (XO (XO (XI
    (XI (XO (XI XH)))))))))))))), L) :: ((((Npos (XO (XO (XI (XI (XI (XI (XO
    (XO (XI (XI (XO (XI XH))))))))))))), (Npos (XO (XO (XI (XI (XI (XI (XO
    (XO (XI (XI (XO (XI XH)))))))))))))), NSM) :: ((((Npos (XI (XO (XI (XI
    (XI (XI (XO (XO (XI (XI (XO (XI XH))))))))))))), (Npos (XI (XO (XO (XO
    (XO (XO (XI (XO (XI (XI (XO (XI XH)))))))))))))), L) :: ((((Npos (XO (XI
    (XO (XO (XO (XO (XI (XO (XI (XI (XO (XI XH))))))))))))), (Npos (XO (XI
    (XO (XO (XO (XO (XI (XO (XI (XI (XO (XI XH)))))))))))))),
    NSM) :: ((((Npos (XI (XI (XO (XO (XO (XO (XI (XO (XI (XI (XO (XI
    XH))))))))))))), (Npos (XO (XO (XI (XI (XO (XO (XI (XO (XI (XI (XO (XI
    XH)))))))))))))), L) :: ((((Npos (XO (XI (XI (XI (XO (XO (XI (XO (XI (XI
    (XO (XI XH))))))))))))), (Npos (XO (XI (XO (XI (XO (XI (XI (XO (XI (XI
    (XO (XI XH)))))))))))))), L) :: ((((Npos (XI (XI (XO (XI (XO (XI (XI (XO
    (XI (XI (XO (XI XH))))))))))))), (Npos (XI (XI (XO (XO (XI (XI (XI (XO
    (XI (XI (XO (XI XH)))))))))))))), NSM) :: ((((Npos (XO (XO (XI (XO (XI
    (XI (XI (XO (XI (XI (XO (XI XH))))))))))))), (Npos (XI (XI (XI (XI (XI
    (XI (XI (XO (XI (XI (XO (XI XH)))))))))))))), L) :: ((((Npos (XO (XO (XO
    (XO (XO (XO (XO (XI (XI (XI (XO (XI XH))))))))))))), (Npos (XI (XO (XO
    (XO (XO (XO (XO (XI (XI (XI (XO (XI XH)))))))))))))), NSM) :: ((((Npos
    (XO (XI (XO (XO (XO (XO (XO (XI (XI (XI (XO (XI XH))))))))))))), (Npos
    (XI (XO (XO (XO (XO (XI (XO (XI (XI (XI (XO (XI XH)))))))))))))),
    L) :: ((((Npos (XO (XI (XO (XO (XO (XI (XO (XI (XI (XI (XO (XI
    XH))))))))))))), (Npos (XI (XO (XI (XO (XO (XI (XO (XI (XI (XI (XO (XI
    XH)))))))))))))), NSM) :: ((((Npos (XO (XI (XI (XO (XO (XI (XO (XI (XI
    (XI (XO (XI XH))))))))))))), (Npos (XI (XI (XI (XO (XO (XI (XO (XI (XI
    (XI (XO (XI XH)))))))))))))), L) :: ((((Npos (XO (XO (XO (XI (XO (XI (XO
    (XI (XI (XI (XO (XI XH))))))))))))), (Npos (XI (XO (XO (XI (XO (XI (XO
    (XI (XI (XI (XO (XI XH)))))))))))))), NSM) :: ((((Npos (XO (XI (XO (XI
    (XO (XI (XO (XI (XI (XI (XO (XI XH))))))))))))), (Npos (XO (XI (XO (XI
    (XO (XI (XO (XI (XI (XI (XO (XI XH)))))))))))))), L) :: ((((Npos (XI (XI
    (XO (XI (XO (XI (XO (XI (XI (XI (XO (XI XH))))))))))))), (Npos (XI (XO
    (XI (XI (XO (XI (XO (XI (XI (XI (XO (XI XH)))))))))))))),
    NSM) :: ((((Npos (XO (XI (XI (XI (XO (XI (XO (XI (XI (XI (XO (XI
    XH))))))))))))), (Npos (XI (XO (XI (XO (XO (XI (XI (XI (XI (XI (XO (XI
    XH)))))))))))))), L) :: ((((Npos (XO (XI (XI (XO (XO (XI (XI (XI (XI (XI
    (XO (XI XH))))))))))))), (Npos (XO (XI (XI (XO (XO (XI (XI (XI (XI (XI
    (XO (XI XH)))))))))))))), NSM) :: ((((Npos (XI (XI (XI (XO (XO (XI (XI
    (XI (XI (XI (XO (XI XH))))))))))))), (Npos (XI (XI (XI (XO (XO (XI (XI
    (XI (XI (XI (XO (XI XH)))))))))))))), L) :: ((((Npos (XO (XO (XO (XI (XO
    (XI (XI (XI (XI (XI (XO (XI XH))))))))))))), (Npos (XI (XO (XO (XI (XO
    (XI (XI (XI (XI (XI (XO (XI XH)))))))))))))), NSM) :: ((((Npos (XO (XI
    (XO (XI (XO (XI (XI (XI (XI (XI (XO (XI XH))))))))))))), (Npos (XO (XO
    (XI (XI (XO (XI (XI (XI (XI (XI (XO (XI XH)))))))))))))), L) :: ((((Npos
    (XI (XO (XI (XI (XO (XI (XI (XI (XI (XI (XO (XI XH))))))))))))), (Npos
    (XI (XO (XI (XI (XO (XI (XI (XI (XI (XI (XO (XI XH)))))))))))))),
    NSM) :: ((((Npos (XO (XI (XI (XI (XO (XI (XI (XI (XI (XI (XO (XI
    XH))))))))))))), (Npos (XO (XI (XI (XI (XO (XI (XI (XI (XI (XI (XO (XI
    XH)))))))))))))), L) :: ((((Npos (XI (XI (XI (XI (XO (XI (XI (XI (XI (XI
    (XO (XI XH))))))))))))), (Npos (XI (XO (XO (XO (XI (XI (XI (XI (XI (XI
    (XO (XI XH)))))))))))))), NSM) :: ((((Npos (XO (XI (XO (XO (XI (XI (XI
    (XI (XI (XI (XO (XI XH))))))))))))), (Npos (XI (XI (XO (XO (XI (XI (XI
    (XI (XI (XI (XO (XI XH)))))))))))))), L) :: ((((Npos (XO (XO (XI (XI (XI
    (XI (XI (XI (XI (XI (XO (XI XH))))))))))))), (Npos (XI (XI (XO (XI (XO
    (XI (XO (XO (XO (XO (XI (XI XH)))))))))))))), L) :: ((((Npos (XO (XO (XI
    (XI (XO (XI (XO (XO (XO (XO (XI (XI XH))))))))))))), (Npos (XI (XI (XO
    (XO (XI (XI (XO (XO (XO (XO (XI (XI XH)))))))))))))), NSM) :: ((((Npos
    (XO (XO (XI (XO (XI (XI (XO (XO (XO (XO (XI (XI XH))))))))))))), (Npos
    (XI (XO (XI (XO (XI (XI (XO (XO (XO (XO (XI (XI XH)))))))))))))),
    L) :: ((((Npos (XO (XI (XI (XO (XI (XI (XO (XO (XO (XO (XI (XI
    XH))))))))))))), (Npos (XI (XI (XI (XO (XI (XI (XO (XO (XO (XO (XI (XI
    XH)))))))))))))), NSM) :: ((((Npos (XI (XI (XO (XI (XI (XI (XO (XO (XO
    (XO (XI (XI XH))))))))))))), (Npos (XI (XO (XO (XI (XO (XO (XI (XO (XO
    (XO (XI (XI XH)))))))))))))), L) :: ((((Npos (XI (XO (XI (XI (XO (XO (XI
    (XO (XO (XO (XI (XI XH))))))))))))), (Npos (XO (XI (XO (XI (XO (XO (XO
    (XI (XO (XO (XI (XI XH)))))))))))))), L) :: ((((Npos (XO (XO (XO (XO (XI
    (XO (XO (XI (XO (XO (XI (XI XH))))))))))))), (Npos (XO (XI (XO (XI (XI
    (XI (XO (XI (XO (XO (XI (XI XH)))))))))))))), L) :: ((((Npos (XI (XO (XI
    (XI (XI (XI (XO (XI (XO (XO (XI (XI XH))))))))))))), (Npos (XI (XI (XI
    (XO (XO (XO (XI (XI (XO (XO (XI (XI XH)))))))))))))), L) :: ((((Npos (XO
    (XO (XO (XO (XI (XO (XI (XI (XO (XO (XI (XI XH))))))))))))), (Npos (XO
    (XI (XO (XO (XI (XO (XI (XI (XO (XO (XI (XI XH)))))))))))))),
    NSM) :: ((((Npos (XI (XI (XO (XO (XI (XO (XI (XI (XO (XO (XI (XI
    XH))))))))))))), (Npos (XI (XI (XO (XO (XI (XO (XI (XI (XO (XO (XI (XI
    XH)))))))))))))), L) :: ((((Npos (XO (XO (XI (XO (XI (XO (XI (XI (XO (XO
    (XI (XI XH))))))))))))), (Npos (XO (XO (XO (XO (XO (XI (XI (XI (XO (XO
    (XI (XI XH)))))))))))))), NSM) :: ((((Npos (XI (XO (XO (XO (XO (XI (XI
    (XI (XO (XO (XI (XI XH))))))))))))), (Npos (XI (XO (XO (XO (XO (XI (XI
    (XI (XO (XO (XI (XI XH)))))))))))))), L) :: ((((Npos (XO (XI (XO (XO (XO
    (XI (XI (XI (XO (XO (XI (XI XH))))))))))))), (Npos (XO (XO (XO (XI (XO
    (XI (XI (XI (XO (XO (XI (XI XH)))))))))))))), NSM) :: ((((Npos (XI (XO
    (XO (XI (XO (XI (XI (XI (XO (XO (XI (XI XH))))))))))))), (Npos (XO (XO
    (XI (XI (XO (XI (XI (XI (XO (XO (XI (XI XH)))))))))))))), L) :: ((((Npos
    (XI (XO (XI (XI (XO (XI (XI (XI (XO (XO (XI (XI XH))))))))))))), (Npos
    (XI (XO (XI (XI (XO (XI (XI (XI (XO (XO (XI (XI XH)))))))))))))),
    NSM) :: ((((Npos (XO (XI (XI (XI (XO (XI (XI (XI (XO (XO (XI (XI
    XH))))))))))))), (Npos (XI (XI (XO (XO (XI (XI (XI (XI (XO (XO (XI (XI
    XH)))))))))))))), L) :: ((((Npos (XO (XO (XI (XO (XI (XI (XI (XI (XO (XO
    (XI (XI XH))))))))))))), (Npos (XO (XO (XI (XO (XI (XI (XI (XI (XO (XO
    (XI (XI XH)))))))))))))), NSM) :: ((((Npos (XI (XO (XI (XO (XI (XI (XI
    (XI (XO (XO (XI (XI XH))))))))))))), (Npos (XI (XI (XI (XO (XI (XI (XI
    (XI (XO (XO (XI (XI XH)))))))))))))), L) :: ((((Npos (XO (XO (XO (XI (XI
    (XI (XI (XI (XO (XO (XI (XI XH))))))))))))), (Npos (XI (XO (XO (XI (XI
    (XI (XI (XI (XO (XO (XI (XI XH)))))))))))))), NSM) :: ((((Npos (XO (XI
    (XO (XI (XI (XI (XI (XI (XO (XO (XI (XI XH))))))))))))), (Npos (XO (XI
    (XO (XI (XI (XI (XI (XI (XO (XO (XI (XI XH)))))))))))))), L) :: ((((Npos
    (XO (XO (XO (XO (XO (XO (XO (XO (XI (XO (XI (XI XH))))))))))))), (Npos
    (XI (XI (XI (XI (XI (XI (XO (XI (XI (XO (XI (XI XH)))))))))))))),
    L) :: ((((Npos (XO (XO (XO (XO (XO (XO (XI (XI (XI (XO (XI (XI
    XH))))))))))))), (Npos (XI (XI (XI (XI (XI (XI (XI (XI (XI (XO (XI (XI
    XH)))))))))))))), NSM) :: ((((Npos (XO (XO (XO (XO (XO (XO (XO (XO (XO
    (XI (XI (XI XH))))))))))))), (Npos (XI (XO (XI (XO (XI (XO (XO (XO (XI
    (XI (XI (XI XH)))))))))))))), L) :: ((((Npos (XO (XO (XO (XI (XI (XO (XO
    (XO (XI (XI (XI (XI XH))))))))))))), (Npos (XI (XO (XI (XI (XI (XO (XO
    (XO (XI (XI (XI (XI XH)))))))))))))), L) :: ((((Npos (XO (XO (XO (XO (XO
    (XI (XO (XO (XI (XI (XI (XI XH))))))))))))), (Npos (XI (XO (XI (XO (XO
    (XO (XI (XO (XI (XI (XI (XI XH)))))))))))))), L) :: ((((Npos (XO (XO (XO
    (XI (XO (XO (XI (XO (XI (XI (XI (XI XH))))))))))))), (Npos (XI (XO (XI
    (XI (XO (XO (XI (XO (XI (XI (XI (XI XH)))))))))))))), L) :: ((((Npos (XO
    (XO (XO (XO (XI (XO (XI (XO (XI (XI (XI (XI XH))))))))))))), (Npos (XI
    (XI (XI (XO (XI (XO (XI (XO (XI (XI (XI (XI XH)))))))))))))),
    L) :: ((((Npos (XI (XO (XO (XI (XI (XO (XI (XO (XI (XI (XI (XI
    XH))))))))))))), (Npos (XI (XO (XO (XI (XI (XO (XI (XO (XI (XI (XI (XI
    XH)))))))))))))), L) :: ((((Npos (XI (XI (XO (XI (XI (XO (XI (XO (XI (XI
    (XI (XI XH))))))))))))), (Npos (XI (XI (XO (XI (XI (XO (XI (XO (XI (XI
    (XI (XI XH)))))))))))))), L) :: ((((Npos (XI (XO (XI (XI (XI (XO (XI (XO
    (XI (XI (XI (XI XH))))))))))))), (Npos (XI (XO (XI (XI (XI (XO (XI (XO
    (XI (XI (XI (XI XH)))))))))))))), L) :: ((((Npos (XI (XI (XI (XI (XI (XO
    (XI (XO (XI (XI (XI (XI XH))))))))))))), (Npos (XI (XO (XI (XI (XI (XI
    (XI (XO (XI (XI (XI (XI XH)))))))))))))), L) :: ((((Npos (XO (XO (XO (XO
    (XO (XO (XO (XI (XI (XI (XI (XI XH))))))))))))), (Npos (XO (XO (XI (XO
    (XI (XI (XO (XI (XI (XI (XI (XI XH)))))))))))))), L) :: ((((Npos (XO (XI
    (XI (XO (XI (XI (XO (XI (XI (XI (XI (XI XH))))))))))))), (Npos (XO (XO
    (XI (XI (XI (XI (XO (XI (XI (XI (XI (XI XH)))))))))))))), L) :: ((((Npos
    (XI (XO (XI (XI (XI (XI (XO (XI (XI (XI (XI (XI XH))))))))))))), (Npos
    (XI (XO (XI (XI (XI (XI (XO (XI (XI (XI (XI (XI XH)))))))))))))),
    ON) :: ((((Npos (XO (XI (XI (XI (XI (XI (XO (XI (XI (XI (XI (XI
    XH))))))))))))), (Npos (XO (XI (XI (XI (XI (XI (XO (XI (XI (XI (XI (XI
    XH)))))))))))))), L) :: ((((Npos (XI (XI (XI (XI (XI (XI (XO (XI (XI (XI
    (XI (XI XH))))))))))))), (Npos (XI (XO (XO (XO (XO (XO (XI (XI (XI (XI
    (XI (XI XH)))))))))))))), ON) :: ((((Npos (XO (XI (XO (XO (XO (XO (XI (XI
    (XI (XI (XI (XI XH))))))))))))), (Npos (XO (XO (XI (XO (XO (XO (XI (XI
    (XI (XI (XI (XI XH)))))))))))))), L) :: ((((Npos (XO (XI (XI (XO (XO (XO
    (XI (XI (XI (XI (XI (XI XH))))))))))))), (Npos (XO (XO (XI (XI (XO (XO
    (XI (XI (XI (XI (XI (XI XH)))))))))))))), L) :: ((((Npos (XI (XO (XI (XI
    (XO (XO (XI (XI (XI (XI (XI (XI XH))))))))))))), (Npos (XI (XI (XI (XI
    (XO (XO (XI (XI (XI (XI (XI (XI XH)))))))))))))), ON) :: ((((Npos (XO (XO
    (XO (XO (XI (XO (XI (XI (XI (XI (XI (XI XH))))))))))))), (Npos (XI (XI
    (XO (XO (XI (XO (XI (XI (XI (XI (XI (XI XH)))))))))))))), L) :: ((((Npos
    (XO (XI (XI (XO (XI (XO (XI (XI (XI (XI (XI (XI XH))))))))))))), (Npos
    (XI (XI (XO (XI (XI (XO (XI (XI (XI (XI (XI (XI XH)))))))))))))),
    L) :: ((((Npos (XI (XO (XI (XI (XI (XO (XI (XI (XI (XI (XI (XI
    XH))))))))))))), (Npos (XI (XI (XI (XI (XI (XO (XI (XI (XI (XI (XI (XI
    XH)))))))))))))), ON) :: ((((Npos (XO (XO (XO (XO (XO (XI (XI (XI (XI (XI
    (XI (XI XH))))))))))))), (Npos (XO (XO (XI (XI (XO (XI (XI (XI (XI (XI
    (XI (XI XH)))))))))))))), L) :: ((((Npos (XI (XO (XI (XI (XO (XI (XI (XI
    (XI (XI (XI (XI XH))))))))))))), (Npos (XI (XI (XI (XI (XO (XI (XI (XI
    (XI (XI (XI (XI XH)))))))))))))), ON) :: ((((Npos (XO (XI (XO (XO (XI (XI
    (XI (XI (XI (XI (XI (XI XH))))))))))))), (Npos (XO (XO (XI (XO (XI (XI
    (XI (XI (XI (XI (XI (XI XH)))))))))))))), L) :: ((((Npos (XO (XI (XI (XO
    (XI (XI (XI (XI (XI (XI (XI (XI XH))))))))))))), (Npos (XO (XO (XI (XI
    (XI (XI (XI (XI (XI (XI (XI (XI XH)))))))))))))), L) :: ((((Npos (XI (XO
    (XI (XI (XI (XI (XI (XI (XI (XI (XI (XI XH))))))))))))), (Npos (XO (XI
    (XI (XI (XI (XI (XI (XI (XI (XI (XI (XI XH)))))))))))))), ON) :: ((((Npos
    (XO (XO (XO (XO (XO (XO (XO (XO (XO (XO (XO (XO (XO XH)))))))))))))),
    (Npos (XO (XI (XO (XI (XO (XO (XO (XO (XO (XO (XO (XO (XO
    XH))))))))))))))), WS) :: ((((Npos (XI (XI (XO (XI (XO (XO (XO (XO (XO
    (XO (XO (XO (XO XH)))))))))))))), (Npos (XI (XO (XI (XI (XO (XO (XO (XO
    (XO (XO (XO (XO (XO XH))))))))))))))), BN) :: ((((Npos (XO (XI (XI (XI
    (XO (XO (XO (XO (XO (XO (XO (XO (XO XH)))))))))))))), (Npos (XO (XI (XI
    (XI (XO (XO (XO (XO (XO (XO (XO (XO (XO XH))))))))))))))), L) :: ((((Npos
    (XI (XI (XI (XI (XO (XO (XO (XO (XO (XO (XO (XO (XO XH)))))))))))))),
    (Npos (XI (XI (XI (XI (XO (XO (XO (XO (XO (XO (XO (XO (XO
    XH))))))))))))))), R) :: ((((Npos (XO (XO (XO (XO (XI (XO (XO (XO (XO (XO
    (XO (XO (XO XH)))))))))))))), (Npos (XI (XI (XI (XO (XO (XI (XO (XO (XO
    (XO (XO (XO (XO XH))))))))))))))), ON) :: ((((Npos (XO (XO (XO (XI (XO
    (XI (XO (XO (XO (XO (XO (XO (XO XH)))))))))))))), (Npos (XO (XO (XO (XI
    (XO (XI (XO (XO (XO (XO (XO (XO (XO XH))))))))))))))), WS) :: ((((Npos
    (XI (XO (XO (XI (XO (XI (XO (XO (XO (XO (XO (XO (XO XH)))))))))))))),
    (Npos (XI (XO (XO (XI (XO (XI (XO (XO (XO (XO (XO (XO (XO
    XH))))))))))))))), B) :: ((((Npos (XO (XI (XO (XI (XO (XI (XO (XO (XO (XO
    (XO (XO (XO XH)))))))))))))), (Npos (XO (XI (XO (XI (XO (XI (XO (XO (XO
    (XO (XO (XO (XO XH))))))))))))))), LRE) :: ((((Npos (XI (XI (XO (XI (XO
    (XI (XO (XO (XO (XO (XO (XO (XO XH)))))))))))))), (Npos (XI (XI (XO (XI
    (XO (XI (XO (XO (XO (XO (XO (XO (XO XH))))))))))))))), RLE) :: ((((Npos
    (XO (XO (XI (XI (XO (XI (XO (XO (XO (XO (XO (XO (XO XH)))))))))))))),
    (Npos (XO (XO (XI (XI (XO (XI (XO (XO (XO (XO (XO (XO (XO
    XH))))))))))))))), PDF) :: ((((Npos (XI (XO (XI (XI (XO (XI (XO (XO (XO
    (XO (XO (XO (XO XH)))))))))))))), (Npos (XI (XO (XI (XI (XO (XI (XO (XO
    (XO (XO (XO (XO (XO XH))))))))))))))), LRO) :: ((((Npos (XO (XI (XI (XI
    (XO (XI (XO (XO (XO (XO (XO (XO (XO XH)))))))))))))), (Npos (XO (XI (XI
    (XI (XO (XI (XO (XO (XO (XO (XO (XO (XO XH))))))))))))))),
    RLO) :: ((((Npos (XI (XI (XI (XI (XO (XI (XO (XO (XO (XO (XO (XO (XO
    XH)))))))))))))), (Npos (XI (XI (XI (XI (XO (XI (XO (XO (XO (XO (XO (XO
    (XO XH))))))))))))))), CS) :: ((((Npos (XO (XO (XO (XO (XI (XI (XO (XO
    (XO (XO (XO (XO (XO XH)))))))))))))), (Npos (XO (XO (XI (XO (XI (XI (XO
    (XO (XO (XO (XO (XO (XO XH))))))))))))))), ET) :: ((((Npos (XI (XO (XI
    (XO (XI (XI (XO (XO (XO (XO (XO (XO (XO XH)))))))))))))), (Npos (XI (XI
    (XO (XO (XO (XO (XI (XO (XO (XO (XO (XO (XO XH))))))))))))))),
    ON) :: ((((Npos (XO (XO (XI (XO (XO (XO (XI (XO (XO (XO (XO (XO (XO
    XH)))))))))))))), (Npos (XO (XO (XI (XO (XO (XO (XI (XO (XO (XO (XO (XO
    (XO XH))))))))))))))), CS) :: ((((Npos (XI (XO (XI (XO (XO (XO (XI (XO
    (XO (XO (XO (XO (XO XH)))))))))))))), (Npos (XO (XI (XI (XI (XI (XO (XI
    (XO (XO (XO (XO (XO (XO XH))))))))))))))), ON) :: ((((Npos (XI (XI (XI
    (XI (XI (XO (XI (XO (XO (XO (XO (XO (XO XH)))))))))))))), (Npos (XI (XI
    (XI (XI (XI (XO (XI (XO (XO (XO (XO (XO (XO XH))))))))))))))),
    WS) :: ((((Npos (XO (XO (XO (XO (XO (XI (XI (XO (XO (XO (XO (XO (XO
    XH)))))))))))))), (Npos (XO (XO (XI (XO (XO (XI (XI (XO (XO (XO (XO (XO
    (XO XH))))))))))))))), BN) :: ((((Npos (XO (XI (XI (XO (XO (XI (XI (XO
    (XO (XO (XO (XO (XO XH)))))))))))))), (Npos (XO (XI (XI (XO (XO (XI (XI
    (XO (XO (XO (XO (XO (XO XH))))))))))))))), LRI) :: ((((Npos (XI (XI (XI
    (XO (XO (XI (XI (XO (XO (XO (XO (XO (XO XH)))))))))))))), (Npos (XI (XI
    (XI (XO (XO (XI (XI (XO (XO (XO (XO (XO (XO XH))))))))))))))),
    RLI) :: ((((Npos (XO (XO (XO (XI (XO (XI (XI (XO (XO (XO (XO (XO (XO
    XH)))))))))))))), (Npos (XO (XO (XO (XI (XO (XI (XI (XO (XO (XO (XO (XO
    (XO XH))))))))))))))), FSI) :: ((((Npos (XI (XO (XO (XI (XO (XI (XI (XO
    (XO (XO (XO (XO (XO XH)))))))))))))), (Npos (XI (XO (XO (XI (XO (XI (XI
    (XO (XO (XO (XO (XO (XO XH))))))))))))))), PDI) :: ((((Npos (XO (XI (XO
    (XI (XO (XI (XI (XO (XO (XO (XO (XO (XO XH)))))))))))))), (Npos (XI (XI
    (XI (XI (XO (XI (XI (XO (XO (XO (XO (XO (XO XH))))))))))))))),
    BN) :: ((((Npos (XO (XO (XO (XO (XI (XI (XI (XO (XO (XO (XO (XO (XO
    XH)))))))))))))), (Npos (XO (XO (XO (XO (XI (XI (XI (XO (XO (XO (XO (XO
    (XO XH))))))))))))))), EN) :: ((((Npos (XI (XO (XO (XO (XI (XI (XI (XO
    (XO (XO (XO (XO (XO XH)))))))))))))), (Npos (XI (XO (XO (XO (XI (XI (XI
    (XO (XO (XO (XO (XO (XO XH))))))))))))))), L) :: ((((Npos (XO (XO (XI (XO
    (XI (XI (XI (XO (XO (XO (XO (XO (XO XH)))))))))))))), (Npos (XI (XO (XO
    (XI (XI (XI (XI (XO (XO (XO (XO (XO (XO XH))))))))))))))),
    EN) :: ((((Npos (XO (XI (XO (XI (XI (XI (XI (XO (XO (XO (XO (XO (XO
    XH)))))))))))))), (Npos (XI (XI (XO (XI (XI (XI (XI (XO (XO (XO (XO (XO
    (XO XH))))))))))))))), ES) :: ((((Npos (XO (XO (XI (XI (XI (XI (XI (XO
    (XO (XO (XO (XO (XO XH)))))))))))))), (Npos (XO (XI (XI (XI (XI (XI (XI
    (XO (XO (XO (XO (XO (XO XH))))))))))))))), ON) :: ((((Npos (XI (XI (XI
    (XI (XI (XI (XI (XO (XO (XO (XO (XO (XO XH)))))))))))))), (Npos (XI (XI
    (XI (XI (XI (XI (XI (XO (XO (XO (XO (XO (XO XH))))))))))))))),
    L) :: ((((Npos (XO (XO (XO (XO (XO (XO (XO (XI (XO (XO (XO (XO (XO
    XH)))))))))))))), (Npos (XI (XO (XO (XI (XO (XO (XO (XI (XO (XO (XO (XO
    (XO XH))))))))))))))), EN) :: ((((Npos (XO (XI (XO (XI (XO (XO (XO (XI
    (XO (XO (XO (XO (XO XH)))))))))))))), (Npos (XI (XI (XO (XI (XO (XO (XO
    (XI (XO (XO (XO (XO (XO XH))))))))))))))), ES) :: ((((Npos (XO (XO (XI
    (XI (XO (XO (XO (XI (XO (XO (XO (XO (XO XH)))))))))))))), (Npos (XO (XI
    (XI (XI (XO (XO (XO (XI (XO (XO (XO (XO (XO XH))))))))))))))),
    ON) :: ((((Npos (XO (XO (XO (XO (XI (XO (XO (XI (XO (XO (XO (XO (XO
    XH)))))))))))))), (Npos (XO (XO (XI (XI (XI (XO (XO (XI (XO (XO (XO (XO
    (XO XH))))))))))))))), L) :: ((((Npos (XO (XO (XO (XO (XO (XI (XO (XI (XO
    (XO (XO (XO (XO XH)))))))))))))), (Npos (XI (XI (XI (XI (XO (XO (XI (XI
    (XO (XO (XO (XO (XO XH))))))))))))))), ET) :: ((((Npos (XO (XO (XO (XO
    (XI (XO (XI (XI (XO (XO (XO (XO (XO XH)))))))))))))), (Npos (XO (XO (XO
    (XO (XI (XI (XI (XI (XO (XO (XO (XO (XO XH))))))))))))))),
    NSM) :: ((((Npos (XO (XO (XO (XO (XO (XO (XO (XO (XI (XO (XO (XO (XO
    XH)))))))))))))), (Npos (XI (XO (XO (XO (XO (XO (XO (XO (XI (XO (XO (XO
    (XO XH))))))))))))))), ON) :: ((((Npos (XO (XI (XO (XO (XO (XO (XO (XO
    (XI (XO (XO (XO (XO XH)))))))))))))), (Npos (XO (XI (XO (XO (XO (XO (XO
    (XO (XI (XO (XO (XO (XO XH))))))))))))))), L) :: ((((Npos (XI (XI (XO (XO
    (XO (XO (XO (XO (XI (XO (XO (XO (XO XH)))))))))))))), (Npos (XO (XI (XI
    (XO (XO (XO (XO (XO (XI (XO (XO (XO (XO XH))))))))))))))),
    ON) :: ((((Npos (XI (XI (XI (XO (XO (XO (XO (XO (XI (XO (XO (XO (XO
    XH)))))))))))))), (Npos (XI (XI (XI (XO (XO (XO (XO (XO (XI (XO (XO (XO
    (XO XH))))))))))))))), L) :: ((((Npos (XO (XO (XO (XI (XO (XO (XO (XO (XI
    (XO (XO (XO (XO XH)))))))))))))), (Npos (XI (XO (XO (XI (XO (XO (XO (XO
    (XI (XO (XO (XO (XO XH))))))))))))))), ON) :: ((((Npos (XO (XI (XO (XI
    (XO (XO (XO (XO (XI (XO (XO (XO (XO XH)))))))))))))), (Npos (XI (XI (XO
    (XO (XI (XO (XO (XO (XI (XO (XO (XO (XO XH))))))))))))))), L) :: ((((Npos
    (XO (XO (XI (XO (XI (XO (XO (XO (XI (XO (XO (XO (XO XH)))))))))))))),
    (Npos (XO (XO (XI (XO (XI (XO (XO (XO (XI (XO (XO (XO (XO
    XH))))))))))))))), ON) :: ((((Npos (XI (XO (XI (XO (XI (XO (XO (XO (XI
    (XO (XO (XO (XO XH)))))))))))))), (Npos (XI (XO (XI (XO (XI (XO (XO (XO
    (XI (XO (XO (XO (XO XH))))))))))))))), L) :: ((((Npos (XO (XI (XI (XO (XI
    (XO (XO (XO (XI (XO (XO (XO (XO XH)))))))))))))), (Npos (XO (XO (XO (XI
    (XI (XO (XO (XO (XI (XO (XO (XO (XO XH))))))))))))))), ON) :: ((((Npos
    (XI (XO (XO (XI (XI (XO (XO (XO (XI (XO (XO (XO (XO XH)))))))))))))),
    (Npos (XI (XO (XI (XI (XI (XO (XO (XO (XI (XO (XO (XO (XO
    XH))))))))))))))), L) :: ((((Npos (XO (XI (XI (XI (XI (XO (XO (XO (XI (XO
    (XO (XO (XO XH)))))))))))))), (Npos (XI (XI (XO (XO (XO (XI (XO (XO (XI
    (XO (XO (XO (XO XH))))))))))))))), ON) :: ((((Npos (XO (XO (XI (XO (XO
    (XI (XO (XO (XI (XO (XO (XO (XO XH)))))))))))))), (Npos (XO (XO (XI (XO
    (XO (XI (XO (XO (XI (XO (XO (XO (XO XH))))))))))))))), L) :: ((((Npos (XI
    (XO (XI (XO (XO (XI (XO (XO (XI (XO (XO (XO (XO XH)))))))))))))), (Npos
    (XI (XO (XI (XO (XO (XI (XO (XO (XI (XO (XO (XO (XO XH))))))))))))))),
    ON) :: ((((Npos (XO (XI (XI (XO (XO (XI (XO (XO (XI (XO (XO (XO (XO
    XH)))))))))))))), (Npos (XO (XI (XI (XO (XO (XI (XO (XO (XI (XO (XO (XO
    (XO XH))))))))))))))), L) :: ((((Npos (XI (XI (XI (XO (XO (XI (XO (XO (XI
    (XO (XO (XO (XO XH)))))))))))))), (Npos (XI (XI (XI (XO (XO (XI (XO (XO
    (XI (XO (XO (XO (XO XH))))))))))))))), ON) :: ((((Npos (XO (XO (XO (XI
    (XO (XI (XO (XO (XI (XO (XO (XO (XO XH)))))))))))))), (Npos (XO (XO (XO
    (XI (XO (XI (XO (XO (XI (XO (XO (XO (XO XH))))))))))))))), L) :: ((((Npos
    (XI (XO (XO (XI (XO (XI (XO (XO (XI (XO (XO (XO (XO XH)))))))))))))),
    (Npos (XI (XO (XO (XI (XO (XI (XO (XO (XI (XO (XO (XO (XO
    XH))))))))))))))), ON) :: ((((Npos (XO (XI (XO (XI (XO (XI (XO (XO (XI
    (XO (XO (XO (XO XH)))))))))))))), (Npos (XI (XO (XI (XI (XO (XI (XO (XO
    (XI (XO (XO (XO (XO XH))))))))))))))), L) :: ((((Npos (XO (XI (XI (XI (XO
    (XI (XO (XO (XI (XO (XO (XO (XO XH)))))))))))))), (Npos (XO (XI (XI (XI
    (XO (XI (XO (XO (XI (XO (XO (XO (XO XH))))))))))))))), ET) :: ((((Npos
    (XI (XI (XI (XI (XO (XI (XO (XO (XI (XO (XO (XO (XO XH)))))))))))))),
    (Npos (XI (XO (XO (XI (XI (XI (XO (XO (XI (XO (XO (XO (XO
    XH))))))))))))))), L) :: ((((Npos (XO (XI (XO (XI (XI (XI (XO (XO (XI (XO
    (XO (XO (XO XH)))))))))))))), (Npos (XI (XI (XO (XI (XI (XI (XO (XO (XI
    (XO (XO (XO (XO XH))))))))))))))), ON) :: ((((Npos (XO (XO (XI (XI (XI
    (XI (XO (XO (XI (XO (XO (XO (XO XH)))))))))))))), (Npos (XI (XI (XI (XI
    (XI (XI (XO (XO (XI (XO (XO (XO (XO XH))))))))))))))), L) :: ((((Npos (XO
    (XO (XO (XO (XO (XO (XI (XO (XI (XO (XO (XO (XO XH)))))))))))))), (Npos
    (XO (XO (XI (XO (XO (XO (XI (XO (XI (XO (XO (XO (XO XH))))))))))))))),
    ON) :: ((((Npos (XI (XO (XI (XO (XO (XO (XI (XO (XI (XO (XO (XO (XO
    XH)))))))))))))), (Npos (XI (XO (XO (XI (XO (XO (XI (XO (XI (XO (XO (XO
    (XO XH))))))))))))))), L) :: ((((Npos (XO (XI (XO (XI (XO (XO (XI (XO (XI
    (XO (XO (XO (XO XH)))))))))))))), (Npos (XI (XO (XI (XI (XO (XO (XI (XO
    (XI (XO (XO (XO (XO XH))))))))))))))), ON) :: ((((Npos (XO (XI (XI (XI
    (XO (XO (XI (XO (XI (XO (XO (XO (XO XH)))))))))))))), (Npos (XI (XI (XI
    (XI (XO (XO (XI (XO (XI (XO (XO (XO (XO XH))))))))))))))), L) :: ((((Npos
    (XO (XO (XO (XO (XI (XO (XI (XO (XI (XO (XO (XO (XO XH)))))))))))))),
    (Npos (XI (XI (XI (XI (XI (XO (XI (XO (XI (XO (XO (XO (XO
    XH))))))))))))))), ON) :: ((((Npos (XO (XO (XO (XO (XO (XI (XI (XO (XI
    (XO (XO (XO (XO XH)))))))))))))), (Npos (XO (XO (XO (XI (XO (XO (XO (XI
    (XI (XO (XO (XO (XO XH))))))))))))))), L) :: ((((Npos (XI (XO (XO (XI (XO
    (XO (XO (XI (XI (XO (XO (XO (XO XH)))))))))))))), (Npos (XI (XI (XO (XI
    (XO (XO (XO (XI (XI (XO (XO (XO (XO XH))))))))))))))), ON) :: ((((Npos
    (XO (XO (XO (XO (XI (XO (XO (XI (XI (XO (XO (XO (XO XH)))))))))))))),
    (Npos (XI (XO (XO (XO (XI (XO (XO (XO (XO (XI (XO (XO (XO
    XH))))))))))))))), ON) :: ((((Npos (XO (XI (XO (XO (XI (XO (XO (XO (XO
    (XI (XO (XO (XO XH)))))))))))))), (Npos (XO (XI (XO (XO (XI (XO (XO (XO
    (XO (XI (XO (XO (XO XH))))))))))))))), ES) :: ((((Npos (XI (XI (XO (XO
    (XI (XO (XO (XO (XO (XI (XO (XO (XO XH)))))))))))))), (Npos (XI (XI (XO
    (XO (XI (XO (XO (XO (XO (XI (XO (XO (XO XH))))))))))))))),
    ET) :: ((((Npos (XO (XO (XI (XO (XI (XO (XO (XO (XO (XI (XO (XO (XO
    XH)))))))))))))), (Npos (XI (XO (XI (XO (XI (XI (XO (XO (XI (XI (XO (XO
    (XO XH))))))))))))))), ON) :: ((((Npos (XO (XI (XI (XO (XI (XI (XO (XO
    (XI (XI (XO (XO (XO XH)))))))))))))), (Npos (XO (XI (XO (XI (XI (XI (XI
    (XO (XI (XI (XO (XO (XO XH))))))))))))))), L) :: ((((Npos (XI (XI (XO (XI
    (XI (XI (XI (XO (XI (XI (XO (XO (XO XH)))))))))))))), (Npos (XO (XO (XI
    (XO (XI (XO (XO (XI (XI (XI (XO (XO (XO XH))))))))))))))),
    ON) :: ((((Npos (XI (XO (XI (XO (XI (XO (XO (XI (XI (XI (XO (XO (XO
    XH)))))))))))))), (Npos (XI (XO (XI (XO (XI (XO (XO (XI (XI (XI (XO (XO
    (XO XH))))))))))))))), L) :: ((((Npos (XO (XI (XI (XO (XI (XO (XO (XI (XI
    (XI (XO (XO (XO XH)))))))))))))), (Npos (XI (XO (XO (XI (XO (XI (XO (XO
    (XO (XO (XI (XO (XO XH))))))))))))))), ON) :: ((((Npos (XO (XO (XO (XO
    (XO (XO (XI (XO (XO (XO (XI (XO (XO XH)))))))))))))), (Npos (XO (XI (XO
    (XI (XO (XO (XI (XO (XO (XO (XI (XO (XO XH))))))))))))))),
    ON) :: ((((Npos (XO (XO (XO (XO (XO (XI (XI (XO (XO (XO (XI (XO (XO
    XH)))))))))))))), (Npos (XI (XI (XI (XO (XO (XO (XO (XI (XO (XO (XI (XO
    (XO XH))))))))))))))), ON) :: ((((Npos (XO (XO (XO (XI (XO (XO (XO (XI
    (XO (XO (XI (XO (XO XH)))))))))))))), (Npos (XI (XI (XO (XI (XI (XO (XO
    (XI (XO (XO (XI (XO (XO XH))))))))))))))), EN) :: ((((Npos (XO (XO (XI
    (XI (XI (XO (XO (XI (XO (XO (XI (XO (XO XH)))))))))))))), (Npos (XI (XO
    (XO (XI (XO (XI (XI (XI (XO (XO (XI (XO (XO XH))))))))))))))),
    L) :: ((((Npos (XO (XI (XO (XI (XO (XI (XI (XI (XO (XO (XI (XO (XO
    XH)))))))))))))), (Npos (XI (XI (XO (XI (XO (XI (XO (XI (XO (XI (XI (XO
    (XO XH))))))))))))))), ON) :: ((((Npos (XO (XO (XI (XI (XO (XI (XO (XI
    (XO (XI (XI (XO (XO XH)))))))))))))), (Npos (XO (XO (XI (XI (XO (XI (XO
    (XI (XO (XI (XI (XO (XO XH))))))))))))))), L) :: ((((Npos (XI (XO (XI (XI
    (XO (XI (XO (XI (XO (XI (XI (XO (XO XH)))))))))))))), (Npos (XI (XI (XI
    (XI (XI (XI (XI (XI (XI (XI (XI (XO (XO XH))))))))))))))),
    ON) :: ((((Npos (XO (XO (XO (XO (XO (XO (XO (XO (XO (XO (XO (XI (XO
    XH)))))))))))))), (Npos (XI (XI (XI (XI (XI (XI (XI (XI (XO (XO (XO (XI
    (XO XH))))))))))))))), L) :: ((((Npos (XO (XO (XO (XO (XO (XO (XO (XO (XI
    (XO (XO (XI (XO XH)))))))))))))), (Npos (XI (XI (XO (XO (XI (XI (XI (XO
    (XI (XI (XO (XI (XO XH))))))))))))))), ON) :: ((((Npos (XO (XI (XI (XO
    (XI (XI (XI (XO (XI (XI (XO (XI (XO XH)))))))))))))), (Npos (XI (XO (XI
    (XO (XI (XO (XO (XI (XI (XI (XO (XI (XO XH))))))))))))))),
    ON) :: ((((Npos (XI (XI (XI (XO (XI (XO (XO (XI (XI (XI (XO (XI (XO
    XH)))))))))))))), (Npos (XI (XI (XI (XI (XI (XI (XI (XI (XI (XI (XO (XI
    (XO XH))))))))))))))), ON) :: ((((Npos (XO (XO (XO (XO (XO (XO (XO (XO
    (XO (XO (XI (XI (XO XH)))))))))))))), (Npos (XO (XO (XI (XO (XO (XI (XI
    (XI (XO (XO (XI (XI (XO XH))))))))))))))), L) :: ((((Npos (XI (XO (XI (XO
    (XO (XI (XI (XI (XO (XO (XI (XI (XO XH)))))))))))))), (Npos (XO (XI (XO
    (XI (XO (XI (XI (XI (XO (XO (XI (XI (XO XH))))))))))))))),
    ON) :: ((((Npos (XI (XI (XO (XI (XO (XI (XI (XI (XO (XO (XI (XI (XO
    XH)))))))))))))), (Npos (XO (XI (XI (XI (XO (XI (XI (XI (XO (XO (XI (XI
    (XO XH))))))))))))))), L) :: ((((Npos (XI (XI (XI (XI (XO (XI (XI (XI (XO
    (XO (XI (XI (XO XH)))))))))))))), (Npos (XI (XO (XO (XO (XI (XI (XI (XI
    (XO (XO (XI (XI (XO XH))))))))))))))), NSM) :: ((((Npos (XO (XI (XO (XO
    (XI (XI (XI (XI (XO (XO (XI (XI (XO XH)))))))))))))), (Npos (XI (XI (XO
    (XO (XI (XI (XI (XI (XO (XO (XI (XI (XO XH))))))))))))))), L) :: ((((Npos
    (XI (XO (XO (XI (XI (XI (XI (XI (XO (XO (XI (XI (XO XH)))))))))))))),
    (Npos (XI (XI (XI (XI (XI (XI (XI (XI (XO (XO (XI (XI (XO
    XH))))))))))))))), ON) :: ((((Npos (XO (XO (XO (XO (XO (XO (XO (XO (XI
    (XO (XI (XI (XO XH)))))))))))))), (Npos (XI (XO (XI (XO (XO (XI (XO (XO
    (XI (XO (XI (XI (XO XH))))))))))))))), L) :: ((((Npos (XI (XI (XI (XO (XO
    (XI (XO (XO (XI (XO (XI (XI (XO XH)))))))))))))), (Npos (XI (XI (XI (XO
    (XO (XI (XO (XO (XI (XO (XI (XI (XO XH))))))))))))))), L) :: ((((Npos (XI
    (XO (XI (XI (XO (XI (XO (XO (XI (XO (XI (XI (XO XH)))))))))))))), (Npos
    (XI (XO (XI (XI (XO (XI (XO (XO (XI (XO (XI (XI (XO XH))))))))))))))),
    L) :: ((((Npos (XO (XO (XO (XO (XI (XI (XO (XO (XI (XO (XI (XI (XO
    XH)))))))))))))), (Npos (XI (XI (XI (XO (XO (XI (XI (XO (XI (XO (XI (XI
    (XO XH))))))))))))))), L) :: ((((Npos (XI (XI (XI (XI (XO (XI (XI (XO (XI
    (XO (XI (XI (XO XH)))))))))))))), (Npos (XO (XO (XO (XO (XI (XI (XI (XO
    (XI (XO (XI (XI (XO XH))))))))))))))), L) :: ((((Npos (XI (XI (XI (XI (XI
    (XI (XI (XO (XI (XO (XI (XI (XO XH)))))))))))))), (Npos (XI (XI (XI (XI
    (XI (XI (XI (XO (XI (XO (XI (XI (XO XH))))))))))))))), NSM) :: ((((Npos
    (XO (XO (XO (XO (XO (XO (XO (XI (XI (XO (XI (XI (XO XH)))))))))))))),
    (Npos (XO (XI (XI (XO (XI (XO (XO (XI (XI (XO (XI (XI (XO
    XH))))))))))))))), L) :: ((((Npos (XO (XO (XO (XO (XO (XI (XO (XI (XI (XO
    (XI (XI (XO XH)))))))))))))), (Npos (XO (XI (XI (XO (XO (XI (XO (XI (XI
    (XO (XI (XI (XO XH))))))))))))))), L) :: ((((Npos (XO (XO (XO (XI (XO (XI
    (XO (XI (XI (XO (XI (XI (XO XH)))))))))))))), (Npos (XO (XI (XI (XI (XO
    (XI (XO (XI (XI (XO (XI (XI (XO XH))))))))))))))), L) :: ((((Npos (XO (XO
    (XO (XO (XI (XI (XO (XI (XI (XO (XI (XI (XO XH)))))))))))))), (Npos (XO
    (XI (XI (XO (XI (XI (XO (XI (XI (XO (XI (XI (XO XH))))))))))))))),
    L) :: ((((Npos (XO (XO (XO (XI (XI (XI (XO (XI (XI (XO (XI (XI (XO
    XH)))))))))))))), (Npos (XO (XI (XI (XI (XI (XI (XO (XI (XI (XO (XI (XI
    (XO XH))))))))))))))), L) :: ((((Npos (XO (XO (XO (XO (XO (XO (XI (XI (XI
    (XO (XI (XI (XO XH)))))))))))))), (Npos (XO (XI (XI (XO (XO (XO (XI (XI
    (XI (XO (XI (XI (XO XH))))))))))))))), L) :: ((((Npos (XO (XO (XO (XI (XO
    (XO (XI (XI (XI (XO (XI (XI (XO XH)))))))))))))), (Npos (XO (XI (XI (XI
    (XO (XO (XI (XI (XI (XO (XI (XI (XO XH))))))))))))))), L) :: ((((Npos (XO
    (XO (XO (XO (XI (XO (XI (XI (XI (XO (XI (XI (XO XH)))))))))))))), (Npos
    (XO (XI (XI (XO (XI (XO (XI (XI (XI (XO (XI (XI (XO XH))))))))))))))),
    L) :: ((((Npos (XO (XO (XO (XI (XI (XO (XI (XI (XI (XO (XI (XI (XO
    XH)))))))))))))), (Npos (XO (XI (XI (XI (XI (XO (XI (XI (XI (XO (XI (XI
    (XO XH))))))))))))))), L) :: ((((Npos (XO (XO (XO (XO (XO (XI (XI (XI (XI
    (XO (XI (XI (XO XH)))))))))))))), (Npos (XI (XI (XI (XI (XI (XI (XI (XI
    (XI (XO (XI (XI (XO XH))))))))))))))), NSM) :: ((((Npos (XO (XO (XO (XO
    (XO (XO (XO (XO (XO (XI (XI (XI (XO XH)))))))))))))), (Npos (XI (XO (XI
    (XI (XI (XO (XI (XO (XO (XI (XI (XI (XO XH))))))))))))))),
    ON) :: ((((Npos (XO (XO (XO (XO (XO (XO (XO (XI (XO (XI (XI (XI (XO
    XH)))))))))))))), (Npos (XI (XO (XO (XI (XI (XO (XO (XI (XO (XI (XI (XI
    (XO XH))))))))))))))), ON) :: ((((Npos (XI (XI (XO (XI (XI (XO (XO (XI
    (XO (XI (XI (XI (XO XH)))))))))))))), (Npos (XI (XI (XO (XO (XI (XI (XI
    (XI (XO (XI (XI (XI (XO XH))))))))))))))), ON) :: ((((Npos (XO (XO (XO
    (XO (XO (XO (XO (XO (XI (XI (XI (XI (XO XH)))))))))))))), (Npos (XI (XO
    (XI (XO (XI (XO (XI (XI (XI (XI (XI (XI (XO XH))))))))))))))),
    ON) :: ((((Npos (XO (XO (XO (XO (XI (XI (XI (XI (XI (XI (XI (XI (XO
    XH)))))))))))))), (Npos (XI (XI (XI (XI (XI (XI (XI (XI (XI (XI (XI (XI
    (XO XH))))))))))))))), ON) :: ((((Npos (XO (XO (XO (XO (XO (XO (XO (XO
    (XO (XO (XO (XO (XI XH)))))))))))))), (Npos (XO (XO (XO (XO (XO (XO (XO
    (XO (XO (XO (XO (XO (XI XH))))))))))))))), WS) :: ((((Npos (XI (XO (XO
    (XO (XO (XO (XO (XO (XO (XO (XO (XO (XI XH)))))))))))))), (Npos (XO (XO
    (XI (XO (XO (XO (XO (XO (XO (XO (XO (XO (XI XH))))))))))))))),
    ON) :: ((((Npos (XI (XO (XI (XO (XO (XO (XO (XO (XO (XO (XO (XO (XI
    XH)))))))))))))), (Npos (XI (XI (XI (XO (XO (XO (XO (XO (XO (XO (XO (XO
    (XI XH))))))))))))))), L) :: ((((Npos (XO (XO (XO (XI (XO (XO (XO (XO (XO
    (XO (XO (XO (XI XH)))))))))))))), (Npos (XO (XO (XO (XO (XO (XI (XO (XO
    (XO (XO (XO (XO (XI XH))))))))))))))), ON) :: ((((Npos (XI (XO (XO (XO
    (XO (XI (XO (XO (XO (XO (XO (XO (XI XH)))))))))))))), (Npos (XI (XO (XO
    (XI (XO (XI (XO (XO (XO (XO (XO (XO (XI XH))))))))))))))), L) :: ((((Npos
    (XO (XI (XO (XI (XO (XI (XO (XO (XO (XO (XO (XO (XI XH)))))))))))))),
    (Npos (XI (XO (XI (XI (XO (XI (XO (XO (XO (XO (XO (XO (XI
    XH))))))))))))))), NSM) :: ((((Npos (XO (XI (XI (XI (XO (XI (XO (XO (XO
    (XO (XO (XO (XI XH)))))))))))))), (Npos (XI (XI (XI (XI (XO (XI (XO (XO
    (XO (XO (XO (XO (XI XH))))))))))))))), L) :: ((((Npos (XO (XO (XO (XO (XI
    (XI (XO (XO (XO (XO (XO (XO (XI XH)))))))))))))), (Npos (XO (XO (XO (XO
    (XI (XI (XO (XO (XO (XO (XO (XO (XI XH))))))))))))))), ON) :: ((((Npos
    (XI (XO (XO (XO (XI (XI (XO (XO (XO (XO (XO (XO (XI XH)))))))))))))),
    (Npos (XI (XO (XI (XO (XI (XI (XO (XO (XO (XO (XO (XO (XI
    XH))))))))))))))), L) :: ((((Npos (XO (XI (XI (XO (XI (XI (XO (XO (XO (XO
    (XO (XO (XI XH)))))))))))))), (Npos (XI (XI (XI (XO (XI (XI (XO (XO (XO
    (XO (XO (XO (XI XH))))))))))))))), ON) :: ((((Npos (XO (XO (XO (XI (XI
    (XI (XO (XO (XO (XO (XO (XO (XI XH)))))))))))))), (Npos (XO (XO (XI (XI
    (XI (XI (XO (XO (XO (XO (XO (XO (XI XH))))))))))))))), L) :: ((((Npos (XI
    (XO (XI (XI (XI (XI (XO (XO (XO (XO (XO (XO (XI XH)))))))))))))), (Npos
    (XI (XI (XI (XI (XI (XI (XO (XO (XO (XO (XO (XO (XI XH))))))))))))))),
    ON) :: ((((Npos (XI (XO (XO (XO (XO (XO (XI (XO (XO (XO (XO (XO (XI
    XH)))))))))))))), (Npos (XO (XI (XI (XO (XI (XO (XO (XI (XO (XO (XO (XO
    (XI XH))))))))))))))), L) :: ((((Npos (XI (XO (XO (XI (XI (XO (XO (XI (XO
    (XO (XO (XO (XI XH)))))))))))))), (Npos (XO (XI (XO (XI (XI (XO (XO (XI
    (XO (XO (XO (XO (XI XH))))))))))))))), NSM) :: ((((Npos (XI (XI (XO (XI
    (XI (XO (XO (XI (XO (XO (XO (XO (XI XH)))))))))))))), (Npos (XO (XO (XI
    (XI (XI (XO (XO (XI (XO (XO (XO (XO (XI XH))))))))))))))),
    ON) :: ((((Npos (XI (XO (XI (XI (XI (XO (XO (XI (XO (XO (XO (XO (XI
    XH)))))))))))))), (Npos (XI (XI (XI (XI (XI (XO (XO (XI (XO (XO (XO (XO
    (XI XH))))))))))))))), L) :: ((((Npos (XO (XO (XO (XO (XO (XI (XO (XI (XO
    (XO (XO (XO (XI XH)))))))))))))), (Npos (XO (XO (XO (XO (XO (XI (XO (XI
    (XO (XO (XO (XO (XI XH))))))))))))))), ON) :: ((((Npos (XI (XO (XO (XO
    (XO (XI (XO (XI (XO (XO (XO (XO (XI XH)))))))))))))), (Npos (XO (XI (XO
    (XI (XI (XI (XI (XI (XO (XO (XO (XO (XI XH))))))))))))))), L) :: ((((Npos
    (XI (XI (XO (XI (XI (XI (XI (XI (XO (XO (XO (XO (XI XH)))))))))))))),
    (Npos (XI (XI (XO (XI (XI (XI (XI (XI (XO (XO (XO (XO (XI
    XH))))))))))))))), ON) :: ((((Npos (XO (XO (XI (XI (XI (XI (XI (XI (XO
    (XO (XO (XO (XI XH)))))))))))))), (Npos (XI (XI (XI (XI (XI (XI (XI (XI
    (XO (XO (XO (XO (XI XH))))))))))))))), L) :: ((((Npos (XI (XO (XI (XO (XO
    (XO (XO (XO (XI (XO (XO (XO (XI XH)))))))))))))), (Npos (XI (XI (XI (XI
    (XO (XI (XO (XO (XI (XO (XO (XO (XI XH))))))))))))))), L) :: ((((Npos (XI
    (XO (XO (XO (XI (XI (XO (XO (XI (XO (XO (XO (XI XH)))))))))))))), (Npos
    (XO (XI (XI (XI (XO (XO (XO (XI (XI (XO (XO (XO (XI XH))))))))))))))),
    L) :: ((((Npos (XO (XO (XO (XO (XI (XO (XO (XI (XI (XO (XO (XO (XI
    XH)))))))))))))), (Npos (XI (XI (XI (XI (XI (XI (XO (XI (XI (XO (XO (XO
    (XI XH))))))))))))))), L) :: ((((Npos (XO (XO (XO (XO (XO (XO (XI (XI (XI
    (XO (XO (XO (XI XH)))))))))))))), (Npos (XI (XO (XI (XO (XO (XI (XI (XI
    (XI (XO (XO (XO (XI XH))))))))))))))), ON) :: ((((Npos (XI (XI (XI (XI
    (XO (XI (XI (XI (XI (XO (XO (XO (XI XH)))))))))))))), (Npos (XI (XI (XI
    (XI (XO (XI (XI (XI (XI (XO (XO (XO (XI XH))))))))))))))),
    ON) :: ((((Npos (XO (XO (XO (XO (XI (XI (XI (XI (XI (XO (XO (XO (XI
    XH)))))))))))))), (Npos (XO (XO (XI (XI (XI (XO (XO (XO (XO (XI (XO (XO
    (XI XH))))))))))))))), L) :: ((((Npos (XI (XO (XI (XI (XI (XO (XO (XO (XO
    (XI (XO (XO (XI XH)))))))))))))), (Npos (XO (XI (XI (XI (XI (XO (XO (XO
    (XO (XI (XO (XO (XI XH))))))))))))))), ON) :: ((((Npos (XO (XO (XO (XO
    (XO (XI (XO (XO (XO (XI (XO (XO (XI XH)))))))))))))), (Npos (XI (XI (XI
    (XI (XO (XO (XI (XO (XO (XI (XO (XO (XI XH))))))))))))))), L) :: ((((Npos
    (XO (XO (XO (XO (XI (XO (XI (XO (XO (XI (XO (XO (XI XH)))))))))))))),
    (Npos (XI (XI (XI (XI (XI (XO (XI (XO (XO (XI (XO (XO (XI
    XH))))))))))))))), ON) :: ((((Npos (XO (XO (XO (XO (XO (XI (XI (XO (XO
    (XI (XO (XO (XI XH)))))))))))))), (Npos (XI (XI (XO (XI (XI (XI (XI (XO
    (XO (XI (XO (XO (XI XH))))))))))))))), L) :: ((((Npos (XO (XO (XI (XI (XI
    (XI (XI (XO (XO (XI (XO (XO (XI XH)))))))))))))), (Npos (XO (XI (XI (XI
    (XI (XI (XI (XO (XO (XI (XO (XO (XI XH))))))))))))))), ON) :: ((((Npos
    (XI (XI (XI (XI (XI (XI (XI (XO (XO (XI (XO (XO (XI XH)))))))))))))),
    (Npos (XO (XO (XO (XO (XI (XI (XO (XI (XO (XI (XO (XO (XI
    XH))))))))))))))), L) :: ((((Npos (XI (XO (XO (XO (XI (XI (XO (XI (XO (XI
    (XO (XO (XI XH)))))))))))))), (Npos (XI (XI (XI (XI (XI (XI (XO (XI (XO
    (XI (XO (XO (XI XH))))))))))))))), ON) :: ((((Npos (XO (XO (XO (XO (XO
    (XO (XI (XI (XO (XI (XO (XO (XI XH)))))))))))))), (Npos (XI (XI (XO (XI
    (XO (XO (XI (XI (XO (XI (XO (XO (XI XH))))))))))))))), L) :: ((((Npos (XO
    (XO (XI (XI (XO (XO (XI (XI (XO (XI (XO (XO (XI XH)))))))))))))), (Npos
    (XI (XI (XI (XI (XO (XO (XI (XI (XO (XI (XO (XO (XI XH))))))))))))))),
    ON) :: ((((Npos (XO (XO (XO (XO (XI (XO (XI (XI (XO (XI (XO (XO (XI
    XH)))))))))))))), (Npos (XO (XI (XI (XO (XI (XI (XI (XO (XI (XI (XO (XO
    (XI XH))))))))))))))), L) :: ((((Npos (XI (XI (XI (XO (XI (XI (XI (XO (XI
    (XI (XO (XO (XI XH)))))))))))))), (Npos (XO (XI (XO (XI (XI (XI (XI (XO
    (XI (XI (XO (XO (XI XH))))))))))))))), ON) :: ((((Npos (XI (XI (XO (XI
    (XI (XI (XI (XO (XI (XI (XO (XO (XI XH)))))))))))))), (Npos (XI (XO (XI
    (XI (XI (XO (XI (XI (XI (XI (XO (XO (XI XH))))))))))))))), L) :: ((((Npos
    (XO (XI (XI (XI (XI (XO (XI (XI (XI (XI (XO (XO (XI XH)))))))))))))),
    (Npos (XI (XI (XI (XI (XI (XO (XI (XI (XI (XI (XO (XO (XI
    XH))))))))))))))), ON) :: ((((Npos (XO (XO (XO (XO (XO (XI (XI (XI (XI
    (XI (XO (XO (XI XH)))))))))))))), (Npos (XO (XI (XI (XI (XI (XI (XI (XI
    (XI (XI (XO (XO (XI XH))))))))))))))), L) :: ((((Npos (XI (XI (XI (XI (XI
    (XI (XI (XI (XI (XI (XO (XO (XI XH)))))))))))))), (Npos (XI (XI (XI (XI
    (XI (XI (XI (XI (XI (XI (XO (XO (XI XH))))))))))))))), ON) :: ((((Npos
    (XO (XO (XO (XO (XO (XO (XO (XO (XO (XO (XI (XO (XI XH)))))))))))))),
    (Npos (XI (XI (XI (XI (XI (XI (XO (XI (XI (XO (XI (XI (XO (XO
    XH)))))))))))))))), L) :: ((((Npos (XO (XO (XO (XO (XO (XO (XI (XI (XI
    (XO (XI (XI (XO (XO XH))))))))))))))), (Npos (XI (XI (XI (XI (XI (XI (XI
    (XI (XI (XO (XI (XI (XO (XO XH)))))))))))))))), ON) :: ((((Npos (XO (XO
    (XO (XO (XO (XO (XO (XO (XO (XI (XI (XI (XO (XO XH))))))))))))))), (Npos
    (XO (XO (XI (XI (XO (XO (XO (XI (XO (XO (XI (XO (XO (XI (XO
    XH))))))))))))))))), L) :: ((((Npos (XO (XO (XO (XO (XI (XO (XO (XI (XO
    (XO (XI (XO (XO (XI (XO XH)))))))))))))))), (Npos (XO (XI (XI (XO (XO (XO
    (XI (XI (XO (XO (XI (XO (XO (XI (XO XH))))))))))))))))), ON) :: ((((Npos
    (XO (XO (XO (XO (XI (XO (XI (XI (XO (XO (XI (XO (XO (XI (XO
    XH)))))))))))))))), (Npos (XO (XO (XI (XI (XO (XO (XO (XO (XO (XI (XI (XO
    (XO (XI (XO XH))))))))))))))))), L) :: ((((Npos (XI (XO (XI (XI (XO (XO
    (XO (XO (XO (XI (XI (XO (XO (XI (XO XH)))))))))))))))), (Npos (XI (XI (XI
    (XI (XO (XO (XO (XO (XO (XI (XI (XO (XO (XI (XO XH))))))))))))))))),
    ON) :: ((((Npos (XO (XO (XO (XO (XI (XO (XO (XO (XO (XI (XI (XO (XO (XI
    (XO XH)))))))))))))))), (Npos (XI (XI (XO (XI (XO (XI (XO (XO (XO (XI (XI
    (XO (XO (XI (XO XH))))))))))))))))), L) :: ((((Npos (XO (XO (XO (XO (XO
    (XO (XI (XO (XO (XI (XI (XO (XO (XI (XO XH)))))))))))))))), (Npos (XO (XI
    (XI (XI (XO (XI (XI (XO (XO (XI (XI (XO (XO (XI (XO XH))))))))))))))))),
    L) :: ((((Npos (XI (XI (XI (XI (XO (XI (XI (XO (XO (XI (XI (XO (XO (XI
    (XO XH)))))))))))))))), (Npos (XO (XI (XO (XO (XI (XI (XI (XO (XO (XI (XI
    (XO (XO (XI (XO XH))))))))))))))))), NSM) :: ((((Npos (XI (XI (XO (XO (XI
    (XI (XI (XO (XO (XI (XI (XO (XO (XI (XO XH)))))))))))))))), (Npos (XI (XI
    (XO (XO (XI (XI (XI (XO (XO (XI (XI (XO (XO (XI (XO XH))))))))))))))))),
    ON) :: ((((Npos (XO (XO (XI (XO (XI (XI (XI (XO (XO (XI (XI (XO (XO (XI
    (XO XH)))))))))))))))), (Npos (XI (XO (XI (XI (XI (XI (XI (XO (XO (XI (XI
    (XO (XO (XI (XO XH))))))))))))))))), NSM) :: ((((Npos (XO (XI (XI (XI (XI
    (XI (XI (XO (XO (XI (XI (XO (XO (XI (XO XH)))))))))))))))), (Npos (XI (XI
    (XI (XI (XI (XI (XI (XO (XO (XI (XI (XO (XO (XI (XO XH))))))))))))))))),
    ON) :: ((((Npos (XO (XO (XO (XO (XO (XO (XO (XI (XO (XI (XI (XO (XO (XI
    (XO XH)))))))))))))))), (Npos (XI (XO (XI (XI (XI (XO (XO (XI (XO (XI (XI
    (XO (XO (XI (XO XH))))))))))))))))), L) :: ((((Npos (XO (XI (XI (XI (XI
    (XO (XO (XI (XO (XI (XI (XO (XO (XI (XO XH)))))))))))))))), (Npos (XI (XI
    (XI (XI (XI (XO (XO (XI (XO (XI (XI (XO (XO (XI (XO XH))))))))))))))))),
    NSM) :: ((((Npos (XO (XO (XO (XO (XO (XI (XO (XI (XO (XI (XI (XO (XO (XI
    (XO XH)))))))))))))))), (Npos (XI (XI (XI (XI (XO (XI (XI (XI (XO (XI (XI
    (XO (XO (XI (XO XH))))))))))))))))), L) :: ((((Npos (XO (XO (XO (XO (XI
    (XI (XI (XI (XO (XI (XI (XO (XO (XI (XO XH)))))))))))))))), (Npos (XI (XO
    (XO (XO (XI (XI (XI (XI (XO (XI (XI (XO (XO (XI (XO XH))))))))))))))))),
    NSM) :: ((((Npos (XO (XI (XO (XO (XI (XI (XI (XI (XO (XI (XI (XO (XO (XI
    (XO XH)))))))))))))))), (Npos (XI (XI (XI (XO (XI (XI (XI (XI (XO (XI (XI
    (XO (XO (XI (XO XH))))))))))))))))), L) :: ((((Npos (XO (XO (XO (XO (XO
    (XO (XO (XO (XI (XI (XI (XO (XO (XI (XO XH)))))))))))))))), (Npos (XI (XO
    (XO (XO (XO (XI (XO (XO (XI (XI (XI (XO (XO (XI (XO XH))))))))))))))))),
    ON) :: ((((Npos (XO (XI (XO (XO (XO (XI (XO (XO (XI (XI (XI (XO (XO (XI
    (XO XH)))))))))))))))), (Npos (XI (XI (XI (XO (XO (XO (XO (XI (XI (XI (XI
    (XO (XO (XI (XO XH))))))))))))))))), L) :: ((((Npos (XO (XO (XO (XI (XO
    (XO (XO (XI (XI (XI (XI (XO (XO (XI (XO XH)))))))))))))))), (Npos (XO (XO
    (XO (XI (XO (XO (XO (XI (XI (XI (XI (XO (XO (XI (XO XH))))))))))))))))),
    ON) :: ((((Npos (XI (XO (XO (XI (XO (XO (XO (XI (XI (XI (XI (XO (XO (XI
    (XO XH)))))))))))))))), (Npos (XI (XO (XI (XI (XO (XO (XI (XI (XI (XI (XI
    (XO (XO (XI (XO XH))))))))))))))))), L) :: ((((Npos (XO (XO (XO (XO (XI
    (XO (XI (XI (XI (XI (XI (XO (XO (XI (XO XH)))))))))))))))), (Npos (XI (XO
    (XO (XO (XI (XO (XI (XI (XI (XI (XI (XO (XO (XI (XO XH))))))))))))))))),
    L) :: ((((Npos (XI (XI (XO (XO (XI (XO (XI (XI (XI (XI (XI (XO (XO (XI
    (XO XH)))))))))))))))), (Npos (XI (XI (XO (XO (XI (XO (XI (XI (XI (XI (XI
    (XO (XO (XI (XO XH))))))))))))))))), L) :: ((((Npos (XI (XO (XI (XO (XI
    (XO (XI (XI (XI (XI (XI (XO (XO (XI (XO XH)))))))))))))))), (Npos (XO (XO
    (XI (XI (XI (XO (XI (XI (XI (XI (XI (XO (XO (XI (XO XH))))))))))))))))),
    L) :: ((((Npos (XO (XI (XO (XO (XI (XI (XI (XI (XI (XI (XI (XO (XO (XI
    (XO XH)))))))))))))))), (Npos (XI (XO (XO (XO (XO (XO (XO (XO (XO (XO (XO
    (XI (XO (XI (XO XH))))))))))))))))), L) :: ((((Npos (XO (XI (XO (XO (XO
    (XO (XO (XO (XO (XO (XO (XI (XO (XI (XO XH)))))))))))))))), (Npos (XO (XI
    (XO (XO (XO (XO (XO (XO (XO (XO (XO (XI (XO (XI (XO XH))))))))))))))))),
    NSM) :: ((((Npos (XI (XI (XO (XO (XO (XO (XO (XO (XO (XO (XO (XI (XO (XI
    (XO XH)))))))))))))))), (Npos (XI (XO (XI (XO (XO (XO (XO (XO (XO (XO (XO
    (XI (XO (XI (XO XH))))))))))))))))), L) :: ((((Npos (XO (XI (XI (XO (XO
    (XO (XO (XO (XO (XO (XO (XI (XO (XI (XO XH)))))))))))))))), (Npos (XO (XI
    (XI (XO (XO (XO (XO (XO (XO (XO (XO (XI (XO (XI (XO XH))))))))))))))))),
    NSM) :: ((((Npos (XI (XI (XI (XO (XO (XO (XO (XO (XO (XO (XO (XI (XO (XI
    (XO XH)))))))))))))))), (Npos (XO (XI (XO (XI (XO (XO (XO (XO (XO (XO (XO
    (XI (XO (XI (XO XH))))))))))))))))), L) :: ((((Npos (XI (XI (XO (XI (XO
    (XO (XO (XO (XO (XO (XO (XI (XO (XI (XO XH)))))))))))))))), (Npos (XI (XI
    (XO (XI (XO (XO (XO (XO (XO (XO (XO (XI (XO (XI (XO XH))))))))))))))))),
    NSM) :: ((((Npos (XO (XO (XI (XI (XO (XO (XO (XO (XO (XO (XO (XI (XO (XI
    (XO XH)))))))))))))))), (Npos (XO (XO (XI (XO (XO (XI (XO (XO (XO (XO (XO
    (XI (XO (XI (XO XH))))))))))))))))), L) :: ((((Npos (XI (XO (XI (XO (XO
    (XI (XO (XO (XO (XO (XO (XI (XO (XI (XO XH)))))))))))))))), (Npos (XO (XI
    (XI (XO (XO (XI (XO (XO (XO (XO (XO (XI (XO (XI (XO XH))))))))))))))))),
    NSM) :: ((((Npos (XI (XI (XI (XO (XO (XI (XO (XO (XO (XO (XO (XI (XO (XI
    (XO XH)))))))))))))))), (Npos (XI (XI (XI (XO (XO (XI (XO (XO (XO (XO (XO
    (XI (XO (XI (XO XH))))))))))))))))), L) :: ((((Npos (XO (XO (XO (XI (XO
    (XI (XO (XO (XO (XO (XO (XI (XO (XI (XO XH)))))))))))))))), (Npos (XI (XI
    (XO (XI (XO (XI (XO (XO (XO (XO (XO (XI (XO (XI (XO XH))))))))))))))))),
    ON) :: ((((Npos (XO (XO (XI (XI (XO (XI (XO (XO (XO (XO (XO (XI (XO (XI
    (XO XH)))))))))))))))), (Npos (XO (XO (XI (XI (XO (XI (XO (XO (XO (XO (XO
    (XI (XO (XI (XO XH))))))))))))))))), NSM) :: ((((Npos (XO (XO (XO (XO (XI
    (XI (XO (XO (XO (XO (XO (XI (XO (XI (XO XH)))))))))))))))), (Npos (XI (XI
    (XI (XO (XI (XI (XO (XO (XO (XO (XO (XI (XO (XI (XO XH))))))))))))))))),
    L) :: ((((Npos (XO (XO (XO (XI (XI (XI (XO (XO (XO (XO (XO (XI (XO (XI
    (XO XH)))))))))))))))), (Npos (XI (XO (XO (XI (XI (XI (XO (XO (XO (XO (XO
    (XI (XO (XI (XO XH))))))))))))))))), ET) :: ((((Npos (XO (XO (XO (XO (XO
    (XO (XI (XO (XO (XO (XO (XI (XO (XI (XO XH)))))))))))))))), (Npos (XI (XI
    (XO (XO (XI (XI (XI (XO (XO (XO (XO (XI (XO (XI (XO XH))))))))))))))))),
    L) :: ((((Npos (XO (XO (XI (XO (XI (XI (XI (XO (XO (XO (XO (XI (XO (XI
    (XO XH)))))))))))))))), (Npos (XI (XI (XI (XO (XI (XI (XI (XO (XO (XO (XO
    (XI (XO (XI (XO XH))))))))))))))))), ON) :: ((((Npos (XO (XO (XO (XO (XO
    (XO (XO (XI (XO (XO (XO (XI (XO (XI (XO XH)))))))))))))))), (Npos (XI (XI
    (XO (XO (XO (XO (XI (XI (XO (XO (XO (XI (XO (XI (XO XH))))))))))))))))),
    L) :: ((((Npos (XO (XO (XI (XO (XO (XO (XI (XI (XO (XO (XO (XI (XO (XI
    (XO XH)))))))))))))))), (Npos (XI (XO (XI (XO (XO (XO (XI (XI (XO (XO (XO
    (XI (XO (XI (XO XH))))))))))))))))), NSM) :: ((((Npos (XO (XI (XI (XI (XO
    (XO (XI (XI (XO (XO (XO (XI (XO (XI (XO XH)))))))))))))))), (Npos (XI (XO
    (XO (XI (XI (XO (XI (XI (XO (XO (XO (XI (XO (XI (XO XH))))))))))))))))),
    L) :: ((((Npos (XO (XO (XO (XO (XO (XI (XI (XI (XO (XO (XO (XI (XO (XI
    (XO XH)))))))))))))))), (Npos (XI (XO (XO (XO (XI (XI (XI (XI (XO (XO (XO
    (XI (XO (XI (XO XH))))))))))))))))), NSM) :: ((((Npos (XO (XI (XO (XO (XI
    (XI (XI (XI (XO (XO (XO (XI (XO (XI (XO XH)))))))))))))))), (Npos (XO (XI
    (XI (XI (XI (XI (XI (XI (XO (XO (XO (XI (XO (XI (XO XH))))))))))))))))),
    L) :: ((((Npos (XI (XI (XI (XI (XI (XI (XI (XI (XO (XO (XO (XI (XO (XI
    (XO XH)))))))))))))))), (Npos (XI (XI (XI (XI (XI (XI (XI (XI (XO (XO (XO
    (XI (XO (XI (XO XH))))))))))))))))), NSM) :: ((((Npos (XO (XO (XO (XO (XO
    (XO (XO (XO (XI (XO (XO (XI (XO (XI (XO XH)))))))))))))))), (Npos (XI (XO
    (XI (XO (XO (XI (XO (XO (XI (XO (XO (XI (XO (XI (XO XH))))))))))))))))),
    L) :: ((((Npos (XO (XI (XI (XO (XO (XI (XO (XO (XI (XO (XO (XI (XO (XI
    (XO XH)))))))))))))))), (Npos (XI (XO (XI (XI (XO (XI (XO (XO (XI (XO (XO
    (XI (XO (XI (XO XH))))))))))))))))), NSM) :: ((((Npos (XO (XI (XI (XI (XO
    (XI (XO (XO (XI (XO (XO (XI (XO (XI (XO XH)))))))))))))))), (Npos (XO (XI
    (XI (XO (XO (XO (XI (XO (XI (XO (XO (XI (XO (XI (XO XH))))))))))))))))),
    L) :: ((((Npos (XI (XI (XI (XO (XO (XO (XI (XO (XI (XO (XO (XI (XO (XI
    (XO XH)))))))))))))))), (Npos (XI (XO (XO (XO (XI (XO (XI (XO (XI (XO (XO
    (XI (XO (XI (XO XH))))))))))))))))), NSM) :: ((((Npos (XO (XI (XO (XO (XI
    (XO (XI (XO (XI (XO (XO (XI (XO (XI (XO XH)))))))))))))))), (Npos (XI (XI
    (XO (XO (XI (XO (XI (XO (XI (XO (XO (XI (XO (XI (XO XH))))))))))))))))),
    L) :: ((((Npos (XI (XI (XI (XI (XI (XO (XI (XO (XI (XO (XO (XI (XO (XI
    (XO XH)))))))))))))))), (Npos (XO (XO (XI (XI (XI (XI (XI (XO (XI (XO (XO
    (XI (XO (XI (XO XH))))))))))))))))), L) :: ((((Npos (XO (XO (XO (XO (XO
    (XO (XO (XI (XI (XO (XO (XI (XO (XI (XO XH)))))))))))))))), (Npos (XO (XI
    (XO (XO (XO (XO (XO (XI (XI (XO (XO (XI (XO (XI (XO XH))))))))))))))))),
    NSM) :: ((((Npos (XI (XI (XO (XO (XO (XO (XO (XI (XI (XO (XO (XI (XO (XI
    (XO XH)))))))))))))))), (Npos (XO (XI (XO (XO (XI (XI (XO (XI (XI (XO (XO
    (XI (XO (XI (XO XH))))))))))))))))), L) :: ((((Npos (XI (XI (XO (XO (XI
    (XI (XO (XI (XI (XO (XO (XI (XO (XI (XO XH)))))))))))))))), (Npos (XI (XI
    (XO (XO (XI (XI (XO (XI (XI (XO (XO (XI (XO (XI (XO XH))))))))))))))))),
    NSM) :: ((((Npos (XO (XO (XI (XO (XI (XI (XO (XI (XI (XO (XO (XI (XO (XI
    (XO XH)))))))))))))))), (Npos (XI (XO (XI (XO (XI (XI (XO (XI (XI (XO (XO
    (XI (XO (XI (XO XH))))))))))))))))), L) :: ((((Npos (XO (XI (XI (XO (XI
    (XI (XO (XI (XI (XO (XO (XI (XO (XI (XO XH)))))))))))))))), (Npos (XI (XO
    (XO (XI (XI (XI (XO (XI (XI (XO (XO (XI (XO (XI (XO XH))))))))))))))))),
    NSM) :: ((((Npos (XO (XI (XO (XI (XI (XI (XO (XI (XI (XO (XO (XI (XO (XI
    (XO XH)))))))))))))))), (Npos (XI (XI (XO (XI (XI (XI (XO (XI (XI (XO (XO
    (XI (XO (XI (XO XH))))))))))))))))), L) :: ((((Npos (XO (XO (XI (XI (XI
    (XI (XO (XI (XI (XO (XO (XI (XO (XI (XO XH)))))))))))))))), (Npos (XI (XO
    (XI (XI (XI (XI (XO (XI (XI (XO (XO (XI (XO (XI (XO XH))))))))))))))))),
    NSM) :: ((((Npos (XO (XI (XI (XI (XI (XI (XO (XI (XI (XO (XO (XI (XO (XI
    (XO XH)))))))))))))))), (Npos (XI (XO (XI (XI (XO (XO (XI (XI (XI (XO (XO
    (XI (XO (XI (XO XH))))))))))))))))), L) :: ((((Npos (XI (XI (XI (XI (XO
    (XO (XI (XI (XI (XO (XO (XI (XO (XI (XO XH)))))))))))))))), (Npos (XI (XO
    (XO (XI (XI (XO (XI (XI (XI (XO (XO (XI (XO (XI (XO XH))))))))))))))))),
    L) :: ((((Npos (XO (XI (XI (XI (XI (XO (XI (XI (XI (XO (XO (XI (XO (XI
    (XO XH)))))))))))))))), (Npos (XO (XO (XI (XO (XO (XI (XI (XI (XI (XO (XO
    (XI (XO (XI (XO XH))))))))))))))))), L) :: ((((Npos (XI (XO (XI (XO (XO
    (XI (XI (XI (XI (XO (XO (XI (XO (XI (XO XH)))))))))))))))), (Npos (XI (XO
    (XI (XO (XO (XI (XI (XI (XI (XO (XO (XI (XO (XI (XO XH))))))))))))))))),
    NSM) :: ((((Npos (XO (XI (XI (XO (XO (XI (XI (XI (XI (XO (XO (XI (XO (XI
    (XO XH)))))))))))))))), (Npos (XO (XI (XI (XI (XI (XI (XI (XI (XI (XO (XO
    (XI (XO (XI (XO XH))))))))))))))))), L) :: ((((Npos (XO (XO (XO (XO (XO
    (XO (XO (XO (XO (XI (XO (XI (XO (XI (XO XH)))))))))))))))), (Npos (XO (XO
    (XO (XI (XO (XI (XO (XO (XO (XI (XO (XI (XO (XI (XO XH))))))))))))))))),
    L) :: ((((Npos (XI (XO (XO (XI (XO (XI (XO (XO (XO (XI (XO (XI (XO (XI
    (XO XH)))))))))))))))), (Npos (XO (XI (XI (XI (XO (XI (XO (XO (XO (XI (XO
    (XI (XO (XI (XO XH))))))))))))))))), NSM) :: ((((Npos (XI (XI (XI (XI (XO
    (XI (XO (XO (XO (XI (XO (XI (XO (XI (XO XH)))))))))))))))), (Npos (XO (XO
    (XO (XO (XI (XI (XO (XO (XO (XI (XO (XI (XO (XI (XO XH))))))))))))))))),
    L) :: ((((Npos (XI (XO (XO (XO (XI (XI (XO (XO (XO (XI (XO (XI (XO (XI
    (XO XH)))))))))))))))), (Npos (XO (XI (XO (XO (XI (XI (XO (XO (XO (XI (XO
    (XI (XO (XI (XO XH))))))))))))))))), NSM) :: ((((Npos (XI (XI (XO (XO (XI
    (XI (XO (XO (XO (XI (XO (XI (XO (XI (XO XH)))))))))))))))), (Npos (XO (XO
    (XI (XO (XI (XI (XO (XO (XO (XI (XO (XI (XO (XI (XO XH))))))))))))))))),
    L) :: ((((Npos (XI (XO (XI (XO (XI (XI (XO (XO (XO (XI (XO (XI (XO (XI
    (XO XH)))))))))))))))), (Npos (XO (XI (XI (XO (XI (XI (XO (XO (XO (XI (XO
    (XI (XO (XI (XO XH))))))))))))))))), NSM) :: ((((Npos (XO (XO (XO (XO (XO
    (XO (XI (XO (XO (XI (XO (XI (XO (XI (XO XH)))))))))))))))), (Npos (XO (XI
    (XO (XO (XO (XO (XI (XO (XO (XI (XO (XI (XO (XI (XO XH))))))))))))))))),
    L) :: ((((Npos (XI (XI (XO (XO (XO (XO (XI (XO (XO (XI (XO (XI (XO (XI
    (XO XH)))))))))))))))), (Npos (XI (XI (XO (XO (XO (XO (XI (XO (XO (XI (XO
    (XI (XO (XI (XO XH))))))))))))))))), NSM) :: ((((Npos (XO (XO (XI (XO (XO
    (XO (XI (XO (XO (XI (XO (XI (XO (XI (XO XH)))))))))))))))), (Npos (XI (XI
    (XO (XI (XO (XO (XI (XO (XO (XI (XO (XI (XO (XI (XO XH))))))))))))))))),
    L) :: ((((Npos (XO (XO (XI (XI (XO (XO (XI (XO (XO (XI (XO (XI (XO (XI
    (XO XH)))))))))))))))), (Npos (XO (XO (XI (XI (XO (XO (XI (XO (XO (XI (XO
    (XI (XO (XI (XO XH))))))))))))))))), NSM) :: ((((Npos (XI (XO (XI (XI (XO
    (XO (XI (XO (XO (XI (XO (XI (XO (XI (XO XH)))))))))))))))), (Npos (XI (XO
    (XI (XI (XO (XO (XI (XO (XO (XI (XO (XI (XO (XI (XO XH))))))))))))))))),
    L) :: ((((Npos (XO (XO (XO (XO (XI (XO (XI (XO (XO (XI (XO (XI (XO (XI
    (XO XH)))))))))))))))), (Npos (XI (XO (XO (XI (XI (XO (XI (XO (XO (XI (XO
    (XI (XO (XI (XO XH))))))))))))))))), L) :: ((((Npos (XO (XO (XI (XI (XI
    (XO (XI (XO (XO (XI (XO (XI (XO (XI (XO XH)))))))))))))))), (Npos (XI (XI
    (XO (XI (XI (XI (XI (XO (XO (XI (XO (XI (XO (XI (XO XH))))))))))))))))),
    L) :: ((((Npos (XO (XO (XI (XI (XI (XI (XI (XO (XO (XI (XO (XI (XO (XI
    (XO XH)))))))))))))))), (Npos (XO (XO (XI (XI (XI (XI (XI (XO (XO (XI (XO
    (XI (XO (XI (XO XH))))))))))))))))), NSM) :: ((((Npos (XI (XO (XI (XI (XI
    (XI (XI (XO (XO (XI (XO (XI (XO (XI (XO XH)))))))))))))))), (Npos (XI (XI
    (XI (XI (XO (XI (XO (XI (XO (XI (XO (XI (XO (XI (XO XH))))))))))))))))),
    L) :: ((((Npos (XO (XO (XO (XO (XI (XI (XO (XI (XO (XI (XO (XI (XO (XI
    (XO XH)))))))))))))))), (Npos (XO (XO (XO (XO (XI (XI (XO (XI (XO (XI (XO
    (XI (XO (XI (XO XH))))))))))))))))), NSM) :: ((((Npos (XI (XO (XO (XO (XI
    (XI (XO (XI (XO (XI (XO (XI (XO (XI (XO XH)))))))))))))))), (Npos (XI (XO
    (XO (XO (XI (XI (XO (XI (XO (XI (XO (XI (XO (XI (XO XH))))))))))))))))),
    L) :: ((((Npos (XO (XI (XO (XO (XI (XI (XO (XI (XO (XI (XO (XI (XO (XI
    (XO XH)))))))))))))))), (Npos (XO (XO (XI (XO (XI (XI (XO (XI (XO (XI (XO
    (XI (XO (XI (XO XH))))))))))))))))), NSM) :: ((((Npos (XI (XO (XI (XO (XI
    (XI (XO (XI (XO (XI (XO (XI (XO (XI (XO XH)))))))))))))))), (Npos (XO (XI
    (XI (XO (XI (XI (XO (XI (XO (XI (XO (XI (XO (XI (XO XH))))))))))))))))),
    L) :: ((((Npos (XI (XI (XI (XO (XI (XI (XO (XI (XO (XI (XO (XI (XO (XI
    (XO XH)))))))))))))))), (Npos (XO (XO (XO (XI (XI (XI (XO (XI (XO (XI (XO
    (XI (XO (XI (XO XH))))))))))))))))), NSM) :: ((((Npos (XI (XO (XO (XI (XI
    (XI (XO (XI (XO (XI (XO (XI (XO (XI (XO XH)))))))))))))))), (Npos (XI (XO
    (XI (XI (XI (XI (XO (XI (XO (XI (XO (XI (XO (XI (XO XH))))))))))))))))),
    L) :: ((((Npos (XO (XI (XI (XI (XI (XI (XO (XI (XO (XI (XO (XI (XO (XI
    (XO XH)))))))))))))))), (Npos (XI (XI (XI (XI (XI (XI (XO (XI (XO (XI (XO
    (XI (XO (XI (XO XH))))))))))))))))), NSM) :: ((((Npos (XO (XO (XO (XO (XO
    (XO (XI (XI (XO (XI (XO (XI (XO (XI (XO XH)))))))))))))))), (Npos (XO (XO
    (XO (XO (XO (XO (XI (XI (XO (XI (XO (XI (XO (XI (XO XH))))))))))))))))),
    L) :: ((((Npos (XI (XO (XO (XO (XO (XO (XI (XI (XO (XI (XO (XI (XO (XI
    (XO XH)))))))))))))))), (Npos (XI (XO (XO (XO (XO (XO (XI (XI (XO (XI (XO
    (XI (XO (XI (XO XH))))))))))))))))), NSM) :: ((((Npos (XO (XI (XO (XO (XO
    (XO (XI (XI (XO (XI (XO (XI (XO (XI (XO XH)))))))))))))))), (Npos (XO (XI
    (XO (XO (XO (XO (XI (XI (XO (XI (XO (XI (XO (XI (XO XH))))))))))))))))),
    L) :: ((((Npos (XI (XI (XO (XI (XI (XO (XI (XI (XO (XI (XO (XI (XO (XI
    (XO XH)))))))))))))))), (Npos (XI (XI (XO (XI (XO (XI (XI (XI (XO (XI (XO
    (XI (XO (XI (XO XH))))))))))))))))), L) :: ((((Npos (XO (XO (XI (XI (XO
    (XI (XI (XI (XO (XI (XO (XI (XO (XI (XO XH)))))))))))))))), (Npos (XI (XO
    (XI (XI (XO (XI (XI (XI (XO (XI (XO (XI (XO (XI (XO XH))))))))))))))))),
    NSM) :: ((((Npos (XO (XI (XI (XI (XO (XI (XI (XI (XO (XI (XO (XI (XO (XI
    (XO XH)))))))))))))))), (Npos (XI (XO (XI (XO (XI (XI (XI (XI (XO (XI (XO
    (XI (XO (XI (XO XH))))))))))))))))), L) :: ((((Npos (XO (XI (XI (XO (XI
    (XI (XI (XI (XO (XI (XO (XI (XO (XI (XO XH)))))))))))))))), (Npos (XO (XI
    (XI (XO (XI (XI (XI (XI (XO (XI (XO (XI (XO (XI (XO XH))))))))))))))))),
    NSM) :: ((((Npos (XI (XO (XO (XO (XO (XO (XO (XO (XI (XI (XO (XI (XO (XI
    (XO XH)))))))))))))))), (Npos (XO (XI (XI (XO (XO (XO (XO (XO (XI (XI (XO
    (XI (XO (XI (XO XH))))))))))))))))), L) :: ((((Npos (XI (XO (XO (XI (XO
    (XO (XO (XO (XI (XI (XO (XI (XO (XI (XO XH)))))))))))))))), (Npos (XO (XI
    (XI (XI (XO (XO (XO (XO (XI (XI (XO (XI (XO (XI (XO XH))))))))))))))))),
    L) :: ((((Npos (XI (XO (XO (XO (XI (XO (XO (XO (XI (XI (XO (XI (XO (XI
    (XO XH)))))))))))))))), (Npos (XO (XI (XI (XO (XI (XO (XO (XO (XI (XI (XO
    (XI (XO (XI (XO XH))))))))))))))))), L) :: ((((Npos (XO (XO (XO (XO (XO
    (XI (XO (XO (XI (XI (XO (XI (XO (XI (XO XH)))))))))))))))), (Npos (XO (XI
    (XI (XO (XO (XI (XO (XO (XI (XI (XO (XI (XO (XI (XO XH))))))))))))))))),
    L) :: ((((Npos (XO (XO (XO (XI (XO (XI (XO (XO (XI (XI (XO (XI (XO (XI
    (XO XH)))))))))))))))), (Npos (XO (XI (XI (XI (XO (XI (XO (XO (XI (XI (XO
    (XI (XO (XI (XO XH))))))))))))))))), L) :: ((((Npos (XO (XO (XO (XO (XI
    (XI (XO (XO (XI (XI (XO (XI (XO (XI (XO XH)))))))))))))))), (Npos (XI (XO
    (XO (XI (XO (XI (XI (XO (XI (XI (XO (XI (XO (XI (XO XH))))))))))))))))),
    L) :: ((((Npos (XO (XI (XO (XI (XO (XI (XI (XO (XI (XI (XO (XI (XO (XI
    (XO XH)))))))))))))))), (Npos (XI (XI (XO (XI (XO (XI (XI (XO (XI (XI (XO
    (XI (XO (XI (XO XH))))))))))))))))), ON) :: ((((Npos (XO (XO (XO (XO (XI
    (XI (XI (XO (XI (XI (XO (XI (XO (XI (XO XH)))))))))))))))), (Npos (XO (XO
    (XI (XO (XO (XI (XI (XI (XI (XI (XO (XI (XO (XI (XO XH))))))))))))))))),
    L) :: ((((Npos (XI (XO (XI (XO (XO (XI (XI (XI (XI (XI (XO (XI (XO (XI
    (XO XH)))))))))))))))), (Npos (XI (XO (XI (XO (XO (XI (XI (XI (XI (XI (XO
    (XI (XO (XI (XO XH))))))))))))))))), NSM) :: ((((Npos (XO (XI (XI (XO (XO
    (XI (XI (XI (XI (XI (XO (XI (XO (XI (XO XH)))))))))))))))), (Npos (XI (XI
    (XI (XO (XO (XI (XI (XI (XI (XI (XO (XI (XO (XI (XO XH))))))))))))))))),
    L) :: ((((Npos (XO (XO (XO (XI (XO (XI (XI (XI (XI (XI (XO (XI (XO (XI
    (XO XH)))))))))))))))), (Npos (XO (XO (XO (XI (XO (XI (XI (XI (XI (XI (XO
    (XI (XO (XI (XO XH))))))))))))))))), NSM) :: ((((Npos (XI (XO (XO (XI (XO
    (XI (XI (XI (XI (XI (XO (XI (XO (XI (XO XH)))))))))))))))), (Npos (XO (XO
    (XI (XI (XO (XI (XI (XI (XI (XI (XO (XI (XO (XI (XO XH))))))))))))))))),
    L) :: ((((Npos (XI (XO (XI (XI (XO (XI (XI (XI (XI (XI (XO (XI (XO (XI
    (XO XH)))))))))))))))), (Npos (XI (XO (XI (XI (XO (XI (XI (XI (XI (XI (XO
    (XI (XO (XI (XO XH))))))))))))))))), NSM) :: ((((Npos (XO (XO (XO (XO (XI
    (XI (XI (XI (XI (XI (XO (XI (XO (XI (XO XH)))))))))))))))), (Npos (XI (XO
    (XO (XI (XI (XI (XI (XI (XI (XI (XO (XI (XO (XI (XO XH))))))))))))))))),
    L) :: ((((Npos (XO (XO (XO (XO (XO (XO (XO (XO (XO (XO (XI (XI (XO (XI
    (XO XH)))))))))))))))), (Npos (XI (XI (XO (XO (XO (XI (XO (XI (XI (XI (XI
    (XO (XI (XO (XI XH))))))))))))))))), L) :: ((((Npos (XO (XO (XO (XO (XI
    (XI (XO (XI (XI (XI (XI (XO (XI (XO (XI XH)))))))))))))))), (Npos (XO (XI
    (XI (XO (XO (XO (XI (XI (XI (XI (XI (XO (XI (XO (XI XH))))))))))))))))),
    L) :: ((((Npos (XI (XI (XO (XI (XO (XO (XI (XI (XI (XI (XI (XO (XI (XO
    (XI XH)))))))))))))))), (Npos (XI (XI (XO (XI (XI (XI (XI (XI (XI (XI (XI
    (XO (XI (XO (XI XH))))))))))))))))), L) :: ((((Npos (XO (XO (XO (XO (XO
    (XO (XO (XO (XO (XO (XO (XO (XO (XI (XI XH)))))))))))))))), (Npos (XI (XO
    (XI (XI (XO (XI (XI (XO (XO (XI (XO (XI (XI (XI (XI XH))))))))))))))))),
    L) :: ((((Npos (XO (XO (XO (XO (XI (XI (XI (XO (XO (XI (XO (XI (XI (XI
    (XI XH)))))))))))))))), (Npos (XI (XO (XO (XI (XI (XO (XI (XI (XO (XI (XO
    (XI (XI (XI (XI XH))))))))))))))))), L) :: ((((Npos (XO (XO (XO (XO (XO
    (XO (XO (XO (XI (XI (XO (XI (XI (XI (XI XH)))))))))))))))), (Npos (XO (XI
    (XI (XO (XO (XO (XO (XO (XI (XI (XO (XI (XI (XI (XI XH))))))))))))))))),
    L) :: ((((Npos (XI (XI (XO (XO (XI (XO (XO (XO (XI (XI (XO (XI (XI (XI
    (XI XH)))))))))))))))), (Npos (XI (XI (XI (XO (XI (XO (XO (XO (XI (XI (XO
    (XI (XI (XI (XI XH))))))))))))))))), L) :: ((((Npos (XI (XO (XI (XI (XI
    (XO (XO (XO (XI (XI (XO (XI (XI (XI (XI XH)))))))))))))))), (Npos (XI (XO
    (XI (XI (XI (XO (XO (XO (XI (XI (XO (XI (XI (XI (XI XH))))))))))))))))),
    R) :: ((((Npos (XO (XI (XI (XI (XI (XO (XO (XO (XI (XI (XO (XI (XI (XI
    (XI XH)))))))))))))))), (Npos (XO (XI (XI (XI (XI (XO (XO (XO (XI (XI (XO
    (XI (XI (XI (XI XH))))))))))))))))), NSM) :: ((((Npos (XI (XI (XI (XI (XI
    (XO (XO (XO (XI (XI (XO (XI (XI (XI (XI XH)))))))))))))))), (Npos (XO (XO
    (XO (XI (XO (XI (XO (XO (XI (XI (XO (XI (XI (XI (XI XH))))))))))))))))),
    R) :: ((((Npos (XI (XO (XO (XI (XO (XI (XO (XO (XI (XI (XO (XI (XI (XI
    (XI XH)))))))))))))))), (Npos (XI (XO (XO (XI (XO (XI (XO (XO (XI (XI (XO
    (XI (XI (XI (XI XH))))))))))))))))), ES) :: ((((Npos (XO (XI (XO (XI (XO
    (XI (XO (XO (XI (XI (XO (XI (XI (XI (XI XH)))))))))))))))), (Npos (XI (XI
    (XI (XI (XO (XO (XI (XO (XI (XI (XO (XI (XI (XI (XI XH))))))))))))))))),
    R) :: ((((Npos (XO (XO (XO (XO (XI (XO (XI (XO (XI (XI (XO (XI (XI (XI
    (XI XH)))))))))))))))), (Npos (XI (XO (XI (XI (XI (XI (XO (XO (XI (XO (XI
    (XI (XI (XI (XI XH))))))))))))))))), AL) :: ((((Npos (XO (XI (XI (XI (XI
    (XI (XO (XO (XI (XO (XI (XI (XI (XI (XI XH)))))))))))))))), (Npos (XI (XI
    (XI (XI (XO (XO (XI (XO (XI (XO (XI (XI (XI (XI (XI XH))))))))))))))))),
    ON) :: ((((Npos (XO (XO (XO (XO (XI (XO (XI (XO (XI (XO (XI (XI (XI (XI
    (XI XH)))))))))))))))), (Npos (XO (XI (XI (XI (XO (XO (XI (XI (XI (XO (XI
    (XI (XI (XI (XI XH))))))))))))))))), AL) :: ((((Npos (XI (XI (XI (XI (XO
    (XO (XI (XI (XI (XO (XI (XI (XI (XI (XI XH)))))))))))))))), (Npos (XI (XI
    (XI (XI (XO (XO (XI (XI (XI (XO (XI (XI (XI (XI (XI XH))))))))))))))))),
    ON) :: ((((Npos (XO (XO (XO (XO (XI (XI (XI (XI (XI (XO (XI (XI (XI (XI
    (XI XH)))))))))))))))), (Npos (XO (XO (XI (XI (XI (XI (XI (XI (XI (XO (XI
    (XI (XI (XI (XI XH))))))))))))))))), AL) :: ((((Npos (XI (XO (XI (XI (XI
    (XI (XI (XI (XI (XO (XI (XI (XI (XI (XI XH)))))))))))))))), (Npos (XI (XI
    (XI (XI (XI (XI (XI (XI (XI (XO (XI (XI (XI (XI (XI XH))))))))))))))))),
    ON) :: ((((Npos (XO (XO (XO (XO (XO (XO (XO (XO (XO (XI (XI (XI (XI (XI
    (XI XH)))))))))))))))), (Npos (XI (XI (XI (XI (XO (XO (XO (XO (XO (XI (XI
    (XI (XI (XI (XI XH))))))))))))))))), NSM) :: ((((Npos (XO (XO (XO (XO (XI
    (XO (XO (XO (XO (XI (XI (XI (XI (XI (XI XH)))))))))))))))), (Npos (XI (XO
    (XO (XI (XI (XO (XO (XO (XO (XI (XI (XI (XI (XI (XI XH))))))))))))))))),
    ON) :: ((((Npos (XO (XO (XO (XO (XO (XI (XO (XO (XO (XI (XI (XI (XI (XI
    (XI XH)))))))))))))))), (Npos (XI (XI (XI (XI (XO (XI (XO (XO (XO (XI (XI
    (XI (XI (XI (XI XH))))))))))))))))), NSM) :: ((((Npos (XO (XO (XO (XO (XI
    (XI (XO (XO (XO (XI (XI (XI (XI (XI (XI XH)))))))))))))))), (Npos (XI (XI
    (XI (XI (XO (XO (XI (XO (XO (XI (XI (XI (XI (XI (XI XH))))))))))))))))),
    ON) :: ((((Npos (XO (XO (XO (XO (XI (XO (XI (XO (XO (XI (XI (XI (XI (XI
    (XI XH)))))))))))))))), (Npos (XO (XO (XO (XO (XI (XO (XI (XO (XO (XI (XI
    (XI (XI (XI (XI XH))))))))))))))))), CS) :: ((((Npos (XI (XO (XO (XO (XI
    (XO (XI (XO (XO (XI (XI (XI (XI (XI (XI XH)))))))))))))))), (Npos (XI (XO
    (XO (XO (XI (XO (XI (XO (XO (XI (XI (XI (XI (XI (XI XH))))))))))))))))),
    ON) :: ((((Npos (XO (XI (XO (XO (XI (XO (XI (XO (XO (XI (XI (XI (XI (XI
    (XI XH)))))))))))))))), (Npos (XO (XI (XO (XO (XI (XO (XI (XO (XO (XI (XI
    (XI (XI (XI (XI XH))))))))))))))))), CS) :: ((((Npos (XO (XO (XI (XO (XI
    (XO (XI (XO (XO (XI (XI (XI (XI (XI (XI XH)))))))))))))))), (Npos (XO (XO
    (XI (XO (XI (XO (XI (XO (XO (XI (XI (XI (XI (XI (XI XH))))))))))))))))),
    ON) :: ((((Npos (XI (XO (XI (XO (XI (XO (XI (XO (XO (XI (XI (XI (XI (XI
    (XI XH)))))))))))))))), (Npos (XI (XO (XI (XO (XI (XO (XI (XO (XO (XI (XI
    (XI (XI (XI (XI XH))))))))))))))))), CS) :: ((((Npos (XO (XI (XI (XO (XI
    (XO (XI (XO (XO (XI (XI (XI (XI (XI (XI XH)))))))))))))))), (Npos (XO (XI
    (XI (XI (XI (XO (XI (XO (XO (XI (XI (XI (XI (XI (XI XH))))))))))))))))),
    ON) :: ((((Npos (XI (XI (XI (XI (XI (XO (XI (XO (XO (XI (XI (XI (XI (XI
    (XI XH)))))))))))))))), (Npos (XI (XI (XI (XI (XI (XO (XI (XO (XO (XI (XI
    (XI (XI (XI (XI XH))))))))))))))))), ET) :: ((((Npos (XO (XO (XO (XO (XO
    (XI (XI (XO (XO (XI (XI (XI (XI (XI (XI XH)))))))))))))))), (Npos (XI (XO
    (XO (XO (XO (XI (XI (XO (XO (XI (XI (XI (XI (XI (XI XH))))))))))))))))),
    ON) :: ((((Npos (XO (XI (XO (XO (XO (XI (XI (XO (XO (XI (XI (XI (XI (XI
    (XI XH)))))))))))))))), (Npos (XI (XI (XO (XO (XO (XI (XI (XO (XO (XI (XI
    (XI (XI (XI (XI XH))))))))))))))))), ES) :: ((((Npos (XO (XO (XI (XO (XO
    (XI (XI (XO (XO (XI (XI (XI (XI (XI (XI XH)))))))))))))))), (Npos (XO (XI
    (XI (XO (XO (XI (XI (XO (XO (XI (XI (XI (XI (XI (XI XH))))))))))))))))),
    ON) :: ((((Npos (XO (XO (XO (XI (XO (XI (XI (XO (XO (XI (XI (XI (XI (XI
    (XI XH)))))))))))))))), (Npos (XO (XO (XO (XI (XO (XI (XI (XO (XO (XI (XI
    (XI (XI (XI (XI XH))))))))))))))))), ON) :: ((((Npos (XI (XO (XO (XI (XO
    (XI (XI (XO (XO (XI (XI (XI (XI (XI (XI XH)))))))))))))))), (Npos (XO (XI
    (XO (XI (XO (XI (XI (XO (XO (XI (XI (XI (XI (XI (XI XH))))))))))))))))),
    ET) :: ((((Npos (XI (XI (XO (XI (XO (XI (XI (XO (XO (XI (XI (XI (XI (XI
    (XI XH)))))))))))))))), (Npos (XI (XI (XO (XI (XO (XI (XI (XO (XO (XI (XI
    (XI (XI (XI (XI XH))))))))))))))))), ON) :: ((((Npos (XO (XO (XO (XO (XI
    (XI (XI (XO (XO (XI (XI (XI (XI (XI (XI XH)))))))))))))))), (Npos (XO (XI
    (XI (XI (XI (XI (XI (XI (XO (XI (XI (XI (XI (XI (XI XH))))))))))))))))),
    AL) :: ((((Npos (XI (XI (XI (XI (XI (XI (XI (XI (XO (XI (XI (XI (XI (XI
    (XI XH)))))))))))))))), (Npos (XI (XI (XI (XI (XI (XI (XI (XI (XO (XI (XI
    (XI (XI (XI (XI XH))))))))))))))))), BN) :: ((((Npos (XI (XO (XO (XO (XO
    (XO (XO (XO (XI (XI (XI (XI (XI (XI (XI XH)))))))))))))))), (Npos (XO (XI
    (XO (XO (XO (XO (XO (XO (XI (XI (XI (XI (XI (XI (XI XH))))))))))))))))),
    ON) :: ((((Npos (XI (XI (XO (XO (XO (XO (XO (XO (XI (XI (XI (XI (XI (XI
    (XI XH)))))))))))))))), (Npos (XI (XO (XI (XO (XO (XO (XO (XO (XI (XI (XI
    (XI (XI (XI (XI XH))))))))))))))))), ET) :: ((((Npos (XO (XI (XI (XO (XO
    (XO (XO (XO (XI (XI (XI (XI (XI (XI (XI XH)))))))))))))))), (Npos (XO (XI
    (XO (XI (XO (XO (XO (XO (XI (XI (XI (XI (XI (XI (XI XH))))))))))))))))),
    ON) :: ((((Npos (XI (XI (XO (XI (XO (XO (XO (XO (XI (XI (XI (XI (XI (XI
    (XI XH)))))))))))))))), (Npos (XI (XI (XO (XI (XO (XO (XO (XO (XI (XI (XI
    (XI (XI (XI (XI XH))))))))))))))))), ES) :: ((((Npos (XO (XO (XI (XI (XO
    (XO (XO (XO (XI (XI (XI (XI (XI (XI (XI XH)))))))))))))))), (Npos (XO (XO
    (XI (XI (XO (XO (XO (XO (XI (XI (XI (XI (XI (XI (XI XH))))))))))))))))),
    CS) :: ((((Npos (XI (XO (XI (XI (XO (XO (XO (XO (XI (XI (XI (XI (XI (XI
    (XI XH)))))))))))))))), (Npos (XI (XO (XI (XI (XO (XO (XO (XO (XI (XI (XI
    (XI (XI (XI (XI XH))))))))))))))))), ES) :: ((((Npos (XO (XI (XI (XI (XO
    (XO (XO (XO (XI (XI (XI (XI (XI (XI (XI XH)))))))))))))))), (Npos (XI (XI
    (XI (XI (XO (XO (XO (XO (XI (XI (XI (XI (XI (XI (XI XH))))))))))))))))),
    CS) :: ((((Npos (XO (XO (XO (XO (XI (XO (XO (XO (XI (XI (XI (XI (XI (XI
    (XI XH)))))))))))))))), (Npos (XI (XO (XO (XI (XI (XO (XO (XO (XI (XI (XI
    (XI (XI (XI (XI XH))))))))))))))))), EN) :: ((((Npos (XO (XI (XO (XI (XI
    (XO (XO (XO (XI (XI (XI (XI (XI (XI (XI XH)))))))))))))))), (Npos (XO (XI
    (XO (XI (XI (XO (XO (XO (XI (XI (XI (XI (XI (XI (XI XH))))))))))))))))),
    CS) :: ((((Npos (XI (XI (XO (XI (XI (XO (XO (XO (XI (XI (XI (XI (XI (XI
    (XI XH)))))))))))))))), (Npos (XO (XO (XO (XO (XO (XI (XO (XO (XI (XI (XI
    (XI (XI (XI (XI XH))))))))))))))))), ON) :: ((((Npos (XI (XO (XO (XO (XO
    (XI (XO (XO (XI (XI (XI (XI (XI (XI (XI XH)))))))))))))))), (Npos (XO (XI
    (XO (XI (XI (XI (XO (XO (XI (XI (XI (XI (XI (XI (XI XH))))))))))))))))),
    L) :: ((((Npos (XI (XI (XO (XI (XI (XI (XO (XO (XI (XI (XI (XI (XI (XI
    (XI XH)))))))))))))))), (Npos (XO (XO (XO (XO (XO (XO (XI (XO (XI (XI (XI
    (XI (XI (XI (XI XH))))))))))))))))), ON) :: ((((Npos (XI (XO (XO (XO (XO
    (XO (XI (XO (XI (XI (XI (XI (XI (XI (XI XH)))))))))))))))), (Npos (XO (XI
    (XO (XI (XI (XO (XI (XO (XI (XI (XI (XI (XI (XI (XI XH))))))))))))))))),
    L) :: ((((Npos (XI (XI (XO (XI (XI (XO (XI (XO (XI (XI (XI (XI (XI (XI
    (XI XH)))))))))))))))), (Npos (XI (XO (XI (XO (XO (XI (XI (XO (XI (XI (XI
    (XI (XI (XI (XI XH))))))))))))))))), ON) :: ((((Npos (XO (XI (XI (XO (XO
    (XI (XI (XO (XI (XI (XI (XI (XI (XI (XI XH)))))))))))))))), (Npos (XO (XI
    (XI (XI (XI (XI (XO (XI (XI (XI (XI (XI (XI (XI (XI XH))))))))))))))))),
    L) :: ((((Npos (XO (XI (XO (XO (XO (XO (XI (XI (XI (XI (XI (XI (XI (XI
    (XI XH)))))))))))))))), (Npos (XI (XI (XI (XO (XO (XO (XI (XI (XI (XI (XI
    (XI (XI (XI (XI XH))))))))))))))))), L) :: ((((Npos (XO (XI (XO (XI (XO
    (XO (XI (XI (XI (XI (XI (XI (XI (XI (XI XH)))))))))))))))), (Npos (XI (XI
    (XI (XI (XO (XO (XI (XI (XI (XI (XI (XI (XI (XI (XI XH))))))))))))))))),
    L) :: ((((Npos (XO (XI (XO (XO (XI (XO (XI (XI (XI (XI (XI (XI (XI (XI
    (XI XH)))))))))))))))), (Npos (XI (XI (XI (XO (XI (XO (XI (XI (XI (XI (XI
    (XI (XI (XI (XI XH))))))))))))))))), L) :: ((((Npos (XO (XI (XO (XI (XI
    (XO (XI (XI (XI (XI (XI (XI (XI (XI (XI XH)))))))))))))))), (Npos (XO (XO
    (XI (XI (XI (XO (XI (XI (XI (XI (XI (XI (XI (XI (XI XH))))))))))))))))),
    L) :: ((((Npos (XO (XO (XO (XO (XO (XI (XI (XI (XI (XI (XI (XI (XI (XI
    (XI XH)))))))))))))))), (Npos (XI (XO (XO (XO (XO (XI (XI (XI (XI (XI (XI
    (XI (XI (XI (XI XH))))))))))))))))), ET) :: ((((Npos (XO (XI (XO (XO (XO
    (XI (XI (XI (XI (XI (XI (XI (XI (XI (XI XH)))))))))))))))), (Npos (XO (XO
    (XI (XO (XO (XI (XI (XI (XI (XI (XI (XI (XI (XI (XI XH))))))))))))))))),
    ON) :: ((((Npos (XI (XO (XI (XO (XO (XI (XI (XI (XI (XI (XI (XI (XI (XI
    (XI XH)))))))))))))))), (Npos (XO (XI (XI (XO (XO (XI (XI (XI (XI (XI (XI
    (XI (XI (XI (XI XH))))))))))))))))), ET) :: ((((Npos (XO (XO (XO (XI (XO
    (XI (XI (XI (XI (XI (XI (XI (XI (XI (XI XH)))))))))))))))), (Npos (XO (XI
    (XI (XI (XO (XI (XI (XI (XI (XI (XI (XI (XI (XI (XI XH))))))))))))))))),
    ON) :: ((((Npos (XI (XO (XO (XI (XI (XI (XI (XI (XI (XI (XI (XI (XI (XI
    (XI XH)))))))))))))))), (Npos (XI (XO (XI (XI (XI (XI (XI (XI (XI (XI (XI
    (XI (XI (XI (XI XH))))))))))))))))), ON) :: ((((Npos (XO (XO (XO (XO (XO
    (XO (XO (XO (XO (XO (XO (XO (XO (XO (XO (XO XH))))))))))))))))), (Npos
    (XI (XI (XO (XI (XO (XO (XO (XO (XO (XO (XO (XO (XO (XO (XO (XO
    XH)))))))))))))))))), L) :: ((((Npos (XI (XO (XI (XI (XO (XO (XO (XO (XO
    (XO (XO (XO (XO (XO (XO (XO XH))))))))))))))))), (Npos (XO (XI (XI (XO
    (XO (XI (XO (XO (XO (XO (XO (XO (XO (XO (XO (XO XH)))))))))))))))))),
    L) :: ((((Npos (XO (XO (XO (XI (XO (XI (XO (XO (XO (XO (XO (XO (XO (XO
    (XO (XO XH))))))))))))))))), (Npos (XO (XI (XO (XI (XI (XI (XO (XO (XO
    (XO (XO (XO (XO (XO (XO (XO XH)))))))))))))))))), L) :: ((((Npos (XO (XO
    (XI (XI (XI (XI (XO (XO (XO (XO (XO (XO (XO (XO (XO (XO
    XH))))))))))))))))), (Npos (XI (XO (XI (XI (XI (XI (XO (XO (XO (XO (XO
    (XO (XO (XO (XO (XO XH)))))))))))))))))), L) :: ((((Npos (XI (XI (XI (XI
    (XI (XI (XO (XO (XO (XO (XO (XO (XO (XO (XO (XO XH))))))))))))))))),
    (Npos (XI (XO (XI (XI (XO (XO (XI (XO (XO (XO (XO (XO (XO (XO (XO (XO
    XH)))))))))))))))))), L) :: ((((Npos (XO (XO (XO (XO (XI (XO (XI (XO (XO
    (XO (XO (XO (XO (XO (XO (XO XH))))))))))))))))), (Npos (XI (XO (XI (XI
    (XI (XO (XI (XO (XO (XO (XO (XO (XO (XO (XO (XO XH)))))))))))))))))),
    L) :: ((((Npos (XO (XO (XO (XO (XO (XO (XO (XI (XO (XO (XO (XO (XO (XO
    (XO (XO XH))))))))))))))))), (Npos (XO (XI (XO (XI (XI (XI (XI (XI (XO
    (XO (XO (XO (XO (XO (XO (XO XH)))))))))))))))))), L) :: ((((Npos (XO (XO
    (XO (XO (XO (XO (XO (XO (XI (XO (XO (XO (XO (XO (XO (XO
    XH))))))))))))))))), (Npos (XO (XO (XO (XO (XO (XO (XO (XO (XI (XO (XO
    (XO (XO (XO (XO (XO XH)))))))))))))))))), L) :: ((((Npos (XI (XO (XO (XO
    (XO (XO (XO (XO (XI (XO (XO (XO (XO (XO (XO (XO XH))))))))))))))))),
    (Npos (XI (XO (XO (XO (XO (XO (XO (XO (XI (XO (XO (XO (XO (XO (XO (XO
    XH)))))))))))))))))), ON) :: ((((Npos (XO (XI (XO (XO (XO (XO (XO (XO (XI
    (XO (XO (XO (XO (XO (XO (XO XH))))))))))))))))), (Npos (XO (XI (XO (XO
    (XO (XO (XO (XO (XI (XO (XO (XO (XO (XO (XO (XO XH)))))))))))))))))),
    L) :: ((((Npos (XI (XI (XI (XO (XO (XO (XO (XO (XI (XO (XO (XO (XO (XO
    (XO (XO XH))))))))))))))))), (Npos (XI (XI (XO (XO (XI (XI (XO (XO (XI
    (XO (XO (XO (XO (XO (XO (XO XH)))))))))))))))))), L) :: ((((Npos (XI (XI
    (XI (XO (XI (XI (XO (XO (XI (XO (XO (XO (XO (XO (XO (XO
    XH))))))))))))))))), (Npos (XI (XI (XI (XI (XI (XI (XO (XO (XI (XO (XO
    (XO (XO (XO (XO (XO XH)))))))))))))))))), L) :: ((((Npos (XO (XO (XO (XO
    (XO (XO (XI (XO (XI (XO (XO (XO (XO (XO (XO (XO XH))))))))))))))))),
    (Npos (XO (XO (XI (XI (XO (XO (XO (XI (XI (XO (XO (XO (XO (XO (XO (XO
    XH)))))))))))))))))), ON) :: ((((Npos (XI (XO (XI (XI (XO (XO (XO (XI (XI
    (XO (XO (XO (XO (XO (XO (XO XH))))))))))))))))), (Npos (XO (XI (XI (XI
    (XO (XO (XO (XI (XI (XO (XO (XO (XO (XO (XO (XO XH)))))))))))))))))),
    L) :: ((((Npos (XO (XO (XO (XO (XI (XO (XO (XI (XI (XO (XO (XO (XO (XO
    (XO (XO XH))))))))))))))))), (Npos (XO (XO (XI (XI (XI (XO (XO (XI (XI
    (XO (XO (XO (XO (XO (XO (XO XH)))))))))))))))))), ON) :: ((((Npos (XO (XO
    (XO (XO (XO (XI (XO (XI (XI (XO (XO (XO (XO (XO (XO (XO
    XH))))))))))))))))), (Npos (XO (XO (XO (XO (XO (XI (XO (XI (XI (XO (XO
    (XO (XO (XO (XO (XO XH)))))))))))))))))), ON) :: ((((Npos (XO (XO (XO (XO
    (XI (XO (XI (XI (XI (XO (XO (XO (XO (XO (XO (XO XH))))))))))))))))),
    (Npos (XO (XO (XI (XI (XI (XI (XI (XI (XI (XO (XO (XO (XO (XO (XO (XO
    XH)))))))))))))))))), L) :: ((((Npos (XI (XO (XI (XI (XI (XI (XI (XI (XI
    (XO (XO (XO (XO (XO (XO (XO XH))))))))))))))))), (Npos (XI (XO (XI (XI
    (XI (XI (XI (XI (XI (XO (XO (XO (XO (XO (XO (XO XH)))))))))))))))))),
    NSM) :: ((((Npos (XO (XO (XO (XO (XO (XO (XO (XI (XO (XI (XO (XO (XO (XO
    (XO (XO XH))))))))))))))))), (Npos (XO (XO (XI (XI (XI (XO (XO (XI (XO
    (XI (XO (XO (XO (XO (XO (XO XH)))))))))))))))))), L) :: ((((Npos (XO (XO
    (XO (XO (XO (XI (XO (XI (XO (XI (XO (XO (XO (XO (XO (XO
    XH))))))))))))))))), (Npos (XO (XO (XO (XO (XI (XO (XI (XI (XO (XI (XO
    (XO (XO (XO (XO (XO XH)))))))))))))))))), L) :: ((((Npos (XO (XO (XO (XO
    (XO (XI (XI (XI (XO (XI (XO (XO (XO (XO (XO (XO XH))))))))))))))))),
    (Npos (XO (XO (XO (XO (XO (XI (XI (XI (XO (XI (XO (XO (XO (XO (XO (XO
    XH)))))))))))))))))), NSM) :: ((((Npos (XI (XO (XO (XO (XO (XI (XI (XI
    (XO (XI (XO (XO (XO (XO (XO (XO XH))))))))))))))))), (Npos (XI (XI (XO
    (XI (XI (XI (XI (XI (XO (XI (XO (XO (XO (XO (XO (XO XH)))))))))))))))))),
    EN) :: ((((Npos (XO (XO (XO (XO (XO (XO (XO (XO (XI (XI (XO (XO (XO (XO
    (XO (XO XH))))))))))))))))), (Npos (XI (XI (XO (XO (XO (XI (XO (XO (XI
    (XI (XO (XO (XO (XO (XO (XO XH)))))))))))))))))), L) :: ((((Npos (XI (XO
    (XI (XI (XO (XI (XO (XO (XI (XI (XO (XO (XO (XO (XO (XO
    XH))))))))))))))))), (Npos (XO (XI (XO (XI (XO (XO (XI (XO (XI (XI (XO
    (XO (XO (XO (XO (XO XH)))))))))))))))))), L) :: ((((Npos (XO (XO (XO (XO
    (XI (XO (XI (XO (XI (XI (XO (XO (XO (XO (XO (XO XH))))))))))))))))),
    (Npos (XI (XO (XI (XO (XI (XI (XI (XO (XI (XI (XO (XO (XO (XO (XO (XO
    XH)))))))))))))))))), L) :: ((((Npos (XO (XI (XI (XO (XI (XI (XI (XO (XI
    (XI (XO (XO (XO (XO (XO (XO XH))))))))))))))))), (Npos (XO (XI (XO (XI
    (XI (XI (XI (XO (XI (XI (XO (XO (XO (XO (XO (XO XH)))))))))))))))))),
    NSM) :: ((((Npos (XO (XO (XO (XO (XO (XO (XO (XI (XI (XI (XO (XO (XO (XO
    (XO (XO XH))))))))))))))))), (Npos (XI (XO (XI (XI (XI (XO (XO (XI (XI
    (XI (XO (XO (XO (XO (XO (XO XH)))))))))))))))))), L) :: ((((Npos (XI (XI
    (XI (XI (XI (XO (XO (XI (XI (XI (XO (XO (XO (XO (XO (XO
    XH))))))))))))))))), (Npos (XI (XI (XO (XO (XO (XO (XI (XI (XI (XI (XO
    (XO (XO (XO (XO (XO XH)))))))))))))))))), L) :: ((((Npos (XO (XO (XO (XI
    (XO (XO (XI (XI (XI (XI (XO (XO (XO (XO (XO (XO XH))))))))))))))))),
    (Npos (XI (XO (XI (XO (XI (XO (XI (XI (XI (XI (XO (XO (XO (XO (XO (XO
    XH)))))))))))))))))), L) :: ((((Npos (XO (XO (XO (XO (XO (XO (XO (XO (XO
    (XO (XI (XO (XO (XO (XO (XO XH))))))))))))))))), (Npos (XI (XO (XI (XI
    (XI (XO (XO (XI (XO (XO (XI (XO (XO (XO (XO (XO XH)))))))))))))))))),
    L) :: ((((Npos (XO (XO (XO (XO (XO (XI (XO (XI (XO (XO (XI (XO (XO (XO
    (XO (XO XH))))))))))))))))), (Npos (XI (XO (XO (XI (XO (XI (XO (XI (XO
    (XO (XI (XO (XO (XO (XO (XO XH)))))))))))))))))), L) :: ((((Npos (XO (XO
    (XO (XO (XI (XI (XO (XI (XO (XO (XI (XO (XO (XO (XO (XO
    XH))))))))))))))))), (Npos (XI (XI (XO (XO (XI (XO (XI (XI (XO (XO (XI
    (XO (XO (XO (XO (XO XH)))))))))))))))))), L) :: ((((Npos (XO (XO (XO (XI
    (XI (XO (XI (XI (XO (XO (XI (XO (XO (XO (XO (XO XH))))))))))))))))),
    (Npos (XI (XI (XO (XI (XI (XI (XI (XI (XO (XO (XI (XO (XO (XO (XO (XO
    XH)))))))))))))))))), L) :: ((((Npos (XO (XO (XO (XO (XO (XO (XO (XO (XI
    (XO (XI (XO (XO (XO (XO (XO XH))))))))))))))))), (Npos (XI (XI (XI (XO
    (XO (XI (XO (XO (XI (XO (XI (XO (XO (XO (XO (XO XH)))))))))))))))))),
    L) :: ((((Npos (XO (XO (XO (XO (XI (XI (XO (XO (XI (XO (XI (XO (XO (XO
    (XO (XO XH))))))))))))))))), (Npos (XI (XI (XO (XO (XO (XI (XI (XO (XI
    (XO (XI (XO (XO (XO (XO (XO XH)))))))))))))))))), L) :: ((((Npos (XI (XI
    (XI (XI (XO (XI (XI (XO (XI (XO (XI (XO (XO (XO (XO (XO
    XH))))))))))))))))), (Npos (XO (XI (XO (XI (XI (XI (XI (XO (XI (XO (XI
    (XO (XO (XO (XO (XO XH)))))))))))))))))), L) :: ((((Npos (XO (XO (XI (XI
    (XI (XI (XI (XO (XI (XO (XI (XO (XO (XO (XO (XO XH))))))))))))))))),
    (Npos (XO (XI (XO (XI (XO (XO (XO (XI (XI (XO (XI (XO (XO (XO (XO (XO
    XH)))))))))))))))))), L) :: ((((Npos (XO (XO (XI (XI (XO (XO (XO (XI (XI
    (XO (XI (XO (XO (XO (XO (XO XH))))))))))))))))), (Npos (XO (XI (XO (XO
    (XI (XO (XO (XI (XI (XO (XI (XO (XO (XO (XO (XO XH)))))))))))))))))),
    L) :: ((((Npos (XO (XO (XI (XO (XI (XO (XO (XI (XI (XO (XI (XO (XO (XO
    (XO (XO XH))))))))))))))))), (Npos (XI (XO (XI (XO (XI (XO (XO (XI (XI
    (XO (XI (XO (XO (XO (XO (XO XH)))))))))))))))))), L) :: ((((Npos (XI (XI
    (XI (XO (XI (XO (XO (XI (XI (XO (XI (XO (XO (XO (XO (XO
    XH))))))))))))))))), (Npos (XI (XO (XO (XO (XO (XI (XO (XI (XI (XO (XI
    (XO (XO (XO (XO (XO XH)))))))))))))))))), L) :: ((((Npos (XI (XI (XO (XO
    (XO (XI (XO (XI (XI (XO (XI (XO (XO (XO (XO (XO XH))))))))))))))))),
    (Npos (XI (XO (XO (XO (XI (XI (XO (XI (XI (XO (XI (XO (XO (XO (XO (XO
    XH)))))))))))))))))), L) :: ((((Npos (XI (XI (XO (XO (XI (XI (XO (XI (XI
    (XO (XI (XO (XO (XO (XO (XO XH))))))))))))))))), (Npos (XI (XO (XO (XI
    (XI (XI (XO (XI (XI (XO (XI (XO (XO (XO (XO (XO XH)))))))))))))))))),
    L) :: ((((Npos (XI (XI (XO (XI (XI (XI (XO (XI (XI (XO (XI (XO (XO (XO
    (XO (XO XH))))))))))))))))), (Npos (XO (XO (XI (XI (XI (XI (XO (XI (XI
    (XO (XI (XO (XO (XO (XO (XO XH)))))))))))))))))), L) :: ((((Npos (XO (XO
    (XO (XO (XO (XO (XI (XI (XI (XO (XI (XO (XO (XO (XO (XO
    XH))))))))))))))))), (Npos (XI (XI (XO (XO (XI (XI (XI (XI (XI (XO (XI
    (XO (XO (XO (XO (XO XH)))))))))))))))))), L) :: ((((Npos (XO (XO (XO (XO
    (XO (XO (XO (XO (XO (XI (XI (XO (XO (XO (XO (XO XH))))))))))))))))),
    (Npos (XO (XI (XI (XO (XI (XI (XO (XO (XI (XI (XI (XO (XO (XO (XO (XO
    XH)))))))))))))))))), L) :: ((((Npos (XO (XO (XO (XO (XO (XO (XI (XO (XI
    (XI (XI (XO (XO (XO (XO (XO XH))))))))))))))))), (Npos (XI (XO (XI (XO
    (XI (XO (XI (XO (XI (XI (XI (XO (XO (XO (XO (XO XH)))))))))))))))))),
    L) :: ((((Npos (XO (XO (XO (XO (XO (XI (XI (XO (XI (XI (XI (XO (XO (XO
    (XO (XO XH))))))))))))))))), (Npos (XI (XI (XI (XO (XO (XI (XI (XO (XI
    (XI (XI (XO (XO (XO (XO (XO XH)))))))))))))))))), L) :: ((((Npos (XO (XO
    (XO (XO (XO (XO (XO (XI (XI (XI (XI (XO (XO (XO (XO (XO
    XH))))))))))))))))), (Npos (XI (XO (XI (XO (XO (XO (XO (XI (XI (XI (XI
    (XO (XO (XO (XO (XO XH)))))))))))))))))), L) :: ((((Npos (XI (XI (XI (XO
    (XO (XO (XO (XI (XI (XI (XI (XO (XO (XO (XO (XO XH))))))))))))))))),
    (Npos (XO (XO (XO (XO (XI (XI (XO (XI (XI (XI (XI (XO (XO (XO (XO (XO
    XH)))))))))))))))))), L) :: ((((Npos (XO (XI (XO (XO (XI (XI (XO (XI (XI
    (XI (XI (XO (XO (XO (XO (XO XH))))))))))))))))), (Npos (XO (XI (XO (XI
    (XI (XI (XO (XI (XI (XI (XI (XO (XO (XO (XO (XO XH)))))))))))))))))),
    L) :: ((((Npos (XO (XO (XO (XO (XO (XO (XO (XO (XO (XO (XO (XI (XO (XO
    (XO (XO XH))))))))))))))))), (Npos (XO (XI (XI (XI (XI (XO (XO (XO (XI
    (XO (XO (XI (XO (XO (XO (XO XH)))))))))))))))))), R) :: ((((Npos (XI (XI
    (XI (XI (XI (XO (XO (XO (XI (XO (XO (XI (XO (XO (XO (XO
    XH))))))))))))))))), (Npos (XI (XI (XI (XI (XI (XO (XO (XO (XI (XO (XO
    (XI (XO (XO (XO (XO XH)))))))))))))))))), ON) :: ((((Npos (XO (XO (XO (XO
    (XO (XI (XO (XO (XI (XO (XO (XI (XO (XO (XO (XO XH))))))))))))))))),
    (Npos (XO (XO (XO (XO (XO (XO (XO (XO (XO (XI (XO (XI (XO (XO (XO (XO
    XH)))))))))))))))))), R) :: ((((Npos (XI (XO (XO (XO (XO (XO (XO (XO (XO
    (XI (XO (XI (XO (XO (XO (XO XH))))))))))))))))), (Npos (XI (XI (XO (XO
    (XO (XO (XO (XO (XO (XI (XO (XI (XO (XO (XO (XO XH)))))))))))))))))),
    NSM) :: ((((Npos (XO (XO (XI (XO (XO (XO (XO (XO (XO (XI (XO (XI (XO (XO
    (XO (XO XH))))))))))))))))), (Npos (XO (XO (XI (XO (XO (XO (XO (XO (XO
    (XI (XO (XI (XO (XO (XO (XO XH)))))))))))))))))), R) :: ((((Npos (XI (XO
    (XI (XO (XO (XO (XO (XO (XO (XI (XO (XI (XO (XO (XO (XO
    XH))))))))))))))))), (Npos (XO (XI (XI (XO (XO (XO (XO (XO (XO (XI (XO
    (XI (XO (XO (XO (XO XH)))))))))))))))))), NSM) :: ((((Npos (XI (XI (XI
    (XO (XO (XO (XO (XO (XO (XI (XO (XI (XO (XO (XO (XO XH))))))))))))))))),
    (Npos (XI (XI (XO (XI (XO (XO (XO (XO (XO (XI (XO (XI (XO (XO (XO (XO
    XH)))))))))))))))))), R) :: ((((Npos (XO (XO (XI (XI (XO (XO (XO (XO (XO
    (XI (XO (XI (XO (XO (XO (XO XH))))))))))))))))), (Npos (XI (XI (XI (XI
    (XO (XO (XO (XO (XO (XI (XO (XI (XO (XO (XO (XO XH)))))))))))))))))),
    NSM) :: ((((Npos (XO (XO (XO (XO (XI (XO (XO (XO (XO (XI (XO (XI (XO (XO
    (XO (XO XH))))))))))))))))), (Npos (XI (XI (XI (XO (XI (XI (XO (XO (XO
    (XI (XO (XI (XO (XO (XO (XO XH)))))))))))))))))), R) :: ((((Npos (XO (XO
    (XO (XI (XI (XI (XO (XO (XO (XI (XO (XI (XO (XO (XO (XO
    XH))))))))))))))))), (Npos (XO (XI (XO (XI (XI (XI (XO (XO (XO (XI (XO
    (XI (XO (XO (XO (XO XH)))))))))))))))))), NSM) :: ((((Npos (XI (XI (XO
    (XI (XI (XI (XO (XO (XO (XI (XO (XI (XO (XO (XO (XO XH))))))))))))))))),
    (Npos (XO (XI (XI (XI (XI (XI (XO (XO (XO (XI (XO (XI (XO (XO (XO (XO
    XH)))))))))))))))))), R) :: ((((Npos (XI (XI (XI (XI (XI (XI (XO (XO (XO
    (XI (XO (XI (XO (XO (XO (XO XH))))))))))))))))), (Npos (XI (XI (XI (XI
    (XI (XI (XO (XO (XO (XI (XO (XI (XO (XO (XO (XO XH)))))))))))))))))),
    NSM) :: ((((Npos (XO (XO (XO (XO (XO (XO (XI (XO (XO (XI (XO (XI (XO (XO
    (XO (XO XH))))))))))))))))), (Npos (XO (XO (XI (XO (XO (XI (XI (XI (XO
    (XI (XO (XI (XO (XO (XO (XO XH)))))))))))))))))), R) :: ((((Npos (XI (XO
    (XI (XO (XO (XI (XI (XI (XO (XI (XO (XI (XO (XO (XO (XO
    XH))))))))))))))))), (Npos (XO (XI (XI (XO (XO (XI (XI (XI (XO (XI (XO
    (XI (XO (XO (XO (XO XH)))))))))))))))))), NSM) :: ((((Npos (XI (XI (XI
    (XO (XO (XI (XI (XI (XO (XI (XO (XI (XO (XO (XO (XO XH))))))))))))))))),
    (Npos (XO (XO (XO (XI (XI (XI (XO (XO (XI (XI (XO (XI (XO (XO (XO (XO
    XH)))))))))))))))))), R) :: ((((Npos (XI (XO (XO (XI (XI (XI (XO (XO (XI
    (XI (XO (XI (XO (XO (XO (XO XH))))))))))))))))), (Npos (XI (XI (XI (XI
    (XI (XI (XO (XO (XI (XI (XO (XI (XO (XO (XO (XO XH)))))))))))))))))),
    ON) :: ((((Npos (XO (XO (XO (XO (XO (XO (XI (XO (XI (XI (XO (XI (XO (XO
    (XO (XO XH))))))))))))))))), (Npos (XI (XI (XI (XI (XI (XI (XI (XI (XO
    (XO (XI (XI (XO (XO (XO (XO XH)))))))))))))))))), R) :: ((((Npos (XO (XO
    (XO (XO (XO (XO (XO (XO (XI (XO (XI (XI (XO (XO (XO (XO
    XH))))))))))))))))), (Npos (XI (XI (XO (XO (XO (XI (XO (XO (XI (XO (XI
    (XI (XO (XO (XO (XO XH)))))))))))))))))), AL) :: ((((Npos (XO (XO (XI (XO
    (XO (XI (XO (XO (XI (XO (XI (XI (XO (XO (XO (XO XH))))))))))))))))),
    (Npos (XI (XI (XI (XO (XO (XI (XO (XO (XI (XO (XI (XI (XO (XO (XO (XO
    XH)))))))))))))))))), NSM) :: ((((Npos (XO (XO (XO (XI (XO (XI (XO (XO
    (XI (XO (XI (XI (XO (XO (XO (XO XH))))))))))))))))), (Npos (XI (XI (XI
    (XI (XO (XI (XO (XO (XI (XO (XI (XI (XO (XO (XO (XO XH)))))))))))))))))),
    R) :: ((((Npos (XO (XO (XO (XO (XI (XI (XO (XO (XI (XO (XI (XI (XO (XO
    (XO (XO XH))))))))))))))))), (Npos (XI (XO (XO (XI (XI (XI (XO (XO (XI
    (XO (XI (XI (XO (XO (XO (XO XH)))))))))))))))))), AN) :: ((((Npos (XO (XI
    (XO (XI (XI (XI (XO (XO (XI (XO (XI (XI (XO (XO (XO (XO
    XH))))))))))))))))), (Npos (XI (XI (XI (XI (XI (XI (XO (XO (XI (XO (XI
    (XI (XO (XO (XO (XO XH)))))))))))))))))), R) :: ((((Npos (XO (XO (XO (XO
    (XO (XO (XI (XO (XI (XO (XI (XI (XO (XO (XO (XO XH))))))))))))))))),
    (Npos (XI (XO (XO (XI (XO (XO (XI (XO (XI (XO (XI (XI (XO (XO (XO (XO
    XH)))))))))))))))))), AN) :: ((((Npos (XO (XI (XO (XI (XO (XO (XI (XO (XI
    (XO (XI (XI (XO (XO (XO (XO XH))))))))))))))))), (Npos (XO (XO (XO (XI
    (XO (XI (XI (XO (XI (XO (XI (XI (XO (XO (XO (XO XH)))))))))))))))))),
    R) :: ((((Npos (XI (XO (XO (XI (XO (XI (XI (XO (XI (XO (XI (XI (XO (XO
    (XO (XO XH))))))))))))))))), (Npos (XI (XO (XI (XI (XO (XI (XI (XO (XI
    (XO (XI (XI (XO (XO (XO (XO XH)))))))))))))))))), NSM) :: ((((Npos (XO
    (XI (XI (XI (XO (XI (XI (XO (XI (XO (XI (XI (XO (XO (XO (XO
    XH))))))))))))))))), (Npos (XO (XI (XI (XI (XO (XI (XI (XO (XI (XO (XI
    (XI (XO (XO (XO (XO XH)))))))))))))))))), ON) :: ((((Npos (XI (XI (XI (XI
    (XO (XI (XI (XO (XI (XO (XI (XI (XO (XO (XO (XO XH))))))))))))))))),
    (Npos (XI (XI (XI (XI (XI (XO (XI (XO (XO (XI (XI (XI (XO (XO (XO (XO
    XH)))))))))))))))))), R) :: ((((Npos (XO (XO (XO (XO (XO (XI (XI (XO (XO
    (XI (XI (XI (XO (XO (XO (XO XH))))))))))))))))), (Npos (XO (XI (XI (XI
    (XI (XI (XI (XO (XO (XI (XI (XI (XO (XO (XO (XO XH)))))))))))))))))),
    AN) :: ((((Npos (XI (XI (XI (XI (XI (XI (XI (XO (XO (XI (XI (XI (XO (XO
    (XO (XO XH))))))))))))))))), (Npos (XO (XI (XO (XI (XO (XI (XO (XI (XO
    (XI (XI (XI (XO (XO (XO (XO XH)))))))))))))))))), R) :: ((((Npos (XI (XI
    (XO (XI (XO (XI (XO (XI (XO (XI (XI (XI (XO (XO (XO (XO
    XH))))))))))))))))), (Npos (XO (XO (XI (XI (XO (XI (XO (XI (XO (XI (XI
    (XI (XO (XO (XO (XO XH)))))))))))))))))), NSM) :: ((((Npos (XI (XO (XI
    (XI (XO (XI (XO (XI (XO (XI (XI (XI (XO (XO (XO (XO XH))))))))))))))))),
    (Npos (XI (XO (XO (XO (XO (XO (XI (XI (XO (XI (XI (XI (XO (XO (XO (XO
    XH)))))))))))))))))), R) :: ((((Npos (XO (XI (XO (XO (XO (XO (XI (XI (XO
    (XI (XI (XI (XO (XO (XO (XO XH))))))))))))))))), (Npos (XO (XO (XI (XO
    (XO (XO (XI (XI (XO (XI (XI (XI (XO (XO (XO (XO XH)))))))))))))))))),
    AL) :: ((((Npos (XI (XO (XI (XO (XO (XO (XI (XI (XO (XI (XI (XI (XO (XO
    (XO (XO XH))))))))))))))))), (Npos (XI (XI (XO (XI (XI (XI (XI (XI (XO
    (XI (XI (XI (XO (XO (XO (XO XH)))))))))))))))))), R) :: ((((Npos (XO (XO
    (XI (XI (XI (XI (XI (XI (XO (XI (XI (XI (XO (XO (XO (XO
    XH))))))))))))))))), (Npos (XI (XI (XI (XI (XI (XI (XI (XI (XO (XI (XI
    (XI (XO (XO (XO (XO XH)))))))))))))))))), NSM) :: ((((Npos (XO (XO (XO
    (XO (XO (XO (XO (XO (XI (XI (XI (XI (XO (XO (XO (XO XH))))))))))))))))),
    (Npos (XI (XI (XI (XI (XO (XI (XO (XO (XI (XI (XI (XI (XO (XO (XO (XO
    XH)))))))))))))))))), R) :: ((((Npos (XO (XO (XO (XO (XI (XI (XO (XO (XI
    (XI (XI (XI (XO (XO (XO (XO XH))))))))))))))))), (Npos (XI (XO (XI (XO
    (XO (XO (XI (XO (XI (XI (XI (XI (XO (XO (XO (XO XH)))))))))))))))))),
    AL) :: ((((Npos (XO (XI (XI (XO (XO (XO (XI (XO (XI (XI (XI (XI (XO (XO
    (XO (XO XH))))))))))))))))), (Npos (XO (XO (XO (XO (XI (XO (XI (XO (XI
    (XI (XI (XI (XO (XO (XO (XO XH)))))))))))))))))), NSM) :: ((((Npos (XI
    (XO (XO (XO (XI (XO (XI (XO (XI (XI (XI (XI (XO (XO (XO (XO
    XH))))))))))))))))), (Npos (XI (XO (XO (XI (XI (XO (XI (XO (XI (XI (XI
    (XI (XO (XO (XO (XO XH)))))))))))))))))), AL) :: ((((Npos (XO (XI (XO (XI
    (XI (XO (XI (XO (XI (XI (XI (XI (XO (XO (XO (XO XH))))))))))))))))),
    (Npos (XI (XO (XO (XO (XO (XO (XO (XI (XI (XI (XI (XI (XO (XO (XO (XO
    XH)))))))))))))))))), R) :: ((((Npos (XO (XI (XO (XO (XO (XO (XO (XI (XI
    (XI (XI (XI (XO (XO (XO (XO XH))))))))))))))))), (Npos (XI (XO (XI (XO
    (XO (XO (XO (XI (XI (XI (XI (XI (XO (XO (XO (XO XH)))))))))))))))))),
    NSM) :: ((((Npos (XO (XI (XI (XO (XO (XO (XO (XI (XI (XI (XI (XI (XO (XO
    (XO (XO XH))))))))))))))))), (Npos (XI (XI (XI (XI (XI (XI (XI (XI (XI
    (XI (XI (XI (XO (XO (XO (XO XH)))))))))))))))))), R) :: ((((Npos (XO (XO
    (XO (XO (XO (XO (XO (XO (XO (XO (XO (XO (XI (XO (XO (XO
    XH))))))))))))))))), (Npos (XO (XO (XO (XO (XO (XO (XO (XO (XO (XO (XO
    (XO (XI (XO (XO (XO XH)))))))))))))))))), L) :: ((((Npos (XI (XO (XO (XO
    (XO (XO (XO (XO (XO (XO (XO (XO (XI (XO (XO (XO XH))))))))))))))))),
    (Npos (XI (XO (XO (XO (XO (XO (XO (XO (XO (XO (XO (XO (XI (XO (XO (XO
    XH)))))))))))))))))), NSM) :: ((((Npos (XO (XI (XO (XO (XO (XO (XO (XO
    (XO (XO (XO (XO (XI (XO (XO (XO XH))))))))))))))))), (Npos (XI (XI (XI
    (XO (XI (XI (XO (XO (XO (XO (XO (XO (XI (XO (XO (XO XH)))))))))))))))))),
    L) :: ((((Npos (XO (XO (XO (XI (XI (XI (XO (XO (XO (XO (XO (XO (XI (XO
    (XO (XO XH))))))))))))))))), (Npos (XO (XI (XI (XO (XO (XO (XI (XO (XO
    (XO (XO (XO (XI (XO (XO (XO XH)))))))))))))))))), NSM) :: ((((Npos (XI
    (XI (XI (XO (XO (XO (XI (XO (XO (XO (XO (XO (XI (XO (XO (XO
    XH))))))))))))))))), (Npos (XI (XO (XI (XI (XO (XO (XI (XO (XO (XO (XO
    (XO (XI (XO (XO (XO XH)))))))))))))))))), L) :: ((((Npos (XO (XI (XO (XO
    (XI (XO (XI (XO (XO (XO (XO (XO (XI (XO (XO (XO XH))))))))))))))))),
    (Npos (XI (XO (XI (XO (XO (XI (XI (XO (XO (XO (XO (XO (XI (XO (XO (XO
    XH)))))))))))))))))), ON) :: ((((Npos (XO (XI (XI (XO (XO (XI (XI (XO (XO
    (XO (XO (XO (XI (XO (XO (XO XH))))))))))))))))), (Npos (XI (XI (XI (XI
    (XO (XI (XI (XO (XO (XO (XO (XO (XI (XO (XO (XO XH)))))))))))))))))),
    L) :: ((((Npos (XO (XO (XO (XO (XI (XI (XI (XO (XO (XO (XO (XO (XI (XO
    (XO (XO XH))))))))))))))))), (Npos (XO (XO (XO (XO (XI (XI (XI (XO (XO
    (XO (XO (XO (XI (XO (XO (XO XH)))))))))))))))))), NSM) :: ((((Npos (XI
    (XO (XO (XO (XI (XI (XI (XO (XO (XO (XO (XO (XI (XO (XO (XO
    XH))))))))))))))))), (Npos (XO (XI (XO (XO (XI (XI (XI (XO (XO (XO (XO
    (XO (XI (XO (XO (XO XH)))))))))))))))))), L) :: ((((Npos (XI (XI (XO (XO
    (XI (XI (XI (XO (XO (XO (XO (XO (XI (XO (XO (XO XH))))))))))))))))),
    (Npos (XO (XO (XI (XO (XI (XI (XI (XO (XO (XO (XO (XO (XI (XO (XO (XO
    XH)))))))))))))))))), NSM) :: ((((Npos (XI (XO (XI (XO (XI (XI (XI (XO
    (XO (XO (XO (XO (XI (XO (XO (XO XH))))))))))))))))), (Npos (XI (XO (XI
    (XO (XI (XI (XI (XO (XO (XO (XO (XO (XI (XO (XO (XO XH)))))))))))))))))),
    L) :: ((((Npos (XI (XI (XI (XI (XI (XI (XI (XO (XO (XO (XO (XO (XI (XO
    (XO (XO XH))))))))))))))))), (Npos (XI (XO (XO (XO (XO (XO (XO (XI (XO
    (XO (XO (XO (XI (XO (XO (XO XH)))))))))))))))))), NSM) :: ((((Npos (XO
    (XI (XO (XO (XO (XO (XO (XI (XO (XO (XO (XO (XI (XO (XO (XO
    XH))))))))))))))))), (Npos (XO (XI (XO (XO (XI (XI (XO (XI (XO (XO (XO
    (XO (XI (XO (XO (XO XH)))))))))))))))))), L) :: ((((Npos (XI (XI (XO (XO
    (XI (XI (XO (XI (XO (XO (XO (XO (XI (XO (XO (XO XH))))))))))))))))),
    (Npos (XO (XI (XI (XO (XI (XI (XO (XI (XO (XO (XO (XO (XI (XO (XO (XO
    XH)))))))))))))))))), NSM) :: ((((Npos (XI (XI (XI (XO (XI (XI (XO (XI
    (XO (XO (XO (XO (XI (XO (XO (XO XH))))))))))))))))), (Npos (XO (XO (XO
    (XI (XI (XI (XO (XI (XO (XO (XO (XO (XI (XO (XO (XO XH)))))))))))))))))),
    L) :: ((((Npos (XI (XO (XO (XI (XI (XI (XO (XI (XO (XO (XO (XO (XI (XO
    (XO (XO XH))))))))))))))))), (Npos (XO (XI (XO (XI (XI (XI (XO (XI (XO
    (XO (XO (XO (XI (XO (XO (XO XH)))))))))))))))))), NSM) :: ((((Npos (XI
    (XI (XO (XI (XI (XI (XO (XI (XO (XO (XO (XO (XI (XO (XO (XO
    XH))))))))))))))))), (Npos (XI (XO (XO (XO (XO (XO (XI (XI (XO (XO (XO
    (XO (XI (XO (XO (XO XH)))))))))))))))))), L) :: ((((Npos (XO (XI (XO (XO
    (XO (XO (XI (XI (XO (XO (XO (XO (XI (XO (XO (XO XH))))))))))))))))),
    (Npos (XO (XI (XO (XO (XO (XO (XI (XI (XO (XO (XO (XO (XI (XO (XO (XO
    XH)))))))))))))))))), NSM) :: ((((Npos (XI (XO (XI (XI (XO (XO (XI (XI
    (XO (XO (XO (XO (XI (XO (XO (XO XH))))))))))))))))), (Npos (XI (XO (XI
    (XI (XO (XO (XI (XI (XO (XO (XO (XO (XI (XO (XO (XO XH)))))))))))))))))),
    L) :: ((((Npos (XO (XO (XO (XO (XI (XO (XI (XI (XO (XO (XO (XO (XI (XO
    (XO (XO XH))))))))))))))))), (Npos (XO (XO (XO (XI (XO (XI (XI (XI (XO
    (XO (XO (XO (XI (XO (XO (XO XH)))))))))))))))))), L) :: ((((Npos (XO (XO
    (XO (XO (XI (XI (XI (XI (XO (XO (XO (XO (XI (XO (XO (XO
    XH))))))))))))))))), (Npos (XI (XO (XO (XI (XI (XI (XI (XI (XO (XO (XO
    (XO (XI (XO (XO (XO XH)))))))))))))))))), L) :: ((((Npos (XO (XO (XO (XO
    (XO (XO (XO (XO (XI (XO (XO (XO (XI (XO (XO (XO XH))))))))))))))))),
    (Npos (XO (XI (XO (XO (XO (XO (XO (XO (XI (XO (XO (XO (XI (XO (XO (XO
    XH)))))))))))))))))), NSM) :: ((((Npos (XI (XI (XO (XO (XO (XO (XO (XO
    (XI (XO (XO (XO (XI (XO (XO (XO XH))))))))))))))))), (Npos (XO (XI (XI
    (XO (XO (XI (XO (XO (XI (XO (XO (XO (XI (XO (XO (XO XH)))))))))))))))))),
    L) :: ((((Npos (XI (XI (XI (XO (XO (XI (XO (XO (XI (XO (XO (XO (XI (XO
    (XO (XO XH))))))))))))))))), (Npos (XI (XI (XO (XI (XO (XI (XO (XO (XI
    (XO (XO (XO (XI (XO (XO (XO XH)))))))))))))))))), NSM) :: ((((Npos (XO
    (XO (XI (XI (XO (XI (XO (XO (XI (XO (XO (XO (XI (XO (XO (XO
    XH))))))))))))))))), (Npos (XO (XO (XI (XI (XO (XI (XO (XO (XI (XO (XO
    (XO (XI (XO (XO (XO XH)))))))))))))))))), L) :: ((((Npos (XI (XO (XI (XI
    (XO (XI (XO (XO (XI (XO (XO (XO (XI (XO (XO (XO XH))))))))))))))))),
    (Npos (XO (XO (XI (XO (XI (XI (XO (XO (XI (XO (XO (XO (XI (XO (XO (XO
    XH)))))))))))))))))), NSM) :: ((((Npos (XO (XI (XI (XO (XI (XI (XO (XO
    (XI (XO (XO (XO (XI (XO (XO (XO XH))))))))))))))))), (Npos (XI (XI (XI
    (XO (XO (XO (XI (XO (XI (XO (XO (XO (XI (XO (XO (XO XH)))))))))))))))))),
    L) :: ((((Npos (XO (XO (XO (XO (XI (XO (XI (XO (XI (XO (XO (XO (XI (XO
    (XO (XO XH))))))))))))))))), (Npos (XO (XI (XO (XO (XI (XI (XI (XO (XI
    (XO (XO (XO (XI (XO (XO (XO XH)))))))))))))))))), L) :: ((((Npos (XI (XI
    (XO (XO (XI (XI (XI (XO (XI (XO (XO (XO (XI (XO (XO (XO
    XH))))))))))))))))), (Npos (XI (XI (XO (XO (XI (XI (XI (XO (XI (XO (XO
    (XO (XI (XO (XO (XO XH)))))))))))))))))), NSM) :: ((((Npos (XO (XO (XI
    (XO (XI (XI (XI (XO (XI (XO (XO (XO (XI (XO (XO (XO XH))))))))))))))))),
    (Npos (XO (XI (XI (XO (XI (XI (XI (XO (XI (XO (XO (XO (XI (XO (XO (XO
    XH)))))))))))))))))), L) :: ((((Npos (XO (XO (XO (XO (XO (XO (XO (XI (XI
    (XO (XO (XO (XI (XO (XO (XO XH))))))))))))))))), (Npos (XI (XO (XO (XO
    (XO (XO (XO (XI (XI (XO (XO (XO (XI (XO (XO (XO XH)))))))))))))))))),
    NSM) :: ((((Npos (XO (XI (XO (XO (XO (XO (XO (XI (XI (XO (XO (XO (XI (XO
    (XO (XO XH))))))))))))))))), (Npos (XI (XO (XI (XO (XI (XI (XO (XI (XI
    (XO (XO (XO (XI (XO (XO (XO XH)))))))))))))))))), L) :: ((((Npos (XO (XI
    (XI (XO (XI (XI (XO (XI (XI (XO (XO (XO (XI (XO (XO (XO
    XH))))))))))))))))), (Npos (XO (XI (XI (XI (XI (XI (XO (XI (XI (XO (XO
    (XO (XI (XO (XO (XO XH)))))))))))))))))), NSM) :: ((((Npos (XI (XI (XI
    (XI (XI (XI (XO (XI (XI (XO (XO (XO (XI (XO (XO (XO XH))))))))))))))))),
    (Npos (XO (XO (XO (XI (XO (XO (XI (XI (XI (XO (XO (XO (XI (XO (XO (XO
    XH)))))))))))))))))), L) :: ((((Npos (XI (XO (XO (XI (XO (XO (XI (XI (XI
    (XO (XO (XO (XI (XO (XO (XO XH))))))))))))))))), (Npos (XO (XO (XI (XI
    (XO (XO (XI (XI (XI (XO (XO (XO (XI (XO (XO (XO XH)))))))))))))))))),
    NSM) :: ((((Npos (XI (XO (XI (XI (XO (XO (XI (XI (XI (XO (XO (XO (XI (XO
    (XO (XO XH))))))))))))))))), (Npos (XO (XI (XI (XI (XO (XO (XI (XI (XI
    (XO (XO (XO (XI (XO (XO (XO XH)))))))))))))))))), L) :: ((((Npos (XI (XI
    (XI (XI (XO (XO (XI (XI (XI (XO (XO (XO (XI (XO (XO (XO
    XH))))))))))))))))), (Npos (XI (XI (XI (XI (XO (XO (XI (XI (XI (XO (XO
    (XO (XI (XO (XO (XO XH)))))))))))))))))), NSM) :: ((((Npos (XO (XO (XO
    (XO (XI (XO (XI (XI (XI (XO (XO (XO (XI (XO (XO (XO XH))))))))))))))))),
    (Npos (XI (XI (XI (XI (XI (XO (XI (XI (XI (XO (XO (XO (XI (XO (XO (XO
    XH)))))))))))))))))), L) :: ((((Npos (XI (XO (XO (XO (XO (XI (XI (XI (XI
    (XO (XO (XO (XI (XO (XO (XO XH))))))))))))))))), (Npos (XO (XO (XI (XO
    (XI (XI (XI (XI (XI (XO (XO (XO (XI (XO (XO (XO XH)))))))))))))))))),
    L) :: ((((Npos (XO (XO (XO (XO (XO (XO (XO (XO (XO (XI (XO (XO (XI (XO
    (XO (XO XH))))))))))))))))), (Npos (XI (XO (XO (XO (XI (XO (XO (XO (XO
    (XI (XO (XO (XI (XO (XO (XO XH)))))))))))))))))), L) :: ((((Npos (XI (XI
    (XO (XO (XI (XO (XO (XO (XO (XI (XO (XO (XI (XO (XO (XO
    XH))))))))))))))))), (Npos (XO (XI (XI (XI (XO (XI (XO (XO (XO (XI (XO
    (XO (XI (XO (XO (XO XH)))))))))))))))))), L) :: ((((Npos (XI (XI (XI (XI
    (XO (XI (XO (XO (XO (XI (XO (XO (XI (XO (XO (XO XH))))))))))))))))),
    (Npos (XI (XO (XO (XO (XI (XI (XO (XO (XO (XI (XO (XO (XI (XO (XO (XO
    XH)))))))))))))))))), NSM) :: ((((Npos (XO (XI (XO (XO (XI (XI (XO (XO
    (XO (XI (XO (XO (XI (XO (XO (XO XH))))))))))))))))), (Npos (XI (XI (XO
    (XO (XI (XI (XO (XO (XO (XI (XO (XO (XI (XO (XO (XO XH)))))))))))))))))),
    L) :: ((((Npos (XO (XO (XI (XO (XI (XI (XO (XO (XO (XI (XO (XO (XI (XO
    (XO (XO XH))))))))))))))))), (Npos (XO (XO (XI (XO (XI (XI (XO (XO (XO
    (XI (XO (XO (XI (XO (XO (XO XH)))))))))))))))))), NSM) :: ((((Npos (XI
    (XO (XI (XO (XI (XI (XO (XO (XO (XI (XO (XO (XI (XO (XO (XO
    XH))))))))))))))))), (Npos (XI (XO (XI (XO (XI (XI (XO (XO (XO (XI (XO
    (XO (XI (XO (XO (XO XH)))))))))))))))))), L) :: ((((Npos (XO (XI (XI (XO
    (XI (XI (XO (XO (XO (XI (XO (XO (XI (XO (XO (XO XH))))))))))))))))),
    (Npos (XI (XI (XI (XO (XI (XI (XO (XO (XO (XI (XO (XO (XI (XO (XO (XO
    XH)))))))))))))))))), NSM) :: ((((Npos (XO (XO (XO (XI (XI (XI (XO (XO
    (XO (XI (XO (XO (XI (XO (XO (XO XH))))))))))))))))), (Npos (XI (XO (XI
    (XI (XI (XI (XO (XO (XO (XI (XO (XO (XI (XO (XO (XO XH)))))))))))))))))),
    L) :: ((((Npos (XO (XI (XI (XI (XI (XI (XO (XO (XO (XI (XO (XO (XI (XO
    (XO (XO XH))))))))))))))))), (Npos (XO (XI (XI (XI (XI (XI (XO (XO (XO
    (XI (XO (XO (XI (XO (XO (XO XH)))))))))))))))))), NSM) :: ((((Npos (XI
    (XI (XI (XI (XI (XI (XO (XO (XO (XI (XO (XO (XI (XO (XO (XO
    XH))))))))))))))))), (Npos (XO (XO (XO (XO (XO (XO (XI (XO (XO (XI (XO
    (XO (XI (XO (XO (XO XH)))))))))))))))))), L) :: ((((Npos (XI (XO (XO (XO
    (XO (XO (XI (XO (XO (XI (XO (XO (XI (XO (XO (XO XH))))))))))))))))),
    (Npos (XI (XO (XO (XO (XO (XO (XI (XO (XO (XI (XO (XO (XI (XO (XO (XO
    XH)))))))))))))))))), NSM) :: ((((Npos (XO (XO (XO (XO (XO (XO (XO (XI
    (XO (XI (XO (XO (XI (XO (XO (XO XH))))))))))))))))), (Npos (XO (XI (XI
    (XO (XO (XO (XO (XI (XO (XI (XO (XO (XI (XO (XO (XO XH)))))))))))))))))),
    L) :: ((((Npos (XO (XO (XO (XI (XO (XO (XO (XI (XO (XI (XO (XO (XI (XO
    (XO (XO XH))))))))))))))))), (Npos (XO (XO (XO (XI (XO (XO (XO (XI (XO
    (XI (XO (XO (XI (XO (XO (XO XH)))))))))))))))))), L) :: ((((Npos (XO (XI
    (XO (XI (XO (XO (XO (XI (XO (XI (XO (XO (XI (XO (XO (XO
    XH))))))))))))))))), (Npos (XI (XO (XI (XI (XO (XO (XO (XI (XO (XI (XO
    (XO (XI (XO (XO (XO XH)))))))))))))))))), L) :: ((((Npos (XI (XI (XI (XI
    (XO (XO (XO (XI (XO (XI (XO (XO (XI (XO (XO (XO XH))))))))))))))))),
    (Npos (XI (XO (XI (XI (XI (XO (XO (XI (XO (XI (XO (XO (XI (XO (XO (XO
    XH)))))))))))))))))), L) :: ((((Npos (XI (XI (XI (XI (XI (XO (XO (XI (XO
    (XI (XO (XO (XI (XO (XO (XO XH))))))))))))))))), (Npos (XI (XO (XO (XI
    (XO (XI (XO (XI (XO (XI (XO (XO (XI (XO (XO (XO XH)))))))))))))))))),
    L) :: ((((Npos (XO (XO (XO (XO (XI (XI (XO (XI (XO (XI (XO (XO (XI (XO
    (XO (XO XH))))))))))))))))), (Npos (XO (XI (XI (XI (XI (XO (XI (XI (XO
    (XI (XO (XO (XI (XO (XO (XO XH)))))))))))))))))), L) :: ((((Npos (XI (XI
    (XI (XI (XI (XO (XI (XI (XO (XI (XO (XO (XI (XO (XO (XO
    XH))))))))))))))))), (Npos (XI (XI (XI (XI (XI (XO (XI (XI (XO (XI (XO
    (XO (XI (XO (XO (XO XH)))))))))))))))))), NSM) :: ((((Npos (XO (XO (XO
    (XO (XO (XI (XI (XI (XO (XI (XO (XO (XI (XO (XO (XO XH))))))))))))))))),
    (Npos (XO (XI (XO (XO (XO (XI (XI (XI (XO (XI (XO (XO (XI (XO (XO (XO
    XH)))))))))))))))))), L) :: ((((Npos (XI (XI (XO (XO (XO (XI (XI (XI (XO
    (XI (XO (XO (XI (XO (XO (XO XH))))))))))))))))), (Npos (XO (XI (XO (XI
    (XO (XI (XI (XI (XO (XI (XO (XO (XI (XO (XO (XO XH)))))))))))))))))),
    NSM) :: ((((Npos (XO (XO (XO (XO (XI (XI (XI (XI (XO (XI (XO (XO (XI (XO
    (XO (XO XH))))))))))))))))), (Npos (XI (XO (XO (XI (XI (XI (XI (XI (XO
    (XI (XO (XO (XI (XO (XO (XO XH)))))))))))))))))), L) :: ((((Npos (XO (XO
    (XO (XO (XO (XO (XO (XO (XI (XI (XO (XO (XI (XO (XO (XO
    XH))))))))))))))))), (Npos (XI (XO (XO (XO (XO (XO (XO (XO (XI (XI (XO
    (XO (XI (XO (XO (XO XH)))))))))))))))))), NSM) :: ((((Npos (XO (XI (XO
    (XO (XO (XO (XO (XO (XI (XI (XO (XO (XI (XO (XO (XO XH))))))))))))))))),
    (Npos (XI (XI (XO (XO (XO (XO (XO (XO (XI (XI (XO (XO (XI (XO (XO (XO
    XH)))))))))))))))))), L) :: ((((Npos (XI (XO (XI (XO (XO (XO (XO (XO (XI
    (XI (XO (XO (XI (XO (XO (XO XH))))))))))))))))), (Npos (XO (XO (XI (XI
    (XO (XO (XO (XO (XI (XI (XO (XO (XI (XO (XO (XO XH)))))))))))))))))),
    L) :: ((((Npos (XI (XI (XI (XI (XO (XO (XO (XO (XI (XI (XO (XO (XI (XO
    (XO (XO XH))))))))))))))))), (Npos (XO (XO (XO (XO (XI (XO (XO (XO (XI
    (XI (XO (XO (XI (XO (XO (XO XH)))))))))))))))))), L) :: ((((Npos (XI (XI
    (XO (XO (XI (XO (XO (XO (XI (XI (XO (XO (XI (XO (XO (XO
    XH))))))))))))))))), (Npos (XO (XO (XO (XI (XO (XI (XO (XO (XI (XI (XO
    (XO (XI (XO (XO (XO XH)))))))))))))))))), L) :: ((((Npos (XO (XI (XO (XI
    (XO (XI (XO (XO (XI (XI (XO (XO (XI (XO (XO (XO XH))))))))))))))))),
    (Npos (XO (XO (XO (XO (XI (XI (XO (XO (XI (XI (XO (XO (XI (XO (XO (XO
    XH)))))))))))))))))), L) :: ((((Npos (XO (XI (XO (XO (XI (XI (XO (XO (XI
    (XI (XO (XO (XI (XO (XO (XO XH))))))))))))))))), (Npos (XI (XI (XO (XO
    (XI (XI (XO (XO (XI (XI (XO (XO (XI (XO (XO (XO XH)))))))))))))))))),
    L) :: ((((Npos (XI (XO (XI (XO (XI (XI (XO (XO (XI (XI (XO (XO (XI (XO
    (XO (XO XH))))))))))))))))), (Npos (XI (XO (XO (XI (XI (XI (XO (XO (XI
    (XI (XO (XO (XI (XO (XO (XO XH)))))))))))))))))), L) :: ((((Npos (XI (XI
    (XO (XI (XI (XI (XO (XO (XI (XI (XO (XO (XI (XO (XO (XO
    XH))))))))))))))))), (Npos (XO (XO (XI (XI (XI (XI (XO (XO (XI (XI (XO
    (XO (XI (XO (XO (XO XH)))))))))))))))))), NSM) :: ((((Npos (XI (XO (XI
    (XI (XI (XI (XO (XO (XI (XI (XO (XO (XI (XO (XO (XO XH))))))))))))))))),
    (Npos (XI (XI (XI (XI (XI (XI (XO (XO (XI (XI (XO (XO (XI (XO (XO (XO
    XH)))))))))))))))))), L) :: ((((Npos (XO (XO (XO (XO (XO (XO (XI (XO (XI
    (XI (XO (XO (XI (XO (XO (XO XH))))))))))))))))), (Npos (XO (XO (XO (XO
    (XO (XO (XI (XO (XI (XI (XO (XO (XI (XO (XO (XO XH)))))))))))))))))),
    NSM) :: ((((Npos (XI (XO (XO (XO (XO (XO (XI (XO (XI (XI (XO (XO (XI (XO
    (XO (XO XH))))))))))))))))), (Npos (XO (XO (XI (XO (XO (XO (XI (XO (XI
    (XI (XO (XO (XI (XO (XO (XO XH)))))))))))))))))), L) :: ((((Npos (XI (XI
    (XI (XO (XO (XO (XI (XO (XI (XI (XO (XO (XI (XO (XO (XO
    XH))))))))))))))))), (Npos (XO (XO (XO (XI (XO (XO (XI (XO (XI (XI (XO
    (XO (XI (XO (XO (XO XH)))))))))))))))))), L) :: ((((Npos (XI (XI (XO (XI
    (XO (XO (XI (XO (XI (XI (XO (XO (XI (XO (XO (XO XH))))))))))))))))),
    (Npos (XI (XO (XI (XI (XO (XO (XI (XO (XI (XI (XO (XO (XI (XO (XO (XO
    XH)))))))))))))))))), L) :: ((((Npos (XO (XO (XO (XO (XI (XO (XI (XO (XI
    (XI (XO (XO (XI (XO (XO (XO XH))))))))))))))))), (Npos (XO (XO (XO (XO
    (XI (XO (XI (XO (XI (XI (XO (XO (XI (XO (XO (XO XH)))))))))))))))))),
    L) :: ((((Npos (XI (XI (XI (XO (XI (XO (XI (XO (XI (XI (XO (XO (XI (XO
    (XO (XO XH))))))))))))))))), (Npos (XI (XI (XI (XO (XI (XO (XI (XO (XI
    (XI (XO (XO (XI (XO (XO (XO XH)))))))))))))))))), L) :: ((((Npos (XI (XO
    (XI (XI (XI (XO (XI (XO (XI (XI (XO (XO (XI (XO (XO (XO
    XH))))))))))))))))), (Npos (XI (XI (XO (XO (XO (XI (XI (XO (XI (XI (XO
    (XO (XI (XO (XO (XO XH)))))))))))))))))), L) :: ((((Npos (XO (XI (XI (XO
    (XO (XI (XI (XO (XI (XI (XO (XO (XI (XO (XO (XO XH))))))))))))))))),
    (Npos (XO (XO (XI (XI (XO (XI (XI (XO (XI (XI (XO (XO (XI (XO (XO (XO
    XH)))))))))))))))))), NSM) :: ((((Npos (XO (XO (XO (XO (XI (XI (XI (XO
    (XI (XI (XO (XO (XI (XO (XO (XO XH))))))))))))))))), (Npos (XO (XO (XI
    (XO (XI (XI (XI (XO (XI (XI (XO (XO (XI (XO (XO (XO XH)))))))))))))))))),
    NSM) :: ((((Npos (XO (XO (XO (XO (XO (XO (XO (XI (XI (XI (XO (XO (XI (XO
    (XO (XO XH))))))))))))))))), (Npos (XI (XO (XO (XI (XO (XO (XO (XI (XI
    (XI (XO (XO (XI (XO (XO (XO XH)))))))))))))))))), L) :: ((((Npos (XI (XI
    (XO (XI (XO (XO (XO (XI (XI (XI (XO (XO (XI (XO (XO (XO
    XH))))))))))))))))), (Npos (XI (XI (XO (XI (XO (XO (XO (XI (XI (XI (XO
    (XO (XI (XO (XO (XO XH)))))))))))))))))), L) :: ((((Npos (XO (XI (XI (XI
    (XO (XO (XO (XI (XI (XI (XO (XO (XI (XO (XO (XO XH))))))))))))))))),
    (Npos (XO (XI (XI (XI (XO (XO (XO (XI (XI (XI (XO (XO (XI (XO (XO (XO
    XH)))))))))))))))))), L) :: ((((Npos (XO (XO (XO (XO (XI (XO (XO (XI (XI
    (XI (XO (XO (XI (XO (XO (XO XH))))))))))))))))), (Npos (XI (XO (XI (XO
    (XI (XI (XO (XI (XI (XI (XO (XO (XI (XO (XO (XO XH)))))))))))))))))),
    L) :: ((((Npos (XI (XI (XI (XO (XI (XI (XO (XI (XI (XI (XO (XO (XI (XO
    (XO (XO XH))))))))))))))))), (Npos (XO (XI (XO (XI (XI (XI (XO (XI (XI
    (XI (XO (XO (XI (XO (XO (XO XH)))))))))))))))))), L) :: ((((Npos (XI (XI
    (XO (XI (XI (XI (XO (XI (XI (XI (XO (XO (XI (XO (XO (XO
    XH))))))))))))))))), (Npos (XO (XO (XO (XO (XO (XO (XI (XI (XI (XI (XO
    (XO (XI (XO (XO (XO XH)))))))))))))))))), NSM) :: ((((Npos (XO (XI (XO
    (XO (XO (XO (XI (XI (XI (XI (XO (XO (XI (XO (XO (XO XH))))))))))))))))),
    (Npos (XO (XI (XO (XO (XO (XO (XI (XI (XI (XI (XO (XO (XI (XO (XO (XO
    XH)))))))))))))))))), L) :: ((((Npos (XI (XO (XI (XO (XO (XO (XI (XI (XI
    (XI (XO (XO (XI (XO (XO (XO XH))))))))))))))))), (Npos (XI (XO (XI (XO
    (XO (XO (XI (XI (XI (XI (XO (XO (XI (XO (XO (XO XH)))))))))))))))))),
    L) :: ((((Npos (XI (XI (XI (XO (XO (XO (XI (XI (XI (XI (XO (XO (XI (XO
    (XO (XO XH))))))))))))))))), (Npos (XO (XI (XO (XI (XO (XO (XI (XI (XI
    (XI (XO (XO (XI (XO (XO (XO XH)))))))))))))))))), L) :: ((((Npos (XO (XO
    (XI (XI (XO (XO (XI (XI (XI (XI (XO (XO (XI (XO (XO (XO
    XH))))))))))))))))), (Npos (XI (XO (XI (XI (XO (XO (XI (XI (XI (XI (XO
    (XO (XI (XO (XO (XO XH)))))))))))))))))), L) :: ((((Npos (XO (XI (XI (XI
    (XO (XO (XI (XI (XI (XI (XO (XO (XI (XO (XO (XO XH))))))))))))))))),
    (Npos (XO (XI (XI (XI (XO (XO (XI (XI (XI (XI (XO (XO (XI (XO (XO (XO
    XH)))))))))))))))))), NSM) :: ((((Npos (XI (XI (XI (XI (XO (XO (XI (XI
    (XI (XI (XO (XO (XI (XO (XO (XO XH))))))))))))))))), (Npos (XI (XI (XI
    (XI (XO (XO (XI (XI (XI (XI (XO (XO (XI (XO (XO (XO XH)))))))))))))))))),
    L) :: ((((Npos (XO (XO (XO (XO (XI (XO (XI (XI (XI (XI (XO (XO (XI (XO
    (XO (XO XH))))))))))))))))), (Npos (XO (XO (XO (XO (XI (XO (XI (XI (XI
    (XI (XO (XO (XI (XO (XO (XO XH)))))))))))))))))), NSM) :: ((((Npos (XI
    (XO (XO (XO (XI (XO (XI (XI (XI (XI (XO (XO (XI (XO (XO (XO
    XH))))))))))))))))), (Npos (XI (XO (XO (XO (XI (XO (XI (XI (XI (XI (XO
    (XO (XI (XO (XO (XO XH)))))))))))))))))), L) :: ((((Npos (XO (XI (XO (XO
    (XI (XO (XI (XI (XI (XI (XO (XO (XI (XO (XO (XO XH))))))))))))))))),
    (Npos (XO (XI (XO (XO (XI (XO (XI (XI (XI (XI (XO (XO (XI (XO (XO (XO
    XH)))))))))))))))))), NSM) :: ((((Npos (XI (XI (XO (XO (XI (XO (XI (XI
    (XI (XI (XO (XO (XI (XO (XO (XO XH))))))))))))))))), (Npos (XI (XO (XI
    (XO (XI (XO (XI (XI (XI (XI (XO (XO (XI (XO (XO (XO XH)))))))))))))))))),
    L) :: ((((Npos (XI (XI (XI (XO (XI (XO (XI (XI (XI (XI (XO (XO (XI (XO
    (XO (XO XH))))))))))))))))), (Npos (XO (XO (XO (XI (XI (XO (XI (XI (XI
    (XI (XO (XO (XI (XO (XO (XO XH)))))))))))))))))), L) :: ((((Npos (XI (XO
    (XO (XO (XO (XI (XI (XI (XI (XI (XO (XO (XI (XO (XO (XO
    XH))))))))))))))))), (Npos (XO (XI (XO (XO (XO (XI (XI (XI (XI (XI (XO
    (XO (XI (XO (XO (XO XH)))))))))))))))))), NSM) :: ((((Npos (XO (XO (XO
    (XO (XO (XO (XO (XO (XO (XO (XI (XO (XI (XO (XO (XO XH))))))))))))))))),
    (Npos (XI (XI (XI (XO (XI (XI (XO (XO (XO (XO (XI (XO (XI (XO (XO (XO
    XH)))))))))))))))))), L) :: ((((Npos (XO (XO (XO (XI (XI (XI (XO (XO (XO
    (XO (XI (XO (XI (XO (XO (XO XH))))))))))))))))), (Npos (XI (XI (XI (XI
    (XI (XI (XO (XO (XO (XO (XI (XO (XI (XO (XO (XO XH)))))))))))))))))),
    NSM) :: ((((Npos (XO (XO (XO (XO (XO (XO (XI (XO (XO (XO (XI (XO (XI (XO
    (XO (XO XH))))))))))))))))), (Npos (XI (XO (XO (XO (XO (XO (XI (XO (XO
    (XO (XI (XO (XI (XO (XO (XO XH)))))))))))))))))), L) :: ((((Npos (XO (XI
    (XO (XO (XO (XO (XI (XO (XO (XO (XI (XO (XI (XO (XO (XO
    XH))))))))))))))))), (Npos (XO (XO (XI (XO (XO (XO (XI (XO (XO (XO (XI
    (XO (XI (XO (XO (XO XH)))))))))))))))))), NSM) :: ((((Npos (XI (XO (XI
    (XO (XO (XO (XI (XO (XO (XO (XI (XO (XI (XO (XO (XO XH))))))))))))))))),
    (Npos (XI (XO (XI (XO (XO (XO (XI (XO (XO (XO (XI (XO (XI (XO (XO (XO
    XH)))))))))))))))))), L) :: ((((Npos (XO (XI (XI (XO (XO (XO (XI (XO (XO
    (XO (XI (XO (XI (XO (XO (XO XH))))))))))))))))), (Npos (XO (XI (XI (XO
    (XO (XO (XI (XO (XO (XO (XI (XO (XI (XO (XO (XO XH)))))))))))))))))),
    NSM) :: ((((Npos (XI (XI (XI (XO (XO (XO (XI (XO (XO (XO (XI (XO (XI (XO
    (XO (XO XH))))))))))))))))), (Npos (XI (XI (XO (XI (XI (XO (XI (XO (XO
    (XO (XI (XO (XI (XO (XO (XO XH)))))))))))))))))), L) :: ((((Npos (XI (XO
    (XI (XI (XI (XO (XI (XO (XO (XO (XI (XO (XI (XO (XO (XO
    XH))))))))))))))))), (Npos (XI (XO (XI (XI (XI (XO (XI (XO (XO (XO (XI
    (XO (XI (XO (XO (XO XH)))))))))))))))))), L) :: ((((Npos (XO (XI (XI (XI
    (XI (XO (XI (XO (XO (XO (XI (XO (XI (XO (XO (XO XH))))))))))))))))),
    (Npos (XO (XI (XI (XI (XI (XO (XI (XO (XO (XO (XI (XO (XI (XO (XO (XO
    XH)))))))))))))))))), NSM) :: ((((Npos (XI (XI (XI (XI (XI (XO (XI (XO
    (XO (XO (XI (XO (XI (XO (XO (XO XH))))))))))))))))), (Npos (XI (XO (XO
    (XO (XO (XI (XI (XO (XO (XO (XI (XO (XI (XO (XO (XO XH)))))))))))))))))),
    L) :: ((((Npos (XO (XO (XO (XO (XO (XO (XO (XI (XO (XO (XI (XO (XI (XO
    (XO (XO XH))))))))))))))))), (Npos (XO (XI (XO (XO (XI (XI (XO (XI (XO
    (XO (XI (XO (XI (XO (XO (XO XH)))))))))))))))))), L) :: ((((Npos (XI (XI
    (XO (XO (XI (XI (XO (XI (XO (XO (XI (XO (XI (XO (XO (XO
    XH))))))))))))))))), (Npos (XO (XO (XO (XI (XI (XI (XO (XI (XO (XO (XI
    (XO (XI (XO (XO (XO XH)))))))))))))))))), NSM) :: ((((Npos (XI (XO (XO
    (XI (XI (XI (XO (XI (XO (XO (XI (XO (XI (XO (XO (XO XH))))))))))))))))),
    (Npos (XI (XO (XO (XI (XI (XI (XO (XI (XO (XO (XI (XO (XI (XO (XO (XO
    XH)))))))))))))))))), L) :: ((((Npos (XO (XI (XO (XI (XI (XI (XO (XI (XO
    (XO (XI (XO (XI (XO (XO (XO XH))))))))))))))))), (Npos (XO (XI (XO (XI
    (XI (XI (XO (XI (XO (XO (XI (XO (XI (XO (XO (XO XH)))))))))))))))))),
    NSM) :: ((((Npos (XI (XI (XO (XI (XI (XI (XO (XI (XO (XO (XI (XO (XI (XO
    (XO (XO XH))))))))))))))))), (Npos (XO (XI (XI (XI (XI (XI (XO (XI (XO
    (XO (XI (XO (XI (XO (XO (XO XH)))))))))))))))))), L) :: ((((Npos (XI (XI
    (XI (XI (XI (XI (XO (XI (XO (XO (XI (XO (XI (XO (XO (XO
    XH))))))))))))))))), (Npos (XO (XO (XO (XO (XO (XO (XI (XI (XO (XO (XI
    (XO (XI (XO (XO (XO XH)))))))))))))))))), NSM) :: ((((Npos (XI (XO (XO
    (XO (XO (XO (XI (XI (XO (XO (XI (XO (XI (XO (XO (XO XH))))))))))))))))),
    (Npos (XI (XO (XO (XO (XO (XO (XI (XI (XO (XO (XI (XO (XI (XO (XO (XO
    XH)))))))))))))))))), L) :: ((((Npos (XO (XI (XO (XO (XO (XO (XI (XI (XO
    (XO (XI (XO (XI (XO (XO (XO XH))))))))))))))))), (Npos (XI (XI (XO (XO
    (XO (XO (XI (XI (XO (XO (XI (XO (XI (XO (XO (XO XH)))))))))))))))))),
    NSM) :: ((((Npos (XO (XO (XI (XO (XO (XO (XI (XI (XO (XO (XI (XO (XI (XO
    (XO (XO XH))))))))))))))))), (Npos (XI (XI (XI (XO (XO (XO (XI (XI (XO
    (XO (XI (XO (XI (XO (XO (XO XH)))))))))))))))))), L) :: ((((Npos (XO (XO
    (XO (XO (XI (XO (XI (XI (XO (XO (XI (XO (XI (XO (XO (XO
    XH))))))))))))))))), (Npos (XI (XO (XO (XI (XI (XO (XI (XI (XO (XO (XI
    (XO (XI (XO (XO (XO XH)))))))))))))))))), L) :: ((((Npos (XO (XO (XO (XO
    (XO (XO (XO (XI (XI (XO (XI (XO (XI (XO (XO (XO XH))))))))))))))))),
    (Npos (XI (XO (XO (XO (XI (XI (XO (XI (XI (XO (XI (XO (XI (XO (XO (XO
    XH)))))))))))))))))), L) :: ((((Npos (XO (XI (XO (XO (XI (XI (XO (XI (XI
    (XO (XI (XO (XI (XO (XO (XO XH))))))))))))))))), (Npos (XI (XO (XI (XO
    (XI (XI (XO (XI (XI (XO (XI (XO (XI (XO (XO (XO XH)))))))))))))))))),
    NSM) :: ((((Npos (XO (XO (XO (XI (XI (XI (XO (XI (XI (XO (XI (XO (XI (XO
    (XO (XO XH))))))))))))))))), (Npos (XI (XI (XO (XI (XI (XI (XO (XI (XI
    (XO (XI (XO (XI (XO (XO (XO XH)))))))))))))))))), L) :: ((((Npos (XO (XO
    (XI (XI (XI (XI (XO (XI (XI (XO (XI (XO (XI (XO (XO (XO
    XH))))))))))))))))), (Npos (XI (XO (XI (XI (XI (XI (XO (XI (XI (XO (XI
    (XO (XI (XO (XO (XO XH)))))))))))))))))), NSM) :: ((((Npos (XO (XI (XI
    (XI (XI (XI (XO (XI (XI (XO (XI (XO (XI (XO (XO (XO XH))))))))))))))))),
    (Npos (XO (XI (XI (XI (XI (XI (XO (XI (XI (XO (XI (XO (XI (XO (XO (XO
    XH)))))))))))))))))), L) :: ((((Npos (XI (XI (XI (XI (XI (XI (XO (XI (XI
    (XO (XI (XO (XI (XO (XO (XO XH))))))))))))))))), (Npos (XO (XO (XO (XO
    (XO (XO (XI (XI (XI (XO (XI (XO (XI (XO (XO (XO XH)))))))))))))))))),
    NSM) :: ((((Npos (XI (XO (XO (XO (XO (XO (XI (XI (XI (XO (XI (XO (XI (XO
    (XO (XO XH))))))))))))))))), (Npos (XI (XI (XO (XI (XI (XO (XI (XI (XI
    (XO (XI (XO (XI (XO (XO (XO XH)))))))))))))))))), L) :: ((((Npos (XO (XO
    (XI (XI (XI (XO (XI (XI (XI (XO (XI (XO (XI (XO (XO (XO
    XH))))))))))))))))), (Npos (XI (XO (XI (XI (XI (XO (XI (XI (XI (XO (XI
    (XO (XI (XO (XO (XO XH)))))))))))))))))), NSM) :: ((((Npos (XO (XO (XO
    (XO (XO (XO (XO (XO (XO (XI (XI (XO (XI (XO (XO (XO XH))))))))))))))))),
    (Npos (XO (XI (XO (XO (XI (XI (XO (XO (XO (XI (XI (XO (XI (XO (XO (XO
    XH)))))))))))))))))), L) :: ((((Npos (XI (XI (XO (XO (XI (XI (XO (XO (XO
    (XI (XI (XO (XI (XO (XO (XO XH))))))))))))))))), (Npos (XO (XI (XO (XI
    (XI (XI (XO (XO (XO (XI (XI (XO (XI (XO (XO (XO XH)))))))))))))))))),
    NSM) :: ((((Npos (XI (XI (XO (XI (XI (XI (XO (XO (XO (XI (XI (XO (XI (XO
    (XO (XO XH))))))))))))))))), (Npos (XO (XO (XI (XI (XI (XI (XO (XO (XO
    (XI (XI (XO (XI (XO (XO (XO XH)))))))))))))))))), L) :: ((((Npos (XI (XO
    (XI (XI (XI (XI (XO (XO (XO (XI (XI (XO (XI (XO (XO (XO
    XH))))))))))))))))), (Npos (XI (XO (XI (XI (XI (XI (XO (XO (XO (XI (XI
    (XO (XI (XO (XO (XO XH)))))))))))))))))), NSM) :: ((((Npos (XO (XI (XI
    (XI (XI (XI (XO (XO (XO (XI (XI (XO (XI (XO (XO (XO XH))))))))))))))))),
    (Npos (XO (XI (XI (XI (XI (XI (XO (XO (XO (XI (XI (XO (XI (XO (XO (XO
    XH)))))))))))))))))), L) :: ((((Npos (XI (XI (XI (XI (XI (XI (XO (XO (XO
    (XI (XI (XO (XI (XO (XO (XO XH))))))))))))))))), (Npos (XO (XO (XO (XO
    (XO (XO (XI (XO (XO (XI (XI (XO (XI (XO (XO (XO XH)))))))))))))))))),
    NSM) :: ((((Npos (XI (XO (XO (XO (XO (XO (XI (XO (XO (XI (XI (XO (XI (XO
    (XO (XO XH))))))))))))))))), (Npos (XO (XO (XI (XO (XO (XO (XI (XO (XO
    (XI (XI (XO (XI (XO (XO (XO XH)))))))))))))))))), L) :: ((((Npos (XO (XO
    (XO (XO (XI (XO (XI (XO (XO (XI (XI (XO (XI (XO (XO (XO
    XH))))))))))))))))), (Npos (XI (XO (XO (XI (XI (XO (XI (XO (XO (XI (XI
    (XO (XI (XO (XO (XO XH)))))))))))))))))), L) :: ((((Npos (XO (XO (XO (XO
    (XO (XI (XI (XO (XO (XI (XI (XO (XI (XO (XO (XO XH))))))))))))))))),
    (Npos (XO (XO (XI (XI (XO (XI (XI (XO (XO (XI (XI (XO (XI (XO (XO (XO
    XH)))))))))))))))))), ON) :: ((((Npos (XO (XO (XO (XO (XO (XO (XO (XI (XO
    (XI (XI (XO (XI (XO (XO (XO XH))))))))))))))))), (Npos (XO (XI (XO (XI
    (XO (XI (XO (XI (XO (XI (XI (XO (XI (XO (XO (XO XH)))))))))))))))))),
    L) :: ((((Npos (XI (XI (XO (XI (XO (XI (XO (XI (XO (XI (XI (XO (XI (XO
    (XO (XO XH))))))))))))))))), (Npos (XI (XI (XO (XI (XO (XI (XO (XI (XO
    (XI (XI (XO (XI (XO (XO (XO XH)))))))))))))))))), NSM) :: ((((Npos (XO
    (XO (XI (XI (XO (XI (XO (XI (XO (XI (XI (XO (XI (XO (XO (XO
    XH))))))))))))))))), (Npos (XO (XO (XI (XI (XO (XI (XO (XI (XO (XI (XI
    (XO (XI (XO (XO (XO XH)))))))))))))))))), L) :: ((((Npos (XI (XO (XI (XI
    (XO (XI (XO (XI (XO (XI (XI (XO (XI (XO (XO (XO XH))))))))))))))))),
    (Npos (XI (XO (XI (XI (XO (XI (XO (XI (XO (XI (XI (XO (XI (XO (XO (XO
    XH)))))))))))))))))), NSM) :: ((((Npos (XO (XI (XI (XI (XO (XI (XO (XI
    (XO (XI (XI (XO (XI (XO (XO (XO XH))))))))))))))))), (Npos (XI (XI (XI
    (XI (XO (XI (XO (XI (XO (XI (XI (XO (XI (XO (XO (XO XH)))))))))))))))))),
    L) :: ((((Npos (XO (XO (XO (XO (XI (XI (XO (XI (XO (XI (XI (XO (XI (XO
    (XO (XO XH))))))))))))))))), (Npos (XI (XO (XI (XO (XI (XI (XO (XI (XO
    (XI (XI (XO (XI (XO (XO (XO XH)))))))))))))))))), NSM) :: ((((Npos (XO
    (XI (XI (XO (XI (XI (XO (XI (XO (XI (XI (XO (XI (XO (XO (XO
    XH))))))))))))))))), (Npos (XO (XI (XI (XO (XI (XI (XO (XI (XO (XI (XI
    (XO (XI (XO (XO (XO XH)))))))))))))))))), L) :: ((((Npos (XI (XI (XI (XO
    (XI (XI (XO (XI (XO (XI (XI (XO (XI (XO (XO (XO XH))))))))))))))))),
    (Npos (XI (XI (XI (XO (XI (XI (XO (XI (XO (XI (XI (XO (XI (XO (XO (XO
    XH)))))))))))))))))), NSM) :: ((((Npos (XO (XO (XO (XI (XI (XI (XO (XI
    (XO (XI (XI (XO (XI (XO (XO (XO XH))))))))))))))))), (Npos (XI (XO (XO
    (XI (XI (XI (XO (XI (XO (XI (XI (XO (XI (XO (XO (XO XH)))))))))))))))))),
    L) :: ((((Npos (XO (XO (XO (XO (XO (XO (XI (XI (XO (XI (XI (XO (XI (XO
    (XO (XO XH))))))))))))))))), (Npos (XI (XO (XO (XI (XO (XO (XI (XI (XO
    (XI (XI (XO (XI (XO (XO (XO XH)))))))))))))))))), L) :: ((((Npos (XO (XO
    (XO (XO (XI (XO (XI (XI (XO (XI (XI (XO (XI (XO (XO (XO
    XH))))))))))))))))), (Npos (XI (XI (XO (XO (XO (XI (XI (XI (XO (XI (XI
    (XO (XI (XO (XO (XO XH)))))))))))))))))), L) :: ((((Npos (XO (XO (XO (XO
    (XO (XO (XO (XO (XI (XI (XI (XO (XI (XO (XO (XO XH))))))))))))))))),
    (Npos (XO (XI (XO (XI (XI (XO (XO (XO (XI (XI (XI (XO (XI (XO (XO (XO
    XH)))))))))))))))))), L) :: ((((Npos (XI (XO (XI (XI (XI (XO (XO (XO (XI
    (XI (XI (XO (XI (XO (XO (XO XH))))))))))))))))), (Npos (XI (XO (XI (XI
    (XI (XO (XO (XO (XI (XI (XI (XO (XI (XO (XO (XO XH)))))))))))))))))),
    NSM) :: ((((Npos (XO (XI (XI (XI (XI (XO (XO (XO (XI (XI (XI (XO (XI (XO
    (XO (XO XH))))))))))))))))), (Npos (XO (XI (XI (XI (XI (XO (XO (XO (XI
    (XI (XI (XO (XI (XO (XO (XO XH)))))))))))))))))), L) :: ((((Npos (XI (XI
    (XI (XI (XI (XO (XO (XO (XI (XI (XI (XO (XI (XO (XO (XO
    XH))))))))))))))))), (Npos (XI (XI (XI (XI (XI (XO (XO (XO (XI (XI (XI
    (XO (XI (XO (XO (XO XH)))))))))))))))))), NSM) :: ((((Npos (XO (XO (XO
    (XO (XO (XI (XO (XO (XI (XI (XI (XO (XI (XO (XO (XO XH))))))))))))))))),
    (Npos (XI (XO (XO (XO (XO (XI (XO (XO (XI (XI (XI (XO (XI (XO (XO (XO
    XH)))))))))))))))))), L) :: ((((Npos (XO (XI (XO (XO (XO (XI (XO (XO (XI
    (XI (XI (XO (XI (XO (XO (XO XH))))))))))))))))), (Npos (XI (XO (XI (XO
    (XO (XI (XO (XO (XI (XI (XI (XO (XI (XO (XO (XO XH)))))))))))))))))),
    NSM) :: ((((Npos (XO (XI (XI (XO (XO (XI (XO (XO (XI (XI (XI (XO (XI (XO
    (XO (XO XH))))))))))))))))), (Npos (XO (XI (XI (XO (XO (XI (XO (XO (XI
    (XI (XI (XO (XI (XO (XO (XO XH)))))))))))))))))), L) :: ((((Npos (XI (XI
    (XI (XO (XO (XI (XO (XO (XI (XI (XI (XO (XI (XO (XO (XO
    XH))))))))))))))))), (Npos (XI (XI (XO (XI (XO (XI (XO (XO (XI (XI (XI
    (XO (XI (XO (XO (XO XH)))))))))))))))))), NSM) :: ((((Npos (XO (XO (XO
    (XO (XI (XI (XO (XO (XI (XI (XI (XO (XI (XO (XO (XO XH))))))))))))))))),
    (Npos (XO (XI (XI (XO (XO (XO (XI (XO (XI (XI (XI (XO (XI (XO (XO (XO
    XH)))))))))))))))))), L) :: ((((Npos (XO (XO (XO (XO (XO (XO (XO (XO (XO
    (XO (XO (XI (XI (XO (XO (XO XH))))))))))))))))), (Npos (XO (XI (XI (XI
    (XO (XI (XO (XO (XO (XO (XO (XI (XI (XO (XO (XO XH)))))))))))))))))),
    L) :: ((((Npos (XI (XI (XI (XI (XO (XI (XO (XO (XO (XO (XO (XI (XI (XO
    (XO (XO XH))))))))))))))))), (Npos (XI (XI (XI (XO (XI (XI (XO (XO (XO
    (XO (XO (XI (XI (XO (XO (XO XH)))))))))))))))))), NSM) :: ((((Npos (XO
    (XO (XO (XI (XI (XI (XO (XO (XO (XO (XO (XI (XI (XO (XO (XO
    XH))))))))))))))))), (Npos (XO (XO (XO (XI (XI (XI (XO (XO (XO (XO (XO
    (XI (XI (XO (XO (XO XH)))))))))))))))))), L) :: ((((Npos (XI (XO (XO (XI
    (XI (XI (XO (XO (XO (XO (XO (XI (XI (XO (XO (XO XH))))))))))))))))),
    (Npos (XO (XI (XO (XI (XI (XI (XO (XO (XO (XO (XO (XI (XI (XO (XO (XO
    XH)))))))))))))))))), NSM) :: ((((Npos (XI (XI (XO (XI (XI (XI (XO (XO
    (XO (XO (XO (XI (XI (XO (XO (XO XH))))))))))))))))), (Npos (XI (XI (XO
    (XI (XI (XI (XO (XO (XO (XO (XO (XI (XI (XO (XO (XO XH)))))))))))))))))),
    L) :: ((((Npos (XO (XO (XO (XO (XO (XI (XO (XI (XO (XO (XO (XI (XI (XO
    (XO (XO XH))))))))))))))))), (Npos (XO (XI (XO (XO (XI (XI (XI (XI (XO
    (XO (XO (XI (XI (XO (XO (XO XH)))))))))))))))))), L) :: ((((Npos (XI (XI
    (XI (XI (XI (XI (XI (XI (XO (XO (XO (XI (XI (XO (XO (XO
    XH))))))))))))))))), (Npos (XO (XI (XI (XO (XO (XO (XO (XO (XI (XO (XO
    (XI (XI (XO (XO (XO XH)))))))))))))))))), L) :: ((((Npos (XI (XO (XO (XI
    (XO (XO (XO (XO (XI (XO (XO (XI (XI (XO (XO (XO XH))))))))))))))))),
    (Npos (XI (XO (XO (XI (XO (XO (XO (XO (XI (XO (XO (XI (XI (XO (XO (XO
    XH)))))))))))))))))), L) :: ((((Npos (XO (XO (XI (XI (XO (XO (XO (XO (XI
    (XO (XO (XI (XI (XO (XO (XO XH))))))))))))))))), (Npos (XI (XI (XO (XO
    (XI (XO (XO (XO (XI (XO (XO (XI (XI (XO (XO (XO XH)))))))))))))))))),
    L) :: ((((Npos (XI (XO (XI (XO (XI (XO (XO (XO (XI (XO (XO (XI (XI (XO
    (XO (XO XH))))))))))))))))), (Npos (XO (XI (XI (XO (XI (XO (XO (XO (XI
    (XO (XO (XI (XI (XO (XO (XO XH)))))))))))))))))), L) :: ((((Npos (XO (XO
    (XO (XI (XI (XO (XO (XO (XI (XO (XO (XI (XI (XO (XO (XO
    XH))))))))))))))))), (Npos (XI (XO (XI (XO (XI (XI (XO (XO (XI (XO (XO
    (XI (XI (XO (XO (XO XH)))))))))))))))))), L) :: ((((Npos (XI (XI (XI (XO
    (XI (XI (XO (XO (XI (XO (XO (XI (XI (XO (XO (XO XH))))))))))))))))),
    (Npos (XO (XO (XO (XI (XI (XI (XO (XO (XI (XO (XO (XI (XI (XO (XO (XO
    XH)))))))))))))))))), L) :: ((((Npos (XI (XI (XO (XI (XI (XI (XO (XO (XI
    (XO (XO (XI (XI (XO (XO (XO XH))))))))))))))))), (Npos (XO (XO (XI (XI
    (XI (XI (XO (XO (XI (XO (XO (XI (XI (XO (XO (XO XH)))))))))))))))))),
    NSM) :: ((((Npos (XI (XO (XI (XI (XI (XI (XO (XO (XI (XO (XO (XI (XI (XO
    (XO (XO XH))))))))))))))))), (Npos (XI (XO (XI (XI (XI (XI (XO (XO (XI
    (XO (XO (XI (XI (XO (XO (XO XH)))))))))))))))))), L) :: ((((Npos (XO (XI
    (XI (XI (XI (XI (XO (XO (XI (XO (XO (XI (XI (XO (XO (XO
    XH))))))))))))))))), (Npos (XO (XI (XI (XI (XI (XI (XO (XO (XI (XO (XO
    (XI (XI (XO (XO (XO XH)))))))))))))))))), NSM) :: ((((Npos (XI (XI (XI
    (XI (XI (XI (XO (XO (XI (XO (XO (XI (XI (XO (XO (XO XH))))))))))))))))),
    (Npos (XO (XI (XO (XO (XO (XO (XI (XO (XI (XO (XO (XI (XI (XO (XO (XO
    XH)))))))))))))))))), L) :: ((((Npos (XI (XI (XO (XO (XO (XO (XI (XO (XI
    (XO (XO (XI (XI (XO (XO (XO XH))))))))))))))))), (Npos (XI (XI (XO (XO
    (XO (XO (XI (XO (XI (XO (XO (XI (XI (XO (XO (XO XH)))))))))))))))))),
    NSM) :: ((((Npos (XO (XO (XI (XO (XO (XO (XI (XO (XI (XO (XO (XI (XI (XO
    (XO (XO XH))))))))))))))))), (Npos (XO (XI (XI (XO (XO (XO (XI (XO (XI
    (XO (XO (XI (XI (XO (XO (XO XH)))))))))))))))))), L) :: ((((Npos (XO (XO
    (XO (XO (XI (XO (XI (XO (XI (XO (XO (XI (XI (XO (XO (XO
    XH))))))))))))))))), (Npos (XI (XO (XO (XI (XI (XO (XI (XO (XI (XO (XO
    (XI (XI (XO (XO (XO XH)))))))))))))))))), L) :: ((((Npos (XO (XO (XO (XO
    (XO (XI (XO (XI (XI (XO (XO (XI (XI (XO (XO (XO XH))))))))))))))))),
    (Npos (XI (XI (XI (XO (XO (XI (XO (XI (XI (XO (XO (XI (XI (XO (XO (XO
    XH)))))))))))))))))), L) :: ((((Npos (XO (XI (XO (XI (XO (XI (XO (XI (XI
    (XO (XO (XI (XI (XO (XO (XO XH))))))))))))))))), (Npos (XI (XI (XO (XO
    (XI (XO (XI (XI (XI (XO (XO (XI (XI (XO (XO (XO XH)))))))))))))))))),
    L) :: ((((Npos (XO (XO (XI (XO (XI (XO (XI (XI (XI (XO (XO (XI (XI (XO
    (XO (XO XH))))))))))))))))), (Npos (XI (XI (XI (XO (XI (XO (XI (XI (XI
    (XO (XO (XI (XI (XO (XO (XO XH)))))))))))))))))), NSM) :: ((((Npos (XO
    (XI (XO (XI (XI (XO (XI (XI (XI (XO (XO (XI (XI (XO (XO (XO
    XH))))))))))))))))), (Npos (XI (XI (XO (XI (XI (XO (XI (XI (XI (XO (XO
    (XI (XI (XO (XO (XO XH)))))))))))))))))), NSM) :: ((((Npos (XO (XO (XI
    (XI (XI (XO (XI (XI (XI (XO (XO (XI (XI (XO (XO (XO XH))))))))))))))))),
    (Npos (XI (XI (XI (XI (XI (XO (XI (XI (XI (XO (XO (XI (XI (XO (XO (XO
    XH)))))))))))))))))), L) :: ((((Npos (XO (XO (XO (XO (XO (XI (XI (XI (XI
    (XO (XO (XI (XI (XO (XO (XO XH))))))))))))))))), (Npos (XO (XO (XO (XO
    (XO (XI (XI (XI (XI (XO (XO (XI (XI (XO (XO (XO XH)))))))))))))))))),
    NSM) :: ((((Npos (XI (XO (XO (XO (XO (XI (XI (XI (XI (XO (XO (XI (XI (XO
    (XO (XO XH))))))))))))))))), (Npos (XO (XO (XI (XO (XO (XI (XI (XI (XI
    (XO (XO (XI (XI (XO (XO (XO XH)))))))))))))))))), L) :: ((((Npos (XO (XO
    (XO (XO (XO (XO (XO (XO (XO (XI (XO (XI (XI (XO (XO (XO
    XH))))))))))))))))), (Npos (XO (XO (XO (XO (XO (XO (XO (XO (XO (XI (XO
    (XI (XI (XO (XO (XO XH)))))))))))))))))), L) :: ((((Npos (XI (XO (XO (XO
    (XO (XO (XO (XO (XO (XI (XO (XI (XI (XO (XO (XO XH))))))))))))))))),
    (Npos (XO (XI (XI (XO (XO (XO (XO (XO (XO (XI (XO (XI (XI (XO (XO (XO
    XH)))))))))))))))))), NSM) :: ((((Npos (XI (XI (XI (XO (XO (XO (XO (XO
    (XO (XI (XO (XI (XI (XO (XO (XO XH))))))))))))))))), (Npos (XO (XO (XO
    (XI (XO (XO (XO (XO (XO (XI (XO (XI (XI (XO (XO (XO XH)))))))))))))))))),
    L) :: ((((Npos (XI (XO (XO (XI (XO (XO (XO (XO (XO (XI (XO (XI (XI (XO
    (XO (XO XH))))))))))))))))), (Npos (XO (XI (XO (XI (XO (XO (XO (XO (XO
    (XI (XO (XI (XI (XO (XO (XO XH)))))))))))))))))), NSM) :: ((((Npos (XI
    (XI (XO (XI (XO (XO (XO (XO (XO (XI (XO (XI (XI (XO (XO (XO
    XH))))))))))))))))), (Npos (XO (XI (XO (XO (XI (XI (XO (XO (XO (XI (XO
    (XI (XI (XO (XO (XO XH)))))))))))))))))), L) :: ((((Npos (XI (XI (XO (XO
    (XI (XI (XO (XO (XO (XI (XO (XI (XI (XO (XO (XO XH))))))))))))))))),
    (Npos (XO (XO (XO (XI (XI (XI (XO (XO (XO (XI (XO (XI (XI (XO (XO (XO
    XH)))))))))))))))))), NSM) :: ((((Npos (XI (XO (XO (XI (XI (XI (XO (XO
    (XO (XI (XO (XI (XI (XO (XO (XO XH))))))))))))))))), (Npos (XO (XI (XO
    (XI (XI (XI (XO (XO (XO (XI (XO (XI (XI (XO (XO (XO XH)))))))))))))))))),
    L) :: ((((Npos (XI (XI (XO (XI (XI (XI (XO (XO (XO (XI (XO (XI (XI (XO
    (XO (XO XH))))))))))))))))), (Npos (XO (XI (XI (XI (XI (XI (XO (XO (XO
    (XI (XO (XI (XI (XO (XO (XO XH)))))))))))))))))), NSM) :: ((((Npos (XI
    (XI (XI (XI (XI (XI (XO (XO (XO (XI (XO (XI (XI (XO (XO (XO
    XH))))))))))))))))), (Npos (XO (XI (XI (XO (XO (XO (XI (XO (XO (XI (XO
    (XI (XI (XO (XO (XO XH)))))))))))))))))), L) :: ((((Npos (XI (XI (XI (XO
    (XO (XO (XI (XO (XO (XI (XO (XI (XI (XO (XO (XO XH))))))))))))))))),
    (Npos (XI (XI (XI (XO (XO (XO (XI (XO (XO (XI (XO (XI (XI (XO (XO (XO
    XH)))))))))))))))))), NSM) :: ((((Npos (XO (XO (XO (XO (XI (XO (XI (XO
    (XO (XI (XO (XI (XI (XO (XO (XO XH))))))))))))))))), (Npos (XO (XO (XO
    (XO (XI (XO (XI (XO (XO (XI (XO (XI (XI (XO (XO (XO XH)))))))))))))))))),
    L) :: ((((Npos (XI (XO (XO (XO (XI (XO (XI (XO (XO (XI (XO (XI (XI (XO
    (XO (XO XH))))))))))))))))), (Npos (XO (XI (XI (XO (XI (XO (XI (XO (XO
    (XI (XO (XI (XI (XO (XO (XO XH)))))))))))))))))), NSM) :: ((((Npos (XI
    (XI (XI (XO (XI (XO (XI (XO (XO (XI (XO (XI (XI (XO (XO (XO
    XH))))))))))))))))), (Npos (XO (XO (XO (XI (XI (XO (XI (XO (XO (XI (XO
    (XI (XI (XO (XO (XO XH)))))))))))))))))), L) :: ((((Npos (XI (XO (XO (XI
    (XI (XO (XI (XO (XO (XI (XO (XI (XI (XO (XO (XO XH))))))))))))))))),
    (Npos (XI (XI (XO (XI (XI (XO (XI (XO (XO (XI (XO (XI (XI (XO (XO (XO
    XH)))))))))))))))))), NSM) :: ((((Npos (XO (XO (XI (XI (XI (XO (XI (XO
    (XO (XI (XO (XI (XI (XO (XO (XO XH))))))))))))))))), (Npos (XI (XO (XO
    (XI (XO (XO (XO (XI (XO (XI (XO (XI (XI (XO (XO (XO XH)))))))))))))))))),
    L) :: ((((Npos (XO (XI (XO (XI (XO (XO (XO (XI (XO (XI (XO (XI (XI (XO
    (XO (XO XH))))))))))))))))), (Npos (XO (XI (XI (XO (XI (XO (XO (XI (XO
    (XI (XO (XI (XI (XO (XO (XO XH)))))))))))))))))), NSM) :: ((((Npos (XI
    (XI (XI (XO (XI (XO (XO (XI (XO (XI (XO (XI (XI (XO (XO (XO
    XH))))))))))))))))), (Npos (XI (XI (XI (XO (XI (XO (XO (XI (XO (XI (XO
    (XI (XI (XO (XO (XO XH)))))))))))))))))), L) :: ((((Npos (XO (XO (XO (XI
    (XI (XO (XO (XI (XO (XI (XO (XI (XI (XO (XO (XO XH))))))))))))))))),
    (Npos (XI (XO (XO (XI (XI (XO (XO (XI (XO (XI (XO (XI (XI (XO (XO (XO
    XH)))))))))))))))))), NSM) :: ((((Npos (XO (XI (XO (XI (XI (XO (XO (XI
    (XO (XI (XO (XI (XI (XO (XO (XO XH))))))))))))))))), (Npos (XO (XI (XO
    (XO (XO (XI (XO (XI (XO (XI (XO (XI (XI (XO (XO (XO XH)))))))))))))))))),
    L) :: ((((Npos (XO (XO (XO (XO (XI (XI (XO (XI (XO (XI (XO (XI (XI (XO
    (XO (XO XH))))))))))))))))), (Npos (XO (XO (XO (XI (XI (XI (XI (XI (XO
    (XI (XO (XI (XI (XO (XO (XO XH)))))))))))))))))), L) :: ((((Npos (XO (XO
    (XO (XO (XO (XO (XO (XO (XI (XI (XO (XI (XI (XO (XO (XO
    XH))))))))))))))))), (Npos (XI (XO (XO (XI (XO (XO (XO (XO (XI (XI (XO
    (XI (XI (XO (XO (XO XH)))))))))))))))))), L) :: ((((Npos (XO (XO (XO (XO
    (XO (XO (XI (XI (XI (XI (XO (XI (XI (XO (XO (XO XH))))))))))))))))),
    (Npos (XI (XO (XO (XO (XO (XI (XI (XI (XI (XI (XO (XI (XI (XO (XO (XO
    XH)))))))))))))))))), L) :: ((((Npos (XO (XO (XO (XO (XI (XI (XI (XI (XI
    (XI (XO (XI (XI (XO (XO (XO XH))))))))))))))))), (Npos (XI (XO (XO (XI
    (XI (XI (XI (XI (XI (XI (XO (XI (XI (XO (XO (XO XH)))))))))))))))))),
    L) :: ((((Npos (XO (XO (XO (XO (XO (XO (XO (XO (XO (XO (XI (XI (XI (XO
    (XO (XO XH))))))))))))))))), (Npos (XO (XO (XO (XI (XO (XO (XO (XO (XO
    (XO (XI (XI (XI (XO (XO (XO XH)))))))))))))))))), L) :: ((((Npos (XO (XI
    (XO (XI (XO (XO (XO (XO (XO (XO (XI (XI (XI (XO (XO (XO
    XH))))))))))))))))), (Npos (XI (XI (XI (XI (XO (XI (XO (XO (XO (XO (XI
    (XI (XI (XO (XO (XO XH)))))))))))))))))), L) :: ((((Npos (XO (XO (XO (XO
    (XI (XI (XO (XO (XO (XO (XI (XI (XI (XO (XO (XO XH))))))))))))))))),
    (Npos (XO (XI (XI (XO (XI (XI (XO (XO (XO (XO (XI (XI (XI (XO (XO (XO
    XH)))))))))))))))))), NSM) :: ((((Npos (XO (XO (XO (XI (XI (XI (XO (XO
    (XO (XO (XI (XI (XI (XO (XO (XO XH))))))))))))))))), (Npos (XI (XO (XI
    (XI (XI (XI (XO (XO (XO (XO (XI (XI (XI (XO (XO (XO XH)))))))))))))))))),
    NSM) :: ((((Npos (XO (XI (XI (XI (XI (XI (XO (XO (XO (XO (XI (XI (XI (XO
    (XO (XO XH))))))))))))))))), (Npos (XI (XO (XI (XO (XO (XO (XI (XO (XO
    (XO (XI (XI (XI (XO (XO (XO XH)))))))))))))))))), L) :: ((((Npos (XO (XO
    (XO (XO (XI (XO (XI (XO (XO (XO (XI (XI (XI (XO (XO (XO
    XH))))))))))))))))), (Npos (XO (XO (XI (XI (XO (XI (XI (XO (XO (XO (XI
    (XI (XI (XO (XO (XO XH)))))))))))))))))), L) :: ((((Npos (XO (XO (XO (XO
    (XI (XI (XI (XO (XO (XO (XI (XI (XI (XO (XO (XO XH))))))))))))))))),
    (Npos (XI (XI (XI (XI (XO (XO (XO (XI (XO (XO (XI (XI (XI (XO (XO (XO
    XH)))))))))))))))))), L) :: ((((Npos (XO (XI (XO (XO (XI (XO (XO (XI (XO
    (XO (XI (XI (XI (XO (XO (XO XH))))))))))))))))), (Npos (XI (XI (XI (XO
    (XO (XI (XO (XI (XO (XO (XI (XI (XI (XO (XO (XO XH)))))))))))))))))),
    NSM) :: ((((Npos (XI (XO (XO (XI (XO (XI (XO (XI (XO (XO (XI (XI (XI (XO
    (XO (XO XH))))))))))))))))), (Npos (XI (XO (XO (XI (XO (XI (XO (XI (XO
    (XO (XI (XI (XI (XO (XO (XO XH)))))))))))))))))), L) :: ((((Npos (XO (XI
    (XO (XI (XO (XI (XO (XI (XO (XO (XI (XI (XI (XO (XO (XO
    XH))))))))))))))))), (Npos (XO (XO (XO (XO (XI (XI (XO (XI (XO (XO (XI
    (XI (XI (XO (XO (XO XH)))))))))))))))))), NSM) :: ((((Npos (XI (XO (XO
    (XO (XI (XI (XO (XI (XO (XO (XI (XI (XI (XO (XO (XO XH))))))))))))))))),
    (Npos (XI (XO (XO (XO (XI (XI (XO (XI (XO (XO (XI (XI (XI (XO (XO (XO
    XH)))))))))))))))))), L) :: ((((Npos (XO (XI (XO (XO (XI (XI (XO (XI (XO
    (XO (XI (XI (XI (XO (XO (XO XH))))))))))))))))), (Npos (XI (XI (XO (XO
    (XI (XI (XO (XI (XO (XO (XI (XI (XI (XO (XO (XO XH)))))))))))))))))),
    NSM) :: ((((Npos (XO (XO (XI (XO (XI (XI (XO (XI (XO (XO (XI (XI (XI (XO
    (XO (XO XH))))))))))))))))), (Npos (XO (XO (XI (XO (XI (XI (XO (XI (XO
    (XO (XI (XI (XI (XO (XO (XO XH)))))))))))))))))), L) :: ((((Npos (XI (XO
    (XI (XO (XI (XI (XO (XI (XO (XO (XI (XI (XI (XO (XO (XO
    XH))))))))))))))))), (Npos (XO (XI (XI (XO (XI (XI (XO (XI (XO (XO (XI
    (XI (XI (XO (XO (XO XH)))))))))))))))))), NSM) :: ((((Npos (XO (XO (XO
    (XO (XO (XO (XO (XO (XI (XO (XI (XI (XI (XO (XO (XO XH))))))))))))))))),
    (Npos (XO (XI (XI (XO (XO (XO (XO (XO (XI (XO (XI (XI (XI (XO (XO (XO
    XH)))))))))))))))))), L) :: ((((Npos (XO (XO (XO (XI (XO (XO (XO (XO (XI
    (XO (XI (XI (XI (XO (XO (XO XH))))))))))))))))), (Npos (XI (XO (XO (XI
    (XO (XO (XO (XO (XI (XO (XI (XI (XI (XO (XO (XO XH)))))))))))))))))),
    L) :: ((((Npos (XI (XI (XO (XI (XO (XO (XO (XO (XI (XO (XI (XI (XI (XO
    (XO (XO XH))))))))))))))))), (Npos (XO (XO (XO (XO (XI (XI (XO (XO (XI
    (XO (XI (XI (XI (XO (XO (XO XH)))))))))))))))))), L) :: ((((Npos (XI (XO
    (XO (XO (XI (XI (XO (XO (XI (XO (XI (XI (XI (XO (XO (XO
    XH))))))))))))))))), (Npos (XO (XI (XI (XO (XI (XI (XO (XO (XI (XO (XI
    (XI (XI (XO (XO (XO XH)))))))))))))))))), NSM) :: ((((Npos (XO (XI (XO
    (XI (XI (XI (XO (XO (XI (XO (XI (XI (XI (XO (XO (XO XH))))))))))))))))),
    (Npos (XO (XI (XO (XI (XI (XI (XO (XO (XI (XO (XI (XI (XI (XO (XO (XO
    XH)))))))))))))))))), NSM) :: ((((Npos (XO (XO (XI (XI (XI (XI (XO (XO
    (XI (XO (XI (XI (XI (XO (XO (XO XH))))))))))))))))), (Npos (XI (XO (XI
    (XI (XI (XI (XO (XO (XI (XO (XI (XI (XI (XO (XO (XO XH)))))))))))))))))),
    NSM) :: ((((Npos (XI (XI (XI (XI (XI (XI (XO (XO (XI (XO (XI (XI (XI (XO
    (XO (XO XH))))))))))))))))), (Npos (XI (XO (XI (XO (XO (XO (XI (XO (XI
    (XO (XI (XI (XI (XO (XO (XO XH)))))))))))))))))), NSM) :: ((((Npos (XO
    (XI (XI (XO (XO (XO (XI (XO (XI (XO (XI (XI (XI (XO (XO (XO
    XH))))))))))))))))), (Npos (XO (XI (XI (XO (XO (XO (XI (XO (XI (XO (XI
    (XI (XI (XO (XO (XO XH)))))))))))))))))), L) :: ((((Npos (XI (XI (XI (XO
    (XO (XO (XI (XO (XI (XO (XI (XI (XI (XO (XO (XO XH))))))))))))))))),
    (Npos (XI (XI (XI (XO (XO (XO (XI (XO (XI (XO (XI (XI (XI (XO (XO (XO
    XH)))))))))))))))))), NSM) :: ((((Npos (XO (XO (XO (XO (XI (XO (XI (XO
    (XI (XO (XI (XI (XI (XO (XO (XO XH))))))))))))))))), (Npos (XI (XO (XO
    (XI (XI (XO (XI (XO (XI (XO (XI (XI (XI (XO (XO (XO XH)))))))))))))))))),
    L) :: ((((Npos (XO (XO (XO (XO (XO (XI (XI (XO (XI (XO (XI (XI (XI (XO
    (XO (XO XH))))))))))))))))), (Npos (XI (XO (XI (XO (XO (XI (XI (XO (XI
    (XO (XI (XI (XI (XO (XO (XO XH)))))))))))))))))), L) :: ((((Npos (XI (XI
    (XI (XO (XO (XI (XI (XO (XI (XO (XI (XI (XI (XO (XO (XO
    XH))))))))))))))))), (Npos (XO (XO (XO (XI (XO (XI (XI (XO (XI (XO (XI
    (XI (XI (XO (XO (XO XH)))))))))))))))))), L) :: ((((Npos (XO (XI (XO (XI
    (XO (XI (XI (XO (XI (XO (XI (XI (XI (XO (XO (XO XH))))))))))))))))),
    (Npos (XO (XI (XI (XI (XO (XO (XO (XI (XI (XO (XI (XI (XI (XO (XO (XO
    XH)))))))))))))))))), L) :: ((((Npos (XO (XO (XO (XO (XI (XO (XO (XI (XI
    (XO (XI (XI (XI (XO (XO (XO XH))))))))))))))))), (Npos (XI (XO (XO (XO
    (XI (XO (XO (XI (XI (XO (XI (XI (XI (XO (XO (XO XH)))))))))))))))))),
    NSM) :: ((((Npos (XI (XI (XO (XO (XI (XO (XO (XI (XI (XO (XI (XI (XI (XO
    (XO (XO XH))))))))))))))))), (Npos (XO (XO (XI (XO (XI (XO (XO (XI (XI
    (XO (XI (XI (XI (XO (XO (XO XH)))))))))))))))))), L) :: ((((Npos (XI (XO
    (XI (XO (XI (XO (XO (XI (XI (XO (XI (XI (XI (XO (XO (XO
    XH))))))))))))))))), (Npos (XI (XO (XI (XO (XI (XO (XO (XI (XI (XO (XI
    (XI (XI (XO (XO (XO XH)))))))))))))))))), NSM) :: ((((Npos (XO (XI (XI
    (XO (XI (XO (XO (XI (XI (XO (XI (XI (XI (XO (XO (XO XH))))))))))))))))),
    (Npos (XO (XI (XI (XO (XI (XO (XO (XI (XI (XO (XI (XI (XI (XO (XO (XO
    XH)))))))))))))))))), L) :: ((((Npos (XI (XI (XI (XO (XI (XO (XO (XI (XI
    (XO (XI (XI (XI (XO (XO (XO XH))))))))))))))))), (Npos (XI (XI (XI (XO
    (XI (XO (XO (XI (XI (XO (XI (XI (XI (XO (XO (XO XH)))))))))))))))))),
    NSM) :: ((((Npos (XO (XO (XO (XI (XI (XO (XO (XI (XI (XO (XI (XI (XI (XO
    (XO (XO XH))))))))))))))))), (Npos (XO (XO (XO (XI (XI (XO (XO (XI (XI
    (XO (XI (XI (XI (XO (XO (XO XH)))))))))))))))))), L) :: ((((Npos (XO (XO
    (XO (XO (XO (XI (XO (XI (XI (XO (XI (XI (XI (XO (XO (XO
    XH))))))))))))))))), (Npos (XI (XO (XO (XI (XO (XI (XO (XI (XI (XO (XI
    (XI (XI (XO (XO (XO XH)))))))))))))))))), L) :: ((((Npos (XO (XO (XO (XO
    (XO (XI (XI (XI (XO (XI (XI (XI (XI (XO (XO (XO XH))))))))))))))))),
    (Npos (XO (XI (XO (XO (XI (XI (XI (XI (XO (XI (XI (XI (XI (XO (XO (XO
    XH)))))))))))))))))), L) :: ((((Npos (XI (XI (XO (XO (XI (XI (XI (XI (XO
    (XI (XI (XI (XI (XO (XO (XO XH))))))))))))))))), (Npos (XO (XO (XI (XO
    (XI (XI (XI (XI (XO (XI (XI (XI (XI (XO (XO (XO XH)))))))))))))))))),
    NSM) :: ((((Npos (XI (XO (XI (XO (XI (XI (XI (XI (XO (XI (XI (XI (XI (XO
    (XO (XO XH))))))))))))))))), (Npos (XO (XO (XO (XI (XI (XI (XI (XI (XO
    (XI (XI (XI (XI (XO (XO (XO XH)))))))))))))))))), L) :: ((((Npos (XO (XO
    (XO (XO (XO (XO (XO (XO (XI (XI (XI (XI (XI (XO (XO (XO
    XH))))))))))))))))), (Npos (XI (XO (XO (XO (XO (XO (XO (XO (XI (XI (XI
    (XI (XI (XO (XO (XO XH)))))))))))))))))), NSM) :: ((((Npos (XO (XI (XO
    (XO (XO (XO (XO (XO (XI (XI (XI (XI (XI (XO (XO (XO XH))))))))))))))))),
    (Npos (XO (XO (XO (XO (XI (XO (XO (XO (XI (XI (XI (XI (XI (XO (XO (XO
    XH)))))))))))))))))), L) :: ((((Npos (XO (XI (XO (XO (XI (XO (XO (XO (XI
    (XI (XI (XI (XI (XO (XO (XO XH))))))))))))))))), (Npos (XI (XO (XI (XO
    (XI (XI (XO (XO (XI (XI (XI (XI (XI (XO (XO (XO XH)))))))))))))))))),
    L) :: ((((Npos (XO (XI (XI (XO (XI (XI (XO (XO (XI (XI (XI (XI (XI (XO
    (XO (XO XH))))))))))))))))), (Npos (XO (XI (XO (XI (XI (XI (XO (XO (XI
    (XI (XI (XI (XI (XO (XO (XO XH)))))))))))))))))), NSM) :: ((((Npos (XO
    (XI (XI (XI (XI (XI (XO (XO (XI (XI (XI (XI (XI (XO (XO (XO
    XH))))))))))))))))), (Npos (XI (XI (XI (XI (XI (XI (XO (XO (XI (XI (XI
    (XI (XI (XO (XO (XO XH)))))))))))))))))), L) :: ((((Npos (XO (XO (XO (XO
    (XO (XO (XI (XO (XI (XI (XI (XI (XI (XO (XO (XO XH))))))))))))))))),
    (Npos (XO (XO (XO (XO (XO (XO (XI (XO (XI (XI (XI (XI (XI (XO (XO (XO
    XH)))))))))))))))))), NSM) :: ((((Npos (XI (XO (XO (XO (XO (XO (XI (XO
    (XI (XI (XI (XI (XI (XO (XO (XO XH))))))))))))))))), (Npos (XI (XO (XO
    (XO (XO (XO (XI (XO (XI (XI (XI (XI (XI (XO (XO (XO XH)))))))))))))))))),
    L) :: ((((Npos (XO (XI (XO (XO (XO (XO (XI (XO (XI (XI (XI (XI (XI (XO
    (XO (XO XH))))))))))))))))), (Npos (XO (XI (XO (XO (XO (XO (XI (XO (XI
    (XI (XI (XI (XI (XO (XO (XO XH)))))))))))))))))), NSM) :: ((((Npos (XI
    (XI (XO (XO (XO (XO (XI (XO (XI (XI (XI (XI (XI (XO (XO (XO
    XH))))))))))))))))), (Npos (XI (XO (XO (XI (XI (XO (XI (XO (XI (XI (XI
    (XI (XI (XO (XO (XO XH)))))))))))))))))), L) :: ((((Npos (XO (XI (XO (XI
    (XI (XO (XI (XO (XI (XI (XI (XI (XI (XO (XO (XO XH))))))))))))))))),
    (Npos (XO (XI (XO (XI (XI (XO (XI (XO (XI (XI (XI (XI (XI (XO (XO (XO
    XH)))))))))))))))))), NSM) :: ((((Npos (XO (XO (XO (XO (XI (XI (XO (XI
    (XI (XI (XI (XI (XI (XO (XO (XO XH))))))))))))))))), (Npos (XO (XO (XO
    (XO (XI (XI (XO (XI (XI (XI (XI (XI (XI (XO (XO (XO XH)))))))))))))))))),
    L) :: ((((Npos (XO (XO (XO (XO (XO (XO (XI (XI (XI (XI (XI (XI (XI (XO
    (XO (XO XH))))))))))))))))), (Npos (XO (XO (XI (XO (XI (XO (XI (XI (XI
    (XI (XI (XI (XI (XO (XO (XO XH)))))))))))))))))), L) :: ((((Npos (XI (XO
    (XI (XO (XI (XO (XI (XI (XI (XI (XI (XI (XI (XO (XO (XO
    XH))))))))))))))))), (Npos (XO (XO (XI (XI (XI (XO (XI (XI (XI (XI (XI
    (XI (XI (XO (XO (XO XH)))))))))))))))))), ON) :: ((((Npos (XI (XO (XI (XI
    (XI (XO (XI (XI (XI (XI (XI (XI (XI (XO (XO (XO XH))))))))))))))))),
    (Npos (XO (XO (XO (XO (XO (XI (XI (XI (XI (XI (XI (XI (XI (XO (XO (XO
    XH)))))))))))))))))), ET) :: ((((Npos (XI (XO (XO (XO (XO (XI (XI (XI (XI
    (XI (XI (XI (XI (XO (XO (XO XH))))))))))))))))), (Npos (XI (XO (XO (XO
    (XI (XI (XI (XI (XI (XI (XI (XI (XI (XO (XO (XO XH)))))))))))))))))),
    ON) :: ((((Npos (XI (XI (XI (XI (XI (XI (XI (XI (XI (XI (XI (XI (XI (XO
    (XO (XO XH))))))))))))))))), (Npos (XI (XO (XO (XI (XI (XO (XO (XI (XI
    (XI (XO (XO (XO (XI (XO (XO XH)))))))))))))))))), L) :: ((((Npos (XO (XO
    (XO (XO (XO (XO (XO (XO (XO (XO (XI (XO (XO (XI (XO (XO
    XH))))))))))))))))), (Npos (XO (XI (XI (XI (XO (XI (XI (XO (XO (XO (XI
    (XO (XO (XI (XO (XO XH)))))))))))))))))), L) :: ((((Npos (XO (XO (XO (XO
    (XI (XI (XI (XO (XO (XO (XI (XO (XO (XI (XO (XO XH))))))))))))))))),
    (Npos (XO (XO (XI (XO (XI (XI (XI (XO (XO (XO (XI (XO (XO (XI (XO (XO
    XH)))))))))))))))))), L) :: ((((Npos (XO (XO (XO (XO (XO (XO (XO (XI (XO
    (XO (XI (XO (XO (XI (XO (XO XH))))))))))))))))), (Npos (XI (XI (XO (XO
    (XO (XO (XI (XO (XI (XO (XI (XO (XO (XI (XO (XO XH)))))))))))))))))),
    L) :: ((((Npos (XO (XO (XO (XO (XI (XO (XO (XI (XI (XI (XI (XI (XO (XI
    (XO (XO XH))))))))))))))))), (Npos (XO (XI (XO (XO (XI (XI (XI (XI (XI
    (XI (XI (XI (XO (XI (XO (XO XH)))))))))))))))))), L) :: ((((Npos (XO (XO
    (XO (XO (XO (XO (XO (XO (XO (XO (XO (XO (XI (XI (XO (XO
    XH))))))))))))))))), (Npos (XI (XI (XI (XI (XI (XI (XO (XO (XO (XO (XI
    (XO (XI (XI (XO (XO XH)))))))))))))))))), L) :: ((((Npos (XO (XO (XO (XO
    (XO (XO (XI (XO (XO (XO (XI (XO (XI (XI (XO (XO XH))))))))))))))))),
    (Npos (XO (XO (XO (XO (XO (XO (XI (XO (XO (XO (XI (XO (XI (XI (XO (XO
    XH)))))))))))))))))), NSM) :: ((((Npos (XI (XO (XO (XO (XO (XO (XI (XO
    (XO (XO (XI (XO (XI (XI (XO (XO XH))))))))))))))))), (Npos (XO (XI (XI
    (XO (XO (XO (XI (XO (XO (XO (XI (XO (XI (XI (XO (XO XH)))))))))))))))))),
    L) :: ((((Npos (XI (XI (XI (XO (XO (XO (XI (XO (XO (XO (XI (XO (XI (XI
    (XO (XO XH))))))))))))))))), (Npos (XI (XO (XI (XO (XI (XO (XI (XO (XO
    (XO (XI (XO (XI (XI (XO (XO XH)))))))))))))))))), NSM) :: ((((Npos (XO
    (XO (XO (XO (XO (XI (XI (XO (XO (XO (XI (XO (XI (XI (XO (XO
    XH))))))))))))))))), (Npos (XO (XI (XO (XI (XI (XI (XI (XI (XI (XI (XO
    (XO (XO (XO (XI (XO XH)))))))))))))))))), L) :: ((((Npos (XO (XO (XO (XO
    (XO (XO (XO (XO (XO (XO (XI (XO (XO (XO (XI (XO XH))))))))))))))))),
    (Npos (XO (XI (XI (XO (XO (XO (XI (XO (XO (XI (XI (XO (XO (XO (XI (XO
    XH)))))))))))))))))), L) :: ((((Npos (XO (XO (XO (XO (XO (XO (XO (XO (XI
    (XO (XO (XO (XO (XI (XI (XO XH))))))))))))))))), (Npos (XI (XO (XI (XI
    (XI (XO (XO (XO (XI (XO (XO (XO (XO (XI (XI (XO XH)))))))))))))))))),
    L) :: ((((Npos (XO (XI (XI (XI (XI (XO (XO (XO (XI (XO (XO (XO (XO (XI
    (XI (XO XH))))))))))))))))), (Npos (XI (XO (XO (XI (XO (XI (XO (XO (XI
    (XO (XO (XO (XO (XI (XI (XO XH)))))))))))))))))), NSM) :: ((((Npos (XO
    (XI (XO (XI (XO (XI (XO (XO (XI (XO (XO (XO (XO (XI (XI (XO
    XH))))))))))))))))), (Npos (XO (XO (XI (XI (XO (XI (XO (XO (XI (XO (XO
    (XO (XO (XI (XI (XO XH)))))))))))))))))), L) :: ((((Npos (XI (XO (XI (XI
    (XO (XI (XO (XO (XI (XO (XO (XO (XO (XI (XI (XO XH))))))))))))))))),
    (Npos (XI (XI (XI (XI (XO (XI (XO (XO (XI (XO (XO (XO (XO (XI (XI (XO
    XH)))))))))))))))))), NSM) :: ((((Npos (XO (XO (XO (XO (XI (XI (XO (XO
    (XI (XO (XO (XO (XO (XI (XI (XO XH))))))))))))))))), (Npos (XI (XO (XO
    (XI (XI (XI (XO (XO (XI (XO (XO (XO (XO (XI (XI (XO XH)))))))))))))))))),
    L) :: ((((Npos (XO (XO (XO (XO (XO (XO (XO (XO (XO (XO (XO (XI (XO (XI
    (XI (XO XH))))))))))))))))), (Npos (XO (XO (XO (XI (XI (XI (XO (XO (XO
    (XI (XO (XI (XO (XI (XI (XO XH)))))))))))))))))), L) :: ((((Npos (XO (XO
    (XO (XO (XO (XO (XI (XO (XO (XI (XO (XI (XO (XI (XI (XO
    XH))))))))))))))))), (Npos (XO (XI (XI (XI (XI (XO (XI (XO (XO (XI (XO
    (XI (XO (XI (XI (XO XH)))))))))))))))))), L) :: ((((Npos (XO (XO (XO (XO
    (XO (XI (XI (XO (XO (XI (XO (XI (XO (XI (XI (XO XH))))))))))))))))),
    (Npos (XI (XO (XO (XI (XO (XI (XI (XO (XO (XI (XO (XI (XO (XI (XI (XO
    XH)))))))))))))))))), L) :: ((((Npos (XO (XI (XI (XI (XO (XI (XI (XO (XO
    (XI (XO (XI (XO (XI (XI (XO XH))))))))))))))))), (Npos (XO (XI (XI (XI
    (XI (XI (XO (XI (XO (XI (XO (XI (XO (XI (XI (XO XH)))))))))))))))))),
    L) :: ((((Npos (XO (XO (XO (XO (XO (XO (XI (XI (XO (XI (XO (XI (XO (XI
    (XI (XO XH))))))))))))))))), (Npos (XI (XO (XO (XI (XO (XO (XI (XI (XO
    (XI (XO (XI (XO (XI (XI (XO XH)))))))))))))))))), L) :: ((((Npos (XO (XO
    (XO (XO (XI (XO (XI (XI (XO (XI (XO (XI (XO (XI (XI (XO
    XH))))))))))))))))), (Npos (XI (XO (XI (XI (XO (XI (XI (XI (XO (XI (XO
    (XI (XO (XI (XI (XO XH)))))))))))))))))), L) :: ((((Npos (XO (XO (XO (XO
    (XI (XI (XI (XI (XO (XI (XO (XI (XO (XI (XI (XO XH))))))))))))))))),
    (Npos (XO (XO (XI (XO (XI (XI (XI (XI (XO (XI (XO (XI (XO (XI (XI (XO
    XH)))))))))))))))))), NSM) :: ((((Npos (XI (XO (XI (XO (XI (XI (XI (XI
    (XO (XI (XO (XI (XO (XI (XI (XO XH))))))))))))))))), (Npos (XI (XO (XI
    (XO (XI (XI (XI (XI (XO (XI (XO (XI (XO (XI (XI (XO XH)))))))))))))))))),
    L) :: ((((Npos (XO (XO (XO (XO (XO (XO (XO (XO (XI (XI (XO (XI (XO (XI
    (XI (XO XH))))))))))))))))), (Npos (XI (XI (XI (XI (XO (XI (XO (XO (XI
    (XI (XO (XI (XO (XI (XI (XO XH)))))))))))))))))), L) :: ((((Npos (XO (XO
    (XO (XO (XI (XI (XO (XO (XI (XI (XO (XI (XO (XI (XI (XO
    XH))))))))))))))))), (Npos (XO (XI (XI (XO (XI (XI (XO (XO (XI (XI (XO
    (XI (XO (XI (XI (XO XH)))))))))))))))))), NSM) :: ((((Npos (XI (XI (XI
    (XO (XI (XI (XO (XO (XI (XI (XO (XI (XO (XI (XI (XO XH))))))))))))))))),
    (Npos (XI (XO (XI (XO (XO (XO (XI (XO (XI (XI (XO (XI (XO (XI (XI (XO
    XH)))))))))))))))))), L) :: ((((Npos (XO (XO (XO (XO (XI (XO (XI (XO (XI
    (XI (XO (XI (XO (XI (XI (XO XH))))))))))))))))), (Npos (XI (XO (XO (XI
    (XI (XO (XI (XO (XI (XI (XO (XI (XO (XI (XI (XO XH)))))))))))))))))),
    L) :: ((((Npos (XI (XI (XO (XI (XI (XO (XI (XO (XI (XI (XO (XI (XO (XI
    (XI (XO XH))))))))))))))))), (Npos (XI (XO (XO (XO (XO (XI (XI (XO (XI
    (XI (XO (XI (XO (XI (XI (XO XH)))))))))))))))))), L) :: ((((Npos (XI (XI
    (XO (XO (XO (XI (XI (XO (XI (XI (XO (XI (XO (XI (XI (XO
    XH))))))))))))))))), (Npos (XI (XI (XI (XO (XI (XI (XI (XO (XI (XI (XO
    (XI (XO (XI (XI (XO XH)))))))))))))))))), L) :: ((((Npos (XI (XO (XI (XI
    (XI (XI (XI (XO (XI (XI (XO (XI (XO (XI (XI (XO XH))))))))))))))))),
    (Npos (XI (XI (XI (XI (XO (XO (XO (XI (XI (XI (XO (XI (XO (XI (XI (XO
    XH)))))))))))))))))), L) :: ((((Npos (XO (XO (XO (XO (XO (XO (XI (XO (XI
    (XO (XI (XI (XO (XI (XI (XO XH))))))))))))))))), (Npos (XI (XO (XO (XI
    (XI (XI (XI (XO (XI (XO (XI (XI (XO (XI (XI (XO XH)))))))))))))))))),
    L) :: ((((Npos (XO (XO (XO (XO (XO (XO (XI (XO (XO (XI (XI (XI (XO (XI
    (XI (XO XH))))))))))))))))), (Npos (XO (XI (XO (XI (XI (XO (XO (XI (XO
    (XI (XI (XI (XO (XI (XI (XO XH)))))))))))))))))), L) :: ((((Npos (XO (XO
    (XO (XO (XO (XO (XO (XO (XI (XI (XI (XI (XO (XI (XI (XO
    XH))))))))))))))))), (Npos (XO (XI (XO (XI (XO (XO (XI (XO (XI (XI (XI
    (XI (XO (XI (XI (XO XH)))))))))))))))))), L) :: ((((Npos (XI (XI (XI (XI
    (XO (XO (XI (XO (XI (XI (XI (XI (XO (XI (XI (XO XH))))))))))))))))),
    (Npos (XI (XI (XI (XI (XO (XO (XI (XO (XI (XI (XI (XI (XO (XI (XI (XO
    XH)))))))))))))))))), NSM) :: ((((Npos (XO (XO (XO (XO (XI (XO (XI (XO
    (XI (XI (XI (XI (XO (XI (XI (XO XH))))))))))))))))), (Npos (XI (XI (XI
    (XO (XO (XO (XO (XI (XI (XI (XI (XI (XO (XI (XI (XO XH)))))))))))))))))),
    L) :: ((((Npos (XI (XI (XI (XI (XO (XO (XO (XI (XI (XI (XI (XI (XO (XI
    (XI (XO XH))))))))))))))))), (Npos (XO (XI (XO (XO (XI (XO (XO (XI (XI
    (XI (XI (XI (XO (XI (XI (XO XH)))))))))))))))))), NSM) :: ((((Npos (XI
    (XI (XO (XO (XI (XO (XO (XI (XI (XI (XI (XI (XO (XI (XI (XO
    XH))))))))))))))))), (Npos (XI (XI (XI (XI (XI (XO (XO (XI (XI (XI (XI
    (XI (XO (XI (XI (XO XH)))))))))))))))))), L) :: ((((Npos (XO (XO (XO (XO
    (XO (XI (XI (XI (XI (XI (XI (XI (XO (XI (XI (XO XH))))))))))))))))),
    (Npos (XI (XO (XO (XO (XO (XI (XI (XI (XI (XI (XI (XI (XO (XI (XI (XO
    XH)))))))))))))))))), L) :: ((((Npos (XO (XI (XO (XO (XO (XI (XI (XI (XI
    (XI (XI (XI (XO (XI (XI (XO XH))))))))))))))))), (Npos (XO (XI (XO (XO
    (XO (XI (XI (XI (XI (XI (XI (XI (XO (XI (XI (XO XH)))))))))))))))))),
    ON) :: ((((Npos (XI (XI (XO (XO (XO (XI (XI (XI (XI (XI (XI (XI (XO (XI
    (XI (XO XH))))))))))))))))), (Npos (XI (XI (XO (XO (XO (XI (XI (XI (XI
    (XI (XI (XI (XO (XI (XI (XO XH)))))))))))))))))), L) :: ((((Npos (XO (XO
    (XI (XO (XO (XI (XI (XI (XI (XI (XI (XI (XO (XI (XI (XO
    XH))))))))))))))))), (Npos (XO (XO (XI (XO (XO (XI (XI (XI (XI (XI (XI
    (XI (XO (XI (XI (XO XH)))))))))))))))))), NSM) :: ((((Npos (XO (XO (XO
    (XO (XI (XI (XI (XI (XI (XI (XI (XI (XO (XI (XI (XO XH))))))))))))))))),
    (Npos (XI (XO (XO (XO (XI (XI (XI (XI (XI (XI (XI (XI (XO (XI (XI (XO
    XH)))))))))))))))))), L) :: ((((Npos (XO (XO (XO (XO (XO (XO (XO (XO (XO
    (XO (XO (XO (XI (XI (XI (XO XH))))))))))))))))), (Npos (XI (XI (XI (XO
    (XI (XI (XI (XI (XI (XI (XI (XO (XO (XO (XO (XI XH)))))))))))))))))),
    L) :: ((((Npos (XO (XO (XO (XO (XO (XO (XO (XO (XO (XO (XO (XI (XO (XO
    (XO (XI XH))))))))))))))))), (Npos (XI (XO (XI (XO (XI (XO (XI (XI (XO
    (XO (XI (XI (XO (XO (XO (XI XH)))))))))))))))))), L) :: ((((Npos (XI (XI
    (XI (XI (XI (XI (XI (XI (XO (XO (XI (XI (XO (XO (XO (XI
    XH))))))))))))))))), (Npos (XO (XO (XO (XI (XO (XO (XO (XO (XI (XO (XI
    (XI (XO (XO (XO (XI XH)))))))))))))))))), L) :: ((((Npos (XO (XO (XO (XO
    (XI (XI (XI (XI (XI (XI (XI (XI (XO (XI (XO (XI XH))))))))))))))))),
    (Npos (XI (XI (XO (XO (XI (XI (XI (XI (XI (XI (XI (XI (XO (XI (XO (XI
    XH)))))))))))))))))), L) :: ((((Npos (XI (XO (XI (XO (XI (XI (XI (XI (XI
    (XI (XI (XI (XO (XI (XO (XI XH))))))))))))))))), (Npos (XI (XI (XO (XI
    (XI (XI (XI (XI (XI (XI (XI (XI (XO (XI (XO (XI XH)))))))))))))))))),
    L) :: ((((Npos (XI (XO (XI (XI (XI (XI (XI (XI (XI (XI (XI (XI (XO (XI
    (XO (XI XH))))))))))))))))), (Npos (XO (XI (XI (XI (XI (XI (XI (XI (XI
    (XI (XI (XI (XO (XI (XO (XI XH)))))))))))))))))), L) :: ((((Npos (XO (XO
    (XO (XO (XO (XO (XO (XO (XO (XO (XO (XO (XI (XI (XO (XI
    XH))))))))))))))))), (Npos (XO (XI (XO (XO (XO (XI (XO (XO (XI (XO (XO
    (XO (XI (XI (XO (XI XH)))))))))))))))))), L) :: ((((Npos (XO (XI (XO (XO
    (XI (XI (XO (XO (XI (XO (XO (XO (XI (XI (XO (XI XH))))))))))))))))),
    (Npos (XO (XI (XO (XO (XI (XI (XO (XO (XI (XO (XO (XO (XI (XI (XO (XI
    XH)))))))))))))))))), L) :: ((((Npos (XO (XO (XO (XO (XI (XO (XI (XO (XI
    (XO (XO (XO (XI (XI (XO (XI XH))))))))))))))))), (Npos (XO (XI (XO (XO
    (XI (XO (XI (XO (XI (XO (XO (XO (XI (XI (XO (XI XH)))))))))))))))))),
    L) :: ((((Npos (XI (XO (XI (XO (XI (XO (XI (XO (XI (XO (XO (XO (XI (XI
    (XO (XI XH))))))))))))))))), (Npos (XI (XO (XI (XO (XI (XO (XI (XO (XI
    (XO (XO (XO (XI (XI (XO (XI XH)))))))))))))))))), L) :: ((((Npos (XO (XO
    (XI (XO (XO (XI (XI (XO (XI (XO (XO (XO (XI (XI (XO (XI
    XH))))))))))))))))), (Npos (XI (XI (XI (XO (XO (XI (XI (XO (XI (XO (XO
    (XO (XI (XI (XO (XI XH)))))))))))))))))), L) :: ((((Npos (XO (XO (XO (XO
    (XI (XI (XI (XO (XI (XO (XO (XO (XI (XI (XO (XI XH))))))))))))))))),
    (Npos (XI (XI (XO (XI (XI (XI (XI (XI (XO (XI (XO (XO (XI (XI (XO (XI
    XH)))))))))))))))))), L) :: ((((Npos (XO (XO (XO (XO (XO (XO (XO (XO (XO
    (XO (XI (XI (XI (XI (XO (XI XH))))))))))))))))), (Npos (XO (XI (XO (XI
    (XO (XI (XI (XO (XO (XO (XI (XI (XI (XI (XO (XI XH)))))))))))))))))),
    L) :: ((((Npos (XO (XO (XO (XO (XI (XI (XI (XO (XO (XO (XI (XI (XI (XI
    (XO (XI XH))))))))))))))))), (Npos (XO (XO (XI (XI (XI (XI (XI (XO (XO
    (XO (XI (XI (XI (XI (XO (XI XH)))))))))))))))))), L) :: ((((Npos (XO (XO
    (XO (XO (XO (XO (XO (XI (XO (XO (XI (XI (XI (XI (XO (XI
    XH))))))))))))))))), (Npos (XO (XO (XO (XI (XO (XO (XO (XI (XO (XO (XI
    (XI (XI (XI (XO (XI XH)))))))))))))))))), L) :: ((((Npos (XO (XO (XO (XO
    (XI (XO (XO (XI (XO (XO (XI (XI (XI (XI (XO (XI XH))))))))))))))))),
    (Npos (XI (XO (XO (XI (XI (XO (XO (XI (XO (XO (XI (XI (XI (XI (XO (XI
    XH)))))))))))))))))), L) :: ((((Npos (XO (XO (XI (XI (XI (XO (XO (XI (XO
    (XO (XI (XI (XI (XI (XO (XI XH))))))))))))))))), (Npos (XO (XO (XI (XI
    (XI (XO (XO (XI (XO (XO (XI (XI (XI (XI (XO (XI XH)))))))))))))))))),
    L) :: ((((Npos (XI (XO (XI (XI (XI (XO (XO (XI (XO (XO (XI (XI (XI (XI
    (XO (XI XH))))))))))))))))), (Npos (XO (XI (XI (XI (XI (XO (XO (XI (XO
    (XO (XI (XI (XI (XI (XO (XI XH)))))))))))))))))), NSM) :: ((((Npos (XI
    (XI (XI (XI (XI (XO (XO (XI (XO (XO (XI (XI (XI (XI (XO (XI
    XH))))))))))))))))), (Npos (XI (XI (XI (XI (XI (XO (XO (XI (XO (XO (XI
    (XI (XI (XI (XO (XI XH)))))))))))))))))), L) :: ((((Npos (XO (XO (XO (XO
    (XO (XI (XO (XI (XO (XO (XI (XI (XI (XI (XO (XI XH))))))))))))))))),
    (Npos (XI (XI (XO (XO (XO (XI (XO (XI (XO (XO (XI (XI (XI (XI (XO (XI
    XH)))))))))))))))))), BN) :: ((((Npos (XO (XO (XO (XO (XO (XO (XO (XO (XO
    (XO (XI (XI (XO (XO (XI (XI XH))))))))))))))))), (Npos (XI (XO (XI (XO
    (XI (XO (XI (XI (XO (XO (XI (XI (XO (XO (XI (XI XH)))))))))))))))))),
    ON) :: ((((Npos (XO (XI (XI (XO (XI (XO (XI (XI (XO (XO (XI (XI (XO (XO
    (XI (XI XH))))))))))))))))), (Npos (XI (XI (XI (XI (XO (XI (XI (XI (XO
    (XO (XI (XI (XO (XO (XI (XI XH)))))))))))))))))), L) :: ((((Npos (XO (XO
    (XO (XO (XI (XI (XI (XI (XO (XO (XI (XI (XO (XO (XI (XI
    XH))))))))))))))))), (Npos (XI (XO (XO (XI (XI (XI (XI (XI (XO (XO (XI
    (XI (XO (XO (XI (XI XH)))))))))))))))))), EN) :: ((((Npos (XO (XO (XO (XO
    (XO (XO (XO (XO (XI (XO (XI (XI (XO (XO (XI (XI XH))))))))))))))))),
    (Npos (XI (XI (XO (XO (XI (XI (XO (XI (XO (XI (XI (XI (XO (XO (XI (XI
    XH)))))))))))))))))), ON) :: ((((Npos (XO (XO (XO (XO (XO (XO (XO (XO (XI
    (XI (XI (XI (XO (XO (XI (XI XH))))))))))))))))), (Npos (XI (XO (XI (XI
    (XO (XI (XO (XO (XI (XI (XI (XI (XO (XO (XI (XI XH)))))))))))))))))),
    NSM) :: ((((Npos (XO (XO (XO (XO (XI (XI (XO (XO (XI (XI (XI (XI (XO (XO
    (XI (XI XH))))))))))))))))), (Npos (XO (XI (XI (XO (XO (XO (XI (XO (XI
    (XI (XI (XI (XO (XO (XI (XI XH)))))))))))))))))), NSM) :: ((((Npos (XO
    (XO (XO (XO (XI (XO (XI (XO (XI (XI (XI (XI (XO (XO (XI (XI
    XH))))))))))))))))), (Npos (XI (XI (XO (XO (XO (XO (XI (XI (XI (XI (XI
    (XI (XO (XO (XI (XI XH)))))))))))))))))), L) :: ((((Npos (XO (XO (XO (XO
    (XO (XO (XO (XO (XO (XO (XO (XO (XI (XO (XI (XI XH))))))))))))))))),
    (Npos (XI (XO (XI (XO (XI (XI (XI (XI (XO (XO (XO (XO (XI (XO (XI (XI
    XH)))))))))))))))))), L) :: ((((Npos (XO (XO (XO (XO (XO (XO (XO (XO (XI
    (XO (XO (XO (XI (XO (XI (XI XH))))))))))))))))), (Npos (XO (XI (XI (XO
    (XO (XI (XO (XO (XI (XO (XO (XO (XI (XO (XI (XI XH)))))))))))))))))),
    L) :: ((((Npos (XI (XO (XO (XI (XO (XI (XO (XO (XI (XO (XO (XO (XI (XO
    (XI (XI XH))))))))))))))))), (Npos (XO (XI (XI (XO (XO (XI (XI (XO (XI
    (XO (XO (XO (XI (XO (XI (XI XH)))))))))))))))))), L) :: ((((Npos (XI (XI
    (XI (XO (XO (XI (XI (XO (XI (XO (XO (XO (XI (XO (XI (XI
    XH))))))))))))))))), (Npos (XI (XO (XO (XI (XO (XI (XI (XO (XI (XO (XO
    (XO (XI (XO (XI (XI XH)))))))))))))))))), NSM) :: ((((Npos (XO (XI (XO
    (XI (XO (XI (XI (XO (XI (XO (XO (XO (XI (XO (XI (XI XH))))))))))))))))),
    (Npos (XO (XI (XO (XO (XI (XI (XI (XO (XI (XO (XO (XO (XI (XO (XI (XI
    XH)))))))))))))))))), L) :: ((((Npos (XI (XI (XO (XO (XI (XI (XI (XO (XI
    (XO (XO (XO (XI (XO (XI (XI XH))))))))))))))))), (Npos (XO (XI (XO (XI
    (XI (XI (XI (XO (XI (XO (XO (XO (XI (XO (XI (XI XH)))))))))))))))))),
    BN) :: ((((Npos (XI (XI (XO (XI (XI (XI (XI (XO (XI (XO (XO (XO (XI (XO
    (XI (XI XH))))))))))))))))), (Npos (XO (XI (XO (XO (XO (XO (XO (XI (XI
    (XO (XO (XO (XI (XO (XI (XI XH)))))))))))))))))), NSM) :: ((((Npos (XI
    (XI (XO (XO (XO (XO (XO (XI (XI (XO (XO (XO (XI (XO (XI (XI
    XH))))))))))))))))), (Npos (XO (XO (XI (XO (XO (XO (XO (XI (XI (XO (XO
    (XO (XI (XO (XI (XI XH)))))))))))))))))), L) :: ((((Npos (XI (XO (XI (XO
    (XO (XO (XO (XI (XI (XO (XO (XO (XI (XO (XI (XI XH))))))))))))))))),
    (Npos (XI (XI (XO (XI (XO (XO (XO (XI (XI (XO (XO (XO (XI (XO (XI (XI
    XH)))))))))))))))))), NSM) :: ((((Npos (XO (XO (XI (XI (XO (XO (XO (XI
    (XI (XO (XO (XO (XI (XO (XI (XI XH))))))))))))))))), (Npos (XI (XO (XO
    (XI (XO (XI (XO (XI (XI (XO (XO (XO (XI (XO (XI (XI XH)))))))))))))))))),
    L) :: ((((Npos (XO (XI (XO (XI (XO (XI (XO (XI (XI (XO (XO (XO (XI (XO
    (XI (XI XH))))))))))))))))), (Npos (XI (XO (XI (XI (XO (XI (XO (XI (XI
    (XO (XO (XO (XI (XO (XI (XI XH)))))))))))))))))), NSM) :: ((((Npos (XO
    (XI (XI (XI (XO (XI (XO (XI (XI (XO (XO (XO (XI (XO (XI (XI
    XH))))))))))))))))), (Npos (XO (XO (XO (XI (XO (XI (XI (XI (XI (XO (XO
    (XO (XI (XO (XI (XI XH)))))))))))))))))), L) :: ((((Npos (XI (XO (XO (XI
    (XO (XI (XI (XI (XI (XO (XO (XO (XI (XO (XI (XI XH))))))))))))))))),
    (Npos (XO (XI (XO (XI (XO (XI (XI (XI (XI (XO (XO (XO (XI (XO (XI (XI
    XH)))))))))))))))))), ON) :: ((((Npos (XO (XO (XO (XO (XO (XO (XO (XO (XO
    (XI (XO (XO (XI (XO (XI (XI XH))))))))))))))))), (Npos (XI (XO (XO (XO
    (XO (XO (XI (XO (XO (XI (XO (XO (XI (XO (XI (XI XH)))))))))))))))))),
    ON) :: ((((Npos (XO (XI (XO (XO (XO (XO (XI (XO (XO (XI (XO (XO (XI (XO
    (XI (XI XH))))))))))))))))), (Npos (XO (XO (XI (XO (XO (XO (XI (XO (XO
    (XI (XO (XO (XI (XO (XI (XI XH)))))))))))))))))), NSM) :: ((((Npos (XI
    (XO (XI (XO (XO (XO (XI (XO (XO (XI (XO (XO (XI (XO (XI (XI
    XH))))))))))))))))), (Npos (XI (XO (XI (XO (XO (XO (XI (XO (XO (XI (XO
    (XO (XI (XO (XI (XI XH)))))))))))))))))), ON) :: ((((Npos (XO (XO (XO (XO
    (XO (XO (XI (XI (XO (XI (XO (XO (XI (XO (XI (XI XH))))))))))))))))),
    (Npos (XI (XI (XO (XO (XI (XO (XI (XI (XO (XI (XO (XO (XI (XO (XI (XI
    XH)))))))))))))))))), L) :: ((((Npos (XO (XO (XO (XO (XO (XI (XI (XI (XO
    (XI (XO (XO (XI (XO (XI (XI XH))))))))))))))))), (Npos (XI (XI (XO (XO
    (XI (XI (XI (XI (XO (XI (XO (XO (XI (XO (XI (XI XH)))))))))))))))))),
    L) :: ((((Npos (XO (XO (XO (XO (XO (XO (XO (XO (XI (XI (XO (XO (XI (XO
    (XI (XI XH))))))))))))))))), (Npos (XO (XI (XI (XO (XI (XO (XI (XO (XI
    (XI (XO (XO (XI (XO (XI (XI XH)))))))))))))))))), ON) :: ((((Npos (XO (XO
    (XO (XO (XO (XI (XI (XO (XI (XI (XO (XO (XI (XO (XI (XI
    XH))))))))))))))))), (Npos (XO (XO (XO (XI (XI (XI (XI (XO (XI (XI (XO
    (XO (XI (XO (XI (XI XH)))))))))))))))))), L) :: ((((Npos (XO (XO (XO (XO
    (XO (XO (XO (XO (XO (XO (XI (XO (XI (XO (XI (XI XH))))))))))))))))),
    (Npos (XO (XO (XI (XO (XI (XO (XI (XO (XO (XO (XI (XO (XI (XO (XI (XI
    XH)))))))))))))))))), L) :: ((((Npos (XO (XI (XI (XO (XI (XO (XI (XO (XO
    (XO (XI (XO (XI (XO (XI (XI XH))))))))))))))))), (Npos (XO (XO (XI (XI
    (XI (XO (XO (XI (XO (XO (XI (XO (XI (XO (XI (XI XH)))))))))))))))))),
    L) :: ((((Npos (XO (XI (XI (XI (XI (XO (XO (XI (XO (XO (XI (XO (XI (XO
    (XI (XI XH))))))))))))))))), (Npos (XI (XI (XI (XI (XI (XO (XO (XI (XO
    (XO (XI (XO (XI (XO (XI (XI XH)))))))))))))))))), L) :: ((((Npos (XO (XI
    (XO (XO (XO (XI (XO (XI (XO (XO (XI (XO (XI (XO (XI (XI
    XH))))))))))))))))), (Npos (XO (XI (XO (XO (XO (XI (XO (XI (XO (XO (XI
    (XO (XI (XO (XI (XI XH)))))))))))))))))), L) :: ((((Npos (XI (XO (XI (XO
    (XO (XI (XO (XI (XO (XO (XI (XO (XI (XO (XI (XI XH))))))))))))))))),
    (Npos (XO (XI (XI (XO (XO (XI (XO (XI (XO (XO (XI (XO (XI (XO (XI (XI
    XH)))))))))))))))))), L) :: ((((Npos (XI (XO (XO (XI (XO (XI (XO (XI (XO
    (XO (XI (XO (XI (XO (XI (XI XH))))))))))))))))), (Npos (XO (XO (XI (XI
    (XO (XI (XO (XI (XO (XO (XI (XO (XI (XO (XI (XI XH)))))))))))))))))),
    L) :: ((((Npos (XO (XI (XI (XI (XO (XI (XO (XI (XO (XO (XI (XO (XI (XO
    (XI (XI XH))))))))))))))))), (Npos (XI (XO (XO (XI (XI (XI (XO (XI (XO
    (XO (XI (XO (XI (XO (XI (XI XH)))))))))))))))))), L) :: ((((Npos (XI (XI
    (XO (XI (XI (XI (XO (XI (XO (XO (XI (XO (XI (XO (XI (XI
    XH))))))))))))))))), (Npos (XI (XI (XO (XI (XI (XI (XO (XI (XO (XO (XI
    (XO (XI (XO (XI (XI XH)))))))))))))))))), L) :: ((((Npos (XI (XO (XI (XI
    (XI (XI (XO (XI (XO (XO (XI (XO (XI (XO (XI (XI XH))))))))))))))))),
    (Npos (XI (XI (XO (XO (XO (XO (XI (XI (XO (XO (XI (XO (XI (XO (XI (XI
    XH)))))))))))))))))), L) :: ((((Npos (XI (XO (XI (XO (XO (XO (XI (XI (XO
    (XO (XI (XO (XI (XO (XI (XI XH))))))))))))))))), (Npos (XI (XO (XI (XO
    (XO (XO (XO (XO (XI (XO (XI (XO (XI (XO (XI (XI XH)))))))))))))))))),
    L) :: ((((Npos (XI (XI (XI (XO (XO (XO (XO (XO (XI (XO (XI (XO (XI (XO
    (XI (XI XH))))))))))))))))), (Npos (XO (XI (XO (XI (XO (XO (XO (XO (XI
    (XO (XI (XO (XI (XO (XI (XI XH)))))))))))))))))), L) :: ((((Npos (XI (XO
    (XI (XI (XO (XO (XO (XO (XI (XO (XI (XO (XI (XO (XI (XI
    XH))))))))))))))))), (Npos (XO (XO (XI (XO (XI (XO (XO (XO (XI (XO (XI
    (XO (XI (XO (XI (XI XH)))))))))))))))))), L) :: ((((Npos (XO (XI (XI (XO
    (XI (XO (XO (XO (XI (XO (XI (XO (XI (XO (XI (XI XH))))))))))))))))),
    (Npos (XO (XO (XI (XI (XI (XO (XO (XO (XI (XO (XI (XO (XI (XO (XI (XI
    XH)))))))))))))))))), L) :: ((((Npos (XO (XI (XI (XI (XI (XO (XO (XO (XI
    (XO (XI (XO (XI (XO (XI (XI XH))))))))))))))))), (Npos (XI (XO (XO (XI
    (XI (XI (XO (XO (XI (XO (XI (XO (XI (XO (XI (XI XH)))))))))))))))))),
    L) :: ((((Npos (XI (XI (XO (XI (XI (XI (XO (XO (XI (XO (XI (XO (XI (XO
    (XI (XI XH))))))))))))))))), (Npos (XO (XI (XI (XI (XI (XI (XO (XO (XI
    (XO (XI (XO (XI (XO (XI (XI XH)))))))))))))))))), L) :: ((((Npos (XO (XO
    (XO (XO (XO (XO (XI (XO (XI (XO (XI (XO (XI (XO (XI (XI
    XH))))))))))))))))), (Npos (XO (XO (XI (XO (XO (XO (XI (XO (XI (XO (XI
    (XO (XI (XO (XI (XI XH)))))))))))))))))), L) :: ((((Npos (XO (XI (XI (XO
    (XO (XO (XI (XO (XI (XO (XI (XO (XI (XO (XI (XI XH))))))))))))))))),
    (Npos (XO (XI (XI (XO (XO (XO (XI (XO (XI (XO (XI (XO (XI (XO (XI (XI
    XH)))))))))))))))))), L) :: ((((Npos (XO (XI (XO (XI (XO (XO (XI (XO (XI
    (XO (XI (XO (XI (XO (XI (XI XH))))))))))))))))), (Npos (XO (XO (XO (XO
    (XI (XO (XI (XO (XI (XO (XI (XO (XI (XO (XI (XI XH)))))))))))))))))),
    L) :: ((((Npos (XO (XI (XO (XO (XI (XO (XI (XO (XI (XO (XI (XO (XI (XO
    (XI (XI XH))))))))))))))))), (Npos (XI (XO (XI (XO (XO (XI (XO (XI (XO
    (XI (XI (XO (XI (XO (XI (XI XH)))))))))))))))))), L) :: ((((Npos (XO (XO
    (XO (XI (XO (XI (XO (XI (XO (XI (XI (XO (XI (XO (XI (XI
    XH))))))))))))))))), (Npos (XO (XO (XO (XO (XO (XO (XI (XI (XO (XI (XI
    (XO (XI (XO (XI (XI XH)))))))))))))))))), L) :: ((((Npos (XI (XO (XO (XO
    (XO (XO (XI (XI (XO (XI (XI (XO (XI (XO (XI (XI XH))))))))))))))))),
    (Npos (XI (XO (XO (XO (XO (XO (XI (XI (XO (XI (XI (XO (XI (XO (XI (XI
    XH)))))))))))))))))), ON) :: ((((Npos (XO (XI (XO (XO (XO (XO (XI (XI (XO
    (XI (XI (XO (XI (XO (XI (XI XH))))))))))))))))), (Npos (XO (XI (XO (XI
    (XI (XO (XI (XI (XO (XI (XI (XO (XI (XO (XI (XI XH)))))))))))))))))),
    L) :: ((((Npos (XI (XI (XO (XI (XI (XO (XI (XI (XO (XI (XI (XO (XI (XO
    (XI (XI XH))))))))))))))))), (Npos (XI (XI (XO (XI (XI (XO (XI (XI (XO
    (XI (XI (XO (XI (XO (XI (XI XH)))))))))))))))))), ON) :: ((((Npos (XO (XO
    (XI (XI (XI (XO (XI (XI (XO (XI (XI (XO (XI (XO (XI (XI
    XH))))))))))))))))), (Npos (XO (XI (XO (XI (XI (XI (XI (XI (XO (XI (XI
    (XO (XI (XO (XI (XI XH)))))))))))))))))), L) :: ((((Npos (XI (XI (XO (XI
    (XI (XI (XI (XI (XO (XI (XI (XO (XI (XO (XI (XI XH))))))))))))))))),
    (Npos (XI (XI (XO (XI (XI (XI (XI (XI (XO (XI (XI (XO (XI (XO (XI (XI
    XH)))))))))))))))))), ON) :: ((((Npos (XO (XO (XI (XI (XI (XI (XI (XI (XO
    (XI (XI (XO (XI (XO (XI (XI XH))))))))))))))))), (Npos (XO (XO (XI (XO
    (XI (XO (XO (XO (XI (XI (XI (XO (XI (XO (XI (XI XH)))))))))))))))))),
    L) :: ((((Npos (XI (XO (XI (XO (XI (XO (XO (XO (XI (XI (XI (XO (XI (XO
    (XI (XI XH))))))))))))))))), (Npos (XI (XO (XI (XO (XI (XO (XO (XO (XI
    (XI (XI (XO (XI (XO (XI (XI XH)))))))))))))))))), ON) :: ((((Npos (XO (XI
    (XI (XO (XI (XO (XO (XO (XI (XI (XI (XO (XI (XO (XI (XI
    XH))))))))))))))))), (Npos (XO (XO (XI (XO (XI (XI (XO (XO (XI (XI (XI
    (XO (XI (XO (XI (XI XH)))))))))))))))))), L) :: ((((Npos (XI (XO (XI (XO
    (XI (XI (XO (XO (XI (XI (XI (XO (XI (XO (XI (XI XH))))))))))))))))),
    (Npos (XI (XO (XI (XO (XI (XI (XO (XO (XI (XI (XI (XO (XI (XO (XI (XI
    XH)))))))))))))))))), ON) :: ((((Npos (XO (XI (XI (XO (XI (XI (XO (XO (XI
    (XI (XI (XO (XI (XO (XI (XI XH))))))))))))))))), (Npos (XO (XI (XI (XI
    (XO (XO (XI (XO (XI (XI (XI (XO (XI (XO (XI (XI XH)))))))))))))))))),
    L) :: ((((Npos (XI (XI (XI (XI (XO (XO (XI (XO (XI (XI (XI (XO (XI (XO
    (XI (XI XH))))))))))))))))), (Npos (XI (XI (XI (XI (XO (XO (XI (XO (XI
    (XI (XI (XO (XI (XO (XI (XI XH)))))))))))))))))), ON) :: ((((Npos (XO (XO
    (XO (XO (XI (XO (XI (XO (XI (XI (XI (XO (XI (XO (XI (XI
    XH))))))))))))))))), (Npos (XO (XI (XI (XI (XO (XI (XI (XO (XI (XI (XI
    (XO (XI (XO (XI (XI XH)))))))))))))))))), L) :: ((((Npos (XI (XI (XI (XI
    (XO (XI (XI (XO (XI (XI (XI (XO (XI (XO (XI (XI XH))))))))))))))))),
    (Npos (XI (XI (XI (XI (XO (XI (XI (XO (XI (XI (XI (XO (XI (XO (XI (XI
    XH)))))))))))))))))), ON) :: ((((Npos (XO (XO (XO (XO (XI (XI (XI (XO (XI
    (XI (XI (XO (XI (XO (XI (XI XH))))))))))))))))), (Npos (XO (XO (XO (XI
    (XO (XO (XO (XI (XI (XI (XI (XO (XI (XO (XI (XI XH)))))))))))))))))),
    L) :: ((((Npos (XI (XO (XO (XI (XO (XO (XO (XI (XI (XI (XI (XO (XI (XO
    (XI (XI XH))))))))))))))))), (Npos (XI (XO (XO (XI (XO (XO (XO (XI (XI
    (XI (XI (XO (XI (XO (XI (XI XH)))))))))))))))))), ON) :: ((((Npos (XO (XI
    (XO (XI (XO (XO (XO (XI (XI (XI (XI (XO (XI (XO (XI (XI
    XH))))))))))))))))), (Npos (XO (XO (XO (XI (XO (XI (XO (XI (XI (XI (XI
    (XO (XI (XO (XI (XI XH)))))))))))))))))), L) :: ((((Npos (XI (XO (XO (XI
    (XO (XI (XO (XI (XI (XI (XI (XO (XI (XO (XI (XI XH))))))))))))))))),
    (Npos (XI (XO (XO (XI (XO (XI (XO (XI (XI (XI (XI (XO (XI (XO (XI (XI
    XH)))))))))))))))))), ON) :: ((((Npos (XO (XI (XO (XI (XO (XI (XO (XI (XI
    (XI (XI (XO (XI (XO (XI (XI XH))))))))))))))))), (Npos (XO (XI (XO (XO
    (XO (XO (XI (XI (XI (XI (XI (XO (XI (XO (XI (XI XH)))))))))))))))))),
    L) :: ((((Npos (XI (XI (XO (XO (XO (XO (XI (XI (XI (XI (XI (XO (XI (XO
    (XI (XI XH))))))))))))))))), (Npos (XI (XI (XO (XO (XO (XO (XI (XI (XI
    (XI (XI (XO (XI (XO (XI (XI XH)))))))))))))))))), ON) :: ((((Npos (XO (XO
    (XI (XO (XO (XO (XI (XI (XI (XI (XI (XO (XI (XO (XI (XI
    XH))))))))))))))))), (Npos (XI (XI (XO (XI (XO (XO (XI (XI (XI (XI (XI
    (XO (XI (XO (XI (XI XH)))))))))))))))))), L) :: ((((Npos (XO (XI (XI (XI
    (XO (XO (XI (XI (XI (XI (XI (XO (XI (XO (XI (XI XH))))))))))))))))),
    (Npos (XI (XI (XI (XI (XI (XI (XI (XI (XI (XI (XI (XO (XI (XO (XI (XI
    XH)))))))))))))))))), EN) :: ((((Npos (XO (XO (XO (XO (XO (XO (XO (XO (XO
    (XO (XO (XI (XI (XO (XI (XI XH))))))))))))))))), (Npos (XI (XI (XI (XI
    (XI (XI (XI (XI (XI (XO (XO (XI (XI (XO (XI (XI XH)))))))))))))))))),
    L) :: ((((Npos (XO (XO (XO (XO (XO (XO (XO (XO (XO (XI (XO (XI (XI (XO
    (XI (XI XH))))))))))))))))), (Npos (XO (XI (XI (XO (XI (XI (XO (XO (XO
    (XI (XO (XI (XI (XO (XI (XI XH)))))))))))))))))), NSM) :: ((((Npos (XI
    (XI (XI (XO (XI (XI (XO (XO (XO (XI (XO (XI (XI (XO (XI (XI
    XH))))))))))))))))), (Npos (XO (XI (XO (XI (XI (XI (XO (XO (XO (XI (XO
    (XI (XI (XO (XI (XI XH)))))))))))))))))), L) :: ((((Npos (XI (XI (XO (XI
    (XI (XI (XO (XO (XO (XI (XO (XI (XI (XO (XI (XI XH))))))))))))))))),
    (Npos (XO (XO (XI (XI (XO (XI (XI (XO (XO (XI (XO (XI (XI (XO (XI (XI
    XH)))))))))))))))))), NSM) :: ((((Npos (XI (XO (XI (XI (XO (XI (XI (XO
    (XO (XI (XO (XI (XI (XO (XI (XI XH))))))))))))))))), (Npos (XO (XO (XI
    (XO (XI (XI (XI (XO (XO (XI (XO (XI (XI (XO (XI (XI XH)))))))))))))))))),
    L) :: ((((Npos (XI (XO (XI (XO (XI (XI (XI (XO (XO (XI (XO (XI (XI (XO
    (XI (XI XH))))))))))))))))), (Npos (XI (XO (XI (XO (XI (XI (XI (XO (XO
    (XI (XO (XI (XI (XO (XI (XI XH)))))))))))))))))), NSM) :: ((((Npos (XO
    (XI (XI (XO (XI (XI (XI (XO (XO (XI (XO (XI (XI (XO (XI (XI
    XH))))))))))))))))), (Npos (XI (XI (XO (XO (XO (XO (XO (XI (XO (XI (XO
    (XI (XI (XO (XI (XI XH)))))))))))))))))), L) :: ((((Npos (XO (XO (XI (XO
    (XO (XO (XO (XI (XO (XI (XO (XI (XI (XO (XI (XI XH))))))))))))))))),
    (Npos (XO (XO (XI (XO (XO (XO (XO (XI (XO (XI (XO (XI (XI (XO (XI (XI
    XH)))))))))))))))))), NSM) :: ((((Npos (XI (XO (XI (XO (XO (XO (XO (XI
    (XO (XI (XO (XI (XI (XO (XI (XI XH))))))))))))))))), (Npos (XI (XI (XO
    (XI (XO (XO (XO (XI (XO (XI (XO (XI (XI (XO (XI (XI XH)))))))))))))))))),
    L) :: ((((Npos (XI (XI (XO (XI (XI (XO (XO (XI (XO (XI (XO (XI (XI (XO
    (XI (XI XH))))))))))))))))), (Npos (XI (XI (XI (XI (XI (XO (XO (XI (XO
    (XI (XO (XI (XI (XO (XI (XI XH)))))))))))))))))), NSM) :: ((((Npos (XI
    (XO (XO (XO (XO (XI (XO (XI (XO (XI (XO (XI (XI (XO (XI (XI
    XH))))))))))))))))), (Npos (XI (XI (XI (XI (XO (XI (XO (XI (XO (XI (XO
    (XI (XI (XO (XI (XI XH)))))))))))))))))), NSM) :: ((((Npos (XO (XO (XO
    (XO (XO (XO (XO (XO (XI (XI (XI (XI (XI (XO (XI (XI XH))))))))))))))))),
    (Npos (XO (XI (XI (XI (XI (XO (XO (XO (XI (XI (XI (XI (XI (XO (XI (XI
    XH)))))))))))))))))), L) :: ((((Npos (XI (XO (XI (XO (XO (XI (XO (XO (XI
    (XI (XI (XI (XI (XO (XI (XI XH))))))))))))))))), (Npos (XO (XI (XO (XI
    (XO (XI (XO (XO (XI (XI (XI (XI (XI (XO (XI (XI XH)))))))))))))))))),
    L) :: ((((Npos (XO (XO (XO (XO (XO (XO (XO (XO (XO (XO (XO (XO (XO (XI
    (XI (XI XH))))))))))))))))), (Npos (XO (XI (XI (XO (XO (XO (XO (XO (XO
    (XO (XO (XO (XO (XI (XI (XI XH)))))))))))))))))), NSM) :: ((((Npos (XO
    (XO (XO (XI (XO (XO (XO (XO (XO (XO (XO (XO (XO (XI (XI (XI
    XH))))))))))))))))), (Npos (XO (XO (XO (XI (XI (XO (XO (XO (XO (XO (XO
    (XO (XO (XI (XI (XI XH)))))))))))))))))), NSM) :: ((((Npos (XI (XI (XO
    (XI (XI (XO (XO (XO (XO (XO (XO (XO (XO (XI (XI (XI XH))))))))))))))))),
    (Npos (XI (XO (XO (XO (XO (XI (XO (XO (XO (XO (XO (XO (XO (XI (XI (XI
    XH)))))))))))))))))), NSM) :: ((((Npos (XI (XI (XO (XO (XO (XI (XO (XO
    (XO (XO (XO (XO (XO (XI (XI (XI XH))))))))))))))))), (Npos (XO (XO (XI
    (XO (XO (XI (XO (XO (XO (XO (XO (XO (XO (XI (XI (XI XH)))))))))))))))))),
    NSM) :: ((((Npos (XO (XI (XI (XO (XO (XI (XO (XO (XO (XO (XO (XO (XO (XI
    (XI (XI XH))))))))))))))))), (Npos (XO (XI (XO (XI (XO (XI (XO (XO (XO
    (XO (XO (XO (XO (XI (XI (XI XH)))))))))))))))))), NSM) :: ((((Npos (XO
    (XO (XO (XO (XI (XI (XO (XO (XO (XO (XO (XO (XO (XI (XI (XI
    XH))))))))))))))))), (Npos (XI (XO (XI (XI (XO (XI (XI (XO (XO (XO (XO
    (XO (XO (XI (XI (XI XH)))))))))))))))))), L) :: ((((Npos (XI (XI (XI (XI
    (XO (XO (XO (XI (XO (XO (XO (XO (XO (XI (XI (XI XH))))))))))))))))),
    (Npos (XI (XI (XI (XI (XO (XO (XO (XI (XO (XO (XO (XO (XO (XI (XI (XI
    XH)))))))))))))))))), NSM) :: ((((Npos (XO (XO (XO (XO (XO (XO (XO (XO
    (XI (XO (XO (XO (XO (XI (XI (XI XH))))))))))))))))), (Npos (XO (XO (XI
    (XI (XO (XI (XO (XO (XI (XO (XO (XO (XO (XI (XI (XI XH)))))))))))))))))),
    L) :: ((((Npos (XO (XO (XO (XO (XI (XI (XO (XO (XI (XO (XO (XO (XO (XI
    (XI (XI XH))))))))))))))))), (Npos (XO (XI (XI (XO (XI (XI (XO (XO (XI
    (XO (XO (XO (XO (XI (XI (XI XH)))))))))))))))))), NSM) :: ((((Npos (XI
    (XI (XI (XO (XI (XI (XO (XO (XI (XO (XO (XO (XO (XI (XI (XI
    XH))))))))))))))))), (Npos (XI (XO (XI (XI (XI (XI (XO (XO (XI (XO (XO
    (XO (XO (XI (XI (XI XH)))))))))))))))))), L) :: ((((Npos (XO (XO (XO (XO
    (XO (XO (XI (XO (XI (XO (XO (XO (XO (XI (XI (XI XH))))))))))))))))),
    (Npos (XI (XO (XO (XI (XO (XO (XI (XO (XI (XO (XO (XO (XO (XI (XI (XI
    XH)))))))))))))))))), L) :: ((((Npos (XO (XI (XI (XI (XO (XO (XI (XO (XI
    (XO (XO (XO (XO (XI (XI (XI XH))))))))))))))))), (Npos (XI (XI (XI (XI
    (XO (XO (XI (XO (XI (XO (XO (XO (XO (XI (XI (XI XH)))))))))))))))))),
    L) :: ((((Npos (XO (XO (XO (XO (XI (XO (XO (XI (XO (XI (XO (XO (XO (XI
    (XI (XI XH))))))))))))))))), (Npos (XI (XO (XI (XI (XO (XI (XO (XI (XO
    (XI (XO (XO (XO (XI (XI (XI XH)))))))))))))))))), L) :: ((((Npos (XO (XI
    (XI (XI (XO (XI (XO (XI (XO (XI (XO (XO (XO (XI (XI (XI
    XH))))))))))))))))), (Npos (XO (XI (XI (XI (XO (XI (XO (XI (XO (XI (XO
    (XO (XO (XI (XI (XI XH)))))))))))))))))), NSM) :: ((((Npos (XO (XO (XO
    (XO (XO (XO (XI (XI (XO (XI (XO (XO (XO (XI (XI (XI XH))))))))))))))))),
    (Npos (XI (XI (XO (XI (XO (XI (XI (XI (XO (XI (XO (XO (XO (XI (XI (XI
    XH)))))))))))))))))), L) :: ((((Npos (XO (XO (XI (XI (XO (XI (XI (XI (XO
    (XI (XO (XO (XO (XI (XI (XI XH))))))))))))))))), (Npos (XI (XI (XI (XI
    (XO (XI (XI (XI (XO (XI (XO (XO (XO (XI (XI (XI XH)))))))))))))))))),
    NSM) :: ((((Npos (XO (XO (XO (XO (XI (XI (XI (XI (XO (XI (XO (XO (XO (XI
    (XI (XI XH))))))))))))))))), (Npos (XI (XO (XO (XI (XI (XI (XI (XI (XO
    (XI (XO (XO (XO (XI (XI (XI XH)))))))))))))))))), L) :: ((((Npos (XI (XI
    (XI (XI (XI (XI (XI (XI (XO (XI (XO (XO (XO (XI (XI (XI
    XH))))))))))))))))), (Npos (XI (XI (XI (XI (XI (XI (XI (XI (XO (XI (XO
    (XO (XO (XI (XI (XI XH)))))))))))))))))), ET) :: ((((Npos (XO (XO (XO (XO
    (XI (XO (XI (XI (XO (XO (XI (XO (XO (XI (XI (XI XH))))))))))))))))),
    (Npos (XI (XI (XO (XI (XO (XI (XI (XI (XO (XO (XI (XO (XO (XI (XI (XI
    XH)))))))))))))))))), L) :: ((((Npos (XO (XO (XI (XI (XO (XI (XI (XI (XO
    (XO (XI (XO (XO (XI (XI (XI XH))))))))))))))))), (Npos (XI (XI (XI (XI
    (XO (XI (XI (XI (XO (XO (XI (XO (XO (XI (XI (XI XH)))))))))))))))))),
    NSM) :: ((((Npos (XO (XO (XO (XO (XI (XI (XI (XI (XO (XO (XI (XO (XO (XI
    (XI (XI XH))))))))))))))))), (Npos (XI (XO (XO (XI (XI (XI (XI (XI (XO
    (XO (XI (XO (XO (XI (XI (XI XH)))))))))))))))))), L) :: ((((Npos (XO (XO
    (XO (XO (XI (XO (XI (XI (XI (XO (XI (XO (XO (XI (XI (XI
    XH))))))))))))))))), (Npos (XI (XO (XI (XI (XO (XI (XI (XI (XI (XO (XI
    (XO (XO (XI (XI (XI XH)))))))))))))))))), L) :: ((((Npos (XO (XI (XI (XI
    (XO (XI (XI (XI (XI (XO (XI (XO (XO (XI (XI (XI XH))))))))))))))))),
    (Npos (XI (XI (XI (XI (XO (XI (XI (XI (XI (XO (XI (XO (XO (XI (XI (XI
    XH)))))))))))))))))), NSM) :: ((((Npos (XO (XO (XO (XO (XI (XI (XI (XI
    (XI (XO (XI (XO (XO (XI (XI (XI XH))))))))))))))))), (Npos (XO (XI (XO
    (XI (XI (XI (XI (XI (XI (XO (XI (XO (XO (XI (XI (XI XH)))))))))))))))))),
    L) :: ((((Npos (XI (XI (XI (XI (XI (XI (XI (XI (XI (XO (XI (XO (XO (XI
    (XI (XI XH))))))))))))))))), (Npos (XI (XI (XI (XI (XI (XI (XI (XI (XI
    (XO (XI (XO (XO (XI (XI (XI XH)))))))))))))))))), L) :: ((((Npos (XO (XO
    (XO (XO (XO (XI (XI (XI (XI (XI (XI (XO (XO (XI (XI (XI
    XH))))))))))))))))), (Npos (XO (XI (XI (XO (XO (XI (XI (XI (XI (XI (XI
    (XO (XO (XI (XI (XI XH)))))))))))))))))), L) :: ((((Npos (XO (XO (XO (XI
    (XO (XI (XI (XI (XI (XI (XI (XO (XO (XI (XI (XI XH))))))))))))))))),
    (Npos (XI (XI (XO (XI (XO (XI (XI (XI (XI (XI (XI (XO (XO (XI (XI (XI
    XH)))))))))))))))))), L) :: ((((Npos (XI (XO (XI (XI (XO (XI (XI (XI (XI
    (XI (XI (XO (XO (XI (XI (XI XH))))))))))))))))), (Npos (XO (XI (XI (XI
    (XO (XI (XI (XI (XI (XI (XI (XO (XO (XI (XI (XI XH)))))))))))))))))),
    L) :: ((((Npos (XO (XO (XO (XO (XI (XI (XI (XI (XI (XI (XI (XO (XO (XI
    (XI (XI XH))))))))))))))))), (Npos (XO (XI (XI (XI (XI (XI (XI (XI (XI
    (XI (XI (XO (XO (XI (XI (XI XH)))))))))))))))))), L) :: ((((Npos (XO (XO
    (XO (XO (XO (XO (XO (XO (XO (XO (XO (XI (XO (XI (XI (XI
    XH))))))))))))))))), (Npos (XI (XI (XI (XI (XO (XO (XI (XI (XO (XO (XO
    (XI (XO (XI (XI (XI XH)))))))))))))))))), R) :: ((((Npos (XO (XO (XO (XO
    (XI (XO (XI (XI (XO (XO (XO (XI (XO (XI (XI (XI XH))))))))))))))))),
    (Npos (XO (XI (XI (XO (XI (XO (XI (XI (XO (XO (XO (XI (XO (XI (XI (XI
    XH)))))))))))))))))), NSM) :: ((((Npos (XI (XI (XI (XO (XI (XO (XI (XI
    (XO (XO (XO (XI (XO (XI (XI (XI XH))))))))))))))))), (Npos (XI (XI (XO
    (XO (XO (XO (XI (XO (XI (XO (XO (XI (XO (XI (XI (XI XH)))))))))))))))))),
    R) :: ((((Npos (XO (XO (XI (XO (XO (XO (XI (XO (XI (XO (XO (XI (XO (XI
    (XI (XI XH))))))))))))))))), (Npos (XO (XI (XO (XI (XO (XO (XI (XO (XI
    (XO (XO (XI (XO (XI (XI (XI XH)))))))))))))))))), NSM) :: ((((Npos (XI
    (XI (XO (XI (XO (XO (XI (XO (XI (XO (XO (XI (XO (XI (XI (XI
    XH))))))))))))))))), (Npos (XO (XO (XO (XO (XI (XI (XI (XO (XO (XO (XI
    (XI (XO (XI (XI (XI XH)))))))))))))))))), R) :: ((((Npos (XI (XO (XO (XO
    (XI (XI (XI (XO (XO (XO (XI (XI (XO (XI (XI (XI XH))))))))))))))))),
    (Npos (XO (XO (XI (XO (XI (XI (XO (XI (XO (XO (XI (XI (XO (XI (XI (XI
    XH)))))))))))))))))), AL) :: ((((Npos (XI (XO (XI (XO (XI (XI (XO (XI (XO
    (XO (XI (XI (XO (XI (XI (XI XH))))))))))))))))), (Npos (XO (XO (XO (XO
    (XO (XO (XO (XO (XI (XO (XI (XI (XO (XI (XI (XI XH)))))))))))))))))),
    R) :: ((((Npos (XI (XO (XO (XO (XO (XO (XO (XO (XI (XO (XI (XI (XO (XI
    (XI (XI XH))))))))))))))))), (Npos (XI (XO (XI (XI (XI (XI (XO (XO (XI
    (XO (XI (XI (XO (XI (XI (XI XH)))))))))))))))))), AL) :: ((((Npos (XO (XI
    (XI (XI (XI (XI (XO (XO (XI (XO (XI (XI (XO (XI (XI (XI
    XH))))))))))))))))), (Npos (XI (XI (XI (XI (XI (XI (XI (XI (XI (XO (XI
    (XI (XO (XI (XI (XI XH)))))))))))))))))), R) :: ((((Npos (XO (XO (XO (XO
    (XO (XO (XO (XO (XO (XI (XI (XI (XO (XI (XI (XI XH))))))))))))))))),
    (Npos (XI (XI (XI (XI (XO (XI (XI (XI (XO (XI (XI (XI (XO (XI (XI (XI
    XH)))))))))))))))))), AL) :: ((((Npos (XO (XO (XO (XO (XI (XI (XI (XI (XO
    (XI (XI (XI (XO (XI (XI (XI XH))))))))))))))))), (Npos (XI (XO (XO (XO
    (XI (XI (XI (XI (XO (XI (XI (XI (XO (XI (XI (XI XH)))))))))))))))))),
    ON) :: ((((Npos (XO (XI (XO (XO (XI (XI (XI (XI (XO (XI (XI (XI (XO (XI
    (XI (XI XH))))))))))))))))), (Npos (XI (XI (XI (XI (XI (XI (XI (XI (XO
    (XI (XI (XI (XO (XI (XI (XI XH)))))))))))))))))), AL) :: ((((Npos (XO (XO
    (XO (XO (XO (XO (XO (XO (XI (XI (XI (XI (XO (XI (XI (XI
    XH))))))))))))))))), (Npos (XI (XI (XI (XI (XI (XI (XI (XI (XI (XI (XI
    (XI (XO (XI (XI (XI XH)))))))))))))))))), R) :: ((((Npos (XO (XO (XO (XO
    (XO (XO (XO (XO (XO (XO (XO (XO (XI (XI (XI (XI XH))))))))))))))))),
    (Npos (XI (XI (XO (XI (XO (XI (XO (XO (XO (XO (XO (XO (XI (XI (XI (XI
    XH)))))))))))))))))), ON) :: ((((Npos (XO (XO (XO (XO (XI (XI (XO (XO (XO
    (XO (XO (XO (XI (XI (XI (XI XH))))))))))))))))), (Npos (XI (XI (XO (XO
    (XI (XO (XO (XI (XO (XO (XO (XO (XI (XI (XI (XI XH)))))))))))))))))),
    ON) :: ((((Npos (XO (XO (XO (XO (XO (XI (XO (XI (XO (XO (XO (XO (XI (XI
    (XI (XI XH))))))))))))))))), (Npos (XO (XI (XI (XI (XO (XI (XO (XI (XO
    (XO (XO (XO (XI (XI (XI (XI XH)))))))))))))))))), ON) :: ((((Npos (XI (XO
    (XO (XO (XI (XI (XO (XI (XO (XO (XO (XO (XI (XI (XI (XI
    XH))))))))))))))))), (Npos (XI (XI (XI (XI (XI (XI (XO (XI (XO (XO (XO
    (XO (XI (XI (XI (XI XH)))))))))))))))))), ON) :: ((((Npos (XI (XO (XO (XO
    (XO (XO (XI (XI (XO (XO (XO (XO (XI (XI (XI (XI XH))))))))))))))))),
    (Npos (XI (XI (XI (XI (XO (XO (XI (XI (XO (XO (XO (XO (XI (XI (XI (XI
    XH)))))))))))))))))), ON) :: ((((Npos (XI (XO (XO (XO (XI (XO (XI (XI (XO
    (XO (XO (XO (XI (XI (XI (XI XH))))))))))))))))), (Npos (XI (XO (XI (XO
    (XI (XI (XI (XI (XO (XO (XO (XO (XI (XI (XI (XI XH)))))))))))))))))),
    ON) :: ((((Npos (XO (XO (XO (XO (XO (XO (XO (XO (XI (XO (XO (XO (XI (XI
    (XI (XI XH))))))))))))))))), (Npos (XO (XI (XO (XI (XO (XO (XO (XO (XI
    (XO (XO (XO (XI (XI (XI (XI XH)))))))))))))))))), EN) :: ((((Npos (XI (XI
    (XO (XI (XO (XO (XO (XO (XI (XO (XO (XO (XI (XI (XI (XI
    XH))))))))))))))))), (Npos (XI (XI (XI (XI (XO (XO (XO (XO (XI (XO (XO
    (XO (XI (XI (XI (XI XH)))))))))))))))))), ON) :: ((((Npos (XO (XO (XO (XO
    (XI (XO (XO (XO (XI (XO (XO (XO (XI (XI (XI (XI XH))))))))))))))))),
    (Npos (XO (XI (XI (XI (XO (XI (XO (XO (XI (XO (XO (XO (XI (XI (XI (XI
    XH)))))))))))))))))), L) :: ((((Npos (XI (XI (XI (XI (XO (XI (XO (XO (XI
    (XO (XO (XO (XI (XI (XI (XI XH))))))))))))))))), (Npos (XI (XI (XI (XI
    (XO (XI (XO (XO (XI (XO (XO (XO (XI (XI (XI (XI XH)))))))))))))))))),
    ON) :: ((((Npos (XO (XO (XO (XO (XI (XI (XO (XO (XI (XO (XO (XO (XI (XI
    (XI (XI XH))))))))))))))))), (Npos (XI (XO (XO (XI (XO (XI (XI (XO (XI
    (XO (XO (XO (XI (XI (XI (XI XH)))))))))))))))))), L) :: ((((Npos (XO (XI
    (XO (XI (XO (XI (XI (XO (XI (XO (XO (XO (XI (XI (XI (XI
    XH))))))))))))))))), (Npos (XI (XI (XI (XI (XO (XI (XI (XO (XI (XO (XO
    (XO (XI (XI (XI (XI XH)))))))))))))))))), ON) :: ((((Npos (XO (XO (XO (XO
    (XI (XI (XI (XO (XI (XO (XO (XO (XI (XI (XI (XI XH))))))))))))))))),
    (Npos (XO (XO (XI (XI (XO (XI (XO (XI (XI (XO (XO (XO (XI (XI (XI (XI
    XH)))))))))))))))))), L) :: ((((Npos (XI (XO (XI (XI (XO (XI (XO (XI (XI
    (XO (XO (XO (XI (XI (XI (XI XH))))))))))))))))), (Npos (XI (XO (XI (XI
    (XO (XI (XO (XI (XI (XO (XO (XO (XI (XI (XI (XI XH)))))))))))))))))),
    ON) :: ((((Npos (XO (XI (XI (XO (XO (XI (XI (XI (XI (XO (XO (XO (XI (XI
    (XI (XI XH))))))))))))))))), (Npos (XO (XI (XO (XO (XO (XO (XO (XO (XO
    (XI (XO (XO (XI (XI (XI (XI XH)))))))))))))))))), L) :: ((((Npos (XO (XO
    (XO (XO (XI (XO (XO (XO (XO (XI (XO (XO (XI (XI (XI (XI
    XH))))))))))))))))), (Npos (XI (XI (XO (XI (XI (XI (XO (XO (XO (XI (XO
    (XO (XI (XI (XI (XI XH)))))))))))))))))), L) :: ((((Npos (XO (XO (XO (XO
    (XO (XO (XI (XO (XO (XI (XO (XO (XI (XI (XI (XI XH))))))))))))))))),
    (Npos (XO (XO (XO (XI (XO (XO (XI (XO (XO (XI (XO (XO (XI (XI (XI (XI
    XH)))))))))))))))))), L) :: ((((Npos (XO (XO (XO (XO (XI (XO (XI (XO (XO
    (XI (XO (XO (XI (XI (XI (XI XH))))))))))))))))), (Npos (XI (XO (XO (XO
    (XI (XO (XI (XO (XO (XI (XO (XO (XI (XI (XI (XI XH)))))))))))))))))),
    L) :: ((((Npos (XO (XO (XO (XO (XO (XI (XI (XO (XO (XI (XO (XO (XI (XI
    (XI (XI XH))))))))))))))))), (Npos (XI (XO (XI (XO (XO (XI (XI (XO (XO
    (XI (XO (XO (XI (XI (XI (XI XH)))))))))))))))))), ON) :: ((((Npos (XO (XO
    (XO (XO (XO (XO (XO (XO (XI (XI (XO (XO (XI (XI (XI (XI
    XH))))))))))))))))), (Npos (XI (XI (XI (XO (XI (XO (XI (XI (XO (XI (XI
    (XO (XI (XI (XI (XI XH)))))))))))))))))), ON) :: ((((Npos (XO (XO (XI (XI
    (XI (XO (XI (XI (XO (XI (XI (XO (XI (XI (XI (XI XH))))))))))))))))),
    (Npos (XO (XO (XI (XI (XO (XI (XI (XI (XO (XI (XI (XO (XI (XI (XI (XI
    XH)))))))))))))))))), ON) :: ((((Npos (XO (XO (XO (XO (XI (XI (XI (XI (XO
    (XI (XI (XO (XI (XI (XI (XI XH))))))))))))))))), (Npos (XO (XO (XI (XI
    (XI (XI (XI (XI (XO (XI (XI (XO (XI (XI (XI (XI XH)))))))))))))))))),
    ON) :: ((((Npos (XO (XO (XO (XO (XO (XO (XO (XO (XI (XI (XI (XO (XI (XI
    (XI (XI XH))))))))))))))))), (Npos (XO (XI (XI (XO (XI (XI (XI (XO (XI
    (XI (XI (XO (XI (XI (XI (XI XH)))))))))))))))))), ON) :: ((((Npos (XI (XI
    (XO (XI (XI (XI (XI (XO (XI (XI (XI (XO (XI (XI (XI (XI
    XH))))))))))))))))), (Npos (XI (XO (XO (XI (XI (XO (XI (XI (XI (XI (XI
    (XO (XI (XI (XI (XI XH)))))))))))))))))), ON) :: ((((Npos (XO (XO (XO (XO
    (XO (XI (XI (XI (XI (XI (XI (XO (XI (XI (XI (XI XH))))))))))))))))),
    (Npos (XI (XI (XO (XI (XO (XI (XI (XI (XI (XI (XI (XO (XI (XI (XI (XI
    XH)))))))))))))))))), ON) :: ((((Npos (XO (XO (XO (XO (XI (XI (XI (XI (XI
    (XI (XI (XO (XI (XI (XI (XI XH))))))))))))))))), (Npos (XO (XO (XO (XO
    (XI (XI (XI (XI (XI (XI (XI (XO (XI (XI (XI (XI XH)))))))))))))))))),
    ON) :: ((((Npos (XO (XO (XO (XO (XO (XO (XO (XO (XO (XO (XO (XI (XI (XI
    (XI (XI XH))))))))))))))))), (Npos (XI (XI (XO (XI (XO (XO (XO (XO (XO
    (XO (XO (XI (XI (XI (XI (XI XH)))))))))))))))))), ON) :: ((((Npos (XO (XO
    (XO (XO (XI (XO (XO (XO (XO (XO (XO (XI (XI (XI (XI (XI
    XH))))))))))))))))), (Npos (XI (XI (XI (XO (XO (XO (XI (XO (XO (XO (XO
    (XI (XI (XI (XI (XI XH)))))))))))))))))), ON) :: ((((Npos (XO (XO (XO (XO
    (XI (XO (XI (XO (XO (XO (XO (XI (XI (XI (XI (XI XH))))))))))))))))),
    (Npos (XI (XO (XO (XI (XI (XO (XI (XO (XO (XO (XO (XI (XI (XI (XI (XI
    XH)))))))))))))))))), ON) :: ((((Npos (XO (XO (XO (XO (XO (XI (XI (XO (XO
    (XO (XO (XI (XI (XI (XI (XI XH))))))))))))))))), (Npos (XI (XI (XI (XO
    (XO (XO (XO (XI (XO (XO (XO (XI (XI (XI (XI (XI XH)))))))))))))))))),
    ON) :: ((((Npos (XO (XO (XO (XO (XI (XO (XO (XI (XO (XO (XO (XI (XI (XI
    (XI (XI XH))))))))))))))))), (Npos (XI (XO (XI (XI (XO (XI (XO (XI (XO
    (XO (XO (XI (XI (XI (XI (XI XH)))))))))))))))))), ON) :: ((((Npos (XO (XO
    (XO (XO (XI (XI (XO (XI (XO (XO (XO (XI (XI (XI (XI (XI
    XH))))))))))))))))), (Npos (XI (XI (XO (XI (XI (XI (XO (XI (XO (XO (XO
    (XI (XI (XI (XI (XI XH)))))))))))))))))), ON) :: ((((Npos (XO (XO (XO (XO
    (XO (XO (XI (XI (XO (XO (XO (XI (XI (XI (XI (XI XH))))))))))))))))),
    (Npos (XI (XO (XO (XO (XO (XO (XI (XI (XO (XO (XO (XI (XI (XI (XI (XI
    XH)))))))))))))))))), ON) :: ((((Npos (XO (XO (XO (XO (XO (XO (XO (XO (XI
    (XO (XO (XI (XI (XI (XI (XI XH))))))))))))))))), (Npos (XI (XI (XO (XO
    (XI (XO (XI (XO (XO (XI (XO (XI (XI (XI (XI (XI XH)))))))))))))))))),
    ON) :: ((((Npos (XO (XO (XO (XO (XO (XI (XI (XO (XO (XI (XO (XI (XI (XI
    (XI (XI XH))))))))))))))))), (Npos (XI (XO (XI (XI (XO (XI (XI (XO (XO
    (XI (XO (XI (XI (XI (XI (XI XH)))))))))))))))))), ON) :: ((((Npos (XO (XO
    (XO (XO (XI (XI (XI (XO (XO (XI (XO (XI (XI (XI (XI (XI
    XH))))))))))))))))), (Npos (XO (XO (XI (XI (XI (XI (XI (XO (XO (XI (XO
    (XI (XI (XI (XI (XI XH)))))))))))))))))), ON) :: ((((Npos (XO (XO (XO (XO
    (XO (XO (XO (XI (XO (XI (XO (XI (XI (XI (XI (XI XH))))))))))))))))),
    (Npos (XI (XO (XO (XI (XO (XO (XO (XI (XO (XI (XO (XI (XI (XI (XI (XI
    XH)))))))))))))))))), ON) :: ((((Npos (XI (XI (XI (XI (XO (XO (XO (XI (XO
    (XI (XO (XI (XI (XI (XI (XI XH))))))))))))))))), (Npos (XO (XI (XI (XO
    (XO (XO (XI (XI (XO (XI (XO (XI (XI (XI (XI (XI XH)))))))))))))))))),
    ON) :: ((((Npos (XO (XI (XI (XI (XO (XO (XI (XI (XO (XI (XO (XI (XI (XI
    (XI (XI XH))))))))))))))))), (Npos (XO (XO (XI (XI (XI (XO (XI (XI (XO
    (XI (XO (XI (XI (XI (XI (XI XH)))))))))))))))))), ON) :: ((((Npos (XI (XI
    (XI (XI (XI (XO (XI (XI (XO (XI (XO (XI (XI (XI (XI (XI
    XH))))))))))))))))), (Npos (XI (XO (XO (XI (XO (XI (XI (XI (XO (XI (XO
    (XI (XI (XI (XI (XI XH)))))))))))))))))), ON) :: ((((Npos (XO (XO (XO (XO
    (XI (XI (XI (XI (XO (XI (XO (XI (XI (XI (XI (XI XH))))))))))))))))),
    (Npos (XO (XO (XO (XI (XI (XI (XI (XI (XO (XI (XO (XI (XI (XI (XI (XI
    XH)))))))))))))))))), ON) :: ((((Npos (XO (XO (XO (XO (XO (XO (XO (XO (XI
    (XI (XO (XI (XI (XI (XI (XI XH))))))))))))))))), (Npos (XO (XI (XO (XO
    (XI (XO (XO (XI (XI (XI (XO (XI (XI (XI (XI (XI XH)))))))))))))))))),
    ON) :: ((((Npos (XO (XO (XI (XO (XI (XO (XO (XI (XI (XI (XO (XI (XI (XI
    (XI (XI XH))))))))))))))))), (Npos (XI (XI (XI (XI (XO (XI (XI (XI (XI
    (XI (XO (XI (XI (XI (XI (XI XH)))))))))))))))))), ON) :: ((((Npos (XO (XO
    (XO (XO (XI (XI (XI (XI (XI (XI (XO (XI (XI (XI (XI (XI
    XH))))))))))))))))), (Npos (XI (XO (XO (XI (XI (XI (XI (XI (XI (XI (XO
    (XI (XI (XI (XI (XI XH)))))))))))))))))), EN) :: ((((Npos (XO (XO (XO (XO
    (XO (XO (XO (XO (XO (XO (XO (XO (XO (XO (XO (XO (XO XH)))))))))))))))))),
    (Npos (XI (XI (XI (XI (XI (XO (XI (XI (XO (XI (XI (XO (XO (XI (XO (XI (XO
    XH))))))))))))))))))), L) :: ((((Npos (XO (XO (XO (XO (XO (XO (XO (XO (XI
    (XI (XI (XO (XO (XI (XO (XI (XO XH)))))))))))))))))), (Npos (XI (XO (XO
    (XI (XI (XI (XO (XO (XI (XI (XI (XO (XI (XI (XO (XI (XO
    XH))))))))))))))))))), L) :: ((((Npos (XO (XO (XO (XO (XO (XO (XI (XO (XI
    (XI (XI (XO (XI (XI (XO (XI (XO XH)))))))))))))))))), (Npos (XI (XO (XI
    (XI (XI (XO (XO (XO (XO (XO (XO (XI (XI (XI (XO (XI (XO
    XH))))))))))))))))))), L) :: ((((Npos (XO (XO (XO (XO (XO (XI (XO (XO (XO
    (XO (XO (XI (XI (XI (XO (XI (XO XH)))))))))))))))))), (Npos (XI (XO (XO
    (XO (XO (XI (XO (XI (XO (XI (XI (XI (XO (XO (XI (XI (XO
    XH))))))))))))))))))), L) :: ((((Npos (XO (XO (XO (XO (XI (XI (XO (XI (XO
    (XI (XI (XI (XO (XO (XI (XI (XO XH)))))))))))))))))), (Npos (XO (XO (XO
    (XO (XO (XI (XI (XI (XI (XI (XO (XI (XO (XI (XI (XI (XO
    XH))))))))))))))))))), L) :: ((((Npos (XO (XO (XO (XO (XI (XI (XI (XI (XI
    (XI (XO (XI (XO (XI (XI (XI (XO XH)))))))))))))))))), (Npos (XI (XO (XI
    (XI (XI (XO (XI (XO (XO (XI (XI (XI (XO (XI (XI (XI (XO
    XH))))))))))))))))))), L) :: ((((Npos (XO (XO (XO (XO (XO (XO (XO (XO (XO
    (XO (XO (XI (XI (XI (XI (XI (XO XH)))))))))))))))))), (Npos (XI (XO (XI
    (XI (XI (XO (XO (XO (XO (XI (XO (XI (XI (XI (XI (XI (XO
    XH))))))))))))))))))), L) :: ((((Npos (XO (XO (XO (XO (XO (XO (XO (XO (XO
    (XO (XO (XO (XO (XO (XO (XO (XI XH)))))))))))))))))), (Npos (XO (XI (XO
    (XI (XO (XO (XI (XO (XI (XI (XO (XO (XI (XO (XO (XO (XI
    XH))))))))))))))))))), L) :: ((((Npos (XO (XO (XO (XO (XI (XO (XI (XO (XI
    (XI (XO (XO (XI (XO (XO (XO (XI XH)))))))))))))))))), (Npos (XI (XI (XI
    (XI (XO (XI (XO (XI (XI (XI (XO (XO (XO (XI (XO (XO (XI
    XH))))))))))))))))))), L) :: ((((Npos (XI (XO (XO (XO (XO (XO (XO (XO (XO
    (XO (XO (XO (XO (XO (XO (XO (XO (XI (XI XH)))))))))))))))))))), (Npos (XI
    (XO (XO (XO (XO (XO (XO (XO (XO (XO (XO (XO (XO (XO (XO (XO (XO (XI (XI
    XH))))))))))))))))))))), BN) :: ((((Npos (XO (XO (XO (XO (XO (XI (XO (XO
    (XO (XO (XO (XO (XO (XO (XO (XO (XO (XI (XI XH)))))))))))))))))))), (Npos
    (XI (XI (XI (XI (XI (XI (XI (XO (XO (XO (XO (XO (XO (XO (XO (XO (XO (XI
    (XI XH))))))))))))))))))))), BN) :: ((((Npos (XO (XO (XO (XO (XO (XO (XO
    (XO (XI (XO (XO (XO (XO (XO (XO (XO (XO (XI (XI XH)))))))))))))))))))),
    (Npos (XI (XI (XI (XI (XO (XI (XI (XI (XI (XO (XO (XO (XO (XO (XO (XO (XO
    (XI (XI XH))))))))))))))))))))), NSM) :: ((((Npos (XO (XO (XO (XO (XO (XO
    (XO (XO (XO (XO (XO (XO (XO (XO (XO (XO (XI (XI (XI
    XH)))))))))))))))))))), (Npos (XI (XO (XI (XI (XI (XI (XI (XI (XI (XI (XI
    (XI (XI (XI (XI (XI (XI (XI (XI XH))))))))))))))))))))), L) :: ((((Npos
    (XO (XO (XO (XO (XO (XO (XO (XO (XO (XO (XO (XO (XO (XO (XO (XO (XO (XO
    (XO (XO XH))))))))))))))))))))), (Npos (XI (XO (XI (XI (XI (XI (XI (XI
    (XI (XI (XI (XI (XI (XI (XI (XI (XO (XO (XO (XO XH)))))))))))))))))))))),
    L) :: []))))))))))))))))))))))))))))))))))))))))))))))))))))))))))))))))))))))))))))))))))))))))))))))))))))))))))))))))))))))))))))))))))))))))))))))))))))))))))))))))))))))))))))))))))))))))))))))))))))))))))))))))))))))))))))))))))))))))))))))))))))))))))))))))))))))))))))))))))))))))))))))))))))))))))))))))))))))))))))))))))))))))))))))))))))))))))))))))))))))))))))))))))))))))))))))))))))))))))))))))))))))))))))))))))))))))))))))))))))))))))))))))))))))))))))))))))))))))))))))))))))))))))))))))))))))))))))))))))))))))))))))))))))))))))))))))))))))))))))))))))))))))))))))))))))))))))))))))))))))))))))))))))))))))))))))))))))))))))))))))))))))))))))))))))))))))))))))))))))))))))))))))))))))))))))))))))))))))))))))))))))))))))))))))))))))))))))))))))))))))))))))))))))))))))))))))))))))))))))))))))))))))))))))))))))))))))))))))))))))))))))))))))))))))))))))))))))))))))))))))))))))))))))))))))))))))))))))))))))))))))))))))))))))))))))))))))))))))))))))))))))))))))))))))))))))))))))))))))))))))))))))))))))))))))))))))))))))))))))))))))))))))))))))))))))))))))))))))))))))))))))))))))))))))))))))))))))))))))))))))))))))))))))))))))))))))))))))))))))))))))))))))))))))))))))))))))))))))))))))))))))))))))))))))))))))))))))))))))))))))))))))))))))))))))))))))))))))))))))))))))))))))))))))))))))))))))))))))))))))))))))))))))))))))))))))))))))))))))))))))))))))))))))))))))))))))))))))))))))))))))))))))))))))))))))))))))))))))))))))))))))))))))))))))))))))))))))))))))))))))))))))))))))))))))))))))

(** val bidi_pairs_table : ((n * n) * n option) list **)

let bidi_pairs_table =
  (((Npos (XO (XO (XO (XI (XO XH)))))), (Npos (XI (XO (XO (XI (XO XH))))))),
    None) :: ((((Npos (XI (XI (XO (XI (XI (XO XH))))))), (Npos (XI (XO (XI
    (XI (XI (XO XH)))))))), None) :: ((((Npos (XI (XI (XO (XI (XI (XI
    XH))))))), (Npos (XI (XO (XI (XI (XI (XI XH)))))))), None) :: ((((Npos
    (XO (XI (XO (XI (XI (XI (XO (XO (XI (XI (XI XH)))))))))))), (Npos (XI (XI
    (XO (XI (XI (XI (XO (XO (XI (XI (XI XH))))))))))))), None) :: ((((Npos
    (XO (XO (XI (XI (XI (XI (XO (XO (XI (XI (XI XH)))))))))))), (Npos (XI (XO
    (XI (XI (XI (XI (XO (XO (XI (XI (XI XH))))))))))))), None) :: ((((Npos
    (XI (XI (XO (XI (XI (XO (XO (XI (XO (XI (XI (XO XH))))))))))))), (Npos
    (XO (XO (XI (XI (XI (XO (XO (XI (XO (XI (XI (XO XH)))))))))))))),
    None) :: ((((Npos (XI (XO (XI (XO (XO (XO (XI (XO (XO (XO (XO (XO (XO
    XH)))))))))))))), (Npos (XO (XI (XI (XO (XO (XO (XI (XO (XO (XO (XO (XO
    (XO XH))))))))))))))), None) :: ((((Npos (XI (XO (XI (XI (XI (XI (XI (XO
    (XO (XO (XO (XO (XO XH)))))))))))))), (Npos (XO (XI (XI (XI (XI (XI (XI
    (XO (XO (XO (XO (XO (XO XH))))))))))))))), None) :: ((((Npos (XI (XO (XI
    (XI (XO (XO (XO (XI (XO (XO (XO (XO (XO XH)))))))))))))), (Npos (XO (XI
    (XI (XI (XO (XO (XO (XI (XO (XO (XO (XO (XO XH))))))))))))))),
    None) :: ((((Npos (XO (XO (XO (XI (XO (XO (XO (XO (XI (XI (XO (XO (XO
    XH)))))))))))))), (Npos (XI (XO (XO (XI (XO (XO (XO (XO (XI (XI (XO (XO
    (XO XH))))))))))))))), None) :: ((((Npos (XO (XI (XO (XI (XO (XO (XO (XO
    (XI (XI (XO (XO (XO XH)))))))))))))), (Npos (XI (XI (XO (XI (XO (XO (XO
    (XO (XI (XI (XO (XO (XO XH))))))))))))))), None) :: ((((Npos (XI (XO (XO
    (XI (XO (XI (XO (XO (XI (XI (XO (XO (XO XH)))))))))))))), (Npos (XO (XI
    (XO (XI (XO (XI (XO (XO (XI (XI (XO (XO (XO XH))))))))))))))), (Some
    (Npos (XO (XO (XO (XI (XO (XO (XO (XO (XO (XO (XO (XO (XI
    XH)))))))))))))))) :: ((((Npos (XO (XO (XO (XI (XO (XI (XI (XO (XI (XI
    (XI (XO (XO XH)))))))))))))), (Npos (XI (XO (XO (XI (XO (XI (XI (XO (XI
    (XI (XI (XO (XO XH))))))))))))))), None) :: ((((Npos (XO (XI (XO (XI (XO
    (XI (XI (XO (XI (XI (XI (XO (XO XH)))))))))))))), (Npos (XI (XI (XO (XI
    (XO (XI (XI (XO (XI (XI (XI (XO (XO XH))))))))))))))), None) :: ((((Npos
    (XO (XO (XI (XI (XO (XI (XI (XO (XI (XI (XI (XO (XO XH)))))))))))))),
    (Npos (XI (XO (XI (XI (XO (XI (XI (XO (XI (XI (XI (XO (XO
    XH))))))))))))))), None) :: ((((Npos (XO (XI (XI (XI (XO (XI (XI (XO (XI
    (XI (XI (XO (XO XH)))))))))))))), (Npos (XI (XI (XI (XI (XO (XI (XI (XO
    (XI (XI (XI (XO (XO XH))))))))))))))), None) :: ((((Npos (XO (XO (XO (XO
    (XI (XI (XI (XO (XI (XI (XI (XO (XO XH)))))))))))))), (Npos (XI (XO (XO
    (XO (XI (XI (XI (XO (XI (XI (XI (XO (XO XH))))))))))))))),
    None) :: ((((Npos (XO (XI (XO (XO (XI (XI (XI (XO (XI (XI (XI (XO (XO
    XH)))))))))))))), (Npos (XI (XI (XO (XO (XI (XI (XI (XO (XI (XI (XI (XO
    (XO XH))))))))))))))), None) :: ((((Npos (XO (XO (XI (XO (XI (XI (XI (XO
    (XI (XI (XI (XO (XO XH)))))))))))))), (Npos (XI (XO (XI (XO (XI (XI (XI
    (XO (XI (XI (XI (XO (XO XH))))))))))))))), None) :: ((((Npos (XI (XO (XI
    (XO (XO (XO (XI (XI (XI (XI (XI (XO (XO XH)))))))))))))), (Npos (XO (XI
    (XI (XO (XO (XO (XI (XI (XI (XI (XI (XO (XO XH))))))))))))))),
    None) :: ((((Npos (XO (XI (XI (XO (XO (XI (XI (XI (XI (XI (XI (XO (XO
    XH)))))))))))))), (Npos (XI (XI (XI (XO (XO (XI (XI (XI (XI (XI (XI (XO
    (XO XH))))))))))))))), None) :: ((((Npos (XO (XO (XO (XI (XO (XI (XI (XI
    (XI (XI (XI (XO (XO XH)))))))))))))), (Npos (XI (XO (XO (XI (XO (XI (XI
    (XI (XI (XI (XI (XO (XO XH))))))))))))))), None) :: ((((Npos (XO (XI (XO
    (XI (XO (XI (XI (XI (XI (XI (XI (XO (XO XH)))))))))))))), (Npos (XI (XI
    (XO (XI (XO (XI (XI (XI (XI (XI (XI (XO (XO XH))))))))))))))),
    None) :: ((((Npos (XO (XO (XI (XI (XO (XI (XI (XI (XI (XI (XI (XO (XO
    XH)))))))))))))), (Npos (XI (XO (XI (XI (XO (XI (XI (XI (XI (XI (XI (XO
    (XO XH))))))))))))))), None) :: ((((Npos (XO (XI (XI (XI (XO (XI (XI (XI
    (XI (XI (XI (XO (XO XH)))))))))))))), (Npos (XI (XI (XI (XI (XO (XI (XI
    (XI (XI (XI (XI (XO (XO XH))))))))))))))), None) :: ((((Npos (XI (XI (XO
    (XO (XO (XO (XO (XI (XI (XO (XO (XI (XO XH)))))))))))))), (Npos (XO (XO
    (XI (XO (XO (XO (XO (XI (XI (XO (XO (XI (XO XH))))))))))))))),
    None) :: ((((Npos (XI (XO (XI (XO (XO (XO (XO (XI (XI (XO (XO (XI (XO
    XH)))))))))))))), (Npos (XO (XI (XI (XO (XO (XO (XO (XI (XI (XO (XO (XI
    (XO XH))))))))))))))), None) :: ((((Npos (XI (XI (XI (XO (XO (XO (XO (XI
    (XI (XO (XO (XI (XO XH)))))))))))))), (Npos (XO (XO (XO (XI (XO (XO (XO
    (XI (XI (XO (XO (XI (XO XH))))))))))))))), None) :: ((((Npos (XI (XO (XO
    (XI (XO (XO (XO (XI (XI (XO (XO (XI (XO XH)))))))))))))), (Npos (XO (XI
    (XO (XI (XO (XO (XO (XI (XI (XO (XO (XI (XO XH))))))))))))))),
    None) :: ((((Npos (XI (XI (XO (XI (XO (XO (XO (XI (XI (XO (XO (XI (XO
    XH)))))))))))))), (Npos (XO (XO (XI (XI (XO (XO (XO (XI (XI (XO (XO (XI
    (XO XH))))))))))))))), None) :: ((((Npos (XI (XO (XI (XI (XO (XO (XO (XI
    (XI (XO (XO (XI (XO XH)))))))))))))), (Npos (XO (XO (XO (XO (XI (XO (XO
    (XI (XI (XO (XO (XI (XO XH))))))))))))))), None) :: ((((Npos (XI (XI (XI
    (XI (XO (XO (XO (XI (XI (XO (XO (XI (XO XH)))))))))))))), (Npos (XO (XI
    (XI (XI (XO (XO (XO (XI (XI (XO (XO (XI (XO XH))))))))))))))),
    None) :: ((((Npos (XI (XO (XO (XO (XI (XO (XO (XI (XI (XO (XO (XI (XO
    XH)))))))))))))), (Npos (XO (XI (XO (XO (XI (XO (XO (XI (XI (XO (XO (XI
    (XO XH))))))))))))))), None) :: ((((Npos (XI (XI (XO (XO (XI (XO (XO (XI
    (XI (XO (XO (XI (XO XH)))))))))))))), (Npos (XO (XO (XI (XO (XI (XO (XO
    (XI (XI (XO (XO (XI (XO XH))))))))))))))), None) :: ((((Npos (XI (XO (XI
    (XO (XI (XO (XO (XI (XI (XO (XO (XI (XO XH)))))))))))))), (Npos (XO (XI
    (XI (XO (XI (XO (XO (XI (XI (XO (XO (XI (XO XH))))))))))))))),
    None) :: ((((Npos (XI (XI (XI (XO (XI (XO (XO (XI (XI (XO (XO (XI (XO
    XH)))))))))))))), (Npos (XO (XO (XO (XI (XI (XO (XO (XI (XI (XO (XO (XI
    (XO XH))))))))))))))), None) :: ((((Npos (XO (XO (XO (XI (XI (XO (XI (XI
    (XI (XO (XO (XI (XO XH)))))))))))))), (Npos (XI (XO (XO (XI (XI (XO (XI
    (XI (XI (XO (XO (XI (XO XH))))))))))))))), None) :: ((((Npos (XO (XI (XO
    (XI (XI (XO (XI (XI (XI (XO (XO (XI (XO XH)))))))))))))), (Npos (XI (XI
    (XO (XI (XI (XO (XI (XI (XI (XO (XO (XI (XO XH))))))))))))))),
    None) :: ((((Npos (XO (XO (XI (XI (XI (XI (XI (XI (XI (XO (XO (XI (XO
    XH)))))))))))))), (Npos (XI (XO (XI (XI (XI (XI (XI (XI (XI (XO (XO (XI
    (XO XH))))))))))))))), None) :: ((((Npos (XO (XI (XO (XO (XO (XI (XO (XO
    (XO (XI (XI (XI (XO XH)))))))))))))), (Npos (XI (XI (XO (XO (XO (XI (XO
    (XO (XO (XI (XI (XI (XO XH))))))))))))))), None) :: ((((Npos (XO (XO (XI
    (XO (XO (XI (XO (XO (XO (XI (XI (XI (XO XH)))))))))))))), (Npos (XI (XO
    (XI (XO (XO (XI (XO (XO (XO (XI (XI (XI (XO XH))))))))))))))),
    None) :: ((((Npos (XO (XI (XI (XO (XO (XI (XO (XO (XO (XI (XI (XI (XO
    XH)))))))))))))), (Npos (XI (XI (XI (XO (XO (XI (XO (XO (XO (XI (XI (XI
    (XO XH))))))))))))))), None) :: ((((Npos (XO (XO (XO (XI (XO (XI (XO (XO
    (XO (XI (XI (XI (XO XH)))))))))))))), (Npos (XI (XO (XO (XI (XO (XI (XO
    (XO (XO (XI (XI (XI (XO XH))))))))))))))), None) :: ((((Npos (XI (XO (XI
    (XO (XI (XO (XI (XO (XO (XI (XI (XI (XO XH)))))))))))))), (Npos (XO (XI
    (XI (XO (XI (XO (XI (XO (XO (XI (XI (XI (XO XH))))))))))))))),
    None) :: ((((Npos (XI (XI (XI (XO (XI (XO (XI (XO (XO (XI (XI (XI (XO
    XH)))))))))))))), (Npos (XO (XO (XO (XI (XI (XO (XI (XO (XO (XI (XI (XI
    (XO XH))))))))))))))), None) :: ((((Npos (XI (XO (XO (XI (XI (XO (XI (XO
    (XO (XI (XI (XI (XO XH)))))))))))))), (Npos (XO (XI (XO (XI (XI (XO (XI
    (XO (XO (XI (XI (XI (XO XH))))))))))))))), None) :: ((((Npos (XI (XI (XO
    (XI (XI (XO (XI (XO (XO (XI (XI (XI (XO XH)))))))))))))), (Npos (XO (XO
    (XI (XI (XI (XO (XI (XO (XO (XI (XI (XI (XO XH))))))))))))))),
    None) :: ((((Npos (XO (XO (XO (XI (XO (XO (XO (XO (XO (XO (XO (XO (XI
    XH)))))))))))))), (Npos (XI (XO (XO (XI (XO (XO (XO (XO (XO (XO (XO (XO
    (XI XH))))))))))))))), None) :: ((((Npos (XO (XI (XO (XI (XO (XO (XO (XO
    (XO (XO (XO (XO (XI XH)))))))))))))), (Npos (XI (XI (XO (XI (XO (XO (XO
    (XO (XO (XO (XO (XO (XI XH))))))))))))))), None) :: ((((Npos (XO (XO (XI
    (XI (XO (XO (XO (XO (XO (XO (XO (XO (XI XH)))))))))))))), (Npos (XI (XO
    (XI (XI (XO (XO (XO (XO (XO (XO (XO (XO (XI XH))))))))))))))),
    None) :: ((((Npos (XO (XI (XI (XI (XO (XO (XO (XO (XO (XO (XO (XO (XI
    XH)))))))))))))), (Npos (XI (XI (XI (XI (XO (XO (XO (XO (XO (XO (XO (XO
    (XI XH))))))))))))))), None) :: ((((Npos (XO (XO (XO (XO (XI (XO (XO (XO
    (XO (XO (XO (XO (XI XH)))))))))))))), (Npos (XI (XO (XO (XO (XI (XO (XO
    (XO (XO (XO (XO (XO (XI XH))))))))))))))), None) :: ((((Npos (XO (XO (XI
    (XO (XI (XO (XO (XO (XO (XO (XO (XO (XI XH)))))))))))))), (Npos (XI (XO
    (XI (XO (XI (XO (XO (XO (XO (XO (XO (XO (XI XH))))))))))))))),
    None) :: ((((Npos (XO (XI (XI (XO (XI (XO (XO (XO (XO (XO (XO (XO (XI
    XH)))))))))))))), (Npos (XI (XI (XI (XO (XI (XO (XO (XO (XO (XO (XO (XO
    (XI XH))))))))))))))), None) :: ((((Npos (XO (XO (XO (XI (XI (XO (XO (XO
    (XO (XO (XO (XO (XI XH)))))))))))))), (Npos (XI (XO (XO (XI (XI (XO (XO
    (XO (XO (XO (XO (XO (XI XH))))))))))))))), None) :: ((((Npos (XO (XI (XO
    (XI (XI (XO (XO (XO (XO (XO (XO (XO (XI XH)))))))))))))), (Npos (XI (XI
    (XO (XI (XI (XO (XO (XO (XO (XO (XO (XO (XI XH))))))))))))))),
    None) :: ((((Npos (XI (XO (XO (XI (XI (XO (XI (XO (XO (XI (XI (XI (XI (XI
    (XI XH)))))))))))))))), (Npos (XO (XI (XO (XI (XI (XO (XI (XO (XO (XI (XI
    (XI (XI (XI (XI XH))))))))))))))))), None) :: ((((Npos (XI (XI (XO (XI
    (XI (XO (XI (XO (XO (XI (XI (XI (XI (XI (XI XH)))))))))))))))), (Npos (XO
    (XO (XI (XI (XI (XO (XI (XO (XO (XI (XI (XI (XI (XI (XI
    XH))))))))))))))))), None) :: ((((Npos (XI (XO (XI (XI (XI (XO (XI (XO
    (XO (XI (XI (XI (XI (XI (XI XH)))))))))))))))), (Npos (XO (XI (XI (XI (XI
    (XO (XI (XO (XO (XI (XI (XI (XI (XI (XI XH))))))))))))))))),
    None) :: ((((Npos (XO (XO (XO (XI (XO (XO (XO (XO (XI (XI (XI (XI (XI (XI
    (XI XH)))))))))))))))), (Npos (XI (XO (XO (XI (XO (XO (XO (XO (XI (XI (XI
    (XI (XI (XI (XI XH))))))))))))))))), None) :: ((((Npos (XI (XI (XO (XI
    (XI (XI (XO (XO (XI (XI (XI (XI (XI (XI (XI XH)))))))))))))))), (Npos (XI
    (XO (XI (XI (XI (XI (XO (XO (XI (XI (XI (XI (XI (XI (XI
    XH))))))))))))))))), None) :: ((((Npos (XI (XI (XO (XI (XI (XO (XI (XO
    (XI (XI (XI (XI (XI (XI (XI XH)))))))))))))))), (Npos (XI (XO (XI (XI (XI
    (XO (XI (XO (XI (XI (XI (XI (XI (XI (XI XH))))))))))))))))),
    None) :: ((((Npos (XI (XI (XI (XI (XI (XO (XI (XO (XI (XI (XI (XI (XI (XI
    (XI XH)))))))))))))))), (Npos (XO (XO (XO (XO (XO (XI (XI (XO (XI (XI (XI
    (XI (XI (XI (XI XH))))))))))))))))), None) :: ((((Npos (XO (XI (XO (XO
    (XO (XI (XI (XO (XI (XI (XI (XI (XI (XI (XI XH)))))))))))))))), (Npos (XI
    (XI (XO (XO (XO (XI (XI (XO (XI (XI (XI (XI (XI (XI (XI
    XH))))))))))))))))),
    None) :: [])))))))))))))))))))))))))))))))))))))))))))))))))))))))))))))))

(** val max_explicit_depth : nat **)

let max_explicit_depth =
  max_depth

(** val max_implicit_depth : nat **)

let max_implicit_depth =
  add max_depth (S O)

(** val level_new : nat -> nat option **)

let level_new n0 =
  if Nat.leb n0 max_implicit_depth then Some n0 else None

(** val level_new_explicit : nat -> nat option **)

let level_new_explicit n0 =
  if Nat.leb n0 max_explicit_depth then Some n0 else None

(** val is_ltr : nat -> bool **)

let is_ltr l =
  Nat.eqb (Nat.modulo l (S (S O))) O

(** val is_rtl : nat -> bool **)

let is_rtl l =
  Nat.eqb (Nat.modulo l (S (S O))) (S O)

(** val level_raise : nat -> nat -> nat option **)

let level_raise l amount =
  if Nat.leb (add l amount) (S (S (S (S (S (S (S (S (S (S (S (S (S (S (S (S
       (S (S (S (S (S (S (S (S (S (S (S (S (S (S (S (S (S (S (S (S (S (S (S
       (S (S (S (S (S (S (S (S (S (S (S (S (S (S (S (S (S (S (S (S (S (S (S
       (S (S (S (S (S (S (S (S (S (S (S (S (S (S (S (S (S (S (S (S (S (S (S
       (S (S (S (S (S (S (S (S (S (S (S (S (S (S (S (S (S (S (S (S (S (S (S
       (S (S (S (S (S (S (S (S (S (S (S (S (S (S (S (S (S (S (S (S (S (S (S
       (S (S (S (S (S (S (S (S (S (S (S (S (S (S (S (S (S (S (S (S (S (S (S
       (S (S (S (S (S (S (S (S (S (S (S (S (S (S (S (S (S (S (S (S (S (S (S
       (S (S (S (S (S (S (S (S (S (S (S (S (S (S (S (S (S (S (S (S (S (S (S
       (S (S (S (S (S (S (S (S (S (S (S (S (S (S (S (S (S (S (S (S (S (S (S
       (S (S (S (S (S (S (S (S (S (S (S (S (S (S (S (S (S (S (S (S (S (S (S
       (S (S (S (S (S (S (S (S (S
       O)))))))))))))))))))))))))))))))))))))))))))))))))))))))))))))))))))))))))))))))))))))))))))))))))))))))))))))))))))))))))))))))))))))))))))))))))))))))))))))))))))))))))))))))))))))))))))))))))))))))))))))))))))))))))))))))))))))))))))))))))))))))))))))))
  then if Nat.leb (add l amount) max_implicit_depth
       then Some (add l amount)
       else None
  else None

(** val level_raise_explicit : nat -> nat -> nat option **)

let level_raise_explicit l amount =
  if Nat.leb (add l amount) (S (S (S (S (S (S (S (S (S (S (S (S (S (S (S (S
       (S (S (S (S (S (S (S (S (S (S (S (S (S (S (S (S (S (S (S (S (S (S (S
       (S (S (S (S (S (S (S (S (S (S (S (S (S (S (S (S (S (S (S (S (S (S (S
       (S (S (S (S (S (S (S (S (S (S (S (S (S (S (S (S (S (S (S (S (S (S (S
       (S (S (S (S (S (S (S (S (S (S (S (S (S (S (S (S (S (S (S (S (S (S (S
       (S (S (S (S (S (S (S (S (S (S (S (S (S (S (S (S (S (S (S (S (S (S (S
       (S (S (S (S (S (S (S (S (S (S (S (S (S (S (S (S (S (S (S (S (S (S (S
       (S (S (S (S (S (S (S (S (S (S (S (S (S (S (S (S (S (S (S (S (S (S (S
       (S (S (S (S (S (S (S (S (S (S (S (S (S (S (S (S (S (S (S (S (S (S (S
       (S (S (S (S (S (S (S (S (S (S (S (S (S (S (S (S (S (S (S (S (S (S (S
       (S (S (S (S (S (S (S (S (S (S (S (S (S (S (S (S (S (S (S (S (S (S (S
       (S (S (S (S (S (S (S (S (S
       O)))))))))))))))))))))))))))))))))))))))))))))))))))))))))))))))))))))))))))))))))))))))))))))))))))))))))))))))))))))))))))))))))))))))))))))))))))))))))))))))))))))))))))))))))))))))))))))))))))))))))))))))))))))))))))))))))))))))))))))))))))))))))))))))
  then if Nat.leb (add l amount) max_explicit_depth
       then Some (add l amount)
       else None
  else None

(** val level_lower : nat -> nat -> nat option **)

let level_lower l amount =
  if Nat.leb amount l then Some (sub l amount) else None

(** val clear_bit0 : nat -> nat **)

let clear_bit0 n0 =
  sub n0 (Nat.modulo n0 (S (S O)))

(** val set_bit0 : nat -> nat **)

let set_bit0 n0 =
  if Nat.eqb (Nat.modulo n0 (S (S O))) O then add n0 (S O) else n0

(** val level_next_ltr : nat -> nat option **)

let level_next_ltr l =
  level_new_explicit (clear_bit0 (add l (S (S O))))

(** val level_next_rtl : nat -> nat option **)

let level_next_rtl l =
  level_new_explicit (set_bit0 (add l (S O)))

(** val level_lowest_ge_rtl : nat -> nat option **)

let level_lowest_ge_rtl l =
  level_new (set_bit0 l)

(** val level_class : nat -> bclass **)

let level_class l =
  if is_rtl l then R else L

(** val levels_has_rtl : nat list -> bool **)

let levels_has_rtl ls =
  existsb is_rtl ls

(** val bsearch_fuel :
    nat -> ((n * n) * bclass) list -> n -> nat -> nat -> bclass option **)

let rec bsearch_fuel fuel tab c lo hi =
  match fuel with
  | O -> None
  | S f ->
    if Nat.leb hi lo
    then None
    else let mid = add lo (Nat.div (sub hi lo) (S (S O))) in
         (match nth_error tab mid with
          | Some p ->
            let (p0, k) = p in
            let (a, b) = p0 in
            if (&&) (N.leb a c) (N.leb c b)
            then Some k
            else if N.ltb b c
                 then bsearch_fuel f tab c (S mid) hi
                 else bsearch_fuel f tab c lo mid
          | None -> None)

(** val bsearch_class : ((n * n) * bclass) list -> n -> bclass **)

let bsearch_class tab c =
  match bsearch_fuel (S (length tab)) tab c O (length tab) with
  | Some k -> k
  | None -> L

(** val hardcoded_class : n -> bclass **)

let hardcoded_class c =
  bsearch_class bidi_class_table c

(** val matched_opening_bracket_in :
    ((n * n) * n option) list -> n -> (n * bool) option **)

let rec matched_opening_bracket_in tab c =
  match tab with
  | [] -> None
  | p :: rest ->
    let (p0, k) = p in
    let (o, cl) = p0 in
    if (||) (N.eqb o c) (N.eqb cl c)
    then Some ((match k with
                | Some s -> s
                | None -> o), (N.eqb o c))
    else matched_opening_bracket_in rest c

(** val hardcoded_bracket : n -> (n * bool) option **)

let hardcoded_bracket c =
  matched_opening_bracket_in bidi_pairs_table c

(** val class_is_rtl : bclass -> bool **)

let class_is_rtl = function
| RLE -> true
| RLI -> true
| RLO -> true
| _ -> false

type datasource = { ds_class : (n -> bclass);
                    ds_bracket : (n -> (n * bool) option) }

(** val hardcoded_ds : datasource **)

let hardcoded_ds =
  { ds_class = hardcoded_class; ds_bracket = hardcoded_bracket }

type enc =
| U8
| U16
| U32

(** val len_utf8 : n -> nat **)

let len_utf8 c =
  if N.ltb c (Npos (XO (XO (XO (XO (XO (XO (XO XH))))))))
  then S O
  else if N.ltb c (Npos (XO (XO (XO (XO (XO (XO (XO (XO (XO (XO (XO
            XH))))))))))))
       then S (S O)
       else if N.ltb c (Npos (XO (XO (XO (XO (XO (XO (XO (XO (XO (XO (XO (XO
                 (XO (XO (XO (XO XH)))))))))))))))))
            then S (S (S O))
            else S (S (S (S O)))

(** val len_utf16 : n -> nat **)

let len_utf16 c =
  if N.ltb c (Npos (XO (XO (XO (XO (XO (XO (XO (XO (XO (XO (XO (XO (XO (XO
       (XO (XO XH)))))))))))))))))
  then S O
  else S (S O)

(** val char_len : enc -> n -> nat **)

let char_len e c =
  match e with
  | U8 -> len_utf8 c
  | U16 -> len_utf16 c
  | U32 -> S O

(** val rEPLACEMENT : n **)

let rEPLACEMENT =
  Npos (XI (XO (XI (XI (XI (XI (XI (XI (XI (XI (XI (XI (XI (XI (XI
    XH)))))))))))))))

(** val is_high_surrogate : n -> bool **)

let is_high_surrogate u =
  N.eqb
    (N.coq_land u (Npos (XO (XO (XO (XO (XO (XO (XO (XO (XO (XO (XI (XI (XI
      (XI (XI XH))))))))))))))))) (Npos (XO (XO (XO (XO (XO (XO (XO (XO (XO
    (XO (XO (XI (XI (XO (XI XH))))))))))))))))

(** val is_low_surrogate : n -> bool **)

let is_low_surrogate u =
  N.eqb
    (N.coq_land u (Npos (XO (XO (XO (XO (XO (XO (XO (XO (XO (XO (XI (XI (XI
      (XI (XI XH))))))))))))))))) (Npos (XO (XO (XO (XO (XO (XO (XO (XO (XO
    (XO (XI (XI (XI (XO (XI XH))))))))))))))))

(** val from_u32_ok : n -> bool **)

let from_u32_ok u =
  negb
    ((&&)
      (N.leb (Npos (XO (XO (XO (XO (XO (XO (XO (XO (XO (XO (XO (XI (XI (XO
        (XI XH)))))))))))))))) u)
      (N.leb u (Npos (XI (XI (XI (XI (XI (XI (XI (XI (XI (XI (XI (XI (XI (XO
        (XI XH))))))))))))))))))

(** val decode_first : n list -> nat -> n -> n * nat **)

let decode_first t i c =
  if is_high_surrogate c
  then (match nth_error t (S i) with
        | Some d ->
          if is_low_surrogate d
          then ((N.add
                  (N.add (Npos (XO (XO (XO (XO (XO (XO (XO (XO (XO (XO (XO
                    (XO (XO (XO (XO (XO XH)))))))))))))))))
                    (N.mul
                      (N.sub c (Npos (XO (XO (XO (XO (XO (XO (XO (XO (XO (XO
                        (XO (XI (XI (XO (XI XH))))))))))))))))) (Npos (XO (XO
                      (XO (XO (XO (XO (XO (XO (XO (XO XH)))))))))))))
                  (N.sub d (Npos (XO (XO (XO (XO (XO (XO (XO (XO (XO (XO (XI
                    (XI (XI (XO (XI XH)))))))))))))))))), (S (S O)))
          else (rEPLACEMENT, (S O))
        | None -> (rEPLACEMENT, (S O)))
  else (rEPLACEMENT, (S O))

(** val char_at16 : n list -> nat -> (n * nat) option **)

let char_at16 t i =
  match nth_error t i with
  | Some c ->
    if from_u32_ok c
    then Some (c, (S O))
    else if (&&) ((&&) (is_low_surrogate c) (Nat.ltb O i))
              (match nth_error t (sub i (S O)) with
               | Some p -> is_high_surrogate p
               | None -> false)
         then None
         else Some (decode_first t i c)
  | None -> None

(** val iter16 : nat -> n list -> nat -> ((nat * n) * nat) list **)

let rec iter16 fuel t pos =
  match fuel with
  | O -> []
  | S f ->
    (match char_at16 t pos with
     | Some p -> let (c, l) = p in ((pos, c), l) :: (iter16 f t (add pos l))
     | None -> [])

(** val char_indices16 : n list -> (nat * n) list **)

let char_indices16 t =
  map (fun x -> let (y, _) = x in y) (iter16 (S (length t)) t O)

(** val indices_lengths16 : n list -> (nat * nat) list **)

let indices_lengths16 t =
  map (fun x -> let (y, l) = x in let (p, _) = y in (p, l))
    (iter16 (S (length t)) t O)

(** val chars16_new : n list -> nat * nat **)

let chars16_new t =
  (O, (length t))

(** val chars16_next : n list -> (nat * nat) -> n option * (nat * nat) **)

let chars16_next t st = match st with
| (cur, en) ->
  if Nat.leb en cur
  then (None, st)
  else (match char_at16 t cur with
        | Some p -> let (c, l) = p in ((Some c), ((add cur l), en))
        | None -> (None, st))

(** val chars16_next_legacy :
    n list -> (nat * nat) -> n option * (nat * nat) **)

let chars16_next_legacy t st = match st with
| (cur, en) ->
  (match char_at16 t cur with
   | Some p -> let (c, l) = p in ((Some c), ((add cur l), en))
   | None -> (None, st))

(** val chars16_next_back :
    n list -> (nat * nat) -> (n option * (nat * nat)) res **)

let chars16_next_back t st = match st with
| (cur, en) ->
  if Nat.leb en cur
  then Ok (None, st)
  else let en1 = sub en (S O) in
       bind
         (get (S (S (S (S (S (S (S (S (S (S (S (S (S (S (S (S (S (S (S (S (S
           (S (S (S (S (S (S (S (S (S (S (S (S (S (S (S (S (S (S (S (S (S (S
           (S (S (S (S (S (S (S (S (S (S (S (S (S (S (S (S (S (S (S (S (S (S
           (S (S (S (S (S (S (S (S (S (S (S (S (S (S (S (S (S (S (S (S (S (S
           (S (S (S (S (S (S (S (S (S (S (S (S (S (S (S (S (S (S (S (S (S (S
           (S (S (S (S (S (S (S (S (S (S (S (S (S (S (S (S (S (S (S (S (S (S
           (S (S (S (S (S (S (S (S (S (S (S (S (S (S (S (S (S (S (S (S (S (S
           (S (S (S (S (S (S (S (S (S (S (S (S (S (S (S (S (S (S (S (S (S (S
           (S (S (S (S (S (S (S (S (S (S (S (S (S (S (S (S (S (S (S (S (S (S
           (S (S (S (S (S (S (S (S (S (S (S (S (S (S (S (S (S (S (S (S (S (S
           (S (S (S (S (S (S (S (S (S (S (S (S (S (S (S (S (S (S (S (S (S (S
           (S (S (S (S (S (S (S (S (S (S (S (S (S (S (S (S (S (S (S (S (S (S
           (S (S (S (S (S (S (S (S (S (S (S (S (S (S (S (S (S (S (S (S (S (S
           (S (S (S (S (S (S (S (S (S (S (S (S (S (S (S (S (S (S (S (S (S (S
           (S (S (S (S (S (S (S (S (S (S (S (S (S (S (S (S (S (S (S (S (S (S
           (S (S (S (S (S (S (S (S (S (S (S (S (S (S (S (S (S (S (S (S (S (S
           (S (S (S (S (S (S (S (S (S (S (S (S (S (S (S (S (S (S (S (S (S (S
           (S (S (S (S (S (S (S (S (S (S (S (S (S (S (S (S (S (S (S (S (S (S
           (S (S (S (S (S (S (S (S (S (S (S (S (S (S (S (S (S (S (S (S (S (S
           (S (S (S (S (S (S (S (S (S (S (S (S (S (S (S (S (S (S (S (S (S (S
           (S (S (S (S (S (S (S (S (S (S (S (S (S (S (S (S (S (S (S (S (S (S
           (S (S (S (S (S (S (S (S (S (S (S (S (S (S (S (S (S (S (S (S (S (S
           (S (S (S (S (S (S (S (S (S (S (S (S (S (S (S (S (S (S (S (S (S (S
           (S (S (S (S (S (S (S (S (S (S (S (S (S (S (S (S (S (S (S (S (S (S
           (S (S (S (S (S (S (S (S (S (S (S (S (S (S (S (S (S (S (S (S (S (S
           (S (S (S (S (S (S (S (S (S (S (S (S (S (S (S (S (S (S (S (S (S (S
           (S (S (S (S (S (S (S (S (S (S (S (S (S (S (S (S (S (S (S (S (S (S
           (S (S (S (S (S (S (S (S (S (S (S (S (S (S (S (S (S (S (S (S (S (S
           (S (S (S (S (S (S (S (S (S (S (S (S (S (S (S (S (S (S (S (S (S (S
           (S (S (S (S (S (S (S (S (S (S (S (S (S (S (S (S (S (S (S (S (S (S
           (S (S (S (S (S (S (S (S (S (S (S (S (S (S (S (S (S (S (S (S (S (S
           (S (S (S (S (S (S (S (S (S (S (S (S (S (S (S (S (S (S (S (S (S (S
           (S (S (S (S (S (S (S (S (S (S (S (S (S (S (S (S (S (S (S (S (S (S
           (S (S (S (S (S (S (S (S (S (S (S (S (S (S (S (S (S (S (S (S (S (S
           (S (S (S (S (S (S (S (S (S (S (S (S (S (S (S (S (S (S (S (S (S (S
           (S (S (S (S (S (S (S (S (S (S (S (S (S
           O))))))))))))))))))))))))))))))))))))))))))))))))))))))))))))))))))))))))))))))))))))))))))))))))))))))))))))))))))))))))))))))))))))))))))))))))))))))))))))))))))))))))))))))))))))))))))))))))))))))))))))))))))))))))))))))))))))))))))))))))))))))))))))))))))))))))))))))))))))))))))))))))))))))))))))))))))))))))))))))))))))))))))))))))))))))))))))))))))))))))))))))))))))))))))))))))))))))))))))))))))))))))))))))))))))))))))))))))))))))))))))))))))))))))))))))))))))))))))))))))))))))))))))))))))))))))))))))))))))))))))))))))))))))))))))))))))))))))))))))))))))))))))))))))))))))))))))))))))))))))))))))))))))))))))))))))))))))))))))))))))))))))))))))))))))))))))))))))))))))))))))))))))))))))))))))))))))))))))))))))))))))))))))))))))))))))))))))))))))))))))))))))))))))))))))))
           t en1) (fun u ->
         if from_u32_ok u
         then Ok ((Some u), (cur, en1))
         else if Nat.ltb cur en1
              then (match char_at16 t (sub en1 (S O)) with
                    | Some p ->
                      let (c, n0) = p in
                      (match n0 with
                       | O -> Ok ((Some rEPLACEMENT), (cur, en1))
                       | S n1 ->
                         (match n1 with
                          | O -> Ok ((Some rEPLACEMENT), (cur, en1))
                          | S n2 ->
                            (match n2 with
                             | O -> Ok ((Some c), (cur, (sub en1 (S O))))
                             | S _ -> Ok ((Some rEPLACEMENT), (cur, en1)))))
                    | None -> Ok ((Some rEPLACEMENT), (cur, en1)))
              else Ok ((Some rEPLACEMENT), (cur, en1)))

(** val chars16 : n list -> n list **)

let chars16 t =
  map snd (char_indices16 t)

(** val chars16_rev_fuel : nat -> n list -> (nat * nat) -> n list res **)

let rec chars16_rev_fuel fuel t st =
  match fuel with
  | O -> Ok []
  | S f ->
    bind (chars16_next_back t st) (fun r ->
      let (o, st') = r in
      (match o with
       | Some c ->
         bind (chars16_rev_fuel f t st') (fun rest -> Ok (c :: rest))
       | None -> Ok []))

(** val chars16_rev : n list -> n list res **)

let chars16_rev t =
  chars16_rev_fuel (S (length t)) t (chars16_new t)

(** val char_indices8_from : nat -> n list -> (nat * n) list **)

let rec char_indices8_from pos = function
| [] -> []
| c :: rest -> (pos, c) :: (char_indices8_from (add pos (len_utf8 c)) rest)

(** val char_indices8 : n list -> (nat * n) list **)

let char_indices8 t =
  char_indices8_from O t

(** val len8 : n list -> nat **)

let rec len8 = function
| [] -> O
| c :: r -> add (len_utf8 c) (len8 r)

(** val char_at8 : n list -> nat -> (n * nat) option **)

let rec char_at8 t i =
  match t with
  | [] -> None
  | c :: rest ->
    if Nat.eqb i O
    then Some (c, (len_utf8 c))
    else if Nat.ltb i (len_utf8 c)
         then None
         else char_at8 rest (sub i (len_utf8 c))

(** val drop_units8 : n list -> nat -> n list option **)

let rec drop_units8 t a = match a with
| O -> Some t
| S _ ->
  (match t with
   | [] -> None
   | c :: rest ->
     if Nat.leb (len_utf8 c) a
     then drop_units8 rest (sub a (len_utf8 c))
     else None)

(** val take_units8 : n list -> nat -> n list option **)

let rec take_units8 t n0 = match n0 with
| O -> Some []
| S _ ->
  (match t with
   | [] -> None
   | c :: rest ->
     if Nat.leb (len_utf8 c) n0
     then (match take_units8 rest (sub n0 (len_utf8 c)) with
           | Some r -> Some (c :: r)
           | None -> None)
     else None)

(** val t_len : enc -> n list -> nat **)

let t_len e t =
  match e with
  | U8 -> len8 t
  | _ -> length t

(** val t_char_at : enc -> n list -> nat -> (n * nat) option **)

let t_char_at e t i =
  match e with
  | U8 -> char_at8 t i
  | U16 -> char_at16 t i
  | U32 -> (match nth_error t i with
            | Some c -> Some (c, (S O))
            | None -> None)

(** val t_subrange : nat -> enc -> n list -> nat -> nat -> n list res **)

let t_subrange site e t a b =
  match e with
  | U8 ->
    if Nat.leb a b
    then (match drop_units8 t a with
          | Some t1 ->
            (match take_units8 t1 (sub b a) with
             | Some t2 -> Ok t2
             | None -> Panic site)
          | None -> Panic site)
    else Panic site
  | _ -> slice site t a b

(** val t_char_indices : enc -> n list -> (nat * n) list **)

let t_char_indices e t =
  match e with
  | U8 -> char_indices8 t
  | U16 -> char_indices16 t
  | U32 -> combine (seq O (length t)) t

(** val t_indices_lengths : enc -> n list -> (nat * nat) list **)

let t_indices_lengths e t =
  match e with
  | U8 -> map (fun x -> ((fst x), (len_utf8 (snd x)))) (char_indices8 t)
  | U16 -> indices_lengths16 t
  | U32 -> map (fun i -> (i, (S O))) (seq O (length t))

(** val t_chars : enc -> n list -> n list **)

let t_chars e t =
  match e with
  | U16 -> chars16 t
  | _ -> t

(** val t_chars_rev : enc -> n list -> n list res **)

let t_chars_rev e t =
  match e with
  | U16 -> chars16_rev t
  | _ -> Ok (rev t)

(** val removed_by_x9 : bclass -> bool **)

let removed_by_x9 = function
| BN -> true
| LRE -> true
| LRO -> true
| PDF -> true
| RLE -> true
| RLO -> true
| _ -> false

(** val not_removed_by_x9 : bclass -> bool **)

let not_removed_by_x9 k =
  negb (removed_by_x9 k)

(** val is_isolate_init : bclass -> bool **)

let is_isolate_init = function
| FSI -> true
| LRI -> true
| RLI -> true
| _ -> false

(** val is_NI : bclass -> bool **)

let is_NI = function
| B -> true
| FSI -> true
| LRI -> true
| ON -> true
| PDI -> true
| RLI -> true
| SS -> true
| WS -> true
| _ -> false

type run = nat * nat

(** val run_range : run -> nat list **)

let run_range r =
  range (fst r) (snd r)

type para_info = { p_start : nat; p_end : nat; p_level : nat }

type para_flags = { f_pure_ltr : bool; f_has_isolate : bool }

type ii_state = { ii_classes : bclass list; ii_stack : nat list;
                  ii_para_start : nat; ii_para_level : nat option;
                  ii_pure : bool; ii_iso : bool; ii_paras : para_info list;
                  ii_flags : para_flags list }

(** val write_fsi :
    bclass list -> nat -> nat list -> bclass -> bclass list res **)

let rec write_fsi cls start js k =
  match js with
  | [] -> Ok cls
  | j :: rest ->
    bind
      (upd (S (S (S (S (S (S (S (S (S (S (S (S (S (S (S (S (S (S (S (S (S (S
        (S (S (S (S (S (S (S (S (S (S (S (S (S (S (S (S (S (S (S (S (S (S (S
        (S (S (S (S (S (S (S (S (S (S (S (S (S (S (S (S (S (S (S (S (S (S (S
        (S (S (S (S (S (S (S (S (S (S (S (S (S (S (S (S (S (S (S (S (S (S (S
        (S (S (S (S (S (S (S (S (S (S (S (S (S (S (S (S (S (S (S (S (S (S (S
        (S (S (S (S (S (S (S (S (S (S (S (S (S (S (S (S (S (S (S (S (S (S (S
        (S (S (S (S (S (S (S (S (S (S (S (S (S (S (S (S (S (S (S (S (S (S (S
        (S (S (S (S (S (S (S (S (S (S (S (S (S (S (S (S (S (S (S (S (S (S (S
        (S (S (S (S (S (S (S (S (S (S (S (S (S (S (S (S (S (S (S (S (S (S (S
        (S (S (S (S (S (S (S (S (S (S (S (S (S (S (S (S (S (S (S (S (S (S (S
        (S (S (S (S (S (S (S (S (S (S (S (S (S (S (S (S (S (S (S (S (S (S (S
        (S (S (S (S (S (S (S (S (S (S (S (S (S (S (S (S (S (S (S (S (S (S (S
        (S (S (S (S (S (S (S (S (S (S (S (S (S (S (S (S (S (S (S (S (S (S (S
        (S (S (S (S (S (S (S (S (S (S (S (S (S (S (S (S (S (S (S (S (S (S (S
        (S (S (S (S (S (S (S (S (S (S (S (S (S (S (S (S (S (S (S (S (S (S (S
        (S (S (S (S (S (S (S (S (S (S (S (S (S (S (S (S (S (S (S (S (S (S (S
        (S (S (S (S (S (S (S (S (S (S (S (S (S (S (S (S (S (S (S (S
        O)))))))))))))))))))))))))))))))))))))))))))))))))))))))))))))))))))))))))))))))))))))))))))))))))))))))))))))))))))))))))))))))))))))))))))))))))))))))))))))))))))))))))))))))))))))))))))))))))))))))))))))))))))))))))))))))))))))))))))))))))))))))))))))))))))))))))))))))))))))))))))))))))))))))))))))))))))))))))))))))))))))))))))))))))))))))))))))))))))))))))))))))))))))))))))))))))))
        cls (add start j) k) (fun cls' -> write_fsi cls' start rest k)

(** val ii_step :
    enc -> datasource -> bool -> nat option -> ii_state -> (nat * n) ->
    ii_state res **)

let ii_step e ds split default_level st = function
| (i, c) ->
  let class0 = ds.ds_class c in
  let len = char_len e c in
  let classes = app st.ii_classes (repeat class0 len) in
  let st0 = { ii_classes = classes; ii_stack = st.ii_stack; ii_para_start =
    st.ii_para_start; ii_para_level = st.ii_para_level; ii_pure = st.ii_pure;
    ii_iso = st.ii_iso; ii_paras = st.ii_paras; ii_flags = st.ii_flags }
  in
  (match class0 with
   | AL ->
     let pure = if ceq class0 L then st0.ii_pure else false in
     (match st0.ii_stack with
      | [] ->
        let pl =
          match st0.ii_para_level with
          | Some l -> Some l
          | None -> Some (if ceq class0 L then O else S O)
        in
        Ok { ii_classes = classes; ii_stack = []; ii_para_start =
        st0.ii_para_start; ii_para_level = pl; ii_pure = pure; ii_iso =
        st0.ii_iso; ii_paras = st0.ii_paras; ii_flags = st0.ii_flags }
      | start :: _ ->
        bind
          (get (S (S (S (S (S (S (S (S (S (S (S (S (S (S (S (S (S (S (S (S (S
            (S (S (S (S (S (S (S (S (S (S (S (S (S (S (S (S (S (S (S (S (S (S
            (S (S (S (S (S (S (S (S (S (S (S (S (S (S (S (S (S (S (S (S (S (S
            (S (S (S (S (S (S (S (S (S (S (S (S (S (S (S (S (S (S (S (S (S (S
            (S (S (S (S (S (S (S (S (S (S (S (S (S (S (S (S (S (S (S (S (S (S
            (S (S (S (S (S (S (S (S (S (S (S (S (S (S (S (S (S (S (S (S (S (S
            (S (S (S (S (S (S (S (S (S (S (S (S (S (S (S (S (S (S (S (S (S (S
            (S (S (S (S (S (S (S (S (S (S (S (S (S (S (S (S (S (S (S (S (S (S
            (S (S (S (S (S (S (S (S (S (S (S (S (S (S (S (S (S (S (S (S (S (S
            (S (S (S (S (S (S (S (S (S (S (S (S (S (S (S (S (S (S (S (S (S (S
            (S (S (S (S (S (S (S (S (S (S (S (S (S (S (S (S (S (S (S (S (S (S
            (S (S (S (S (S (S (S (S (S (S (S (S (S (S (S (S (S (S (S (S (S (S
            (S (S (S (S (S (S (S (S (S (S (S (S (S (S (S (S (S (S (S (S (S (S
            (S (S (S (S (S (S (S (S (S (S (S (S (S (S (S (S (S (S (S (S (S (S
            (S (S (S (S (S (S (S (S (S (S (S (S (S (S (S (S (S (S (S (S (S (S
            (S (S (S (S (S (S (S (S (S (S (S (S (S (S (S (S (S (S (S (S (S (S
            (S (S (S (S (S (S (S (S (S (S (S (S (S (S (S (S (S (S (S (S (S (S
            (S (S (S (S (S (S (S (S (S (S
            O)))))))))))))))))))))))))))))))))))))))))))))))))))))))))))))))))))))))))))))))))))))))))))))))))))))))))))))))))))))))))))))))))))))))))))))))))))))))))))))))))))))))))))))))))))))))))))))))))))))))))))))))))))))))))))))))))))))))))))))))))))))))))))))))))))))))))))))))))))))))))))))))))))))))))))))))))))))))))))))))))))))))))))))))))))))))))))))))))))))))))))))))))))))))))))))))
            classes start) (fun k ->
          bind
            (if ceq k FSI
             then write_fsi classes start (range O (char_len e fc_FSI))
                    (if ceq class0 L then LRI else RLI)
             else Ok classes) (fun classes' -> Ok { ii_classes = classes';
            ii_stack = st0.ii_stack; ii_para_start = st0.ii_para_start;
            ii_para_level = st0.ii_para_level; ii_pure = pure; ii_iso =
            st0.ii_iso; ii_paras = st0.ii_paras; ii_flags = st0.ii_flags })))
   | AN ->
     Ok { ii_classes = classes; ii_stack = st0.ii_stack; ii_para_start =
       st0.ii_para_start; ii_para_level = st0.ii_para_level; ii_pure = false;
       ii_iso = st0.ii_iso; ii_paras = st0.ii_paras; ii_flags = st0.ii_flags }
   | B ->
     if split
     then let para_end = add i len in
          Ok { ii_classes = classes; ii_stack = []; ii_para_start = para_end;
          ii_para_level = default_level; ii_pure = true; ii_iso = false;
          ii_paras =
          (app st0.ii_paras ({ p_start = st0.ii_para_start; p_end = para_end;
            p_level = (opt_or st0.ii_para_level O) } :: [])); ii_flags =
          (app st0.ii_flags ({ f_pure_ltr = st0.ii_pure; f_has_isolate =
            st0.ii_iso } :: [])) }
     else Ok st0
   | FSI ->
     Ok { ii_classes = classes; ii_stack = (i :: st0.ii_stack);
       ii_para_start = st0.ii_para_start; ii_para_level = st0.ii_para_level;
       ii_pure = false; ii_iso = true; ii_paras = st0.ii_paras; ii_flags =
       st0.ii_flags }
   | L ->
     let pure = if ceq class0 L then st0.ii_pure else false in
     (match st0.ii_stack with
      | [] ->
        let pl =
          match st0.ii_para_level with
          | Some l -> Some l
          | None -> Some (if ceq class0 L then O else S O)
        in
        Ok { ii_classes = classes; ii_stack = []; ii_para_start =
        st0.ii_para_start; ii_para_level = pl; ii_pure = pure; ii_iso =
        st0.ii_iso; ii_paras = st0.ii_paras; ii_flags = st0.ii_flags }
      | start :: _ ->
        bind
          (get (S (S (S (S (S (S (S (S (S (S (S (S (S (S (S (S (S (S (S (S (S
            (S (S (S (S (S (S (S (S (S (S (S (S (S (S (S (S (S (S (S (S (S (S
            (S (S (S (S (S (S (S (S (S (S (S (S (S (S (S (S (S (S (S (S (S (S
            (S (S (S (S (S (S (S (S (S (S (S (S (S (S (S (S (S (S (S (S (S (S
            (S (S (S (S (S (S (S (S (S (S (S (S (S (S (S (S (S (S (S (S (S (S
            (S (S (S (S (S (S (S (S (S (S (S (S (S (S (S (S (S (S (S (S (S (S
            (S (S (S (S (S (S (S (S (S (S (S (S (S (S (S (S (S (S (S (S (S (S
            (S (S (S (S (S (S (S (S (S (S (S (S (S (S (S (S (S (S (S (S (S (S
            (S (S (S (S (S (S (S (S (S (S (S (S (S (S (S (S (S (S (S (S (S (S
            (S (S (S (S (S (S (S (S (S (S (S (S (S (S (S (S (S (S (S (S (S (S
            (S (S (S (S (S (S (S (S (S (S (S (S (S (S (S (S (S (S (S (S (S (S
            (S (S (S (S (S (S (S (S (S (S (S (S (S (S (S (S (S (S (S (S (S (S
            (S (S (S (S (S (S (S (S (S (S (S (S (S (S (S (S (S (S (S (S (S (S
            (S (S (S (S (S (S (S (S (S (S (S (S (S (S (S (S (S (S (S (S (S (S
            (S (S (S (S (S (S (S (S (S (S (S (S (S (S (S (S (S (S (S (S (S (S
            (S (S (S (S (S (S (S (S (S (S (S (S (S (S (S (S (S (S (S (S (S (S
            (S (S (S (S (S (S (S (S (S (S (S (S (S (S (S (S (S (S (S (S (S (S
            (S (S (S (S (S (S (S (S (S (S
            O)))))))))))))))))))))))))))))))))))))))))))))))))))))))))))))))))))))))))))))))))))))))))))))))))))))))))))))))))))))))))))))))))))))))))))))))))))))))))))))))))))))))))))))))))))))))))))))))))))))))))))))))))))))))))))))))))))))))))))))))))))))))))))))))))))))))))))))))))))))))))))))))))))))))))))))))))))))))))))))))))))))))))))))))))))))))))))))))))))))))))))))))))))))))))))))))
            classes start) (fun k ->
          bind
            (if ceq k FSI
             then write_fsi classes start (range O (char_len e fc_FSI))
                    (if ceq class0 L then LRI else RLI)
             else Ok classes) (fun classes' -> Ok { ii_classes = classes';
            ii_stack = st0.ii_stack; ii_para_start = st0.ii_para_start;
            ii_para_level = st0.ii_para_level; ii_pure = pure; ii_iso =
            st0.ii_iso; ii_paras = st0.ii_paras; ii_flags = st0.ii_flags })))
   | LRE ->
     Ok { ii_classes = classes; ii_stack = st0.ii_stack; ii_para_start =
       st0.ii_para_start; ii_para_level = st0.ii_para_level; ii_pure = false;
       ii_iso = st0.ii_iso; ii_paras = st0.ii_paras; ii_flags = st0.ii_flags }
   | LRI ->
     Ok { ii_classes = classes; ii_stack = (i :: st0.ii_stack);
       ii_para_start = st0.ii_para_start; ii_para_level = st0.ii_para_level;
       ii_pure = false; ii_iso = true; ii_paras = st0.ii_paras; ii_flags =
       st0.ii_flags }
   | LRO ->
     Ok { ii_classes = classes; ii_stack = st0.ii_stack; ii_para_start =
       st0.ii_para_start; ii_para_level = st0.ii_para_level; ii_pure = false;
       ii_iso = st0.ii_iso; ii_paras = st0.ii_paras; ii_flags = st0.ii_flags }
   | PDI ->
     Ok { ii_classes = classes; ii_stack = (tl st0.ii_stack); ii_para_start =
       st0.ii_para_start; ii_para_level = st0.ii_para_level; ii_pure =
       st0.ii_pure; ii_iso = st0.ii_iso; ii_paras = st0.ii_paras; ii_flags =
       st0.ii_flags }
   | R ->
     let pure = if ceq class0 L then st0.ii_pure else false in
     (match st0.ii_stack with
      | [] ->
        let pl =
          match st0.ii_para_level with
          | Some l -> Some l
          | None -> Some (if ceq class0 L then O else S O)
        in
        Ok { ii_classes = classes; ii_stack = []; ii_para_start =
        st0.ii_para_start; ii_para_level = pl; ii_pure = pure; ii_iso =
        st0.ii_iso; ii_paras = st0.ii_paras; ii_flags = st0.ii_flags }
      | start :: _ ->
        bind
          (get (S (S (S (S (S (S (S (S (S (S (S (S (S (S (S (S (S (S (S (S (S
            (S (S (S (S (S (S (S (S (S (S (S (S (S (S (S (S (S (S (S (S (S (S
            (S (S (S (S (S (S (S (S (S (S (S (S (S (S (S (S (S (S (S (S (S (S
            (S (S (S (S (S (S (S (S (S (S (S (S (S (S (S (S (S (S (S (S (S (S
            (S (S (S (S (S (S (S (S (S (S (S (S (S (S (S (S (S (S (S (S (S (S
            (S (S (S (S (S (S (S (S (S (S (S (S (S (S (S (S (S (S (S (S (S (S
            (S (S (S (S (S (S (S (S (S (S (S (S (S (S (S (S (S (S (S (S (S (S
            (S (S (S (S (S (S (S (S (S (S (S (S (S (S (S (S (S (S (S (S (S (S
            (S (S (S (S (S (S (S (S (S (S (S (S (S (S (S (S (S (S (S (S (S (S
            (S (S (S (S (S (S (S (S (S (S (S (S (S (S (S (S (S (S (S (S (S (S
            (S (S (S (S (S (S (S (S (S (S (S (S (S (S (S (S (S (S (S (S (S (S
            (S (S (S (S (S (S (S (S (S (S (S (S (S (S (S (S (S (S (S (S (S (S
            (S (S (S (S (S (S (S (S (S (S (S (S (S (S (S (S (S (S (S (S (S (S
            (S (S (S (S (S (S (S (S (S (S (S (S (S (S (S (S (S (S (S (S (S (S
            (S (S (S (S (S (S (S (S (S (S (S (S (S (S (S (S (S (S (S (S (S (S
            (S (S (S (S (S (S (S (S (S (S (S (S (S (S (S (S (S (S (S (S (S (S
            (S (S (S (S (S (S (S (S (S (S (S (S (S (S (S (S (S (S (S (S (S (S
            (S (S (S (S (S (S (S (S (S (S
            O)))))))))))))))))))))))))))))))))))))))))))))))))))))))))))))))))))))))))))))))))))))))))))))))))))))))))))))))))))))))))))))))))))))))))))))))))))))))))))))))))))))))))))))))))))))))))))))))))))))))))))))))))))))))))))))))))))))))))))))))))))))))))))))))))))))))))))))))))))))))))))))))))))))))))))))))))))))))))))))))))))))))))))))))))))))))))))))))))))))))))))))))))))))))))))))))
            classes start) (fun k ->
          bind
            (if ceq k FSI
             then write_fsi classes start (range O (char_len e fc_FSI))
                    (if ceq class0 L then LRI else RLI)
             else Ok classes) (fun classes' -> Ok { ii_classes = classes';
            ii_stack = st0.ii_stack; ii_para_start = st0.ii_para_start;
            ii_para_level = st0.ii_para_level; ii_pure = pure; ii_iso =
            st0.ii_iso; ii_paras = st0.ii_paras; ii_flags = st0.ii_flags })))
   | RLE ->
     Ok { ii_classes = classes; ii_stack = st0.ii_stack; ii_para_start =
       st0.ii_para_start; ii_para_level = st0.ii_para_level; ii_pure = false;
       ii_iso = st0.ii_iso; ii_paras = st0.ii_paras; ii_flags = st0.ii_flags }
   | RLI ->
     Ok { ii_classes = classes; ii_stack = (i :: st0.ii_stack);
       ii_para_start = st0.ii_para_start; ii_para_level = st0.ii_para_level;
       ii_pure = false; ii_iso = true; ii_paras = st0.ii_paras; ii_flags =
       st0.ii_flags }
   | RLO ->
     Ok { ii_classes = classes; ii_stack = st0.ii_stack; ii_para_start =
       st0.ii_para_start; ii_para_level = st0.ii_para_level; ii_pure = false;
       ii_iso = st0.ii_iso; ii_paras = st0.ii_paras; ii_flags = st0.ii_flags }
   | _ -> Ok st0)

(** val ii_fold :
    enc -> datasource -> bool -> nat option -> ii_state -> (nat * n) list ->
    ii_state res **)

let rec ii_fold e ds split dl st = function
| [] -> Ok st
| ic :: rest ->
  bind (ii_step e ds split dl st ic) (fun st' ->
    ii_fold e ds split dl st' rest)

type initial_info = { in_classes : bclass list; in_level : nat;
                      in_pure : bool; in_iso : bool;
                      in_paras : para_info list; in_flags : para_flags list }

(** val compute_initial_info :
    enc -> datasource -> n list -> nat option -> bool -> initial_info res **)

let compute_initial_info e ds text default_level split =
  let st0 = { ii_classes = []; ii_stack = []; ii_para_start = O;
    ii_para_level = default_level; ii_pure = true; ii_iso = false; ii_paras =
    []; ii_flags = [] }
  in
  bind (ii_fold e ds split default_level st0 (t_char_indices e text))
    (fun st ->
    let n0 = t_len e text in
    if (&&) split (Nat.ltb st.ii_para_start n0)
    then let paras =
           app st.ii_paras ({ p_start = st.ii_para_start; p_end = n0;
             p_level = (opt_or st.ii_para_level O) } :: [])
         in
         let flags =
           app st.ii_flags ({ f_pure_ltr = st.ii_pure; f_has_isolate =
             st.ii_iso } :: [])
         in
         Ok { in_classes = st.ii_classes; in_level =
         (opt_or st.ii_para_level O); in_pure = st.ii_pure; in_iso =
         st.ii_iso; in_paras = paras; in_flags = flags }
    else let paras = st.ii_paras in
         let flags = st.ii_flags in
         Ok { in_classes = st.ii_classes; in_level =
         (opt_or st.ii_para_level O); in_pure = st.ii_pure; in_iso =
         st.ii_iso; in_paras = paras; in_flags = flags })

type ostatus =
| ONeutral
| ORTL
| OLTR
| OIsolate

(** val ostatus_is_isolate : ostatus -> bool **)

let ostatus_is_isolate = function
| OIsolate -> true
| _ -> false

type ex_state = { ex_stack : (nat * ostatus) list; ex_oi : nat; ex_oe : 
                  nat; ex_vi : nat; ex_levels : nat list;
                  ex_pc : bclass list; ex_run_level : nat;
                  ex_run_start : nat; ex_runs : run list }

(** val pop_through_isolate : (nat * ostatus) list -> (nat * ostatus) list **)

let rec pop_through_isolate = function
| [] -> []
| p :: r ->
  let (_, o) = p in (match o with
                     | OIsolate -> r
                     | _ -> pop_through_isolate r)

(** val apply_override :
    nat -> ostatus -> bclass list -> nat -> bclass list res **)

let apply_override site s pc i =
  match s with
  | ORTL -> upd site pc i R
  | OLTR -> upd site pc i L
  | _ -> Ok pc

(** val copy_units :
    nat list -> bclass list -> nat -> nat list -> (nat list * bclass list) res **)

let rec copy_units levels pc i = function
| [] -> Ok (levels, pc)
| j :: rest ->
  bind
    (get (S (S (S (S (S (S (S (S (S (S (S (S (S (S (S (S (S (S (S (S (S (S (S
      (S (S (S (S (S (S (S (S (S (S (S (S (S (S (S (S (S (S (S (S (S (S (S (S
      (S (S (S (S (S (S (S (S (S (S (S (S (S (S (S (S (S (S (S (S (S (S (S (S
      (S (S (S (S (S (S (S (S (S (S (S (S (S (S (S (S (S (S (S (S (S (S (S (S
      (S (S (S (S (S (S (S (S (S (S (S (S (S (S (S (S (S (S (S (S (S (S (S (S
      (S (S (S (S (S (S (S (S (S (S (S (S (S (S (S (S (S (S (S (S (S (S (S (S
      (S (S (S (S (S (S (S (S (S (S (S (S (S (S (S (S (S (S (S (S (S (S (S (S
      (S (S (S (S (S (S (S (S (S (S (S (S (S (S (S (S (S (S (S (S (S (S (S (S
      O)))))))))))))))))))))))))))))))))))))))))))))))))))))))))))))))))))))))))))))))))))))))))))))))))))))))))))))))))))))))))))))))))))))))))))))))))))))))))))))))))))))))))))))))))))))))))))))))
      levels i) (fun li ->
    bind
      (upd (S (S (S (S (S (S (S (S (S (S (S (S (S (S (S (S (S (S (S (S (S (S
        (S (S (S (S (S (S (S (S (S (S (S (S (S (S (S (S (S (S (S (S (S (S (S
        (S (S (S (S (S (S (S (S (S (S (S (S (S (S (S (S (S (S (S (S (S (S (S
        (S (S (S (S (S (S (S (S (S (S (S (S (S (S (S (S (S (S (S (S (S (S (S
        (S (S (S (S (S (S (S (S (S (S (S (S (S (S (S (S (S (S (S (S (S (S (S
        (S (S (S (S (S (S (S (S (S (S (S (S (S (S (S (S (S (S (S (S (S (S (S
        (S (S (S (S (S (S (S (S (S (S (S (S (S (S (S (S (S (S (S (S (S (S (S
        (S (S (S (S (S (S (S (S (S (S (S (S (S (S (S (S (S (S (S (S (S (S (S
        (S (S (S (S (S (S (S (S
        O)))))))))))))))))))))))))))))))))))))))))))))))))))))))))))))))))))))))))))))))))))))))))))))))))))))))))))))))))))))))))))))))))))))))))))))))))))))))))))))))))))))))))))))))))))))))))))))))
        levels (add i j) li) (fun levels' ->
      bind
        (get (S (S (S (S (S (S (S (S (S (S (S (S (S (S (S (S (S (S (S (S (S
          (S (S (S (S (S (S (S (S (S (S (S (S (S (S (S (S (S (S (S (S (S (S
          (S (S (S (S (S (S (S (S (S (S (S (S (S (S (S (S (S (S (S (S (S (S
          (S (S (S (S (S (S (S (S (S (S (S (S (S (S (S (S (S (S (S (S (S (S
          (S (S (S (S (S (S (S (S (S (S (S (S (S (S (S (S (S (S (S (S (S (S
          (S (S (S (S (S (S (S (S (S (S (S (S (S (S (S (S (S (S (S (S (S (S
          (S (S (S (S (S (S (S (S (S (S (S (S (S (S (S (S (S (S (S (S (S (S
          (S (S (S (S (S (S (S (S (S (S (S (S (S (S (S (S (S (S (S (S (S (S
          (S (S (S (S (S (S (S (S (S (S (S (S (S (S (S (S (S
          O))))))))))))))))))))))))))))))))))))))))))))))))))))))))))))))))))))))))))))))))))))))))))))))))))))))))))))))))))))))))))))))))))))))))))))))))))))))))))))))))))))))))))))))))))))))))))))))))
          pc i) (fun ci ->
        bind
          (upd (S (S (S (S (S (S (S (S (S (S (S (S (S (S (S (S (S (S (S (S (S
            (S (S (S (S (S (S (S (S (S (S (S (S (S (S (S (S (S (S (S (S (S (S
            (S (S (S (S (S (S (S (S (S (S (S (S (S (S (S (S (S (S (S (S (S (S
            (S (S (S (S (S (S (S (S (S (S (S (S (S (S (S (S (S (S (S (S (S (S
            (S (S (S (S (S (S (S (S (S (S (S (S (S (S (S (S (S (S (S (S (S (S
            (S (S (S (S (S (S (S (S (S (S (S (S (S (S (S (S (S (S (S (S (S (S
            (S (S (S (S (S (S (S (S (S (S (S (S (S (S (S (S (S (S (S (S (S (S
            (S (S (S (S (S (S (S (S (S (S (S (S (S (S (S (S (S (S (S (S (S (S
            (S (S (S (S (S (S (S (S (S (S (S (S (S (S (S (S (S
            O))))))))))))))))))))))))))))))))))))))))))))))))))))))))))))))))))))))))))))))))))))))))))))))))))))))))))))))))))))))))))))))))))))))))))))))))))))))))))))))))))))))))))))))))))))))))))))))))
            pc (add i j) ci) (fun pc' -> copy_units levels' pc' i rest))))

(** val ex_step : bclass list -> ex_state -> (nat * nat) -> ex_state res **)

let ex_step oc st = function
| (i, len) ->
  (match st.ex_stack with
   | [] ->
     Panic (S (S (S (S (S (S (S (S (S (S (S (S (S (S (S (S (S (S (S (S (S (S
       (S (S (S (S (S (S (S (S (S (S (S (S (S (S (S (S (S (S (S (S (S (S (S
       (S (S (S (S (S (S (S (S (S (S (S (S (S (S (S (S (S (S (S
       O))))))))))))))))))))))))))))))))))))))))))))))))))))))))))))))))
   | p :: _ ->
     let (last_level, last_status) = p in
     bind
       (get (S (S (S (S (S (S (S (S (S (S (S (S (S (S (S (S (S (S (S (S (S (S
         (S (S (S (S (S (S (S (S (S (S (S (S (S (S (S (S (S (S (S (S (S (S (S
         (S (S (S (S (S (S (S (S (S (S (S (S (S (S (S (S (S (S (S (S (S
         O))))))))))))))))))))))))))))))))))))))))))))))))))))))))))))))))))
         oc i) (fun k ->
       bind
         (match k with
          | B ->
            Ok (((((st.ex_stack, st.ex_oi), st.ex_oe), st.ex_vi),
              st.ex_levels), st.ex_pc)
          | FSI ->
            bind
              (upd (S (S (S (S (S (S (S (S (S (S (S (S (S (S (S (S (S (S (S
                (S (S (S (S (S (S (S (S (S (S (S (S (S (S (S (S (S (S (S (S
                (S (S (S (S (S (S (S (S (S (S (S (S (S (S (S (S (S (S (S (S
                (S (S (S (S (S (S (S (S (S (S (S
                O))))))))))))))))))))))))))))))))))))))))))))))))))))))))))))))))))))))
                st.ex_levels i last_level) (fun levels ->
              let is_isolate = is_isolate_init k in
              bind
                (if is_isolate
                 then apply_override (S (S (S (S (S (S (S (S (S (S (S (S (S
                        (S (S (S (S (S (S (S (S (S (S (S (S (S (S (S (S (S (S
                        (S (S (S (S (S (S (S (S (S (S (S (S (S (S (S (S (S (S
                        (S (S (S (S (S (S (S (S (S (S (S (S (S (S (S (S (S (S
                        (S (S (S (S (S (S (S (S (S (S (S
                        O))))))))))))))))))))))))))))))))))))))))))))))))))))))))))))))))))))))))))))))
                        last_status st.ex_pc i
                 else Ok st.ex_pc) (fun pc ->
                let new_level =
                  if class_is_rtl k
                  then level_next_rtl last_level
                  else level_next_ltr last_level
                in
                bind
                  (match new_level with
                   | Some nl ->
                     if (&&) (Nat.eqb st.ex_oi O) (Nat.eqb st.ex_oe O)
                     then let status =
                            match k with
                            | FSI -> OIsolate
                            | LRI -> OIsolate
                            | LRO -> OLTR
                            | RLI -> OIsolate
                            | RLO -> ORTL
                            | _ -> ONeutral
                          in
                          let stack = (nl, status) :: st.ex_stack in
                          if is_isolate
                          then Ok ((((stack, st.ex_oi), st.ex_oe), (S
                                 st.ex_vi)), levels)
                          else bind
                                 (upd (S (S (S (S (S (S (S (S (S (S (S (S (S
                                   (S (S (S (S (S (S (S (S (S (S (S (S (S (S
                                   (S (S (S (S (S (S (S (S (S (S (S (S (S (S
                                   (S (S (S (S (S (S (S (S (S (S (S (S (S (S
                                   (S (S (S (S (S (S (S (S (S (S (S (S (S (S
                                   (S (S (S (S (S (S (S (S (S (S (S (S (S (S
                                   (S (S (S (S (S (S (S (S (S (S (S (S (S (S
                                   (S (S (S (S (S (S (S (S (S (S (S (S
                                   O)))))))))))))))))))))))))))))))))))))))))))))))))))))))))))))))))))))))))))))))))))))))))))))))))))))))))))))
                                   levels i nl) (fun levels' -> Ok ((((stack,
                                 st.ex_oi), st.ex_oe), st.ex_vi), levels'))
                     else if is_isolate
                          then Ok ((((st.ex_stack, (S st.ex_oi)), st.ex_oe),
                                 st.ex_vi), levels)
                          else if Nat.eqb st.ex_oi O
                               then Ok ((((st.ex_stack, st.ex_oi), (S
                                      st.ex_oe)), st.ex_vi), levels)
                               else Ok ((((st.ex_stack, st.ex_oi), st.ex_oe),
                                      st.ex_vi), levels)
                   | None ->
                     if is_isolate
                     then Ok ((((st.ex_stack, (S st.ex_oi)), st.ex_oe),
                            st.ex_vi), levels)
                     else if Nat.eqb st.ex_oi O
                          then Ok ((((st.ex_stack, st.ex_oi), (S st.ex_oe)),
                                 st.ex_vi), levels)
                          else Ok ((((st.ex_stack, st.ex_oi), st.ex_oe),
                                 st.ex_vi), levels)) (fun x ->
                  let (p0, levels0) = x in
                  let (p1, vi) = p0 in
                  let (p2, oe) = p1 in
                  let (stack, oi) = p2 in
                  bind
                    (if is_isolate
                     then Ok pc
                     else upd (S (S (S (S (S (S (S (S (S (S (S (S (S (S (S (S
                            (S (S (S (S (S (S (S (S (S (S (S (S (S (S (S (S
                            (S (S (S (S (S (S (S (S (S (S (S (S (S (S (S (S
                            (S (S (S (S (S (S (S (S (S (S (S (S (S (S (S (S
                            (S (S (S (S (S (S (S (S (S (S (S (S (S (S (S (S
                            (S (S (S (S (S (S (S (S (S (S (S (S (S (S (S (S
                            (S (S (S (S (S (S (S (S (S (S (S (S (S (S (S (S
                            (S (S (S (S (S (S (S (S (S
                            O)))))))))))))))))))))))))))))))))))))))))))))))))))))))))))))))))))))))))))))))))))))))))))))))))))))))))))))))))))))))))
                            pc i BN) (fun pc0 -> Ok (((((stack, oi), oe),
                    vi), levels0), pc0)))))
          | LRE ->
            bind
              (upd (S (S (S (S (S (S (S (S (S (S (S (S (S (S (S (S (S (S (S
                (S (S (S (S (S (S (S (S (S (S (S (S (S (S (S (S (S (S (S (S
                (S (S (S (S (S (S (S (S (S (S (S (S (S (S (S (S (S (S (S (S
                (S (S (S (S (S (S (S (S (S (S (S
                O))))))))))))))))))))))))))))))))))))))))))))))))))))))))))))))))))))))
                st.ex_levels i last_level) (fun levels ->
              let is_isolate = is_isolate_init k in
              bind
                (if is_isolate
                 then apply_override (S (S (S (S (S (S (S (S (S (S (S (S (S
                        (S (S (S (S (S (S (S (S (S (S (S (S (S (S (S (S (S (S
                        (S (S (S (S (S (S (S (S (S (S (S (S (S (S (S (S (S (S
                        (S (S (S (S (S (S (S (S (S (S (S (S (S (S (S (S (S (S
                        (S (S (S (S (S (S (S (S (S (S (S
                        O))))))))))))))))))))))))))))))))))))))))))))))))))))))))))))))))))))))))))))))
                        last_status st.ex_pc i
                 else Ok st.ex_pc) (fun pc ->
                let new_level =
                  if class_is_rtl k
                  then level_next_rtl last_level
                  else level_next_ltr last_level
                in
                bind
                  (match new_level with
                   | Some nl ->
                     if (&&) (Nat.eqb st.ex_oi O) (Nat.eqb st.ex_oe O)
                     then let status =
                            match k with
                            | FSI -> OIsolate
                            | LRI -> OIsolate
                            | LRO -> OLTR
                            | RLI -> OIsolate
                            | RLO -> ORTL
                            | _ -> ONeutral
                          in
                          let stack = (nl, status) :: st.ex_stack in
                          if is_isolate
                          then Ok ((((stack, st.ex_oi), st.ex_oe), (S
                                 st.ex_vi)), levels)
                          else bind
                                 (upd (S (S (S (S (S (S (S (S (S (S (S (S (S
                                   (S (S (S (S (S (S (S (S (S (S (S (S (S (S
                                   (S (S (S (S (S (S (S (S (S (S (S (S (S (S
                                   (S (S (S (S (S (S (S (S (S (S (S (S (S (S
                                   (S (S (S (S (S (S (S (S (S (S (S (S (S (S
                                   (S (S (S (S (S (S (S (S (S (S (S (S (S (S
                                   (S (S (S (S (S (S (S (S (S (S (S (S (S (S
                                   (S (S (S (S (S (S (S (S (S (S (S (S
                                   O)))))))))))))))))))))))))))))))))))))))))))))))))))))))))))))))))))))))))))))))))))))))))))))))))))))))))))))
                                   levels i nl) (fun levels' -> Ok ((((stack,
                                 st.ex_oi), st.ex_oe), st.ex_vi), levels'))
                     else if is_isolate
                          then Ok ((((st.ex_stack, (S st.ex_oi)), st.ex_oe),
                                 st.ex_vi), levels)
                          else if Nat.eqb st.ex_oi O
                               then Ok ((((st.ex_stack, st.ex_oi), (S
                                      st.ex_oe)), st.ex_vi), levels)
                               else Ok ((((st.ex_stack, st.ex_oi), st.ex_oe),
                                      st.ex_vi), levels)
                   | None ->
                     if is_isolate
                     then Ok ((((st.ex_stack, (S st.ex_oi)), st.ex_oe),
                            st.ex_vi), levels)
                     else if Nat.eqb st.ex_oi O
                          then Ok ((((st.ex_stack, st.ex_oi), (S st.ex_oe)),
                                 st.ex_vi), levels)
                          else Ok ((((st.ex_stack, st.ex_oi), st.ex_oe),
                                 st.ex_vi), levels)) (fun x ->
                  let (p0, levels0) = x in
                  let (p1, vi) = p0 in
                  let (p2, oe) = p1 in
                  let (stack, oi) = p2 in
                  bind
                    (if is_isolate
                     then Ok pc
                     else upd (S (S (S (S (S (S (S (S (S (S (S (S (S (S (S (S
                            (S (S (S (S (S (S (S (S (S (S (S (S (S (S (S (S
                            (S (S (S (S (S (S (S (S (S (S (S (S (S (S (S (S
                            (S (S (S (S (S (S (S (S (S (S (S (S (S (S (S (S
                            (S (S (S (S (S (S (S (S (S (S (S (S (S (S (S (S
                            (S (S (S (S (S (S (S (S (S (S (S (S (S (S (S (S
                            (S (S (S (S (S (S (S (S (S (S (S (S (S (S (S (S
                            (S (S (S (S (S (S (S (S (S
                            O)))))))))))))))))))))))))))))))))))))))))))))))))))))))))))))))))))))))))))))))))))))))))))))))))))))))))))))))))))))))))
                            pc i BN) (fun pc0 -> Ok (((((stack, oi), oe),
                    vi), levels0), pc0)))))
          | LRI ->
            bind
              (upd (S (S (S (S (S (S (S (S (S (S (S (S (S (S (S (S (S (S (S
                (S (S (S (S (S (S (S (S (S (S (S (S (S (S (S (S (S (S (S (S
                (S (S (S (S (S (S (S (S (S (S (S (S (S (S (S (S (S (S (S (S
                (S (S (S (S (S (S (S (S (S (S (S
                O))))))))))))))))))))))))))))))))))))))))))))))))))))))))))))))))))))))
                st.ex_levels i last_level) (fun levels ->
              let is_isolate = is_isolate_init k in
              bind
                (if is_isolate
                 then apply_override (S (S (S (S (S (S (S (S (S (S (S (S (S
                        (S (S (S (S (S (S (S (S (S (S (S (S (S (S (S (S (S (S
                        (S (S (S (S (S (S (S (S (S (S (S (S (S (S (S (S (S (S
                        (S (S (S (S (S (S (S (S (S (S (S (S (S (S (S (S (S (S
                        (S (S (S (S (S (S (S (S (S (S (S
                        O))))))))))))))))))))))))))))))))))))))))))))))))))))))))))))))))))))))))))))))
                        last_status st.ex_pc i
                 else Ok st.ex_pc) (fun pc ->
                let new_level =
                  if class_is_rtl k
                  then level_next_rtl last_level
                  else level_next_ltr last_level
                in
                bind
                  (match new_level with
                   | Some nl ->
                     if (&&) (Nat.eqb st.ex_oi O) (Nat.eqb st.ex_oe O)
                     then let status =
                            match k with
                            | FSI -> OIsolate
                            | LRI -> OIsolate
                            | LRO -> OLTR
                            | RLI -> OIsolate
                            | RLO -> ORTL
                            | _ -> ONeutral
                          in
                          let stack = (nl, status) :: st.ex_stack in
                          if is_isolate
                          then Ok ((((stack, st.ex_oi), st.ex_oe), (S
                                 st.ex_vi)), levels)
                          else bind
                                 (upd (S (S (S (S (S (S (S (S (S (S (S (S (S
                                   (S (S (S (S (S (S (S (S (S (S (S (S (S (S
                                   (S (S (S (S (S (S (S (S (S (S (S (S (S (S
                                   (S (S (S (S (S (S (S (S (S (S (S (S (S (S
                                   (S (S (S (S (S (S (S (S (S (S (S (S (S (S
                                   (S (S (S (S (S (S (S (S (S (S (S (S (S (S
                                   (S (S (S (S (S (S (S (S (S (S (S (S (S (S
                                   (S (S (S (S (S (S (S (S (S (S (S (S
                                   O)))))))))))))))))))))))))))))))))))))))))))))))))))))))))))))))))))))))))))))))))))))))))))))))))))))))))))))
                                   levels i nl) (fun levels' -> Ok ((((stack,
                                 st.ex_oi), st.ex_oe), st.ex_vi), levels'))
                     else if is_isolate
                          then Ok ((((st.ex_stack, (S st.ex_oi)), st.ex_oe),
                                 st.ex_vi), levels)
                          else if Nat.eqb st.ex_oi O
                               then Ok ((((st.ex_stack, st.ex_oi), (S
                                      st.ex_oe)), st.ex_vi), levels)
                               else Ok ((((st.ex_stack, st.ex_oi), st.ex_oe),
                                      st.ex_vi), levels)
                   | None ->
                     if is_isolate
                     then Ok ((((st.ex_stack, (S st.ex_oi)), st.ex_oe),
                            st.ex_vi), levels)
                     else if Nat.eqb st.ex_oi O
                          then Ok ((((st.ex_stack, st.ex_oi), (S st.ex_oe)),
                                 st.ex_vi), levels)
                          else Ok ((((st.ex_stack, st.ex_oi), st.ex_oe),
                                 st.ex_vi), levels)) (fun x ->
                  let (p0, levels0) = x in
                  let (p1, vi) = p0 in
                  let (p2, oe) = p1 in
                  let (stack, oi) = p2 in
                  bind
                    (if is_isolate
                     then Ok pc
                     else upd (S (S (S (S (S (S (S (S (S (S (S (S (S (S (S (S
                            (S (S (S (S (S (S (S (S (S (S (S (S (S (S (S (S
                            (S (S (S (S (S (S (S (S (S (S (S (S (S (S (S (S
                            (S (S (S (S (S (S (S (S (S (S (S (S (S (S (S (S
                            (S (S (S (S (S (S (S (S (S (S (S (S (S (S (S (S
                            (S (S (S (S (S (S (S (S (S (S (S (S (S (S (S (S
                            (S (S (S (S (S (S (S (S (S (S (S (S (S (S (S (S
                            (S (S (S (S (S (S (S (S (S
                            O)))))))))))))))))))))))))))))))))))))))))))))))))))))))))))))))))))))))))))))))))))))))))))))))))))))))))))))))))))))))))
                            pc i BN) (fun pc0 -> Ok (((((stack, oi), oe),
                    vi), levels0), pc0)))))
          | LRO ->
            bind
              (upd (S (S (S (S (S (S (S (S (S (S (S (S (S (S (S (S (S (S (S
                (S (S (S (S (S (S (S (S (S (S (S (S (S (S (S (S (S (S (S (S
                (S (S (S (S (S (S (S (S (S (S (S (S (S (S (S (S (S (S (S (S
                (S (S (S (S (S (S (S (S (S (S (S
                O))))))))))))))))))))))))))))))))))))))))))))))))))))))))))))))))))))))
                st.ex_levels i last_level) (fun levels ->
              let is_isolate = is_isolate_init k in
              bind
                (if is_isolate
                 then apply_override (S (S (S (S (S (S (S (S (S (S (S (S (S
                        (S (S (S (S (S (S (S (S (S (S (S (S (S (S (S (S (S (S
                        (S (S (S (S (S (S (S (S (S (S (S (S (S (S (S (S (S (S
                        (S (S (S (S (S (S (S (S (S (S (S (S (S (S (S (S (S (S
                        (S (S (S (S (S (S (S (S (S (S (S
                        O))))))))))))))))))))))))))))))))))))))))))))))))))))))))))))))))))))))))))))))
                        last_status st.ex_pc i
                 else Ok st.ex_pc) (fun pc ->
                let new_level =
                  if class_is_rtl k
                  then level_next_rtl last_level
                  else level_next_ltr last_level
                in
                bind
                  (match new_level with
                   | Some nl ->
                     if (&&) (Nat.eqb st.ex_oi O) (Nat.eqb st.ex_oe O)
                     then let status =
                            match k with
                            | FSI -> OIsolate
                            | LRI -> OIsolate
                            | LRO -> OLTR
                            | RLI -> OIsolate
                            | RLO -> ORTL
                            | _ -> ONeutral
                          in
                          let stack = (nl, status) :: st.ex_stack in
                          if is_isolate
                          then Ok ((((stack, st.ex_oi), st.ex_oe), (S
                                 st.ex_vi)), levels)
                          else bind
                                 (upd (S (S (S (S (S (S (S (S (S (S (S (S (S
                                   (S (S (S (S (S (S (S (S (S (S (S (S (S (S
                                   (S (S (S (S (S (S (S (S (S (S (S (S (S (S
                                   (S (S (S (S (S (S (S (S (S (S (S (S (S (S
                                   (S (S (S (S (S (S (S (S (S (S (S (S (S (S
                                   (S (S (S (S (S (S (S (S (S (S (S (S (S (S
                                   (S (S (S (S (S (S (S (S (S (S (S (S (S (S
                                   (S (S (S (S (S (S (S (S (S (S (S (S
                                   O)))))))))))))))))))))))))))))))))))))))))))))))))))))))))))))))))))))))))))))))))))))))))))))))))))))))))))))
                                   levels i nl) (fun levels' -> Ok ((((stack,
                                 st.ex_oi), st.ex_oe), st.ex_vi), levels'))
                     else if is_isolate
                          then Ok ((((st.ex_stack, (S st.ex_oi)), st.ex_oe),
                                 st.ex_vi), levels)
                          else if Nat.eqb st.ex_oi O
                               then Ok ((((st.ex_stack, st.ex_oi), (S
                                      st.ex_oe)), st.ex_vi), levels)
                               else Ok ((((st.ex_stack, st.ex_oi), st.ex_oe),
                                      st.ex_vi), levels)
                   | None ->
                     if is_isolate
                     then Ok ((((st.ex_stack, (S st.ex_oi)), st.ex_oe),
                            st.ex_vi), levels)
                     else if Nat.eqb st.ex_oi O
                          then Ok ((((st.ex_stack, st.ex_oi), (S st.ex_oe)),
                                 st.ex_vi), levels)
                          else Ok ((((st.ex_stack, st.ex_oi), st.ex_oe),
                                 st.ex_vi), levels)) (fun x ->
                  let (p0, levels0) = x in
                  let (p1, vi) = p0 in
                  let (p2, oe) = p1 in
                  let (stack, oi) = p2 in
                  bind
                    (if is_isolate
                     then Ok pc
                     else upd (S (S (S (S (S (S (S (S (S (S (S (S (S (S (S (S
                            (S (S (S (S (S (S (S (S (S (S (S (S (S (S (S (S
                            (S (S (S (S (S (S (S (S (S (S (S (S (S (S (S (S
                            (S (S (S (S (S (S (S (S (S (S (S (S (S (S (S (S
                            (S (S (S (S (S (S (S (S (S (S (S (S (S (S (S (S
                            (S (S (S (S (S (S (S (S (S (S (S (S (S (S (S (S
                            (S (S (S (S (S (S (S (S (S (S (S (S (S (S (S (S
                            (S (S (S (S (S (S (S (S (S
                            O)))))))))))))))))))))))))))))))))))))))))))))))))))))))))))))))))))))))))))))))))))))))))))))))))))))))))))))))))))))))))
                            pc i BN) (fun pc0 -> Ok (((((stack, oi), oe),
                    vi), levels0), pc0)))))
          | PDF ->
            if Nat.ltb O st.ex_oi
            then let stack = st.ex_stack in
                 let oe = st.ex_oe in
                 (match stack with
                  | [] ->
                    Panic (S (S (S (S (S (S (S (S (S (S (S (S (S (S (S (S (S
                      (S (S (S (S (S (S (S (S (S (S (S (S (S (S (S (S (S (S
                      (S (S (S (S (S (S (S (S (S (S (S (S (S (S (S (S (S (S
                      (S (S (S (S (S (S (S (S (S (S (S (S (S (S (S (S (S (S
                      (S (S (S (S (S (S (S (S (S (S (S (S (S (S (S (S (S (S
                      (S (S (S (S (S (S (S (S (S (S (S (S (S (S (S (S (S (S
                      (S (S (S (S (S (S (S (S (S (S (S (S (S (S (S (S (S (S
                      (S (S (S (S (S (S (S (S (S (S (S (S (S (S (S (S (S (S
                      (S (S (S (S (S (S (S (S (S (S (S (S (S (S (S (S (S (S
                      (S (S (S
                      O))))))))))))))))))))))))))))))))))))))))))))))))))))))))))))))))))))))))))))))))))))))))))))))))))))))))))))))))))))))))))))))))))))))))))))))))))))))))))))))))))))
                  | p0 :: _ ->
                    let (ll, _) = p0 in
                    bind
                      (upd (S (S (S (S (S (S (S (S (S (S (S (S (S (S (S (S (S
                        (S (S (S (S (S (S (S (S (S (S (S (S (S (S (S (S (S (S
                        (S (S (S (S (S (S (S (S (S (S (S (S (S (S (S (S (S (S
                        (S (S (S (S (S (S (S (S (S (S (S (S (S (S (S (S (S (S
                        (S (S (S (S (S (S (S (S (S (S (S (S (S (S (S (S (S (S
                        (S (S (S (S (S (S (S (S (S (S (S (S (S (S (S (S (S (S
                        (S (S (S (S (S (S (S (S (S (S (S (S (S (S (S (S (S (S
                        (S (S (S (S (S (S (S (S (S (S (S (S (S (S (S (S (S (S
                        (S (S (S (S (S (S (S (S (S (S (S (S (S (S (S (S (S (S
                        (S (S (S
                        O))))))))))))))))))))))))))))))))))))))))))))))))))))))))))))))))))))))))))))))))))))))))))))))))))))))))))))))))))))))))))))))))))))))))))))))))))))))))))))))))))))
                        st.ex_levels i ll) (fun levels ->
                      bind
                        (upd (S (S (S (S (S (S (S (S (S (S (S (S (S (S (S (S
                          (S (S (S (S (S (S (S (S (S (S (S (S (S (S (S (S (S
                          (S (S (S (S (S (S (S (S (S (S (S (S (S (S (S (S (S
                          (S (S (S (S (S (S (S (S (S (S (S (S (S (S (S (S (S
                          (S (S (S (S (S (S (S (S (S (S (S (S (S (S (S (S (S
                          (S (S (S (S (S (S (S (S (S (S (S (S (S (S (S (S (S
                          (S (S (S (S (S (S (S (S (S (S (S (S (S (S (S (S (S
                          (S (S (S (S (S (S (S (S (S (S (S (S (S (S (S (S (S
                          (S (S (S (S (S (S (S (S (S (S (S (S (S (S (S (S (S
                          (S (S (S (S (S (S (S (S (S (S (S (S (S (S
                          O))))))))))))))))))))))))))))))))))))))))))))))))))))))))))))))))))))))))))))))))))))))))))))))))))))))))))))))))))))))))))))))))))))))))))))))))))))))))))))))))))))))
                          st.ex_pc i BN) (fun pc -> Ok (((((stack, st.ex_oi),
                        oe), st.ex_vi), levels), pc))))
            else if Nat.ltb O st.ex_oe
                 then let stack = st.ex_stack in
                      let oe = sub st.ex_oe (S O) in
                      (match stack with
                       | [] ->
                         Panic (S (S (S (S (S (S (S (S (S (S (S (S (S (S (S
                           (S (S (S (S (S (S (S (S (S (S (S (S (S (S (S (S (S
                           (S (S (S (S (S (S (S (S (S (S (S (S (S (S (S (S (S
                           (S (S (S (S (S (S (S (S (S (S (S (S (S (S (S (S (S
                           (S (S (S (S (S (S (S (S (S (S (S (S (S (S (S (S (S
                           (S (S (S (S (S (S (S (S (S (S (S (S (S (S (S (S (S
                           (S (S (S (S (S (S (S (S (S (S (S (S (S (S (S (S (S
                           (S (S (S (S (S (S (S (S (S (S (S (S (S (S (S (S (S
                           (S (S (S (S (S (S (S (S (S (S (S (S (S (S (S (S (S
                           (S (S (S (S (S (S (S (S (S (S (S (S (S
                           O))))))))))))))))))))))))))))))))))))))))))))))))))))))))))))))))))))))))))))))))))))))))))))))))))))))))))))))))))))))))))))))))))))))))))))))))))))))))))))))))))))
                       | p0 :: _ ->
                         let (ll, _) = p0 in
                         bind
                           (upd (S (S (S (S (S (S (S (S (S (S (S (S (S (S (S
                             (S (S (S (S (S (S (S (S (S (S (S (S (S (S (S (S
                             (S (S (S (S (S (S (S (S (S (S (S (S (S (S (S (S
                             (S (S (S (S (S (S (S (S (S (S (S (S (S (S (S (S
                             (S (S (S (S (S (S (S (S (S (S (S (S (S (S (S (S
                             (S (S (S (S (S (S (S (S (S (S (S (S (S (S (S (S
                             (S (S (S (S (S (S (S (S (S (S (S (S (S (S (S (S
                             (S (S (S (S (S (S (S (S (S (S (S (S (S (S (S (S
                             (S (S (S (S (S (S (S (S (S (S (S (S (S (S (S (S
                             (S (S (S (S (S (S (S (S (S (S (S (S (S (S (S (S
                             (S (S (S (S (S
                             O))))))))))))))))))))))))))))))))))))))))))))))))))))))))))))))))))))))))))))))))))))))))))))))))))))))))))))))))))))))))))))))))))))))))))))))))))))))))))))))))))))
                             st.ex_levels i ll) (fun levels ->
                           bind
                             (upd (S (S (S (S (S (S (S (S (S (S (S (S (S (S
                               (S (S (S (S (S (S (S (S (S (S (S (S (S (S (S
                               (S (S (S (S (S (S (S (S (S (S (S (S (S (S (S
                               (S (S (S (S (S (S (S (S (S (S (S (S (S (S (S
                               (S (S (S (S (S (S (S (S (S (S (S (S (S (S (S
                               (S (S (S (S (S (S (S (S (S (S (S (S (S (S (S
                               (S (S (S (S (S (S (S (S (S (S (S (S (S (S (S
                               (S (S (S (S (S (S (S (S (S (S (S (S (S (S (S
                               (S (S (S (S (S (S (S (S (S (S (S (S (S (S (S
                               (S (S (S (S (S (S (S (S (S (S (S (S (S (S (S
                               (S (S (S (S (S (S (S (S (S (S (S (S (S (S (S
                               (S (S
                               O))))))))))))))))))))))))))))))))))))))))))))))))))))))))))))))))))))))))))))))))))))))))))))))))))))))))))))))))))))))))))))))))))))))))))))))))))))))))))))))))))))))
                               st.ex_pc i BN) (fun pc -> Ok (((((stack,
                             st.ex_oi), oe), st.ex_vi), levels), pc))))
                 else if (&&) (negb (ostatus_is_isolate last_status))
                           (Nat.leb (S (S O)) (length st.ex_stack))
                      then let stack = tl st.ex_stack in
                           let oe = st.ex_oe in
                           (match stack with
                            | [] ->
                              Panic (S (S (S (S (S (S (S (S (S (S (S (S (S (S
                                (S (S (S (S (S (S (S (S (S (S (S (S (S (S (S
                                (S (S (S (S (S (S (S (S (S (S (S (S (S (S (S
                                (S (S (S (S (S (S (S (S (S (S (S (S (S (S (S
                                (S (S (S (S (S (S (S (S (S (S (S (S (S (S (S
                                (S (S (S (S (S (S (S (S (S (S (S (S (S (S (S
                                (S (S (S (S (S (S (S (S (S (S (S (S (S (S (S
                                (S (S (S (S (S (S (S (S (S (S (S (S (S (S (S
                                (S (S (S (S (S (S (S (S (S (S (S (S (S (S (S
                                (S (S (S (S (S (S (S (S (S (S (S (S (S (S (S
                                (S (S (S (S (S (S (S (S (S (S (S (S (S (S (S
                                O))))))))))))))))))))))))))))))))))))))))))))))))))))))))))))))))))))))))))))))))))))))))))))))))))))))))))))))))))))))))))))))))))))))))))))))))))))))))))))))))))))
                            | p0 :: _ ->
                              let (ll, _) = p0 in
                              bind
                                (upd (S (S (S (S (S (S (S (S (S (S (S (S (S
                                  (S (S (S (S (S (S (S (S (S (S (S (S (S (S
                                  (S (S (S (S (S (S (S (S (S (S (S (S (S (S
                                  (S (S (S (S (S (S (S (S (S (S (S (S (S (S
                                  (S (S (S (S (S (S (S (S (S (S (S (S (S (S
                                  (S (S (S (S (S (S (S (S (S (S (S (S (S (S
                                  (S (S (S (S (S (S (S (S (S (S (S (S (S (S
                                  (S (S (S (S (S (S (S (S (S (S (S (S (S (S
                                  (S (S (S (S (S (S (S (S (S (S (S (S (S (S
                                  (S (S (S (S (S (S (S (S (S (S (S (S (S (S
                                  (S (S (S (S (S (S (S (S (S (S (S (S (S (S
                                  (S (S (S (S (S (S (S (S (S (S (S
                                  O))))))))))))))))))))))))))))))))))))))))))))))))))))))))))))))))))))))))))))))))))))))))))))))))))))))))))))))))))))))))))))))))))))))))))))))))))))))))))))))))))))
                                  st.ex_levels i ll) (fun levels ->
                                bind
                                  (upd (S (S (S (S (S (S (S (S (S (S (S (S (S
                                    (S (S (S (S (S (S (S (S (S (S (S (S (S (S
                                    (S (S (S (S (S (S (S (S (S (S (S (S (S (S
                                    (S (S (S (S (S (S (S (S (S (S (S (S (S (S
                                    (S (S (S (S (S (S (S (S (S (S (S (S (S (S
                                    (S (S (S (S (S (S (S (S (S (S (S (S (S (S
                                    (S (S (S (S (S (S (S (S (S (S (S (S (S (S
                                    (S (S (S (S (S (S (S (S (S (S (S (S (S (S
                                    (S (S (S (S (S (S (S (S (S (S (S (S (S (S
                                    (S (S (S (S (S (S (S (S (S (S (S (S (S (S
                                    (S (S (S (S (S (S (S (S (S (S (S (S (S (S
                                    (S (S (S (S (S (S (S (S (S (S (S (S (S
                                    O))))))))))))))))))))))))))))))))))))))))))))))))))))))))))))))))))))))))))))))))))))))))))))))))))))))))))))))))))))))))))))))))))))))))))))))))))))))))))))))))))))))
                                    st.ex_pc i BN) (fun pc -> Ok (((((stack,
                                  st.ex_oi), oe), st.ex_vi), levels), pc))))
                      else let stack = st.ex_stack in
                           let oe = st.ex_oe in
                           (match stack with
                            | [] ->
                              Panic (S (S (S (S (S (S (S (S (S (S (S (S (S (S
                                (S (S (S (S (S (S (S (S (S (S (S (S (S (S (S
                                (S (S (S (S (S (S (S (S (S (S (S (S (S (S (S
                                (S (S (S (S (S (S (S (S (S (S (S (S (S (S (S
                                (S (S (S (S (S (S (S (S (S (S (S (S (S (S (S
                                (S (S (S (S (S (S (S (S (S (S (S (S (S (S (S
                                (S (S (S (S (S (S (S (S (S (S (S (S (S (S (S
                                (S (S (S (S (S (S (S (S (S (S (S (S (S (S (S
                                (S (S (S (S (S (S (S (S (S (S (S (S (S (S (S
                                (S (S (S (S (S (S (S (S (S (S (S (S (S (S (S
                                (S (S (S (S (S (S (S (S (S (S (S (S (S (S (S
                                O))))))))))))))))))))))))))))))))))))))))))))))))))))))))))))))))))))))))))))))))))))))))))))))))))))))))))))))))))))))))))))))))))))))))))))))))))))))))))))))))))))
                            | p0 :: _ ->
                              let (ll, _) = p0 in
                              bind
                                (upd (S (S (S (S (S (S (S (S (S (S (S (S (S
                                  (S (S (S (S (S (S (S (S (S (S (S (S (S (S
                                  (S (S (S (S (S (S (S (S (S (S (S (S (S (S
                                  (S (S (S (S (S (S (S (S (S (S (S (S (S (S
                                  (S (S (S (S (S (S (S (S (S (S (S (S (S (S
                                  (S (S (S (S (S (S (S (S (S (S (S (S (S (S
                                  (S (S (S (S (S (S (S (S (S (S (S (S (S (S
                                  (S (S (S (S (S (S (S (S (S (S (S (S (S (S
                                  (S (S (S (S (S (S (S (S (S (S (S (S (S (S
                                  (S (S (S (S (S (S (S (S (S (S (S (S (S (S
                                  (S (S (S (S (S (S (S (S (S (S (S (S (S (S
                                  (S (S (S (S (S (S (S (S (S (S (S
                                  O))))))))))))))))))))))))))))))))))))))))))))))))))))))))))))))))))))))))))))))))))))))))))))))))))))))))))))))))))))))))))))))))))))))))))))))))))))))))))))))))))))
                                  st.ex_levels i ll) (fun levels ->
                                bind
                                  (upd (S (S (S (S (S (S (S (S (S (S (S (S (S
                                    (S (S (S (S (S (S (S (S (S (S (S (S (S (S
                                    (S (S (S (S (S (S (S (S (S (S (S (S (S (S
                                    (S (S (S (S (S (S (S (S (S (S (S (S (S (S
                                    (S (S (S (S (S (S (S (S (S (S (S (S (S (S
                                    (S (S (S (S (S (S (S (S (S (S (S (S (S (S
                                    (S (S (S (S (S (S (S (S (S (S (S (S (S (S
                                    (S (S (S (S (S (S (S (S (S (S (S (S (S (S
                                    (S (S (S (S (S (S (S (S (S (S (S (S (S (S
                                    (S (S (S (S (S (S (S (S (S (S (S (S (S (S
                                    (S (S (S (S (S (S (S (S (S (S (S (S (S (S
                                    (S (S (S (S (S (S (S (S (S (S (S (S (S
                                    O))))))))))))))))))))))))))))))))))))))))))))))))))))))))))))))))))))))))))))))))))))))))))))))))))))))))))))))))))))))))))))))))))))))))))))))))))))))))))))))))))))))
                                    st.ex_pc i BN) (fun pc -> Ok (((((stack,
                                  st.ex_oi), oe), st.ex_vi), levels), pc))))
          | PDI ->
            if Nat.ltb O st.ex_oi
            then let p0 = ((st.ex_stack, (sub st.ex_oi (S O))), st.ex_oe) in
                 let vi = st.ex_vi in
                 let (p1, oe) = p0 in
                 let (stack, oi) = p1 in
                 (match stack with
                  | [] ->
                    Panic (S (S (S (S (S (S (S (S (S (S (S (S (S (S (S (S (S
                      (S (S (S (S (S (S (S (S (S (S (S (S (S (S (S (S (S (S
                      (S (S (S (S (S (S (S (S (S (S (S (S (S (S (S (S (S (S
                      (S (S (S (S (S (S (S (S (S (S (S (S (S (S (S (S (S (S
                      (S (S (S (S (S (S (S (S (S (S (S (S (S (S (S (S (S (S
                      (S (S (S (S (S (S (S (S (S (S (S (S (S (S (S (S (S (S
                      (S (S (S (S (S (S (S (S (S (S (S (S (S (S (S (S (S (S
                      (S (S (S (S (S (S (S (S (S (S (S (S (S (S (S (S (S (S
                      O)))))))))))))))))))))))))))))))))))))))))))))))))))))))))))))))))))))))))))))))))))))))))))))))))))))))))))))))))))))))))))))))))))))))))))))))
                  | p2 :: _ ->
                    let (ll, ls) = p2 in
                    bind
                      (upd (S (S (S (S (S (S (S (S (S (S (S (S (S (S (S (S (S
                        (S (S (S (S (S (S (S (S (S (S (S (S (S (S (S (S (S (S
                        (S (S (S (S (S (S (S (S (S (S (S (S (S (S (S (S (S (S
                        (S (S (S (S (S (S (S (S (S (S (S (S (S (S (S (S (S (S
                        (S (S (S (S (S (S (S (S (S (S (S (S (S (S (S (S (S (S
                        (S (S (S (S (S (S (S (S (S (S (S (S (S (S (S (S (S (S
                        (S (S (S (S (S (S (S (S (S (S (S (S (S (S (S (S (S (S
                        (S (S (S (S (S (S (S (S (S (S (S (S (S (S (S (S (S (S
                        (S
                        O))))))))))))))))))))))))))))))))))))))))))))))))))))))))))))))))))))))))))))))))))))))))))))))))))))))))))))))))))))))))))))))))))))))))))))))))
                        st.ex_levels i ll) (fun levels ->
                      bind
                        (apply_override (S (S (S (S (S (S (S (S (S (S (S (S
                          (S (S (S (S (S (S (S (S (S (S (S (S (S (S (S (S (S
                          (S (S (S (S (S (S (S (S (S (S (S (S (S (S (S (S (S
                          (S (S (S (S (S (S (S (S (S (S (S (S (S (S (S (S (S
                          (S (S (S (S (S (S (S (S (S (S (S (S (S (S (S (S (S
                          (S (S (S (S (S (S (S (S (S (S (S (S (S (S (S (S (S
                          (S (S (S (S (S (S (S (S (S (S (S (S (S (S (S (S (S
                          (S (S (S (S (S (S (S (S (S (S (S (S (S (S (S (S (S
                          (S (S (S (S (S (S (S (S (S (S (S (S (S (S (S (S
                          O)))))))))))))))))))))))))))))))))))))))))))))))))))))))))))))))))))))))))))))))))))))))))))))))))))))))))))))))))))))))))))))))))))))))))))))))))))
                          ls st.ex_pc i) (fun pc -> Ok (((((stack, oi), oe),
                        vi), levels), pc))))
            else if Nat.ltb O st.ex_vi
                 then let p0 = (((pop_through_isolate st.ex_stack),
                        st.ex_oi), O)
                      in
                      let vi = sub st.ex_vi (S O) in
                      let (p1, oe) = p0 in
                      let (stack, oi) = p1 in
                      (match stack with
                       | [] ->
                         Panic (S (S (S (S (S (S (S (S (S (S (S (S (S (S (S
                           (S (S (S (S (S (S (S (S (S (S (S (S (S (S (S (S (S
                           (S (S (S (S (S (S (S (S (S (S (S (S (S (S (S (S (S
                           (S (S (S (S (S (S (S (S (S (S (S (S (S (S (S (S (S
                           (S (S (S (S (S (S (S (S (S (S (S (S (S (S (S (S (S
                           (S (S (S (S (S (S (S (S (S (S (S (S (S (S (S (S (S
                           (S (S (S (S (S (S (S (S (S (S (S (S (S (S (S (S (S
                           (S (S (S (S (S (S (S (S (S (S (S (S (S (S (S (S (S
                           (S (S (S (S (S (S (S (S (S
                           O)))))))))))))))))))))))))))))))))))))))))))))))))))))))))))))))))))))))))))))))))))))))))))))))))))))))))))))))))))))))))))))))))))))))))))))))
                       | p2 :: _ ->
                         let (ll, ls) = p2 in
                         bind
                           (upd (S (S (S (S (S (S (S (S (S (S (S (S (S (S (S
                             (S (S (S (S (S (S (S (S (S (S (S (S (S (S (S (S
                             (S (S (S (S (S (S (S (S (S (S (S (S (S (S (S (S
                             (S (S (S (S (S (S (S (S (S (S (S (S (S (S (S (S
                             (S (S (S (S (S (S (S (S (S (S (S (S (S (S (S (S
                             (S (S (S (S (S (S (S (S (S (S (S (S (S (S (S (S
                             (S (S (S (S (S (S (S (S (S (S (S (S (S (S (S (S
                             (S (S (S (S (S (S (S (S (S (S (S (S (S (S (S (S
                             (S (S (S (S (S (S (S (S (S (S (S (S (S (S (S (S
                             (S
                             O))))))))))))))))))))))))))))))))))))))))))))))))))))))))))))))))))))))))))))))))))))))))))))))))))))))))))))))))))))))))))))))))))))))))))))))))
                             st.ex_levels i ll) (fun levels ->
                           bind
                             (apply_override (S (S (S (S (S (S (S (S (S (S (S
                               (S (S (S (S (S (S (S (S (S (S (S (S (S (S (S
                               (S (S (S (S (S (S (S (S (S (S (S (S (S (S (S
                               (S (S (S (S (S (S (S (S (S (S (S (S (S (S (S
                               (S (S (S (S (S (S (S (S (S (S (S (S (S (S (S
                               (S (S (S (S (S (S (S (S (S (S (S (S (S (S (S
                               (S (S (S (S (S (S (S (S (S (S (S (S (S (S (S
                               (S (S (S (S (S (S (S (S (S (S (S (S (S (S (S
                               (S (S (S (S (S (S (S (S (S (S (S (S (S (S (S
                               (S (S (S (S (S (S (S (S (S (S (S (S (S (S (S
                               (S
                               O)))))))))))))))))))))))))))))))))))))))))))))))))))))))))))))))))))))))))))))))))))))))))))))))))))))))))))))))))))))))))))))))))))))))))))))))))))
                               ls st.ex_pc i) (fun pc -> Ok (((((stack, oi),
                             oe), vi), levels), pc))))
                 else let p0 = ((st.ex_stack, st.ex_oi), st.ex_oe) in
                      let vi = st.ex_vi in
                      let (p1, oe) = p0 in
                      let (stack, oi) = p1 in
                      (match stack with
                       | [] ->
                         Panic (S (S (S (S (S (S (S (S (S (S (S (S (S (S (S
                           (S (S (S (S (S (S (S (S (S (S (S (S (S (S (S (S (S
                           (S (S (S (S (S (S (S (S (S (S (S (S (S (S (S (S (S
                           (S (S (S (S (S (S (S (S (S (S (S (S (S (S (S (S (S
                           (S (S (S (S (S (S (S (S (S (S (S (S (S (S (S (S (S
                           (S (S (S (S (S (S (S (S (S (S (S (S (S (S (S (S (S
                           (S (S (S (S (S (S (S (S (S (S (S (S (S (S (S (S (S
                           (S (S (S (S (S (S (S (S (S (S (S (S (S (S (S (S (S
                           (S (S (S (S (S (S (S (S (S
                           O)))))))))))))))))))))))))))))))))))))))))))))))))))))))))))))))))))))))))))))))))))))))))))))))))))))))))))))))))))))))))))))))))))))))))))))))
                       | p2 :: _ ->
                         let (ll, ls) = p2 in
                         bind
                           (upd (S (S (S (S (S (S (S (S (S (S (S (S (S (S (S
                             (S (S (S (S (S (S (S (S (S (S (S (S (S (S (S (S
                             (S (S (S (S (S (S (S (S (S (S (S (S (S (S (S (S
                             (S (S (S (S (S (S (S (S (S (S (S (S (S (S (S (S
                             (S (S (S (S (S (S (S (S (S (S (S (S (S (S (S (S
                             (S (S (S (S (S (S (S (S (S (S (S (S (S (S (S (S
                             (S (S (S (S (S (S (S (S (S (S (S (S (S (S (S (S
                             (S (S (S (S (S (S (S (S (S (S (S (S (S (S (S (S
                             (S (S (S (S (S (S (S (S (S (S (S (S (S (S (S (S
                             (S
                             O))))))))))))))))))))))))))))))))))))))))))))))))))))))))))))))))))))))))))))))))))))))))))))))))))))))))))))))))))))))))))))))))))))))))))))))))
                             st.ex_levels i ll) (fun levels ->
                           bind
                             (apply_override (S (S (S (S (S (S (S (S (S (S (S
                               (S (S (S (S (S (S (S (S (S (S (S (S (S (S (S
                               (S (S (S (S (S (S (S (S (S (S (S (S (S (S (S
                               (S (S (S (S (S (S (S (S (S (S (S (S (S (S (S
                               (S (S (S (S (S (S (S (S (S (S (S (S (S (S (S
                               (S (S (S (S (S (S (S (S (S (S (S (S (S (S (S
                               (S (S (S (S (S (S (S (S (S (S (S (S (S (S (S
                               (S (S (S (S (S (S (S (S (S (S (S (S (S (S (S
                               (S (S (S (S (S (S (S (S (S (S (S (S (S (S (S
                               (S (S (S (S (S (S (S (S (S (S (S (S (S (S (S
                               (S
                               O)))))))))))))))))))))))))))))))))))))))))))))))))))))))))))))))))))))))))))))))))))))))))))))))))))))))))))))))))))))))))))))))))))))))))))))))))))
                               ls st.ex_pc i) (fun pc -> Ok (((((stack, oi),
                             oe), vi), levels), pc))))
          | RLE ->
            bind
              (upd (S (S (S (S (S (S (S (S (S (S (S (S (S (S (S (S (S (S (S
                (S (S (S (S (S (S (S (S (S (S (S (S (S (S (S (S (S (S (S (S
                (S (S (S (S (S (S (S (S (S (S (S (S (S (S (S (S (S (S (S (S
                (S (S (S (S (S (S (S (S (S (S (S
                O))))))))))))))))))))))))))))))))))))))))))))))))))))))))))))))))))))))
                st.ex_levels i last_level) (fun levels ->
              let is_isolate = is_isolate_init k in
              bind
                (if is_isolate
                 then apply_override (S (S (S (S (S (S (S (S (S (S (S (S (S
                        (S (S (S (S (S (S (S (S (S (S (S (S (S (S (S (S (S (S
                        (S (S (S (S (S (S (S (S (S (S (S (S (S (S (S (S (S (S
                        (S (S (S (S (S (S (S (S (S (S (S (S (S (S (S (S (S (S
                        (S (S (S (S (S (S (S (S (S (S (S
                        O))))))))))))))))))))))))))))))))))))))))))))))))))))))))))))))))))))))))))))))
                        last_status st.ex_pc i
                 else Ok st.ex_pc) (fun pc ->
                let new_level =
                  if class_is_rtl k
                  then level_next_rtl last_level
                  else level_next_ltr last_level
                in
                bind
                  (match new_level with
                   | Some nl ->
                     if (&&) (Nat.eqb st.ex_oi O) (Nat.eqb st.ex_oe O)
                     then let status =
                            match k with
                            | FSI -> OIsolate
                            | LRI -> OIsolate
                            | LRO -> OLTR
                            | RLI -> OIsolate
                            | RLO -> ORTL
                            | _ -> ONeutral
                          in
                          let stack = (nl, status) :: st.ex_stack in
                          if is_isolate
                          then Ok ((((stack, st.ex_oi), st.ex_oe), (S
                                 st.ex_vi)), levels)
                          else bind
                                 (upd (S (S (S (S (S (S (S (S (S (S (S (S (S
                                   (S (S (S (S (S (S (S (S (S (S (S (S (S (S
                                   (S (S (S (S (S (S (S (S (S (S (S (S (S (S
                                   (S (S (S (S (S (S (S (S (S (S (S (S (S (S
                                   (S (S (S (S (S (S (S (S (S (S (S (S (S (S
                                   (S (S (S (S (S (S (S (S (S (S (S (S (S (S
                                   (S (S (S (S (S (S (S (S (S (S (S (S (S (S
                                   (S (S (S (S (S (S (S (S (S (S (S (S
                                   O)))))))))))))))))))))))))))))))))))))))))))))))))))))))))))))))))))))))))))))))))))))))))))))))))))))))))))))
                                   levels i nl) (fun levels' -> Ok ((((stack,
                                 st.ex_oi), st.ex_oe), st.ex_vi), levels'))
                     else if is_isolate
                          then Ok ((((st.ex_stack, (S st.ex_oi)), st.ex_oe),
                                 st.ex_vi), levels)
                          else if Nat.eqb st.ex_oi O
                               then Ok ((((st.ex_stack, st.ex_oi), (S
                                      st.ex_oe)), st.ex_vi), levels)
                               else Ok ((((st.ex_stack, st.ex_oi), st.ex_oe),
                                      st.ex_vi), levels)
                   | None ->
                     if is_isolate
                     then Ok ((((st.ex_stack, (S st.ex_oi)), st.ex_oe),
                            st.ex_vi), levels)
                     else if Nat.eqb st.ex_oi O
                          then Ok ((((st.ex_stack, st.ex_oi), (S st.ex_oe)),
                                 st.ex_vi), levels)
                          else Ok ((((st.ex_stack, st.ex_oi), st.ex_oe),
                                 st.ex_vi), levels)) (fun x ->
                  let (p0, levels0) = x in
                  let (p1, vi) = p0 in
                  let (p2, oe) = p1 in
                  let (stack, oi) = p2 in
                  bind
                    (if is_isolate
                     then Ok pc
                     else upd (S (S (S (S (S (S (S (S (S (S (S (S (S (S (S (S
                            (S (S (S (S (S (S (S (S (S (S (S (S (S (S (S (S
                            (S (S (S (S (S (S (S (S (S (S (S (S (S (S (S (S
                            (S (S (S (S (S (S (S (S (S (S (S (S (S (S (S (S
                            (S (S (S (S (S (S (S (S (S (S (S (S (S (S (S (S
                            (S (S (S (S (S (S (S (S (S (S (S (S (S (S (S (S
                            (S (S (S (S (S (S (S (S (S (S (S (S (S (S (S (S
                            (S (S (S (S (S (S (S (S (S
                            O)))))))))))))))))))))))))))))))))))))))))))))))))))))))))))))))))))))))))))))))))))))))))))))))))))))))))))))))))))))))))
                            pc i BN) (fun pc0 -> Ok (((((stack, oi), oe),
                    vi), levels0), pc0)))))
          | RLI ->
            bind
              (upd (S (S (S (S (S (S (S (S (S (S (S (S (S (S (S (S (S (S (S
                (S (S (S (S (S (S (S (S (S (S (S (S (S (S (S (S (S (S (S (S
                (S (S (S (S (S (S (S (S (S (S (S (S (S (S (S (S (S (S (S (S
                (S (S (S (S (S (S (S (S (S (S (S
                O))))))))))))))))))))))))))))))))))))))))))))))))))))))))))))))))))))))
                st.ex_levels i last_level) (fun levels ->
              let is_isolate = is_isolate_init k in
              bind
                (if is_isolate
                 then apply_override (S (S (S (S (S (S (S (S (S (S (S (S (S
                        (S (S (S (S (S (S (S (S (S (S (S (S (S (S (S (S (S (S
                        (S (S (S (S (S (S (S (S (S (S (S (S (S (S (S (S (S (S
                        (S (S (S (S (S (S (S (S (S (S (S (S (S (S (S (S (S (S
                        (S (S (S (S (S (S (S (S (S (S (S
                        O))))))))))))))))))))))))))))))))))))))))))))))))))))))))))))))))))))))))))))))
                        last_status st.ex_pc i
                 else Ok st.ex_pc) (fun pc ->
                let new_level =
                  if class_is_rtl k
                  then level_next_rtl last_level
                  else level_next_ltr last_level
                in
                bind
                  (match new_level with
                   | Some nl ->
                     if (&&) (Nat.eqb st.ex_oi O) (Nat.eqb st.ex_oe O)
                     then let status =
                            match k with
                            | FSI -> OIsolate
                            | LRI -> OIsolate
                            | LRO -> OLTR
                            | RLI -> OIsolate
                            | RLO -> ORTL
                            | _ -> ONeutral
                          in
                          let stack = (nl, status) :: st.ex_stack in
                          if is_isolate
                          then Ok ((((stack, st.ex_oi), st.ex_oe), (S
                                 st.ex_vi)), levels)
                          else bind
                                 (upd (S (S (S (S (S (S (S (S (S (S (S (S (S
                                   (S (S (S (S (S (S (S (S (S (S (S (S (S (S
                                   (S (S (S (S (S (S (S (S (S (S (S (S (S (S
                                   (S (S (S (S (S (S (S (S (S (S (S (S (S (S
                                   (S (S (S (S (S (S (S (S (S (S (S (S (S (S
                                   (S (S (S (S (S (S (S (S (S (S (S (S (S (S
                                   (S (S (S (S (S (S (S (S (S (S (S (S (S (S
                                   (S (S (S (S (S (S (S (S (S (S (S (S
                                   O)))))))))))))))))))))))))))))))))))))))))))))))))))))))))))))))))))))))))))))))))))))))))))))))))))))))))))))
                                   levels i nl) (fun levels' -> Ok ((((stack,
                                 st.ex_oi), st.ex_oe), st.ex_vi), levels'))
                     else if is_isolate
                          then Ok ((((st.ex_stack, (S st.ex_oi)), st.ex_oe),
                                 st.ex_vi), levels)
                          else if Nat.eqb st.ex_oi O
                               then Ok ((((st.ex_stack, st.ex_oi), (S
                                      st.ex_oe)), st.ex_vi), levels)
                               else Ok ((((st.ex_stack, st.ex_oi), st.ex_oe),
                                      st.ex_vi), levels)
                   | None ->
                     if is_isolate
                     then Ok ((((st.ex_stack, (S st.ex_oi)), st.ex_oe),
                            st.ex_vi), levels)
                     else if Nat.eqb st.ex_oi O
                          then Ok ((((st.ex_stack, st.ex_oi), (S st.ex_oe)),
                                 st.ex_vi), levels)
                          else Ok ((((st.ex_stack, st.ex_oi), st.ex_oe),
                                 st.ex_vi), levels)) (fun x ->
                  let (p0, levels0) = x in
                  let (p1, vi) = p0 in
                  let (p2, oe) = p1 in
                  let (stack, oi) = p2 in
                  bind
                    (if is_isolate
                     then Ok pc
                     else upd (S (S (S (S (S (S (S (S (S (S (S (S (S (S (S (S
                            (S (S (S (S (S (S (S (S (S (S (S (S (S (S (S (S
                            (S (S (S (S (S (S (S (S (S (S (S (S (S (S (S (S
                            (S (S (S (S (S (S (S (S (S (S (S (S (S (S (S (S
                            (S (S (S (S (S (S (S (S (S (S (S (S (S (S (S (S
                            (S (S (S (S (S (S (S (S (S (S (S (S (S (S (S (S
                            (S (S (S (S (S (S (S (S (S (S (S (S (S (S (S (S
                            (S (S (S (S (S (S (S (S (S
                            O)))))))))))))))))))))))))))))))))))))))))))))))))))))))))))))))))))))))))))))))))))))))))))))))))))))))))))))))))))))))))
                            pc i BN) (fun pc0 -> Ok (((((stack, oi), oe),
                    vi), levels0), pc0)))))
          | RLO ->
            bind
              (upd (S (S (S (S (S (S (S (S (S (S (S (S (S (S (S (S (S (S (S
                (S (S (S (S (S (S (S (S (S (S (S (S (S (S (S (S (S (S (S (S
                (S (S (S (S (S (S (S (S (S (S (S (S (S (S (S (S (S (S (S (S
                (S (S (S (S (S (S (S (S (S (S (S
                O))))))))))))))))))))))))))))))))))))))))))))))))))))))))))))))))))))))
                st.ex_levels i last_level) (fun levels ->
              let is_isolate = is_isolate_init k in
              bind
                (if is_isolate
                 then apply_override (S (S (S (S (S (S (S (S (S (S (S (S (S
                        (S (S (S (S (S (S (S (S (S (S (S (S (S (S (S (S (S (S
                        (S (S (S (S (S (S (S (S (S (S (S (S (S (S (S (S (S (S
                        (S (S (S (S (S (S (S (S (S (S (S (S (S (S (S (S (S (S
                        (S (S (S (S (S (S (S (S (S (S (S
                        O))))))))))))))))))))))))))))))))))))))))))))))))))))))))))))))))))))))))))))))
                        last_status st.ex_pc i
                 else Ok st.ex_pc) (fun pc ->
                let new_level =
                  if class_is_rtl k
                  then level_next_rtl last_level
                  else level_next_ltr last_level
                in
                bind
                  (match new_level with
                   | Some nl ->
                     if (&&) (Nat.eqb st.ex_oi O) (Nat.eqb st.ex_oe O)
                     then let status =
                            match k with
                            | FSI -> OIsolate
                            | LRI -> OIsolate
                            | LRO -> OLTR
                            | RLI -> OIsolate
                            | RLO -> ORTL
                            | _ -> ONeutral
                          in
                          let stack = (nl, status) :: st.ex_stack in
                          if is_isolate
                          then Ok ((((stack, st.ex_oi), st.ex_oe), (S
                                 st.ex_vi)), levels)
                          else bind
                                 (upd (S (S (S (S (S (S (S (S (S (S (S (S (S
                                   (S (S (S (S (S (S (S (S (S (S (S (S (S (S
                                   (S (S (S (S (S (S (S (S (S (S (S (S (S (S
                                   (S (S (S (S (S (S (S (S (S (S (S (S (S (S
                                   (S (S (S (S (S (S (S (S (S (S (S (S (S (S
                                   (S (S (S (S (S (S (S (S (S (S (S (S (S (S
                                   (S (S (S (S (S (S (S (S (S (S (S (S (S (S
                                   (S (S (S (S (S (S (S (S (S (S (S (S
                                   O)))))))))))))))))))))))))))))))))))))))))))))))))))))))))))))))))))))))))))))))))))))))))))))))))))))))))))))
                                   levels i nl) (fun levels' -> Ok ((((stack,
                                 st.ex_oi), st.ex_oe), st.ex_vi), levels'))
                     else if is_isolate
                          then Ok ((((st.ex_stack, (S st.ex_oi)), st.ex_oe),
                                 st.ex_vi), levels)
                          else if Nat.eqb st.ex_oi O
                               then Ok ((((st.ex_stack, st.ex_oi), (S
                                      st.ex_oe)), st.ex_vi), levels)
                               else Ok ((((st.ex_stack, st.ex_oi), st.ex_oe),
                                      st.ex_vi), levels)
                   | None ->
                     if is_isolate
                     then Ok ((((st.ex_stack, (S st.ex_oi)), st.ex_oe),
                            st.ex_vi), levels)
                     else if Nat.eqb st.ex_oi O
                          then Ok ((((st.ex_stack, st.ex_oi), (S st.ex_oe)),
                                 st.ex_vi), levels)
                          else Ok ((((st.ex_stack, st.ex_oi), st.ex_oe),
                                 st.ex_vi), levels)) (fun x ->
                  let (p0, levels0) = x in
                  let (p1, vi) = p0 in
                  let (p2, oe) = p1 in
                  let (stack, oi) = p2 in
                  bind
                    (if is_isolate
                     then Ok pc
                     else upd (S (S (S (S (S (S (S (S (S (S (S (S (S (S (S (S
                            (S (S (S (S (S (S (S (S (S (S (S (S (S (S (S (S
                            (S (S (S (S (S (S (S (S (S (S (S (S (S (S (S (S
                            (S (S (S (S (S (S (S (S (S (S (S (S (S (S (S (S
                            (S (S (S (S (S (S (S (S (S (S (S (S (S (S (S (S
                            (S (S (S (S (S (S (S (S (S (S (S (S (S (S (S (S
                            (S (S (S (S (S (S (S (S (S (S (S (S (S (S (S (S
                            (S (S (S (S (S (S (S (S (S
                            O)))))))))))))))))))))))))))))))))))))))))))))))))))))))))))))))))))))))))))))))))))))))))))))))))))))))))))))))))))))))))
                            pc i BN) (fun pc0 -> Ok (((((stack, oi), oe),
                    vi), levels0), pc0)))))
          | _ ->
            bind
              (upd (S (S (S (S (S (S (S (S (S (S (S (S (S (S (S (S (S (S (S
                (S (S (S (S (S (S (S (S (S (S (S (S (S (S (S (S (S (S (S (S
                (S (S (S (S (S (S (S (S (S (S (S (S (S (S (S (S (S (S (S (S
                (S (S (S (S (S (S (S (S (S (S (S (S (S (S (S (S (S (S (S (S
                (S (S (S (S (S (S (S (S (S (S (S (S (S (S (S (S (S (S (S (S
                (S (S (S (S (S (S (S (S (S (S (S (S (S (S (S (S (S (S (S (S
                (S (S (S (S (S (S (S (S (S (S (S (S (S (S (S (S (S (S (S (S
                (S (S (S (S (S (S (S (S (S (S (S (S (S (S (S (S (S (S (S (S
                (S (S (S (S (S (S (S (S (S (S (S (S (S (S (S (S
                O)))))))))))))))))))))))))))))))))))))))))))))))))))))))))))))))))))))))))))))))))))))))))))))))))))))))))))))))))))))))))))))))))))))))))))))))))))))))))))))))))))))))))))))))
                st.ex_levels i last_level) (fun levels ->
              bind
                (if ceq k BN
                 then Ok st.ex_pc
                 else apply_override (S (S (S (S (S (S (S (S (S (S (S (S (S
                        (S (S (S (S (S (S (S (S (S (S (S (S (S (S (S (S (S (S
                        (S (S (S (S (S (S (S (S (S (S (S (S (S (S (S (S (S (S
                        (S (S (S (S (S (S (S (S (S (S (S (S (S (S (S (S (S (S
                        (S (S (S (S (S (S (S (S (S (S (S (S (S (S (S (S (S (S
                        (S (S (S (S (S (S (S (S (S (S (S (S (S (S (S (S (S (S
                        (S (S (S (S (S (S (S (S (S (S (S (S (S (S (S (S (S (S
                        (S (S (S (S (S (S (S (S (S (S (S (S (S (S (S (S (S (S
                        (S (S (S (S (S (S (S (S (S (S (S (S (S (S (S (S (S (S
                        (S (S (S (S (S (S (S (S (S (S (S (S (S (S (S (S (S (S
                        (S (S (S (S (S (S
                        O)))))))))))))))))))))))))))))))))))))))))))))))))))))))))))))))))))))))))))))))))))))))))))))))))))))))))))))))))))))))))))))))))))))))))))))))))))))))))))))))))))))))))))))))))))))
                        last_status st.ex_pc i) (fun pc -> Ok
                (((((st.ex_stack, st.ex_oi), st.ex_oe), st.ex_vi), levels),
                pc)))) (fun x ->
         let (p0, pc) = x in
         let (p1, levels) = p0 in
         let (p2, vi) = p1 in
         let (p3, oe) = p2 in
         let (stack, oi) = p3 in
         bind (copy_units levels pc i (range (S O) len)) (fun x0 ->
           let (levels0, pc0) = x0 in
           bind
             (get (S (S (S (S (S (S (S (S (S (S (S (S (S (S (S (S (S (S (S (S
               (S (S (S (S (S (S (S (S (S (S (S (S (S (S (S (S (S (S (S (S (S
               (S (S (S (S (S (S (S (S (S (S (S (S (S (S (S (S (S (S (S (S (S
               (S (S (S (S (S (S (S (S (S (S (S (S (S (S (S (S (S (S (S (S (S
               (S (S (S (S (S (S (S (S (S (S (S (S (S (S (S (S (S (S (S (S (S
               (S (S (S (S (S (S (S (S (S (S (S (S (S (S (S (S (S (S (S (S (S
               (S (S (S (S (S (S (S (S (S (S (S (S (S (S (S (S (S (S (S (S (S
               (S (S (S (S (S (S (S (S (S (S (S (S (S (S (S (S (S (S (S (S (S
               (S (S (S (S (S (S (S (S (S (S (S (S (S (S (S (S (S (S (S (S (S
               (S (S (S (S (S (S (S (S (S (S
               O))))))))))))))))))))))))))))))))))))))))))))))))))))))))))))))))))))))))))))))))))))))))))))))))))))))))))))))))))))))))))))))))))))))))))))))))))))))))))))))))))))))))))))))))))))))))))))))))))))))
               levels0 i) (fun li ->
             if Nat.eqb i O
             then let p4 = (li, st.ex_run_start) in
                  let runs = st.ex_runs in
                  let (run_level, run_start) = p4 in
                  Ok { ex_stack = stack; ex_oi = oi; ex_oe = oe; ex_vi = vi;
                  ex_levels = levels0; ex_pc = pc0; ex_run_level = run_level;
                  ex_run_start = run_start; ex_runs = runs }
             else if (&&) (negb (removed_by_x9 k))
                       (negb (Nat.eqb li st.ex_run_level))
                  then let p4 = (li, i) in
                       let runs = app st.ex_runs ((st.ex_run_start, i) :: [])
                       in
                       let (run_level, run_start) = p4 in
                       Ok { ex_stack = stack; ex_oi = oi; ex_oe = oe; ex_vi =
                       vi; ex_levels = levels0; ex_pc = pc0; ex_run_level =
                       run_level; ex_run_start = run_start; ex_runs = runs }
                  else let p4 = (st.ex_run_level, st.ex_run_start) in
                       let runs = st.ex_runs in
                       let (run_level, run_start) = p4 in
                       Ok { ex_stack = stack; ex_oi = oi; ex_oe = oe; ex_vi =
                       vi; ex_levels = levels0; ex_pc = pc0; ex_run_level =
                       run_level; ex_run_start = run_start; ex_runs = runs })))))

(** val ex_fold :
    bclass list -> ex_state -> (nat * nat) list -> ex_state res **)

let rec ex_fold oc st = function
| [] -> Ok st
| il :: rest -> bind (ex_step oc st il) (fun st' -> ex_fold oc st' rest)

(** val explicit_compute :
    enc -> n list -> nat -> bclass list -> nat list -> bclass list -> ((nat
    list * bclass list) * run list) res **)

let explicit_compute e text para_level0 oc levels pc =
  if negb (Nat.eqb (t_len e text) (length oc))
  then Panic (S (S (S (S (S (S (S (S (S (S (S (S (S (S (S (S (S (S (S (S (S
         (S (S (S (S (S (S (S (S (S (S (S (S (S (S (S (S (S (S (S (S (S
         O))))))))))))))))))))))))))))))))))))))))))
  else let st0 = { ex_stack = ((para_level0, ONeutral) :: []); ex_oi = O;
         ex_oe = O; ex_vi = O; ex_levels = levels; ex_pc = pc; ex_run_level =
         O; ex_run_start = O; ex_runs = [] }
       in
       bind (ex_fold oc st0 (t_indices_lengths e text)) (fun st ->
         let runs =
           if Nat.ltb st.ex_run_start (length st.ex_levels)
           then app st.ex_runs ((st.ex_run_start,
                  (length st.ex_levels)) :: [])
           else st.ex_runs
         in
         Ok ((st.ex_levels, st.ex_pc), runs))

type irs = { irs_runs : run list; irs_sos : bclass; irs_eos : bclass }

(** val iter_forwards_from : run list -> nat -> nat -> nat list res **)

let iter_forwards_from runs pos idx =
  if Nat.ltb (length runs) idx
  then Panic (S (S (S (S (S (S (S (S (S (S (S (S (S (S (S (S (S (S (S (S (S
         (S (S (S (S (S (S (S (S (S (S (S (S (S (S (S (S (S (S (S (S (S (S (S
         (S (S (S (S (S (S (S (S (S (S (S (S (S (S (S (S (S (S (S (S (S (S (S
         (S (S (S (S (S (S (S (S (S (S (S (S (S (S (S (S (S (S (S (S (S (S (S
         (S (S (S (S (S (S (S (S (S (S (S (S (S (S (S (S (S (S (S (S (S (S (S
         (S (S (S (S (S (S (S (S (S (S (S (S (S (S (S (S (S (S (S (S (S (S (S
         (S (S (S (S (S (S (S (S (S (S (S (S (S (S (S (S (S (S (S (S (S (S (S
         (S (S (S (S (S (S (S (S (S (S (S (S (S (S (S (S (S (S (S (S (S (S (S
         (S (S (S (S (S (S (S (S (S (S (S (S (S (S (S (S (S (S (S (S (S (S (S
         (S (S (S (S (S (S (S (S (S (S (S (S (S (S (S (S (S (S (S (S (S (S (S
         (S (S (S (S (S (S (S (S (S (S (S (S (S (S (S (S
         O))))))))))))))))))))))))))))))))))))))))))))))))))))))))))))))))))))))))))))))))))))))))))))))))))))))))))))))))))))))))))))))))))))))))))))))))))))))))))))))))))))))))))))))))))))))))))))))))))))))))))))))))))))))))))))))))))))))))))))))))))))
  else (match skipn idx runs with
        | [] ->
          Panic (S (S (S (S (S (S (S (S (S (S (S (S (S (S (S (S (S (S (S (S
            (S (S (S (S (S (S (S (S (S (S (S (S (S (S (S (S (S (S (S (S (S (S
            (S (S (S (S (S (S (S (S (S (S (S (S (S (S (S (S (S (S (S (S (S (S
            (S (S (S (S (S (S (S (S (S (S (S (S (S (S (S (S (S (S (S (S (S (S
            (S (S (S (S (S (S (S (S (S (S (S (S (S (S (S (S (S (S (S (S (S (S
            (S (S (S (S (S (S (S (S (S (S (S (S (S (S (S (S (S (S (S (S (S (S
            (S (S (S (S (S (S (S (S (S (S (S (S (S (S (S (S (S (S (S (S (S (S
            (S (S (S (S (S (S (S (S (S (S (S (S (S (S (S (S (S (S (S (S (S (S
            (S (S (S (S (S (S (S (S (S (S (S (S (S (S (S (S (S (S (S (S (S (S
            (S (S (S (S (S (S (S (S (S (S (S (S (S (S (S (S (S (S (S (S (S (S
            (S (S (S (S (S (S (S (S (S (S (S (S (S (S (S (S (S (S (S (S (S (S
            (S (S (S (S (S (S (S (S (S (S (S
            O)))))))))))))))))))))))))))))))))))))))))))))))))))))))))))))))))))))))))))))))))))))))))))))))))))))))))))))))))))))))))))))))))))))))))))))))))))))))))))))))))))))))))))))))))))))))))))))))))))))))))))))))))))))))))))))))))))))))))))))))))))))))))))
        | r0 :: rest ->
          Ok (app (range pos (snd r0)) (flat_map run_range rest)))

(** val iter_backwards_from : run list -> nat -> nat -> nat list res **)

let iter_backwards_from runs pos idx =
  if Nat.ltb (length runs) idx
  then Panic (S (S (S (S (S (S (S (S (S (S (S (S (S (S (S (S (S (S (S (S (S
         (S (S (S (S (S (S (S (S (S (S (S (S (S (S (S (S (S (S (S (S (S (S (S
         (S (S (S (S (S (S (S (S (S (S (S (S (S (S (S (S (S (S (S (S (S (S (S
         (S (S (S (S (S (S (S (S (S (S (S (S (S (S (S (S (S (S (S (S (S (S (S
         (S (S (S (S (S (S (S (S (S (S (S (S (S (S (S (S (S (S (S (S (S (S (S
         (S (S (S (S (S (S (S (S (S (S (S (S (S (S (S (S (S (S (S (S (S (S (S
         (S (S (S (S (S (S (S (S (S (S (S (S (S (S (S (S (S (S (S (S (S (S (S
         (S (S (S (S (S (S (S (S (S (S (S (S (S (S (S (S (S (S (S (S (S (S (S
         (S (S (S (S (S (S (S (S (S (S (S (S (S (S (S (S (S (S (S (S (S (S (S
         (S (S (S (S (S (S (S (S (S (S (S (S (S (S (S (S (S (S (S (S (S (S (S
         (S (S (S (S (S (S (S (S (S (S (S (S (S (S (S (S (S (S (S (S (S (S (S
         (S (S (S (S (S (S (S (S (S (S (S
         O))))))))))))))))))))))))))))))))))))))))))))))))))))))))))))))))))))))))))))))))))))))))))))))))))))))))))))))))))))))))))))))))))))))))))))))))))))))))))))))))))))))))))))))))))))))))))))))))))))))))))))))))))))))))))))))))))))))))))))))))))))))))))))))))))))))
  else (match nth_error runs idx with
        | Some cur ->
          Ok
            (app (rev (range (fst cur) pos))
              (flat_map (fun r -> rev (run_range r)) (rev (firstn idx runs))))
        | None ->
          Panic (S (S (S (S (S (S (S (S (S (S (S (S (S (S (S (S (S (S (S (S
            (S (S (S (S (S (S (S (S (S (S (S (S (S (S (S (S (S (S (S (S (S (S
            (S (S (S (S (S (S (S (S (S (S (S (S (S (S (S (S (S (S (S (S (S (S
            (S (S (S (S (S (S (S (S (S (S (S (S (S (S (S (S (S (S (S (S (S (S
            (S (S (S (S (S (S (S (S (S (S (S (S (S (S (S (S (S (S (S (S (S (S
            (S (S (S (S (S (S (S (S (S (S (S (S (S (S (S (S (S (S (S (S (S (S
            (S (S (S (S (S (S (S (S (S (S (S (S (S (S (S (S (S (S (S (S (S (S
            (S (S (S (S (S (S (S (S (S (S (S (S (S (S (S (S (S (S (S (S (S (S
            (S (S (S (S (S (S (S (S (S (S (S (S (S (S (S (S (S (S (S (S (S (S
            (S (S (S (S (S (S (S (S (S (S (S (S (S (S (S (S (S (S (S (S (S (S
            (S (S (S (S (S (S (S (S (S (S (S (S (S (S (S (S (S (S (S (S (S (S
            (S (S (S (S (S (S (S (S (S (S (S (S (S (S (S (S (S (S (S (S (S (S
            (S
            O))))))))))))))))))))))))))))))))))))))))))))))))))))))))))))))))))))))))))))))))))))))))))))))))))))))))))))))))))))))))))))))))))))))))))))))))))))))))))))))))))))))))))))))))))))))))))))))))))))))))))))))))))))))))))))))))))))))))))))))))))))))))))))))))))))))))

(** val iter_backwards_from_legacy :
    run list -> nat -> nat -> nat list res **)

let iter_backwards_from_legacy runs pos idx =
  if Nat.ltb (length runs) idx
  then Panic (S (S (S (S (S (S (S (S (S (S (S (S (S (S (S (S (S (S (S (S (S
         (S (S (S (S (S (S (S (S (S (S (S (S (S (S (S (S (S (S (S (S (S (S (S
         (S (S (S (S (S (S (S (S (S (S (S (S (S (S (S (S (S (S (S (S (S (S (S
         (S (S (S (S (S (S (S (S (S (S (S (S (S (S (S (S (S (S (S (S (S (S (S
         (S (S (S (S (S (S (S (S (S (S (S (S (S (S (S (S (S (S (S (S (S (S (S
         (S (S (S (S (S (S (S (S (S (S (S (S (S (S (S (S (S (S (S (S (S (S (S
         (S (S (S (S (S (S (S (S (S (S (S (S (S (S (S (S (S (S (S (S (S (S (S
         (S (S (S (S (S (S (S (S (S (S (S (S (S (S (S (S (S (S (S (S (S (S (S
         (S (S (S (S (S (S (S (S (S (S (S (S (S (S (S (S (S (S (S (S (S (S (S
         (S (S (S (S (S (S (S (S (S (S (S (S (S (S (S (S (S (S (S (S (S (S (S
         (S (S (S (S (S (S (S (S (S (S (S (S (S (S (S (S (S (S (S (S (S (S (S
         (S (S (S (S (S (S (S (S (S (S (S
         O))))))))))))))))))))))))))))))))))))))))))))))))))))))))))))))))))))))))))))))))))))))))))))))))))))))))))))))))))))))))))))))))))))))))))))))))))))))))))))))))))))))))))))))))))))))))))))))))))))))))))))))))))))))))))))))))))))))))))))))))))))))))))))))))))))))
  else (match nth_error runs idx with
        | Some cur ->
          Ok
            (app (rev (range (fst cur) pos))
              (flat_map run_range (rev (firstn idx runs))))
        | None ->
          Panic (S (S (S (S (S (S (S (S (S (S (S (S (S (S (S (S (S (S (S (S
            (S (S (S (S (S (S (S (S (S (S (S (S (S (S (S (S (S (S (S (S (S (S
            (S (S (S (S (S (S (S (S (S (S (S (S (S (S (S (S (S (S (S (S (S (S
            (S (S (S (S (S (S (S (S (S (S (S (S (S (S (S (S (S (S (S (S (S (S
            (S (S (S (S (S (S (S (S (S (S (S (S (S (S (S (S (S (S (S (S (S (S
            (S (S (S (S (S (S (S (S (S (S (S (S (S (S (S (S (S (S (S (S (S (S
            (S (S (S (S (S (S (S (S (S (S (S (S (S (S (S (S (S (S (S (S (S (S
            (S (S (S (S (S (S (S (S (S (S (S (S (S (S (S (S (S (S (S (S (S (S
            (S (S (S (S (S (S (S (S (S (S (S (S (S (S (S (S (S (S (S (S (S (S
            (S (S (S (S (S (S (S (S (S (S (S (S (S (S (S (S (S (S (S (S (S (S
            (S (S (S (S (S (S (S (S (S (S (S (S (S (S (S (S (S (S (S (S (S (S
            (S (S (S (S (S (S (S (S (S (S (S (S (S (S (S (S (S (S (S (S (S (S
            (S
            O))))))))))))))))))))))))))))))))))))))))))))))))))))))))))))))))))))))))))))))))))))))))))))))))))))))))))))))))))))))))))))))))))))))))))))))))))))))))))))))))))))))))))))))))))))))))))))))))))))))))))))))))))))))))))))))))))))))))))))))))))))))))))))))))))))))))

(** val find_index_by :
    nat -> ('a1 -> bool) -> 'a1 list -> nat list -> nat option res **)

let rec find_index_by site p v = function
| [] -> Ok None
| i :: rest ->
  bind (get site v i) (fun x ->
    if p x then Ok (Some i) else find_index_by site p v rest)

(** val find_value_by :
    nat -> ('a1 -> bool) -> 'a1 list -> nat list -> 'a1 option res **)

let rec find_value_by site p v = function
| [] -> Ok None
| i :: rest ->
  bind (get site v i) (fun x ->
    if p x then Ok (Some x) else find_value_by site p v rest)

(** val rfind : ('a1 -> bool) -> 'a1 list -> 'a1 option **)

let rfind p l =
  find p (rev l)

(** val pred_level_of : nat -> bclass list -> nat list -> nat -> nat res **)

let pred_level_of para_level0 oc levels start =
  if Nat.ltb (length oc) start
  then Panic (S (S (S (S (S (S (S (S (S (S (S (S (S (S (S (S (S (S (S (S (S
         (S (S (S (S (S (S (S (S (S (S (S (S (S (S (S (S (S (S (S (S (S (S (S
         (S (S (S (S (S (S (S (S (S (S (S (S (S (S (S (S (S (S (S (S (S (S (S
         (S (S (S (S (S (S (S (S (S (S (S (S (S (S (S (S (S (S (S
         O))))))))))))))))))))))))))))))))))))))))))))))))))))))))))))))))))))))))))))))))))))))
  else (match rposition not_removed_by_x9 (firstn start oc) with
        | Some idx ->
          get (S (S (S (S (S (S (S (S (S (S (S (S (S (S (S (S (S (S (S (S (S
            (S (S (S (S (S (S (S (S (S (S (S (S (S (S (S (S (S (S (S (S (S (S
            (S (S (S (S (S (S (S (S (S (S (S (S (S (S (S (S (S (S (S (S (S (S
            (S (S (S (S (S (S (S (S (S (S (S (S (S (S (S (S (S (S (S (S (S (S
            (S (S (S
            O))))))))))))))))))))))))))))))))))))))))))))))))))))))))))))))))))))))))))))))))))))))))))
            levels idx
        | None -> Ok para_level0)

(** val succ_level_of : nat -> bclass list -> nat list -> nat -> nat res **)

let succ_level_of para_level0 oc levels en =
  if Nat.ltb (length oc) en
  then Panic (S (S (S (S (S (S (S (S (S (S (S (S (S (S (S (S (S (S (S (S (S
         (S (S (S (S (S (S (S (S (S (S (S (S (S (S (S (S (S (S (S (S (S (S (S
         (S (S (S (S (S (S (S (S (S (S (S (S (S (S (S (S (S (S (S (S (S (S (S
         (S (S (S (S (S (S (S (S (S (S (S (S (S (S (S (S (S (S (S (S (S (S (S
         (S (S (S (S (S
         O)))))))))))))))))))))))))))))))))))))))))))))))))))))))))))))))))))))))))))))))))))))))))))))))
  else (match position not_removed_by_x9 (skipn en oc) with
        | Some idx ->
          get (S (S (S (S (S (S (S (S (S (S (S (S (S (S (S (S (S (S (S (S (S
            (S (S (S (S (S (S (S (S (S (S (S (S (S (S (S (S (S (S (S (S (S (S
            (S (S (S (S (S (S (S (S (S (S (S (S (S (S (S (S (S (S (S (S (S (S
            (S (S (S (S (S (S (S (S (S (S (S (S (S (S (S (S (S (S (S (S (S (S
            (S (S (S (S (S (S (S (S (S (S (S (S
            O)))))))))))))))))))))))))))))))))))))))))))))))))))))))))))))))))))))))))))))))))))))))))))))))))))
            levels (add en idx)
        | None -> Ok para_level0)

(** val irs_fast_one : nat -> bclass list -> nat list -> run -> irs res **)

let irs_fast_one para_level0 oc levels r = match r with
| (s, en) ->
  bind
    (slice (S (S (S (S (S (S (S (S (S (S (S (S (S (S (S (S (S (S (S (S (S (S
      (S (S (S (S (S (S (S (S (S (S (S (S (S (S (S (S (S (S (S (S (S (S (S (S
      (S (S (S (S (S (S (S (S (S (S (S (S (S (S (S (S (S (S (S (S (S (S (S (S
      (S (S (S
      O)))))))))))))))))))))))))))))))))))))))))))))))))))))))))))))))))))))))))
      levels s en) (fun run_levels ->
    bind
      (slice (S (S (S (S (S (S (S (S (S (S (S (S (S (S (S (S (S (S (S (S (S
        (S (S (S (S (S (S (S (S (S (S (S (S (S (S (S (S (S (S (S (S (S (S (S
        (S (S (S (S (S (S (S (S (S (S (S (S (S (S (S (S (S (S (S (S (S (S (S
        (S (S (S (S (S (S (S
        O))))))))))))))))))))))))))))))))))))))))))))))))))))))))))))))))))))))))))
        oc s en) (fun run_classes ->
      bind
        (get (S (S (S (S (S (S (S (S (S (S (S (S (S (S (S (S (S (S (S (S (S
          (S (S (S (S (S (S (S (S (S (S (S (S (S (S (S (S (S (S (S (S (S (S
          (S (S (S (S (S (S (S (S (S (S (S (S (S (S (S (S (S (S (S (S (S (S
          (S (S (S (S (S (S (S (S (S (S
          O)))))))))))))))))))))))))))))))))))))))))))))))))))))))))))))))))))))))))))
          run_levels (opt_or (position not_removed_by_x9 run_classes) O))
        (fun seq_level ->
        bind
          (if Nat.leb en s
           then Panic (S (S (S (S (S (S (S (S (S (S (S (S (S (S (S (S (S (S
                  (S (S (S (S (S (S (S (S (S (S (S (S (S (S (S (S (S (S (S (S
                  (S (S (S (S (S (S (S (S (S (S (S (S (S (S (S (S (S (S (S (S
                  (S (S (S (S (S (S (S (S (S (S (S (S (S (S (S (S (S (S (S (S
                  (S (S (S (S (S
                  O)))))))))))))))))))))))))))))))))))))))))))))))))))))))))))))))))))))))))))))))))))
           else Ok ()) (fun _ ->
          bind
            (get (S (S (S (S (S (S (S (S (S (S (S (S (S (S (S (S (S (S (S (S
              (S (S (S (S (S (S (S (S (S (S (S (S (S (S (S (S (S (S (S (S (S
              (S (S (S (S (S (S (S (S (S (S (S (S (S (S (S (S (S (S (S (S (S
              (S (S (S (S (S (S (S (S (S (S (S (S (S (S (S (S (S (S
              O))))))))))))))))))))))))))))))))))))))))))))))))))))))))))))))))))))))))))))))))
              run_levels
              (opt_or (rposition not_removed_by_x9 run_classes)
                (sub (sub en s) (S O)))) (fun end_level ->
            bind (pred_level_of para_level0 oc levels s) (fun pred_level ->
              bind (succ_level_of para_level0 oc levels en)
                (fun succ_level -> Ok { irs_runs = (r :: []); irs_sos =
                (level_class (Nat.max seq_level pred_level)); irs_eos =
                (level_class (Nat.max end_level succ_level)) })))))))

(** val map_res : ('a1 -> 'a2 res) -> 'a1 list -> 'a2 list res **)

let rec map_res f = function
| [] -> Ok []
| x :: t -> bind (f x) (fun y -> bind (map_res f t) (fun ys -> Ok (y :: ys)))

(** val bd13_fold :
    bclass list -> run list -> run list list -> run list list -> run list
    list res **)

let rec bd13_fold oc runs stack sequences =
  match runs with
  | [] ->
    Ok (app sequences (filter (fun s -> negb (Nat.eqb (length s) O)) stack))
  | r :: rest ->
    let (s, en) = r in
    if Nat.leb en s
    then Panic (S (S (S (S (S (S (S (S (S (S (S (S (S (S (S (S (S (S (S (S (S
           (S (S (S (S (S (S (S (S (S (S (S (S (S (S (S (S (S (S (S (S (S (S
           (S (S (S (S (S (S (S (S (S (S (S (S (S (S (S (S (S (S (S (S (S (S
           (S (S (S (S (S (S (S (S (S (S (S (S (S (S (S (S (S (S (S (S (S (S
           (S (S (S (S (S (S (S (S (S (S (S (S (S (S (S (S (S (S (S (S (S (S
           (S (S (S (S (S (S (S (S (S (S (S (S (S (S (S
           O))))))))))))))))))))))))))))))))))))))))))))))))))))))))))))))))))))))))))))))))))))))))))))))))))))))))))))))))))))))))))))
    else (match stack with
          | [] ->
            Panic (S (S (S (S (S (S (S (S (S (S (S (S (S (S (S (S (S (S (S (S
              (S (S (S (S (S (S (S (S (S (S (S (S (S (S (S (S (S (S (S (S (S
              (S (S (S (S (S (S (S (S (S (S (S (S (S (S (S (S (S (S (S (S (S
              (S (S (S (S (S (S (S (S (S (S (S (S (S (S (S (S (S (S (S (S (S
              (S (S (S (S (S (S (S (S (S (S (S (S (S (S (S (S (S (S (S (S (S
              (S (S (S (S (S (S (S (S (S (S (S (S (S (S (S (S (S (S (S (S (S
              O)))))))))))))))))))))))))))))))))))))))))))))))))))))))))))))))))))))))))))))))))))))))))))))))))))))))))))))))))))))))))))))
          | top :: below ->
            bind
              (get (S (S (S (S (S (S (S (S (S (S (S (S (S (S (S (S (S (S (S
                (S (S (S (S (S (S (S (S (S (S (S (S (S (S (S (S (S (S (S (S
                (S (S (S (S (S (S (S (S (S (S (S (S (S (S (S (S (S (S (S (S
                (S (S (S (S (S (S (S (S (S (S (S (S (S (S (S (S (S (S (S (S
                (S (S (S (S (S (S (S (S (S (S (S (S (S (S (S (S (S (S (S (S
                (S (S (S (S (S (S (S (S (S (S (S (S (S (S (S (S (S (S (S (S
                (S (S (S (S (S (S (S (S
                O)))))))))))))))))))))))))))))))))))))))))))))))))))))))))))))))))))))))))))))))))))))))))))))))))))))))))))))))))))))))))))))))
                oc s) (fun start_class ->
              bind
                (slice (S (S (S (S (S (S (S (S (S (S (S (S (S (S (S (S (S (S
                  (S (S (S (S (S (S (S (S (S (S (S (S (S (S (S (S (S (S (S (S
                  (S (S (S (S (S (S (S (S (S (S (S (S (S (S (S (S (S (S (S (S
                  (S (S (S (S (S (S (S (S (S (S (S (S (S (S (S (S (S (S (S (S
                  (S (S (S (S (S (S (S (S (S (S (S (S (S (S (S (S (S (S (S (S
                  (S (S (S (S (S (S (S (S (S (S (S (S (S (S (S (S (S (S (S (S
                  (S (S (S (S (S (S (S (S (S (S (S (S (S (S
                  O))))))))))))))))))))))))))))))))))))))))))))))))))))))))))))))))))))))))))))))))))))))))))))))))))))))))))))))))))))))))))))))))))))
                  oc s en) (fun sl ->
                let end_class =
                  opt_or (rfind not_removed_by_x9 sl) start_class
                in
                if (&&) (ceq start_class PDI) (Nat.ltb (S O) (length stack))
                then let sequence = app top (r :: []) in
                     if is_isolate_init end_class
                     then bd13_fold oc rest (sequence :: below) sequences
                     else bd13_fold oc rest below
                            (app sequences (sequence :: []))
                else let sequence = [] in
                     let sequence0 = app sequence (r :: []) in
                     if is_isolate_init end_class
                     then bd13_fold oc rest (sequence0 :: stack) sequences
                     else bd13_fold oc rest stack
                            (app sequences (sequence0 :: [])))))

(** val irs_general_one :
    nat -> bclass list -> nat list -> run list -> irs res **)

let irs_general_one para_level0 oc levels sequence = match sequence with
| [] ->
  Panic (S (S (S (S (S (S (S (S (S (S (S (S (S (S (S (S (S (S (S (S (S (S (S
    (S (S (S (S (S (S (S (S (S (S (S (S (S (S (S (S (S (S (S (S (S (S (S (S
    (S (S (S (S (S (S (S (S (S (S (S (S (S (S (S (S (S (S (S (S (S (S (S (S
    (S (S (S (S (S (S (S (S (S (S (S (S (S (S (S (S (S (S (S (S (S (S (S (S
    (S (S (S (S (S (S (S (S (S (S (S (S (S (S (S (S (S (S (S (S (S (S (S (S
    (S (S (S (S (S (S (S (S (S (S (S (S (S (S (S (S (S (S (S (S (S (S (S (S
    (S (S (S (S (S (S (S (S (S (S (S (S (S (S (S (S (S (S (S (S
    O)))))))))))))))))))))))))))))))))))))))))))))))))))))))))))))))))))))))))))))))))))))))))))))))))))))))))))))))))))))))))))))))))))))))))))))))))))))))))))))))))))
| r0 :: _ ->
  let start_of_seq = fst r0 in
  let runs_len = length sequence in
  bind
    (get (S (S (S (S (S (S (S (S (S (S (S (S (S (S (S (S (S (S (S (S (S (S (S
      (S (S (S (S (S (S (S (S (S (S (S (S (S (S (S (S (S (S (S (S (S (S (S (S
      (S (S (S (S (S (S (S (S (S (S (S (S (S (S (S (S (S (S (S (S (S (S (S (S
      (S (S (S (S (S (S (S (S (S (S (S (S (S (S (S (S (S (S (S (S (S (S (S (S
      (S (S (S (S (S (S (S (S (S (S (S (S (S (S (S (S (S (S (S (S (S (S (S (S
      (S (S (S (S (S (S (S (S (S (S (S (S (S (S (S (S (S (S (S (S (S (S (S (S
      (S (S (S (S (S (S (S (S (S (S (S (S (S (S (S (S (S (S (S (S (S (S (S (S
      O)))))))))))))))))))))))))))))))))))))))))))))))))))))))))))))))))))))))))))))))))))))))))))))))))))))))))))))))))))))))))))))))))))))))))))))))))))))))))))))))))))))))
      sequence (sub runs_len (S O))) (fun rl ->
    let end_of_seq = snd rl in
    bind (iter_forwards_from sequence start_of_seq O) (fun fw ->
      bind
        (find_index_by (S (S (S (S (S (S (S (S (S (S (S (S (S (S (S (S (S (S
          (S (S (S (S (S (S (S (S (S (S (S (S (S (S (S (S (S (S (S (S (S (S
          (S (S (S (S (S (S (S (S (S (S (S (S (S (S (S (S (S (S (S (S (S (S
          (S (S (S (S (S (S (S (S (S (S (S (S (S (S (S (S (S (S (S (S (S (S
          (S (S (S (S (S (S (S (S (S (S (S (S (S (S (S (S (S (S (S (S (S (S
          (S (S (S (S (S (S (S (S (S (S (S (S (S (S (S (S (S (S (S (S (S (S
          (S (S (S (S (S (S (S (S (S (S (S (S (S (S (S (S (S (S (S (S (S (S
          (S (S (S (S (S (S (S (S (S (S (S (S (S (S (S (S (S (S (S (S (S (S
          (S (S (S (S (S (S
          O))))))))))))))))))))))))))))))))))))))))))))))))))))))))))))))))))))))))))))))))))))))))))))))))))))))))))))))))))))))))))))))))))))))))))))))))))))))))))))))))))))))))))))))))))
          not_removed_by_x9 oc fw) (fun fi ->
        bind
          (get (S (S (S (S (S (S (S (S (S (S (S (S (S (S (S (S (S (S (S (S (S
            (S (S (S (S (S (S (S (S (S (S (S (S (S (S (S (S (S (S (S (S (S (S
            (S (S (S (S (S (S (S (S (S (S (S (S (S (S (S (S (S (S (S (S (S (S
            (S (S (S (S (S (S (S (S (S (S (S (S (S (S (S (S (S (S (S (S (S (S
            (S (S (S (S (S (S (S (S (S (S (S (S (S (S (S (S (S (S (S (S (S (S
            (S (S (S (S (S (S (S (S (S (S (S (S (S (S (S (S (S (S (S (S (S (S
            (S (S (S (S (S (S (S (S (S (S (S (S (S (S (S (S (S (S (S (S (S (S
            (S (S (S (S (S (S (S (S (S (S (S (S (S (S (S (S (S (S (S (S (S (S
            (S
            O))))))))))))))))))))))))))))))))))))))))))))))))))))))))))))))))))))))))))))))))))))))))))))))))))))))))))))))))))))))))))))))))))))))))))))))))))))))))))))))))))))))))))))))))
            levels (opt_or fi start_of_seq)) (fun seq_level ->
          bind (iter_backwards_from sequence end_of_seq (sub runs_len (S O)))
            (fun bw ->
            bind
              (find_index_by (S (S (S (S (S (S (S (S (S (S (S (S (S (S (S (S
                (S (S (S (S (S (S (S (S (S (S (S (S (S (S (S (S (S (S (S (S
                (S (S (S (S (S (S (S (S (S (S (S (S (S (S (S (S (S (S (S (S
                (S (S (S (S (S (S (S (S (S (S (S (S (S (S (S (S (S (S (S (S
                (S (S (S (S (S (S (S (S (S (S (S (S (S (S (S (S (S (S (S (S
                (S (S (S (S (S (S (S (S (S (S (S (S (S (S (S (S (S (S (S (S
                (S (S (S (S (S (S (S (S (S (S (S (S (S (S (S (S (S (S (S (S
                (S (S (S (S (S (S (S (S (S (S (S (S (S (S (S (S (S (S (S (S
                (S (S (S (S (S (S (S (S (S (S (S (S (S (S (S (S (S (S (S (S
                (S (S (S (S (S (S (S (S (S
                O)))))))))))))))))))))))))))))))))))))))))))))))))))))))))))))))))))))))))))))))))))))))))))))))))))))))))))))))))))))))))))))))))))))))))))))))))))))))))))))))))))))))))))))))))))))))))
                not_removed_by_x9 oc bw) (fun bi ->
              bind
                (if Nat.eqb end_of_seq O
                 then Panic (S (S (S (S (S (S (S (S (S (S (S (S (S (S (S (S
                        (S (S (S (S (S (S (S (S (S (S (S (S (S (S (S (S (S (S
                        (S (S (S (S (S (S (S (S (S (S (S (S (S (S (S (S (S (S
                        (S (S (S (S (S (S (S (S (S (S (S (S (S (S (S (S (S (S
                        (S (S (S (S (S (S (S (S (S (S (S (S (S (S (S (S (S (S
                        (S (S (S (S (S (S (S (S (S (S (S (S (S (S (S (S (S (S
                        (S (S (S (S (S (S (S (S (S (S (S (S (S (S (S (S (S (S
                        (S (S (S (S (S (S (S (S (S (S (S (S (S (S (S (S (S (S
                        (S (S (S (S (S (S (S (S (S (S (S (S (S (S (S (S (S (S
                        (S (S (S (S (S (S (S (S (S (S (S (S (S (S (S (S (S (S
                        (S (S (S (S (S (S (S (S
                        O))))))))))))))))))))))))))))))))))))))))))))))))))))))))))))))))))))))))))))))))))))))))))))))))))))))))))))))))))))))))))))))))))))))))))))))))))))))))))))))))))))))))))))))))))))))))))
                 else Ok ()) (fun _ ->
                bind
                  (get (S (S (S (S (S (S (S (S (S (S (S (S (S (S (S (S (S (S
                    (S (S (S (S (S (S (S (S (S (S (S (S (S (S (S (S (S (S (S
                    (S (S (S (S (S (S (S (S (S (S (S (S (S (S (S (S (S (S (S
                    (S (S (S (S (S (S (S (S (S (S (S (S (S (S (S (S (S (S (S
                    (S (S (S (S (S (S (S (S (S (S (S (S (S (S (S (S (S (S (S
                    (S (S (S (S (S (S (S (S (S (S (S (S (S (S (S (S (S (S (S
                    (S (S (S (S (S (S (S (S (S (S (S (S (S (S (S (S (S (S (S
                    (S (S (S (S (S (S (S (S (S (S (S (S (S (S (S (S (S (S (S
                    (S (S (S (S (S (S (S (S (S (S (S (S (S (S (S (S (S (S (S
                    (S (S (S (S (S (S (S (S (S (S (S (S (S
                    O)))))))))))))))))))))))))))))))))))))))))))))))))))))))))))))))))))))))))))))))))))))))))))))))))))))))))))))))))))))))))))))))))))))))))))))))))))))))))))))))))))))))))))))))))))))))
                    levels (opt_or bi (sub end_of_seq (S O))))
                  (fun end_level ->
                  bind (pred_level_of para_level0 oc levels start_of_seq)
                    (fun pred_level ->
                    bind
                      (if Nat.ltb (length oc) end_of_seq
                       then Panic (S (S (S (S (S (S (S (S (S (S (S (S (S (S
                              (S (S (S (S (S (S (S (S (S (S (S (S (S (S (S (S
                              (S (S (S (S (S (S (S (S (S (S (S (S (S (S (S (S
                              (S (S (S (S (S (S (S (S (S (S (S (S (S (S (S (S
                              (S (S (S (S (S (S (S (S (S (S (S (S (S (S (S (S
                              (S (S (S (S (S (S (S (S (S (S (S (S (S (S (S (S
                              (S (S (S (S (S (S (S (S (S (S (S (S (S (S (S (S
                              (S (S (S (S (S (S (S (S (S (S (S (S (S (S (S (S
                              (S (S (S (S (S (S (S (S (S (S (S (S (S (S (S (S
                              (S (S (S (S (S (S (S (S (S (S (S (S (S (S (S (S
                              (S (S (S (S (S (S (S (S (S (S (S (S (S (S (S (S
                              (S (S (S (S (S (S (S (S (S (S (S (S (S (S (S (S
                              (S (S (S (S (S (S (S (S (S (S (S (S (S (S (S (S
                              (S (S
                              O))))))))))))))))))))))))))))))))))))))))))))))))))))))))))))))))))))))))))))))))))))))))))))))))))))))))))))))))))))))))))))))))))))))))))))))))))))))))))))))))))))))))))))))))))))))))))))))))))))))))))))))))
                       else Ok ()) (fun _ ->
                      let last_non_removed =
                        opt_or
                          (rfind not_removed_by_x9 (firstn end_of_seq oc)) BN
                      in
                      bind
                        (if is_isolate_init last_non_removed
                         then Ok para_level0
                         else succ_level_of para_level0 oc levels end_of_seq)
                        (fun succ_level -> Ok { irs_runs = sequence;
                        irs_sos =
                        (level_class (Nat.max seq_level pred_level));
                        irs_eos =
                        (level_class (Nat.max end_level succ_level)) })))))))))))

(** val isolating_run_sequences :
    nat -> bclass list -> nat list -> run list -> bool -> irs list res **)

let isolating_run_sequences para_level0 oc levels runs has_isolate_controls =
  if negb has_isolate_controls
  then map_res (irs_fast_one para_level0 oc levels) runs
  else bind (bd13_fold oc runs ([] :: []) []) (fun seqs ->
         map_res (irs_general_one para_level0 oc levels) seqs)

type w_state = { w_prev4 : bclass; w_prev5 : bclass; w_prev1 : bclass;
                 w_al : bool; w_et : nat list; w_bn : nat list;
                 w_pc : bclass list }

(** val set_while_bn :
    nat -> bclass list -> nat list -> bclass -> bclass list res **)

let rec set_while_bn site pc idxs x =
  match idxs with
  | [] -> Ok pc
  | j :: rest ->
    bind (get site pc j) (fun c ->
      if ceq c BN
      then bind (upd site pc j x) (fun pc' -> set_while_bn site pc' rest x)
      else Ok pc)

(** val weak_step :
    enc -> n list -> irs -> w_state -> (nat * nat) -> w_state res **)

let weak_step e text sq st = function
| (run_index, i) ->
  bind
    (get (S (S (S (S (S (S (S (S (S (S (S (S (S (S (S (S (S (S (S (S (S (S (S
      (S (S (S (S (S (S (S (S (S (S (S (S (S (S (S (S (S (S (S (S (S (S (S (S
      (S (S (S (S (S (S (S (S (S
      O)))))))))))))))))))))))))))))))))))))))))))))))))))))))) st.w_pc i)
    (fun c0 ->
    if ceq c0 BN
    then Ok { w_prev4 = st.w_prev4; w_prev5 = st.w_prev5; w_prev1 =
           st.w_prev1; w_al = st.w_al; w_et = st.w_et; w_bn =
           (app st.w_bn (i :: [])); w_pc = st.w_pc }
    else bind
           (if ceq c0 NSM
            then let c1 =
                   match st.w_prev1 with
                   | FSI -> ON
                   | LRI -> ON
                   | PDI -> ON
                   | RLI -> ON
                   | x -> x
                 in
                 bind
                   (upd (S (S (S (S (S (S (S (S (S (S (S (S (S (S (S (S (S (S
                     (S (S (S (S (S (S (S (S (S (S (S (S (S (S (S (S (S (S (S
                     (S (S (S (S (S (S (S (S (S (S (S (S (S (S (S (S (S (S (S
                     (S (S (S (S (S (S (S (S (S (S (S (S (S (S (S (S (S
                     O)))))))))))))))))))))))))))))))))))))))))))))))))))))))))))))))))))))))))
                     st.w_pc i c1) (fun pc -> Ok (pc, c1))
            else Ok (st.w_pc, c0)) (fun x ->
           let (pc, w2c) = x in
           bind
             (get (S (S (S (S (S (S (S (S (S (S (S (S (S (S (S (S (S (S (S (S
               (S (S (S (S (S (S (S (S (S (S (S (S (S (S (S (S (S (S (S (S (S
               (S (S (S (S (S (S (S (S (S (S (S (S (S (S (S (S (S (S (S (S (S
               (S (S (S (S (S (S (S (S (S (S (S (S (S (S (S (S (S (S (S
               O)))))))))))))))))))))))))))))))))))))))))))))))))))))))))))))))))))))))))))))))))
               pc i) (fun c1 ->
             bind
               (match c1 with
                | AL ->
                  upd (S (S (S (S (S (S (S (S (S (S (S (S (S (S (S (S (S (S
                    (S (S (S (S (S (S (S (S (S (S (S (S (S (S (S (S (S (S (S
                    (S (S (S (S (S (S (S (S (S (S (S (S (S (S (S (S (S (S (S
                    (S (S (S (S (S (S (S (S (S (S (S (S (S (S (S (S (S (S (S
                    (S (S (S (S (S (S (S (S (S (S (S (S (S (S (S (S (S (S (S
                    O))))))))))))))))))))))))))))))))))))))))))))))))))))))))))))))))))))))))))))))))))))))))))))))
                    pc i R
                | EN ->
                  if st.w_al
                  then upd (S (S (S (S (S (S (S (S (S (S (S (S (S (S (S (S (S
                         (S (S (S (S (S (S (S (S (S (S (S (S (S (S (S (S (S
                         (S (S (S (S (S (S (S (S (S (S (S (S (S (S (S (S (S
                         (S (S (S (S (S (S (S (S (S (S (S (S (S (S (S (S (S
                         (S (S (S (S (S (S (S (S (S (S (S (S (S (S (S (S (S
                         (S (S (S (S (S
                         O))))))))))))))))))))))))))))))))))))))))))))))))))))))))))))))))))))))))))))))))))))))))))
                         pc i AN
                  else Ok pc
                | _ -> Ok pc) (fun pc0 ->
               let al =
                 match w2c with
                 | AL -> true
                 | L -> false
                 | R -> false
                 | _ -> st.w_al
               in
               bind
                 (get (S (S (S (S (S (S (S (S (S (S (S (S (S (S (S (S (S (S
                   (S (S (S (S (S (S (S (S (S (S (S (S (S (S (S (S (S (S (S
                   (S (S (S (S (S (S (S (S (S (S (S (S (S (S (S (S (S (S (S
                   (S (S (S (S (S (S (S (S (S (S (S (S (S (S (S (S (S (S (S
                   (S (S (S (S (S (S (S (S (S (S (S (S (S (S (S (S (S (S (S
                   (S (S (S (S (S (S (S (S (S (S (S (S (S (S (S
                   O)))))))))))))))))))))))))))))))))))))))))))))))))))))))))))))))))))))))))))))))))))))))))))))))))))))))))))))
                   pc0 i) (fun c456 ->
                 bind
                   (match c456 with
                    | CS ->
                      (match t_char_at e text i with
                       | Some p ->
                         let (_, clen) = p in
                         bind
                           (iter_forwards_from sq.irs_runs (add i clen)
                             run_index) (fun fw ->
                           bind
                             (find_value_by (S (S (S (S (S (S (S (S (S (S (S
                               (S (S (S (S (S (S (S (S (S (S (S (S (S (S (S
                               (S (S (S (S (S (S (S (S (S (S (S (S (S (S (S
                               (S (S (S (S (S (S (S (S (S (S (S (S (S (S (S
                               (S (S (S (S (S (S (S (S (S (S (S (S (S (S (S
                               (S (S (S (S (S (S (S (S (S (S (S (S (S (S (S
                               (S (S (S (S (S (S (S (S (S (S (S (S (S (S (S
                               (S (S (S (S (S (S (S (S (S (S (S (S (S (S (S
                               (S (S (S (S (S (S (S (S (S (S (S (S (S (S (S
                               (S (S (S (S
                               O)))))))))))))))))))))))))))))))))))))))))))))))))))))))))))))))))))))))))))))))))))))))))))))))))))))))))))))))))))))))))))))))))))))))
                               not_removed_by_x9 pc0 fw) (fun nx ->
                             let next_class = opt_or nx sq.irs_eos in
                             let next_class0 =
                               if (&&) (ceq next_class EN) al
                               then AN
                               else next_class
                             in
                             let newc =
                               match st.w_prev4 with
                               | AN ->
                                 (match c456 with
                                  | CS ->
                                    (match next_class0 with
                                     | AN -> AN
                                     | _ -> ON)
                                  | _ -> ON)
                               | EN ->
                                 (match c456 with
                                  | CS ->
                                    (match next_class0 with
                                     | EN -> EN
                                     | _ -> ON)
                                  | ES ->
                                    (match next_class0 with
                                     | EN -> EN
                                     | _ -> ON)
                                  | _ -> ON)
                               | _ -> ON
                             in
                             bind
                               (upd (S (S (S (S (S (S (S (S (S (S (S (S (S (S
                                 (S (S (S (S (S (S (S (S (S (S (S (S (S (S (S
                                 (S (S (S (S (S (S (S (S (S (S (S (S (S (S (S
                                 (S (S (S (S (S (S (S (S (S (S (S (S (S (S (S
                                 (S (S (S (S (S (S (S (S (S (S (S (S (S (S (S
                                 (S (S (S (S (S (S (S (S (S (S (S (S (S (S (S
                                 (S (S (S (S (S (S (S (S (S (S (S (S (S (S (S
                                 (S (S (S (S (S (S (S (S (S (S (S (S (S (S (S
                                 (S (S (S (S (S (S (S (S (S (S (S (S (S (S (S
                                 (S (S (S (S (S (S (S (S (S (S (S
                                 O)))))))))))))))))))))))))))))))))))))))))))))))))))))))))))))))))))))))))))))))))))))))))))))))))))))))))))))))))))))))))))))))))))))))))))))))))
                                 pc0 i newc) (fun pc1 ->
                               bind
                                 (if ceq newc ON
                                  then bind
                                         (iter_backwards_from sq.irs_runs i
                                           run_index) (fun bw ->
                                         bind
                                           (set_while_bn (S (S (S (S (S (S (S
                                             (S (S (S (S (S (S (S (S (S (S (S
                                             (S (S (S (S (S (S (S (S (S (S (S
                                             (S (S (S (S (S (S (S (S (S (S (S
                                             (S (S (S (S (S (S (S (S (S (S (S
                                             (S (S (S (S (S (S (S (S (S (S (S
                                             (S (S (S (S (S (S (S (S (S (S (S
                                             (S (S (S (S (S (S (S (S (S (S (S
                                             (S (S (S (S (S (S (S (S (S (S (S
                                             (S (S (S (S (S (S (S (S (S (S (S
                                             (S (S (S (S (S (S (S (S (S (S (S
                                             (S (S (S (S (S (S (S (S (S (S (S
                                             (S (S (S (S (S (S (S (S (S (S (S
                                             (S (S (S (S (S (S (S (S (S (S (S
                                             (S (S (S (S (S (S (S (S (S (S (S
                                             (S
                                             O))))))))))))))))))))))))))))))))))))))))))))))))))))))))))))))))))))))))))))))))))))))))))))))))))))))))))))))))))))))))))))))))))))))))))))))))))))))))))))))))))
                                             pc1 bw ON) (fun pc2 ->
                                           bind
                                             (iter_forwards_from sq.irs_runs
                                               (add i clen) run_index)
                                             (fun fw2 ->
                                             set_while_bn (S (S (S (S (S (S
                                               (S (S (S (S (S (S (S (S (S (S
                                               (S (S (S (S (S (S (S (S (S (S
                                               (S (S (S (S (S (S (S (S (S (S
                                               (S (S (S (S (S (S (S (S (S (S
                                               (S (S (S (S (S (S (S (S (S (S
                                               (S (S (S (S (S (S (S (S (S (S
                                               (S (S (S (S (S (S (S (S (S (S
                                               (S (S (S (S (S (S (S (S (S (S
                                               (S (S (S (S (S (S (S (S (S (S
                                               (S (S (S (S (S (S (S (S (S (S
                                               (S (S (S (S (S (S (S (S (S (S
                                               (S (S (S (S (S (S (S (S (S (S
                                               (S (S (S (S (S (S (S (S (S (S
                                               (S (S (S (S (S (S (S (S (S (S
                                               (S (S (S (S (S (S (S (S (S (S
                                               (S (S (S (S (S (S (S (S (S (S
                                               (S (S (S
                                               O)))))))))))))))))))))))))))))))))))))))))))))))))))))))))))))))))))))))))))))))))))))))))))))))))))))))))))))))))))))))))))))))))))))))))))))))))))))))))))))))))))))))))
                                               pc2 fw2 ON)))
                                  else Ok pc1) (fun pc2 -> Ok (pc2, st.w_et)))))
                       | None ->
                         if Nat.eqb i O
                         then Panic (S (S (S (S (S (S (S (S (S (S (S (S (S (S
                                (S (S (S (S (S (S (S (S (S (S (S (S (S (S (S
                                (S (S (S (S (S (S (S (S (S (S (S (S (S (S (S
                                (S (S (S (S (S (S (S (S (S (S (S (S (S (S (S
                                (S (S (S (S (S (S (S (S (S (S (S (S (S (S (S
                                (S (S (S (S (S (S (S (S (S (S (S (S (S (S (S
                                (S (S (S (S (S (S (S (S (S (S (S (S (S (S (S
                                (S (S (S (S (S (S (S (S (S (S (S (S (S (S (S
                                (S (S (S (S (S (S (S (S (S (S (S (S (S (S (S
                                (S (S (S (S (S (S (S (S (S (S (S (S (S (S (S
                                (S (S (S (S (S (S (S (S (S (S (S (S (S (S (S
                                (S (S (S (S (S (S (S (S (S (S (S (S (S (S (S
                                O)))))))))))))))))))))))))))))))))))))))))))))))))))))))))))))))))))))))))))))))))))))))))))))))))))))))))))))))))))))))))))))))))))))))))))))))))))))))))))))))))))))))))))))))))))
                         else bind
                                (get (S (S (S (S (S (S (S (S (S (S (S (S (S
                                  (S (S (S (S (S (S (S (S (S (S (S (S (S (S
                                  (S (S (S (S (S (S (S (S (S (S (S (S (S (S
                                  (S (S (S (S (S (S (S (S (S (S (S (S (S (S
                                  (S (S (S (S (S (S (S (S (S (S (S (S (S (S
                                  (S (S (S (S (S (S (S (S (S (S (S (S (S (S
                                  (S (S (S (S (S (S (S (S (S (S (S (S (S (S
                                  (S (S (S (S (S (S (S (S (S (S (S (S (S (S
                                  (S (S (S (S (S (S (S (S (S (S (S (S (S (S
                                  (S (S (S (S (S (S (S (S (S (S (S (S (S (S
                                  (S (S (S (S (S (S (S (S (S (S (S (S (S (S
                                  (S (S (S (S (S (S (S (S (S (S (S (S (S (S
                                  (S (S (S (S (S (S (S (S (S (S (S (S
                                  O)))))))))))))))))))))))))))))))))))))))))))))))))))))))))))))))))))))))))))))))))))))))))))))))))))))))))))))))))))))))))))))))))))))))))))))))))))))))))))))))))))))))))))))))))))
                                  pc0 (sub i (S O))) (fun p ->
                                bind
                                  (upd (S (S (S (S (S (S (S (S (S (S (S (S (S
                                    (S (S (S (S (S (S (S (S (S (S (S (S (S (S
                                    (S (S (S (S (S (S (S (S (S (S (S (S (S (S
                                    (S (S (S (S (S (S (S (S (S (S (S (S (S (S
                                    (S (S (S (S (S (S (S (S (S (S (S (S (S (S
                                    (S (S (S (S (S (S (S (S (S (S (S (S (S (S
                                    (S (S (S (S (S (S (S (S (S (S (S (S (S (S
                                    (S (S (S (S (S (S (S (S (S (S (S (S (S (S
                                    (S (S (S (S (S (S (S (S (S (S (S (S (S (S
                                    (S (S (S (S (S (S (S (S (S (S (S (S (S (S
                                    (S (S (S (S (S (S (S (S (S (S (S (S (S (S
                                    (S (S (S (S (S (S (S (S (S (S (S (S (S (S
                                    (S (S (S (S (S (S (S (S (S (S (S (S
                                    O)))))))))))))))))))))))))))))))))))))))))))))))))))))))))))))))))))))))))))))))))))))))))))))))))))))))))))))))))))))))))))))))))))))))))))))))))))))))))))))))))))))))))))))))))))
                                    pc0 i p) (fun pc1 -> Ok (pc1, st.w_et))))
                    | EN ->
                      bind
                        (set_all (S (S (S (S (S (S (S (S (S (S (S (S (S (S (S
                          (S (S (S (S (S (S (S (S (S (S (S (S (S (S (S (S (S
                          (S (S (S (S (S (S (S (S (S (S (S (S (S (S (S (S (S
                          (S (S (S (S (S (S (S (S (S (S (S (S (S (S (S (S (S
                          (S (S (S (S (S (S (S (S (S (S (S (S (S (S (S (S (S
                          (S (S (S (S (S (S (S (S (S (S (S (S (S (S (S (S (S
                          (S (S (S (S (S (S (S (S (S (S (S (S (S (S (S (S (S
                          (S (S (S (S
                          O)))))))))))))))))))))))))))))))))))))))))))))))))))))))))))))))))))))))))))))))))))))))))))))))))))))))))))))))))))))))))
                          pc0 st.w_et EN) (fun pc1 -> Ok (pc1, []))
                    | ES ->
                      (match t_char_at e text i with
                       | Some p ->
                         let (_, clen) = p in
                         bind
                           (iter_forwards_from sq.irs_runs (add i clen)
                             run_index) (fun fw ->
                           bind
                             (find_value_by (S (S (S (S (S (S (S (S (S (S (S
                               (S (S (S (S (S (S (S (S (S (S (S (S (S (S (S
                               (S (S (S (S (S (S (S (S (S (S (S (S (S (S (S
                               (S (S (S (S (S (S (S (S (S (S (S (S (S (S (S
                               (S (S (S (S (S (S (S (S (S (S (S (S (S (S (S
                               (S (S (S (S (S (S (S (S (S (S (S (S (S (S (S
                               (S (S (S (S (S (S (S (S (S (S (S (S (S (S (S
                               (S (S (S (S (S (S (S (S (S (S (S (S (S (S (S
                               (S (S (S (S (S (S (S (S (S (S (S (S (S (S (S
                               (S (S (S (S
                               O)))))))))))))))))))))))))))))))))))))))))))))))))))))))))))))))))))))))))))))))))))))))))))))))))))))))))))))))))))))))))))))))))))))))
                               not_removed_by_x9 pc0 fw) (fun nx ->
                             let next_class = opt_or nx sq.irs_eos in
                             let next_class0 =
                               if (&&) (ceq next_class EN) al
                               then AN
                               else next_class
                             in
                             let newc =
                               match st.w_prev4 with
                               | AN ->
                                 (match c456 with
                                  | CS ->
                                    (match next_class0 with
                                     | AN -> AN
                                     | _ -> ON)
                                  | _ -> ON)
                               | EN ->
                                 (match c456 with
                                  | CS ->
                                    (match next_class0 with
                                     | EN -> EN
                                     | _ -> ON)
                                  | ES ->
                                    (match next_class0 with
                                     | EN -> EN
                                     | _ -> ON)
                                  | _ -> ON)
                               | _ -> ON
                             in
                             bind
                               (upd (S (S (S (S (S (S (S (S (S (S (S (S (S (S
                                 (S (S (S (S (S (S (S (S (S (S (S (S (S (S (S
                                 (S (S (S (S (S (S (S (S (S (S (S (S (S (S (S
                                 (S (S (S (S (S (S (S (S (S (S (S (S (S (S (S
                                 (S (S (S (S (S (S (S (S (S (S (S (S (S (S (S
                                 (S (S (S (S (S (S (S (S (S (S (S (S (S (S (S
                                 (S (S (S (S (S (S (S (S (S (S (S (S (S (S (S
                                 (S (S (S (S (S (S (S (S (S (S (S (S (S (S (S
                                 (S (S (S (S (S (S (S (S (S (S (S (S (S (S (S
                                 (S (S (S (S (S (S (S (S (S (S (S
                                 O)))))))))))))))))))))))))))))))))))))))))))))))))))))))))))))))))))))))))))))))))))))))))))))))))))))))))))))))))))))))))))))))))))))))))))))))))
                                 pc0 i newc) (fun pc1 ->
                               bind
                                 (if ceq newc ON
                                  then bind
                                         (iter_backwards_from sq.irs_runs i
                                           run_index) (fun bw ->
                                         bind
                                           (set_while_bn (S (S (S (S (S (S (S
                                             (S (S (S (S (S (S (S (S (S (S (S
                                             (S (S (S (S (S (S (S (S (S (S (S
                                             (S (S (S (S (S (S (S (S (S (S (S
                                             (S (S (S (S (S (S (S (S (S (S (S
                                             (S (S (S (S (S (S (S (S (S (S (S
                                             (S (S (S (S (S (S (S (S (S (S (S
                                             (S (S (S (S (S (S (S (S (S (S (S
                                             (S (S (S (S (S (S (S (S (S (S (S
                                             (S (S (S (S (S (S (S (S (S (S (S
                                             (S (S (S (S (S (S (S (S (S (S (S
                                             (S (S (S (S (S (S (S (S (S (S (S
                                             (S (S (S (S (S (S (S (S (S (S (S
                                             (S (S (S (S (S (S (S (S (S (S (S
                                             (S (S (S (S (S (S (S (S (S (S (S
                                             (S
                                             O))))))))))))))))))))))))))))))))))))))))))))))))))))))))))))))))))))))))))))))))))))))))))))))))))))))))))))))))))))))))))))))))))))))))))))))))))))))))))))))))))
                                             pc1 bw ON) (fun pc2 ->
                                           bind
                                             (iter_forwards_from sq.irs_runs
                                               (add i clen) run_index)
                                             (fun fw2 ->
                                             set_while_bn (S (S (S (S (S (S
                                               (S (S (S (S (S (S (S (S (S (S
                                               (S (S (S (S (S (S (S (S (S (S
                                               (S (S (S (S (S (S (S (S (S (S
                                               (S (S (S (S (S (S (S (S (S (S
                                               (S (S (S (S (S (S (S (S (S (S
                                               (S (S (S (S (S (S (S (S (S (S
                                               (S (S (S (S (S (S (S (S (S (S
                                               (S (S (S (S (S (S (S (S (S (S
                                               (S (S (S (S (S (S (S (S (S (S
                                               (S (S (S (S (S (S (S (S (S (S
                                               (S (S (S (S (S (S (S (S (S (S
                                               (S (S (S (S (S (S (S (S (S (S
                                               (S (S (S (S (S (S (S (S (S (S
                                               (S (S (S (S (S (S (S (S (S (S
                                               (S (S (S (S (S (S (S (S (S (S
                                               (S (S (S (S (S (S (S (S (S (S
                                               (S (S (S
                                               O)))))))))))))))))))))))))))))))))))))))))))))))))))))))))))))))))))))))))))))))))))))))))))))))))))))))))))))))))))))))))))))))))))))))))))))))))))))))))))))))))))))))))
                                               pc2 fw2 ON)))
                                  else Ok pc1) (fun pc2 -> Ok (pc2, st.w_et)))))
                       | None ->
                         if Nat.eqb i O
                         then Panic (S (S (S (S (S (S (S (S (S (S (S (S (S (S
                                (S (S (S (S (S (S (S (S (S (S (S (S (S (S (S
                                (S (S (S (S (S (S (S (S (S (S (S (S (S (S (S
                                (S (S (S (S (S (S (S (S (S (S (S (S (S (S (S
                                (S (S (S (S (S (S (S (S (S (S (S (S (S (S (S
                                (S (S (S (S (S (S (S (S (S (S (S (S (S (S (S
                                (S (S (S (S (S (S (S (S (S (S (S (S (S (S (S
                                (S (S (S (S (S (S (S (S (S (S (S (S (S (S (S
                                (S (S (S (S (S (S (S (S (S (S (S (S (S (S (S
                                (S (S (S (S (S (S (S (S (S (S (S (S (S (S (S
                                (S (S (S (S (S (S (S (S (S (S (S (S (S (S (S
                                (S (S (S (S (S (S (S (S (S (S (S (S (S (S (S
                                O)))))))))))))))))))))))))))))))))))))))))))))))))))))))))))))))))))))))))))))))))))))))))))))))))))))))))))))))))))))))))))))))))))))))))))))))))))))))))))))))))))))))))))))))))))
                         else bind
                                (get (S (S (S (S (S (S (S (S (S (S (S (S (S
                                  (S (S (S (S (S (S (S (S (S (S (S (S (S (S
                                  (S (S (S (S (S (S (S (S (S (S (S (S (S (S
                                  (S (S (S (S (S (S (S (S (S (S (S (S (S (S
                                  (S (S (S (S (S (S (S (S (S (S (S (S (S (S
                                  (S (S (S (S (S (S (S (S (S (S (S (S (S (S
                                  (S (S (S (S (S (S (S (S (S (S (S (S (S (S
                                  (S (S (S (S (S (S (S (S (S (S (S (S (S (S
                                  (S (S (S (S (S (S (S (S (S (S (S (S (S (S
                                  (S (S (S (S (S (S (S (S (S (S (S (S (S (S
                                  (S (S (S (S (S (S (S (S (S (S (S (S (S (S
                                  (S (S (S (S (S (S (S (S (S (S (S (S (S (S
                                  (S (S (S (S (S (S (S (S (S (S (S (S
                                  O)))))))))))))))))))))))))))))))))))))))))))))))))))))))))))))))))))))))))))))))))))))))))))))))))))))))))))))))))))))))))))))))))))))))))))))))))))))))))))))))))))))))))))))))))))
                                  pc0 (sub i (S O))) (fun p ->
                                bind
                                  (upd (S (S (S (S (S (S (S (S (S (S (S (S (S
                                    (S (S (S (S (S (S (S (S (S (S (S (S (S (S
                                    (S (S (S (S (S (S (S (S (S (S (S (S (S (S
                                    (S (S (S (S (S (S (S (S (S (S (S (S (S (S
                                    (S (S (S (S (S (S (S (S (S (S (S (S (S (S
                                    (S (S (S (S (S (S (S (S (S (S (S (S (S (S
                                    (S (S (S (S (S (S (S (S (S (S (S (S (S (S
                                    (S (S (S (S (S (S (S (S (S (S (S (S (S (S
                                    (S (S (S (S (S (S (S (S (S (S (S (S (S (S
                                    (S (S (S (S (S (S (S (S (S (S (S (S (S (S
                                    (S (S (S (S (S (S (S (S (S (S (S (S (S (S
                                    (S (S (S (S (S (S (S (S (S (S (S (S (S (S
                                    (S (S (S (S (S (S (S (S (S (S (S (S
                                    O)))))))))))))))))))))))))))))))))))))))))))))))))))))))))))))))))))))))))))))))))))))))))))))))))))))))))))))))))))))))))))))))))))))))))))))))))))))))))))))))))))))))))))))))))))
                                    pc0 i p) (fun pc1 -> Ok (pc1, st.w_et))))
                    | ET ->
                      (match st.w_prev5 with
                       | EN ->
                         bind
                           (upd (S (S (S (S (S (S (S (S (S (S (S (S (S (S (S
                             (S (S (S (S (S (S (S (S (S (S (S (S (S (S (S (S
                             (S (S (S (S (S (S (S (S (S (S (S (S (S (S (S (S
                             (S (S (S (S (S (S (S (S (S (S (S (S (S (S (S (S
                             (S (S (S (S (S (S (S (S (S (S (S (S (S (S (S (S
                             (S (S (S (S (S (S (S (S (S (S (S (S (S (S (S (S
                             (S (S (S (S (S (S (S (S (S (S (S (S (S (S (S (S
                             (S (S (S (S (S (S (S (S (S (S (S (S (S (S (S (S
                             (S (S (S (S (S (S (S (S (S (S (S (S (S (S (S (S
                             (S (S (S (S (S (S (S (S (S (S (S (S (S (S (S (S
                             (S (S (S (S (S (S (S (S (S (S (S (S (S (S (S (S
                             (S (S (S (S (S (S (S (S (S (S
                             O)))))))))))))))))))))))))))))))))))))))))))))))))))))))))))))))))))))))))))))))))))))))))))))))))))))))))))))))))))))))))))))))))))))))))))))))))))))))))))))))))))))))))))))))))))))))))
                             pc0 i EN) (fun pc1 -> Ok (pc1, st.w_et))
                       | _ -> Ok (pc0, (app st.w_et (app st.w_bn (i :: [])))))
                    | _ -> Ok (pc0, st.w_et)) (fun x0 ->
                   let (pc1, et) = x0 in
                   bind
                     (get (S (S (S (S (S (S (S (S (S (S (S (S (S (S (S (S (S
                       (S (S (S (S (S (S (S (S (S (S (S (S (S (S (S (S (S (S
                       (S (S (S (S (S (S (S (S (S (S (S (S (S (S (S (S (S (S
                       (S (S (S (S (S (S (S (S (S (S (S (S (S (S (S (S (S (S
                       (S (S (S (S (S (S (S (S (S (S (S (S (S (S (S (S (S (S
                       (S (S (S (S (S (S (S (S (S (S (S (S (S (S (S (S (S (S
                       (S (S (S (S (S (S (S (S (S (S (S (S (S (S (S (S (S (S
                       (S (S (S (S (S (S (S (S (S (S (S (S (S (S (S (S (S (S
                       (S (S (S (S (S (S (S (S (S (S (S (S (S (S (S (S (S (S
                       (S (S (S (S (S (S (S (S (S (S (S (S (S (S (S (S (S (S
                       (S (S (S (S (S (S (S (S (S (S (S (S (S (S (S (S (S (S
                       (S (S (S (S (S (S (S (S (S (S (S
                       O))))))))))))))))))))))))))))))))))))))))))))))))))))))))))))))))))))))))))))))))))))))))))))))))))))))))))))))))))))))))))))))))))))))))))))))))))))))))))))))))))))))))))))))))))))))))))))))))))))))))))))))))
                       pc1 i) (fun prev5 ->
                     bind
                       (if ceq prev5 ET
                        then Ok (pc1, et)
                        else bind
                               (set_all (S (S (S (S (S (S (S (S (S (S (S (S
                                 (S (S (S (S (S (S (S (S (S (S (S (S (S (S (S
                                 (S (S (S (S (S (S (S (S (S (S (S (S (S (S (S
                                 (S (S (S (S (S (S (S (S (S (S (S (S (S (S (S
                                 (S (S (S (S (S (S (S (S (S (S (S (S (S (S (S
                                 (S (S (S (S (S (S (S (S (S (S (S (S (S (S (S
                                 (S (S (S (S (S (S (S (S (S (S (S (S (S (S (S
                                 (S (S (S (S (S (S (S (S (S (S (S (S (S (S (S
                                 (S (S (S (S (S (S (S (S (S (S (S (S (S (S (S
                                 (S (S (S (S (S (S (S (S (S (S (S (S (S (S (S
                                 (S (S (S (S (S (S (S (S (S (S (S (S (S (S (S
                                 (S (S (S (S (S (S (S (S (S (S (S (S (S (S (S
                                 (S (S (S (S (S (S (S (S (S (S (S (S (S (S (S
                                 (S (S (S (S (S (S (S (S (S (S (S (S (S (S (S
                                 (S (S (S (S (S (S (S (S (S
                                 O))))))))))))))))))))))))))))))))))))))))))))))))))))))))))))))))))))))))))))))))))))))))))))))))))))))))))))))))))))))))))))))))))))))))))))))))))))))))))))))))))))))))))))))))))))))))))))))))))))))))))))))))))))))))
                                 pc1 et ON) (fun pc2 -> Ok (pc2, [])))
                       (fun x1 ->
                       let (pc2, et0) = x1 in
                       Ok { w_prev4 = c456; w_prev5 = prev5; w_prev1 = c1;
                       w_al = al; w_et = et0; w_bn = []; w_pc = pc2 }))))))))

(** val weak_fold :
    enc -> n list -> irs -> w_state -> (nat * nat) list -> w_state res **)

let rec weak_fold e text sq st = function
| [] -> Ok st
| ri :: rest ->
  bind (weak_step e text sq st ri) (fun st' -> weak_fold e text sq st' rest)

(** val indexed_units : nat -> run list -> (nat * nat) list **)

let rec indexed_units k = function
| [] -> []
| r :: rest ->
  app (map (fun i -> (k, i)) (run_range r)) (indexed_units (S k) rest)

(** val w7_fold : bclass list -> bool -> nat list -> bclass list res **)

let rec w7_fold pc last_strong_is_l = function
| [] -> Ok pc
| i :: rest ->
  bind
    (get (S (S (S (S (S (S (S (S (S (S (S (S (S (S (S (S (S (S (S (S (S (S (S
      (S (S (S (S (S (S (S (S (S (S (S (S (S (S (S (S (S (S (S (S (S (S (S (S
      (S (S (S (S (S (S (S (S (S (S (S (S (S (S (S (S (S (S (S (S (S (S (S (S
      (S (S (S (S (S (S (S (S (S (S (S (S (S (S (S (S (S (S (S (S (S (S (S (S
      (S (S (S (S (S (S (S (S (S (S (S (S (S (S (S (S (S (S (S (S (S (S (S (S
      (S (S (S (S (S (S (S (S (S (S (S (S (S (S (S (S (S (S (S (S (S (S (S (S
      (S (S (S (S (S (S (S (S (S (S (S (S (S (S (S (S (S (S (S (S (S (S (S (S
      (S (S (S (S (S (S (S (S (S (S (S (S (S (S (S (S (S (S (S (S (S (S (S (S
      (S (S (S (S (S (S (S (S (S (S (S (S (S (S (S (S (S (S (S (S (S (S (S (S
      (S (S (S (S (S (S (S (S (S (S (S (S (S (S (S (S (S (S (S (S (S (S
      O)))))))))))))))))))))))))))))))))))))))))))))))))))))))))))))))))))))))))))))))))))))))))))))))))))))))))))))))))))))))))))))))))))))))))))))))))))))))))))))))))))))))))))))))))))))))))))))))))))))))))))))))))))))))))))))))))))))))))))))
      pc i) (fun c ->
    match c with
    | AL -> w7_fold pc false rest
    | EN ->
      if last_strong_is_l
      then bind
             (upd (S (S (S (S (S (S (S (S (S (S (S (S (S (S (S (S (S (S (S (S
               (S (S (S (S (S (S (S (S (S (S (S (S (S (S (S (S (S (S (S (S (S
               (S (S (S (S (S (S (S (S (S (S (S (S (S (S (S (S (S (S (S (S (S
               (S (S (S (S (S (S (S (S (S (S (S (S (S (S (S (S (S (S (S (S (S
               (S (S (S (S (S (S (S (S (S (S (S (S (S (S (S (S (S (S (S (S (S
               (S (S (S (S (S (S (S (S (S (S (S (S (S (S (S (S (S (S (S (S (S
               (S (S (S (S (S (S (S (S (S (S (S (S (S (S (S (S (S (S (S (S (S
               (S (S (S (S (S (S (S (S (S (S (S (S (S (S (S (S (S (S (S (S (S
               (S (S (S (S (S (S (S (S (S (S (S (S (S (S (S (S (S (S (S (S (S
               (S (S (S (S (S (S (S (S (S (S (S (S (S (S (S (S (S (S (S (S (S
               (S (S (S (S (S (S (S (S (S (S (S (S (S (S (S (S (S (S (S (S (S
               (S (S (S (S (S (S (S (S (S
               O)))))))))))))))))))))))))))))))))))))))))))))))))))))))))))))))))))))))))))))))))))))))))))))))))))))))))))))))))))))))))))))))))))))))))))))))))))))))))))))))))))))))))))))))))))))))))))))))))))))))))))))))))))))))))))))))))))))))))))))))
               pc i L) (fun pc' -> w7_fold pc' last_strong_is_l rest)
      else w7_fold pc last_strong_is_l rest
    | L -> w7_fold pc true rest
    | R -> w7_fold pc false rest
    | _ -> w7_fold pc last_strong_is_l rest)

(** val resolve_weak :
    enc -> n list -> irs -> bclass list -> bclass list res **)

let resolve_weak e text sq pc =
  let st0 = { w_prev4 = sq.irs_sos; w_prev5 = sq.irs_sos; w_prev1 =
    sq.irs_sos; w_al = false; w_et = []; w_bn = []; w_pc = pc }
  in
  bind (weak_fold e text sq st0 (indexed_units O sq.irs_runs)) (fun st ->
    bind
      (set_all (S (S (S (S (S (S (S (S (S (S (S (S (S (S (S (S (S (S (S (S (S
        (S (S (S (S (S (S (S (S (S (S (S (S (S (S (S (S (S (S (S (S (S (S (S
        (S (S (S (S (S (S (S (S (S (S (S (S (S (S (S (S (S (S (S (S (S (S (S
        (S (S (S (S (S (S (S (S (S (S (S (S (S (S (S (S (S (S (S (S (S (S (S
        (S (S (S (S (S (S (S (S (S (S (S (S (S (S (S (S (S (S (S (S (S (S (S
        (S (S (S (S (S (S (S (S (S (S (S (S (S (S (S (S (S (S (S (S (S (S (S
        (S (S (S (S (S (S (S (S (S (S (S (S (S (S (S (S (S (S (S (S (S (S (S
        (S (S (S (S (S (S (S (S (S (S (S (S (S (S (S (S (S (S (S (S (S (S (S
        (S (S (S (S (S (S (S (S (S (S (S (S (S (S (S (S (S (S (S (S (S (S (S
        (S (S (S (S (S (S (S (S (S (S (S (S (S (S (S (S (S (S (S (S (S (S (S
        (S (S
        O))))))))))))))))))))))))))))))))))))))))))))))))))))))))))))))))))))))))))))))))))))))))))))))))))))))))))))))))))))))))))))))))))))))))))))))))))))))))))))))))))))))))))))))))))))))))))))))))))))))))))))))))))))))))))))))))))))))
        st.w_pc st.w_et ON) (fun pc0 ->
      w7_fold pc0 (ceq sq.irs_sos L) (flat_map run_range sq.irs_runs)))

type bracket_pair = { bp_start : nat; bp_end : nat; bp_start_run : nat;
                      bp_end_run : nat }

(** val bracket_match :
    n -> ((n * nat) * nat) list -> ((nat * nat) * ((n * nat) * nat) list)
    option **)

let rec bracket_match key = function
| [] -> None
| p :: below ->
  let (p0, ri) = p in
  let (k, pos) = p0 in
  if N.eqb k key then Some ((pos, ri), below) else bracket_match key below

(** val bd16_run :
    datasource -> bool -> bclass list -> bclass list -> nat -> nat ->
    (nat * n) list -> ((n * nat) * nat) list -> bracket_pair list ->
    ((((n * nat) * nat) list * bracket_pair list) * bool) res **)

let rec bd16_run ds legacy oc pc run_index start cis stack pairs =
  match cis with
  | [] -> Ok ((stack, pairs), false)
  | p :: rest ->
    let (i, ch) = p in
    let actual = add start i in
    bind
      (get (S (S (S (S (S (S (S (S (S (S (S (S (S (S (S (S (S (S (S (S (S (S
        (S (S (S (S (S (S (S (S (S (S (S (S (S (S (S (S (S (S (S (S (S (S (S
        (S (S (S (S (S (S (S (S (S (S (S (S (S (S (S (S (S (S (S (S (S (S (S
        (S (S (S (S (S (S (S (S (S (S (S (S (S (S (S (S (S (S (S (S (S (S (S
        (S (S (S (S (S (S (S (S (S (S (S (S (S (S (S (S (S (S (S (S (S (S (S
        (S (S (S (S (S (S (S (S (S (S (S (S (S (S (S (S (S (S (S (S (S (S (S
        (S (S (S (S (S (S (S (S (S (S (S (S (S (S (S (S (S (S (S (S (S (S (S
        (S (S (S (S (S (S (S (S (S (S (S (S (S (S (S (S (S (S (S (S (S (S (S
        (S (S (S (S (S (S (S (S (S (S (S (S (S (S (S (S (S (S (S (S (S (S (S
        (S (S (S (S (S (S (S (S (S (S (S (S (S (S (S (S (S (S (S (S (S (S (S
        (S (S (S (S (S (S (S (S (S (S (S (S (S (S (S (S (S (S (S (S (S (S (S
        (S (S (S (S (S (S (S (S (S (S (S (S (S (S (S (S (S (S (S (S (S (S (S
        (S (S (S (S (S (S (S (S (S (S (S (S (S (S (S (S (S (S (S (S (S (S (S
        (S (S (S (S (S (S (S (S (S (S (S (S (S (S (S (S (S (S (S (S (S (S (S
        (S (S (S (S (S (S (S (S (S (S (S (S (S (S (S (S (S (S (S (S (S (S (S
        (S (S (S (S (S (S (S (S (S (S (S (S (S (S (S (S (S (S (S (S (S (S (S
        (S (S (S (S (S (S (S (S (S (S (S (S (S (S (S (S (S (S (S (S (S (S (S
        (S (S (S (S (S (S (S (S (S (S (S (S (S (S (S (S (S (S (S (S (S (S (S
        (S (S (S (S (S (S (S (S (S (S (S (S (S (S (S (S (S (S (S (S (S (S (S
        (S (S (S (S (S (S (S (S (S (S (S (S (S (S (S (S (S (S (S (S (S (S (S
        (S (S (S (S (S (S (S (S (S (S (S (S (S (S (S (S (S (S (S (S (S (S (S
        (S (S (S (S (S (S (S (S (S (S (S (S (S (S (S (S (S (S (S (S (S (S (S
        (S (S (S (S (S (S (S (S (S (S (S (S (S (S (S (S (S (S (S
        O))))))))))))))))))))))))))))))))))))))))))))))))))))))))))))))))))))))))))))))))))))))))))))))))))))))))))))))))))))))))))))))))))))))))))))))))))))))))))))))))))))))))))))))))))))))))))))))))))))))))))))))))))))))))))))))))))))))))))))))))))))))))))))))))))))))))))))))))))))))))))))))))))))))))))))))))))))))))))))))))))))))))))))))))))))))))))))))))))))))))))))))))))))))))))))))))))))))))))))))))))))))))))))))))))))))))))))))))))))))))))))))))))))))))))))))))))))))))))))))))))))))))))))))))))))))))))))))))))))))))))))
        pc actual) (fun c ->
      if negb (ceq c ON)
      then bd16_run ds legacy oc pc run_index start rest stack pairs
      else bind
             (get (S (S (S (S (S (S (S (S (S (S (S (S (S (S (S (S (S (S (S (S
               (S (S (S (S (S (S (S (S (S (S (S (S (S (S (S (S (S (S (S (S (S
               (S (S (S (S (S (S (S (S (S (S (S (S (S (S (S (S (S (S (S (S (S
               (S (S (S (S (S (S (S (S (S (S (S (S (S (S (S (S (S (S (S (S (S
               (S (S (S (S (S (S (S (S (S (S (S (S (S (S (S (S (S (S (S (S (S
               (S (S (S (S (S (S (S (S (S (S (S (S (S (S (S (S (S (S (S (S (S
               (S (S (S (S (S (S (S (S (S (S (S (S (S (S (S (S (S (S (S (S (S
               (S (S (S (S (S (S (S (S (S (S (S (S (S (S (S (S (S (S (S (S (S
               (S (S (S (S (S (S (S (S (S (S (S (S (S (S (S (S (S (S (S (S (S
               (S (S (S (S (S (S (S (S (S (S (S (S (S (S (S (S (S (S (S (S (S
               (S (S (S (S (S (S (S (S (S (S (S (S (S (S (S (S (S (S (S (S (S
               (S (S (S (S (S (S (S (S (S (S (S (S (S (S (S (S (S (S (S (S (S
               (S (S (S (S (S (S (S (S (S (S (S (S (S (S (S (S (S (S (S (S (S
               (S (S (S (S (S (S (S (S (S (S (S (S (S (S (S (S (S (S (S (S (S
               (S (S (S (S (S (S (S (S (S (S (S (S (S (S (S (S (S (S (S (S (S
               (S (S (S (S (S (S (S (S (S (S (S (S (S (S (S (S (S (S (S (S (S
               (S (S (S (S (S (S (S (S (S (S (S (S (S (S (S (S (S (S (S (S (S
               (S (S (S (S (S (S (S (S (S (S (S (S (S (S (S (S (S (S (S (S (S
               (S (S (S (S (S (S (S (S (S (S (S (S (S (S (S (S (S (S (S (S (S
               (S (S (S (S (S (S (S (S (S (S (S (S (S (S (S (S (S (S (S (S (S
               (S (S (S (S (S (S (S (S (S (S (S (S (S (S (S (S (S (S (S (S (S
               (S (S (S (S (S (S (S (S (S (S (S (S (S (S (S (S (S (S (S (S (S
               (S (S (S (S (S (S (S (S (S (S (S (S (S (S (S (S (S (S (S (S (S
               (S (S (S (S (S (S (S (S (S (S (S (S (S (S (S (S (S (S (S (S (S
               (S (S (S (S (S (S (S (S (S (S (S (S (S (S (S (S (S (S (S (S (S
               (S (S (S (S (S (S
               O))))))))))))))))))))))))))))))))))))))))))))))))))))))))))))))))))))))))))))))))))))))))))))))))))))))))))))))))))))))))))))))))))))))))))))))))))))))))))))))))))))))))))))))))))))))))))))))))))))))))))))))))))))))))))))))))))))))))))))))))))))))))))))))))))))))))))))))))))))))))))))))))))))))))))))))))))))))))))))))))))))))))))))))))))))))))))))))))))))))))))))))))))))))))))))))))))))))))))))))))))))))))))))))))))))))))))))))))))))))))))))))))))))))))))))))))))))))))))))))))))))))))))))))))))))))))))))))))))))))))))))))))))
               oc actual) (fun o ->
             if (&&) (removed_by_x9 o) (negb legacy)
             then bd16_run ds legacy oc pc run_index start rest stack pairs
             else (match ds.ds_bracket ch with
                   | Some p0 ->
                     let (opening, is_open) = p0 in
                     if is_open
                     then if Nat.leb bracket_limit (length stack)
                          then Ok ((stack, pairs), true)
                          else bd16_run ds legacy oc pc run_index start rest
                                 (((opening, actual), run_index) :: stack)
                                 pairs
                     else (match bracket_match opening stack with
                           | Some p1 ->
                             let (p2, below) = p1 in
                             let (pos, ri) = p2 in
                             bd16_run ds legacy oc pc run_index start rest
                               below
                               (app pairs ({ bp_start = pos; bp_end = actual;
                                 bp_start_run = ri; bp_end_run =
                                 run_index } :: []))
                           | None ->
                             bd16_run ds legacy oc pc run_index start rest
                               stack pairs)
                   | None ->
                     bd16_run ds legacy oc pc run_index start rest stack pairs)))

(** val bd16_runs :
    enc -> datasource -> bool -> n list -> bclass list -> bclass list -> nat
    -> run list -> ((n * nat) * nat) list -> bracket_pair list ->
    bracket_pair list res **)

let rec bd16_runs e ds legacy text oc pc run_index runs stack pairs =
  match runs with
  | [] -> Ok pairs
  | r :: rest ->
    let (s, en) = r in
    bind
      (t_subrange (S (S (S (S (S (S (S (S (S (S (S (S (S (S (S (S (S (S (S (S
        (S (S (S (S (S (S (S (S (S (S (S (S (S (S (S (S (S (S (S (S (S (S (S
        (S (S (S (S (S (S (S (S (S (S (S (S (S (S (S (S (S (S (S (S (S (S (S
        (S (S (S (S (S (S (S (S (S (S (S (S (S (S (S (S (S (S (S (S (S (S (S
        (S (S (S (S (S (S (S (S (S (S (S (S (S (S (S (S (S (S (S (S (S (S (S
        (S (S (S (S (S (S (S (S (S (S (S (S (S (S (S (S (S (S (S (S (S (S (S
        (S (S (S (S (S (S (S (S (S (S (S (S (S (S (S (S (S (S (S (S (S (S (S
        (S (S (S (S (S (S (S (S (S (S (S (S (S (S (S (S (S (S (S (S (S (S (S
        (S (S (S (S (S (S (S (S (S (S (S (S (S (S (S (S (S (S (S (S (S (S (S
        (S (S (S (S (S (S (S (S (S (S (S (S (S (S (S (S (S (S (S (S (S (S (S
        (S (S (S (S (S (S (S (S (S (S (S (S (S (S (S (S (S (S (S (S (S (S (S
        (S (S (S (S (S (S (S (S (S (S (S (S (S (S (S (S (S (S (S (S (S (S (S
        (S (S (S (S (S (S (S (S (S (S (S (S (S (S (S (S (S (S (S (S (S (S (S
        (S (S (S (S (S (S (S (S (S (S (S (S (S (S (S (S (S (S (S (S (S (S (S
        (S (S (S (S (S (S (S (S (S (S (S (S (S (S (S (S (S (S (S (S (S (S (S
        (S (S (S (S (S (S (S (S (S (S (S (S (S (S (S (S (S (S (S (S (S (S (S
        (S (S (S (S (S (S (S (S (S (S (S (S (S (S (S (S (S (S (S (S (S (S (S
        (S (S (S (S (S (S (S (S (S (S (S (S (S (S (S (S (S (S (S (S (S (S (S
        (S (S (S (S (S (S (S (S (S (S (S (S (S (S (S (S (S (S (S (S (S (S (S
        (S (S (S (S (S (S (S (S (S (S (S (S (S (S (S (S (S (S (S (S (S (S (S
        (S (S (S (S (S (S (S (S (S (S (S (S (S (S (S (S (S (S (S (S (S (S (S
        (S (S (S (S (S (S (S (S (S (S (S (S (S (S (S (S (S (S (S (S (S (S (S
        (S (S (S (S (S (S (S (S (S (S (S (S (S (S
        O)))))))))))))))))))))))))))))))))))))))))))))))))))))))))))))))))))))))))))))))))))))))))))))))))))))))))))))))))))))))))))))))))))))))))))))))))))))))))))))))))))))))))))))))))))))))))))))))))))))))))))))))))))))))))))))))))))))))))))))))))))))))))))))))))))))))))))))))))))))))))))))))))))))))))))))))))))))))))))))))))))))))))))))))))))))))))))))))))))))))))))))))))))))))))))))))))))))))))))))))))))))))))))))))))))))))))))))))))))))))))))))))))))))))))))))))))))))))))))))))))))))))))))))))))))))))))))))))))))))
        e text s en) (fun sub0 ->
      bind
        (bd16_run ds legacy oc pc run_index s (t_char_indices e sub0) stack
          pairs) (fun x ->
        let (p, stopped) = x in
        let (stack', pairs') = p in
        if (&&) stopped (negb legacy)
        then Ok pairs'
        else bd16_runs e ds legacy text oc pc (S run_index) rest stack' pairs'))

(** val insert_pair :
    bracket_pair -> bracket_pair list -> bracket_pair list **)

let rec insert_pair p l = match l with
| [] -> p :: []
| q :: rest ->
  if Nat.ltb p.bp_start q.bp_start then p :: l else q :: (insert_pair p rest)

(** val sort_pairs : bracket_pair list -> bracket_pair list **)

let sort_pairs l =
  fold_left (fun acc p -> insert_pair p acc) l []

(** val identify_bracket_pairs_gen :
    enc -> datasource -> bool -> n list -> irs -> bclass list -> bclass list
    -> bracket_pair list res **)

let identify_bracket_pairs_gen e ds legacy text sq oc pc =
  bind (bd16_runs e ds legacy text oc pc O sq.irs_runs [] []) (fun pairs ->
    Ok (sort_pairs pairs))

(** val n0_scan :
    bool -> bclass list -> bclass list -> bclass -> bclass -> nat -> nat list
    -> bool -> bool -> (bool * bool) res **)

let rec n0_scan legacy oc pc ecls not_e pair_end idxs found_e found_not_e =
  match idxs with
  | [] -> Ok (found_e, found_not_e)
  | i :: rest ->
    if Nat.leb pair_end i
    then Ok (found_e, found_not_e)
    else bind
           (get (S (S (S (S (S (S (S (S (S (S (S (S (S (S (S (S (S (S (S (S
             (S (S (S (S (S (S (S (S (S (S (S (S (S (S (S (S (S (S (S (S (S
             (S (S (S (S (S (S (S (S (S (S (S (S (S (S (S (S (S (S (S (S (S
             (S (S (S (S (S (S (S (S (S (S (S (S (S (S (S (S (S (S (S (S (S
             (S (S (S (S (S (S (S (S (S (S (S (S (S (S (S (S (S (S (S (S (S
             (S (S (S (S (S (S (S (S (S (S (S (S (S (S (S (S (S (S (S (S (S
             (S (S (S (S (S (S (S (S (S (S (S (S (S (S (S (S (S (S (S (S (S
             (S (S (S (S (S (S (S (S (S (S (S (S (S (S (S (S (S (S (S (S (S
             (S (S (S (S (S (S (S (S (S (S (S (S (S (S (S (S (S (S (S (S (S
             (S (S (S (S (S (S (S (S (S (S (S (S (S (S (S (S (S (S (S (S (S
             (S (S (S (S (S (S (S (S (S (S (S (S (S (S (S (S (S (S (S (S (S
             (S (S (S (S (S (S (S (S (S (S (S (S (S (S (S (S (S (S (S (S (S
             (S (S (S (S (S (S (S (S (S (S (S (S (S (S (S (S (S (S (S (S (S
             (S (S (S (S (S (S (S (S (S (S (S (S (S (S (S (S (S (S (S (S (S
             (S (S (S (S (S (S (S (S (S (S (S (S (S (S (S (S (S (S (S (S (S
             (S (S (S (S (S (S (S (S (S (S (S (S
             O))))))))))))))))))))))))))))))))))))))))))))))))))))))))))))))))))))))))))))))))))))))))))))))))))))))))))))))))))))))))))))))))))))))))))))))))))))))))))))))))))))))))))))))))))))))))))))))))))))))))))))))))))))))))))))))))))))))))))))))))))))))))))))))))))))))))))))))))))))))))))))))))))))))))))))))))))))))))))))))))))))))
             oc i) (fun o ->
           if (&&) (removed_by_x9 o) (negb legacy)
           then n0_scan legacy oc pc ecls not_e pair_end rest found_e
                  found_not_e
           else bind
                  (get (S (S (S (S (S (S (S (S (S (S (S (S (S (S (S (S (S (S
                    (S (S (S (S (S (S (S (S (S (S (S (S (S (S (S (S (S (S (S
                    (S (S (S (S (S (S (S (S (S (S (S (S (S (S (S (S (S (S (S
                    (S (S (S (S (S (S (S (S (S (S (S (S (S (S (S (S (S (S (S
                    (S (S (S (S (S (S (S (S (S (S (S (S (S (S (S (S (S (S (S
                    (S (S (S (S (S (S (S (S (S (S (S (S (S (S (S (S (S (S (S
                    (S (S (S (S (S (S (S (S (S (S (S (S (S (S (S (S (S (S (S
                    (S (S (S (S (S (S (S (S (S (S (S (S (S (S (S (S (S (S (S
                    (S (S (S (S (S (S (S (S (S (S (S (S (S (S (S (S (S (S (S
                    (S (S (S (S (S (S (S (S (S (S (S (S (S (S (S (S (S (S (S
                    (S (S (S (S (S (S (S (S (S (S (S (S (S (S (S (S (S (S (S
                    (S (S (S (S (S (S (S (S (S (S (S (S (S (S (S (S (S (S (S
                    (S (S (S (S (S (S (S (S (S (S (S (S (S (S (S (S (S (S (S
                    (S (S (S (S (S (S (S (S (S (S (S (S (S (S (S (S (S (S (S
                    (S (S (S (S (S (S (S (S (S (S (S (S (S (S (S (S (S (S (S
                    (S (S (S (S (S (S (S (S (S (S (S (S (S (S (S (S (S (S (S
                    (S (S (S (S (S (S (S (S (S (S (S (S (S (S (S (S (S (S (S
                    (S (S (S
                    O)))))))))))))))))))))))))))))))))))))))))))))))))))))))))))))))))))))))))))))))))))))))))))))))))))))))))))))))))))))))))))))))))))))))))))))))))))))))))))))))))))))))))))))))))))))))))))))))))))))))))))))))))))))))))))))))))))))))))))))))))))))))))))))))))))))))))))))))))))))))))))))))))))))))))))))))))))))))))))))))))))))
                    pc i) (fun c ->
                  if ceq c ecls
                  then let fe = true in
                       if fe
                       then Ok (fe, found_not_e)
                       else n0_scan legacy oc pc ecls not_e pair_end rest fe
                              found_not_e
                  else if ceq c not_e
                       then let fn = true in
                            if found_e
                            then Ok (found_e, fn)
                            else n0_scan legacy oc pc ecls not_e pair_end
                                   rest found_e fn
                       else if (||) (ceq c EN) (ceq c AN)
                            then if ceq ecls L
                                 then let fn = true in
                                      if found_e
                                      then Ok (found_e, fn)
                                      else n0_scan legacy oc pc ecls not_e
                                             pair_end rest found_e fn
                                 else let fe = true in
                                      if fe
                                      then Ok (fe, found_not_e)
                                      else n0_scan legacy oc pc ecls not_e
                                             pair_end rest fe found_not_e
                            else if found_e
                                 then Ok (found_e, found_not_e)
                                 else n0_scan legacy oc pc ecls not_e
                                        pair_end rest found_e found_not_e))

(** val n0_nsm :
    bool -> bclass list -> bclass list -> nat list -> bclass -> bclass list
    res **)

let rec n0_nsm legacy oc pc idxs x =
  match idxs with
  | [] -> Ok pc
  | j :: rest ->
    bind
      (get (S (S (S (S (S (S (S (S (S (S (S (S (S (S (S (S (S (S (S (S (S (S
        (S (S (S (S (S (S (S (S (S (S (S (S (S (S (S (S (S (S (S (S (S (S (S
        (S (S (S (S (S (S (S (S (S (S (S (S (S (S (S (S (S (S (S (S (S (S (S
        (S (S (S (S (S (S (S (S (S (S (S (S (S (S (S (S (S (S (S (S (S (S (S
        (S (S (S (S (S (S (S (S (S (S (S (S (S (S (S (S (S (S (S (S (S (S (S
        (S (S (S (S (S (S (S (S (S (S (S (S (S (S (S (S (S (S (S (S (S (S (S
        (S (S (S (S (S (S (S (S (S (S (S (S (S (S (S (S (S (S (S (S (S (S (S
        (S (S (S (S (S (S (S (S (S (S (S (S (S (S (S (S (S (S (S (S (S (S (S
        (S (S (S (S (S (S (S (S (S (S (S (S (S (S (S (S (S (S (S (S (S (S (S
        (S (S (S (S (S (S (S (S (S (S (S (S (S (S (S (S (S (S (S (S (S (S (S
        (S (S (S (S (S (S (S (S (S (S (S (S (S (S (S (S (S (S (S (S (S (S (S
        (S (S (S (S (S (S (S (S (S (S (S (S (S (S (S (S (S (S (S (S (S (S (S
        (S (S (S (S (S (S (S (S (S (S (S (S (S (S (S (S (S (S (S (S (S (S (S
        (S (S (S (S (S (S (S (S (S (S (S (S (S (S (S (S (S (S (S (S (S (S (S
        (S (S (S (S (S (S (S (S (S (S (S (S (S (S (S (S (S (S (S (S (S (S (S
        (S (S (S (S (S (S (S (S (S (S (S (S (S (S (S (S (S (S (S (S (S (S (S
        (S (S (S (S (S (S (S (S (S (S (S (S (S (S (S (S (S (S (S (S (S (S (S
        (S (S (S (S (S (S (S (S (S (S (S (S (S (S (S (S (S (S
        O))))))))))))))))))))))))))))))))))))))))))))))))))))))))))))))))))))))))))))))))))))))))))))))))))))))))))))))))))))))))))))))))))))))))))))))))))))))))))))))))))))))))))))))))))))))))))))))))))))))))))))))))))))))))))))))))))))))))))))))))))))))))))))))))))))))))))))))))))))))))))))))))))))))))))))))))))))))))))))))))))))))))))))))))))))))))))))))))))))))))))))))))))))))))))))))))))))))))))))))))))))))))
        oc j) (fun o ->
      bind
        (get (S (S (S (S (S (S (S (S (S (S (S (S (S (S (S (S (S (S (S (S (S
          (S (S (S (S (S (S (S (S (S (S (S (S (S (S (S (S (S (S (S (S (S (S
          (S (S (S (S (S (S (S (S (S (S (S (S (S (S (S (S (S (S (S (S (S (S
          (S (S (S (S (S (S (S (S (S (S (S (S (S (S (S (S (S (S (S (S (S (S
          (S (S (S (S (S (S (S (S (S (S (S (S (S (S (S (S (S (S (S (S (S (S
          (S (S (S (S (S (S (S (S (S (S (S (S (S (S (S (S (S (S (S (S (S (S
          (S (S (S (S (S (S (S (S (S (S (S (S (S (S (S (S (S (S (S (S (S (S
          (S (S (S (S (S (S (S (S (S (S (S (S (S (S (S (S (S (S (S (S (S (S
          (S (S (S (S (S (S (S (S (S (S (S (S (S (S (S (S (S (S (S (S (S (S
          (S (S (S (S (S (S (S (S (S (S (S (S (S (S (S (S (S (S (S (S (S (S
          (S (S (S (S (S (S (S (S (S (S (S (S (S (S (S (S (S (S (S (S (S (S
          (S (S (S (S (S (S (S (S (S (S (S (S (S (S (S (S (S (S (S (S (S (S
          (S (S (S (S (S (S (S (S (S (S (S (S (S (S (S (S (S (S (S (S (S (S
          (S (S (S (S (S (S (S (S (S (S (S (S (S (S (S (S (S (S (S (S (S (S
          (S (S (S (S (S (S (S (S (S (S (S (S (S (S (S (S (S (S (S (S (S (S
          (S (S (S (S (S (S (S (S (S (S (S (S (S (S (S (S (S (S (S (S (S (S
          (S (S (S (S (S (S (S (S (S (S (S (S (S (S (S (S (S (S (S (S (S (S
          (S (S (S (S (S (S (S (S (S (S (S (S (S (S (S (S (S (S (S (S (S (S
          (S (S (S (S (S (S (S (S (S (S (S (S (S (S
          O)))))))))))))))))))))))))))))))))))))))))))))))))))))))))))))))))))))))))))))))))))))))))))))))))))))))))))))))))))))))))))))))))))))))))))))))))))))))))))))))))))))))))))))))))))))))))))))))))))))))))))))))))))))))))))))))))))))))))))))))))))))))))))))))))))))))))))))))))))))))))))))))))))))))))))))))))))))))))))))))))))))))))))))))))))))))))))))))))))))))))))))))))))))))))))))))))))))))))))))))))))))))))
          pc j) (fun p ->
        if (||) (ceq o NSM) (if legacy then ceq p BN else removed_by_x9 o)
        then bind
               (upd (S (S (S (S (S (S (S (S (S (S (S (S (S (S (S (S (S (S (S
                 (S (S (S (S (S (S (S (S (S (S (S (S (S (S (S (S (S (S (S (S
                 (S (S (S (S (S (S (S (S (S (S (S (S (S (S (S (S (S (S (S (S
                 (S (S (S (S (S (S (S (S (S (S (S (S (S (S (S (S (S (S (S (S
                 (S (S (S (S (S (S (S (S (S (S (S (S (S (S (S (S (S (S (S (S
                 (S (S (S (S (S (S (S (S (S (S (S (S (S (S (S (S (S (S (S (S
                 (S (S (S (S (S (S (S (S (S (S (S (S (S (S (S (S (S (S (S (S
                 (S (S (S (S (S (S (S (S (S (S (S (S (S (S (S (S (S (S (S (S
                 (S (S (S (S (S (S (S (S (S (S (S (S (S (S (S (S (S (S (S (S
                 (S (S (S (S (S (S (S (S (S (S (S (S (S (S (S (S (S (S (S (S
                 (S (S (S (S (S (S (S (S (S (S (S (S (S (S (S (S (S (S (S (S
                 (S (S (S (S (S (S (S (S (S (S (S (S (S (S (S (S (S (S (S (S
                 (S (S (S (S (S (S (S (S (S (S (S (S (S (S (S (S (S (S (S (S
                 (S (S (S (S (S (S (S (S (S (S (S (S (S (S (S (S (S (S (S (S
                 (S (S (S (S (S (S (S (S (S (S (S (S (S (S (S (S (S (S (S (S
                 (S (S (S (S (S (S (S (S (S (S (S (S (S (S (S (S (S (S (S (S
                 (S (S (S (S (S (S (S (S (S (S (S (S (S (S (S (S (S (S (S (S
                 (S (S (S (S (S (S (S (S (S (S (S (S (S (S (S (S (S (S (S (S
                 (S (S (S (S (S (S (S (S (S (S (S (S (S (S (S (S (S (S (S (S
                 (S (S (S (S (S (S (S (S (S (S (S (S (S (S (S (S (S (S (S (S
                 (S (S (S (S (S (S (S (S (S (S (S
                 O))))))))))))))))))))))))))))))))))))))))))))))))))))))))))))))))))))))))))))))))))))))))))))))))))))))))))))))))))))))))))))))))))))))))))))))))))))))))))))))))))))))))))))))))))))))))))))))))))))))))))))))))))))))))))))))))))))))))))))))))))))))))))))))))))))))))))))))))))))))))))))))))))))))))))))))))))))))))))))))))))))))))))))))))))))))))))))))))))))))))))))))))))))))))))))))))))))))))))))))))))))))))))
                 pc j x) (fun pc' -> n0_nsm legacy oc pc' rest x)
        else Ok pc))

(** val first_char_len : enc -> nat -> n list -> nat res **)

let first_char_len e site sub0 =
  match t_chars e sub0 with
  | [] -> Panic site
  | c :: _ -> Ok (char_len e c)

(** val n0_pair :
    enc -> bool -> (run list -> nat -> nat -> nat list res) -> n list -> irs
    -> bclass list -> bclass -> bclass -> bclass list -> bracket_pair ->
    bclass list res **)

let n0_pair e legacy backwards text sq oc ecls not_e pc pair =
  let runs = sq.irs_runs in
  bind
    (t_subrange (S (S (S (S (S (S (S (S (S (S (S (S (S (S (S (S (S (S (S (S
      (S (S (S (S (S (S (S (S (S (S (S (S (S (S (S (S (S (S (S (S (S (S (S (S
      (S (S (S (S (S (S (S (S (S (S (S (S (S (S (S (S (S (S (S (S (S (S (S (S
      (S (S (S (S (S (S (S (S (S (S (S (S (S (S (S (S (S (S (S (S (S (S (S (S
      (S (S (S (S (S (S (S (S (S (S (S (S (S (S (S (S (S (S (S (S (S (S (S (S
      (S (S (S (S (S (S (S (S (S (S (S (S (S (S (S (S (S (S (S (S (S (S (S (S
      (S (S (S (S (S (S (S (S (S (S (S (S (S (S (S (S (S (S (S (S (S (S (S (S
      (S (S (S (S (S (S (S (S (S (S (S (S (S (S (S (S (S (S (S (S (S (S (S (S
      (S (S (S (S (S (S (S (S (S (S (S (S (S (S (S (S (S (S (S (S (S (S (S (S
      (S (S (S (S (S (S (S (S (S (S (S (S (S (S (S (S (S (S (S (S (S (S (S (S
      (S (S (S (S (S (S (S (S (S (S (S (S (S (S (S (S (S (S (S (S (S (S (S (S
      (S (S (S (S (S (S (S (S (S (S (S (S (S (S (S (S (S (S (S (S (S (S (S (S
      (S (S (S (S (S (S (S (S (S (S (S (S (S (S (S (S (S (S (S (S (S (S (S (S
      (S (S (S
      O)))))))))))))))))))))))))))))))))))))))))))))))))))))))))))))))))))))))))))))))))))))))))))))))))))))))))))))))))))))))))))))))))))))))))))))))))))))))))))))))))))))))))))))))))))))))))))))))))))))))))))))))))))))))))))))))))))))))))))))))))))))))))))))))))))))))))))))))))))))))))))))))))))))))))))))))))))))))
      e text pair.bp_start pair.bp_end) (fun sub0 ->
    bind
      (first_char_len e (S (S (S (S (S (S (S (S (S (S (S (S (S (S (S (S (S (S
        (S (S (S (S (S (S (S (S (S (S (S (S (S (S (S (S (S (S (S (S (S (S (S
        (S (S (S (S (S (S (S (S (S (S (S (S (S (S (S (S (S (S (S (S (S (S (S
        (S (S (S (S (S (S (S (S (S (S (S (S (S (S (S (S (S (S (S (S (S (S (S
        (S (S (S (S (S (S (S (S (S (S (S (S (S (S (S (S (S (S (S (S (S (S (S
        (S (S (S (S (S (S (S (S (S (S (S (S (S (S (S (S (S (S (S (S (S (S (S
        (S (S (S (S (S (S (S (S (S (S (S (S (S (S (S (S (S (S (S (S (S (S (S
        (S (S (S (S (S (S (S (S (S (S (S (S (S (S (S (S (S (S (S (S (S (S (S
        (S (S (S (S (S (S (S (S (S (S (S (S (S (S (S (S (S (S (S (S (S (S (S
        (S (S (S (S (S (S (S (S (S (S (S (S (S (S (S (S (S (S (S (S (S (S (S
        (S (S (S (S (S (S (S (S (S (S (S (S (S (S (S (S (S (S (S (S (S (S (S
        (S (S (S (S (S (S (S (S (S (S (S (S (S (S (S (S (S (S (S (S (S (S (S
        (S (S (S (S (S (S (S (S (S (S (S (S (S (S (S (S (S (S (S (S (S (S (S
        (S (S (S (S (S (S (S (S (S (S (S (S (S (S (S (S (S
        O)))))))))))))))))))))))))))))))))))))))))))))))))))))))))))))))))))))))))))))))))))))))))))))))))))))))))))))))))))))))))))))))))))))))))))))))))))))))))))))))))))))))))))))))))))))))))))))))))))))))))))))))))))))))))))))))))))))))))))))))))))))))))))))))))))))))))))))))))))))))))))))))))))))))))))))))))))))))
        sub0) (fun start_char_len ->
      bind
        (iter_forwards_from runs (add pair.bp_start start_char_len)
          pair.bp_start_run) (fun fw ->
        bind (n0_scan legacy oc pc ecls not_e pair.bp_end fw false false)
          (fun x ->
          let (found_e, found_not_e) = x in
          bind
            (if found_e
             then Ok (Some ecls)
             else if found_not_e
                  then bind (backwards runs pair.bp_start pair.bp_start_run)
                         (fun bw ->
                         bind
                           (find_value_by (S (S (S (S (S (S (S (S (S (S (S (S
                             (S (S (S (S (S (S (S (S (S (S (S (S (S (S (S (S
                             (S (S (S (S (S (S (S (S (S (S (S (S (S (S (S (S
                             (S (S (S (S (S (S (S (S (S (S (S (S (S (S (S (S
                             (S (S (S (S (S (S (S (S (S (S (S (S (S (S (S (S
                             (S (S (S (S (S (S (S (S (S (S (S (S (S (S (S (S
                             (S (S (S (S (S (S (S (S (S (S (S (S (S (S (S (S
                             (S (S (S (S (S (S (S (S (S (S (S (S (S (S (S (S
                             (S (S (S (S (S (S (S (S (S (S (S (S (S (S (S (S
                             (S (S (S (S (S (S (S (S (S (S (S (S (S (S (S (S
                             (S (S (S (S (S (S (S (S (S (S (S (S (S (S (S (S
                             (S (S (S (S (S (S (S (S (S (S (S (S (S (S (S (S
                             (S (S (S (S (S (S (S (S (S (S (S (S (S (S (S (S
                             (S (S (S (S (S (S (S (S (S (S (S (S (S (S (S (S
                             (S (S (S (S (S (S (S (S (S (S (S (S (S (S (S (S
                             (S (S (S (S (S (S (S (S (S (S (S (S (S (S (S (S
                             (S (S (S (S (S (S (S (S (S (S (S (S (S (S (S (S
                             (S (S (S (S (S (S (S (S (S (S (S (S (S (S (S (S
                             (S (S (S (S (S (S (S (S (S (S (S (S (S (S (S (S
                             (S (S (S (S (S (S (S (S (S (S (S (S (S (S (S (S
                             (S (S (S (S (S (S (S (S (S (S (S (S (S (S (S (S
                             (S (S (S (S (S (S (S (S (S (S (S (S (S (S (S (S
                             (S (S (S (S (S (S (S (S (S
                             O)))))))))))))))))))))))))))))))))))))))))))))))))))))))))))))))))))))))))))))))))))))))))))))))))))))))))))))))))))))))))))))))))))))))))))))))))))))))))))))))))))))))))))))))))))))))))))))))))))))))))))))))))))))))))))))))))))))))))))))))))))))))))))))))))))))))))))))))))))))))))))))))))))))))))))))))))))))))))))))))))))))))))))))))))))))))))))))))))))))
                             (fun k ->
                             match k with
                             | AN -> true
                             | EN -> true
                             | L -> true
                             | R -> true
                             | _ -> false) pc bw) (fun ps ->
                           let previous_strong = opt_or ps sq.irs_sos in
                           let previous_strong0 =
                             match previous_strong with
                             | AN -> R
                             | EN -> R
                             | _ -> previous_strong
                           in
                           Ok (Some previous_strong0)))
                  else Ok None) (fun class_to_set ->
            match class_to_set with
            | Some cts ->
              bind
                (t_subrange (S (S (S (S (S (S (S (S (S (S (S (S (S (S (S (S
                  (S (S (S (S (S (S (S (S (S (S (S (S (S (S (S (S (S (S (S (S
                  (S (S (S (S (S (S (S (S (S (S (S (S (S (S (S (S (S (S (S (S
                  (S (S (S (S (S (S (S (S (S (S (S (S (S (S (S (S (S (S (S (S
                  (S (S (S (S (S (S (S (S (S (S (S (S (S (S (S (S (S (S (S (S
                  (S (S (S (S (S (S (S (S (S (S (S (S (S (S (S (S (S (S (S (S
                  (S (S (S (S (S (S (S (S (S (S (S (S (S (S (S (S (S (S (S (S
                  (S (S (S (S (S (S (S (S (S (S (S (S (S (S (S (S (S (S (S (S
                  (S (S (S (S (S (S (S (S (S (S (S (S (S (S (S (S (S (S (S (S
                  (S (S (S (S (S (S (S (S (S (S (S (S (S (S (S (S (S (S (S (S
                  (S (S (S (S (S (S (S (S (S (S (S (S (S (S (S (S (S (S (S (S
                  (S (S (S (S (S (S (S (S (S (S (S (S (S (S (S (S (S (S (S (S
                  (S (S (S (S (S (S (S (S (S (S (S (S (S (S (S (S (S (S (S (S
                  (S (S (S (S (S (S (S (S (S (S (S (S (S (S (S (S (S (S (S (S
                  (S (S (S (S (S (S (S (S (S (S (S (S (S (S (S (S (S (S (S (S
                  (S (S (S (S (S (S (S (S (S (S (S (S (S (S (S (S (S (S (S (S
                  (S (S (S (S (S (S (S (S (S (S (S (S (S (S (S (S (S (S (S (S
                  (S (S (S (S (S (S (S (S (S (S (S (S (S (S (S (S (S (S (S (S
                  (S (S (S (S (S (S (S (S (S (S (S (S (S (S (S (S (S (S (S (S
                  (S (S (S (S (S (S (S (S (S (S
                  O))))))))))))))))))))))))))))))))))))))))))))))))))))))))))))))))))))))))))))))))))))))))))))))))))))))))))))))))))))))))))))))))))))))))))))))))))))))))))))))))))))))))))))))))))))))))))))))))))))))))))))))))))))))))))))))))))))))))))))))))))))))))))))))))))))))))))))))))))))))))))))))))))))))))))))))))))))))))))))))))))))))))))))))))))))))))))))))))))))))))))))))))))))))))))))))))))
                  e text pair.bp_end (t_len e text)) (fun sub2 ->
                bind
                  (first_char_len e (S (S (S (S (S (S (S (S (S (S (S (S (S (S
                    (S (S (S (S (S (S (S (S (S (S (S (S (S (S (S (S (S (S (S
                    (S (S (S (S (S (S (S (S (S (S (S (S (S (S (S (S (S (S (S
                    (S (S (S (S (S (S (S (S (S (S (S (S (S (S (S (S (S (S (S
                    (S (S (S (S (S (S (S (S (S (S (S (S (S (S (S (S (S (S (S
                    (S (S (S (S (S (S (S (S (S (S (S (S (S (S (S (S (S (S (S
                    (S (S (S (S (S (S (S (S (S (S (S (S (S (S (S (S (S (S (S
                    (S (S (S (S (S (S (S (S (S (S (S (S (S (S (S (S (S (S (S
                    (S (S (S (S (S (S (S (S (S (S (S (S (S (S (S (S (S (S (S
                    (S (S (S (S (S (S (S (S (S (S (S (S (S (S (S (S (S (S (S
                    (S (S (S (S (S (S (S (S (S (S (S (S (S (S (S (S (S (S (S
                    (S (S (S (S (S (S (S (S (S (S (S (S (S (S (S (S (S (S (S
                    (S (S (S (S (S (S (S (S (S (S (S (S (S (S (S (S (S (S (S
                    (S (S (S (S (S (S (S (S (S (S (S (S (S (S (S (S (S (S (S
                    (S (S (S (S (S (S (S (S (S (S (S (S (S (S (S (S (S (S (S
                    (S (S (S (S (S (S (S (S (S (S (S (S (S (S (S (S (S (S (S
                    (S (S (S (S (S (S (S (S (S (S (S (S (S (S (S (S (S (S (S
                    (S (S (S (S (S (S (S (S (S (S (S (S (S (S (S (S (S (S (S
                    (S (S (S (S (S (S (S (S (S (S (S (S (S (S (S (S (S (S (S
                    (S (S (S (S (S (S (S (S (S (S (S (S (S (S (S (S (S (S (S
                    (S (S (S (S (S (S (S (S (S (S (S
                    O))))))))))))))))))))))))))))))))))))))))))))))))))))))))))))))))))))))))))))))))))))))))))))))))))))))))))))))))))))))))))))))))))))))))))))))))))))))))))))))))))))))))))))))))))))))))))))))))))))))))))))))))))))))))))))))))))))))))))))))))))))))))))))))))))))))))))))))))))))))))))))))))))))))))))))))))))))))))))))))))))))))))))))))))))))))))))))))))))))))))))))))))))))))))))))))))))
                    sub2) (fun end_char_len ->
                  bind
                    (set_range (S (S (S (S (S (S (S (S (S (S (S (S (S (S (S
                      (S (S (S (S (S (S (S (S (S (S (S (S (S (S (S (S (S (S
                      (S (S (S (S (S (S (S (S (S (S (S (S (S (S (S (S (S (S
                      (S (S (S (S (S (S (S (S (S (S (S (S (S (S (S (S (S (S
                      (S (S (S (S (S (S (S (S (S (S (S (S (S (S (S (S (S (S
                      (S (S (S (S (S (S (S (S (S (S (S (S (S (S (S (S (S (S
                      (S (S (S (S (S (S (S (S (S (S (S (S (S (S (S (S (S (S
                      (S (S (S (S (S (S (S (S (S (S (S (S (S (S (S (S (S (S
                      (S (S (S (S (S (S (S (S (S (S (S (S (S (S (S (S (S (S
                      (S (S (S (S (S (S (S (S (S (S (S (S (S (S (S (S (S (S
                      (S (S (S (S (S (S (S (S (S (S (S (S (S (S (S (S (S (S
                      (S (S (S (S (S (S (S (S (S (S (S (S (S (S (S (S (S (S
                      (S (S (S (S (S (S (S (S (S (S (S (S (S (S (S (S (S (S
                      (S (S (S (S (S (S (S (S (S (S (S (S (S (S (S (S (S (S
                      (S (S (S (S (S (S (S (S (S (S (S (S (S (S (S (S (S (S
                      (S (S (S (S (S (S (S (S (S (S (S (S (S (S (S (S (S (S
                      (S (S (S (S (S (S (S (S (S (S (S (S (S (S (S (S (S (S
                      (S (S (S (S (S (S (S (S (S (S (S (S (S (S (S (S (S (S
                      (S (S (S (S (S (S (S (S (S (S (S (S (S (S (S (S (S (S
                      (S (S (S (S (S (S (S (S (S (S (S (S (S (S (S (S (S (S
                      (S (S (S (S (S (S (S (S (S (S (S (S (S (S (S (S (S (S
                      (S (S (S (S (S (S (S (S (S (S (S (S
                      O)))))))))))))))))))))))))))))))))))))))))))))))))))))))))))))))))))))))))))))))))))))))))))))))))))))))))))))))))))))))))))))))))))))))))))))))))))))))))))))))))))))))))))))))))))))))))))))))))))))))))))))))))))))))))))))))))))))))))))))))))))))))))))))))))))))))))))))))))))))))))))))))))))))))))))))))))))))))))))))))))))))))))))))))))))))))))))))))))))))))))))))))))))))))))))))))))))
                      pc pair.bp_start (add pair.bp_start start_char_len) cts)
                    (fun pc0 ->
                    bind
                      (set_range (S (S (S (S (S (S (S (S (S (S (S (S (S (S (S
                        (S (S (S (S (S (S (S (S (S (S (S (S (S (S (S (S (S (S
                        (S (S (S (S (S (S (S (S (S (S (S (S (S (S (S (S (S (S
                        (S (S (S (S (S (S (S (S (S (S (S (S (S (S (S (S (S (S
                        (S (S (S (S (S (S (S (S (S (S (S (S (S (S (S (S (S (S
                        (S (S (S (S (S (S (S (S (S (S (S (S (S (S (S (S (S (S
                        (S (S (S (S (S (S (S (S (S (S (S (S (S (S (S (S (S (S
                        (S (S (S (S (S (S (S (S (S (S (S (S (S (S (S (S (S (S
                        (S (S (S (S (S (S (S (S (S (S (S (S (S (S (S (S (S (S
                        (S (S (S (S (S (S (S (S (S (S (S (S (S (S (S (S (S (S
                        (S (S (S (S (S (S (S (S (S (S (S (S (S (S (S (S (S (S
                        (S (S (S (S (S (S (S (S (S (S (S (S (S (S (S (S (S (S
                        (S (S (S (S (S (S (S (S (S (S (S (S (S (S (S (S (S (S
                        (S (S (S (S (S (S (S (S (S (S (S (S (S (S (S (S (S (S
                        (S (S (S (S (S (S (S (S (S (S (S (S (S (S (S (S (S (S
                        (S (S (S (S (S (S (S (S (S (S (S (S (S (S (S (S (S (S
                        (S (S (S (S (S (S (S (S (S (S (S (S (S (S (S (S (S (S
                        (S (S (S (S (S (S (S (S (S (S (S (S (S (S (S (S (S (S
                        (S (S (S (S (S (S (S (S (S (S (S (S (S (S (S (S (S (S
                        (S (S (S (S (S (S (S (S (S (S (S (S (S (S (S (S (S (S
                        (S (S (S (S (S (S (S (S (S (S (S (S (S (S (S (S (S (S
                        (S (S (S (S (S (S (S (S (S (S (S (S (S (S (S
                        O))))))))))))))))))))))))))))))))))))))))))))))))))))))))))))))))))))))))))))))))))))))))))))))))))))))))))))))))))))))))))))))))))))))))))))))))))))))))))))))))))))))))))))))))))))))))))))))))))))))))))))))))))))))))))))))))))))))))))))))))))))))))))))))))))))))))))))))))))))))))))))))))))))))))))))))))))))))))))))))))))))))))))))))))))))))))))))))))))))))))))))))))))))))))))))))))))))))
                        pc0 pair.bp_end (add pair.bp_end end_char_len) cts)
                      (fun pc1 ->
                      bind (backwards runs pair.bp_start pair.bp_start_run)
                        (fun bw ->
                        bind
                          (set_while_bn (S (S (S (S (S (S (S (S (S (S (S (S
                            (S (S (S (S (S (S (S (S (S (S (S (S (S (S (S (S
                            (S (S (S (S (S (S (S (S (S (S (S (S (S (S (S (S
                            (S (S (S (S (S (S (S (S (S (S (S (S (S (S (S (S
                            (S (S (S (S (S (S (S (S (S (S (S (S (S (S (S (S
                            (S (S (S (S (S (S (S (S (S (S (S (S (S (S (S (S
                            (S (S (S (S (S (S (S (S (S (S (S (S (S (S (S (S
                            (S (S (S (S (S (S (S (S (S (S (S (S (S (S (S (S
                            (S (S (S (S (S (S (S (S (S (S (S (S (S (S (S (S
                            (S (S (S (S (S (S (S (S (S (S (S (S (S (S (S (S
                            (S (S (S (S (S (S (S (S (S (S (S (S (S (S (S (S
                            (S (S (S (S (S (S (S (S (S (S (S (S (S (S (S (S
                            (S (S (S (S (S (S (S (S (S (S (S (S (S (S (S (S
                            (S (S (S (S (S (S (S (S (S (S (S (S (S (S (S (S
                            (S (S (S (S (S (S (S (S (S (S (S (S (S (S (S (S
                            (S (S (S (S (S (S (S (S (S (S (S (S (S (S (S (S
                            (S (S (S (S (S (S (S (S (S (S (S (S (S (S (S (S
                            (S (S (S (S (S (S (S (S (S (S (S (S (S (S (S (S
                            (S (S (S (S (S (S (S (S (S (S (S (S (S (S (S (S
                            (S (S (S (S (S (S (S (S (S (S (S (S (S (S (S (S
                            (S (S (S (S (S (S (S (S (S (S (S (S (S (S (S (S
                            (S (S (S (S (S (S (S (S (S (S (S (S (S (S (S (S
                            (S (S (S (S (S (S (S (S (S (S (S (S (S (S (S (S
                            (S (S (S (S (S (S (S (S (S (S (S (S (S (S (S (S
                            (S (S (S (S (S (S (S (S (S (S (S (S (S (S (S
                            O)))))))))))))))))))))))))))))))))))))))))))))))))))))))))))))))))))))))))))))))))))))))))))))))))))))))))))))))))))))))))))))))))))))))))))))))))))))))))))))))))))))))))))))))))))))))))))))))))))))))))))))))))))))))))))))))))))))))))))))))))))))))))))))))))))))))))))))))))))))))))))))))))))))))))))))))))))))))))))))))))))))))))))))))))))))))))))))))))))))))))))))))))))))))))))))))))))))))))))
                            pc1 bw cts) (fun pc2 ->
                          bind
                            (iter_forwards_from runs
                              (add pair.bp_start start_char_len)
                              pair.bp_start_run) (fun fw1 ->
                            bind (n0_nsm legacy oc pc2 fw1 cts) (fun pc3 ->
                              bind
                                (iter_forwards_from runs
                                  (add pair.bp_end end_char_len)
                                  pair.bp_end_run) (fun fw2 ->
                                n0_nsm legacy oc pc3 fw2 cts)))))))))
            | None -> Ok pc)))))

(** val n0_pairs :
    enc -> bool -> (run list -> nat -> nat -> nat list res) -> n list -> irs
    -> bclass list -> bclass -> bclass -> bclass list -> bracket_pair list ->
    bclass list res **)

let rec n0_pairs e legacy backwards text sq oc ecls not_e pc = function
| [] -> Ok pc
| p :: rest ->
  bind (n0_pair e legacy backwards text sq oc ecls not_e pc p) (fun pc' ->
    n0_pairs e legacy backwards text sq oc ecls not_e pc' rest)

(** val ni_consume :
    bclass list -> nat list -> nat list -> nat -> (((nat list * nat) * bclass
    option) * nat list) res **)

let rec ni_consume pc idxs ni_run last_i =
  match idxs with
  | [] -> Ok (((ni_run, last_i), None), [])
  | j :: rest ->
    bind
      (get (S (S (S (S (S (S (S (S (S (S (S (S (S (S (S (S (S (S (S (S (S (S
        (S (S (S (S (S (S (S (S (S (S (S (S (S (S (S (S (S (S (S (S (S (S (S
        (S (S (S (S (S (S (S (S (S (S (S (S (S (S (S (S (S (S (S (S (S (S (S
        (S (S (S (S (S (S (S (S (S (S (S (S (S (S (S (S (S (S (S (S (S (S (S
        (S (S (S (S (S (S (S (S (S (S (S (S (S (S (S (S (S (S (S (S (S (S (S
        (S (S (S (S (S (S (S (S (S (S (S (S (S (S (S (S (S (S (S (S (S (S (S
        (S (S (S (S (S (S (S (S (S (S (S (S (S (S (S (S (S (S (S (S (S (S (S
        (S (S (S (S (S (S (S (S (S (S (S (S (S (S (S (S (S (S (S (S (S (S (S
        (S (S (S (S (S (S (S (S (S (S (S (S (S (S (S (S (S (S (S (S (S (S (S
        (S (S (S (S (S (S (S (S (S (S (S (S (S (S (S (S (S (S (S (S (S (S (S
        (S (S (S (S (S (S (S (S (S (S (S (S (S (S (S (S (S (S (S (S (S (S (S
        (S (S (S (S (S (S (S (S (S (S (S (S (S (S (S (S (S (S (S (S (S (S (S
        (S (S (S (S (S (S (S (S (S (S (S (S (S (S (S (S (S (S (S (S (S (S (S
        (S (S (S (S (S (S (S (S (S (S (S (S (S (S (S (S (S (S (S (S (S (S (S
        (S (S (S (S (S (S (S (S (S (S (S (S (S (S (S (S (S (S (S (S (S (S (S
        (S (S (S (S (S (S (S (S (S (S (S (S (S (S (S (S (S (S (S (S (S (S (S
        (S (S (S (S (S (S (S (S (S (S (S (S (S (S (S (S (S (S (S (S (S (S (S
        (S (S (S (S (S (S (S (S (S (S (S (S (S (S (S (S (S (S (S (S (S (S (S
        (S (S (S (S (S (S (S (S (S (S (S (S (S (S (S (S (S (S (S (S (S (S (S
        (S (S (S (S (S (S (S (S (S (S (S (S
        O))))))))))))))))))))))))))))))))))))))))))))))))))))))))))))))))))))))))))))))))))))))))))))))))))))))))))))))))))))))))))))))))))))))))))))))))))))))))))))))))))))))))))))))))))))))))))))))))))))))))))))))))))))))))))))))))))))))))))))))))))))))))))))))))))))))))))))))))))))))))))))))))))))))))))))))))))))))))))))))))))))))))))))))))))))))))))))))))))))))))))))))))))))))))))))))))))))))))))))))))))))))))))))))))))))))))))))))))))))))))))))))))
        pc j) (fun c ->
      if (||) (is_NI c) (ceq c BN)
      then ni_consume pc rest (app ni_run (j :: [])) j
      else Ok (((ni_run, j), (Some c)), rest))

(** val n12_class : bclass -> bclass -> bclass -> bclass **)

let n12_class prev next ecls =
  match prev with
  | AN -> (match next with
           | AN -> R
           | EN -> R
           | R -> R
           | _ -> ecls)
  | EN -> (match next with
           | AN -> R
           | EN -> R
           | R -> R
           | _ -> ecls)
  | L -> (match next with
          | L -> L
          | _ -> ecls)
  | R -> (match next with
          | AN -> R
          | EN -> R
          | R -> R
          | _ -> ecls)
  | _ -> ecls

(** val n12_loop :
    nat -> irs -> bclass -> bclass list -> nat list -> bclass -> bclass list
    res **)

let rec n12_loop fuel sq ecls pc idxs prev_class =
  match fuel with
  | O ->
    Panic (S (S (S (S (S (S (S (S (S (S (S (S (S (S (S (S (S (S (S (S (S (S
      (S (S (S (S (S (S (S (S (S (S (S (S (S (S (S (S (S (S (S (S (S (S (S (S
      (S (S (S (S (S (S (S (S (S (S (S (S (S (S (S (S (S (S (S (S (S (S (S (S
      (S (S (S (S (S (S (S (S (S (S (S (S (S (S (S (S (S (S (S (S (S (S (S (S
      (S (S (S (S (S (S (S (S (S (S (S (S (S (S (S (S (S (S (S (S (S (S (S (S
      (S (S (S (S (S (S (S (S (S (S (S (S (S (S (S (S (S (S (S (S (S (S (S (S
      (S (S (S (S (S (S (S (S (S (S (S (S (S (S (S (S (S (S (S (S (S (S (S (S
      (S (S (S (S (S (S (S (S (S (S (S (S (S (S (S (S (S (S (S (S (S (S (S (S
      (S (S (S (S (S (S (S (S (S (S (S (S (S (S (S (S (S (S (S (S (S (S (S (S
      (S (S (S (S (S (S (S (S (S (S (S (S (S (S (S (S (S (S (S (S (S (S (S (S
      (S (S (S (S (S (S (S (S (S (S (S (S (S (S (S (S (S (S (S (S (S (S (S (S
      (S (S (S (S (S (S (S (S (S (S (S (S (S (S (S (S (S (S (S (S (S (S (S (S
      (S (S (S (S (S (S (S (S (S (S (S (S (S (S (S (S (S (S (S (S (S (S (S (S
      (S (S (S (S (S (S (S (S (S (S (S (S (S (S (S (S (S (S (S (S (S (S (S (S
      (S (S (S (S (S (S (S (S (S (S (S (S (S (S (S (S (S (S (S (S (S (S (S (S
      (S (S (S (S (S (S (S (S (S (S (S (S (S (S (S (S (S (S (S (S (S (S (S (S
      (S (S (S (S (S (S (S (S (S (S (S (S (S (S (S (S (S (S (S (S (S (S (S (S
      (S (S (S (S (S (S (S (S (S (S (S (S (S (S (S (S (S (S (S (S (S (S (S (S
      (S (S (S (S (S (S (S (S (S (S (S (S (S (S (S (S (S (S (S (S (S (S (S (S
      (S (S (S (S (S (S (S (S (S (S (S (S (S (S (S (S (S (S (S (S (S (S (S (S
      (S (S (S (S (S (S (S (S (S (S (S (S (S (S (S (S (S (S (S (S (S (S (S (S
      (S (S (S (S (S (S (S (S (S (S (S (S (S (S (S (S (S (S (S (S (S (S (S (S
      (S (S (S (S (S (S (S (S (S (S (S (S (S (S (S (S (S (S (S (S (S (S (S (S
      (S (S (S (S (S (S (S (S (S (S (S (S (S (S (S (S (S (S (S (S (S (S (S (S
      (S (S (S (S (S (S (S (S (S (S (S (S (S (S (S (S (S (S (S (S (S (S (S (S
      (S (S (S (S (S (S (S (S (S (S (S (S (S (S (S (S (S (S (S (S (S (S (S (S
      (S (S (S (S (S (S (S (S (S (S (S (S (S (S (S (S (S (S (S (S (S (S (S (S
      (S (S (S (S (S (S (S (S (S (S (S (S (S (S (S (S (S (S (S (S (S (S (S (S
      (S (S (S (S (S (S (S (S (S (S (S (S (S (S (S (S (S (S (S (S (S (S (S (S
      (S (S (S (S (S (S (S (S (S (S (S (S (S (S (S (S (S (S (S (S (S (S (S (S
      (S (S (S (S (S (S (S (S (S (S (S (S (S (S (S (S (S (S (S (S (S (S (S (S
      (S (S (S (S (S (S (S (S (S (S (S (S (S (S (S (S (S (S (S (S (S (S (S (S
      (S (S (S (S (S (S (S (S (S (S (S (S (S (S (S (S (S (S (S (S (S (S (S (S
      (S (S (S (S (S (S (S (S (S (S (S (S (S (S (S (S (S (S (S (S (S (S (S (S
      (S (S (S (S (S (S (S (S (S (S (S (S (S (S (S (S (S (S (S (S (S (S (S (S
      (S (S (S (S (S (S (S (S (S (S (S (S (S (S (S (S (S (S (S (S (S (S (S (S
      (S (S (S (S (S (S (S (S (S (S (S (S (S (S (S (S (S (S (S (S (S (S (S (S
      (S (S (S (S (S (S (S (S (S (S (S (S (S (S (S (S (S (S (S (S (S (S (S (S
      (S (S (S (S (S (S (S (S (S (S (S (S (S (S (S (S (S (S (S (S (S (S (S (S
      (S (S (S (S (S (S (S (S (S (S (S (S (S (S (S (S (S (S (S (S (S (S (S (S
      (S (S (S (S (S (S (S (S (S (S (S (S (S (S (S (S (S (S (S (S (S (S (S (S
      (S (S (S (S (S (S (S (S (S (S (S (S (S (S (S (S (S (S (S (S (S (S (S (S
      (S (S (S (S (S (S (S (S (S (S (S (S (S (S (S (S (S (S (S (S (S (S (S (S
      (S (S (S (S (S (S (S (S (S (S (S (S (S (S (S (S (S (S (S (S (S (S (S (S
      (S (S (S (S (S (S (S (S (S (S (S (S (S (S (S (S (S (S (S (S (S (S (S (S
      (S (S (S (S (S (S (S (S (S (S (S (S (S (S (S (S (S (S (S (S (S (S (S (S
      (S (S (S (S (S (S (S (S (S (S (S (S (S (S (S (S (S (S (S (S (S (S (S (S
      (S (S (S (S (S (S (S (S (S (S (S (S (S (S (S (S (S (S (S (S (S (S (S (S
      (S (S (S (S (S (S (S (S (S (S (S (S (S (S (S (S (S (S (S (S (S (S (S (S
      (S (S (S (S (S (S (S (S (S (S (S (S (S (S (S (S (S (S (S (S (S (S (S (S
      (S (S (S (S (S (S (S (S (S (S (S (S (S (S (S (S (S (S (S (S (S (S (S (S
      (S (S (S (S (S (S (S (S (S (S (S (S (S (S (S (S (S (S (S (S (S (S (S (S
      (S (S (S (S (S (S (S (S (S (S (S (S (S (S (S (S (S (S (S (S (S (S (S (S
      (S (S (S (S (S (S (S (S (S (S (S (S (S (S (S (S (S (S (S (S (S (S (S (S
      (S (S (S (S (S (S (S (S (S (S (S (S (S (S (S (S (S (S (S (S (S (S (S (S
      (S (S (S (S (S (S (S (S (S (S (S (S (S (S (S (S (S (S (S (S (S (S (S (S
      (S (S (S (S (S (S (S (S (S (S (S (S (S (S (S (S (S (S (S (S (S (S (S (S
      (S (S (S (S (S (S (S (S (S (S (S (S (S (S (S (S (S (S (S (S (S (S (S (S
      (S (S (S (S (S (S (S (S (S (S (S (S (S (S (S (S (S (S (S (S (S (S (S (S
      (S (S (S (S (S (S (S (S (S (S (S (S (S (S (S (S (S (S (S (S (S (S (S (S
      (S (S (S (S (S (S (S (S (S (S (S (S (S (S (S (S (S (S (S (S (S (S (S (S
      (S (S (S (S (S (S (S (S (S (S (S (S (S (S (S (S (S (S (S (S (S (S (S (S
      (S (S (S (S (S (S (S (S (S (S (S (S (S (S (S (S (S (S (S (S (S (S (S (S
      (S (S (S (S (S (S (S (S (S (S (S (S (S (S (S (S (S (S (S (S (S (S (S (S
      (S (S (S (S (S (S (S (S (S (S (S (S (S (S (S (S (S (S (S (S (S (S (S (S
      (S (S (S (S (S (S (S (S (S (S (S (S (S (S (S (S (S (S (S (S (S (S (S (S
      (S (S (S (S (S (S (S (S (S (S (S (S (S (S (S (S (S (S (S (S (S (S (S (S
      (S (S (S (S (S (S (S (S (S (S (S (S (S (S (S (S (S (S (S (S (S (S (S (S
      (S (S (S (S (S (S (S (S (S (S (S (S (S (S (S (S (S (S (S (S (S (S (S (S
      (S (S (S (S (S (S (S (S (S (S (S (S (S (S (S (S (S (S (S (S (S (S (S (S
      (S (S (S (S (S (S (S (S (S (S (S (S (S (S (S (S (S (S (S (S (S (S (S (S
      (S (S (S (S (S (S (S (S (S (S (S (S (S (S (S (S (S (S (S (S (S (S (S (S
      (S (S (S (S (S (S (S (S (S (S (S (S (S (S (S (S (S (S (S (S (S (S (S (S
      (S (S (S (S (S (S (S (S (S (S (S (S (S (S (S (S (S (S (S (S (S (S (S (S
      (S (S (S (S (S (S (S (S (S (S (S (S (S (S (S (S (S (S (S (S (S (S (S (S
      (S (S (S (S (S (S (S (S (S (S (S (S (S (S (S (S (S (S (S (S (S (S (S (S
      (S (S (S (S (S (S (S (S (S (S (S (S (S (S (S (S (S (S (S (S (S (S (S (S
      (S (S (S (S (S (S (S (S (S (S (S (S (S (S (S (S (S (S (S (S (S (S (S (S
      (S (S (S (S (S (S (S (S (S (S (S (S (S (S (S (S (S (S (S (S (S (S (S (S
      (S (S (S (S (S (S (S (S (S (S (S (S (S (S (S (S (S (S (S (S (S (S (S (S
      (S (S (S (S (S (S (S (S (S (S (S (S (S (S (S (S (S (S (S (S (S (S (S (S
      (S (S (S (S (S (S (S (S (S (S (S (S (S (S (S (S (S (S (S (S (S (S (S (S
      (S (S (S (S (S (S (S (S (S (S (S (S (S (S (S (S (S (S (S (S (S (S (S (S
      (S (S (S (S (S (S (S (S (S (S (S (S (S (S (S (S (S (S (S (S (S (S (S (S
      (S (S (S (S (S (S (S (S (S (S (S (S (S (S (S (S (S (S (S (S (S (S (S (S
      (S (S (S (S (S (S (S (S (S (S (S (S (S (S (S (S (S (S (S (S (S (S (S (S
      (S (S (S (S (S (S (S (S (S (S (S (S (S (S (S (S (S (S (S (S (S (S (S (S
      (S (S (S (S (S (S (S (S (S (S (S (S (S (S (S (S (S (S (S (S (S (S (S (S
      (S (S (S (S (S (S (S (S (S (S (S (S (S (S (S (S (S (S (S (S (S (S (S (S
      (S (S (S (S (S (S (S (S (S (S (S (S (S (S (S (S (S (S (S (S (S (S (S (S
      (S (S (S (S (S (S (S (S (S (S (S (S (S (S (S (S (S (S (S (S (S (S (S (S
      (S (S (S (S (S (S (S (S (S (S (S (S (S (S (S (S (S (S (S (S (S (S (S (S
      (S (S (S (S (S (S (S (S (S (S (S (S (S (S (S (S (S (S (S (S (S (S (S (S
      (S (S (S (S (S (S (S (S (S (S (S (S (S (S (S (S (S (S (S (S (S (S (S (S
      (S (S (S (S (S (S (S (S (S (S (S (S (S (S (S (S (S (S (S (S (S (S (S (S
      (S (S (S (S (S (S (S (S (S (S (S (S (S (S (S (S (S (S (S (S (S (S (S (S
      (S (S (S (S (S (S (S (S (S (S (S (S (S (S (S (S (S (S (S (S (S (S (S (S
      (S (S (S (S (S (S (S (S (S (S (S (S (S (S (S (S (S (S (S (S (S (S (S (S
      (S (S (S (S (S (S (S (S (S (S (S (S (S (S (S (S (S (S (S (S (S (S (S (S
      (S (S (S (S (S (S (S (S (S (S (S (S (S (S (S (S (S (S (S (S (S (S (S (S
      (S (S (S (S (S (S (S (S (S (S (S (S (S (S (S (S (S (S (S (S (S (S (S (S
      (S (S (S (S (S (S (S (S (S (S (S (S (S (S (S (S (S (S (S (S (S (S (S (S
      (S (S (S (S (S (S (S (S (S (S (S (S (S (S (S (S (S (S (S (S (S (S (S (S
      (S (S (S (S (S (S (S (S (S (S (S (S (S (S (S (S (S (S (S (S (S (S (S (S
      (S (S (S (S (S (S (S (S (S (S (S (S (S (S (S (S (S (S (S (S (S (S (S (S
      (S (S (S (S (S (S (S (S (S (S (S (S (S (S (S (S (S (S (S (S (S (S (S (S
      (S (S (S (S (S (S (S (S (S (S (S (S (S (S (S (S (S (S (S (S (S (S (S (S
      (S (S (S (S (S (S (S (S (S (S (S (S (S (S (S (S (S (S (S (S (S (S (S (S
      (S (S (S (S (S (S (S (S (S (S (S (S (S (S (S (S (S (S (S (S (S (S (S (S
      (S (S (S (S (S (S (S (S (S (S (S (S (S (S (S (S (S (S (S (S (S (S (S (S
      (S (S (S (S (S (S (S (S (S (S (S (S (S (S (S (S (S (S (S (S (S (S (S (S
      (S (S (S (S (S (S (S (S (S (S (S (S (S (S (S (S (S (S (S (S (S (S (S (S
      (S (S (S (S (S (S (S (S (S (S (S (S (S (S (S (S (S (S (S (S (S (S (S (S
      (S (S (S (S (S (S (S (S (S (S (S (S (S (S (S (S (S (S (S (S (S (S (S (S
      (S (S (S (S (S (S (S (S (S (S (S (S (S (S (S (S (S (S (S (S (S (S (S (S
      (S (S (S (S (S (S (S (S (S (S (S (S (S (S (S (S (S (S (S (S (S (S (S (S
      (S (S (S (S (S (S (S (S (S (S (S (S (S (S (S (S (S (S (S (S (S (S (S (S
      (S (S (S (S (S (S (S (S (S (S (S (S (S (S (S (S (S (S (S (S (S (S (S (S
      (S (S (S (S (S (S (S (S (S (S (S (S (S (S (S (S (S (S (S (S (S (S (S (S
      (S (S (S (S (S (S (S (S (S (S (S (S (S (S (S (S (S (S (S (S (S (S (S (S
      (S (S (S (S (S (S (S (S (S (S (S (S (S (S (S (S (S (S (S (S (S (S (S (S
      (S (S (S (S (S (S (S (S (S (S (S (S (S (S (S (S (S (S (S (S (S (S (S (S
      (S (S (S (S (S (S (S (S (S (S (S (S (S (S (S (S (S (S (S (S (S (S (S (S
      (S (S (S (S (S (S (S (S (S (S (S (S (S (S (S (S (S (S (S (S (S (S (S (S
      (S (S (S (S (S (S (S (S (S (S (S (S (S (S (S (S (S (S (S (S (S (S (S (S
      (S (S (S (S (S (S (S (S (S (S (S (S (S (S (S (S (S (S (S (S (S (S (S (S
      (S (S (S (S (S (S (S (S (S (S (S (S (S (S (S (S (S (S (S (S (S (S (S (S
      (S (S (S (S (S (S (S (S (S (S (S (S (S (S (S (S (S (S (S (S (S (S (S (S
      (S (S (S (S (S (S (S (S (S (S (S (S (S (S (S (S (S (S (S (S (S (S (S (S
      (S (S (S (S (S (S (S (S (S (S (S (S (S (S (S (S (S (S (S (S (S (S (S (S
      (S (S (S (S (S (S (S (S (S (S (S (S (S (S (S (S (S (S (S (S (S (S (S (S
      (S (S (S (S (S (S (S (S (S (S (S (S (S (S (S (S (S (S (S (S (S (S (S (S
      (S (S (S (S (S (S (S (S (S (S (S (S (S (S (S (S (S (S (S (S (S (S (S (S
      (S (S (S (S (S (S (S (S (S (S (S (S (S (S (S (S (S (S (S (S (S (S (S (S
      (S (S (S (S (S (S (S (S (S (S (S (S (S (S (S (S (S (S (S (S (S (S (S (S
      (S (S (S (S (S (S (S (S (S (S (S (S (S (S (S (S (S (S (S (S (S (S (S (S
      (S (S (S (S (S (S (S (S (S (S (S (S (S (S (S (S (S (S (S (S (S (S (S (S
      (S (S (S (S (S (S (S (S (S (S (S (S (S (S (S (S (S (S (S (S (S (S (S (S
      (S (S (S (S (S (S (S (S (S (S (S (S (S (S (S (S (S (S (S (S (S (S (S (S
      (S (S (S (S (S (S (S (S (S (S (S (S (S (S (S (S (S (S (S (S (S (S (S (S
      (S (S (S (S (S (S (S (S (S (S (S (S (S (S (S (S (S (S (S (S (S (S (S (S
      (S (S (S (S (S (S (S (S (S (S (S (S (S (S (S (S (S (S (S (S (S (S (S (S
      (S (S (S (S (S (S (S (S (S (S (S (S (S (S (S (S (S (S (S (S (S (S (S (S
      (S (S (S (S (S (S (S (S (S (S (S (S (S (S (S (S (S (S (S (S (S (S (S (S
      (S (S (S (S (S (S (S (S (S (S (S (S (S (S (S (S (S (S (S (S (S (S (S (S
      (S (S (S (S (S (S (S (S (S (S (S (S (S (S (S (S (S (S (S (S (S (S (S (S
      (S (S (S (S (S (S (S (S (S (S (S (S (S (S (S (S (S (S (S (S (S (S (S (S
      (S (S (S (S (S (S (S (S (S (S (S (S (S (S (S (S (S (S (S (S (S (S (S (S
      (S (S (S (S (S (S (S (S (S (S (S (S (S (S (S (S (S (S (S (S (S (S (S (S
      (S (S (S (S (S (S (S (S (S (S (S (S (S (S (S (S (S (S (S (S (S (S (S (S
      (S (S (S (S (S (S (S (S (S (S (S (S (S (S (S (S (S (S (S (S (S (S (S (S
      (S (S (S (S (S (S (S (S (S (S (S (S (S (S (S (S (S (S (S (S (S (S (S (S
      (S (S (S (S (S (S (S (S (S (S (S (S (S (S (S (S (S (S (S (S (S (S (S (S
      (S (S (S (S (S (S (S (S (S (S (S (S (S (S (S (S (S (S (S (S (S (S (S (S
      (S (S (S (S (S (S (S (S (S (S (S (S (S (S (S (S (S (S (S (S (S (S (S (S
      (S (S (S (S (S (S (S (S (S (S (S (S (S (S (S (S (S (S (S (S (S (S (S (S
      (S (S (S (S (S (S (S (S (S (S (S (S (S (S (S (S (S (S (S (S (S (S (S (S
      (S (S (S (S (S (S (S (S (S (S (S (S (S (S (S (S (S (S (S (S (S (S (S (S
      (S (S (S (S (S (S (S (S (S (S (S (S (S (S (S (S (S (S (S (S (S (S (S (S
      (S (S (S (S (S (S (S (S (S (S (S (S (S (S (S (S (S (S (S (S (S (S (S (S
      (S (S (S (S (S (S (S (S (S (S (S (S (S (S (S (S (S (S (S (S (S (S (S (S
      (S (S (S (S (S (S (S (S (S (S (S (S (S (S (S (S (S (S (S (S (S (S (S (S
      (S (S (S (S (S (S (S (S (S (S (S (S (S (S (S (S (S (S (S (S (S (S (S (S
      (S (S (S (S (S (S (S (S (S (S (S (S (S (S (S (S (S (S (S (S (S (S (S (S
      (S (S (S (S (S (S (S (S (S (S (S (S (S (S (S (S (S (S (S (S (S (S (S (S
      (S (S (S (S (S (S (S (S (S (S (S (S (S (S (S (S (S (S (S (S (S (S (S (S
      (S (S (S (S (S (S (S (S (S (S (S (S (S (S (S (S (S (S (S (S (S (S (S (S
      (S (S (S (S (S (S (S (S (S (S (S (S (S (S (S (S (S (S (S (S (S (S (S (S
      (S (S (S (S (S (S (S (S (S (S (S (S (S (S (S (S (S (S (S (S (S (S (S (S
      (S (S (S (S (S (S (S (S (S (S (S (S (S (S (S (S (S (S (S (S (S (S (S (S
      (S (S (S (S (S (S (S (S (S (S (S (S (S (S (S (S (S (S (S (S (S (S (S (S
      (S (S (S (S (S (S (S (S (S (S (S (S (S (S (S (S (S (S (S (S (S (S (S (S
      (S (S (S (S (S (S (S (S (S (S (S (S (S (S (S (S (S (S (S (S (S (S (S (S
      (S (S (S (S (S (S (S (S (S (S (S (S (S (S (S (S (S (S (S (S (S (S (S (S
      (S (S (S (S (S (S (S (S (S (S (S (S (S (S (S (S (S (S (S (S (S (S (S (S
      (S (S (S (S (S (S (S (S (S (S (S (S (S (S (S (S (S (S (S (S (S (S (S (S
      (S (S (S (S (S (S (S (S (S (S (S (S (S (S (S (S (S (S (S (S (S (S (S (S
      (S (S (S (S (S (S (S (S (S (S (S (S (S (S (S (S (S (S (S (S (S (S (S (S
      (S (S (S (S (S (S (S (S (S (S (S (S (S (S (S (S (S (S (S (S (S (S (S (S
      (S (S (S (S (S (S (S (S (S (S (S (S (S (S (S (S (S (S (S (S (S (S (S (S
      (S (S (S (S (S (S (S (S (S (S (S (S (S (S (S (S (S (S (S (S (S (S (S (S
      (S (S (S (S (S (S (S (S (S (S (S (S (S (S (S (S (S (S (S (S (S (S (S (S
      (S (S (S (S (S (S (S (S (S (S (S (S (S (S (S (S (S (S (S (S (S (S (S (S
      (S (S (S (S (S (S (S (S (S (S (S (S (S (S (S (S (S (S (S (S (S (S (S (S
      (S (S (S (S (S (S (S (S (S (S (S (S (S (S (S (S (S (S (S (S (S (S (S (S
      (S (S (S (S (S (S (S (S (S (S (S (S (S (S (S (S (S (S (S (S (S (S (S (S
      (S (S (S (S (S (S (S (S (S (S (S (S (S (S (S (S (S (S (S (S (S (S (S (S
      (S (S (S (S (S (S (S (S (S (S (S (S (S (S (S (S (S (S (S (S (S (S (S (S
      (S (S (S (S (S (S (S (S (S (S (S (S (S (S (S (S (S (S (S (S (S (S (S (S
      (S (S (S (S (S (S (S (S (S (S (S (S (S (S (S (S (S (S (S (S (S (S (S (S
      (S (S (S (S (S (S (S (S (S (S (S (S (S (S (S (S (S (S (S (S (S (S (S (S
      (S (S (S (S (S (S (S (S (S (S (S (S (S (S (S (S (S (S (S (S (S (S (S (S
      (S (S (S (S (S (S (S (S (S (S (S (S (S (S (S (S (S (S (S (S (S (S (S (S
      (S (S (S (S (S (S (S (S (S (S (S (S (S (S (S (S (S (S (S (S (S (S (S (S
      (S (S (S (S (S (S (S (S (S (S (S (S (S (S (S (S (S (S (S (S (S (S (S (S
      (S (S (S (S (S (S (S (S (S (S (S (S (S (S (S (S (S (S (S (S (S (S (S (S
      (S (S (S (S (S (S (S (S (S (S (S (S (S (S (S (S (S (S (S (S (S (S (S (S
      (S (S (S (S (S (S (S (S (S (S (S (S (S (S (S (S (S (S (S (S (S (S (S (S
      (S (S (S (S (S (S (S (S (S (S (S (S (S (S (S (S (S (S (S (S (S (S (S (S
      (S (S (S (S (S (S (S (S (S (S (S (S (S (S (S (S (S (S (S (S (S (S (S (S
      (S (S (S (S (S (S (S (S (S (S (S (S (S (S (S (S (S (S (S (S (S (S (S (S
      (S (S (S (S (S (S (S (S (S (S (S (S (S (S (S (S (S (S (S (S (S (S (S (S
      (S (S (S (S (S (S (S (S (S (S (S (S (S (S (S (S (S (S (S (S (S (S (S (S
      (S (S (S (S (S (S (S (S (S (S (S (S (S (S (S (S (S (S (S (S (S (S (S (S
      (S (S (S (S (S (S (S (S (S (S (S (S (S (S (S (S (S (S (S (S (S (S (S (S
      (S (S (S (S (S (S (S (S (S (S (S (S (S (S (S (S (S (S (S (S (S (S (S (S
      (S (S (S (S (S (S (S (S (S (S (S (S (S (S (S (S (S (S (S (S (S (S (S (S
      (S (S (S (S (S (S (S (S (S (S (S (S (S (S (S (S (S (S (S (S (S (S (S (S
      (S (S (S (S (S (S (S (S (S
      O)))))))))))))))))))))))))))))))))))))))))))))))))))))))))))))))))))))))))))))))))))))))))))))))))))))))))))))))))))))))))))))))))))))))))))))))))))))))))))))))))))))))))))))))))))))))))))))))))))))))))))))))))))))))))))))))))))))))))))))))))))))))))))))))))))))))))))))))))))))))))))))))))))))))))))))))))))))))))))))))))))))))))))))))))))))))))))))))))))))))))))))))))))))))))))))))))))))))))))))))))))))))))))))))))))))))))))))))))))))))))))))))))))))))))))))))))))))))))))))))))))))))))))))))))))))))))))))))))))))))))))))))))))))))))))))))))))))))))))))))))))))))))))))))))))))))))))))))))))))))))))))))))))))))))))))))))))))))))))))))))))))))))))))))))))))))))))))))))))))))))))))))))))))))))))))))))))))))))))))))))))))))))))))))))))))))))))))))))))))))))))))))))))))))))))))))))))))))))))))))))))))))))))))))))))))))))))))))))))))))))))))))))))))))))))))))))))))))))))))))))))))))))))))))))))))))))))))))))))))))))))))))))))))))))))))))))))))))))))))))))))))))))))))))))))))))))))))))))))))))))))))))))))))))))))))))))))))))))))))))))))))))))))))))))))))))))))))))))))))))))))))))))))))))))))))))))))))))))))))))))))))))))))))))))))))))))))))))))))))))))))))))))))))))))))))))))))))))))))))))))))))))))))))))))))))))))))))))))))))))))))))))))))))))))))))))))))))))))))))))))))))))))))))))))))))))))))))))))))))))))))))))))))))))))))))))))))))))))))))))))))))))))))))))))))))))))))))))))))))))))))))))))))))))))))))))))))))))))))))))))))))))))))))))))))))))))))))))))))))))))))))))))))))))))))))))))))))))))))))))))))))))))))))))))))))))))))))))))))))))))))))))))))))))))))))))))))))))))))))))))))))))))))))))))))))))))))))))))))))))))))))))))))))))))))))))))))))))))))))))))))))))))))))))))))))))))))))))))))))))))))))))))))))))))))))))))))))))))))))))))))))))))))))))))))))))))))))))))))))))))))))))))))))))))))))))))))))))))))))))))))))))))))))))))))))))))))))))))))))))))))))))))))))))))))))))))))))))))))))))))))))))))))))))))))))))))))))))))))))))))))))))))))))))))))))))))))))))))))))))))))))))))))))))))))))))))))))))))))))))))))))))))))))))))))))))))))))))))))))))))))))))))))))))))))))))))))))))))))))))))))))))))))))))))))))))))))))))))))))))))))))))))))))))))))))))))))))))))))))))))))))))))))))))))))))))))))))))))))))))))))))))))))))))))))))))))))))))))))))))))))))))))))))))))))))))))))))))))))))))))))))))))))))))))))))))))))))))))))))))))))))))))))))))))))))))))))))))))))))))))))))))))))))))))))))))))))))))))))))))))))))))))))))))))))))))))))))))))))))))))))))))))))))))))))))))))))))))))))))))))))))))))))))))))))))))))))))))))))))))))))))))))))))))))))))))))))))))))))))))))))))))))))))))))))))))))))))))))))))))))))))))))))))))))))))))))))))))))))))))))))))))))))))))))))))))))))))))))))))))))))))))))))))))))))))))))))))))))))))))))))))))))))))))))))))))))))))))))))))))))))))))))))))))))))))))))))))))))))))))))))))))))))))))))))))))))))))))))))))))))))))))))))))))))))))))))))))))))))))))))))))))))))))))))))))))))))))))))))))))))))))))))))))))))))))))))))))))))))))))))))))))))))))))))))))))))))))))))))))))))))))))))))))))))))))))))))))))))))))))))))))))))))))))))))))))))))))))))))))))))))))))))))))))))))))))))))))))))))))))))))))))))))))))))))))))))))))))))))))))))))))))))))))))))))))))))))))))))))))))))))))))))))))))))))))))))))))))))))))))))))))))))))))))))))))))))))))))))))))))))))))))))))))))))))))))))))))))))))))))))))))))))))))))))))))))))))))))))))))))))))))))))))))))))))))))))))))))))))))))))))))))))))))))))))))))))))))))))))))))))))))))))))))))))))))))))))))))))))))))))))))))))))))))))))))))))))))))))))))))))))))))))))))))))))))))))))))))))))))))))))))))))))))))))))))))))))))))))))))))))))))))))))))))))))))))))))))))))))))))))))))))))))))))))))))))))))))))))))))))))))))))))))))))))))))))))))))))))))))))))))))))))))))))))))))))))))))))))))))))))))))))))))))))))))))))))))))))))))))))))))))))))))))))))))))))))))))))))))))))))))))))))))))))))))))))))))))))))))))))))))))))))))))))))))))))))))))))))))))))))))))))))))))))))))))))))))))))))))))))))))))))))))))))))))))))))))))))))))))))))))))))))))))))))))))))))))))))))))))))))))))))))))))))))))))))))))))))))))))))))))))))))))))))))))))))))))))))))))))))))))))))))))))))))))))))))))))))))))))))))))))))))))))))))))))))))))))))))))))))))))))))))))))))))))))))))))))))))))))))))))))))))))))))))))))))))))))))))))))))))))))))))))))))))))))))))))))))))))))))))))))))))))))))))))))))))))))))))))))))))))))))))))))))))))))))))))))))))))))))))))))))))))))))))))))))))))))))))))))))))))))))))))))))))))))))))))))))))))))))))))))))))))))))))))))))))))))))))))))))))))))))))))))))))))))))))))))))))))))))))))))))))))))))))))))))))))))))))))))))))))))))))))))))))))))))))))))))))))))))))))))))))))))))))))))))))))))))))))))))))))))))))))))))))))))))))))))))))))))))))))))))))))))))))))))))))))))))))))))))))))))))))))))))))))))))))))))))))))))))))))))))))))))))))))))))))))))))))))))))))))))))))))))))))))))))))))))))))))))))))))))))))))))))))))))))))))))))))))))))))))))))))))))))))))))))))))))))))))))))
  | S f ->
    (match idxs with
     | [] -> Ok pc
     | i :: rest ->
       bind
         (get (S (S (S (S (S (S (S (S (S (S (S (S (S (S (S (S (S (S (S (S (S
           (S (S (S (S (S (S (S (S (S (S (S (S (S (S (S (S (S (S (S (S (S (S
           (S (S (S (S (S (S (S (S (S (S (S (S (S (S (S (S (S (S (S (S (S (S
           (S (S (S (S (S (S (S (S (S (S (S (S (S (S (S (S (S (S (S (S (S (S
           (S (S (S (S (S (S (S (S (S (S (S (S (S (S (S (S (S (S (S (S (S (S
           (S (S (S (S (S (S (S (S (S (S (S (S (S (S (S (S (S (S (S (S (S (S
           (S (S (S (S (S (S (S (S (S (S (S (S (S (S (S (S (S (S (S (S (S (S
           (S (S (S (S (S (S (S (S (S (S (S (S (S (S (S (S (S (S (S (S (S (S
           (S (S (S (S (S (S (S (S (S (S (S (S (S (S (S (S (S (S (S (S (S (S
           (S (S (S (S (S (S (S (S (S (S (S (S (S (S (S (S (S (S (S (S (S (S
           (S (S (S (S (S (S (S (S (S (S (S (S (S (S (S (S (S (S (S (S (S (S
           (S (S (S (S (S (S (S (S (S (S (S (S (S (S (S (S (S (S (S (S (S (S
           (S (S (S (S (S (S (S (S (S (S (S (S (S (S (S (S (S (S (S (S (S (S
           (S (S (S (S (S (S (S (S (S (S (S (S (S (S (S (S (S (S (S (S (S (S
           (S (S (S (S (S (S (S (S (S (S (S (S (S (S (S (S (S (S (S (S (S (S
           (S (S (S (S (S (S (S (S (S (S (S (S (S (S (S (S (S (S (S (S (S (S
           (S (S (S (S (S (S (S (S (S (S (S (S (S (S (S (S (S (S (S (S (S (S
           (S (S (S (S (S (S (S (S (S (S (S (S (S (S (S (S (S (S (S (S (S (S
           (S (S (S (S (S (S (S (S (S (S (S (S (S (S (S (S (S (S (S (S (S (S
           (S (S (S (S (S (S (S (S (S (S (S (S (S (S (S (S (S (S (S (S (S (S
           (S
           O))))))))))))))))))))))))))))))))))))))))))))))))))))))))))))))))))))))))))))))))))))))))))))))))))))))))))))))))))))))))))))))))))))))))))))))))))))))))))))))))))))))))))))))))))))))))))))))))))))))))))))))))))))))))))))))))))))))))))))))))))))))))))))))))))))))))))))))))))))))))))))))))))))))))))))))))))))))))))))))))))))))))))))))))))))))))))))))))))))))))))))))))))))))))))))))))))))))))))))))))))))))))))))))))))))))))))))))))))))))))
           pc i) (fun c ->
         if (||) (is_NI c) (ceq c BN)
         then bind (ni_consume pc rest (i :: []) i) (fun x ->
                let (p, rest') = x in
                let (p0, nc) = p in
                let (ni_run, last_i) = p0 in
                let next_class = opt_or nc sq.irs_eos in
                let new_class = n12_class prev_class next_class ecls in
                bind
                  (set_all (S (S (S (S (S (S (S (S (S (S (S (S (S (S (S (S (S
                    (S (S (S (S (S (S (S (S (S (S (S (S (S (S (S (S (S (S (S
                    (S (S (S (S (S (S (S (S (S (S (S (S (S (S (S (S (S (S (S
                    (S (S (S (S (S (S (S (S (S (S (S (S (S (S (S (S (S (S (S
                    (S (S (S (S (S (S (S (S (S (S (S (S (S (S (S (S (S (S (S
                    (S (S (S (S (S (S (S (S (S (S (S (S (S (S (S (S (S (S (S
                    (S (S (S (S (S (S (S (S (S (S (S (S (S (S (S (S (S (S (S
                    (S (S (S (S (S (S (S (S (S (S (S (S (S (S (S (S (S (S (S
                    (S (S (S (S (S (S (S (S (S (S (S (S (S (S (S (S (S (S (S
                    (S (S (S (S (S (S (S (S (S (S (S (S (S (S (S (S (S (S (S
                    (S (S (S (S (S (S (S (S (S (S (S (S (S (S (S (S (S (S (S
                    (S (S (S (S (S (S (S (S (S (S (S (S (S (S (S (S (S (S (S
                    (S (S (S (S (S (S (S (S (S (S (S (S (S (S (S (S (S (S (S
                    (S (S (S (S (S (S (S (S (S (S (S (S (S (S (S (S (S (S (S
                    (S (S (S (S (S (S (S (S (S (S (S (S (S (S (S (S (S (S (S
                    (S (S (S (S (S (S (S (S (S (S (S (S (S (S (S (S (S (S (S
                    (S (S (S (S (S (S (S (S (S (S (S (S (S (S (S (S (S (S (S
                    (S (S (S (S (S (S (S (S (S (S (S (S (S (S (S (S (S (S (S
                    (S (S (S (S (S (S (S (S (S (S (S (S (S (S (S (S (S (S (S
                    (S (S (S (S (S (S (S (S (S (S (S (S (S (S (S (S (S (S (S
                    (S (S (S (S (S (S (S (S (S (S (S (S (S (S (S (S (S (S (S
                    (S (S (S (S (S (S (S (S (S (S (S (S (S (S (S (S (S (S (S
                    (S (S (S (S (S (S (S (S (S (S (S (S (S (S (S (S (S (S (S
                    (S (S (S (S (S (S (S (S (S (S (S (S (S (S (S (S (S (S (S
                    (S (S (S (S (S (S (S (S (S (S (S (S (S (S (S (S (S (S (S
                    (S (S (S (S (S (S (S
                    O))))))))))))))))))))))))))))))))))))))))))))))))))))))))))))))))))))))))))))))))))))))))))))))))))))))))))))))))))))))))))))))))))))))))))))))))))))))))))))))))))))))))))))))))))))))))))))))))))))))))))))))))))))))))))))))))))))))))))))))))))))))))))))))))))))))))))))))))))))))))))))))))))))))))))))))))))))))))))))))))))))))))))))))))))))))))))))))))))))))))))))))))))))))))))))))))))))))))))))))))))))))))))))))))))))))))))))))))))))))))))))))))))))))))))))))))))))))))))))))))
                    pc ni_run new_class) (fun pc' ->
                  bind
                    (get (S (S (S (S (S (S (S (S (S (S (S (S (S (S (S (S (S
                      (S (S (S (S (S (S (S (S (S (S (S (S (S (S (S (S (S (S
                      (S (S (S (S (S (S (S (S (S (S (S (S (S (S (S (S (S (S
                      (S (S (S (S (S (S (S (S (S (S (S (S (S (S (S (S (S (S
                      (S (S (S (S (S (S (S (S (S (S (S (S (S (S (S (S (S (S
                      (S (S (S (S (S (S (S (S (S (S (S (S (S (S (S (S (S (S
                      (S (S (S (S (S (S (S (S (S (S (S (S (S (S (S (S (S (S
                      (S (S (S (S (S (S (S (S (S (S (S (S (S (S (S (S (S (S
                      (S (S (S (S (S (S (S (S (S (S (S (S (S (S (S (S (S (S
                      (S (S (S (S (S (S (S (S (S (S (S (S (S (S (S (S (S (S
                      (S (S (S (S (S (S (S (S (S (S (S (S (S (S (S (S (S (S
                      (S (S (S (S (S (S (S (S (S (S (S (S (S (S (S (S (S (S
                      (S (S (S (S (S (S (S (S (S (S (S (S (S (S (S (S (S (S
                      (S (S (S (S (S (S (S (S (S (S (S (S (S (S (S (S (S (S
                      (S (S (S (S (S (S (S (S (S (S (S (S (S (S (S (S (S (S
                      (S (S (S (S (S (S (S (S (S (S (S (S (S (S (S (S (S (S
                      (S (S (S (S (S (S (S (S (S (S (S (S (S (S (S (S (S (S
                      (S (S (S (S (S (S (S (S (S (S (S (S (S (S (S (S (S (S
                      (S (S (S (S (S (S (S (S (S (S (S (S (S (S (S (S (S (S
                      (S (S (S (S (S (S (S (S (S (S (S (S (S (S (S (S (S (S
                      (S (S (S (S (S (S (S (S (S (S (S (S (S (S (S (S (S (S
                      (S (S (S (S (S (S (S (S (S (S (S (S (S (S (S (S (S (S
                      (S (S (S (S (S (S (S (S (S (S (S (S (S (S (S (S (S (S
                      (S (S (S (S (S (S (S (S (S (S (S (S (S (S (S (S (S (S
                      (S (S (S (S (S (S (S (S (S (S (S (S (S (S (S (S (S (S
                      (S (S (S (S (S (S (S (S (S (S (S (S (S (S (S (S (S (S
                      (S (S (S (S (S (S (S (S (S (S (S (S (S (S (S (S (S
                      O))))))))))))))))))))))))))))))))))))))))))))))))))))))))))))))))))))))))))))))))))))))))))))))))))))))))))))))))))))))))))))))))))))))))))))))))))))))))))))))))))))))))))))))))))))))))))))))))))))))))))))))))))))))))))))))))))))))))))))))))))))))))))))))))))))))))))))))))))))))))))))))))))))))))))))))))))))))))))))))))))))))))))))))))))))))))))))))))))))))))))))))))))))))))))))))))))))))))))))))))))))))))))))))))))))))))))))))))))))))))))))))))))))))))))))))))))))))))))))))))))))
                      pc' last_i) (fun p1 -> n12_loop f sq ecls pc' rest' p1)))
         else n12_loop f sq ecls pc rest c))

(** val resolve_neutral_gen :
    enc -> datasource -> bool -> n list -> irs -> nat list -> bclass list ->
    bclass list -> bclass list res **)

let resolve_neutral_gen e ds legacy text sq levels oc pc =
  match sq.irs_runs with
  | [] ->
    Panic (S (S (S (S (S (S (S (S (S (S (S (S (S (S (S (S (S (S (S (S (S (S
      (S (S (S (S (S (S (S (S (S (S (S (S (S (S (S (S (S (S (S (S (S (S (S (S
      (S (S (S (S (S (S (S (S (S (S (S (S (S (S (S (S (S (S (S (S (S (S (S (S
      (S (S (S (S (S (S (S (S (S (S (S (S (S (S (S (S (S (S (S (S (S (S (S (S
      (S (S (S (S (S (S (S (S (S (S (S (S (S (S (S (S (S (S (S (S (S (S (S (S
      (S (S (S (S (S (S (S (S (S (S (S (S (S (S (S (S (S (S (S (S (S (S (S (S
      (S (S (S (S (S (S (S (S (S (S (S (S (S (S (S (S (S (S (S (S (S (S (S (S
      (S (S (S (S (S (S (S (S (S (S (S (S (S (S (S (S (S (S (S (S (S (S (S (S
      (S (S (S (S (S (S (S (S (S (S (S (S (S (S (S (S (S (S (S (S (S (S (S (S
      (S (S (S (S (S (S (S (S (S (S (S (S (S (S (S (S (S (S (S (S (S (S (S (S
      (S (S (S (S (S (S (S (S (S (S (S (S (S (S (S (S (S (S (S (S (S (S (S (S
      (S (S (S (S (S (S (S (S (S (S
      O))))))))))))))))))))))))))))))))))))))))))))))))))))))))))))))))))))))))))))))))))))))))))))))))))))))))))))))))))))))))))))))))))))))))))))))))))))))))))))))))))))))))))))))))))))))))))))))))))))))))))))))))))))))))))))))))))))))))))))))))))))))))))))))))))))))))))))))))
  | r0 :: _ ->
    bind
      (get (S (S (S (S (S (S (S (S (S (S (S (S (S (S (S (S (S (S (S (S (S (S
        (S (S (S (S (S (S (S (S (S (S (S (S (S (S (S (S (S (S (S (S (S (S (S
        (S (S (S (S (S (S (S (S (S (S (S (S (S (S (S (S (S (S (S (S (S (S (S
        (S (S (S (S (S (S (S (S (S (S (S (S (S (S (S (S (S (S (S (S (S (S (S
        (S (S (S (S (S (S (S (S (S (S (S (S (S (S (S (S (S (S (S (S (S (S (S
        (S (S (S (S (S (S (S (S (S (S (S (S (S (S (S (S (S (S (S (S (S (S (S
        (S (S (S (S (S (S (S (S (S (S (S (S (S (S (S (S (S (S (S (S (S (S (S
        (S (S (S (S (S (S (S (S (S (S (S (S (S (S (S (S (S (S (S (S (S (S (S
        (S (S (S (S (S (S (S (S (S (S (S (S (S (S (S (S (S (S (S (S (S (S (S
        (S (S (S (S (S (S (S (S (S (S (S (S (S (S (S (S (S (S (S (S (S (S (S
        (S (S (S (S (S (S (S (S (S (S (S (S (S (S (S (S (S (S (S (S (S (S (S
        (S (S (S (S (S (S (S (S (S (S (S (S (S (S (S (S (S (S (S (S
        O))))))))))))))))))))))))))))))))))))))))))))))))))))))))))))))))))))))))))))))))))))))))))))))))))))))))))))))))))))))))))))))))))))))))))))))))))))))))))))))))))))))))))))))))))))))))))))))))))))))))))))))))))))))))))))))))))))))))))))))))))))))))))))))))))))))))))))))))
        levels (fst r0)) (fun l0 ->
      let ecls = level_class l0 in
      let not_e = if ceq ecls L then R else L in
      bind (identify_bracket_pairs_gen e ds legacy text sq oc pc)
        (fun pairs ->
        bind
          (n0_pairs e legacy
            (if legacy
             then iter_backwards_from_legacy
             else iter_backwards_from) text sq oc ecls not_e pc pairs)
          (fun pc0 ->
          let idxs = flat_map run_range sq.irs_runs in
          n12_loop (S (length idxs)) sq ecls pc0 idxs sq.irs_sos)))

(** val resolve_neutral :
    enc -> datasource -> n list -> irs -> nat list -> bclass list -> bclass
    list -> bclass list res **)

let resolve_neutral e ds =
  resolve_neutral_gen e ds false

(** val resolve_levels : bclass list -> nat list -> nat list res **)

let rec resolve_levels pc levels =
  match pc with
  | [] ->
    (match levels with
     | [] -> Ok []
     | _ :: _ ->
       Panic (S (S (S (S (S (S (S (S (S (S (S (S (S (S (S (S (S (S (S (S (S
         (S (S (S (S (S (S (S (S (S (S (S (S (S (S (S (S (S (S (S (S (S (S (S
         (S (S (S (S (S (S (S (S (S (S (S (S (S (S (S (S (S (S (S (S (S (S (S
         (S (S (S (S (S (S (S (S (S (S (S (S (S (S (S (S (S (S (S (S (S (S (S
         (S (S (S (S (S (S (S (S (S (S (S (S (S (S (S (S (S (S (S (S (S (S (S
         (S (S (S (S (S (S (S (S (S (S (S (S (S (S (S (S (S (S (S (S (S (S (S
         (S (S (S (S (S (S (S (S (S (S (S (S (S (S (S (S (S (S (S (S (S (S (S
         (S (S (S (S (S (S (S (S (S (S (S (S (S (S (S (S (S (S (S (S (S (S (S
         (S (S (S (S (S (S (S (S (S (S (S (S (S (S (S (S (S (S (S (S (S (S (S
         (S (S (S (S (S (S (S (S (S (S (S (S (S (S (S (S (S (S (S (S (S (S (S
         (S (S (S (S (S (S (S (S (S (S (S (S (S (S (S (S (S (S (S (S (S (S (S
         (S (S (S (S (S (S (S (S (S (S (S (S (S (S (S (S (S (S (S (S (S (S (S
         (S (S (S (S (S (S (S (S (S (S (S (S (S (S (S (S (S (S (S (S (S (S (S
         (S (S (S (S (S (S (S (S (S (S (S (S (S (S (S (S (S (S (S (S (S (S (S
         (S (S (S (S (S (S (S (S (S (S (S (S (S (S (S (S (S (S (S (S (S (S (S
         (S (S (S (S (S (S (S (S (S (S (S (S (S (S (S (S (S (S (S (S (S (S (S
         (S (S (S (S (S (S (S (S (S (S (S (S (S (S (S (S (S (S (S (S (S (S (S
         (S (S (S (S (S (S (S (S (S (S (S (S (S (S (S (S (S (S (S (S (S (S (S
         (S (S (S (S (S (S (S (S (S (S (S (S (S (S (S (S (S (S (S (S (S (S (S
         (S (S (S (S (S (S (S (S (S (S (S (S (S (S (S (S (S (S (S (S (S (S (S
         (S (S (S (S (S (S (S (S (S (S (S (S (S (S (S (S (S (S (S (S (S (S (S
         (S (S (S (S (S (S (S (S (S (S (S (S (S (S (S (S (S (S (S (S (S (S (S
         (S (S (S (S (S (S (S (S (S (S (S (S (S (S (S (S (S (S (S (S (S (S (S
         (S (S (S (S (S (S (S (S (S (S (S (S (S (S (S (S (S (S (S (S (S (S (S
         (S (S (S (S (S (S (S (S (S (S (S (S (S (S (S (S (S (S (S (S (S (S (S
         (S (S (S (S (S (S (S (S (S (S (S
         O)))))))))))))))))))))))))))))))))))))))))))))))))))))))))))))))))))))))))))))))))))))))))))))))))))))))))))))))))))))))))))))))))))))))))))))))))))))))))))))))))))))))))))))))))))))))))))))))))))))))))))))))))))))))))))))))))))))))))))))))))))))))))))))))))))))))))))))))))))))))))))))))))))))))))))))))))))))))))))))))))))))))))))))))))))))))))))))))))))))))))))))))))))))))))))))))))))))))))))))))))))))))))))))))))))))))))))))))))))))))))))))))))))))))))))))))))))))))))))))))))))))))))))))))))))))))))))))))))))))))))))))))))))))))))))))))))))))))))))))))))))))))))))))))))))))))))
  | c :: pcs ->
    (match levels with
     | [] ->
       Panic (S (S (S (S (S (S (S (S (S (S (S (S (S (S (S (S (S (S (S (S (S
         (S (S (S (S (S (S (S (S (S (S (S (S (S (S (S (S (S (S (S (S (S (S (S
         (S (S (S (S (S (S (S (S (S (S (S (S (S (S (S (S (S (S (S (S (S (S (S
         (S (S (S (S (S (S (S (S (S (S (S (S (S (S (S (S (S (S (S (S (S (S (S
         (S (S (S (S (S (S (S (S (S (S (S (S (S (S (S (S (S (S (S (S (S (S (S
         (S (S (S (S (S (S (S (S (S (S (S (S (S (S (S (S (S (S (S (S (S (S (S
         (S (S (S (S (S (S (S (S (S (S (S (S (S (S (S (S (S (S (S (S (S (S (S
         (S (S (S (S (S (S (S (S (S (S (S (S (S (S (S (S (S (S (S (S (S (S (S
         (S (S (S (S (S (S (S (S (S (S (S (S (S (S (S (S (S (S (S (S (S (S (S
         (S (S (S (S (S (S (S (S (S (S (S (S (S (S (S (S (S (S (S (S (S (S (S
         (S (S (S (S (S (S (S (S (S (S (S (S (S (S (S (S (S (S (S (S (S (S (S
         (S (S (S (S (S (S (S (S (S (S (S (S (S (S (S (S (S (S (S (S (S (S (S
         (S (S (S (S (S (S (S (S (S (S (S (S (S (S (S (S (S (S (S (S (S (S (S
         (S (S (S (S (S (S (S (S (S (S (S (S (S (S (S (S (S (S (S (S (S (S (S
         (S (S (S (S (S (S (S (S (S (S (S (S (S (S (S (S (S (S (S (S (S (S (S
         (S (S (S (S (S (S (S (S (S (S (S (S (S (S (S (S (S (S (S (S (S (S (S
         (S (S (S (S (S (S (S (S (S (S (S (S (S (S (S (S (S (S (S (S (S (S (S
         (S (S (S (S (S (S (S (S (S (S (S (S (S (S (S (S (S (S (S (S (S (S (S
         (S (S (S (S (S (S (S (S (S (S (S (S (S (S (S (S (S (S (S (S (S (S (S
         (S (S (S (S (S (S (S (S (S (S (S (S (S (S (S (S (S (S (S (S (S (S (S
         (S (S (S (S (S (S (S (S (S (S (S (S (S (S (S (S (S (S (S (S (S (S (S
         (S (S (S (S (S (S (S (S (S (S (S (S (S (S (S (S (S (S (S (S (S (S (S
         (S (S (S (S (S (S (S (S (S (S (S (S (S (S (S (S (S (S (S (S (S (S (S
         (S (S (S (S (S (S (S (S (S (S (S (S (S (S (S (S (S (S (S (S (S (S (S
         (S (S (S (S (S (S (S (S (S (S (S (S (S (S (S (S (S (S (S (S (S (S (S
         (S (S (S (S (S (S (S (S (S (S (S
         O))))))))))))))))))))))))))))))))))))))))))))))))))))))))))))))))))))))))))))))))))))))))))))))))))))))))))))))))))))))))))))))))))))))))))))))))))))))))))))))))))))))))))))))))))))))))))))))))))))))))))))))))))))))))))))))))))))))))))))))))))))))))))))))))))))))))))))))))))))))))))))))))))))))))))))))))))))))))))))))))))))))))))))))))))))))))))))))))))))))))))))))))))))))))))))))))))))))))))))))))))))))))))))))))))))))))))))))))))))))))))))))))))))))))))))))))))))))))))))))))))))))))))))))))))))))))))))))))))))))))))))))))))))))))))))))))))))))))))))))))))))))))))))))))))))))))
     | l :: ls ->
       bind
         (if is_rtl l
          then (match c with
                | AN ->
                  (match level_raise l (S O) with
                   | Some x -> Ok x
                   | None ->
                     Panic (S (S (S (S (S (S (S (S (S (S (S (S (S (S (S (S (S
                       (S (S (S (S (S (S (S (S (S (S (S (S (S (S (S (S (S (S
                       (S (S (S (S (S (S (S (S (S (S (S (S (S (S (S (S (S (S
                       (S (S (S (S (S (S (S (S (S (S (S (S (S (S (S (S (S (S
                       (S (S (S (S (S (S (S (S (S (S (S (S (S (S (S (S (S (S
                       (S (S (S (S (S (S (S (S (S (S (S (S (S (S (S (S (S (S
                       (S (S (S (S (S (S (S (S (S (S (S (S (S (S (S (S (S (S
                       (S (S (S (S (S (S (S (S (S (S (S (S (S (S (S (S (S (S
                       (S (S (S (S (S (S (S (S (S (S (S (S (S (S (S (S (S (S
                       (S (S (S (S (S (S (S (S (S (S (S (S (S (S (S (S (S (S
                       (S (S (S (S (S (S (S (S (S (S (S (S (S (S (S (S (S (S
                       (S (S (S (S (S (S (S (S (S (S (S (S (S (S (S (S (S (S
                       (S (S (S (S (S (S (S (S (S (S (S (S (S (S (S (S (S (S
                       (S (S (S (S (S (S (S (S (S (S (S (S (S (S (S (S (S (S
                       (S (S (S (S (S (S (S (S (S (S (S (S (S (S (S (S (S (S
                       (S (S (S (S (S (S (S (S (S (S (S (S (S (S (S (S (S (S
                       (S (S (S (S (S (S (S (S (S (S (S (S (S (S (S (S (S (S
                       (S (S (S (S (S (S (S (S (S (S (S (S (S (S (S (S (S (S
                       (S (S (S (S (S (S (S (S (S (S (S (S (S (S (S (S (S (S
                       (S (S (S (S (S (S (S (S (S (S (S (S (S (S (S (S (S (S
                       (S (S (S (S (S (S (S (S (S (S (S (S (S (S (S (S (S (S
                       (S (S (S (S (S (S (S (S (S (S (S (S (S (S (S (S (S (S
                       (S (S (S (S (S (S (S (S (S (S (S (S (S (S (S (S (S (S
                       (S (S (S (S (S (S (S (S (S (S (S (S (S (S (S (S (S (S
                       (S (S (S (S (S (S (S (S (S (S (S (S (S (S (S (S (S (S
                       (S (S (S (S (S (S (S (S (S (S (S (S (S (S (S (S (S (S
                       (S (S (S (S (S (S (S (S (S (S (S (S (S (S (S (S (S (S
                       (S (S (S (S (S (S (S (S (S (S (S (S (S (S (S (S (S (S
                       (S (S (S (S (S (S (S (S (S (S (S (S (S (S (S (S (S (S
                       (S (S (S (S (S (S (S (S (S (S (S (S (S (S (S (S (S (S
                       (S (S (S (S (S (S (S (S (S (S (S (S (S (S (S (S (S (S
                       (S (S (S (S (S (S (S (S (S (S (S (S (S (S (S (S (S (S
                       (S (S (S (S (S (S (S (S (S (S (S (S (S (S
                       O))))))))))))))))))))))))))))))))))))))))))))))))))))))))))))))))))))))))))))))))))))))))))))))))))))))))))))))))))))))))))))))))))))))))))))))))))))))))))))))))))))))))))))))))))))))))))))))))))))))))))))))))))))))))))))))))))))))))))))))))))))))))))))))))))))))))))))))))))))))))))))))))))))))))))))))))))))))))))))))))))))))))))))))))))))))))))))))))))))))))))))))))))))))))))))))))))))))))))))))))))))))))))))))))))))))))))))))))))))))))))))))))))))))))))))))))))))))))))))))))))))))))))))))))))))))))))))))))))))))))))))))))))))))))))))))))))))))))))))))))))))))))))))))))))))))))))))))
                | EN ->
                  (match level_raise l (S O) with
                   | Some x -> Ok x
                   | None ->
                     Panic (S (S (S (S (S (S (S (S (S (S (S (S (S (S (S (S (S
                       (S (S (S (S (S (S (S (S (S (S (S (S (S (S (S (S (S (S
                       (S (S (S (S (S (S (S (S (S (S (S (S (S (S (S (S (S (S
                       (S (S (S (S (S (S (S (S (S (S (S (S (S (S (S (S (S (S
                       (S (S (S (S (S (S (S (S (S (S (S (S (S (S (S (S (S (S
                       (S (S (S (S (S (S (S (S (S (S (S (S (S (S (S (S (S (S
                       (S (S (S (S (S (S (S (S (S (S (S (S (S (S (S (S (S (S
                       (S (S (S (S (S (S (S (S (S (S (S (S (S (S (S (S (S (S
                       (S (S (S (S (S (S (S (S (S (S (S (S (S (S (S (S (S (S
                       (S (S (S (S (S (S (S (S (S (S (S (S (S (S (S (S (S (S
                       (S (S (S (S (S (S (S (S (S (S (S (S (S (S (S (S (S (S
                       (S (S (S (S (S (S (S (S (S (S (S (S (S (S (S (S (S (S
                       (S (S (S (S (S (S (S (S (S (S (S (S (S (S (S (S (S (S
                       (S (S (S (S (S (S (S (S (S (S (S (S (S (S (S (S (S (S
                       (S (S (S (S (S (S (S (S (S (S (S (S (S (S (S (S (S (S
                       (S (S (S (S (S (S (S (S (S (S (S (S (S (S (S (S (S (S
                       (S (S (S (S (S (S (S (S (S (S (S (S (S (S (S (S (S (S
                       (S (S (S (S (S (S (S (S (S (S (S (S (S (S (S (S (S (S
                       (S (S (S (S (S (S (S (S (S (S (S (S (S (S (S (S (S (S
                       (S (S (S (S (S (S (S (S (S (S (S (S (S (S (S (S (S (S
                       (S (S (S (S (S (S (S (S (S (S (S (S (S (S (S (S (S (S
                       (S (S (S (S (S (S (S (S (S (S (S (S (S (S (S (S (S (S
                       (S (S (S (S (S (S (S (S (S (S (S (S (S (S (S (S (S (S
                       (S (S (S (S (S (S (S (S (S (S (S (S (S (S (S (S (S (S
                       (S (S (S (S (S (S (S (S (S (S (S (S (S (S (S (S (S (S
                       (S (S (S (S (S (S (S (S (S (S (S (S (S (S (S (S (S (S
                       (S (S (S (S (S (S (S (S (S (S (S (S (S (S (S (S (S (S
                       (S (S (S (S (S (S (S (S (S (S (S (S (S (S (S (S (S (S
                       (S (S (S (S (S (S (S (S (S (S (S (S (S (S (S (S (S (S
                       (S (S (S (S (S (S (S (S (S (S (S (S (S (S (S (S (S (S
                       (S (S (S (S (S (S (S (S (S (S (S (S (S (S (S (S (S (S
                       (S (S (S (S (S (S (S (S (S (S (S (S (S (S (S (S (S (S
                       (S (S (S (S (S (S (S (S (S (S (S (S (S (S
                       O))))))))))))))))))))))))))))))))))))))))))))))))))))))))))))))))))))))))))))))))))))))))))))))))))))))))))))))))))))))))))))))))))))))))))))))))))))))))))))))))))))))))))))))))))))))))))))))))))))))))))))))))))))))))))))))))))))))))))))))))))))))))))))))))))))))))))))))))))))))))))))))))))))))))))))))))))))))))))))))))))))))))))))))))))))))))))))))))))))))))))))))))))))))))))))))))))))))))))))))))))))))))))))))))))))))))))))))))))))))))))))))))))))))))))))))))))))))))))))))))))))))))))))))))))))))))))))))))))))))))))))))))))))))))))))))))))))))))))))))))))))))))))))))))))))))))))))))
                | L ->
                  (match level_raise l (S O) with
                   | Some x -> Ok x
                   | None ->
                     Panic (S (S (S (S (S (S (S (S (S (S (S (S (S (S (S (S (S
                       (S (S (S (S (S (S (S (S (S (S (S (S (S (S (S (S (S (S
                       (S (S (S (S (S (S (S (S (S (S (S (S (S (S (S (S (S (S
                       (S (S (S (S (S (S (S (S (S (S (S (S (S (S (S (S (S (S
                       (S (S (S (S (S (S (S (S (S (S (S (S (S (S (S (S (S (S
                       (S (S (S (S (S (S (S (S (S (S (S (S (S (S (S (S (S (S
                       (S (S (S (S (S (S (S (S (S (S (S (S (S (S (S (S (S (S
                       (S (S (S (S (S (S (S (S (S (S (S (S (S (S (S (S (S (S
                       (S (S (S (S (S (S (S (S (S (S (S (S (S (S (S (S (S (S
                       (S (S (S (S (S (S (S (S (S (S (S (S (S (S (S (S (S (S
                       (S (S (S (S (S (S (S (S (S (S (S (S (S (S (S (S (S (S
                       (S (S (S (S (S (S (S (S (S (S (S (S (S (S (S (S (S (S
                       (S (S (S (S (S (S (S (S (S (S (S (S (S (S (S (S (S (S
                       (S (S (S (S (S (S (S (S (S (S (S (S (S (S (S (S (S (S
                       (S (S (S (S (S (S (S (S (S (S (S (S (S (S (S (S (S (S
                       (S (S (S (S (S (S (S (S (S (S (S (S (S (S (S (S (S (S
                       (S (S (S (S (S (S (S (S (S (S (S (S (S (S (S (S (S (S
                       (S (S (S (S (S (S (S (S (S (S (S (S (S (S (S (S (S (S
                       (S (S (S (S (S (S (S (S (S (S (S (S (S (S (S (S (S (S
                       (S (S (S (S (S (S (S (S (S (S (S (S (S (S (S (S (S (S
                       (S (S (S (S (S (S (S (S (S (S (S (S (S (S (S (S (S (S
                       (S (S (S (S (S (S (S (S (S (S (S (S (S (S (S (S (S (S
                       (S (S (S (S (S (S (S (S (S (S (S (S (S (S (S (S (S (S
                       (S (S (S (S (S (S (S (S (S (S (S (S (S (S (S (S (S (S
                       (S (S (S (S (S (S (S (S (S (S (S (S (S (S (S (S (S (S
                       (S (S (S (S (S (S (S (S (S (S (S (S (S (S (S (S (S (S
                       (S (S (S (S (S (S (S (S (S (S (S (S (S (S (S (S (S (S
                       (S (S (S (S (S (S (S (S (S (S (S (S (S (S (S (S (S (S
                       (S (S (S (S (S (S (S (S (S (S (S (S (S (S (S (S (S (S
                       (S (S (S (S (S (S (S (S (S (S (S (S (S (S (S (S (S (S
                       (S (S (S (S (S (S (S (S (S (S (S (S (S (S (S (S (S (S
                       (S (S (S (S (S (S (S (S (S (S (S (S (S (S (S (S (S (S
                       (S (S (S (S (S (S (S (S (S (S (S (S (S (S
                       O))))))))))))))))))))))))))))))))))))))))))))))))))))))))))))))))))))))))))))))))))))))))))))))))))))))))))))))))))))))))))))))))))))))))))))))))))))))))))))))))))))))))))))))))))))))))))))))))))))))))))))))))))))))))))))))))))))))))))))))))))))))))))))))))))))))))))))))))))))))))))))))))))))))))))))))))))))))))))))))))))))))))))))))))))))))))))))))))))))))))))))))))))))))))))))))))))))))))))))))))))))))))))))))))))))))))))))))))))))))))))))))))))))))))))))))))))))))))))))))))))))))))))))))))))))))))))))))))))))))))))))))))))))))))))))))))))))))))))))))))))))))))))))))))))))))))))))))
                | _ -> Ok l)
          else (match c with
                | AN ->
                  (match level_raise l (S (S O)) with
                   | Some x -> Ok x
                   | None ->
                     Panic (S (S (S (S (S (S (S (S (S (S (S (S (S (S (S (S (S
                       (S (S (S (S (S (S (S (S (S (S (S (S (S (S (S (S (S (S
                       (S (S (S (S (S (S (S (S (S (S (S (S (S (S (S (S (S (S
                       (S (S (S (S (S (S (S (S (S (S (S (S (S (S (S (S (S (S
                       (S (S (S (S (S (S (S (S (S (S (S (S (S (S (S (S (S (S
                       (S (S (S (S (S (S (S (S (S (S (S (S (S (S (S (S (S (S
                       (S (S (S (S (S (S (S (S (S (S (S (S (S (S (S (S (S (S
                       (S (S (S (S (S (S (S (S (S (S (S (S (S (S (S (S (S (S
                       (S (S (S (S (S (S (S (S (S (S (S (S (S (S (S (S (S (S
                       (S (S (S (S (S (S (S (S (S (S (S (S (S (S (S (S (S (S
                       (S (S (S (S (S (S (S (S (S (S (S (S (S (S (S (S (S (S
                       (S (S (S (S (S (S (S (S (S (S (S (S (S (S (S (S (S (S
                       (S (S (S (S (S (S (S (S (S (S (S (S (S (S (S (S (S (S
                       (S (S (S (S (S (S (S (S (S (S (S (S (S (S (S (S (S (S
                       (S (S (S (S (S (S (S (S (S (S (S (S (S (S (S (S (S (S
                       (S (S (S (S (S (S (S (S (S (S (S (S (S (S (S (S (S (S
                       (S (S (S (S (S (S (S (S (S (S (S (S (S (S (S (S (S (S
                       (S (S (S (S (S (S (S (S (S (S (S (S (S (S (S (S (S (S
                       (S (S (S (S (S (S (S (S (S (S (S (S (S (S (S (S (S (S
                       (S (S (S (S (S (S (S (S (S (S (S (S (S (S (S (S (S (S
                       (S (S (S (S (S (S (S (S (S (S (S (S (S (S (S (S (S (S
                       (S (S (S (S (S (S (S (S (S (S (S (S (S (S (S (S (S (S
                       (S (S (S (S (S (S (S (S (S (S (S (S (S (S (S (S (S (S
                       (S (S (S (S (S (S (S (S (S (S (S (S (S (S (S (S (S (S
                       (S (S (S (S (S (S (S (S (S (S (S (S (S (S (S (S (S (S
                       (S (S (S (S (S (S (S (S (S (S (S (S (S (S (S (S (S (S
                       (S (S (S (S (S (S (S (S (S (S (S (S (S (S (S (S (S (S
                       (S (S (S (S (S (S (S (S (S (S (S (S (S (S (S (S (S (S
                       (S (S (S (S (S (S (S (S (S (S (S (S (S (S (S (S (S (S
                       (S (S (S (S (S (S (S (S (S (S (S (S (S (S (S (S (S (S
                       (S (S (S (S (S (S (S (S (S (S (S (S (S (S (S (S (S (S
                       (S (S (S (S (S (S (S (S (S (S (S (S (S (S (S (S (S (S
                       (S (S (S (S (S (S (S (S (S (S (S (S
                       O))))))))))))))))))))))))))))))))))))))))))))))))))))))))))))))))))))))))))))))))))))))))))))))))))))))))))))))))))))))))))))))))))))))))))))))))))))))))))))))))))))))))))))))))))))))))))))))))))))))))))))))))))))))))))))))))))))))))))))))))))))))))))))))))))))))))))))))))))))))))))))))))))))))))))))))))))))))))))))))))))))))))))))))))))))))))))))))))))))))))))))))))))))))))))))))))))))))))))))))))))))))))))))))))))))))))))))))))))))))))))))))))))))))))))))))))))))))))))))))))))))))))))))))))))))))))))))))))))))))))))))))))))))))))))))))))))))))))))))))))))))))))))))))))))))))))))))
                | EN ->
                  (match level_raise l (S (S O)) with
                   | Some x -> Ok x
                   | None ->
                     Panic (S (S (S (S (S (S (S (S (S (S (S (S (S (S (S (S (S
                       (S (S (S (S (S (S (S (S (S (S (S (S (S (S (S (S (S (S
                       (S (S (S (S (S (S (S (S (S (S (S (S (S (S (S (S (S (S
                       (S (S (S (S (S (S (S (S (S (S (S (S (S (S (S (S (S (S
                       (S (S (S (S (S (S (S (S (S (S (S (S (S (S (S (S (S (S
                       (S (S (S (S (S (S (S (S (S (S (S (S (S (S (S (S (S (S
                       (S (S (S (S (S (S (S (S (S (S (S (S (S (S (S (S (S (S
                       (S (S (S (S (S (S (S (S (S (S (S (S (S (S (S (S (S (S
                       (S (S (S (S (S (S (S (S (S (S (S (S (S (S (S (S (S (S
                       (S (S (S (S (S (S (S (S (S (S (S (S (S (S (S (S (S (S
                       (S (S (S (S (S (S (S (S (S (S (S (S (S (S (S (S (S (S
                       (S (S (S (S (S (S (S (S (S (S (S (S (S (S (S (S (S (S
                       (S (S (S (S (S (S (S (S (S (S (S (S (S (S (S (S (S (S
                       (S (S (S (S (S (S (S (S (S (S (S (S (S (S (S (S (S (S
                       (S (S (S (S (S (S (S (S (S (S (S (S (S (S (S (S (S (S
                       (S (S (S (S (S (S (S (S (S (S (S (S (S (S (S (S (S (S
                       (S (S (S (S (S (S (S (S (S (S (S (S (S (S (S (S (S (S
                       (S (S (S (S (S (S (S (S (S (S (S (S (S (S (S (S (S (S
                       (S (S (S (S (S (S (S (S (S (S (S (S (S (S (S (S (S (S
                       (S (S (S (S (S (S (S (S (S (S (S (S (S (S (S (S (S (S
                       (S (S (S (S (S (S (S (S (S (S (S (S (S (S (S (S (S (S
                       (S (S (S (S (S (S (S (S (S (S (S (S (S (S (S (S (S (S
                       (S (S (S (S (S (S (S (S (S (S (S (S (S (S (S (S (S (S
                       (S (S (S (S (S (S (S (S (S (S (S (S (S (S (S (S (S (S
                       (S (S (S (S (S (S (S (S (S (S (S (S (S (S (S (S (S (S
                       (S (S (S (S (S (S (S (S (S (S (S (S (S (S (S (S (S (S
                       (S (S (S (S (S (S (S (S (S (S (S (S (S (S (S (S (S (S
                       (S (S (S (S (S (S (S (S (S (S (S (S (S (S (S (S (S (S
                       (S (S (S (S (S (S (S (S (S (S (S (S (S (S (S (S (S (S
                       (S (S (S (S (S (S (S (S (S (S (S (S (S (S (S (S (S (S
                       (S (S (S (S (S (S (S (S (S (S (S (S (S (S (S (S (S (S
                       (S (S (S (S (S (S (S (S (S (S (S (S (S (S (S (S (S (S
                       (S (S (S (S (S (S (S (S (S (S (S (S
                       O))))))))))))))))))))))))))))))))))))))))))))))))))))))))))))))))))))))))))))))))))))))))))))))))))))))))))))))))))))))))))))))))))))))))))))))))))))))))))))))))))))))))))))))))))))))))))))))))))))))))))))))))))))))))))))))))))))))))))))))))))))))))))))))))))))))))))))))))))))))))))))))))))))))))))))))))))))))))))))))))))))))))))))))))))))))))))))))))))))))))))))))))))))))))))))))))))))))))))))))))))))))))))))))))))))))))))))))))))))))))))))))))))))))))))))))))))))))))))))))))))))))))))))))))))))))))))))))))))))))))))))))))))))))))))))))))))))))))))))))))))))))))))))))))))))))))))))
                | R ->
                  (match level_raise l (S O) with
                   | Some x -> Ok x
                   | None ->
                     Panic (S (S (S (S (S (S (S (S (S (S (S (S (S (S (S (S (S
                       (S (S (S (S (S (S (S (S (S (S (S (S (S (S (S (S (S (S
                       (S (S (S (S (S (S (S (S (S (S (S (S (S (S (S (S (S (S
                       (S (S (S (S (S (S (S (S (S (S (S (S (S (S (S (S (S (S
                       (S (S (S (S (S (S (S (S (S (S (S (S (S (S (S (S (S (S
                       (S (S (S (S (S (S (S (S (S (S (S (S (S (S (S (S (S (S
                       (S (S (S (S (S (S (S (S (S (S (S (S (S (S (S (S (S (S
                       (S (S (S (S (S (S (S (S (S (S (S (S (S (S (S (S (S (S
                       (S (S (S (S (S (S (S (S (S (S (S (S (S (S (S (S (S (S
                       (S (S (S (S (S (S (S (S (S (S (S (S (S (S (S (S (S (S
                       (S (S (S (S (S (S (S (S (S (S (S (S (S (S (S (S (S (S
                       (S (S (S (S (S (S (S (S (S (S (S (S (S (S (S (S (S (S
                       (S (S (S (S (S (S (S (S (S (S (S (S (S (S (S (S (S (S
                       (S (S (S (S (S (S (S (S (S (S (S (S (S (S (S (S (S (S
                       (S (S (S (S (S (S (S (S (S (S (S (S (S (S (S (S (S (S
                       (S (S (S (S (S (S (S (S (S (S (S (S (S (S (S (S (S (S
                       (S (S (S (S (S (S (S (S (S (S (S (S (S (S (S (S (S (S
                       (S (S (S (S (S (S (S (S (S (S (S (S (S (S (S (S (S (S
                       (S (S (S (S (S (S (S (S (S (S (S (S (S (S (S (S (S (S
                       (S (S (S (S (S (S (S (S (S (S (S (S (S (S (S (S (S (S
                       (S (S (S (S (S (S (S (S (S (S (S (S (S (S (S (S (S (S
                       (S (S (S (S (S (S (S (S (S (S (S (S (S (S (S (S (S (S
                       (S (S (S (S (S (S (S (S (S (S (S (S (S (S (S (S (S (S
                       (S (S (S (S (S (S (S (S (S (S (S (S (S (S (S (S (S (S
                       (S (S (S (S (S (S (S (S (S (S (S (S (S (S (S (S (S (S
                       (S (S (S (S (S (S (S (S (S (S (S (S (S (S (S (S (S (S
                       (S (S (S (S (S (S (S (S (S (S (S (S (S (S (S (S (S (S
                       (S (S (S (S (S (S (S (S (S (S (S (S (S (S (S (S (S (S
                       (S (S (S (S (S (S (S (S (S (S (S (S (S (S (S (S (S (S
                       (S (S (S (S (S (S (S (S (S (S (S (S (S (S (S (S (S (S
                       (S (S (S (S (S (S (S (S (S (S (S (S (S (S (S (S (S (S
                       (S (S (S (S (S (S (S (S (S (S (S (S (S (S (S (S (S (S
                       (S (S (S (S (S (S (S (S (S (S (S (S (S (S
                       O))))))))))))))))))))))))))))))))))))))))))))))))))))))))))))))))))))))))))))))))))))))))))))))))))))))))))))))))))))))))))))))))))))))))))))))))))))))))))))))))))))))))))))))))))))))))))))))))))))))))))))))))))))))))))))))))))))))))))))))))))))))))))))))))))))))))))))))))))))))))))))))))))))))))))))))))))))))))))))))))))))))))))))))))))))))))))))))))))))))))))))))))))))))))))))))))))))))))))))))))))))))))))))))))))))))))))))))))))))))))))))))))))))))))))))))))))))))))))))))))))))))))))))))))))))))))))))))))))))))))))))))))))))))))))))))))))))))))))))))))))))))))))))))))))))))))))))))
                | _ -> Ok l)) (fun l' ->
         bind (resolve_levels pcs ls) (fun rest -> Ok (l' :: rest))))

(** val assign_removed_from :
    nat -> bclass list -> nat list -> nat list res **)

let rec assign_removed_from prev oc = function
| [] -> Ok []
| l :: ls ->
  (match oc with
   | [] ->
     Panic (S (S (S (S (S (S (S (S (S (S (S (S (S (S (S (S (S (S (S (S (S (S
       (S (S (S (S (S (S (S (S (S (S (S (S (S (S (S (S (S (S (S (S (S (S (S
       (S (S (S (S (S (S (S (S (S (S (S (S (S (S (S (S (S (S (S (S (S (S (S
       (S (S (S (S (S (S (S (S (S (S (S (S (S (S (S (S (S (S (S (S (S (S (S
       (S (S (S (S (S (S (S (S (S (S (S (S (S (S (S (S (S (S (S (S (S (S (S
       (S (S (S (S (S (S (S (S (S (S (S (S (S (S (S (S (S (S (S (S (S (S (S
       (S (S (S (S (S (S (S (S (S (S (S (S (S (S (S (S (S (S (S (S (S (S (S
       (S (S (S (S (S (S (S (S (S (S (S (S (S (S (S (S (S (S (S (S (S (S (S
       (S (S (S (S (S (S (S (S (S (S (S (S (S (S (S (S (S (S (S (S (S (S (S
       (S (S (S (S (S (S (S (S (S (S (S (S (S (S (S (S (S (S (S (S (S (S (S
       (S (S (S (S (S (S (S (S (S (S (S (S (S (S (S (S (S (S (S (S (S (S (S
       (S (S (S (S (S (S (S (S (S (S (S (S (S (S (S (S (S (S (S (S (S (S (S
       (S (S (S (S (S (S (S (S (S (S (S (S (S (S (S (S (S (S (S (S (S (S (S
       (S (S (S (S (S (S (S (S (S (S (S (S (S (S (S (S (S (S (S (S (S (S (S
       (S (S (S (S (S (S (S (S (S (S (S (S (S (S (S (S (S (S (S (S (S (S (S
       (S (S (S (S (S (S (S (S (S (S (S (S (S (S (S (S (S (S (S (S (S (S (S
       (S (S (S (S (S (S (S (S (S (S (S (S (S (S (S (S (S (S (S (S (S (S (S
       (S (S (S (S (S (S (S (S (S (S (S (S (S (S (S (S (S (S (S (S (S (S (S
       (S (S (S (S (S (S (S (S (S (S (S (S (S (S (S (S (S (S (S (S (S (S (S
       (S (S (S (S (S (S (S (S (S (S (S (S (S (S (S (S (S (S (S (S (S (S (S
       (S (S (S (S (S (S (S (S (S (S (S (S (S (S (S (S (S (S (S (S (S (S (S
       (S (S (S (S (S (S (S (S (S (S (S (S (S (S (S (S (S (S (S (S (S (S (S
       (S (S (S (S (S (S (S (S (S (S (S (S (S (S (S (S (S (S (S (S (S (S (S
       (S (S (S (S (S (S (S (S (S (S (S (S (S (S (S (S (S (S (S (S (S (S (S
       (S (S (S (S (S (S (S (S (S (S (S (S (S (S (S (S (S (S (S (S (S (S (S
       (S (S (S (S (S (S (S (S (S (S (S (S (S (S (S (S (S (S (S (S (S (S (S
       (S (S (S (S (S (S (S (S (S (S (S (S (S (S (S (S (S (S (S (S (S (S (S
       (S (S (S (S (S (S (S (S (S (S (S (S (S (S (S (S (S (S (S (S (S (S (S
       (S (S (S (S (S (S (S (S (S (S (S (S (S (S (S (S (S (S (S (S (S (S (S
       (S (S (S (S (S (S (S (S (S (S (S (S (S (S (S (S (S (S (S (S (S (S (S
       (S (S (S (S (S (S (S (S (S (S (S (S (S (S (S (S (S (S (S (S (S (S (S
       (S (S (S (S (S (S (S (S (S (S (S (S (S (S (S (S (S (S (S (S (S (S (S
       (S (S (S (S (S (S (S (S (S (S (S (S (S (S (S (S (S (S (S (S (S (S (S
       (S (S (S (S (S (S (S (S (S (S (S (S (S (S (S (S (S (S (S (S (S (S (S
       (S (S (S (S (S (S (S (S (S (S (S (S (S (S (S (S (S (S (S (S (S (S (S
       (S (S (S (S (S (S (S (S (S (S (S (S (S (S (S (S (S (S (S (S (S (S (S
       (S (S (S (S (S (S (S (S (S (S (S (S (S (S (S (S (S (S (S (S (S (S (S
       (S (S (S (S (S (S (S (S (S (S (S (S (S (S (S (S (S (S (S (S (S (S (S
       (S (S (S (S (S (S (S (S (S (S (S (S (S (S (S (S (S (S (S (S (S (S (S
       (S (S (S (S (S (S (S (S (S (S (S (S (S (S (S (S (S (S (S (S (S (S (S
       (S (S (S (S (S (S (S (S (S (S (S (S (S (S (S (S (S (S (S (S (S (S (S
       (S (S (S (S (S (S (S (S (S (S (S (S (S (S (S (S (S (S (S (S (S (S (S
       (S (S (S (S (S (S (S (S (S (S (S (S (S (S (S (S (S (S (S (S (S (S (S
       (S (S (S (S (S (S (S (S (S (S (S (S (S (S (S (S (S (S (S (S (S (S (S
       (S (S (S (S (S (S (S (S (S (S (S (S (S (S (S (S (S (S (S (S (S (S (S
       (S (S (S (S (S (S (S (S (S (S (S (S (S (S (S (S (S (S (S (S (S (S (S
       (S (S (S (S (S (S (S (S (S (S (S (S (S (S (S (S (S (S (S (S (S (S (S
       (S (S (S (S (S (S (S (S (S (S (S (S (S (S (S (S (S (S (S (S (S (S (S
       (S (S (S (S (S (S (S (S (S (S (S (S (S (S (S (S (S (S (S (S (S (S (S
       (S (S (S (S (S (S (S (S (S (S (S (S (S (S (S (S (S (S (S (S (S (S (S
       (S (S (S (S (S (S (S (S (S (S (S (S (S (S (S (S (S (S (S (S (S (S (S
       (S (S (S (S (S (S (S (S (S (S (S (S (S (S (S (S (S (S (S (S (S (S (S
       (S (S (S (S (S (S (S (S (S (S (S (S (S (S (S (S (S (S (S (S (S (S (S
       (S (S (S (S (S (S (S (S (S (S (S (S (S (S (S (S (S (S (S (S (S (S (S
       (S (S (S (S (S (S (S (S (S (S (S (S (S (S (S (S (S (S (S (S (S (S (S
       (S (S
       O))))))))))))))))))))))))))))))))))))))))))))))))))))))))))))))))))))))))))))))))))))))))))))))))))))))))))))))))))))))))))))))))))))))))))))))))))))))))))))))))))))))))))))))))))))))))))))))))))))))))))))))))))))))))))))))))))))))))))))))))))))))))))))))))))))))))))))))))))))))))))))))))))))))))))))))))))))))))))))))))))))))))))))))))))))))))))))))))))))))))))))))))))))))))))))))))))))))))))))))))))))))))))))))))))))))))))))))))))))))))))))))))))))))))))))))))))))))))))))))))))))))))))))))))))))))))))))))))))))))))))))))))))))))))))))))))))))))))))))))))))))))))))))))))))))))))))))))))))))))))))))))))))))))))))))))))))))))))))))))))))))))))))))))))))))))))))))))))))))))))))))))))))))))))))))))))))))))))))))))))))))))))))))))))))))))))))))))))))))))))))))))))))))))))))))))))))))))))))))))))))))))))))))))))))))))))))))))))))))))))))))))))))))))))))))))))))))))))))))))))))))))))))))))))))))))))))))))))))))))))))))))))))))))))))))))))))))))))))))))))))))))))))))))))))))))))))))))))))))))))))))))))))))))))))))))))))))))))))))))))))))))))))))))))))))))))))))))))))))))))))))))))))))))))))))))))))))))))))))))))))))))))))))))))))))))))))))))))))))))))))))))))))))))))))))))))))))))))))))))))))))))))))))))))))))))))))))))))))))))))))))))))))))))))))))))))))
   | c :: cs ->
     let l' = if removed_by_x9 c then prev else l in
     bind (assign_removed_from l' cs ls) (fun rest -> Ok (l' :: rest)))

(** val assign_levels_to_removed_chars :
    nat -> bclass list -> nat list -> nat list res **)

let assign_levels_to_removed_chars =
  assign_removed_from

(** val resolve_sequences :
    enc -> datasource -> bool -> n list -> nat list -> bclass list -> bclass
    list -> irs list -> bclass list res **)

let rec resolve_sequences e ds legacy text levels oc pc = function
| [] -> Ok pc
| sq :: rest ->
  bind (resolve_weak e text sq pc) (fun pc1 ->
    bind (resolve_neutral_gen e ds legacy text sq levels oc pc1) (fun pc2 ->
      resolve_sequences e ds legacy text levels oc pc2 rest))

(** val compute_bidi_info_for_para_gen :
    enc -> datasource -> bool -> nat -> bool -> bool -> n list -> bclass list
    -> nat list res **)

let compute_bidi_info_for_para_gen e ds legacy para_level0 is_pure_ltr has_iso text oc =
  let levels0 = repeat para_level0 (length oc) in
  if (&&) (Nat.eqb para_level0 O) is_pure_ltr
  then Ok levels0
  else bind (explicit_compute e text para_level0 oc levels0 oc) (fun x ->
         let (p, runs) = x in
         let (levels, pc) = p in
         bind (isolating_run_sequences para_level0 oc levels runs has_iso)
           (fun seqs ->
           bind (resolve_sequences e ds legacy text levels oc pc seqs)
             (fun pc0 ->
             bind (resolve_levels pc0 levels) (fun levels1 ->
               assign_levels_to_removed_chars para_level0 oc levels1))))

type bidi_info = { bi_classes : bclass list; bi_levels : nat list;
                   bi_paras : para_info list }

(** val bidi_paras :
    enc -> datasource -> bool -> n list -> bclass list -> para_info list ->
    para_flags list -> nat list -> nat list res **)

let rec bidi_paras e ds legacy text classes paras flags levels =
  match paras with
  | [] -> Ok levels
  | p :: ps ->
    (match flags with
     | [] -> Ok levels
     | f :: fs ->
       bind
         (if Nat.eqb (length levels) p.p_start
          then Ok ()
          else Panic (S (S (S (S (S (S (S (S (S (S (S (S (S (S (S (S (S (S (S
                 (S (S (S (S (S (S (S (S (S (S (S (S (S (S (S (S (S (S (S (S
                 (S (S (S (S (S (S (S (S (S (S (S (S (S (S (S (S (S (S (S (S
                 (S (S (S (S (S (S (S (S (S (S (S (S (S (S (S (S (S (S (S (S
                 (S (S (S (S (S (S (S (S (S (S (S (S (S (S (S (S (S (S (S (S
                 (S (S (S (S (S (S (S (S (S (S (S (S (S (S (S (S (S (S (S (S
                 (S (S (S (S (S (S (S (S (S (S (S (S (S (S (S (S (S (S (S (S
                 (S (S (S (S (S (S (S (S (S (S (S (S (S (S (S (S (S (S (S (S
                 (S (S (S (S (S (S (S (S (S (S (S (S (S (S (S (S (S (S (S (S
                 (S (S (S (S (S (S (S (S (S (S (S (S (S (S (S (S (S (S (S (S
                 (S (S (S (S (S (S (S (S (S (S (S (S (S (S (S (S (S (S (S (S
                 (S (S (S (S (S (S (S (S (S (S (S (S (S (S (S (S (S (S (S (S
                 (S (S (S (S (S (S (S (S (S (S (S (S (S (S (S (S (S (S (S (S
                 (S (S (S (S (S (S (S (S (S (S (S (S (S (S (S (S (S (S (S (S
                 (S (S (S (S (S (S (S (S (S (S (S (S (S (S (S (S (S (S (S (S
                 (S (S (S (S (S (S (S (S (S (S (S (S (S (S (S (S (S (S (S (S
                 (S (S (S (S (S (S (S (S (S (S (S (S (S (S (S (S (S (S (S (S
                 (S (S (S (S (S (S (S (S (S (S (S (S (S (S (S (S (S (S (S (S
                 (S (S (S (S (S (S (S (S (S (S (S (S (S (S (S (S (S (S (S (S
                 (S (S (S (S (S (S (S (S (S (S (S (S (S (S (S (S (S (S (S (S
                 (S (S (S (S (S (S (S (S (S (S (S (S (S (S (S (S (S (S (S (S
                 (S (S (S (S (S (S (S (S (S (S (S (S (S (S (S (S (S (S (S (S
                 (S (S (S (S (S (S (S (S (S (S (S (S (S (S (S (S (S (S (S (S
                 (S (S (S (S (S (S (S (S (S (S (S (S (S (S (S (S (S (S (S (S
                 (S (S (S (S (S (S (S (S (S (S (S (S (S (S (S (S (S (S (S (S
                 (S (S (S (S (S (S (S (S (S (S (S (S (S (S (S (S (S (S (S (S
                 (S (S (S (S (S (S (S (S (S (S (S (S (S (S (S (S (S (S (S (S
                 (S (S (S (S (S (S (S (S (S (S (S (S (S (S (S (S (S (S (S (S
                 (S (S (S (S (S (S (S (S (S (S (S (S (S (S (S (S (S (S (S (S
                 (S (S (S (S (S (S (S (S (S (S (S (S (S (S (S (S (S (S (S (S
                 (S (S (S (S (S (S (S (S (S (S (S (S (S (S (S (S (S (S (S (S
                 (S (S (S (S (S (S (S (S (S (S (S (S (S (S (S (S (S (S (S (S
                 (S (S (S (S (S (S (S (S (S (S (S (S (S (S (S (S (S (S (S (S
                 (S (S (S (S (S (S (S (S (S (S (S (S (S (S (S (S (S (S (S (S
                 (S (S (S (S (S (S (S (S (S (S (S (S (S (S (S (S (S (S (S (S
                 (S (S (S (S (S (S (S (S (S (S (S (S (S (S (S (S (S (S (S (S
                 (S (S (S (S (S (S (S (S (S (S (S (S (S (S (S (S (S (S (S (S
                 (S (S (S (S (S (S (S (S (S (S (S (S (S (S (S (S (S (S (S (S
                 (S (S (S (S (S (S (S (S (S (S (S (S (S (S (S (S (S (S (S (S
                 (S (S (S (S (S (S (S (S (S (S (S (S (S (S (S (S (S (S (S (S
                 (S (S (S (S (S (S (S (S (S (S (S (S (S (S (S (S (S (S (S (S
                 (S (S (S (S (S (S (S (S (S (S (S (S (S (S (S (S (S (S (S (S
                 (S (S (S (S (S (S (S (S (S (S (S (S (S (S (S (S (S (S (S (S
                 (S (S (S (S (S (S (S (S (S (S (S (S (S (S (S (S (S (S (S (S
                 (S (S (S (S (S (S (S (S (S (S (S (S (S (S (S (S (S (S (S (S
                 (S (S (S (S (S (S (S (S (S (S (S (S (S (S (S (S (S (S (S (S
                 (S (S (S (S (S (S (S (S (S (S (S (S (S (S (S (S (S (S (S (S
                 (S (S (S (S (S (S (S (S (S (S (S (S (S (S (S (S (S (S (S (S
                 (S (S (S (S (S (S (S (S (S (S (S (S (S (S (S (S (S (S (S (S
                 (S (S (S (S (S (S (S (S (S (S (S (S (S (S (S (S (S (S (S (S
                 (S (S (S (S (S (S (S (S (S (S (S (S (S (S (S (S (S (S (S (S
                 (S (S (S (S (S (S (S (S (S (S (S (S (S (S (S (S (S (S (S (S
                 (S (S (S (S (S (S (S (S (S (S (S (S (S (S (S (S (S (S (S (S
                 (S (S (S (S (S (S (S (S (S (S (S (S (S (S (S (S (S (S (S (S
                 (S (S (S (S (S (S (S (S (S (S (S (S (S (S (S (S (S (S (S (S
                 (S (S
                 O))))))))))))))))))))))))))))))))))))))))))))))))))))))))))))))))))))))))))))))))))))))))))))))))))))))))))))))))))))))))))))))))))))))))))))))))))))))))))))))))))))))))))))))))))))))))))))))))))))))))))))))))))))))))))))))))))))))))))))))))))))))))))))))))))))))))))))))))))))))))))))))))))))))))))))))))))))))))))))))))))))))))))))))))))))))))))))))))))))))))))))))))))))))))))))))))))))))))))))))))))))))))))))))))))))))))))))))))))))))))))))))))))))))))))))))))))))))))))))))))))))))))))))))))))))))))))))))))))))))))))))))))))))))))))))))))))))))))))))))))))))))))))))))))))))))))))))))))))))))))))))))))))))))))))))))))))))))))))))))))))))))))))))))))))))))))))))))))))))))))))))))))))))))))))))))))))))))))))))))))))))))))))))))))))))))))))))))))))))))))))))))))))))))))))))))))))))))))))))))))))))))))))))))))))))))))))))))))))))))))))))))))))))))))))))))))))))))))))))))))))))))))))))))))))))))))))))))))))))))))))))))))))))))))))))))))))))))))))))))))))))))))))))))))))))))))))))))))))))))))))))))))))))))))))))))))))))))))))))))))))))))))))))))))))))))))))))))))))))))))))))))))))))))))))))))
         (fun _ ->
         bind
           (t_subrange (S (S (S (S (S (S (S (S (S (S (S (S (S (S (S (S (S (S
             (S (S (S (S (S (S (S (S (S (S (S (S (S (S (S (S (S (S (S (S (S
             (S (S (S (S (S (S (S (S (S (S (S (S (S (S (S (S (S (S (S (S (S
             (S (S (S (S (S (S (S (S (S (S (S (S (S (S (S (S (S (S (S (S (S
             (S (S (S (S (S (S (S (S (S (S (S (S (S (S (S (S (S (S (S (S (S
             (S (S (S (S (S (S (S (S (S (S (S (S (S (S (S (S (S (S (S (S (S
             (S (S (S (S (S (S (S (S (S (S (S (S (S (S (S (S (S (S (S (S (S
             (S (S (S (S (S (S (S (S (S (S (S (S (S (S (S (S (S (S (S (S (S
             (S (S (S (S (S (S (S (S (S (S (S (S (S (S (S (S (S (S (S (S (S
             (S (S (S (S (S (S (S (S (S (S (S (S (S (S (S (S (S (S (S (S (S
             (S (S (S (S (S (S (S (S (S (S (S (S (S (S (S (S (S (S (S (S (S
             (S (S (S (S (S (S (S (S (S (S (S (S (S (S (S (S (S (S (S (S (S
             (S (S (S (S (S (S (S (S (S (S (S (S (S (S (S (S (S (S (S (S (S
             (S (S (S (S (S (S (S (S (S (S (S (S (S (S (S (S (S (S (S (S (S
             (S (S (S (S (S (S (S (S (S (S (S (S (S (S (S (S (S (S (S (S (S
             (S (S (S (S (S (S (S (S (S (S (S (S (S (S (S (S (S (S (S (S (S
             (S (S (S (S (S (S (S (S (S (S (S (S (S (S (S (S (S (S (S (S (S
             (S (S (S (S (S (S (S (S (S (S (S (S (S (S (S (S (S (S (S (S (S
             (S (S (S (S (S (S (S (S (S (S (S (S (S (S (S (S (S (S (S (S (S
             (S (S (S (S (S (S (S (S (S (S (S (S (S (S (S (S (S (S (S (S (S
             (S (S (S (S (S (S (S (S (S (S (S (S (S (S (S (S (S (S (S (S (S
             (S (S (S (S (S (S (S (S (S (S (S (S (S (S (S (S (S (S (S (S (S
             (S (S (S (S (S (S (S (S (S (S (S (S (S (S (S (S (S (S (S (S (S
             (S (S (S (S (S (S (S (S (S (S (S (S (S (S (S (S (S (S (S (S (S
             (S (S (S (S (S (S (S (S
             O)))))))))))))))))))))))))))))))))))))))))))))))))))))))))))))))))))))))))))))))))))))))))))))))))))))))))))))))))))))))))))))))))))))))))))))))))))))))))))))))))))))))))))))))))))))))))))))))))))))))))))))))))))))))))))))))))))))))))))))))))))))))))))))))))))))))))))))))))))))))))))))))))))))))))))))))))))))))))))))))))))))))))))))))))))))))))))))))))))))))))))))))))))))))))))))))))))))))))))))))))))))))))))))))))))))))))))))))))))))))))))))))))))))))))))))))))))))))))))))))))))))))))))))))))))))))))))))
             e text p.p_start p.p_end) (fun ptext ->
           bind
             (slice (S (S (S (S (S (S (S (S (S (S (S (S (S (S (S (S (S (S (S
               (S (S (S (S (S (S (S (S (S (S (S (S (S (S (S (S (S (S (S (S (S
               (S (S (S (S (S (S (S (S (S (S (S (S (S (S (S (S (S (S (S (S (S
               (S (S (S (S (S (S (S (S (S (S (S (S (S (S (S (S (S (S (S (S (S
               (S (S (S (S (S (S (S (S (S (S (S (S (S (S (S (S (S (S (S (S (S
               (S (S (S (S (S (S (S (S (S (S (S (S (S (S (S (S (S (S (S (S (S
               (S (S (S (S (S (S (S (S (S (S (S (S (S (S (S (S (S (S (S (S (S
               (S (S (S (S (S (S (S (S (S (S (S (S (S (S (S (S (S (S (S (S (S
               (S (S (S (S (S (S (S (S (S (S (S (S (S (S (S (S (S (S (S (S (S
               (S (S (S (S (S (S (S (S (S (S (S (S (S (S (S (S (S (S (S (S (S
               (S (S (S (S (S (S (S (S (S (S (S (S (S (S (S (S (S (S (S (S (S
               (S (S (S (S (S (S (S (S (S (S (S (S (S (S (S (S (S (S (S (S (S
               (S (S (S (S (S (S (S (S (S (S (S (S (S (S (S (S (S (S (S (S (S
               (S (S (S (S (S (S (S (S (S (S (S (S (S (S (S (S (S (S (S (S (S
               (S (S (S (S (S (S (S (S (S (S (S (S (S (S (S (S (S (S (S (S (S
               (S (S (S (S (S (S (S (S (S (S (S (S (S (S (S (S (S (S (S (S (S
               (S (S (S (S (S (S (S (S (S (S (S (S (S (S (S (S (S (S (S (S (S
               (S (S (S (S (S (S (S (S (S (S (S (S (S (S (S (S (S (S (S (S (S
               (S (S (S (S (S (S (S (S (S (S (S (S (S (S (S (S (S (S (S (S (S
               (S (S (S (S (S (S (S (S (S (S (S (S (S (S (S (S (S (S (S (S (S
               (S (S (S (S (S (S (S (S (S (S (S (S (S (S (S (S (S (S (S (S (S
               (S (S (S (S (S (S (S (S (S (S (S (S (S (S (S (S (S (S (S (S (S
               (S (S (S (S (S (S (S (S (S (S (S (S (S (S (S (S (S (S (S (S (S
               (S (S (S (S (S (S (S (S (S (S (S (S (S (S (S (S (S (S (S (S (S
               (S (S (S (S (S (S (S (S
               O))))))))))))))))))))))))))))))))))))))))))))))))))))))))))))))))))))))))))))))))))))))))))))))))))))))))))))))))))))))))))))))))))))))))))))))))))))))))))))))))))))))))))))))))))))))))))))))))))))))))))))))))))))))))))))))))))))))))))))))))))))))))))))))))))))))))))))))))))))))))))))))))))))))))))))))))))))))))))))))))))))))))))))))))))))))))))))))))))))))))))))))))))))))))))))))))))))))))))))))))))))))))))))))))))))))))))))))))))))))))))))))))))))))))))))))))))))))))))))))))))))))))))))))))))))))))))))))
               classes p.p_start p.p_end) (fun poc ->
             bind
               (compute_bidi_info_for_para_gen e ds legacy p.p_level
                 f.f_pure_ltr f.f_has_isolate ptext poc) (fun pl ->
               bidi_paras e ds legacy text classes ps fs (app levels pl))))))

(** val bidi_info_new_gen :
    enc -> datasource -> bool -> n list -> nat option -> bidi_info res **)

let bidi_info_new_gen e ds legacy text default_level =
  bind (compute_initial_info e ds text default_level true) (fun ii ->
    bind
      (bidi_paras e ds legacy text ii.in_classes ii.in_paras ii.in_flags [])
      (fun levels -> Ok { bi_classes = ii.in_classes; bi_levels = levels;
      bi_paras = ii.in_paras }))

(** val bidi_info_new :
    enc -> datasource -> n list -> nat option -> bidi_info res **)

let bidi_info_new e ds =
  bidi_info_new_gen e ds false

type para_bidi_info = { pb_classes : bclass list; pb_levels : nat list;
                        pb_level : nat; pb_pure : bool }

(** val para_bidi_info_new_gen :
    enc -> datasource -> bool -> n list -> nat option -> para_bidi_info res **)

let para_bidi_info_new_gen e ds legacy text default_level =
  bind (compute_initial_info e ds text default_level false) (fun ii ->
    bind
      (compute_bidi_info_for_para_gen e ds legacy ii.in_level ii.in_pure
        ii.in_iso text ii.in_classes) (fun levels -> Ok { pb_classes =
      ii.in_classes; pb_levels = levels; pb_level = ii.in_level; pb_pure =
      ii.in_pure }))

(** val para_bidi_info_new :
    enc -> datasource -> n list -> nat option -> para_bidi_info res **)

let para_bidi_info_new e ds =
  para_bidi_info_new_gen e ds false

type l1_state = { l1_from : nat option; l1_prev : nat; l1_levels : nat list }

(** val l1_step :
    enc -> bool -> bclass list -> nat -> l1_state -> (nat * n) -> l1_state res **)

let l1_step e legacy line_classes para_level0 st = function
| (i, c) ->
  bind
    (get (S (S (S (S (S (S (S (S (S (S (S (S (S (S (S (S (S (S (S (S (S (S (S
      (S (S (S (S (S (S (S (S (S (S (S (S (S (S (S (S (S (S (S (S (S (S (S (S
      (S (S (S (S (S (S (S (S (S (S (S (S (S (S (S (S (S (S (S (S (S (S (S (S
      (S (S (S (S (S (S (S (S (S (S (S (S (S (S (S (S (S (S (S (S (S (S (S (S
      (S (S (S (S (S (S (S (S (S (S (S (S (S (S (S (S (S (S (S (S (S (S (S (S
      (S (S (S (S (S (S (S (S (S (S (S (S (S (S (S (S (S (S (S (S (S (S (S (S
      (S (S (S (S (S (S (S (S (S (S (S (S (S (S (S (S (S (S (S (S (S (S (S (S
      (S (S (S (S (S (S (S (S (S (S (S (S (S (S (S (S (S (S (S (S (S (S (S (S
      (S (S (S (S (S (S (S (S (S (S (S (S (S (S (S (S (S (S (S (S (S (S (S (S
      (S (S (S (S (S (S (S (S (S (S (S (S (S (S (S (S (S (S (S (S (S (S (S (S
      (S (S (S (S (S (S (S (S (S (S (S (S (S (S (S (S (S (S (S (S (S (S (S (S
      (S (S (S (S (S (S (S (S (S (S (S (S (S (S (S (S (S (S (S (S (S (S (S (S
      (S (S (S (S (S (S (S (S (S (S (S (S (S (S (S (S (S (S (S (S (S (S (S (S
      (S (S (S (S (S (S (S (S (S (S (S (S (S (S (S (S (S (S (S (S (S (S (S (S
      (S (S (S (S (S (S (S (S (S (S (S (S (S (S (S (S (S (S (S (S (S (S (S (S
      (S (S (S (S (S (S (S (S (S (S (S (S (S (S (S (S (S (S (S (S (S (S (S (S
      (S (S (S (S (S (S (S (S (S (S (S (S (S (S (S (S (S (S (S (S (S (S (S (S
      (S (S (S (S (S (S (S (S (S (S (S (S (S (S (S (S (S (S (S (S (S (S (S (S
      (S (S (S (S (S (S (S (S (S (S (S (S (S (S (S (S (S (S (S (S (S (S (S (S
      (S (S (S (S (S (S (S (S (S (S (S (S (S (S (S (S (S (S (S (S (S (S (S (S
      (S (S (S (S (S (S (S (S (S (S (S (S (S (S (S (S (S (S (S (S (S (S (S (S
      (S (S (S (S (S (S (S (S (S (S (S (S (S (S (S (S (S (S (S (S (S (S (S (S
      (S (S (S (S (S (S (S (S (S (S (S (S (S (S (S (S (S (S (S (S (S (S (S (S
      (S (S (S (S (S (S (S (S (S (S (S (S (S (S (S (S (S (S (S (S (S (S (S (S
      (S (S (S (S (S (S (S (S (S (S (S (S (S (S (S (S (S (S (S (S (S (S (S (S
      (S (S (S (S (S (S (S (S (S (S (S (S (S (S (S (S (S (S (S (S (S (S (S (S
      (S (S (S (S (S (S (S (S (S (S (S (S (S (S (S (S (S (S (S (S (S (S (S (S
      (S (S (S (S (S (S (S (S (S (S (S (S (S (S (S (S (S (S (S (S (S (S (S (S
      (S (S (S (S (S (S (S (S (S (S (S (S (S (S (S (S (S (S (S (S (S (S (S (S
      (S (S (S (S (S (S (S (S (S (S (S (S (S (S (S (S (S (S (S (S (S (S (S (S
      (S (S (S (S (S (S (S (S (S (S (S (S (S (S (S (S (S (S (S (S (S (S (S (S
      (S (S (S (S (S (S (S (S (S (S (S (S (S (S (S (S (S (S (S (S (S (S (S (S
      (S (S (S (S (S (S (S (S (S (S (S (S (S (S (S (S (S (S (S (S (S (S (S (S
      (S (S (S (S (S (S (S (S (S (S (S (S (S (S (S (S (S (S (S (S (S (S (S (S
      (S (S (S (S (S (S (S (S (S (S (S (S (S (S (S (S (S (S (S (S (S (S (S (S
      (S (S (S (S (S (S (S (S (S (S (S (S (S (S (S (S (S (S (S (S (S (S (S (S
      (S (S (S (S (S (S (S (S (S (S (S (S (S (S (S (S (S (S (S (S (S (S (S (S
      (S (S (S (S (S (S (S (S (S (S (S (S (S (S (S (S (S (S (S (S (S (S (S (S
      (S (S (S (S (S (S (S (S (S (S (S (S (S (S (S (S (S (S (S (S (S (S (S (S
      (S (S (S (S (S (S (S (S (S (S (S (S (S (S (S (S (S (S (S (S (S (S (S (S
      (S (S (S (S (S (S (S (S (S (S (S (S (S (S (S (S (S (S (S (S (S (S (S (S
      (S (S (S (S (S (S (S (S (S (S (S (S (S (S (S (S (S (S (S (S (S (S (S (S
      (S (S (S (S (S (S (S (S (S (S (S (S (S (S (S (S (S (S (S (S (S (S (S (S
      (S (S (S (S (S (S (S (S (S (S (S (S (S (S (S (S (S (S (S (S (S (S (S (S
      (S (S (S (S (S (S (S (S (S (S (S (S (S (S (S (S (S (S (S (S (S (S (S (S
      (S (S (S (S (S (S (S (S (S (S (S (S (S (S (S (S (S (S (S (S (S (S (S (S
      (S (S (S (S (S (S (S (S (S (S (S (S (S (S (S (S (S (S (S (S (S (S (S (S
      (S (S (S (S (S (S (S (S (S (S (S (S (S (S (S (S (S (S (S (S (S (S (S (S
      (S (S (S (S (S (S (S
      O))))))))))))))))))))))))))))))))))))))))))))))))))))))))))))))))))))))))))))))))))))))))))))))))))))))))))))))))))))))))))))))))))))))))))))))))))))))))))))))))))))))))))))))))))))))))))))))))))))))))))))))))))))))))))))))))))))))))))))))))))))))))))))))))))))))))))))))))))))))))))))))))))))))))))))))))))))))))))))))))))))))))))))))))))))))))))))))))))))))))))))))))))))))))))))))))))))))))))))))))))))))))))))))))))))))))))))))))))))))))))))))))))))))))))))))))))))))))))))))))))))))))))))))))))))))))))))))))))))))))))))))))))))))))))))))))))))))))))))))))))))))))))))))))))))))))))))))))))))))))))))))))))))))))))))))))))))))))))))))))))))))))))))))))))))))))))))))))))))))))))))))))))))))))))))))))))))))))))))))))))))))))))))))))))))))))))))))))))))))))))))))))))))))))))))))))))))))))))))))))))))))))))))))))))))))))))))))))))))))))))))))))))))))))))))))))))))))))))))))))))))))))))))))))))))))))))))))))))))))))))))))))))))))))))))))))))))))))))))))))))))))))))))))))))))))))))))))))))))))))))))))))))))))))))))))))))))))))))))))))))))))))))))))))))))))))))))))))))))))))))))))))))))))))))))))))))))))))))))))))))))))))))))))))))))))))))))))))))))))
      line_classes i) (fun k ->
    let from_or_i = match st.l1_from with
                    | Some f -> Some f
                    | None -> Some i in
    bind
      (match k with
       | B -> Ok ((from_or_i, (Some (add i (char_len e c)))), st.l1_levels)
       | BN ->
         bind
           (if legacy
            then upd (S (S (S (S (S (S (S (S (S (S (S (S (S (S (S (S (S (S (S
                   (S (S (S (S (S (S (S (S (S (S (S (S (S (S (S (S (S (S (S
                   (S (S (S (S (S (S (S (S (S (S (S (S (S (S (S (S (S (S (S
                   (S (S (S (S (S (S (S (S (S (S (S (S (S (S (S (S (S (S (S
                   (S (S (S (S (S (S (S (S (S (S (S (S (S (S (S (S (S (S (S
                   (S (S (S (S (S (S (S (S (S (S (S (S (S (S (S (S (S (S (S
                   (S (S (S (S (S (S (S (S (S (S (S (S (S (S (S (S (S (S (S
                   (S (S (S (S (S (S (S (S (S (S (S (S (S (S (S (S (S (S (S
                   (S (S (S (S (S (S (S (S (S (S (S (S (S (S (S (S (S (S (S
                   (S (S (S (S (S (S (S (S (S (S (S (S (S (S (S (S (S (S (S
                   (S (S (S (S (S (S (S (S (S (S (S (S (S (S (S (S (S (S (S
                   (S (S (S (S (S (S (S (S (S (S (S (S (S (S (S (S (S (S (S
                   (S (S (S (S (S (S (S (S (S (S (S (S (S (S (S (S (S (S (S
                   (S (S (S (S (S (S (S (S (S (S (S (S (S (S (S (S (S (S (S
                   (S (S (S (S (S (S (S (S (S (S (S (S (S (S (S (S (S (S (S
                   (S (S (S (S (S (S (S (S (S (S (S (S (S (S (S (S (S (S (S
                   (S (S (S (S (S (S (S (S (S (S (S (S (S (S (S (S (S (S (S
                   (S (S (S (S (S (S (S (S (S (S (S (S (S (S (S (S (S (S (S
                   (S (S (S (S (S (S (S (S (S (S (S (S (S (S (S (S (S (S (S
                   (S (S (S (S (S (S (S (S (S (S (S (S (S (S (S (S (S (S (S
                   (S (S (S (S (S (S (S (S (S (S (S (S (S (S (S (S (S (S (S
                   (S (S (S (S (S (S (S (S (S (S (S (S (S (S (S (S (S (S (S
                   (S (S (S (S (S (S (S (S (S (S (S (S (S (S (S (S (S (S (S
                   (S (S (S (S (S (S (S (S (S (S (S (S (S (S (S (S (S (S (S
                   (S (S (S (S (S (S (S (S (S (S (S (S (S (S (S (S (S (S (S
                   (S (S (S (S (S (S (S (S (S (S (S (S (S (S (S (S (S (S (S
                   (S (S (S (S (S (S (S (S (S (S (S (S (S (S (S (S (S (S (S
                   (S (S (S (S (S (S (S (S (S (S (S (S (S (S (S (S (S (S (S
                   (S (S (S (S (S (S (S (S (S (S (S (S (S (S (S (S (S (S (S
                   (S (S (S (S (S (S (S (S (S (S (S (S (S (S (S (S (S (S (S
                   (S (S (S (S (S (S (S (S (S (S (S (S (S (S (S (S (S (S (S
                   (S (S (S (S (S (S (S (S (S (S (S (S (S (S (S (S (S (S (S
                   (S (S (S (S (S (S (S (S (S (S (S (S (S (S (S (S (S (S (S
                   (S (S (S (S (S (S (S (S (S (S (S (S (S (S (S (S (S (S (S
                   (S (S (S (S (S (S (S (S (S (S (S (S (S (S (S (S (S (S (S
                   (S (S (S (S (S (S (S (S (S (S (S (S (S (S (S (S (S (S (S
                   (S (S (S (S (S (S (S (S (S (S (S (S (S (S (S (S (S (S (S
                   (S (S (S (S (S (S (S (S (S (S (S (S (S (S (S (S (S (S (S
                   (S (S (S (S (S (S (S (S (S (S (S (S (S (S (S (S (S (S (S
                   (S (S (S (S (S (S (S (S (S (S (S (S (S (S (S (S (S (S (S
                   (S (S (S (S (S (S (S (S (S (S (S (S (S (S (S (S (S (S (S
                   (S (S (S (S (S (S (S (S (S (S (S (S (S (S (S (S (S (S (S
                   (S (S (S (S (S (S (S (S (S (S (S (S (S (S (S (S (S (S (S
                   (S (S (S (S (S (S (S (S (S (S (S (S (S (S (S (S (S (S (S
                   (S (S (S (S (S (S (S (S (S (S (S (S (S (S (S (S (S (S (S
                   (S (S (S (S (S (S (S (S (S (S (S (S (S (S (S (S (S (S (S
                   (S (S (S (S (S (S (S (S (S (S (S (S (S (S (S (S (S (S (S
                   (S (S (S (S (S (S (S (S (S (S (S (S (S (S (S (S (S (S (S
                   (S (S (S (S (S (S (S (S (S (S (S (S (S (S (S (S (S (S (S
                   (S (S (S (S (S (S (S (S (S (S (S (S (S (S (S (S (S (S (S
                   (S (S (S (S (S (S (S (S (S (S (S (S (S (S (S (S (S (S (S
                   (S (S (S (S (S (S (S (S (S (S (S (S (S (S (S (S (S (S (S
                   (S (S (S (S (S (S (S (S (S (S (S (S (S (S (S (S (S (S (S
                   (S (S (S (S (S (S (S (S (S (S (S (S (S (S (S (S (S (S (S
                   (S (S (S (S (S (S (S (S (S (S (S (S (S (S (S (S (S (S (S
                   (S (S (S (S (S (S (S (S (S (S (S (S (S (S (S (S (S (S (S
                   (S (S (S (S (S (S (S (S (S (S (S (S (S (S (S (S (S (S (S
                   (S (S (S (S (S (S (S (S (S (S (S (S (S (S (S (S (S (S (S
                   (S (S (S (S (S (S (S (S (S (S (S (S (S (S (S (S (S (S (S
                   (S (S (S (S (S (S (S (S (S (S (S (S (S (S (S (S (S (S (S
                   (S (S (S (S (S (S (S (S (S (S (S (S (S (S (S (S (S (S (S
                   (S (S (S (S (S (S (S (S (S (S (S (S (S (S (S (S (S (S (S
                   (S (S
                   O))))))))))))))))))))))))))))))))))))))))))))))))))))))))))))))))))))))))))))))))))))))))))))))))))))))))))))))))))))))))))))))))))))))))))))))))))))))))))))))))))))))))))))))))))))))))))))))))))))))))))))))))))))))))))))))))))))))))))))))))))))))))))))))))))))))))))))))))))))))))))))))))))))))))))))))))))))))))))))))))))))))))))))))))))))))))))))))))))))))))))))))))))))))))))))))))))))))))))))))))))))))))))))))))))))))))))))))))))))))))))))))))))))))))))))))))))))))))))))))))))))))))))))))))))))))))))))))))))))))))))))))))))))))))))))))))))))))))))))))))))))))))))))))))))))))))))))))))))))))))))))))))))))))))))))))))))))))))))))))))))))))))))))))))))))))))))))))))))))))))))))))))))))))))))))))))))))))))))))))))))))))))))))))))))))))))))))))))))))))))))))))))))))))))))))))))))))))))))))))))))))))))))))))))))))))))))))))))))))))))))))))))))))))))))))))))))))))))))))))))))))))))))))))))))))))))))))))))))))))))))))))))))))))))))))))))))))))))))))))))))))))))))))))))))))))))))))))))))))))))))))))))))))))))))))))))))))))))))))))))))))))))))))))))))))))))))))))))))))))))))))))))))))))))))))))))))))))))))))))))))))))))))))))))))))))))))))))))))))))))))))))))))))))))))))
                   st.l1_levels i st.l1_prev
            else set_range (S (S (S (S (S (S (S (S (S (S (S (S (S (S (S (S (S
                   (S (S (S (S (S (S (S (S (S (S (S (S (S (S (S (S (S (S (S
                   (S (S (S (S (S (S (S (S (S (S (S (S (S (S (S (S (S (S (S
                   (S (S (S (S (S (S (S (S (S (S (S (S (S (S (S (S (S (S (S
                   (S (S (S (S (S (S (S (S (S (S (S (S (S (S (S (S (S (S (S
                   (S (S (S (S (S (S (S (S (S (S (S (S (S (S (S (S (S (S (S
                   (S (S (S (S (S (S (S (S (S (S (S (S (S (S (S (S (S (S (S
                   (S (S (S (S (S (S (S (S (S (S (S (S (S (S (S (S (S (S (S
                   (S (S (S (S (S (S (S (S (S (S (S (S (S (S (S (S (S (S (S
                   (S (S (S (S (S (S (S (S (S (S (S (S (S (S (S (S (S (S (S
                   (S (S (S (S (S (S (S (S (S (S (S (S (S (S (S (S (S (S (S
                   (S (S (S (S (S (S (S (S (S (S (S (S (S (S (S (S (S (S (S
                   (S (S (S (S (S (S (S (S (S (S (S (S (S (S (S (S (S (S (S
                   (S (S (S (S (S (S (S (S (S (S (S (S (S (S (S (S (S (S (S
                   (S (S (S (S (S (S (S (S (S (S (S (S (S (S (S (S (S (S (S
                   (S (S (S (S (S (S (S (S (S (S (S (S (S (S (S (S (S (S (S
                   (S (S (S (S (S (S (S (S (S (S (S (S (S (S (S (S (S (S (S
                   (S (S (S (S (S (S (S (S (S (S (S (S (S (S (S (S (S (S (S
                   (S (S (S (S (S (S (S (S (S (S (S (S (S (S (S (S (S (S (S
                   (S (S (S (S (S (S (S (S (S (S (S (S (S (S (S (S (S (S (S
                   (S (S (S (S (S (S (S (S (S (S (S (S (S (S (S (S (S (S (S
                   (S (S (S (S (S (S (S (S (S (S (S (S (S (S (S (S (S (S (S
                   (S (S (S (S (S (S (S (S (S (S (S (S (S (S (S (S (S (S (S
                   (S (S (S (S (S (S (S (S (S (S (S (S (S (S (S (S (S (S (S
                   (S (S (S (S (S (S (S (S (S (S (S (S (S (S (S (S (S (S (S
                   (S (S (S (S (S (S (S (S (S (S (S (S (S (S (S (S (S (S (S
                   (S (S (S (S (S (S (S (S (S (S (S (S (S (S (S (S (S (S (S
                   (S (S (S (S (S (S (S (S (S (S (S (S (S (S (S (S (S (S (S
                   (S (S (S (S (S (S (S (S (S (S (S (S (S (S (S (S (S (S (S
                   (S (S (S (S (S (S (S (S (S (S (S (S (S (S (S (S (S (S (S
                   (S (S (S (S (S (S (S (S (S (S (S (S (S (S (S (S (S (S (S
                   (S (S (S (S (S (S (S (S (S (S (S (S (S (S (S (S (S (S (S
                   (S (S (S (S (S (S (S (S (S (S (S (S (S (S (S (S (S (S (S
                   (S (S (S (S (S (S (S (S (S (S (S (S (S (S (S (S (S (S (S
                   (S (S (S (S (S (S (S (S (S (S (S (S (S (S (S (S (S (S (S
                   (S (S (S (S (S (S (S (S (S (S (S (S (S (S (S (S (S (S (S
                   (S (S (S (S (S (S (S (S (S (S (S (S (S (S (S (S (S (S (S
                   (S (S (S (S (S (S (S (S (S (S (S (S (S (S (S (S (S (S (S
                   (S (S (S (S (S (S (S (S (S (S (S (S (S (S (S (S (S (S (S
                   (S (S (S (S (S (S (S (S (S (S (S (S (S (S (S (S (S (S (S
                   (S (S (S (S (S (S (S (S (S (S (S (S (S (S (S (S (S (S (S
                   (S (S (S (S (S (S (S (S (S (S (S (S (S (S (S (S (S (S (S
                   (S (S (S (S (S (S (S (S (S (S (S (S (S (S (S (S (S (S (S
                   (S (S (S (S (S (S (S (S (S (S (S (S (S (S (S (S (S (S (S
                   (S (S (S (S (S (S (S (S (S (S (S (S (S (S (S (S (S (S (S
                   (S (S (S (S (S (S (S (S (S (S (S (S (S (S (S (S (S (S (S
                   (S (S (S (S (S (S (S (S (S (S (S (S (S (S (S (S (S (S (S
                   (S (S (S (S (S (S (S (S (S (S (S (S (S (S (S (S (S (S (S
                   (S (S (S (S (S (S (S (S (S (S (S (S (S (S (S (S (S (S (S
                   (S (S (S (S (S (S (S (S (S (S (S (S (S (S (S (S (S (S (S
                   (S (S (S (S (S (S (S (S (S (S (S (S (S (S (S (S (S (S (S
                   (S (S (S (S (S (S (S (S (S (S (S (S (S (S (S (S (S (S (S
                   (S (S (S (S (S (S (S (S (S (S (S (S (S (S (S (S (S (S (S
                   (S (S (S (S (S (S (S (S (S (S (S (S (S (S (S (S (S (S (S
                   (S (S (S (S (S (S (S (S (S (S (S (S (S (S (S (S (S (S (S
                   (S (S (S (S (S (S (S (S (S (S (S (S (S (S (S (S (S (S (S
                   (S (S (S (S (S (S (S (S (S (S (S (S (S (S (S (S (S (S (S
                   (S (S (S (S (S (S (S (S (S (S (S (S (S (S (S (S (S (S (S
                   (S (S (S (S (S (S (S (S (S (S (S (S (S (S (S (S (S (S (S
                   (S (S (S (S (S (S (S (S (S (S (S (S (S (S (S (S (S (S (S
                   (S (S (S (S (S (S (S (S (S (S (S (S (S (S (S (S (S (S (S
                   (S (S (S (S (S (S (S (S (S (S (S (S (S (S (S (S (S (S (S
                   (S (S (S (S (S (S (S
                   O)))))))))))))))))))))))))))))))))))))))))))))))))))))))))))))))))))))))))))))))))))))))))))))))))))))))))))))))))))))))))))))))))))))))))))))))))))))))))))))))))))))))))))))))))))))))))))))))))))))))))))))))))))))))))))))))))))))))))))))))))))))))))))))))))))))))))))))))))))))))))))))))))))))))))))))))))))))))))))))))))))))))))))))))))))))))))))))))))))))))))))))))))))))))))))))))))))))))))))))))))))))))))))))))))))))))))))))))))))))))))))))))))))))))))))))))))))))))))))))))))))))))))))))))))))))))))))))))))))))))))))))))))))))))))))))))))))))))))))))))))))))))))))))))))))))))))))))))))))))))))))))))))))))))))))))))))))))))))))))))))))))))))))))))))))))))))))))))))))))))))))))))))))))))))))))))))))))))))))))))))))))))))))))))))))))))))))))))))))))))))))))))))))))))))))))))))))))))))))))))))))))))))))))))))))))))))))))))))))))))))))))))))))))))))))))))))))))))))))))))))))))))))))))))))))))))))))))))))))))))))))))))))))))))))))))))))))))))))))))))))))))))))))))))))))))))))))))))))))))))))))))))))))))))))))))))))))))))))))))))))))))))))))))))))))))))))))))))))))))))))))))))))))))))))))))))))))))))))))))))))))))))))))))))))))))))))))))))))))))))))))))))))))))))))))))))
                   st.l1_levels i (add i (char_len e c)) st.l1_prev)
           (fun levels -> Ok ((from_or_i, None), levels))
       | FSI -> Ok ((from_or_i, None), st.l1_levels)
       | LRE ->
         bind
           (if legacy
            then upd (S (S (S (S (S (S (S (S (S (S (S (S (S (S (S (S (S (S (S
                   (S (S (S (S (S (S (S (S (S (S (S (S (S (S (S (S (S (S (S
                   (S (S (S (S (S (S (S (S (S (S (S (S (S (S (S (S (S (S (S
                   (S (S (S (S (S (S (S (S (S (S (S (S (S (S (S (S (S (S (S
                   (S (S (S (S (S (S (S (S (S (S (S (S (S (S (S (S (S (S (S
                   (S (S (S (S (S (S (S (S (S (S (S (S (S (S (S (S (S (S (S
                   (S (S (S (S (S (S (S (S (S (S (S (S (S (S (S (S (S (S (S
                   (S (S (S (S (S (S (S (S (S (S (S (S (S (S (S (S (S (S (S
                   (S (S (S (S (S (S (S (S (S (S (S (S (S (S (S (S (S (S (S
                   (S (S (S (S (S (S (S (S (S (S (S (S (S (S (S (S (S (S (S
                   (S (S (S (S (S (S (S (S (S (S (S (S (S (S (S (S (S (S (S
                   (S (S (S (S (S (S (S (S (S (S (S (S (S (S (S (S (S (S (S
                   (S (S (S (S (S (S (S (S (S (S (S (S (S (S (S (S (S (S (S
                   (S (S (S (S (S (S (S (S (S (S (S (S (S (S (S (S (S (S (S
                   (S (S (S (S (S (S (S (S (S (S (S (S (S (S (S (S (S (S (S
                   (S (S (S (S (S (S (S (S (S (S (S (S (S (S (S (S (S (S (S
                   (S (S (S (S (S (S (S (S (S (S (S (S (S (S (S (S (S (S (S
                   (S (S (S (S (S (S (S (S (S (S (S (S (S (S (S (S (S (S (S
                   (S (S (S (S (S (S (S (S (S (S (S (S (S (S (S (S (S (S (S
                   (S (S (S (S (S (S (S (S (S (S (S (S (S (S (S (S (S (S (S
                   (S (S (S (S (S (S (S (S (S (S (S (S (S (S (S (S (S (S (S
                   (S (S (S (S (S (S (S (S (S (S (S (S (S (S (S (S (S (S (S
                   (S (S (S (S (S (S (S (S (S (S (S (S (S (S (S (S (S (S (S
                   (S (S (S (S (S (S (S (S (S (S (S (S (S (S (S (S (S (S (S
                   (S (S (S (S (S (S (S (S (S (S (S (S (S (S (S (S (S (S (S
                   (S (S (S (S (S (S (S (S (S (S (S (S (S (S (S (S (S (S (S
                   (S (S (S (S (S (S (S (S (S (S (S (S (S (S (S (S (S (S (S
                   (S (S (S (S (S (S (S (S (S (S (S (S (S (S (S (S (S (S (S
                   (S (S (S (S (S (S (S (S (S (S (S (S (S (S (S (S (S (S (S
                   (S (S (S (S (S (S (S (S (S (S (S (S (S (S (S (S (S (S (S
                   (S (S (S (S (S (S (S (S (S (S (S (S (S (S (S (S (S (S (S
                   (S (S (S (S (S (S (S (S (S (S (S (S (S (S (S (S (S (S (S
                   (S (S (S (S (S (S (S (S (S (S (S (S (S (S (S (S (S (S (S
                   (S (S (S (S (S (S (S (S (S (S (S (S (S (S (S (S (S (S (S
                   (S (S (S (S (S (S (S (S (S (S (S (S (S (S (S (S (S (S (S
                   (S (S (S (S (S (S (S (S (S (S (S (S (S (S (S (S (S (S (S
                   (S (S (S (S (S (S (S (S (S (S (S (S (S (S (S (S (S (S (S
                   (S (S (S (S (S (S (S (S (S (S (S (S (S (S (S (S (S (S (S
                   (S (S (S (S (S (S (S (S (S (S (S (S (S (S (S (S (S (S (S
                   (S (S (S (S (S (S (S (S (S (S (S (S (S (S (S (S (S (S (S
                   (S (S (S (S (S (S (S (S (S (S (S (S (S (S (S (S (S (S (S
                   (S (S (S (S (S (S (S (S (S (S (S (S (S (S (S (S (S (S (S
                   (S (S (S (S (S (S (S (S (S (S (S (S (S (S (S (S (S (S (S
                   (S (S (S (S (S (S (S (S (S (S (S (S (S (S (S (S (S (S (S
                   (S (S (S (S (S (S (S (S (S (S (S (S (S (S (S (S (S (S (S
                   (S (S (S (S (S (S (S (S (S (S (S (S (S (S (S (S (S (S (S
                   (S (S (S (S (S (S (S (S (S (S (S (S (S (S (S (S (S (S (S
                   (S (S (S (S (S (S (S (S (S (S (S (S (S (S (S (S (S (S (S
                   (S (S (S (S (S (S (S (S (S (S (S (S (S (S (S (S (S (S (S
                   (S (S (S (S (S (S (S (S (S (S (S (S (S (S (S (S (S (S (S
                   (S (S (S (S (S (S (S (S (S (S (S (S (S (S (S (S (S (S (S
                   (S (S (S (S (S (S (S (S (S (S (S (S (S (S (S (S (S (S (S
                   (S (S (S (S (S (S (S (S (S (S (S (S (S (S (S (S (S (S (S
                   (S (S (S (S (S (S (S (S (S (S (S (S (S (S (S (S (S (S (S
                   (S (S (S (S (S (S (S (S (S (S (S (S (S (S (S (S (S (S (S
                   (S (S (S (S (S (S (S (S (S (S (S (S (S (S (S (S (S (S (S
                   (S (S (S (S (S (S (S (S (S (S (S (S (S (S (S (S (S (S (S
                   (S (S (S (S (S (S (S (S (S (S (S (S (S (S (S (S (S (S (S
                   (S (S (S (S (S (S (S (S (S (S (S (S (S (S (S (S (S (S (S
                   (S (S (S (S (S (S (S (S (S (S (S (S (S (S (S (S (S (S (S
                   (S (S (S (S (S (S (S (S (S (S (S (S (S (S (S (S (S (S (S
                   (S (S (S (S (S (S (S (S (S (S (S (S (S (S (S (S (S (S (S
                   (S (S
                   O))))))))))))))))))))))))))))))))))))))))))))))))))))))))))))))))))))))))))))))))))))))))))))))))))))))))))))))))))))))))))))))))))))))))))))))))))))))))))))))))))))))))))))))))))))))))))))))))))))))))))))))))))))))))))))))))))))))))))))))))))))))))))))))))))))))))))))))))))))))))))))))))))))))))))))))))))))))))))))))))))))))))))))))))))))))))))))))))))))))))))))))))))))))))))))))))))))))))))))))))))))))))))))))))))))))))))))))))))))))))))))))))))))))))))))))))))))))))))))))))))))))))))))))))))))))))))))))))))))))))))))))))))))))))))))))))))))))))))))))))))))))))))))))))))))))))))))))))))))))))))))))))))))))))))))))))))))))))))))))))))))))))))))))))))))))))))))))))))))))))))))))))))))))))))))))))))))))))))))))))))))))))))))))))))))))))))))))))))))))))))))))))))))))))))))))))))))))))))))))))))))))))))))))))))))))))))))))))))))))))))))))))))))))))))))))))))))))))))))))))))))))))))))))))))))))))))))))))))))))))))))))))))))))))))))))))))))))))))))))))))))))))))))))))))))))))))))))))))))))))))))))))))))))))))))))))))))))))))))))))))))))))))))))))))))))))))))))))))))))))))))))))))))))))))))))))))))))))))))))))))))))))))))))))))))))))))))))))))))))))))))))))))))))))))))
                   st.l1_levels i st.l1_prev
            else set_range (S (S (S (S (S (S (S (S (S (S (S (S (S (S (S (S (S
                   (S (S (S (S (S (S (S (S (S (S (S (S (S (S (S (S (S (S (S
                   (S (S (S (S (S (S (S (S (S (S (S (S (S (S (S (S (S (S (S
                   (S (S (S (S (S (S (S (S (S (S (S (S (S (S (S (S (S (S (S
                   (S (S (S (S (S (S (S (S (S (S (S (S (S (S (S (S (S (S (S
                   (S (S (S (S (S (S (S (S (S (S (S (S (S (S (S (S (S (S (S
                   (S (S (S (S (S (S (S (S (S (S (S (S (S (S (S (S (S (S (S
                   (S (S (S (S (S (S (S (S (S (S (S (S (S (S (S (S (S (S (S
                   (S (S (S (S (S (S (S (S (S (S (S (S (S (S (S (S (S (S (S
                   (S (S (S (S (S (S (S (S (S (S (S (S (S (S (S (S (S (S (S
                   (S (S (S (S (S (S (S (S (S (S (S (S (S (S (S (S (S (S (S
                   (S (S (S (S (S (S (S (S (S (S (S (S (S (S (S (S (S (S (S
                   (S (S (S (S (S (S (S (S (S (S (S (S (S (S (S (S (S (S (S
                   (S (S (S (S (S (S (S (S (S (S (S (S (S (S (S (S (S (S (S
                   (S (S (S (S (S (S (S (S (S (S (S (S (S (S (S (S (S (S (S
                   (S (S (S (S (S (S (S (S (S (S (S (S (S (S (S (S (S (S (S
                   (S (S (S (S (S (S (S (S (S (S (S (S (S (S (S (S (S (S (S
                   (S (S (S (S (S (S (S (S (S (S (S (S (S (S (S (S (S (S (S
                   (S (S (S (S (S (S (S (S (S (S (S (S (S (S (S (S (S (S (S
                   (S (S (S (S (S (S (S (S (S (S (S (S (S (S (S (S (S (S (S
                   (S (S (S (S (S (S (S (S (S (S (S (S (S (S (S (S (S (S (S
                   (S (S (S (S (S (S (S (S (S (S (S (S (S (S (S (S (S (S (S
                   (S (S (S (S (S (S (S (S (S (S (S (S (S (S (S (S (S (S (S
                   (S (S (S (S (S (S (S (S (S (S (S (S (S (S (S (S (S (S (S
                   (S (S (S (S (S (S (S (S (S (S (S (S (S (S (S (S (S (S (S
                   (S (S (S (S (S (S (S (S (S (S (S (S (S (S (S (S (S (S (S
                   (S (S (S (S (S (S (S (S (S (S (S (S (S (S (S (S (S (S (S
                   (S (S (S (S (S (S (S (S (S (S (S (S (S (S (S (S (S (S (S
                   (S (S (S (S (S (S (S (S (S (S (S (S (S (S (S (S (S (S (S
                   (S (S (S (S (S (S (S (S (S (S (S (S (S (S (S (S (S (S (S
                   (S (S (S (S (S (S (S (S (S (S (S (S (S (S (S (S (S (S (S
                   (S (S (S (S (S (S (S (S (S (S (S (S (S (S (S (S (S (S (S
                   (S (S (S (S (S (S (S (S (S (S (S (S (S (S (S (S (S (S (S
                   (S (S (S (S (S (S (S (S (S (S (S (S (S (S (S (S (S (S (S
                   (S (S (S (S (S (S (S (S (S (S (S (S (S (S (S (S (S (S (S
                   (S (S (S (S (S (S (S (S (S (S (S (S (S (S (S (S (S (S (S
                   (S (S (S (S (S (S (S (S (S (S (S (S (S (S (S (S (S (S (S
                   (S (S (S (S (S (S (S (S (S (S (S (S (S (S (S (S (S (S (S
                   (S (S (S (S (S (S (S (S (S (S (S (S (S (S (S (S (S (S (S
                   (S (S (S (S (S (S (S (S (S (S (S (S (S (S (S (S (S (S (S
                   (S (S (S (S (S (S (S (S (S (S (S (S (S (S (S (S (S (S (S
                   (S (S (S (S (S (S (S (S (S (S (S (S (S (S (S (S (S (S (S
                   (S (S (S (S (S (S (S (S (S (S (S (S (S (S (S (S (S (S (S
                   (S (S (S (S (S (S (S (S (S (S (S (S (S (S (S (S (S (S (S
                   (S (S (S (S (S (S (S (S (S (S (S (S (S (S (S (S (S (S (S
                   (S (S (S (S (S (S (S (S (S (S (S (S (S (S (S (S (S (S (S
                   (S (S (S (S (S (S (S (S (S (S (S (S (S (S (S (S (S (S (S
                   (S (S (S (S (S (S (S (S (S (S (S (S (S (S (S (S (S (S (S
                   (S (S (S (S (S (S (S (S (S (S (S (S (S (S (S (S (S (S (S
                   (S (S (S (S (S (S (S (S (S (S (S (S (S (S (S (S (S (S (S
                   (S (S (S (S (S (S (S (S (S (S (S (S (S (S (S (S (S (S (S
                   (S (S (S (S (S (S (S (S (S (S (S (S (S (S (S (S (S (S (S
                   (S (S (S (S (S (S (S (S (S (S (S (S (S (S (S (S (S (S (S
                   (S (S (S (S (S (S (S (S (S (S (S (S (S (S (S (S (S (S (S
                   (S (S (S (S (S (S (S (S (S (S (S (S (S (S (S (S (S (S (S
                   (S (S (S (S (S (S (S (S (S (S (S (S (S (S (S (S (S (S (S
                   (S (S (S (S (S (S (S (S (S (S (S (S (S (S (S (S (S (S (S
                   (S (S (S (S (S (S (S (S (S (S (S (S (S (S (S (S (S (S (S
                   (S (S (S (S (S (S (S (S (S (S (S (S (S (S (S (S (S (S (S
                   (S (S (S (S (S (S (S (S (S (S (S (S (S (S (S (S (S (S (S
                   (S (S (S (S (S (S (S (S (S (S (S (S (S (S (S (S (S (S (S
                   (S (S (S (S (S (S (S (S (S (S (S (S (S (S (S (S (S (S (S
                   (S (S (S (S (S (S (S
                   O)))))))))))))))))))))))))))))))))))))))))))))))))))))))))))))))))))))))))))))))))))))))))))))))))))))))))))))))))))))))))))))))))))))))))))))))))))))))))))))))))))))))))))))))))))))))))))))))))))))))))))))))))))))))))))))))))))))))))))))))))))))))))))))))))))))))))))))))))))))))))))))))))))))))))))))))))))))))))))))))))))))))))))))))))))))))))))))))))))))))))))))))))))))))))))))))))))))))))))))))))))))))))))))))))))))))))))))))))))))))))))))))))))))))))))))))))))))))))))))))))))))))))))))))))))))))))))))))))))))))))))))))))))))))))))))))))))))))))))))))))))))))))))))))))))))))))))))))))))))))))))))))))))))))))))))))))))))))))))))))))))))))))))))))))))))))))))))))))))))))))))))))))))))))))))))))))))))))))))))))))))))))))))))))))))))))))))))))))))))))))))))))))))))))))))))))))))))))))))))))))))))))))))))))))))))))))))))))))))))))))))))))))))))))))))))))))))))))))))))))))))))))))))))))))))))))))))))))))))))))))))))))))))))))))))))))))))))))))))))))))))))))))))))))))))))))))))))))))))))))))))))))))))))))))))))))))))))))))))))))))))))))))))))))))))))))))))))))))))))))))))))))))))))))))))))))))))))))))))))))))))))))))))))))))))))))))))))))))))))))))))))))))))))))))))))))
                   st.l1_levels i (add i (char_len e c)) st.l1_prev)
           (fun levels -> Ok ((from_or_i, None), levels))
       | LRI -> Ok ((from_or_i, None), st.l1_levels)
       | LRO ->
         bind
           (if legacy
            then upd (S (S (S (S (S (S (S (S (S (S (S (S (S (S (S (S (S (S (S
                   (S (S (S (S (S (S (S (S (S (S (S (S (S (S (S (S (S (S (S
                   (S (S (S (S (S (S (S (S (S (S (S (S (S (S (S (S (S (S (S
                   (S (S (S (S (S (S (S (S (S (S (S (S (S (S (S (S (S (S (S
                   (S (S (S (S (S (S (S (S (S (S (S (S (S (S (S (S (S (S (S
                   (S (S (S (S (S (S (S (S (S (S (S (S (S (S (S (S (S (S (S
                   (S (S (S (S (S (S (S (S (S (S (S (S (S (S (S (S (S (S (S
                   (S (S (S (S (S (S (S (S (S (S (S (S (S (S (S (S (S (S (S
                   (S (S (S (S (S (S (S (S (S (S (S (S (S (S (S (S (S (S (S
                   (S (S (S (S (S (S (S (S (S (S (S (S (S (S (S (S (S (S (S
                   (S (S (S (S (S (S (S (S (S (S (S (S (S (S (S (S (S (S (S
                   (S (S (S (S (S (S (S (S (S (S (S (S (S (S (S (S (S (S (S
                   (S (S (S (S (S (S (S (S (S (S (S (S (S (S (S (S (S (S (S
                   (S (S (S (S (S (S (S (S (S (S (S (S (S (S (S (S (S (S (S
                   (S (S (S (S (S (S (S (S (S (S (S (S (S (S (S (S (S (S (S
                   (S (S (S (S (S (S (S (S (S (S (S (S (S (S (S (S (S (S (S
                   (S (S (S (S (S (S (S (S (S (S (S (S (S (S (S (S (S (S (S
                   (S (S (S (S (S (S (S (S (S (S (S (S (S (S (S (S (S (S (S
                   (S (S (S (S (S (S (S (S (S (S (S (S (S (S (S (S (S (S (S
                   (S (S (S (S (S (S (S (S (S (S (S (S (S (S (S (S (S (S (S
                   (S (S (S (S (S (S (S (S (S (S (S (S (S (S (S (S (S (S (S
                   (S (S (S (S (S (S (S (S (S (S (S (S (S (S (S (S (S (S (S
                   (S (S (S (S (S (S (S (S (S (S (S (S (S (S (S (S (S (S (S
                   (S (S (S (S (S (S (S (S (S (S (S (S (S (S (S (S (S (S (S
                   (S (S (S (S (S (S (S (S (S (S (S (S (S (S (S (S (S (S (S
                   (S (S (S (S (S (S (S (S (S (S (S (S (S (S (S (S (S (S (S
                   (S (S (S (S (S (S (S (S (S (S (S (S (S (S (S (S (S (S (S
                   (S (S (S (S (S (S (S (S (S (S (S (S (S (S (S (S (S (S (S
                   (S (S (S (S (S (S (S (S (S (S (S (S (S (S (S (S (S (S (S
                   (S (S (S (S (S (S (S (S (S (S (S (S (S (S (S (S (S (S (S
                   (S (S (S (S (S (S (S (S (S (S (S (S (S (S (S (S (S (S (S
                   (S (S (S (S (S (S (S (S (S (S (S (S (S (S (S (S (S (S (S
                   (S (S (S (S (S (S (S (S (S (S (S (S (S (S (S (S (S (S (S
                   (S (S (S (S (S (S (S (S (S (S (S (S (S (S (S (S (S (S (S
                   (S (S (S (S (S (S (S (S (S (S (S (S (S (S (S (S (S (S (S
                   (S (S (S (S (S (S (S (S (S (S (S (S (S (S (S (S (S (S (S
                   (S (S (S (S (S (S (S (S (S (S (S (S (S (S (S (S (S (S (S
                   (S (S (S (S (S (S (S (S (S (S (S (S (S (S (S (S (S (S (S
                   (S (S (S (S (S (S (S (S (S (S (S (S (S (S (S (S (S (S (S
                   (S (S (S (S (S (S (S (S (S (S (S (S (S (S (S (S (S (S (S
                   (S (S (S (S (S (S (S (S (S (S (S (S (S (S (S (S (S (S (S
                   (S (S (S (S (S (S (S (S (S (S (S (S (S (S (S (S (S (S (S
                   (S (S (S (S (S (S (S (S (S (S (S (S (S (S (S (S (S (S (S
                   (S (S (S (S (S (S (S (S (S (S (S (S (S (S (S (S (S (S (S
                   (S (S (S (S (S (S (S (S (S (S (S (S (S (S (S (S (S (S (S
                   (S (S (S (S (S (S (S (S (S (S (S (S (S (S (S (S (S (S (S
                   (S (S (S (S (S (S (S (S (S (S (S (S (S (S (S (S (S (S (S
                   (S (S (S (S (S (S (S (S (S (S (S (S (S (S (S (S (S (S (S
                   (S (S (S (S (S (S (S (S (S (S (S (S (S (S (S (S (S (S (S
                   (S (S (S (S (S (S (S (S (S (S (S (S (S (S (S (S (S (S (S
                   (S (S (S (S (S (S (S (S (S (S (S (S (S (S (S (S (S (S (S
                   (S (S (S (S (S (S (S (S (S (S (S (S (S (S (S (S (S (S (S
                   (S (S (S (S (S (S (S (S (S (S (S (S (S (S (S (S (S (S (S
                   (S (S (S (S (S (S (S (S (S (S (S (S (S (S (S (S (S (S (S
                   (S (S (S (S (S (S (S (S (S (S (S (S (S (S (S (S (S (S (S
                   (S (S (S (S (S (S (S (S (S (S (S (S (S (S (S (S (S (S (S
                   (S (S (S (S (S (S (S (S (S (S (S (S (S (S (S (S (S (S (S
                   (S (S (S (S (S (S (S (S (S (S (S (S (S (S (S (S (S (S (S
                   (S (S (S (S (S (S (S (S (S (S (S (S (S (S (S (S (S (S (S
                   (S (S (S (S (S (S (S (S (S (S (S (S (S (S (S (S (S (S (S
                   (S (S (S (S (S (S (S (S (S (S (S (S (S (S (S (S (S (S (S
                   (S (S (S (S (S (S (S (S (S (S (S (S (S (S (S (S (S (S (S
                   (S (S
                   O))))))))))))))))))))))))))))))))))))))))))))))))))))))))))))))))))))))))))))))))))))))))))))))))))))))))))))))))))))))))))))))))))))))))))))))))))))))))))))))))))))))))))))))))))))))))))))))))))))))))))))))))))))))))))))))))))))))))))))))))))))))))))))))))))))))))))))))))))))))))))))))))))))))))))))))))))))))))))))))))))))))))))))))))))))))))))))))))))))))))))))))))))))))))))))))))))))))))))))))))))))))))))))))))))))))))))))))))))))))))))))))))))))))))))))))))))))))))))))))))))))))))))))))))))))))))))))))))))))))))))))))))))))))))))))))))))))))))))))))))))))))))))))))))))))))))))))))))))))))))))))))))))))))))))))))))))))))))))))))))))))))))))))))))))))))))))))))))))))))))))))))))))))))))))))))))))))))))))))))))))))))))))))))))))))))))))))))))))))))))))))))))))))))))))))))))))))))))))))))))))))))))))))))))))))))))))))))))))))))))))))))))))))))))))))))))))))))))))))))))))))))))))))))))))))))))))))))))))))))))))))))))))))))))))))))))))))))))))))))))))))))))))))))))))))))))))))))))))))))))))))))))))))))))))))))))))))))))))))))))))))))))))))))))))))))))))))))))))))))))))))))))))))))))))))))))))))))))))))))))))))))))))))))))))))))))))))))))))))))))))))))))))))))))))))
                   st.l1_levels i st.l1_prev
            else set_range (S (S (S (S (S (S (S (S (S (S (S (S (S (S (S (S (S
                   (S (S (S (S (S (S (S (S (S (S (S (S (S (S (S (S (S (S (S
                   (S (S (S (S (S (S (S (S (S (S (S (S (S (S (S (S (S (S (S
                   (S (S (S (S (S (S (S (S (S (S (S (S (S (S (S (S (S (S (S
                   (S (S (S (S (S (S (S (S (S (S (S (S (S (S (S (S (S (S (S
                   (S (S (S (S (S (S (S (S (S (S (S (S (S (S (S (S (S (S (S
                   (S (S (S (S (S (S (S (S (S (S (S (S (S (S (S (S (S (S (S
                   (S (S (S (S (S (S (S (S (S (S (S (S (S (S (S (S (S (S (S
                   (S (S (S (S (S (S (S (S (S (S (S (S (S (S (S (S (S (S (S
                   (S (S (S (S (S (S (S (S (S (S (S (S (S (S (S (S (S (S (S
                   (S (S (S (S (S (S (S (S (S (S (S (S (S (S (S (S (S (S (S
                   (S (S (S (S (S (S (S (S (S (S (S (S (S (S (S (S (S (S (S
                   (S (S (S (S (S (S (S (S (S (S (S (S (S (S (S (S (S (S (S
                   (S (S (S (S (S (S (S (S (S (S (S (S (S (S (S (S (S (S (S
                   (S (S (S (S (S (S (S (S (S (S (S (S (S (S (S (S (S (S (S
                   (S (S (S (S (S (S (S (S (S (S (S (S (S (S (S (S (S (S (S
                   (S (S (S (S (S (S (S (S (S (S (S (S (S (S (S (S (S (S (S
                   (S (S (S (S (S (S (S (S (S (S (S (S (S (S (S (S (S (S (S
                   (S (S (S (S (S (S (S (S (S (S (S (S (S (S (S (S (S (S (S
                   (S (S (S (S (S (S (S (S (S (S (S (S (S (S (S (S (S (S (S
                   (S (S (S (S (S (S (S (S (S (S (S (S (S (S (S (S (S (S (S
                   (S (S (S (S (S (S (S (S (S (S (S (S (S (S (S (S (S (S (S
                   (S (S (S (S (S (S (S (S (S (S (S (S (S (S (S (S (S (S (S
                   (S (S (S (S (S (S (S (S (S (S (S (S (S (S (S (S (S (S (S
                   (S (S (S (S (S (S (S (S (S (S (S (S (S (S (S (S (S (S (S
                   (S (S (S (S (S (S (S (S (S (S (S (S (S (S (S (S (S (S (S
                   (S (S (S (S (S (S (S (S (S (S (S (S (S (S (S (S (S (S (S
                   (S (S (S (S (S (S (S (S (S (S (S (S (S (S (S (S (S (S (S
                   (S (S (S (S (S (S (S (S (S (S (S (S (S (S (S (S (S (S (S
                   (S (S (S (S (S (S (S (S (S (S (S (S (S (S (S (S (S (S (S
                   (S (S (S (S (S (S (S (S (S (S (S (S (S (S (S (S (S (S (S
                   (S (S (S (S (S (S (S (S (S (S (S (S (S (S (S (S (S (S (S
                   (S (S (S (S (S (S (S (S (S (S (S (S (S (S (S (S (S (S (S
                   (S (S (S (S (S (S (S (S (S (S (S (S (S (S (S (S (S (S (S
                   (S (S (S (S (S (S (S (S (S (S (S (S (S (S (S (S (S (S (S
                   (S (S (S (S (S (S (S (S (S (S (S (S (S (S (S (S (S (S (S
                   (S (S (S (S (S (S (S (S (S (S (S (S (S (S (S (S (S (S (S
                   (S (S (S (S (S (S (S (S (S (S (S (S (S (S (S (S (S (S (S
                   (S (S (S (S (S (S (S (S (S (S (S (S (S (S (S (S (S (S (S
                   (S (S (S (S (S (S (S (S (S (S (S (S (S (S (S (S (S (S (S
                   (S (S (S (S (S (S (S (S (S (S (S (S (S (S (S (S (S (S (S
                   (S (S (S (S (S (S (S (S (S (S (S (S (S (S (S (S (S (S (S
                   (S (S (S (S (S (S (S (S (S (S (S (S (S (S (S (S (S (S (S
                   (S (S (S (S (S (S (S (S (S (S (S (S (S (S (S (S (S (S (S
                   (S (S (S (S (S (S (S (S (S (S (S (S (S (S (S (S (S (S (S
                   (S (S (S (S (S (S (S (S (S (S (S (S (S (S (S (S (S (S (S
                   (S (S (S (S (S (S (S (S (S (S (S (S (S (S (S (S (S (S (S
                   (S (S (S (S (S (S (S (S (S (S (S (S (S (S (S (S (S (S (S
                   (S (S (S (S (S (S (S (S (S (S (S (S (S (S (S (S (S (S (S
                   (S (S (S (S (S (S (S (S (S (S (S (S (S (S (S (S (S (S (S
                   (S (S (S (S (S (S (S (S (S (S (S (S (S (S (S (S (S (S (S
                   (S (S (S (S (S (S (S (S (S (S (S (S (S (S (S (S (S (S (S
                   (S (S (S (S (S (S (S (S (S (S (S (S (S (S (S (S (S (S (S
                   (S (S (S (S (S (S (S (S (S (S (S (S (S (S (S (S (S (S (S
                   (S (S (S (S (S (S (S (S (S (S (S (S (S (S (S (S (S (S (S
                   (S (S (S (S (S (S (S (S (S (S (S (S (S (S (S (S (S (S (S
                   (S (S (S (S (S (S (S (S (S (S (S (S (S (S (S (S (S (S (S
                   (S (S (S (S (S (S (S (S (S (S (S (S (S (S (S (S (S (S (S
                   (S (S (S (S (S (S (S (S (S (S (S (S (S (S (S (S (S (S (S
                   (S (S (S (S (S (S (S (S (S (S (S (S (S (S (S (S (S (S (S
                   (S (S (S (S (S (S (S (S (S (S (S (S (S (S (S (S (S (S (S
                   (S (S (S (S (S (S (S (S (S (S (S (S (S (S (S (S (S (S (S
                   (S (S (S (S (S (S (S
                   O)))))))))))))))))))))))))))))))))))))))))))))))))))))))))))))))))))))))))))))))))))))))))))))))))))))))))))))))))))))))))))))))))))))))))))))))))))))))))))))))))))))))))))))))))))))))))))))))))))))))))))))))))))))))))))))))))))))))))))))))))))))))))))))))))))))))))))))))))))))))))))))))))))))))))))))))))))))))))))))))))))))))))))))))))))))))))))))))))))))))))))))))))))))))))))))))))))))))))))))))))))))))))))))))))))))))))))))))))))))))))))))))))))))))))))))))))))))))))))))))))))))))))))))))))))))))))))))))))))))))))))))))))))))))))))))))))))))))))))))))))))))))))))))))))))))))))))))))))))))))))))))))))))))))))))))))))))))))))))))))))))))))))))))))))))))))))))))))))))))))))))))))))))))))))))))))))))))))))))))))))))))))))))))))))))))))))))))))))))))))))))))))))))))))))))))))))))))))))))))))))))))))))))))))))))))))))))))))))))))))))))))))))))))))))))))))))))))))))))))))))))))))))))))))))))))))))))))))))))))))))))))))))))))))))))))))))))))))))))))))))))))))))))))))))))))))))))))))))))))))))))))))))))))))))))))))))))))))))))))))))))))))))))))))))))))))))))))))))))))))))))))))))))))))))))))))))))))))))))))))))))))))))))))))))))))))))))))))))))))))))))))))))))))))))))))))
                   st.l1_levels i (add i (char_len e c)) st.l1_prev)
           (fun levels -> Ok ((from_or_i, None), levels))
       | PDF ->
         bind
           (if legacy
            then upd (S (S (S (S (S (S (S (S (S (S (S (S (S (S (S (S (S (S (S
                   (S (S (S (S (S (S (S (S (S (S (S (S (S (S (S (S (S (S (S
                   (S (S (S (S (S (S (S (S (S (S (S (S (S (S (S (S (S (S (S
                   (S (S (S (S (S (S (S (S (S (S (S (S (S (S (S (S (S (S (S
                   (S (S (S (S (S (S (S (S (S (S (S (S (S (S (S (S (S (S (S
                   (S (S (S (S (S (S (S (S (S (S (S (S (S (S (S (S (S (S (S
                   (S (S (S (S (S (S (S (S (S (S (S (S (S (S (S (S (S (S (S
                   (S (S (S (S (S (S (S (S (S (S (S (S (S (S (S (S (S (S (S
                   (S (S (S (S (S (S (S (S (S (S (S (S (S (S (S (S (S (S (S
                   (S (S (S (S (S (S (S (S (S (S (S (S (S (S (S (S (S (S (S
                   (S (S (S (S (S (S (S (S (S (S (S (S (S (S (S (S (S (S (S
                   (S (S (S (S (S (S (S (S (S (S (S (S (S (S (S (S (S (S (S
                   (S (S (S (S (S (S (S (S (S (S (S (S (S (S (S (S (S (S (S
                   (S (S (S (S (S (S (S (S (S (S (S (S (S (S (S (S (S (S (S
                   (S (S (S (S (S (S (S (S (S (S (S (S (S (S (S (S (S (S (S
                   (S (S (S (S (S (S (S (S (S (S (S (S (S (S (S (S (S (S (S
                   (S (S (S (S (S (S (S (S (S (S (S (S (S (S (S (S (S (S (S
                   (S (S (S (S (S (S (S (S (S (S (S (S (S (S (S (S (S (S (S
                   (S (S (S (S (S (S (S (S (S (S (S (S (S (S (S (S (S (S (S
                   (S (S (S (S (S (S (S (S (S (S (S (S (S (S (S (S (S (S (S
                   (S (S (S (S (S (S (S (S (S (S (S (S (S (S (S (S (S (S (S
                   (S (S (S (S (S (S (S (S (S (S (S (S (S (S (S (S (S (S (S
                   (S (S (S (S (S (S (S (S (S (S (S (S (S (S (S (S (S (S (S
                   (S (S (S (S (S (S (S (S (S (S (S (S (S (S (S (S (S (S (S
                   (S (S (S (S (S (S (S (S (S (S (S (S (S (S (S (S (S (S (S
                   (S (S (S (S (S (S (S (S (S (S (S (S (S (S (S (S (S (S (S
                   (S (S (S (S (S (S (S (S (S (S (S (S (S (S (S (S (S (S (S
                   (S (S (S (S (S (S (S (S (S (S (S (S (S (S (S (S (S (S (S
                   (S (S (S (S (S (S (S (S (S (S (S (S (S (S (S (S (S (S (S
                   (S (S (S (S (S (S (S (S (S (S (S (S (S (S (S (S (S (S (S
                   (S (S (S (S (S (S (S (S (S (S (S (S (S (S (S (S (S (S (S
                   (S (S (S (S (S (S (S (S (S (S (S (S (S (S (S (S (S (S (S
                   (S (S (S (S (S (S (S (S (S (S (S (S (S (S (S (S (S (S (S
                   (S (S (S (S (S (S (S (S (S (S (S (S (S (S (S (S (S (S (S
                   (S (S (S (S (S (S (S (S (S (S (S (S (S (S (S (S (S (S (S
                   (S (S (S (S (S (S (S (S (S (S (S (S (S (S (S (S (S (S (S
                   (S (S (S (S (S (S (S (S (S (S (S (S (S (S (S (S (S (S (S
                   (S (S (S (S (S (S (S (S (S (S (S (S (S (S (S (S (S (S (S
                   (S (S (S (S (S (S (S (S (S (S (S (S (S (S (S (S (S (S (S
                   (S (S (S (S (S (S (S (S (S (S (S (S (S (S (S (S (S (S (S
                   (S (S (S (S (S (S (S (S (S (S (S (S (S (S (S (S (S (S (S
                   (S (S (S (S (S (S (S (S (S (S (S (S (S (S (S (S (S (S (S
                   (S (S (S (S (S (S (S (S (S (S (S (S (S (S (S (S (S (S (S
                   (S (S (S (S (S (S (S (S (S (S (S (S (S (S (S (S (S (S (S
                   (S (S (S (S (S (S (S (S (S (S (S (S (S (S (S (S (S (S (S
                   (S (S (S (S (S (S (S (S (S (S (S (S (S (S (S (S (S (S (S
                   (S (S (S (S (S (S (S (S (S (S (S (S (S (S (S (S (S (S (S
                   (S (S (S (S (S (S (S (S (S (S (S (S (S (S (S (S (S (S (S
                   (S (S (S (S (S (S (S (S (S (S (S (S (S (S (S (S (S (S (S
                   (S (S (S (S (S (S (S (S (S (S (S (S (S (S (S (S (S (S (S
                   (S (S (S (S (S (S (S (S (S (S (S (S (S (S (S (S (S (S (S
                   (S (S (S (S (S (S (S (S (S (S (S (S (S (S (S (S (S (S (S
                   (S (S (S (S (S (S (S (S (S (S (S (S (S (S (S (S (S (S (S
                   (S (S (S (S (S (S (S (S (S (S (S (S (S (S (S (S (S (S (S
                   (S (S (S (S (S (S (S (S (S (S (S (S (S (S (S (S (S (S (S
                   (S (S (S (S (S (S (S (S (S (S (S (S (S (S (S (S (S (S (S
                   (S (S (S (S (S (S (S (S (S (S (S (S (S (S (S (S (S (S (S
                   (S (S (S (S (S (S (S (S (S (S (S (S (S (S (S (S (S (S (S
                   (S (S (S (S (S (S (S (S (S (S (S (S (S (S (S (S (S (S (S
                   (S (S (S (S (S (S (S (S (S (S (S (S (S (S (S (S (S (S (S
                   (S (S (S (S (S (S (S (S (S (S (S (S (S (S (S (S (S (S (S
                   (S (S (S (S (S (S (S (S (S (S (S (S (S (S (S (S (S (S (S
                   (S (S
                   O))))))))))))))))))))))))))))))))))))))))))))))))))))))))))))))))))))))))))))))))))))))))))))))))))))))))))))))))))))))))))))))))))))))))))))))))))))))))))))))))))))))))))))))))))))))))))))))))))))))))))))))))))))))))))))))))))))))))))))))))))))))))))))))))))))))))))))))))))))))))))))))))))))))))))))))))))))))))))))))))))))))))))))))))))))))))))))))))))))))))))))))))))))))))))))))))))))))))))))))))))))))))))))))))))))))))))))))))))))))))))))))))))))))))))))))))))))))))))))))))))))))))))))))))))))))))))))))))))))))))))))))))))))))))))))))))))))))))))))))))))))))))))))))))))))))))))))))))))))))))))))))))))))))))))))))))))))))))))))))))))))))))))))))))))))))))))))))))))))))))))))))))))))))))))))))))))))))))))))))))))))))))))))))))))))))))))))))))))))))))))))))))))))))))))))))))))))))))))))))))))))))))))))))))))))))))))))))))))))))))))))))))))))))))))))))))))))))))))))))))))))))))))))))))))))))))))))))))))))))))))))))))))))))))))))))))))))))))))))))))))))))))))))))))))))))))))))))))))))))))))))))))))))))))))))))))))))))))))))))))))))))))))))))))))))))))))))))))))))))))))))))))))))))))))))))))))))))))))))))))))))))))))))))))))))))))))))))))))))))))))))))))))))))))))))
                   st.l1_levels i st.l1_prev
            else set_range (S (S (S (S (S (S (S (S (S (S (S (S (S (S (S (S (S
                   (S (S (S (S (S (S (S (S (S (S (S (S (S (S (S (S (S (S (S
                   (S (S (S (S (S (S (S (S (S (S (S (S (S (S (S (S (S (S (S
                   (S (S (S (S (S (S (S (S (S (S (S (S (S (S (S (S (S (S (S
                   (S (S (S (S (S (S (S (S (S (S (S (S (S (S (S (S (S (S (S
                   (S (S (S (S (S (S (S (S (S (S (S (S (S (S (S (S (S (S (S
                   (S (S (S (S (S (S (S (S (S (S (S (S (S (S (S (S (S (S (S
                   (S (S (S (S (S (S (S (S (S (S (S (S (S (S (S (S (S (S (S
                   (S (S (S (S (S (S (S (S (S (S (S (S (S (S (S (S (S (S (S
                   (S (S (S (S (S (S (S (S (S (S (S (S (S (S (S (S (S (S (S
                   (S (S (S (S (S (S (S (S (S (S (S (S (S (S (S (S (S (S (S
                   (S (S (S (S (S (S (S (S (S (S (S (S (S (S (S (S (S (S (S
                   (S (S (S (S (S (S (S (S (S (S (S (S (S (S (S (S (S (S (S
                   (S (S (S (S (S (S (S (S (S (S (S (S (S (S (S (S (S (S (S
                   (S (S (S (S (S (S (S (S (S (S (S (S (S (S (S (S (S (S (S
                   (S (S (S (S (S (S (S (S (S (S (S (S (S (S (S (S (S (S (S
                   (S (S (S (S (S (S (S (S (S (S (S (S (S (S (S (S (S (S (S
                   (S (S (S (S (S (S (S (S (S (S (S (S (S (S (S (S (S (S (S
                   (S (S (S (S (S (S (S (S (S (S (S (S (S (S (S (S (S (S (S
                   (S (S (S (S (S (S (S (S (S (S (S (S (S (S (S (S (S (S (S
                   (S (S (S (S (S (S (S (S (S (S (S (S (S (S (S (S (S (S (S
                   (S (S (S (S (S (S (S (S (S (S (S (S (S (S (S (S (S (S (S
                   (S (S (S (S (S (S (S (S (S (S (S (S (S (S (S (S (S (S (S
                   (S (S (S (S (S (S (S (S (S (S (S (S (S (S (S (S (S (S (S
                   (S (S (S (S (S (S (S (S (S (S (S (S (S (S (S (S (S (S (S
                   (S (S (S (S (S (S (S (S (S (S (S (S (S (S (S (S (S (S (S
                   (S (S (S (S (S (S (S (S (S (S (S (S (S (S (S (S (S (S (S
                   (S (S (S (S (S (S (S (S (S (S (S (S (S (S (S (S (S (S (S
                   (S (S (S (S (S (S (S (S (S (S (S (S (S (S (S (S (S (S (S
                   (S (S (S (S (S (S (S (S (S (S (S (S (S (S (S (S (S (S (S
                   (S (S (S (S (S (S (S (S (S (S (S (S (S (S (S (S (S (S (S
                   (S (S (S (S (S (S (S (S (S (S (S (S (S (S (S (S (S (S (S
                   (S (S (S (S (S (S (S (S (S (S (S (S (S (S (S (S (S (S (S
                   (S (S (S (S (S (S (S (S (S (S (S (S (S (S (S (S (S (S (S
                   (S (S (S (S (S (S (S (S (S (S (S (S (S (S (S (S (S (S (S
                   (S (S (S (S (S (S (S (S (S (S (S (S (S (S (S (S (S (S (S
                   (S (S (S (S (S (S (S (S (S (S (S (S (S (S (S (S (S (S (S
                   (S (S (S (S (S (S (S (S (S (S (S (S (S (S (S (S (S (S (S
                   (S (S (S (S (S (S (S (S (S (S (S (S (S (S (S (S (S (S (S
                   (S (S (S (S (S (S (S (S (S (S (S (S (S (S (S (S (S (S (S
                   (S (S (S (S (S (S (S (S (S (S (S (S (S (S (S (S (S (S (S
                   (S (S (S (S (S (S (S (S (S (S (S (S (S (S (S (S (S (S (S
                   (S (S (S (S (S (S (S (S (S (S (S (S (S (S (S (S (S (S (S
                   (S (S (S (S (S (S (S (S (S (S (S (S (S (S (S (S (S (S (S
                   (S (S (S (S (S (S (S (S (S (S (S (S (S (S (S (S (S (S (S
                   (S (S (S (S (S (S (S (S (S (S (S (S (S (S (S (S (S (S (S
                   (S (S (S (S (S (S (S (S (S (S (S (S (S (S (S (S (S (S (S
                   (S (S (S (S (S (S (S (S (S (S (S (S (S (S (S (S (S (S (S
                   (S (S (S (S (S (S (S (S (S (S (S (S (S (S (S (S (S (S (S
                   (S (S (S (S (S (S (S (S (S (S (S (S (S (S (S (S (S (S (S
                   (S (S (S (S (S (S (S (S (S (S (S (S (S (S (S (S (S (S (S
                   (S (S (S (S (S (S (S (S (S (S (S (S (S (S (S (S (S (S (S
                   (S (S (S (S (S (S (S (S (S (S (S (S (S (S (S (S (S (S (S
                   (S (S (S (S (S (S (S (S (S (S (S (S (S (S (S (S (S (S (S
                   (S (S (S (S (S (S (S (S (S (S (S (S (S (S (S (S (S (S (S
                   (S (S (S (S (S (S (S (S (S (S (S (S (S (S (S (S (S (S (S
                   (S (S (S (S (S (S (S (S (S (S (S (S (S (S (S (S (S (S (S
                   (S (S (S (S (S (S (S (S (S (S (S (S (S (S (S (S (S (S (S
                   (S (S (S (S (S (S (S (S (S (S (S (S (S (S (S (S (S (S (S
                   (S (S (S (S (S (S (S (S (S (S (S (S (S (S (S (S (S (S (S
                   (S (S (S (S (S (S (S (S (S (S (S (S (S (S (S (S (S (S (S
                   (S (S (S (S (S (S (S (S (S (S (S (S (S (S (S (S (S (S (S
                   (S (S (S (S (S (S (S
                   O)))))))))))))))))))))))))))))))))))))))))))))))))))))))))))))))))))))))))))))))))))))))))))))))))))))))))))))))))))))))))))))))))))))))))))))))))))))))))))))))))))))))))))))))))))))))))))))))))))))))))))))))))))))))))))))))))))))))))))))))))))))))))))))))))))))))))))))))))))))))))))))))))))))))))))))))))))))))))))))))))))))))))))))))))))))))))))))))))))))))))))))))))))))))))))))))))))))))))))))))))))))))))))))))))))))))))))))))))))))))))))))))))))))))))))))))))))))))))))))))))))))))))))))))))))))))))))))))))))))))))))))))))))))))))))))))))))))))))))))))))))))))))))))))))))))))))))))))))))))))))))))))))))))))))))))))))))))))))))))))))))))))))))))))))))))))))))))))))))))))))))))))))))))))))))))))))))))))))))))))))))))))))))))))))))))))))))))))))))))))))))))))))))))))))))))))))))))))))))))))))))))))))))))))))))))))))))))))))))))))))))))))))))))))))))))))))))))))))))))))))))))))))))))))))))))))))))))))))))))))))))))))))))))))))))))))))))))))))))))))))))))))))))))))))))))))))))))))))))))))))))))))))))))))))))))))))))))))))))))))))))))))))))))))))))))))))))))))))))))))))))))))))))))))))))))))))))))))))))))))))))))))))))))))))))))))))))))))))))))))))))))))))))))))))))))))
                   st.l1_levels i (add i (char_len e c)) st.l1_prev)
           (fun levels -> Ok ((from_or_i, None), levels))
       | PDI -> Ok ((from_or_i, None), st.l1_levels)
       | RLE ->
         bind
           (if legacy
            then upd (S (S (S (S (S (S (S (S (S (S (S (S (S (S (S (S (S (S (S
                   (S (S (S (S (S (S (S (S (S (S (S (S (S (S (S (S (S (S (S
                   (S (S (S (S (S (S (S (S (S (S (S (S (S (S (S (S (S (S (S
                   (S (S (S (S (S (S (S (S (S (S (S (S (S (S (S (S (S (S (S
                   (S (S (S (S (S (S (S (S (S (S (S (S (S (S (S (S (S (S (S
                   (S (S (S (S (S (S (S (S (S (S (S (S (S (S (S (S (S (S (S
                   (S (S (S (S (S (S (S (S (S (S (S (S (S (S (S (S (S (S (S
                   (S (S (S (S (S (S (S (S (S (S (S (S (S (S (S (S (S (S (S
                   (S (S (S (S (S (S (S (S (S (S (S (S (S (S (S (S (S (S (S
                   (S (S (S (S (S (S (S (S (S (S (S (S (S (S (S (S (S (S (S
                   (S (S (S (S (S (S (S (S (S (S (S (S (S (S (S (S (S (S (S
                   (S (S (S (S (S (S (S (S (S (S (S (S (S (S (S (S (S (S (S
                   (S (S (S (S (S (S (S (S (S (S (S (S (S (S (S (S (S (S (S
                   (S (S (S (S (S (S (S (S (S (S (S (S (S (S (S (S (S (S (S
                   (S (S (S (S (S (S (S (S (S (S (S (S (S (S (S (S (S (S (S
                   (S (S (S (S (S (S (S (S (S (S (S (S (S (S (S (S (S (S (S
                   (S (S (S (S (S (S (S (S (S (S (S (S (S (S (S (S (S (S (S
                   (S (S (S (S (S (S (S (S (S (S (S (S (S (S (S (S (S (S (S
                   (S (S (S (S (S (S (S (S (S (S (S (S (S (S (S (S (S (S (S
                   (S (S (S (S (S (S (S (S (S (S (S (S (S (S (S (S (S (S (S
                   (S (S (S (S (S (S (S (S (S (S (S (S (S (S (S (S (S (S (S
                   (S (S (S (S (S (S (S (S (S (S (S (S (S (S (S (S (S (S (S
                   (S (S (S (S (S (S (S (S (S (S (S (S (S (S (S (S (S (S (S
                   (S (S (S (S (S (S (S (S (S (S (S (S (S (S (S (S (S (S (S
                   (S (S (S (S (S (S (S (S (S (S (S (S (S (S (S (S (S (S (S
                   (S (S (S (S (S (S (S (S (S (S (S (S (S (S (S (S (S (S (S
                   (S (S (S (S (S (S (S (S (S (S (S (S (S (S (S (S (S (S (S
                   (S (S (S (S (S (S (S (S (S (S (S (S (S (S (S (S (S (S (S
                   (S (S (S (S (S (S (S (S (S (S (S (S (S (S (S (S (S (S (S
                   (S (S (S (S (S (S (S (S (S (S (S (S (S (S (S (S (S (S (S
                   (S (S (S (S (S (S (S (S (S (S (S (S (S (S (S (S (S (S (S
                   (S (S (S (S (S (S (S (S (S (S (S (S (S (S (S (S (S (S (S
                   (S (S (S (S (S (S (S (S (S (S (S (S (S (S (S (S (S (S (S
                   (S (S (S (S (S (S (S (S (S (S (S (S (S (S (S (S (S (S (S
                   (S (S (S (S (S (S (S (S (S (S (S (S (S (S (S (S (S (S (S
                   (S (S (S (S (S (S (S (S (S (S (S (S (S (S (S (S (S (S (S
                   (S (S (S (S (S (S (S (S (S (S (S (S (S (S (S (S (S (S (S
                   (S (S (S (S (S (S (S (S (S (S (S (S (S (S (S (S (S (S (S
                   (S (S (S (S (S (S (S (S (S (S (S (S (S (S (S (S (S (S (S
                   (S (S (S (S (S (S (S (S (S (S (S (S (S (S (S (S (S (S (S
                   (S (S (S (S (S (S (S (S (S (S (S (S (S (S (S (S (S (S (S
                   (S (S (S (S (S (S (S (S (S (S (S (S (S (S (S (S (S (S (S
                   (S (S (S (S (S (S (S (S (S (S (S (S (S (S (S (S (S (S (S
                   (S (S (S (S (S (S (S (S (S (S (S (S (S (S (S (S (S (S (S
                   (S (S (S (S (S (S (S (S (S (S (S (S (S (S (S (S (S (S (S
                   (S (S (S (S (S (S (S (S (S (S (S (S (S (S (S (S (S (S (S
                   (S (S (S (S (S (S (S (S (S (S (S (S (S (S (S (S (S (S (S
                   (S (S (S (S (S (S (S (S (S (S (S (S (S (S (S (S (S (S (S
                   (S (S (S (S (S (S (S (S (S (S (S (S (S (S (S (S (S (S (S
                   (S (S (S (S (S (S (S (S (S (S (S (S (S (S (S (S (S (S (S
                   (S (S (S (S (S (S (S (S (S (S (S (S (S (S (S (S (S (S (S
                   (S (S (S (S (S (S (S (S (S (S (S (S (S (S (S (S (S (S (S
                   (S (S (S (S (S (S (S (S (S (S (S (S (S (S (S (S (S (S (S
                   (S (S (S (S (S (S (S (S (S (S (S (S (S (S (S (S (S (S (S
                   (S (S (S (S (S (S (S (S (S (S (S (S (S (S (S (S (S (S (S
                   (S (S (S (S (S (S (S (S (S (S (S (S (S (S (S (S (S (S (S
                   (S (S (S (S (S (S (S (S (S (S (S (S (S (S (S (S (S (S (S
                   (S (S (S (S (S (S (S (S (S (S (S (S (S (S (S (S (S (S (S
                   (S (S (S (S (S (S (S (S (S (S (S (S (S (S (S (S (S (S (S
                   (S (S (S (S (S (S (S (S (S (S (S (S (S (S (S (S (S (S (S
                   (S (S (S (S (S (S (S (S (S (S (S (S (S (S (S (S (S (S (S
                   (S (S (S (S (S (S (S (S (S (S (S (S (S (S (S (S (S (S (S
                   (S (S
                   O))))))))))))))))))))))))))))))))))))))))))))))))))))))))))))))))))))))))))))))))))))))))))))))))))))))))))))))))))))))))))))))))))))))))))))))))))))))))))))))))))))))))))))))))))))))))))))))))))))))))))))))))))))))))))))))))))))))))))))))))))))))))))))))))))))))))))))))))))))))))))))))))))))))))))))))))))))))))))))))))))))))))))))))))))))))))))))))))))))))))))))))))))))))))))))))))))))))))))))))))))))))))))))))))))))))))))))))))))))))))))))))))))))))))))))))))))))))))))))))))))))))))))))))))))))))))))))))))))))))))))))))))))))))))))))))))))))))))))))))))))))))))))))))))))))))))))))))))))))))))))))))))))))))))))))))))))))))))))))))))))))))))))))))))))))))))))))))))))))))))))))))))))))))))))))))))))))))))))))))))))))))))))))))))))))))))))))))))))))))))))))))))))))))))))))))))))))))))))))))))))))))))))))))))))))))))))))))))))))))))))))))))))))))))))))))))))))))))))))))))))))))))))))))))))))))))))))))))))))))))))))))))))))))))))))))))))))))))))))))))))))))))))))))))))))))))))))))))))))))))))))))))))))))))))))))))))))))))))))))))))))))))))))))))))))))))))))))))))))))))))))))))))))))))))))))))))))))))))))))))))))))))))))))))))))))))))))))))))))))))))))))))))))))))))))
                   st.l1_levels i st.l1_prev
            else set_range (S (S (S (S (S (S (S (S (S (S (S (S (S (S (S (S (S
                   (S (S (S (S (S (S (S (S (S (S (S (S (S (S (S (S (S (S (S
                   (S (S (S (S (S (S (S (S (S (S (S (S (S (S (S (S (S (S (S
                   (S (S (S (S (S (S (S (S (S (S (S (S (S (S (S (S (S (S (S
                   (S (S (S (S (S (S (S (S (S (S (S (S (S (S (S (S (S (S (S
                   (S (S (S (S (S (S (S (S (S (S (S (S (S (S (S (S (S (S (S
                   (S (S (S (S (S (S (S (S (S (S (S (S (S (S (S (S (S (S (S
                   (S (S (S (S (S (S (S (S (S (S (S (S (S (S (S (S (S (S (S
                   (S (S (S (S (S (S (S (S (S (S (S (S (S (S (S (S (S (S (S
                   (S (S (S (S (S (S (S (S (S (S (S (S (S (S (S (S (S (S (S
                   (S (S (S (S (S (S (S (S (S (S (S (S (S (S (S (S (S (S (S
                   (S (S (S (S (S (S (S (S (S (S (S (S (S (S (S (S (S (S (S
                   (S (S (S (S (S (S (S (S (S (S (S (S (S (S (S (S (S (S (S
                   (S (S (S (S (S (S (S (S (S (S (S (S (S (S (S (S (S (S (S
                   (S (S (S (S (S (S (S (S (S (S (S (S (S (S (S (S (S (S (S
                   (S (S (S (S (S (S (S (S (S (S (S (S (S (S (S (S (S (S (S
                   (S (S (S (S (S (S (S (S (S (S (S (S (S (S (S (S (S (S (S
                   (S (S (S (S (S (S (S (S (S (S (S (S (S (S (S (S (S (S (S
                   (S (S (S (S (S (S (S (S (S (S (S (S (S (S (S (S (S (S (S
                   (S (S (S (S (S (S (S (S (S (S (S (S (S (S (S (S (S (S (S
                   (S (S (S (S (S (S (S (S (S (S (S (S (S (S (S (S (S (S (S
                   (S (S (S (S (S (S (S (S (S (S (S (S (S (S (S (S (S (S (S
                   (S (S (S (S (S (S (S (S (S (S (S (S (S (S (S (S (S (S (S
                   (S (S (S (S (S (S (S (S (S (S (S (S (S (S (S (S (S (S (S
                   (S (S (S (S (S (S (S (S (S (S (S (S (S (S (S (S (S (S (S
                   (S (S (S (S (S (S (S (S (S (S (S (S (S (S (S (S (S (S (S
                   (S (S (S (S (S (S (S (S (S (S (S (S (S (S (S (S (S (S (S
                   (S (S (S (S (S (S (S (S (S (S (S (S (S (S (S (S (S (S (S
                   (S (S (S (S (S (S (S (S (S (S (S (S (S (S (S (S (S (S (S
                   (S (S (S (S (S (S (S (S (S (S (S (S (S (S (S (S (S (S (S
                   (S (S (S (S (S (S (S (S (S (S (S (S (S (S (S (S (S (S (S
                   (S (S (S (S (S (S (S (S (S (S (S (S (S (S (S (S (S (S (S
                   (S (S (S (S (S (S (S (S (S (S (S (S (S (S (S (S (S (S (S
                   (S (S (S (S (S (S (S (S (S (S (S (S (S (S (S (S (S (S (S
                   (S (S (S (S (S (S (S (S (S (S (S (S (S (S (S (S (S (S (S
                   (S (S (S (S (S (S (S (S (S (S (S (S (S (S (S (S (S (S (S
                   (S (S (S (S (S (S (S (S (S (S (S (S (S (S (S (S (S (S (S
                   (S (S (S (S (S (S (S (S (S (S (S (S (S (S (S (S (S (S (S
                   (S (S (S (S (S (S (S (S (S (S (S (S (S (S (S (S (S (S (S
                   (S (S (S (S (S (S (S (S (S (S (S (S (S (S (S (S (S (S (S
                   (S (S (S (S (S (S (S (S (S (S (S (S (S (S (S (S (S (S (S
                   (S (S (S (S (S (S (S (S (S (S (S (S (S (S (S (S (S (S (S
                   (S (S (S (S (S (S (S (S (S (S (S (S (S (S (S (S (S (S (S
                   (S (S (S (S (S (S (S (S (S (S (S (S (S (S (S (S (S (S (S
                   (S (S (S (S (S (S (S (S (S (S (S (S (S (S (S (S (S (S (S
                   (S (S (S (S (S (S (S (S (S (S (S (S (S (S (S (S (S (S (S
                   (S (S (S (S (S (S (S (S (S (S (S (S (S (S (S (S (S (S (S
                   (S (S (S (S (S (S (S (S (S (S (S (S (S (S (S (S (S (S (S
                   (S (S (S (S (S (S (S (S (S (S (S (S (S (S (S (S (S (S (S
                   (S (S (S (S (S (S (S (S (S (S (S (S (S (S (S (S (S (S (S
                   (S (S (S (S (S (S (S (S (S (S (S (S (S (S (S (S (S (S (S
                   (S (S (S (S (S (S (S (S (S (S (S (S (S (S (S (S (S (S (S
                   (S (S (S (S (S (S (S (S (S (S (S (S (S (S (S (S (S (S (S
                   (S (S (S (S (S (S (S (S (S (S (S (S (S (S (S (S (S (S (S
                   (S (S (S (S (S (S (S (S (S (S (S (S (S (S (S (S (S (S (S
                   (S (S (S (S (S (S (S (S (S (S (S (S (S (S (S (S (S (S (S
                   (S (S (S (S (S (S (S (S (S (S (S (S (S (S (S (S (S (S (S
                   (S (S (S (S (S (S (S (S (S (S (S (S (S (S (S (S (S (S (S
                   (S (S (S (S (S (S (S (S (S (S (S (S (S (S (S (S (S (S (S
                   (S (S (S (S (S (S (S (S (S (S (S (S (S (S (S (S (S (S (S
                   (S (S (S (S (S (S (S (S (S (S (S (S (S (S (S (S (S (S (S
                   (S (S (S (S (S (S (S (S (S (S (S (S (S (S (S (S (S (S (S
                   (S (S (S (S (S (S (S
                   O)))))))))))))))))))))))))))))))))))))))))))))))))))))))))))))))))))))))))))))))))))))))))))))))))))))))))))))))))))))))))))))))))))))))))))))))))))))))))))))))))))))))))))))))))))))))))))))))))))))))))))))))))))))))))))))))))))))))))))))))))))))))))))))))))))))))))))))))))))))))))))))))))))))))))))))))))))))))))))))))))))))))))))))))))))))))))))))))))))))))))))))))))))))))))))))))))))))))))))))))))))))))))))))))))))))))))))))))))))))))))))))))))))))))))))))))))))))))))))))))))))))))))))))))))))))))))))))))))))))))))))))))))))))))))))))))))))))))))))))))))))))))))))))))))))))))))))))))))))))))))))))))))))))))))))))))))))))))))))))))))))))))))))))))))))))))))))))))))))))))))))))))))))))))))))))))))))))))))))))))))))))))))))))))))))))))))))))))))))))))))))))))))))))))))))))))))))))))))))))))))))))))))))))))))))))))))))))))))))))))))))))))))))))))))))))))))))))))))))))))))))))))))))))))))))))))))))))))))))))))))))))))))))))))))))))))))))))))))))))))))))))))))))))))))))))))))))))))))))))))))))))))))))))))))))))))))))))))))))))))))))))))))))))))))))))))))))))))))))))))))))))))))))))))))))))))))))))))))))))))))))))))))))))))))))))))))))))))))))))))))))))))))))))))))))))))
                   st.l1_levels i (add i (char_len e c)) st.l1_prev)
           (fun levels -> Ok ((from_or_i, None), levels))
       | RLI -> Ok ((from_or_i, None), st.l1_levels)
       | RLO ->
         bind
           (if legacy
            then upd (S (S (S (S (S (S (S (S (S (S (S (S (S (S (S (S (S (S (S
                   (S (S (S (S (S (S (S (S (S (S (S (S (S (S (S (S (S (S (S
                   (S (S (S (S (S (S (S (S (S (S (S (S (S (S (S (S (S (S (S
                   (S (S (S (S (S (S (S (S (S (S (S (S (S (S (S (S (S (S (S
                   (S (S (S (S (S (S (S (S (S (S (S (S (S (S (S (S (S (S (S
                   (S (S (S (S (S (S (S (S (S (S (S (S (S (S (S (S (S (S (S
                   (S (S (S (S (S (S (S (S (S (S (S (S (S (S (S (S (S (S (S
                   (S (S (S (S (S (S (S (S (S (S (S (S (S (S (S (S (S (S (S
                   (S (S (S (S (S (S (S (S (S (S (S (S (S (S (S (S (S (S (S
                   (S (S (S (S (S (S (S (S (S (S (S (S (S (S (S (S (S (S (S
                   (S (S (S (S (S (S (S (S (S (S (S (S (S (S (S (S (S (S (S
                   (S (S (S (S (S (S (S (S (S (S (S (S (S (S (S (S (S (S (S
                   (S (S (S (S (S (S (S (S (S (S (S (S (S (S (S (S (S (S (S
                   (S (S (S (S (S (S (S (S (S (S (S (S (S (S (S (S (S (S (S
                   (S (S (S (S (S (S (S (S (S (S (S (S (S (S (S (S (S (S (S
                   (S (S (S (S (S (S (S (S (S (S (S (S (S (S (S (S (S (S (S
                   (S (S (S (S (S (S (S (S (S (S (S (S (S (S (S (S (S (S (S
                   (S (S (S (S (S (S (S (S (S (S (S (S (S (S (S (S (S (S (S
                   (S (S (S (S (S (S (S (S (S (S (S (S (S (S (S (S (S (S (S
                   (S (S (S (S (S (S (S (S (S (S (S (S (S (S (S (S (S (S (S
                   (S (S (S (S (S (S (S (S (S (S (S (S (S (S (S (S (S (S (S
                   (S (S (S (S (S (S (S (S (S (S (S (S (S (S (S (S (S (S (S
                   (S (S (S (S (S (S (S (S (S (S (S (S (S (S (S (S (S (S (S
                   (S (S (S (S (S (S (S (S (S (S (S (S (S (S (S (S (S (S (S
                   (S (S (S (S (S (S (S (S (S (S (S (S (S (S (S (S (S (S (S
                   (S (S (S (S (S (S (S (S (S (S (S (S (S (S (S (S (S (S (S
                   (S (S (S (S (S (S (S (S (S (S (S (S (S (S (S (S (S (S (S
                   (S (S (S (S (S (S (S (S (S (S (S (S (S (S (S (S (S (S (S
                   (S (S (S (S (S (S (S (S (S (S (S (S (S (S (S (S (S (S (S
                   (S (S (S (S (S (S (S (S (S (S (S (S (S (S (S (S (S (S (S
                   (S (S (S (S (S (S (S (S (S (S (S (S (S (S (S (S (S (S (S
                   (S (S (S (S (S (S (S (S (S (S (S (S (S (S (S (S (S (S (S
                   (S (S (S (S (S (S (S (S (S (S (S (S (S (S (S (S (S (S (S
                   (S (S (S (S (S (S (S (S (S (S (S (S (S (S (S (S (S (S (S
                   (S (S (S (S (S (S (S (S (S (S (S (S (S (S (S (S (S (S (S
                   (S (S (S (S (S (S (S (S (S (S (S (S (S (S (S (S (S (S (S
                   (S (S (S (S (S (S (S (S (S (S (S (S (S (S (S (S (S (S (S
                   (S (S (S (S (S (S (S (S (S (S (S (S (S (S (S (S (S (S (S
                   (S (S (S (S (S (S (S (S (S (S (S (S (S (S (S (S (S (S (S
                   (S (S (S (S (S (S (S (S (S (S (S (S (S (S (S (S (S (S (S
                   (S (S (S (S (S (S (S (S (S (S (S (S (S (S (S (S (S (S (S
                   (S (S (S (S (S (S (S (S (S (S (S (S (S (S (S (S (S (S (S
                   (S (S (S (S (S (S (S (S (S (S (S (S (S (S (S (S (S (S (S
                   (S (S (S (S (S (S (S (S (S (S (S (S (S (S (S (S (S (S (S
                   (S (S (S (S (S (S (S (S (S (S (S (S (S (S (S (S (S (S (S
                   (S (S (S (S (S (S (S (S (S (S (S (S (S (S (S (S (S (S (S
                   (S (S (S (S (S (S (S (S (S (S (S (S (S (S (S (S (S (S (S
                   (S (S (S (S (S (S (S (S (S (S (S (S (S (S (S (S (S (S (S
                   (S (S (S (S (S (S (S (S (S (S (S (S (S (S (S (S (S (S (S
                   (S (S (S (S (S (S (S (S (S (S (S (S (S (S (S (S (S (S (S
                   (S (S (S (S (S (S (S (S (S (S (S (S (S (S (S (S (S (S (S
                   (S (S (S (S (S (S (S (S (S (S (S (S (S (S (S (S (S (S (S
                   (S (S (S (S (S (S (S (S (S (S (S (S (S (S (S (S (S (S (S
                   (S (S (S (S (S (S (S (S (S (S (S (S (S (S (S (S (S (S (S
                   (S (S (S (S (S (S (S (S (S (S (S (S (S (S (S (S (S (S (S
                   (S (S (S (S (S (S (S (S (S (S (S (S (S (S (S (S (S (S (S
                   (S (S (S (S (S (S (S (S (S (S (S (S (S (S (S (S (S (S (S
                   (S (S (S (S (S (S (S (S (S (S (S (S (S (S (S (S (S (S (S
                   (S (S (S (S (S (S (S (S (S (S (S (S (S (S (S (S (S (S (S
                   (S (S (S (S (S (S (S (S (S (S (S (S (S (S (S (S (S (S (S
                   (S (S (S (S (S (S (S (S (S (S (S (S (S (S (S (S (S (S (S
                   (S (S (S (S (S (S (S (S (S (S (S (S (S (S (S (S (S (S (S
                   (S (S
                   O))))))))))))))))))))))))))))))))))))))))))))))))))))))))))))))))))))))))))))))))))))))))))))))))))))))))))))))))))))))))))))))))))))))))))))))))))))))))))))))))))))))))))))))))))))))))))))))))))))))))))))))))))))))))))))))))))))))))))))))))))))))))))))))))))))))))))))))))))))))))))))))))))))))))))))))))))))))))))))))))))))))))))))))))))))))))))))))))))))))))))))))))))))))))))))))))))))))))))))))))))))))))))))))))))))))))))))))))))))))))))))))))))))))))))))))))))))))))))))))))))))))))))))))))))))))))))))))))))))))))))))))))))))))))))))))))))))))))))))))))))))))))))))))))))))))))))))))))))))))))))))))))))))))))))))))))))))))))))))))))))))))))))))))))))))))))))))))))))))))))))))))))))))))))))))))))))))))))))))))))))))))))))))))))))))))))))))))))))))))))))))))))))))))))))))))))))))))))))))))))))))))))))))))))))))))))))))))))))))))))))))))))))))))))))))))))))))))))))))))))))))))))))))))))))))))))))))))))))))))))))))))))))))))))))))))))))))))))))))))))))))))))))))))))))))))))))))))))))))))))))))))))))))))))))))))))))))))))))))))))))))))))))))))))))))))))))))))))))))))))))))))))))))))))))))))))))))))))))))))))))))))))))))))))))))))))))))))))))))))))))))))))))))))))))))
                   st.l1_levels i st.l1_prev
            else set_range (S (S (S (S (S (S (S (S (S (S (S (S (S (S (S (S (S
                   (S (S (S (S (S (S (S (S (S (S (S (S (S (S (S (S (S (S (S
                   (S (S (S (S (S (S (S (S (S (S (S (S (S (S (S (S (S (S (S
                   (S (S (S (S (S (S (S (S (S (S (S (S (S (S (S (S (S (S (S
                   (S (S (S (S (S (S (S (S (S (S (S (S (S (S (S (S (S (S (S
                   (S (S (S (S (S (S (S (S (S (S (S (S (S (S (S (S (S (S (S
                   (S (S (S (S (S (S (S (S (S (S (S (S (S (S (S (S (S (S (S
                   (S (S (S (S (S (S (S (S (S (S (S (S (S (S (S (S (S (S (S
                   (S (S (S (S (S (S (S (S (S (S (S (S (S (S (S (S (S (S (S
                   (S (S (S (S (S (S (S (S (S (S (S (S (S (S (S (S (S (S (S
                   (S (S (S (S (S (S (S (S (S (S (S (S (S (S (S (S (S (S (S
                   (S (S (S (S (S (S (S (S (S (S (S (S (S (S (S (S (S (S (S
                   (S (S (S (S (S (S (S (S (S (S (S (S (S (S (S (S (S (S (S
                   (S (S (S (S (S (S (S (S (S (S (S (S (S (S (S (S (S (S (S
                   (S (S (S (S (S (S (S (S (S (S (S (S (S (S (S (S (S (S (S
                   (S (S (S (S (S (S (S (S (S (S (S (S (S (S (S (S (S (S (S
                   (S (S (S (S (S (S (S (S (S (S (S (S (S (S (S (S (S (S (S
                   (S (S (S (S (S (S (S (S (S (S (S (S (S (S (S (S (S (S (S
                   (S (S (S (S (S (S (S (S (S (S (S (S (S (S (S (S (S (S (S
                   (S (S (S (S (S (S (S (S (S (S (S (S (S (S (S (S (S (S (S
                   (S (S (S (S (S (S (S (S (S (S (S (S (S (S (S (S (S (S (S
                   (S (S (S (S (S (S (S (S (S (S (S (S (S (S (S (S (S (S (S
                   (S (S (S (S (S (S (S (S (S (S (S (S (S (S (S (S (S (S (S
                   (S (S (S (S (S (S (S (S (S (S (S (S (S (S (S (S (S (S (S
                   (S (S (S (S (S (S (S (S (S (S (S (S (S (S (S (S (S (S (S
                   (S (S (S (S (S (S (S (S (S (S (S (S (S (S (S (S (S (S (S
                   (S (S (S (S (S (S (S (S (S (S (S (S (S (S (S (S (S (S (S
                   (S (S (S (S (S (S (S (S (S (S (S (S (S (S (S (S (S (S (S
                   (S (S (S (S (S (S (S (S (S (S (S (S (S (S (S (S (S (S (S
                   (S (S (S (S (S (S (S (S (S (S (S (S (S (S (S (S (S (S (S
                   (S (S (S (S (S (S (S (S (S (S (S (S (S (S (S (S (S (S (S
                   (S (S (S (S (S (S (S (S (S (S (S (S (S (S (S (S (S (S (S
                   (S (S (S (S (S (S (S (S (S (S (S (S (S (S (S (S (S (S (S
                   (S (S (S (S (S (S (S (S (S (S (S (S (S (S (S (S (S (S (S
                   (S (S (S (S (S (S (S (S (S (S (S (S (S (S (S (S (S (S (S
                   (S (S (S (S (S (S (S (S (S (S (S (S (S (S (S (S (S (S (S
                   (S (S (S (S (S (S (S (S (S (S (S (S (S (S (S (S (S (S (S
                   (S (S (S (S (S (S (S (S (S (S (S (S (S (S (S (S (S (S (S
                   (S (S (S (S (S (S (S (S (S (S (S (S (S (S (S (S (S (S (S
                   (S (S (S (S (S (S (S (S (S (S (S (S (S (S (S (S (S (S (S
                   (S (S (S (S (S (S (S (S (S (S (S (S (S (S (S (S (S (S (S
                   (S (S (S (S (S (S (S (S (S (S (S (S (S (S (S (S (S (S (S
                   (S (S (S (S (S (S (S (S (S (S (S (S (S (S (S (S (S (S (S
                   (S (S (S (S (S (S (S (S (S (S (S (S (S (S (S (S (S (S (S
                   (S (S (S (S (S (S (S (S (S (S (S (S (S (S (S (S (S (S (S
                   (S (S (S (S (S (S (S (S (S (S (S (S (S (S (S (S (S (S (S
                   (S (S (S (S (S (S (S (S (S (S (S (S (S (S (S (S (S (S (S
                   (S (S (S (S (S (S (S (S (S (S (S (S (S (S (S (S (S (S (S
                   (S (S (S (S (S (S (S (S (S (S (S (S (S (S (S (S (S (S (S
                   (S (S (S (S (S (S (S (S (S (S (S (S (S (S (S (S (S (S (S
                   (S (S (S (S (S (S (S (S (S (S (S (S (S (S (S (S (S (S (S
                   (S (S (S (S (S (S (S (S (S (S (S (S (S (S (S (S (S (S (S
                   (S (S (S (S (S (S (S (S (S (S (S (S (S (S (S (S (S (S (S
                   (S (S (S (S (S (S (S (S (S (S (S (S (S (S (S (S (S (S (S
                   (S (S (S (S (S (S (S (S (S (S (S (S (S (S (S (S (S (S (S
                   (S (S (S (S (S (S (S (S (S (S (S (S (S (S (S (S (S (S (S
                   (S (S (S (S (S (S (S (S (S (S (S (S (S (S (S (S (S (S (S
                   (S (S (S (S (S (S (S (S (S (S (S (S (S (S (S (S (S (S (S
                   (S (S (S (S (S (S (S (S (S (S (S (S (S (S (S (S (S (S (S
                   (S (S (S (S (S (S (S (S (S (S (S (S (S (S (S (S (S (S (S
                   (S (S (S (S (S (S (S (S (S (S (S (S (S (S (S (S (S (S (S
                   (S (S (S (S (S (S (S (S (S (S (S (S (S (S (S (S (S (S (S
                   (S (S (S (S (S (S (S
                   O)))))))))))))))))))))))))))))))))))))))))))))))))))))))))))))))))))))))))))))))))))))))))))))))))))))))))))))))))))))))))))))))))))))))))))))))))))))))))))))))))))))))))))))))))))))))))))))))))))))))))))))))))))))))))))))))))))))))))))))))))))))))))))))))))))))))))))))))))))))))))))))))))))))))))))))))))))))))))))))))))))))))))))))))))))))))))))))))))))))))))))))))))))))))))))))))))))))))))))))))))))))))))))))))))))))))))))))))))))))))))))))))))))))))))))))))))))))))))))))))))))))))))))))))))))))))))))))))))))))))))))))))))))))))))))))))))))))))))))))))))))))))))))))))))))))))))))))))))))))))))))))))))))))))))))))))))))))))))))))))))))))))))))))))))))))))))))))))))))))))))))))))))))))))))))))))))))))))))))))))))))))))))))))))))))))))))))))))))))))))))))))))))))))))))))))))))))))))))))))))))))))))))))))))))))))))))))))))))))))))))))))))))))))))))))))))))))))))))))))))))))))))))))))))))))))))))))))))))))))))))))))))))))))))))))))))))))))))))))))))))))))))))))))))))))))))))))))))))))))))))))))))))))))))))))))))))))))))))))))))))))))))))))))))))))))))))))))))))))))))))))))))))))))))))))))))))))))))))))))))))))))))))))))))))))))))))))))))))))))))))))))))))))))))))))))))
                   st.l1_levels i (add i (char_len e c)) st.l1_prev)
           (fun levels -> Ok ((from_or_i, None), levels))
       | SS -> Ok ((from_or_i, (Some (add i (char_len e c)))), st.l1_levels)
       | WS -> Ok ((from_or_i, None), st.l1_levels)
       | _ -> Ok ((None, None), st.l1_levels)) (fun x ->
      let (p, levels) = x in
      let (from, to0) = p in
      bind
        (match from with
         | Some f ->
           (match to0 with
            | Some t ->
              bind
                (set_range (S (S (S (S (S (S (S (S (S (S (S (S (S (S (S (S (S
                  (S (S (S (S (S (S (S (S (S (S (S (S (S (S (S (S (S (S (S (S
                  (S (S (S (S (S (S (S (S (S (S (S (S (S (S (S (S (S (S (S (S
                  (S (S (S (S (S (S (S (S (S (S (S (S (S (S (S (S (S (S (S (S
                  (S (S (S (S (S (S (S (S (S (S (S (S (S (S (S (S (S (S (S (S
                  (S (S (S (S (S (S (S (S (S (S (S (S (S (S (S (S (S (S (S (S
                  (S (S (S (S (S (S (S (S (S (S (S (S (S (S (S (S (S (S (S (S
                  (S (S (S (S (S (S (S (S (S (S (S (S (S (S (S (S (S (S (S (S
                  (S (S (S (S (S (S (S (S (S (S (S (S (S (S (S (S (S (S (S (S
                  (S (S (S (S (S (S (S (S (S (S (S (S (S (S (S (S (S (S (S (S
                  (S (S (S (S (S (S (S (S (S (S (S (S (S (S (S (S (S (S (S (S
                  (S (S (S (S (S (S (S (S (S (S (S (S (S (S (S (S (S (S (S (S
                  (S (S (S (S (S (S (S (S (S (S (S (S (S (S (S (S (S (S (S (S
                  (S (S (S (S (S (S (S (S (S (S (S (S (S (S (S (S (S (S (S (S
                  (S (S (S (S (S (S (S (S (S (S (S (S (S (S (S (S (S (S (S (S
                  (S (S (S (S (S (S (S (S (S (S (S (S (S (S (S (S (S (S (S (S
                  (S (S (S (S (S (S (S (S (S (S (S (S (S (S (S (S (S (S (S (S
                  (S (S (S (S (S (S (S (S (S (S (S (S (S (S (S (S (S (S (S (S
                  (S (S (S (S (S (S (S (S (S (S (S (S (S (S (S (S (S (S (S (S
                  (S (S (S (S (S (S (S (S (S (S (S (S (S (S (S (S (S (S (S (S
                  (S (S (S (S (S (S (S (S (S (S (S (S (S (S (S (S (S (S (S (S
                  (S (S (S (S (S (S (S (S (S (S (S (S (S (S (S (S (S (S (S (S
                  (S (S (S (S (S (S (S (S (S (S (S (S (S (S (S (S (S (S (S (S
                  (S (S (S (S (S (S (S (S (S (S (S (S (S (S (S (S (S (S (S (S
                  (S (S (S (S (S (S (S (S (S (S (S (S (S (S (S (S (S (S (S (S
                  (S (S (S (S (S (S (S (S (S (S (S (S (S (S (S (S (S (S (S (S
                  (S (S (S (S (S (S (S (S (S (S (S (S (S (S (S (S (S (S (S (S
                  (S (S (S (S (S (S (S (S (S (S (S (S (S (S (S (S (S (S (S (S
                  (S (S (S (S (S (S (S (S (S (S (S (S (S (S (S (S (S (S (S (S
                  (S (S (S (S (S (S (S (S (S (S (S (S (S (S (S (S (S (S (S (S
                  (S (S (S (S (S (S (S (S (S (S (S (S (S (S (S (S (S (S (S (S
                  (S (S (S (S (S (S (S (S (S (S (S (S (S (S (S (S (S (S (S (S
                  (S (S (S (S (S (S (S (S (S (S (S (S (S (S (S (S (S (S (S (S
                  (S (S (S (S (S (S (S (S (S (S (S (S (S (S (S (S (S (S (S (S
                  (S (S (S (S (S (S (S (S (S (S (S (S (S (S (S (S (S (S (S (S
                  (S (S (S (S (S (S (S (S (S (S (S (S (S (S (S (S (S (S (S (S
                  (S (S (S (S (S (S (S (S (S (S (S (S (S (S (S (S (S (S (S (S
                  (S (S (S (S (S (S (S (S (S (S (S (S (S (S (S (S (S (S (S (S
                  (S (S (S (S (S (S (S (S (S (S (S (S (S (S (S (S (S (S (S (S
                  (S (S (S (S (S (S (S (S (S (S (S (S (S (S (S (S (S (S (S (S
                  (S (S (S (S (S (S (S (S (S (S (S (S (S (S (S (S (S (S (S (S
                  (S (S (S (S (S (S (S (S (S (S (S (S (S (S (S (S (S (S (S (S
                  (S (S (S (S (S (S (S (S (S (S (S (S (S (S (S (S (S (S (S (S
                  (S (S (S (S (S (S (S (S (S (S (S (S (S (S (S (S (S (S (S (S
                  (S (S (S (S (S (S (S (S (S (S (S (S (S (S (S (S (S (S (S (S
                  (S (S (S (S (S (S (S (S (S (S (S (S (S (S (S (S (S (S (S (S
                  (S (S (S (S (S (S (S (S (S (S (S (S (S (S (S (S (S (S (S (S
                  (S (S (S (S (S (S (S (S (S (S (S (S (S (S (S (S (S (S (S (S
                  (S (S (S (S (S (S (S (S (S (S (S (S (S (S (S (S (S (S (S (S
                  (S (S (S (S (S (S (S (S (S (S (S (S (S (S (S (S (S (S (S (S
                  (S (S (S (S (S (S (S (S (S (S (S (S (S (S (S (S (S (S (S (S
                  (S (S (S (S (S (S (S (S (S (S (S (S (S (S (S (S (S (S (S (S
                  (S (S (S (S (S (S (S (S (S (S (S (S (S (S (S (S (S (S (S (S
                  (S (S (S (S (S (S (S (S (S (S (S (S (S (S (S (S (S (S (S (S
                  (S (S (S (S (S (S (S (S (S (S (S (S (S (S (S (S (S (S (S (S
                  (S (S (S (S (S (S (S (S (S (S (S (S (S (S (S (S (S (S (S (S
                  (S (S (S (S (S (S (S (S (S (S (S (S (S (S (S (S (S (S (S (S
                  (S (S (S (S (S (S (S (S (S (S (S (S (S (S (S (S (S (S (S (S
                  (S (S (S (S (S (S (S (S (S (S (S (S (S (S (S (S (S (S (S (S
                  (S (S (S (S (S (S (S (S (S (S
                  O)))))))))))))))))))))))))))))))))))))))))))))))))))))))))))))))))))))))))))))))))))))))))))))))))))))))))))))))))))))))))))))))))))))))))))))))))))))))))))))))))))))))))))))))))))))))))))))))))))))))))))))))))))))))))))))))))))))))))))))))))))))))))))))))))))))))))))))))))))))))))))))))))))))))))))))))))))))))))))))))))))))))))))))))))))))))))))))))))))))))))))))))))))))))))))))))))))))))))))))))))))))))))))))))))))))))))))))))))))))))))))))))))))))))))))))))))))))))))))))))))))))))))))))))))))))))))))))))))))))))))))))))))))))))))))))))))))))))))))))))))))))))))))))))))))))))))))))))))))))))))))))))))))))))))))))))))))))))))))))))))))))))))))))))))))))))))))))))))))))))))))))))))))))))))))))))))))))))))))))))))))))))))))))))))))))))))))))))))))))))))))))))))))))))))))))))))))))))))))))))))))))))))))))))))))))))))))))))))))))))))))))))))))))))))))))))))))))))))))))))))))))))))))))))))))))))))))))))))))))))))))))))))))))))))))))))))))))))))))))))))))))))))))))))))))))))))))))))))))))))))))))))))))))))))))))))))))))))))))))))))))))))))))))))))))))))))))))))))))))))))))))))))))))))))))))))))))))))))))))))))))))))))))))))))))))))))))))))))))))))))))))))))))))))))))))))))))
                  levels f t para_level0) (fun levels0 -> Ok (None, levels0))
            | None -> Ok (from, levels))
         | None -> Ok (from, levels)) (fun x0 ->
        let (from0, levels0) = x0 in
        bind
          (get (S (S (S (S (S (S (S (S (S (S (S (S (S (S (S (S (S (S (S (S (S
            (S (S (S (S (S (S (S (S (S (S (S (S (S (S (S (S (S (S (S (S (S (S
            (S (S (S (S (S (S (S (S (S (S (S (S (S (S (S (S (S (S (S (S (S (S
            (S (S (S (S (S (S (S (S (S (S (S (S (S (S (S (S (S (S (S (S (S (S
            (S (S (S (S (S (S (S (S (S (S (S (S (S (S (S (S (S (S (S (S (S (S
            (S (S (S (S (S (S (S (S (S (S (S (S (S (S (S (S (S (S (S (S (S (S
            (S (S (S (S (S (S (S (S (S (S (S (S (S (S (S (S (S (S (S (S (S (S
            (S (S (S (S (S (S (S (S (S (S (S (S (S (S (S (S (S (S (S (S (S (S
            (S (S (S (S (S (S (S (S (S (S (S (S (S (S (S (S (S (S (S (S (S (S
            (S (S (S (S (S (S (S (S (S (S (S (S (S (S (S (S (S (S (S (S (S (S
            (S (S (S (S (S (S (S (S (S (S (S (S (S (S (S (S (S (S (S (S (S (S
            (S (S (S (S (S (S (S (S (S (S (S (S (S (S (S (S (S (S (S (S (S (S
            (S (S (S (S (S (S (S (S (S (S (S (S (S (S (S (S (S (S (S (S (S (S
            (S (S (S (S (S (S (S (S (S (S (S (S (S (S (S (S (S (S (S (S (S (S
            (S (S (S (S (S (S (S (S (S (S (S (S (S (S (S (S (S (S (S (S (S (S
            (S (S (S (S (S (S (S (S (S (S (S (S (S (S (S (S (S (S (S (S (S (S
            (S (S (S (S (S (S (S (S (S (S (S (S (S (S (S (S (S (S (S (S (S (S
            (S (S (S (S (S (S (S (S (S (S (S (S (S (S (S (S (S (S (S (S (S (S
            (S (S (S (S (S (S (S (S (S (S (S (S (S (S (S (S (S (S (S (S (S (S
            (S (S (S (S (S (S (S (S (S (S (S (S (S (S (S (S (S (S (S (S (S (S
            (S (S (S (S (S (S (S (S (S (S (S (S (S (S (S (S (S (S (S (S (S (S
            (S (S (S (S (S (S (S (S (S (S (S (S (S (S (S (S (S (S (S (S (S (S
            (S (S (S (S (S (S (S (S (S (S (S (S (S (S (S (S (S (S (S (S (S (S
            (S (S (S (S (S (S (S (S (S (S (S (S (S (S (S (S (S (S (S (S (S (S
            (S (S (S (S (S (S (S (S (S (S (S (S (S (S (S (S (S (S (S (S (S (S
            (S (S (S (S (S (S (S (S (S (S (S (S (S (S (S (S (S (S (S (S (S (S
            (S (S (S (S (S (S (S (S (S (S (S (S (S (S (S (S (S (S (S (S (S (S
            (S (S (S (S (S (S (S (S (S (S (S (S (S (S (S (S (S (S (S (S (S (S
            (S (S (S (S (S (S (S (S (S (S (S (S (S (S (S (S (S (S (S (S (S (S
            (S (S (S (S (S (S (S (S (S (S (S (S (S (S (S (S (S (S (S (S (S (S
            (S (S (S (S (S (S (S (S (S (S (S (S (S (S (S (S (S (S (S (S (S (S
            (S (S (S (S (S (S (S (S (S (S (S (S (S (S (S (S (S (S (S (S (S (S
            (S (S (S (S (S (S (S (S (S (S (S (S (S (S (S (S (S (S (S (S (S (S
            (S (S (S (S (S (S (S (S (S (S (S (S (S (S (S (S (S (S (S (S (S (S
            (S (S (S (S (S (S (S (S (S (S (S (S (S (S (S (S (S (S (S (S (S (S
            (S (S (S (S (S (S (S (S (S (S (S (S (S (S (S (S (S (S (S (S (S (S
            (S (S (S (S (S (S (S (S (S (S (S (S (S (S (S (S (S (S (S (S (S (S
            (S (S (S (S (S (S (S (S (S (S (S (S (S (S (S (S (S (S (S (S (S (S
            (S (S (S (S (S (S (S (S (S (S (S (S (S (S (S (S (S (S (S (S (S (S
            (S (S (S (S (S (S (S (S (S (S (S (S (S (S (S (S (S (S (S (S (S (S
            (S (S (S (S (S (S (S (S (S (S (S (S (S (S (S (S (S (S (S (S (S (S
            (S (S (S (S (S (S (S (S (S (S (S (S (S (S (S (S (S (S (S (S (S (S
            (S (S (S (S (S (S (S (S (S (S (S (S (S (S (S (S (S (S (S (S (S (S
            (S (S (S (S (S (S (S (S (S (S (S (S (S (S (S (S (S (S (S (S (S (S
            (S (S (S (S (S (S (S (S (S (S (S (S (S (S (S (S (S (S (S (S (S (S
            (S (S (S (S (S (S (S (S (S (S (S (S (S (S (S (S (S (S (S (S (S (S
            (S (S (S (S (S (S (S (S (S (S (S (S (S (S (S (S (S (S (S (S (S (S
            (S (S (S (S (S (S (S (S (S (S (S (S (S (S (S (S (S (S (S (S (S (S
            (S (S (S (S (S (S (S (S (S (S (S (S (S (S (S (S (S (S (S (S (S (S
            (S (S (S (S (S (S (S (S (S (S (S (S (S (S (S (S (S (S (S (S (S (S
            (S (S (S (S (S (S (S (S (S (S (S (S (S (S (S (S (S (S (S (S (S (S
            (S (S (S (S (S (S (S (S (S (S (S (S (S (S (S (S (S (S (S (S (S (S
            (S (S (S (S (S (S (S (S (S (S (S (S (S (S (S (S (S (S (S (S (S (S
            (S (S (S (S (S (S (S (S (S (S (S (S (S (S (S (S (S (S (S (S (S (S
            (S (S (S (S (S (S
            O)))))))))))))))))))))))))))))))))))))))))))))))))))))))))))))))))))))))))))))))))))))))))))))))))))))))))))))))))))))))))))))))))))))))))))))))))))))))))))))))))))))))))))))))))))))))))))))))))))))))))))))))))))))))))))))))))))))))))))))))))))))))))))))))))))))))))))))))))))))))))))))))))))))))))))))))))))))))))))))))))))))))))))))))))))))))))))))))))))))))))))))))))))))))))))))))))))))))))))))))))))))))))))))))))))))))))))))))))))))))))))))))))))))))))))))))))))))))))))))))))))))))))))))))))))))))))))))))))))))))))))))))))))))))))))))))))))))))))))))))))))))))))))))))))))))))))))))))))))))))))))))))))))))))))))))))))))))))))))))))))))))))))))))))))))))))))))))))))))))))))))))))))))))))))))))))))))))))))))))))))))))))))))))))))))))))))))))))))))))))))))))))))))))))))))))))))))))))))))))))))))))))))))))))))))))))))))))))))))))))))))))))))))))))))))))))))))))))))))))))))))))))))))))))))))))))))))))))))))))))))))))))))))))))))))))))))))))))))))))))))))))))))))))))))))))))))))))))))))))))))))))))))))))))))))))))))))))))))))))))))))))))))))))))))))))))))))))))))))))))))))))))))))))))))))))))))))))))))))))))))))))))))))))))))))))))))))))))))))))))))))))))))))))))))))))))))))))))))
            levels0 i) (fun prev -> Ok { l1_from = from0; l1_prev = prev;
          l1_levels = levels0 }))))

(** val l1_fold :
    enc -> bool -> bclass list -> nat -> l1_state -> (nat * n) list ->
    l1_state res **)

let rec l1_fold e legacy line_classes para_level0 st = function
| [] -> Ok st
| ic :: rest ->
  bind (l1_step e legacy line_classes para_level0 st ic) (fun st' ->
    l1_fold e legacy line_classes para_level0 st' rest)

(** val reorder_levels :
    enc -> bool -> bclass list -> nat list -> n list -> nat -> nat list res **)

let reorder_levels e legacy line_classes line_levels line_text0 para_level0 =
  bind
    (l1_fold e legacy line_classes para_level0 { l1_from = (Some O);
      l1_prev = para_level0; l1_levels = line_levels }
      (t_char_indices e line_text0)) (fun st ->
    match st.l1_from with
    | Some f ->
      set_range (S (S (S (S (S (S (S (S (S (S (S (S (S (S (S (S (S (S (S (S
        (S (S (S (S (S (S (S (S (S (S (S (S (S (S (S (S (S (S (S (S (S (S (S
        (S (S (S (S (S (S (S (S (S (S (S (S (S (S (S (S (S (S (S (S (S (S (S
        (S (S (S (S (S (S (S (S (S (S (S (S (S (S (S (S (S (S (S (S (S (S (S
        (S (S (S (S (S (S (S (S (S (S (S (S (S (S (S (S (S (S (S (S (S (S (S
        (S (S (S (S (S (S (S (S (S (S (S (S (S (S (S (S (S (S (S (S (S (S (S
        (S (S (S (S (S (S (S (S (S (S (S (S (S (S (S (S (S (S (S (S (S (S (S
        (S (S (S (S (S (S (S (S (S (S (S (S (S (S (S (S (S (S (S (S (S (S (S
        (S (S (S (S (S (S (S (S (S (S (S (S (S (S (S (S (S (S (S (S (S (S (S
        (S (S (S (S (S (S (S (S (S (S (S (S (S (S (S (S (S (S (S (S (S (S (S
        (S (S (S (S (S (S (S (S (S (S (S (S (S (S (S (S (S (S (S (S (S (S (S
        (S (S (S (S (S (S (S (S (S (S (S (S (S (S (S (S (S (S (S (S (S (S (S
        (S (S (S (S (S (S (S (S (S (S (S (S (S (S (S (S (S (S (S (S (S (S (S
        (S (S (S (S (S (S (S (S (S (S (S (S (S (S (S (S (S (S (S (S (S (S (S
        (S (S (S (S (S (S (S (S (S (S (S (S (S (S (S (S (S (S (S (S (S (S (S
        (S (S (S (S (S (S (S (S (S (S (S (S (S (S (S (S (S (S (S (S (S (S (S
        (S (S (S (S (S (S (S (S (S (S (S (S (S (S (S (S (S (S (S (S (S (S (S
        (S (S (S (S (S (S (S (S (S (S (S (S (S (S (S (S (S (S (S (S (S (S (S
        (S (S (S (S (S (S (S (S (S (S (S (S (S (S (S (S (S (S (S (S (S (S (S
        (S (S (S (S (S (S (S (S (S (S (S (S (S (S (S (S (S (S (S (S (S (S (S
        (S (S (S (S (S (S (S (S (S (S (S (S (S (S (S (S (S (S (S (S (S (S (S
        (S (S (S (S (S (S (S (S (S (S (S (S (S (S (S (S (S (S (S (S (S (S (S
        (S (S (S (S (S (S (S (S (S (S (S (S (S (S (S (S (S (S (S (S (S (S (S
        (S (S (S (S (S (S (S (S (S (S (S (S (S (S (S (S (S (S (S (S (S (S (S
        (S (S (S (S (S (S (S (S (S (S (S (S (S (S (S (S (S (S (S (S (S (S (S
        (S (S (S (S (S (S (S (S (S (S (S (S (S (S (S (S (S (S (S (S (S (S (S
        (S (S (S (S (S (S (S (S (S (S (S (S (S (S (S (S (S (S (S (S (S (S (S
        (S (S (S (S (S (S (S (S (S (S (S (S (S (S (S (S (S (S (S (S (S (S (S
        (S (S (S (S (S (S (S (S (S (S (S (S (S (S (S (S (S (S (S (S (S (S (S
        (S (S (S (S (S (S (S (S (S (S (S (S (S (S (S (S (S (S (S (S (S (S (S
        (S (S (S (S (S (S (S (S (S (S (S (S (S (S (S (S (S (S (S (S (S (S (S
        (S (S (S (S (S (S (S (S (S (S (S (S (S (S (S (S (S (S (S (S (S (S (S
        (S (S (S (S (S (S (S (S (S (S (S (S (S (S (S (S (S (S (S (S (S (S (S
        (S (S (S (S (S (S (S (S (S (S (S (S (S (S (S (S (S (S (S (S (S (S (S
        (S (S (S (S (S (S (S (S (S (S (S (S (S (S (S (S (S (S (S (S (S (S (S
        (S (S (S (S (S (S (S (S (S (S (S (S (S (S (S (S (S (S (S (S (S (S (S
        (S (S (S (S (S (S (S (S (S (S (S (S (S (S (S (S (S (S (S (S (S (S (S
        (S (S (S (S (S (S (S (S (S (S (S (S (S (S (S (S (S (S (S (S (S (S (S
        (S (S (S (S (S (S (S (S (S (S (S (S (S (S (S (S (S (S (S (S (S (S (S
        (S (S (S (S (S (S (S (S (S (S (S (S (S (S (S (S (S (S (S (S (S (S (S
        (S (S (S (S (S (S (S (S (S (S (S (S (S (S (S (S (S (S (S (S (S (S (S
        (S (S (S (S (S (S (S (S (S (S (S (S (S (S (S (S (S (S (S (S (S (S (S
        (S (S (S (S (S (S (S (S (S (S (S (S (S (S (S (S (S (S (S (S (S (S (S
        (S (S (S (S (S (S (S (S (S (S (S (S (S (S (S (S (S (S (S (S (S (S (S
        (S (S (S (S (S (S (S (S (S (S (S (S (S (S (S (S (S (S (S (S (S (S (S
        (S (S (S (S (S (S (S (S (S (S (S (S (S (S (S (S (S (S (S (S (S (S (S
        (S (S (S (S (S (S (S (S (S (S (S (S (S (S (S (S (S (S (S (S (S (S (S
        (S (S (S (S (S (S (S (S (S (S (S (S (S (S (S (S (S (S (S (S (S (S (S
        (S (S (S (S (S (S (S (S (S (S (S (S (S (S (S (S (S (S (S (S (S (S (S
        (S (S (S (S (S (S (S (S (S (S (S (S (S (S (S (S (S (S (S (S (S (S (S
        (S (S (S (S (S (S (S (S (S (S (S (S (S (S (S (S (S (S (S (S (S (S (S
        (S (S (S (S (S (S (S (S (S (S (S (S (S (S (S (S (S (S (S (S (S (S (S
        (S (S (S
        O))))))))))))))))))))))))))))))))))))))))))))))))))))))))))))))))))))))))))))))))))))))))))))))))))))))))))))))))))))))))))))))))))))))))))))))))))))))))))))))))))))))))))))))))))))))))))))))))))))))))))))))))))))))))))))))))))))))))))))))))))))))))))))))))))))))))))))))))))))))))))))))))))))))))))))))))))))))))))))))))))))))))))))))))))))))))))))))))))))))))))))))))))))))))))))))))))))))))))))))))))))))))))))))))))))))))))))))))))))))))))))))))))))))))))))))))))))))))))))))))))))))))))))))))))))))))))))))))))))))))))))))))))))))))))))))))))))))))))))))))))))))))))))))))))))))))))))))))))))))))))))))))))))))))))))))))))))))))))))))))))))))))))))))))))))))))))))))))))))))))))))))))))))))))))))))))))))))))))))))))))))))))))))))))))))))))))))))))))))))))))))))))))))))))))))))))))))))))))))))))))))))))))))))))))))))))))))))))))))))))))))))))))))))))))))))))))))))))))))))))))))))))))))))))))))))))))))))))))))))))))))))))))))))))))))))))))))))))))))))))))))))))))))))))))))))))))))))))))))))))))))))))))))))))))))))))))))))))))))))))))))))))))))))))))))))))))))))))))))))))))))))))))))))))))))))))))))))))))))))))))))))))))))))))))))))))))))))))))))))))))))))))))))))))))))))))))))))))))))
        st.l1_levels f (length st.l1_levels) para_level0
    | None -> Ok st.l1_levels)

(** val reordered_levels :
    enc -> bool -> n list -> bclass list -> nat list -> nat -> (nat * nat) ->
    nat list res **)

let reordered_levels e legacy text classes levels para_level0 = function
| (a, b) ->
  if negb ((&&) (Nat.leb a (length levels)) (Nat.leb b (length levels)))
  then Panic (S (S (S (S (S (S (S (S (S (S (S (S (S (S (S (S (S (S (S (S (S
         (S (S (S (S (S (S (S (S (S (S (S (S (S (S (S (S (S (S (S (S (S (S (S
         (S (S (S (S (S (S (S (S (S (S (S (S (S (S (S (S (S (S (S (S (S (S (S
         (S (S (S (S (S (S (S (S (S (S (S (S (S (S (S (S (S (S (S (S (S (S (S
         (S (S (S (S (S (S (S (S (S (S (S (S (S (S (S (S (S (S (S (S (S (S (S
         (S (S (S (S (S (S (S (S (S (S (S (S (S (S (S (S (S (S (S (S (S (S (S
         (S (S (S (S (S (S (S (S (S (S (S (S (S (S (S (S (S (S (S (S (S (S (S
         (S (S (S (S (S (S (S (S (S (S (S (S (S (S (S (S (S (S (S (S (S (S (S
         (S (S (S (S (S (S (S (S (S (S (S (S (S (S (S (S (S (S (S (S (S (S (S
         (S (S (S (S (S (S (S (S (S (S (S (S (S (S (S (S (S (S (S (S (S (S (S
         (S (S (S (S (S (S (S (S (S (S (S (S (S (S (S (S (S (S (S (S (S (S (S
         (S (S (S (S (S (S (S (S (S (S (S (S (S (S (S (S (S (S (S (S (S (S (S
         (S (S (S (S (S (S (S (S (S (S (S (S (S (S (S (S (S (S (S (S (S (S (S
         (S (S (S (S (S (S (S (S (S (S (S (S (S (S (S (S (S (S (S (S (S (S (S
         (S (S (S (S (S (S (S (S (S (S (S (S (S (S (S (S (S (S (S (S (S (S (S
         (S (S (S (S (S (S (S (S (S (S (S (S (S (S (S (S (S (S (S (S (S (S (S
         (S (S (S (S (S (S (S (S (S (S (S (S (S (S (S (S (S (S (S (S (S (S (S
         (S (S (S (S (S (S (S (S (S (S (S (S (S (S (S (S (S (S (S (S (S (S (S
         (S (S (S (S (S (S (S (S (S (S (S (S (S (S (S (S (S (S (S (S (S (S (S
         (S (S (S (S (S (S (S (S (S (S (S (S (S (S (S (S (S (S (S (S (S (S (S
         (S (S (S (S (S (S (S (S (S (S (S (S (S (S (S (S (S (S (S (S (S (S (S
         (S (S (S (S (S (S (S (S (S (S (S (S (S (S (S (S (S (S (S (S (S (S (S
         (S (S (S (S (S (S (S (S (S (S (S (S (S (S (S (S (S (S (S (S (S (S (S
         (S (S (S (S (S (S (S (S (S (S (S (S (S (S (S (S (S (S (S (S
         O)))))))))))))))))))))))))))))))))))))))))))))))))))))))))))))))))))))))))))))))))))))))))))))))))))))))))))))))))))))))))))))))))))))))))))))))))))))))))))))))))))))))))))))))))))))))))))))))))))))))))))))))))))))))))))))))))))))))))))))))))))))))))))))))))))))))))))))))))))))))))))))))))))))))))))))))))))))))))))))))))))))))))))))))))))))))))))))))))))))))))))))))))))))))))))))))))))))))))))))))))))))))))))))))))))))))))))))))))))))))))))))))))))))))))))))))))))))))))))))))))))))))))))))))))))))))))))))))))))))))))))))))))))))))))))))))))))
  else bind
         (slice (S (S (S (S (S (S (S (S (S (S (S (S (S (S (S (S (S (S (S (S
           (S (S (S (S (S (S (S (S (S (S (S (S (S (S (S (S (S (S (S (S (S (S
           (S (S (S (S (S (S (S (S (S (S (S (S (S (S (S (S (S (S (S (S (S (S
           (S (S (S (S (S (S (S (S (S (S (S (S (S (S (S (S (S (S (S (S (S (S
           (S (S (S (S (S (S (S (S (S (S (S (S (S (S (S (S (S (S (S (S (S (S
           (S (S (S (S (S (S (S (S (S (S (S (S (S (S (S (S (S (S (S (S (S (S
           (S (S (S (S (S (S (S (S (S (S (S (S (S (S (S (S (S (S (S (S (S (S
           (S (S (S (S (S (S (S (S (S (S (S (S (S (S (S (S (S (S (S (S (S (S
           (S (S (S (S (S (S (S (S (S (S (S (S (S (S (S (S (S (S (S (S (S (S
           (S (S (S (S (S (S (S (S (S (S (S (S (S (S (S (S (S (S (S (S (S (S
           (S (S (S (S (S (S (S (S (S (S (S (S (S (S (S (S (S (S (S (S (S (S
           (S (S (S (S (S (S (S (S (S (S (S (S (S (S (S (S (S (S (S (S (S (S
           (S (S (S (S (S (S (S (S (S (S (S (S (S (S (S (S (S (S (S (S (S (S
           (S (S (S (S (S (S (S (S (S (S (S (S (S (S (S (S (S (S (S (S (S (S
           (S (S (S (S (S (S (S (S (S (S (S (S (S (S (S (S (S (S (S (S (S (S
           (S (S (S (S (S (S (S (S (S (S (S (S (S (S (S (S (S (S (S (S (S (S
           (S (S (S (S (S (S (S (S (S (S (S (S (S (S (S (S (S (S (S (S (S (S
           (S (S (S (S (S (S (S (S (S (S (S (S (S (S (S (S (S (S (S (S (S (S
           (S (S (S (S (S (S (S (S (S (S (S (S (S (S (S (S (S (S (S (S (S (S
           (S (S (S (S (S (S (S (S (S (S (S (S (S (S (S (S (S (S (S (S (S (S
           (S (S (S (S (S (S (S (S (S (S (S (S (S (S (S (S (S (S (S (S (S (S
           (S (S (S (S (S (S (S (S (S (S (S (S (S (S (S (S (S (S (S (S (S (S
           (S (S (S (S (S (S (S (S (S (S (S (S (S (S (S (S (S (S (S (S (S (S
           (S (S (S (S (S (S (S (S (S (S (S (S (S (S (S (S (S (S (S (S (S (S
           (S (S (S (S (S (S (S (S (S (S (S (S (S (S (S (S (S (S (S (S (S (S
           (S (S (S
           O)))))))))))))))))))))))))))))))))))))))))))))))))))))))))))))))))))))))))))))))))))))))))))))))))))))))))))))))))))))))))))))))))))))))))))))))))))))))))))))))))))))))))))))))))))))))))))))))))))))))))))))))))))))))))))))))))))))))))))))))))))))))))))))))))))))))))))))))))))))))))))))))))))))))))))))))))))))))))))))))))))))))))))))))))))))))))))))))))))))))))))))))))))))))))))))))))))))))))))))))))))))))))))))))))))))))))))))))))))))))))))))))))))))))))))))))))))))))))))))))))))))))))))))))))))))))))))))))))))))))))))))))))))))))))))))))))))))))
           classes a b) (fun line_classes ->
         bind
           (slice (S (S (S (S (S (S (S (S (S (S (S (S (S (S (S (S (S (S (S (S
             (S (S (S (S (S (S (S (S (S (S (S (S (S (S (S (S (S (S (S (S (S
             (S (S (S (S (S (S (S (S (S (S (S (S (S (S (S (S (S (S (S (S (S
             (S (S (S (S (S (S (S (S (S (S (S (S (S (S (S (S (S (S (S (S (S
             (S (S (S (S (S (S (S (S (S (S (S (S (S (S (S (S (S (S (S (S (S
             (S (S (S (S (S (S (S (S (S (S (S (S (S (S (S (S (S (S (S (S (S
             (S (S (S (S (S (S (S (S (S (S (S (S (S (S (S (S (S (S (S (S (S
             (S (S (S (S (S (S (S (S (S (S (S (S (S (S (S (S (S (S (S (S (S
             (S (S (S (S (S (S (S (S (S (S (S (S (S (S (S (S (S (S (S (S (S
             (S (S (S (S (S (S (S (S (S (S (S (S (S (S (S (S (S (S (S (S (S
             (S (S (S (S (S (S (S (S (S (S (S (S (S (S (S (S (S (S (S (S (S
             (S (S (S (S (S (S (S (S (S (S (S (S (S (S (S (S (S (S (S (S (S
             (S (S (S (S (S (S (S (S (S (S (S (S (S (S (S (S (S (S (S (S (S
             (S (S (S (S (S (S (S (S (S (S (S (S (S (S (S (S (S (S (S (S (S
             (S (S (S (S (S (S (S (S (S (S (S (S (S (S (S (S (S (S (S (S (S
             (S (S (S (S (S (S (S (S (S (S (S (S (S (S (S (S (S (S (S (S (S
             (S (S (S (S (S (S (S (S (S (S (S (S (S (S (S (S (S (S (S (S (S
             (S (S (S (S (S (S (S (S (S (S (S (S (S (S (S (S (S (S (S (S (S
             (S (S (S (S (S (S (S (S (S (S (S (S (S (S (S (S (S (S (S (S (S
             (S (S (S (S (S (S (S (S (S (S (S (S (S (S (S (S (S (S (S (S (S
             (S (S (S (S (S (S (S (S (S (S (S (S (S (S (S (S (S (S (S (S (S
             (S (S (S (S (S (S (S (S (S (S (S (S (S (S (S (S (S (S (S (S (S
             (S (S (S (S (S (S (S (S (S (S (S (S (S (S (S (S (S (S (S (S (S
             (S (S (S (S (S (S (S (S (S (S (S (S (S (S (S (S (S (S (S (S (S
             (S (S (S (S (S (S (S (S (S (S (S (S (S (S (S (S (S (S (S (S (S
             (S (S (S (S (S (S (S (S (S (S (S (S (S (S (S (S (S (S (S (S (S
             (S (S (S (S (S (S (S
             O))))))))))))))))))))))))))))))))))))))))))))))))))))))))))))))))))))))))))))))))))))))))))))))))))))))))))))))))))))))))))))))))))))))))))))))))))))))))))))))))))))))))))))))))))))))))))))))))))))))))))))))))))))))))))))))))))))))))))))))))))))))))))))))))))))))))))))))))))))))))))))))))))))))))))))))))))))))))))))))))))))))))))))))))))))))))))))))))))))))))))))))))))))))))))))))))))))))))))))))))))))))))))))))))))))))))))))))))))))))))))))))))))))))))))))))))))))))))))))))))))))))))))))))))))))))))))))))))))))))))))))))))))))))))))))))))))))))))
             levels a b) (fun line_levels ->
           bind
             (t_subrange (S (S (S (S (S (S (S (S (S (S (S (S (S (S (S (S (S
               (S (S (S (S (S (S (S (S (S (S (S (S (S (S (S (S (S (S (S (S (S
               (S (S (S (S (S (S (S (S (S (S (S (S (S (S (S (S (S (S (S (S (S
               (S (S (S (S (S (S (S (S (S (S (S (S (S (S (S (S (S (S (S (S (S
               (S (S (S (S (S (S (S (S (S (S (S (S (S (S (S (S (S (S (S (S (S
               (S (S (S (S (S (S (S (S (S (S (S (S (S (S (S (S (S (S (S (S (S
               (S (S (S (S (S (S (S (S (S (S (S (S (S (S (S (S (S (S (S (S (S
               (S (S (S (S (S (S (S (S (S (S (S (S (S (S (S (S (S (S (S (S (S
               (S (S (S (S (S (S (S (S (S (S (S (S (S (S (S (S (S (S (S (S (S
               (S (S (S (S (S (S (S (S (S (S (S (S (S (S (S (S (S (S (S (S (S
               (S (S (S (S (S (S (S (S (S (S (S (S (S (S (S (S (S (S (S (S (S
               (S (S (S (S (S (S (S (S (S (S (S (S (S (S (S (S (S (S (S (S (S
               (S (S (S (S (S (S (S (S (S (S (S (S (S (S (S (S (S (S (S (S (S
               (S (S (S (S (S (S (S (S (S (S (S (S (S (S (S (S (S (S (S (S (S
               (S (S (S (S (S (S (S (S (S (S (S (S (S (S (S (S (S (S (S (S (S
               (S (S (S (S (S (S (S (S (S (S (S (S (S (S (S (S (S (S (S (S (S
               (S (S (S (S (S (S (S (S (S (S (S (S (S (S (S (S (S (S (S (S (S
               (S (S (S (S (S (S (S (S (S (S (S (S (S (S (S (S (S (S (S (S (S
               (S (S (S (S (S (S (S (S (S (S (S (S (S (S (S (S (S (S (S (S (S
               (S (S (S (S (S (S (S (S (S (S (S (S (S (S (S (S (S (S (S (S (S
               (S (S (S (S (S (S (S (S (S (S (S (S (S (S (S (S (S (S (S (S (S
               (S (S (S (S (S (S (S (S (S (S (S (S (S (S (S (S (S (S (S (S (S
               (S (S (S (S (S (S (S (S (S (S (S (S (S (S (S (S (S (S (S (S (S
               (S (S (S (S (S (S (S (S (S (S (S (S (S (S (S (S (S (S (S (S (S
               (S (S (S (S (S (S (S (S (S (S (S (S (S (S (S (S (S (S (S (S (S
               (S (S (S (S (S (S (S (S (S (S (S (S (S (S (S (S (S (S (S (S (S
               (S (S (S (S (S (S (S (S (S (S (S (S (S (S (S
               O)))))))))))))))))))))))))))))))))))))))))))))))))))))))))))))))))))))))))))))))))))))))))))))))))))))))))))))))))))))))))))))))))))))))))))))))))))))))))))))))))))))))))))))))))))))))))))))))))))))))))))))))))))))))))))))))))))))))))))))))))))))))))))))))))))))))))))))))))))))))))))))))))))))))))))))))))))))))))))))))))))))))))))))))))))))))))))))))))))))))))))))))))))))))))))))))))))))))))))))))))))))))))))))))))))))))))))))))))))))))))))))))))))))))))))))))))))))))))))))))))))))))))))))))))))))))))))))))))))))))))))))))))))))))))))))))))))))))))))))
               e text a b) (fun line_text0 ->
             bind
               (reorder_levels e legacy line_classes line_levels line_text0
                 para_level0) (fun new_line -> Ok
               (app (firstn a levels) (app new_line (skipn b levels)))))))

(** val reordered_levels_per_char :
    enc -> bool -> n list -> bclass list -> nat list -> nat -> (nat * nat) ->
    nat list res **)

let reordered_levels_per_char e legacy text classes levels para_level0 line =
  bind (reordered_levels e legacy text classes levels para_level0 line)
    (fun lv ->
    map_res (fun ic ->
      get (S (S (S (S (S (S (S (S (S (S (S (S (S (S (S (S (S (S (S (S (S (S
        (S (S (S (S (S (S (S (S (S (S (S (S (S (S (S (S (S (S (S (S (S (S (S
        (S (S (S (S (S (S (S (S (S (S (S (S (S (S (S (S (S (S (S (S (S (S (S
        (S (S (S (S (S (S (S (S (S (S (S (S (S (S (S (S (S (S (S (S (S (S (S
        (S (S (S (S (S (S (S (S (S (S (S (S (S (S (S (S (S (S (S (S (S (S (S
        (S (S (S (S (S (S (S (S (S (S (S (S (S (S (S (S (S (S (S (S (S (S (S
        (S (S (S (S (S (S (S (S (S (S (S (S (S (S (S (S (S (S (S (S (S (S (S
        (S (S (S (S (S (S (S (S (S (S (S (S (S (S (S (S (S (S (S (S (S (S (S
        (S (S (S (S (S (S (S (S (S (S (S (S (S (S (S (S (S (S (S (S (S (S (S
        (S (S (S (S (S (S (S (S (S (S (S (S (S (S (S (S (S (S (S (S (S (S (S
        (S (S (S (S (S (S (S (S (S (S (S (S (S (S (S (S (S (S (S (S (S (S (S
        (S (S (S (S (S (S (S (S (S (S (S (S (S (S (S (S (S (S (S (S (S (S (S
        (S (S (S (S (S (S (S (S (S (S (S (S (S (S (S (S (S (S (S (S (S (S (S
        (S (S (S (S (S (S (S (S (S (S (S (S (S (S (S (S (S (S (S (S (S (S (S
        (S (S (S (S (S (S (S (S (S (S (S (S (S (S (S (S (S (S (S (S (S (S (S
        (S (S (S (S (S (S (S (S (S (S (S (S (S (S (S (S (S (S (S (S (S (S (S
        (S (S (S (S (S (S (S (S (S (S (S (S (S (S (S (S (S (S (S (S (S (S (S
        (S (S (S (S (S (S (S (S (S (S (S (S (S (S (S (S (S (S (S (S (S (S (S
        (S (S (S (S (S (S (S (S (S (S (S (S (S (S (S (S (S (S (S (S (S (S (S
        (S (S (S (S (S (S (S (S (S (S (S (S (S (S (S (S (S (S (S (S (S (S (S
        (S (S (S (S (S (S (S (S (S (S (S (S (S (S (S (S (S (S (S (S (S (S (S
        (S (S (S (S (S (S (S (S (S (S (S (S (S (S (S (S (S (S (S (S (S (S (S
        (S (S (S (S (S (S (S (S (S (S (S (S (S (S (S (S (S (S (S (S (S (S (S
        (S (S (S (S (S (S (S (S (S (S (S (S (S (S (S (S (S (S (S (S (S (S (S
        (S (S (S (S (S (S (S (S (S (S (S (S (S (S (S (S (S (S (S (S (S (S (S
        (S (S (S (S (S (S (S (S (S (S
        O))))))))))))))))))))))))))))))))))))))))))))))))))))))))))))))))))))))))))))))))))))))))))))))))))))))))))))))))))))))))))))))))))))))))))))))))))))))))))))))))))))))))))))))))))))))))))))))))))))))))))))))))))))))))))))))))))))))))))))))))))))))))))))))))))))))))))))))))))))))))))))))))))))))))))))))))))))))))))))))))))))))))))))))))))))))))))))))))))))))))))))))))))))))))))))))))))))))))))))))))))))))))))))))))))))))))))))))))))))))))))))))))))))))))))))))))))))))))))))))))))))))))))))))))))))))))))))))))))))))))))))))))))))))))))))))))))))))))))))))))))))))))))))))))))))))))
        lv (fst ic)) (t_char_indices e text))

(** val find_runs :
    nat list -> nat list -> nat -> nat -> nat -> nat -> run list -> (((run
    list * nat) * nat) * nat) res **)

let rec find_runs levels idxs start run_level mn mx runs =
  match idxs with
  | [] -> Ok (((runs, start), mn), mx)
  | i :: rest ->
    (match nth_error levels i with
     | Some nl ->
       if negb (Nat.eqb nl run_level)
       then find_runs levels rest i nl (Nat.min nl mn) (Nat.max nl mx)
              (app runs ((start, i) :: []))
       else find_runs levels rest start run_level mn mx runs
     | None -> Ok (((runs, start), mn), mx))

(** val reverse_run_seqs :
    nat list -> nat -> run list -> run list -> run list res **)

let rec reverse_run_seqs levels mx runs acc =
  match runs with
  | [] -> Ok acc
  | r :: rest ->
    bind
      (get (S (S (S (S (S (S (S (S (S (S (S (S (S (S (S (S (S (S (S (S (S (S
        (S (S (S (S (S (S (S (S (S (S (S (S (S (S (S (S (S (S (S (S (S (S (S
        (S (S (S (S (S (S (S (S (S (S (S (S (S (S (S (S (S (S (S (S (S (S (S
        (S (S (S (S (S (S (S (S (S (S (S (S (S (S (S (S (S (S (S (S (S (S (S
        (S (S (S (S (S (S (S (S (S (S (S (S (S (S (S (S (S (S (S (S (S (S (S
        (S (S (S (S (S (S (S (S (S (S (S (S (S (S (S (S (S (S (S (S (S (S (S
        (S (S (S (S (S (S (S (S (S (S (S (S (S (S (S (S (S (S (S (S (S (S (S
        (S (S (S (S (S (S (S (S (S (S (S (S (S (S (S (S (S (S (S (S (S (S (S
        (S (S (S (S (S (S (S (S (S (S (S (S (S (S (S (S (S (S (S (S (S (S (S
        (S (S (S (S (S (S (S (S (S (S (S (S (S (S (S (S (S (S (S (S (S (S (S
        (S (S (S (S (S (S (S (S (S (S (S (S (S (S (S (S (S (S (S (S (S (S (S
        (S (S (S (S (S (S (S (S (S (S (S (S (S (S (S (S (S (S (S (S (S (S (S
        (S (S (S (S (S (S (S (S (S (S (S (S (S (S (S (S (S (S (S (S (S (S (S
        (S (S (S (S (S (S (S (S (S (S (S (S (S (S (S (S (S (S (S (S (S (S (S
        (S (S (S (S (S (S (S (S (S (S (S (S (S (S (S (S (S (S (S (S (S (S (S
        (S (S (S (S (S (S (S (S (S (S (S (S (S (S (S (S (S (S (S (S (S (S (S
        (S (S (S (S (S (S (S (S (S (S (S (S (S (S (S (S (S (S (S (S (S (S (S
        (S (S (S (S (S (S (S (S (S (S (S (S (S (S (S (S (S (S (S (S (S (S (S
        (S (S (S (S (S (S (S (S (S (S (S (S (S (S (S (S (S (S (S (S (S (S (S
        (S (S (S (S (S (S (S (S (S (S (S (S (S (S (S (S (S (S (S (S (S (S (S
        (S (S (S (S (S (S (S (S (S (S (S (S (S (S (S (S (S (S (S (S (S (S (S
        (S (S (S (S (S (S (S (S (S (S (S (S (S (S (S (S (S (S (S (S (S (S (S
        (S (S (S (S (S (S (S (S (S (S (S (S (S (S (S (S (S (S (S (S (S (S (S
        (S (S (S (S (S (S (S (S (S (S (S (S (S (S (S (S (S (S (S (S (S (S (S
        (S (S (S (S (S (S (S (S (S (S (S (S (S (S (S (S (S (S (S (S (S (S (S
        (S (S (S (S (S (S (S (S (S (S (S (S (S (S (S (S (S (S (S (S (S (S (S
        (S (S (S (S (S (S (S (S (S (S (S (S (S (S (S (S (S (S (S (S (S (S (S
        (S (S (S (S (S (S (S (S (S (S (S (S (S (S (S (S (S (S (S (S (S (S (S
        (S (S (S (S (S (S (S (S (S (S (S (S (S (S (S (S (S (S (S (S (S (S (S
        (S (S (S (S (S (S (S (S (S (S (S (S (S (S (S (S (S (S (S (S (S (S (S
        (S (S (S (S (S (S (S (S (S (S (S (S (S (S (S (S (S (S (S (S (S (S (S
        (S (S (S (S (S (S (S (S (S (S (S (S (S (S (S (S (S (S (S (S (S (S (S
        (S (S (S (S (S (S (S (S (S (S (S (S (S (S (S (S (S (S (S (S (S (S (S
        (S (S (S (S (S (S (S (S (S (S (S (S (S (S (S (S (S (S (S (S (S (S (S
        (S (S (S (S (S (S (S (S (S (S (S (S (S (S (S (S (S (S (S (S (S (S (S
        (S (S (S (S (S (S (S (S (S (S (S (S (S (S (S (S (S (S (S (S (S (S (S
        (S (S (S (S (S (S (S (S (S (S (S (S (S (S (S (S (S (S (S (S (S (S (S
        (S (S (S (S (S (S (S (S (S (S (S (S (S (S (S (S (S (S (S (S (S (S (S
        (S (S (S (S (S (S (S (S (S (S (S (S (S (S (S (S (S (S (S (S (S (S (S
        (S (S (S (S (S (S (S (S (S (S (S (S (S (S (S (S (S (S (S (S (S (S (S
        (S (S (S (S (S (S (S (S (S (S (S (S (S (S (S (S (S (S (S (S (S (S (S
        (S (S (S (S (S (S (S (S (S (S (S (S (S (S (S (S (S (S (S (S (S
        O)))))))))))))))))))))))))))))))))))))))))))))))))))))))))))))))))))))))))))))))))))))))))))))))))))))))))))))))))))))))))))))))))))))))))))))))))))))))))))))))))))))))))))))))))))))))))))))))))))))))))))))))))))))))))))))))))))))))))))))))))))))))))))))))))))))))))))))))))))))))))))))))))))))))))))))))))))))))))))))))))))))))))))))))))))))))))))))))))))))))))))))))))))))))))))))))))))))))))))))))))))))))))))))))))))))))))))))))))))))))))))))))))))))))))))))))))))))))))))))))))))))))))))))))))))))))))))))))))))))))))))))))))))))))))))))))))))))))))))))))))))))))))))))))))))))))))))))))))))))))))))))))))))))))))))))))))))))))))))))))))))))))))))))))))))))))))))))))))))))))))))))))))))))))))))))))))))))))))))))))))))))))))))))))))))))))))))))))))))))))))))))))))))))))))))))))))))))))))))))))))))))))))))))))))))))))))))))))))))))))))))))))))))))))))))))))))))))))))))))))))))))))))))))))))))))))))))))))))))))))))))))))))))))))))))))))))))))))))))))))))))
        levels (fst r)) (fun l ->
      if Nat.ltb l mx
      then bind (reverse_run_seqs levels mx rest []) (fun rest' -> Ok
             (app acc (r :: rest')))
      else reverse_run_seqs levels mx rest (r :: acc))

(** val runs_l2_loop :
    nat -> nat list -> run list -> nat -> nat -> run list res **)

let rec runs_l2_loop fuel levels runs mx mn =
  match fuel with
  | O ->
    Panic (S (S (S (S (S (S (S (S (S (S (S (S (S (S (S (S (S (S (S (S (S (S
      (S (S (S (S (S (S (S (S (S (S (S (S (S (S (S (S (S (S (S (S (S (S (S (S
      (S (S (S (S (S (S (S (S (S (S (S (S (S (S (S (S (S (S (S (S (S (S (S (S
      (S (S (S (S (S (S (S (S (S (S (S (S (S (S (S (S (S (S (S (S (S (S (S (S
      (S (S (S (S (S (S (S (S (S (S (S (S (S (S (S (S (S (S (S (S (S (S (S (S
      (S (S (S (S (S (S (S (S (S (S (S (S (S (S (S (S (S (S (S (S (S (S (S (S
      (S (S (S (S (S (S (S (S (S (S (S (S (S (S (S (S (S (S (S (S (S (S (S (S
      (S (S (S (S (S (S (S (S (S (S (S (S (S (S (S (S (S (S (S (S (S (S (S (S
      (S (S (S (S (S (S (S (S (S (S (S (S (S (S (S (S (S (S (S (S (S (S (S (S
      (S (S (S (S (S (S (S (S (S (S (S (S (S (S (S (S (S (S (S (S (S (S (S (S
      (S (S (S (S (S (S (S (S (S (S (S (S (S (S (S (S (S (S (S (S (S (S (S (S
      (S (S (S (S (S (S (S (S (S (S (S (S (S (S (S (S (S (S (S (S (S (S (S (S
      (S (S (S (S (S (S (S (S (S (S (S (S (S (S (S (S (S (S (S (S (S (S (S (S
      (S (S (S (S (S (S (S (S (S (S (S (S (S (S (S (S (S (S (S (S (S (S (S (S
      (S (S (S (S (S (S (S (S (S (S (S (S (S (S (S (S (S (S (S (S (S (S (S (S
      (S (S (S (S (S (S (S (S (S (S (S (S (S (S (S (S (S (S (S (S (S (S (S (S
      (S (S (S (S (S (S (S (S (S (S (S (S (S (S (S (S (S (S (S (S (S (S (S (S
      (S (S (S (S (S (S (S (S (S (S (S (S (S (S (S (S (S (S (S (S (S (S (S (S
      (S (S (S (S (S (S (S (S (S (S (S (S (S (S (S (S (S (S (S (S (S (S (S (S
      (S (S (S (S (S (S (S (S (S (S (S (S (S (S (S (S (S (S (S (S (S (S (S (S
      (S (S (S (S (S (S (S (S (S (S (S (S (S (S (S (S (S (S (S (S (S (S (S (S
      (S (S (S (S (S (S (S (S (S (S (S (S (S (S (S (S (S (S (S (S (S (S (S (S
      (S (S (S (S (S (S (S (S (S (S (S (S (S (S (S (S (S (S (S (S (S (S (S (S
      (S (S (S (S (S (S (S (S (S (S (S (S (S (S (S (S (S (S (S (S (S (S (S (S
      (S (S (S (S (S (S (S (S (S (S (S (S (S (S (S (S (S (S (S (S (S (S (S (S
      (S (S (S (S (S (S (S (S (S (S (S (S (S (S (S (S (S (S (S (S (S (S (S (S
      (S (S (S (S (S (S (S (S (S (S (S (S (S (S (S (S (S (S (S (S (S (S (S (S
      (S (S (S (S (S (S (S (S (S (S (S (S (S (S (S (S (S (S (S (S (S (S (S (S
      (S (S (S (S (S (S (S (S (S (S (S (S (S (S (S (S (S (S (S (S (S (S (S (S
      (S (S (S (S (S (S (S (S (S (S (S (S (S (S (S (S (S (S (S (S (S (S (S (S
      (S (S (S (S (S (S (S (S (S (S (S (S (S (S (S (S (S (S (S (S (S (S (S (S
      (S (S (S (S (S (S (S (S (S (S (S (S (S (S (S (S (S (S (S (S (S (S (S (S
      (S (S (S (S (S (S (S (S (S (S (S (S (S (S (S (S (S (S (S (S (S (S (S (S
      (S (S (S (S (S (S (S (S (S (S (S (S (S (S (S (S (S (S (S (S (S (S (S (S
      (S (S (S (S (S (S (S (S (S (S (S (S (S (S (S (S (S (S (S (S (S (S (S (S
      (S (S (S (S (S (S (S (S (S (S (S (S (S (S (S (S (S (S (S (S (S (S (S (S
      (S (S (S (S (S (S (S (S (S (S (S (S (S (S (S (S (S (S (S (S (S (S (S (S
      (S (S (S (S (S (S (S (S (S (S (S (S (S (S (S (S (S (S (S (S (S (S (S (S
      (S (S (S (S (S (S (S (S (S (S (S (S (S (S (S (S (S (S (S (S (S (S (S (S
      (S (S (S (S (S (S (S (S (S (S (S (S (S (S (S (S (S (S (S (S (S (S (S (S
      (S (S (S (S (S (S (S (S (S (S (S (S (S (S (S (S (S (S (S (S (S (S (S (S
      (S (S (S (S (S (S (S (S (S (S (S (S (S (S (S (S (S (S (S (S (S (S (S (S
      (S (S (S (S (S (S (S (S (S (S (S (S (S (S (S (S (S (S (S (S (S (S (S (S
      (S (S (S (S (S (S (S (S (S (S (S (S (S (S (S (S (S (S (S (S (S (S (S (S
      (S (S (S (S (S (S (S (S (S (S (S (S (S (S (S (S (S (S (S (S (S (S (S (S
      (S (S (S (S (S (S (S (S (S (S (S (S (S (S (S (S (S (S (S (S (S (S (S (S
      (S (S (S (S (S (S (S (S (S (S (S (S (S (S (S (S (S (S (S (S (S (S (S (S
      (S (S (S (S (S (S (S (S (S (S (S (S (S (S (S (S (S (S (S (S (S (S (S (S
      (S (S (S (S (S (S (S (S (S (S (S (S (S (S (S (S (S (S (S (S (S (S (S (S
      (S (S (S (S (S (S (S (S (S (S (S (S (S (S (S (S (S (S (S (S (S (S (S (S
      (S (S (S (S (S (S (S (S (S (S (S (S (S (S (S (S (S (S (S (S (S (S (S (S
      (S (S (S (S (S (S (S (S (S (S (S (S (S (S (S (S (S (S (S (S (S (S (S (S
      (S (S (S (S (S (S (S (S (S (S (S (S (S (S (S (S (S (S (S (S (S (S (S (S
      (S (S (S (S (S (S (S (S (S (S (S (S (S (S (S (S (S (S (S (S (S (S (S (S
      (S (S (S (S (S (S (S (S (S (S (S (S (S (S (S (S (S (S (S (S (S (S (S (S
      (S (S (S (S (S (S (S (S (S (S (S (S (S (S (S (S (S (S (S (S (S (S (S (S
      (S (S (S (S (S (S (S (S (S (S (S (S (S (S (S (S (S (S (S (S (S (S (S (S
      (S (S (S (S (S (S (S (S (S (S (S (S (S (S (S (S (S (S (S (S (S (S (S (S
      (S (S (S (S (S (S (S (S (S (S (S (S (S (S (S (S (S (S (S (S (S (S (S (S
      (S (S (S (S (S (S (S (S (S (S (S (S (S (S (S (S (S (S (S (S (S (S (S (S
      (S (S (S (S (S (S (S (S (S (S (S (S (S (S (S (S (S (S (S (S (S (S (S (S
      (S (S (S (S (S (S (S (S (S (S (S (S (S (S (S (S (S (S (S (S (S (S (S (S
      (S (S (S (S (S (S (S (S (S (S (S (S (S (S (S (S (S (S (S (S (S (S (S (S
      (S (S (S (S (S (S (S (S (S (S (S (S (S (S (S (S (S (S (S (S (S (S (S (S
      (S (S (S (S (S (S (S (S (S (S (S (S (S (S (S (S (S (S (S (S (S (S (S (S
      (S (S (S (S (S (S (S (S (S (S (S (S (S (S (S (S (S (S (S (S (S (S (S (S
      (S (S (S (S (S (S (S (S (S (S (S (S (S (S (S (S (S (S (S (S (S (S (S (S
      (S (S (S (S (S (S (S (S (S (S (S (S (S (S (S (S (S (S (S (S (S (S (S (S
      (S (S (S (S (S (S (S (S (S (S (S (S (S (S (S (S (S (S (S (S (S (S (S (S
      (S (S (S (S (S (S (S (S (S (S (S (S (S (S (S (S (S (S (S (S (S (S (S (S
      (S (S (S (S (S (S (S (S (S (S (S (S (S (S (S (S (S (S (S (S (S (S (S (S
      (S (S (S (S (S (S (S (S (S (S (S (S (S (S (S (S (S (S (S (S (S (S (S (S
      (S (S (S (S (S (S (S (S (S (S (S (S (S (S (S (S (S (S (S (S (S (S (S (S
      (S (S (S (S (S (S (S (S (S (S (S (S (S (S (S (S (S (S (S (S (S (S (S (S
      (S (S (S (S (S (S (S (S (S (S (S (S (S (S (S (S (S (S (S (S (S (S (S (S
      (S (S (S (S (S (S (S (S (S (S (S (S (S (S (S (S (S (S (S (S (S (S (S (S
      (S (S (S (S (S (S (S (S (S (S (S (S (S (S (S (S (S (S (S (S (S (S (S (S
      (S (S (S (S (S (S (S (S (S (S (S (S (S (S (S (S (S (S (S (S (S (S (S (S
      (S (S (S (S (S (S (S (S (S (S (S (S (S (S (S (S (S (S (S (S (S (S (S (S
      (S (S (S (S (S (S (S (S (S (S (S (S (S (S (S (S (S (S (S (S (S (S (S (S
      (S (S (S (S (S (S (S (S (S (S (S (S (S (S (S (S (S (S (S (S (S (S (S (S
      (S (S (S (S (S (S (S (S (S (S (S (S (S (S (S (S (S (S (S (S (S (S (S (S
      (S (S (S (S (S (S (S (S (S (S (S (S (S (S (S (S (S (S (S (S (S (S (S (S
      (S (S (S (S (S (S (S (S (S (S (S (S (S (S (S (S (S (S (S (S (S (S (S (S
      (S (S (S (S (S (S (S (S (S (S (S (S (S (S (S (S (S (S (S (S (S (S (S (S
      (S (S (S (S (S (S (S (S (S (S (S (S (S (S (S (S (S (S (S (S (S (S (S (S
      (S (S (S (S (S (S (S (S (S (S (S (S (S (S (S (S (S (S (S (S (S (S (S (S
      (S (S (S (S (S (S (S (S (S (S (S (S (S (S (S (S (S (S (S (S (S (S (S (S
      (S (S (S (S (S (S (S (S (S (S (S (S (S (S (S (S (S (S (S (S (S (S (S (S
      (S (S (S (S (S (S (S (S (S (S (S (S (S (S (S (S (S (S (S (S (S (S (S (S
      (S (S (S (S (S (S (S (S (S (S (S (S (S (S (S (S (S (S (S (S (S (S (S (S
      (S (S (S (S (S (S (S (S (S (S (S (S (S (S (S (S (S (S (S (S (S (S (S (S
      (S (S (S (S (S (S (S (S (S (S (S (S (S (S (S (S (S (S (S (S (S (S (S (S
      (S (S (S (S (S (S (S (S (S (S (S (S (S (S (S (S (S (S (S (S (S (S (S (S
      (S (S (S (S (S (S (S (S (S (S (S (S (S (S (S (S (S (S (S (S (S (S (S (S
      (S (S (S (S (S (S (S (S (S (S (S (S (S (S (S (S (S (S (S (S (S (S (S (S
      (S (S (S (S (S (S (S (S (S (S (S (S (S (S (S (S (S (S (S (S (S (S (S (S
      (S (S (S (S (S (S (S (S (S (S (S (S (S (S (S (S (S (S (S (S (S (S (S (S
      (S (S (S (S (S (S (S (S (S (S (S (S (S (S (S (S (S (S (S (S (S (S (S (S
      (S (S (S (S (S (S (S (S (S (S (S (S (S (S (S (S (S (S (S (S (S (S (S (S
      (S (S (S (S (S (S (S (S (S (S (S (S (S (S (S (S (S (S (S (S (S (S (S (S
      (S (S (S (S (S (S (S (S (S (S (S (S (S (S (S (S (S (S (S (S (S (S (S (S
      (S (S (S (S (S (S (S (S (S (S (S (S (S (S (S (S (S (S (S (S (S (S (S (S
      (S (S (S (S (S (S (S (S (S (S (S (S (S (S (S (S (S (S (S (S (S (S (S (S
      (S (S (S (S (S (S (S (S (S (S (S (S (S (S (S (S (S (S (S (S (S (S (S (S
      (S (S (S (S (S (S (S (S (S (S (S (S (S (S (S (S (S (S (S (S (S (S (S (S
      (S (S (S (S (S (S (S (S (S (S (S (S (S (S (S (S (S (S (S (S (S (S (S (S
      (S (S (S (S (S (S (S (S (S (S (S (S (S (S (S (S (S (S (S (S (S (S (S (S
      (S (S (S (S (S (S (S (S (S (S (S (S (S (S (S (S (S (S (S (S (S (S (S (S
      (S (S (S (S (S (S (S (S (S (S (S (S (S (S (S (S (S (S (S (S (S (S (S (S
      (S (S (S (S (S (S (S (S (S (S (S (S (S (S (S (S (S (S (S (S (S (S (S (S
      (S (S (S (S (S (S (S (S (S (S (S (S (S (S (S (S (S (S (S (S (S (S (S (S
      (S (S (S (S (S (S (S (S (S (S (S (S (S (S (S (S (S (S (S (S (S (S (S (S
      (S (S (S (S (S (S (S (S (S (S (S (S (S (S (S (S (S (S (S (S (S (S (S (S
      (S (S (S (S (S (S (S (S (S (S (S (S (S (S (S (S (S (S (S (S (S (S (S (S
      (S (S (S (S (S (S (S (S (S (S (S (S (S (S (S (S (S (S (S (S (S (S (S (S
      (S (S (S (S (S (S (S (S (S (S (S (S (S (S (S (S (S (S (S (S (S (S (S (S
      (S (S (S (S (S (S (S (S (S (S (S (S (S (S (S (S (S (S (S (S (S (S (S (S
      (S (S (S (S (S (S (S (S (S (S (S (S (S (S (S (S (S (S (S (S (S (S (S (S
      (S (S (S (S (S (S (S (S (S (S (S (S (S (S (S (S (S (S (S (S (S (S (S (S
      (S (S (S (S (S (S (S (S (S (S (S (S (S (S (S (S (S (S (S (S (S (S (S (S
      (S (S (S (S (S (S (S (S (S (S (S (S (S (S (S (S (S (S (S (S (S (S (S (S
      (S (S (S (S (S (S (S (S (S (S (S (S (S (S (S (S (S (S (S (S (S (S (S (S
      (S (S (S (S (S (S (S (S (S (S (S (S (S (S (S (S (S (S (S (S (S (S (S (S
      (S (S (S (S (S (S (S (S (S (S (S (S (S (S (S (S (S (S (S (S (S (S (S (S
      (S (S (S (S (S (S (S (S (S (S (S (S (S (S (S (S (S (S (S (S (S (S (S (S
      (S (S (S (S (S (S (S (S (S (S (S (S (S (S (S (S (S (S (S (S (S (S (S (S
      (S (S (S (S (S (S (S (S (S (S (S (S (S (S (S (S (S (S (S (S (S (S (S (S
      (S (S (S (S (S (S (S (S (S (S (S (S (S (S (S (S (S (S (S (S (S (S (S (S
      (S (S (S (S (S (S (S (S (S (S (S (S (S (S (S (S (S (S (S (S (S (S (S (S
      (S (S (S (S (S (S (S (S (S (S (S (S (S (S (S (S (S (S (S (S (S (S (S (S
      (S (S (S (S (S (S (S (S (S (S (S (S (S (S (S (S (S (S (S (S (S (S (S (S
      (S (S (S (S (S (S (S (S (S (S (S (S (S (S (S (S (S (S (S (S (S (S (S (S
      (S (S (S (S (S (S (S (S (S (S (S (S (S (S (S (S (S (S (S (S (S (S (S (S
      (S (S (S (S (S (S (S (S (S (S (S (S (S (S (S (S (S (S (S (S (S (S (S (S
      (S (S (S (S (S (S (S (S (S (S (S (S (S (S (S (S (S (S (S (S (S (S (S (S
      (S (S (S (S (S (S (S (S (S (S (S (S (S (S (S (S (S (S (S (S (S (S (S (S
      (S (S (S (S (S (S (S (S (S (S (S (S (S (S (S (S (S (S (S (S (S (S (S (S
      (S (S (S (S (S (S (S (S (S (S (S (S (S (S (S (S (S (S (S (S (S (S (S (S
      (S (S (S (S (S (S (S (S (S (S (S (S (S (S (S (S (S (S (S (S (S (S (S (S
      (S (S (S (S (S (S (S (S (S (S (S (S (S (S (S (S (S (S (S (S (S (S (S (S
      (S (S (S (S (S (S (S (S (S (S (S (S (S (S (S (S (S (S (S (S (S (S (S (S
      (S (S (S (S (S (S (S (S (S (S (S (S (S (S (S (S (S (S (S (S (S (S (S (S
      (S (S (S (S (S (S (S (S (S (S (S (S (S (S (S (S (S (S (S (S (S (S (S (S
      (S (S (S (S (S (S (S (S (S (S (S (S (S (S (S (S (S (S (S (S (S (S (S (S
      (S (S (S (S (S (S (S (S (S (S (S (S (S (S (S (S (S (S (S (S (S (S (S (S
      (S (S (S (S (S (S (S (S (S (S (S (S (S (S (S (S (S (S (S (S (S (S (S (S
      (S (S (S (S (S (S (S (S (S (S (S (S (S (S (S (S (S (S (S (S (S (S (S (S
      (S (S (S (S (S (S (S (S (S (S (S (S (S (S (S (S (S (S (S (S (S (S (S (S
      (S (S (S (S (S (S (S (S (S (S (S (S (S (S (S (S (S (S (S (S (S (S (S (S
      (S (S (S (S (S (S (S (S (S (S (S (S (S (S (S (S (S (S (S (S (S (S (S (S
      (S (S (S (S (S (S (S (S (S (S (S (S (S (S (S (S (S (S (S (S (S (S (S (S
      (S (S (S (S (S (S (S (S (S (S (S (S (S (S (S (S (S (S (S (S (S (S (S (S
      (S (S (S (S (S (S (S (S (S (S (S (S (S (S (S (S (S (S (S (S (S (S (S (S
      (S (S (S (S (S (S (S (S (S (S (S (S (S (S (S (S (S (S (S (S (S (S (S (S
      (S (S (S (S (S (S (S (S (S (S (S (S (S (S (S (S (S (S (S (S (S (S (S (S
      (S (S (S (S (S (S (S (S (S (S (S (S (S (S (S (S (S (S (S (S (S (S (S (S
      (S (S (S (S (S (S (S (S (S (S (S (S (S (S (S (S (S (S (S (S (S (S (S (S
      (S (S (S (S (S (S (S (S (S (S (S (S (S (S (S (S (S (S (S (S (S (S (S (S
      (S (S (S (S (S (S (S (S (S (S (S (S (S (S (S (S (S (S (S (S (S (S (S (S
      (S (S (S (S (S (S (S (S (S (S (S (S (S (S (S (S (S (S (S (S (S (S (S (S
      (S (S (S (S (S (S (S (S (S (S (S (S (S (S (S (S (S (S (S (S (S (S (S (S
      (S (S (S (S (S (S (S (S (S (S (S (S (S (S (S (S (S (S (S (S (S (S (S (S
      (S (S (S (S (S (S (S (S (S (S (S (S (S (S (S (S (S (S (S (S (S (S (S (S
      (S (S (S (S (S (S (S (S (S (S (S (S (S (S (S (S (S (S (S (S (S (S (S (S
      (S (S (S (S (S (S (S (S (S (S (S (S (S (S (S (S (S (S (S (S (S (S (S (S
      (S (S (S (S (S (S (S (S (S (S (S (S (S (S (S (S (S (S (S (S (S (S (S (S
      (S (S (S (S (S (S (S (S (S (S (S (S (S (S (S (S (S (S (S (S (S (S (S (S
      (S (S (S (S (S (S (S (S (S (S (S (S (S (S (S (S (S (S (S (S (S (S (S (S
      (S (S (S (S (S (S (S (S (S (S (S (S (S (S (S (S (S (S (S (S (S (S (S (S
      (S (S (S (S (S (S (S (S (S (S (S (S (S (S (S (S (S (S (S (S (S (S (S (S
      (S (S (S (S (S (S (S (S (S (S (S (S (S (S (S (S (S (S (S (S (S (S (S (S
      (S (S (S (S (S (S (S (S (S (S (S (S (S (S (S (S (S (S (S (S (S (S (S (S
      (S (S (S (S (S (S (S (S (S (S (S (S (S (S (S (S (S (S (S (S (S (S (S (S
      (S (S (S (S (S (S (S (S (S (S (S (S (S (S (S (S (S (S (S (S (S (S (S (S
      (S (S (S (S (S (S (S (S (S (S (S (S (S (S (S (S (S (S (S (S (S (S (S (S
      (S (S (S (S (S (S (S (S (S (S (S (S (S (S (S (S (S (S (S (S (S (S (S (S
      (S (S (S (S (S (S (S (S (S (S (S (S (S (S (S (S (S (S (S (S (S (S (S (S
      (S (S (S (S (S (S (S (S (S (S (S (S (S (S (S (S (S (S (S (S (S (S (S (S
      (S (S (S (S (S (S (S (S (S (S (S (S (S (S (S (S (S (S (S (S (S (S (S (S
      (S (S (S (S (S (S (S (S (S (S (S (S (S (S (S (S (S (S (S (S (S (S (S (S
      (S (S (S (S (S (S (S (S (S (S (S (S (S (S (S (S (S (S (S (S (S (S (S (S
      (S (S (S (S (S (S (S (S (S (S (S (S (S (S (S (S (S (S (S (S (S (S (S (S
      (S (S (S (S (S (S (S (S (S (S (S (S (S (S (S (S (S (S (S (S (S (S (S (S
      (S (S (S (S (S (S (S (S (S (S (S (S (S (S (S (S (S (S (S (S (S (S (S (S
      (S (S (S (S (S (S (S (S (S (S (S (S (S (S (S (S (S (S (S (S (S (S (S (S
      (S (S (S (S (S (S (S (S (S (S (S (S (S (S (S (S (S (S (S (S (S (S (S (S
      (S (S (S (S (S (S (S (S (S (S (S (S (S (S (S (S (S (S (S (S (S (S (S (S
      (S (S (S (S (S (S (S (S (S (S (S (S (S (S (S (S (S (S (S (S (S (S (S (S
      (S (S (S (S (S (S (S (S (S (S (S (S (S (S (S (S (S (S (S (S (S (S (S (S
      (S (S (S (S (S (S (S (S (S (S (S (S (S (S (S (S (S (S (S (S (S (S (S (S
      (S (S (S (S (S (S (S (S (S (S (S (S (S (S (S (S (S (S (S (S (S (S (S (S
      (S (S (S (S (S (S (S (S (S (S (S (S (S (S (S (S (S (S (S (S (S (S (S (S
      (S (S (S (S (S (S (S (S (S (S (S (S (S (S (S (S (S (S (S (S (S (S (S (S
      (S (S (S (S (S (S (S (S (S (S (S (S (S (S (S (S (S (S (S (S (S (S (S (S
      (S (S (S (S (S (S (S (S (S (S (S (S (S (S (S (S (S (S (S (S (S (S (S (S
      (S (S (S (S (S (S (S (S (S (S (S (S (S (S (S (S (S (S (S (S (S (S (S (S
      (S (S (S (S (S (S (S (S (S (S (S (S (S (S (S (S (S (S (S (S (S (S (S (S
      (S (S (S (S (S (S (S (S (S (S (S (S (S (S (S (S (S (S (S (S (S (S (S (S
      (S (S (S (S (S (S (S (S (S (S (S (S (S (S (S (S (S (S (S (S (S (S (S (S
      (S (S (S (S (S (S (S (S (S (S (S (S (S (S (S (S (S (S (S (S (S (S (S (S
      (S (S (S (S (S (S (S (S (S (S (S (S (S (S (S (S (S (S (S (S (S (S (S (S
      (S (S (S (S (S (S (S (S (S (S (S (S (S (S (S (S (S (S (S (S (S (S (S (S
      (S (S (S (S (S (S (S (S (S (S (S (S (S (S (S (S (S (S (S (S (S (S (S (S
      (S (S (S (S (S (S (S (S (S (S (S (S (S (S (S (S (S (S (S (S (S (S (S (S
      (S (S (S (S (S (S (S (S (S (S (S (S (S (S (S (S (S (S (S (S (S (S (S (S
      (S (S (S (S (S (S (S (S (S (S (S (S (S (S (S (S (S (S (S (S (S (S (S (S
      (S (S (S (S (S (S (S (S (S (S (S (S (S (S (S (S (S (S (S (S (S (S (S (S
      (S (S (S (S (S (S (S (S
      O))))))))))))))))))))))))))))))))))))))))))))))))))))))))))))))))))))))))))))))))))))))))))))))))))))))))))))))))))))))))))))))))))))))))))))))))))))))))))))))))))))))))))))))))))))))))))))))))))))))))))))))))))))))))))))))))))))))))))))))))))))))))))))))))))))))))))))))))))))))))))))))))))))))))))))))))))))))))))))))))))))))))))))))))))))))))))))))))))))))))))))))))))))))))))))))))))))))))))))))))))))))))))))))))))))))))))))))))))))))))))))))))))))))))))))))))))))))))))))))))))))))))))))))))))))))))))))))))))))))))))))))))))))))))))))))))))))))))))))))))))))))))))))))))))))))))))))))))))))))))))))))))))))))))))))))))))))))))))))))))))))))))))))))))))))))))))))))))))))))))))))))))))))))))))))))))))))))))))))))))))))))))))))))))))))))))))))))))))))))))))))))))))))))))))))))))))))))))))))))))))))))))))))))))))))))))))))))))))))))))))))))))))))))))))))))))))))))))))))))))))))))))))))))))))))))))))))))))))))))))))))))))))))))))))))))))))))))))))))))))))))))))))))))))))))))))))))))))))))))))))))))))))))))))))))))))))))))))))))))))))))))))))))))))))))))))))))))))))))))))))))))))))))))))))))))))))))))))))))))))))))))))))))))))))))))))))))))))))))))))))))))))))))))))))))))))))))))))))))))))))))))))))))))))))))))))))))))))))))))))))))))))))))))))))))))))))))))))))))))))))))))))))))))))))))))))))))))))))))))))))))))))))))))))))))))))))))))))))))))))))))))))))))))))))))))))))))))))))))))))))))))))))))))))))))))))))))))))))))))))))))))))))))))))))))))))))))))))))))))))))))))))))))))))))))))))))))))))))))))))))))))))))))))))))))))))))))))))))))))))))))))))))))))))))))))))))))))))))))))))))))))))))))))))))))))))))))))))))))))))))))))))))))))))))))))))))))))))))))))))))))))))))))))))))))))))))))))))))))))))))))))))))))))))))))))))))))))))))))))))))))))))))))))))))))))))))))))))))))))))))))))))))))))))))))))))))))))))))))))))))))))))))))))))))))))))))))))))))))))))))))))))))))))))))))))))))))))))))))))))))))))))))))))))))))))))))))))))))))))))))))))))))))))))))))))))))))))))))))))))))))))))))))))))))))))))))))))))))))))))))))))))))))))))))))))))))))))))))))))))))))))))))))))))))))))))))))))))))))))))))))))))))))))))))))))))))))))))))))))))))))))))))))))))))))))))))))))))))))))))))))))))))))))))))))))))))))))))))))))))))))))))))))))))))))))))))))))))))))))))))))))))))))))))))))))))))))))))))))))))))))))))))))))))))))))))))))))))))))))))))))))))))))))))))))))))))))))))))))))))))))))))))))))))))))))))))))))))))))))))))))))))))))))))))))))))))))))))))))))))))))))))))))))))))))))))))))))))))))))))))))))))))))))))))))))))))))))))))))))))))))))))))))))))))))))))))))))))))))))))))))))))))))))))))))))))))))))))))))))))))))))))))))))))))))))))))))))))))))))))))))))))))))))))))))))))))))))))))))))))))))))))))))))))))))))))))))))))))))))))))))))))))))))))))))))))))))))))))))))))))))))))))))))))))))))))))))))))))))))))))))))))))))))))))))))))))))))))))))))))))))))))))))))))))))))))))))))))))))))))))))))))))))))))))))))))))))))))))))))))))))))))))))))))))))))))))))))))))))))))))))))))))))))))))))))))))))))))))))))))))))))))))))))))))))))))))))))))))))))))))))))))))))))))))))))))))))))))))))))))))))))))))))))))))))))))))))))))))))))))))))))))))))))))))))))))))))))))))))))))))))))))))))))))))))))))))))))))))))))))))))))))))))))))))))))))))))))))))))))))))))))))))))))))))))))))))))))))))))))))))))))))))))))))))))))))))))))))))))))))))))))))))))))))))))))))))))))))))))))))))))))))))))))))))))))))))))))))))))))))))))))))))))))))))))))))))))))))))))))))))))))))))))))))))))))))))))))))))))))))))))))))))))))))))))))))))))))))))))))))))))))))))))))))))))))))))))))))))))))))))))))))))))))))))))))))))))))))))))))))))))))))))))))))))))))))))))))))))))))))))))))))))))))))))))))))))))))))))))))))))))))))))))))))))))))))))))))))))))))))))))))))))))))))))))))))))))))))))))))))))))))))))))))))))))))))))))))))))))))))))))))))))))))))))))))))))))))))))))))))))))))))))))))))))))))))))))))))))))))))))))))))))))))))))))))))))))))))))))))))))))))))))))))))))))))))))))))))))))))))))))))))))))))))))))))))))))))))))))))))))))))))))))))))))))))))))))))))))))))))))))))))))))))))))))))))))))))))))))))))))))))))))))))))))))))))))))))))))))))))))))))))))))))))))))))))))))))))))))))))))))))))))))))))))))))))))))))))))))))))))))))))))))))))))))))))))))))))))))))))))))))))))))))))))))))))))))))))))))))))))))))))))))))))))))))))))))))))))))))))))))))))))))))))))))))))))))))))))))))))))))))))))))))))))))))))))))))))))))))))))))))))))))))))))))))))))))))))))))))))))))))))))))))))))))))))))))))))))))))))))))))))))))))))))))))))))))))))))))))))))))))))))))))))))))))))))))))))))))))))))))))))))))))))))))))))))))))))))))))))))))))))))))))))))))))))))))))))))))))))))))))))))))))))))))))))))))))))))))))))))))))))))))))))))))))))))))))))))))))))))))))))))))))))))))))))))))))))))))))))))))))))))))))))))))))))))))))))))))))))))))))))))))))))))))))))))))))))))))))))))))))))))))))))))))))))))))))))))))))))))))))))))))))))))))))))))))))))))))))))))))))))))))))))))))))))))))))))))))))
  | S f ->
    if Nat.ltb mx mn
    then Ok runs
    else bind (reverse_run_seqs levels mx runs []) (fun runs' ->
           match level_lower mx (S O) with
           | Some mx' -> runs_l2_loop f levels runs' mx' mn
           | None ->
             Panic (S (S (S (S (S (S (S (S (S (S (S (S (S (S (S (S (S (S (S
               (S (S (S (S (S (S (S (S (S (S (S (S (S (S (S (S (S (S (S (S (S
               (S (S (S (S (S (S (S (S (S (S (S (S (S (S (S (S (S (S (S (S (S
               (S (S (S (S (S (S (S (S (S (S (S (S (S (S (S (S (S (S (S (S (S
               (S (S (S (S (S (S (S (S (S (S (S (S (S (S (S (S (S (S (S (S (S
               (S (S (S (S (S (S (S (S (S (S (S (S (S (S (S (S (S (S (S (S (S
               (S (S (S (S (S (S (S (S (S (S (S (S (S (S (S (S (S (S (S (S (S
               (S (S (S (S (S (S (S (S (S (S (S (S (S (S (S (S (S (S (S (S (S
               (S (S (S (S (S (S (S (S (S (S (S (S (S (S (S (S (S (S (S (S (S
               (S (S (S (S (S (S (S (S (S (S (S (S (S (S (S (S (S (S (S (S (S
               (S (S (S (S (S (S (S (S (S (S (S (S (S (S (S (S (S (S (S (S (S
               (S (S (S (S (S (S (S (S (S (S (S (S (S (S (S (S (S (S (S (S (S
               (S (S (S (S (S (S (S (S (S (S (S (S (S (S (S (S (S (S (S (S (S
               (S (S (S (S (S (S (S (S (S (S (S (S (S (S (S (S (S (S (S (S (S
               (S (S (S (S (S (S (S (S (S (S (S (S (S (S (S (S (S (S (S (S (S
               (S (S (S (S (S (S (S (S (S (S (S (S (S (S (S (S (S (S (S (S (S
               (S (S (S (S (S (S (S (S (S (S (S (S (S (S (S (S (S (S (S (S (S
               (S (S (S (S (S (S (S (S (S (S (S (S (S (S (S (S (S (S (S (S (S
               (S (S (S (S (S (S (S (S (S (S (S (S (S (S (S (S (S (S (S (S (S
               (S (S (S (S (S (S (S (S (S (S (S (S (S (S (S (S (S (S (S (S (S
               (S (S (S (S (S (S (S (S (S (S (S (S (S (S (S (S (S (S (S (S (S
               (S (S (S (S (S (S (S (S (S (S (S (S (S (S (S (S (S (S (S (S (S
               (S (S (S (S (S (S (S (S (S (S (S (S (S (S (S (S (S (S (S (S (S
               (S (S (S (S (S (S (S (S (S (S (S (S (S (S (S (S (S (S (S (S (S
               (S (S (S (S (S (S (S (S (S (S (S (S (S (S (S (S (S (S (S (S (S
               (S (S (S (S (S (S (S (S (S (S (S (S (S (S (S (S (S (S (S (S (S
               (S (S (S (S (S (S (S (S (S (S (S (S (S (S (S (S (S (S (S (S (S
               (S (S (S (S (S (S (S (S (S (S (S (S (S (S (S (S (S (S (S (S (S
               (S (S (S (S (S (S (S (S (S (S (S (S (S (S (S (S (S (S (S (S (S
               (S (S (S (S (S (S (S (S (S (S (S (S (S (S (S (S (S (S (S (S (S
               (S (S (S (S (S (S (S (S (S (S (S (S (S (S (S (S (S (S (S (S (S
               (S (S (S (S (S (S (S (S (S (S (S (S (S (S (S (S (S (S (S (S (S
               (S (S (S (S (S (S (S (S (S (S (S (S (S (S (S (S (S (S (S (S (S
               (S (S (S (S (S (S (S (S (S (S (S (S (S (S (S (S (S (S (S (S (S
               (S (S (S (S (S (S (S (S (S (S (S (S (S (S (S (S (S (S (S (S (S
               (S (S (S (S (S (S (S (S (S (S (S (S (S (S (S (S (S (S (S (S (S
               (S (S (S (S (S (S (S (S (S (S (S (S (S (S (S (S (S (S (S (S (S
               (S (S (S (S (S (S (S (S (S (S (S (S (S (S (S (S (S (S (S (S (S
               (S (S (S (S (S (S (S (S (S (S (S (S (S (S (S (S (S (S (S (S (S
               (S (S (S (S (S (S (S (S (S (S (S (S (S (S (S (S (S (S (S (S (S
               (S (S (S (S (S (S (S (S (S (S (S (S (S (S (S (S (S (S (S (S (S
               (S (S (S (S (S (S (S (S (S (S (S (S (S (S (S (S (S (S (S (S (S
               (S (S (S (S (S (S (S (S (S (S (S (S (S (S (S (S (S (S (S (S (S
               (S (S (S (S (S (S (S (S (S (S (S (S (S (S (S (S (S (S (S (S (S
               (S (S (S (S (S (S (S (S (S (S (S (S (S (S (S (S (S (S (S (S (S
               (S (S (S (S (S (S (S (S (S (S (S (S (S (S (S (S (S (S (S (S (S
               (S (S (S (S (S (S (S (S (S (S (S (S (S (S (S (S (S (S (S
               O))))))))))))))))))))))))))))))))))))))))))))))))))))))))))))))))))))))))))))))))))))))))))))))))))))))))))))))))))))))))))))))))))))))))))))))))))))))))))))))))))))))))))))))))))))))))))))))))))))))))))))))))))))))))))))))))))))))))))))))))))))))))))))))))))))))))))))))))))))))))))))))))))))))))))))))))))))))))))))))))))))))))))))))))))))))))))))))))))))))))))))))))))))))))))))))))))))))))))))))))))))))))))))))))))))))))))))))))))))))))))))))))))))))))))))))))))))))))))))))))))))))))))))))))))))))))))))))))))))))))))))))))))))))))))))))))))))))))))))))))))))))))))))))))))))))))))))))))))))))))))))))))))))))))))))))))))))))))))))))))))))))))))))))))))))))))))))))))))))))))))))))))))))))))))))))))))))))))))))))))))))))))))))))))))))))))))))))))))))))))))))))))))))))))))))))))))))))))))))))))))))))))))))))))))))))))))))))))))))))))))))))))))))))))))))))))))))))))))))))))))))))))))))))))))))))))))))))))))))))))))))))))))))))))))))))))))))))))))))))))))))))))))))))))))))))))

(** val visual_runs_core : bool -> nat list -> (nat * nat) -> run list res **)

let visual_runs_core legacy levels = function
| (a, b) ->
  bind
    (get (S (S (S (S (S (S (S (S (S (S (S (S (S (S (S (S (S (S (S (S (S (S (S
      (S (S (S (S (S (S (S (S (S (S (S (S (S (S (S (S (S (S (S (S (S (S (S (S
      (S (S (S (S (S (S (S (S (S (S (S (S (S (S (S (S (S (S (S (S (S (S (S (S
      (S (S (S (S (S (S (S (S (S (S (S (S (S (S (S (S (S (S (S (S (S (S (S (S
      (S (S (S (S (S (S (S (S (S (S (S (S (S (S (S (S (S (S (S (S (S (S (S (S
      (S (S (S (S (S (S (S (S (S (S (S (S (S (S (S (S (S (S (S (S (S (S (S (S
      (S (S (S (S (S (S (S (S (S (S (S (S (S (S (S (S (S (S (S (S (S (S (S (S
      (S (S (S (S (S (S (S (S (S (S (S (S (S (S (S (S (S (S (S (S (S (S (S (S
      (S (S (S (S (S (S (S (S (S (S (S (S (S (S (S (S (S (S (S (S (S (S (S (S
      (S (S (S (S (S (S (S (S (S (S (S (S (S (S (S (S (S (S (S (S (S (S (S (S
      (S (S (S (S (S (S (S (S (S (S (S (S (S (S (S (S (S (S (S (S (S (S (S (S
      (S (S (S (S (S (S (S (S (S (S (S (S (S (S (S (S (S (S (S (S (S (S (S (S
      (S (S (S (S (S (S (S (S (S (S (S (S (S (S (S (S (S (S (S (S (S (S (S (S
      (S (S (S (S (S (S (S (S (S (S (S (S (S (S (S (S (S (S (S (S (S (S (S (S
      (S (S (S (S (S (S (S (S (S (S (S (S (S (S (S (S (S (S (S (S (S (S (S (S
      (S (S (S (S (S (S (S (S (S (S (S (S (S (S (S (S (S (S (S (S (S (S (S (S
      (S (S (S (S (S (S (S (S (S (S (S (S (S (S (S (S (S (S (S (S (S (S (S (S
      (S (S (S (S (S (S (S (S (S (S (S (S (S (S (S (S (S (S (S (S (S (S (S (S
      (S (S (S (S (S (S (S (S (S (S (S (S (S (S (S (S (S (S (S (S (S (S (S (S
      (S (S (S (S (S (S (S (S (S (S (S (S (S (S (S (S (S (S (S (S (S (S (S (S
      (S (S (S (S (S (S (S (S (S (S (S (S (S (S (S (S (S (S (S (S (S (S (S (S
      (S (S (S (S (S (S (S (S (S (S (S (S (S (S (S (S (S (S (S (S (S (S (S (S
      (S (S (S (S (S (S (S (S (S (S (S (S (S (S (S (S (S (S (S (S (S (S (S (S
      (S (S (S (S (S (S (S (S (S (S (S (S (S (S (S (S (S (S (S (S (S (S (S (S
      (S (S (S (S (S (S (S (S (S (S (S (S (S (S (S (S (S (S (S (S (S (S (S (S
      (S (S (S (S (S (S (S (S (S (S (S (S (S (S (S (S (S (S (S (S (S (S (S (S
      (S (S (S (S (S (S (S (S (S (S (S (S (S (S (S (S (S (S (S (S (S (S (S (S
      (S (S (S (S (S (S (S (S (S (S (S (S (S (S (S (S (S (S (S (S (S (S (S (S
      (S (S (S (S (S (S (S (S (S (S (S (S (S (S (S (S (S (S (S (S (S (S (S (S
      (S (S (S (S (S (S (S (S (S (S (S (S (S (S (S (S (S (S (S (S (S (S (S (S
      (S (S (S (S (S (S (S (S (S (S (S (S (S (S (S (S (S (S (S (S (S (S (S (S
      (S (S (S (S (S (S (S (S (S (S (S (S (S (S (S (S (S (S (S (S (S (S (S (S
      (S (S (S (S (S (S (S (S (S (S (S (S (S (S (S (S (S (S (S (S (S (S (S (S
      (S (S (S (S (S (S (S (S (S (S (S (S (S (S (S (S (S (S (S (S (S (S (S (S
      (S (S (S (S (S (S (S (S (S (S (S (S (S (S (S (S (S (S (S (S (S (S (S (S
      (S (S (S (S (S (S (S (S (S (S (S (S (S (S (S (S (S (S (S (S (S (S (S (S
      (S (S (S (S (S (S (S (S (S (S (S (S (S (S (S (S (S (S (S (S (S (S (S (S
      (S (S (S (S (S (S (S (S (S (S (S (S (S (S (S (S (S (S (S (S (S (S (S (S
      (S (S (S (S (S (S (S (S (S (S (S (S (S (S (S (S (S (S (S (S (S (S (S
      O))))))))))))))))))))))))))))))))))))))))))))))))))))))))))))))))))))))))))))))))))))))))))))))))))))))))))))))))))))))))))))))))))))))))))))))))))))))))))))))))))))))))))))))))))))))))))))))))))))))))))))))))))))))))))))))))))))))))))))))))))))))))))))))))))))))))))))))))))))))))))))))))))))))))))))))))))))))))))))))))))))))))))))))))))))))))))))))))))))))))))))))))))))))))))))))))))))))))))))))))))))))))))))))))))))))))))))))))))))))))))))))))))))))))))))))))))))))))))))))))))))))))))))))))))))))))))))))))))))))))))))))))))))))))))))))))))))))))))))))))))))))))))))))))))))))))))))))))))))))))))))))))))))))))))))))))))))))))))))))))))))))))))))))))))))))))))))))))))))))))))))))))))))))))))))))))))))))))))))))))))))))))))))))))))))))))))))))))))))))))))))))))))))))))))))))))))))))))))))))))))))))))))))))))))))))))))))))))))))))))))))))))))))))))))))))))))))))))))))))))))))))))))))))))))))))))))))))))))))))))))))))))))))))
      levels a) (fun run_level ->
    bind
      (find_runs levels (range (add a (S O)) b) a run_level run_level
        run_level []) (fun x ->
      let (p, mx) = x in
      let (p0, mn) = p in
      let (runs, start) = p0 in
      let runs0 = app runs ((start, b) :: []) in
      (match level_lowest_ge_rtl mn with
       | Some mn' ->
         runs_l2_loop (S (S (S (S (S (S (S (S (S (S (S (S (S (S (S (S (S (S
           (S (S (S (S (S (S (S (S (S (S (S (S (S (S (S (S (S (S (S (S (S (S
           (S (S (S (S (S (S (S (S (S (S (S (S (S (S (S (S (S (S (S (S (S (S
           (S (S (S (S (S (S (S (S (S (S (S (S (S (S (S (S (S (S (S (S (S (S
           (S (S (S (S (S (S (S (S (S (S (S (S (S (S (S (S (S (S (S (S (S (S
           (S (S (S (S (S (S (S (S (S (S (S (S (S (S (S (S (S (S (S (S (S (S
           (S (S
           O))))))))))))))))))))))))))))))))))))))))))))))))))))))))))))))))))))))))))))))))))))))))))))))))))))))))))))))))))))))))))))))))))
           levels runs0 mx mn'
       | None ->
         if legacy
         then Panic (S (S (S (S (S (S (S (S (S (S (S (S (S (S (S (S (S (S (S
                (S (S (S (S (S (S (S (S (S (S (S (S (S (S (S (S (S (S (S (S
                (S (S (S (S (S (S (S (S (S (S (S (S (S (S (S (S (S (S (S (S
                (S (S (S (S (S (S (S (S (S (S (S (S (S (S (S (S (S (S (S (S
                (S (S (S (S (S (S (S (S (S (S (S (S (S (S (S (S (S (S (S (S
                (S (S (S (S (S (S (S (S (S (S (S (S (S (S (S (S (S (S (S (S
                (S (S (S (S (S (S (S (S (S (S (S (S (S (S (S (S (S (S (S (S
                (S (S (S (S (S (S (S (S (S (S (S (S (S (S (S (S (S (S (S (S
                (S (S (S (S (S (S (S (S (S (S (S (S (S (S (S (S (S (S (S (S
                (S (S (S (S (S (S (S (S (S (S (S (S (S (S (S (S (S (S (S (S
                (S (S (S (S (S (S (S (S (S (S (S (S (S (S (S (S (S (S (S (S
                (S (S (S (S (S (S (S (S (S (S (S (S (S (S (S (S (S (S (S (S
                (S (S (S (S (S (S (S (S (S (S (S (S (S (S (S (S (S (S (S (S
                (S (S (S (S (S (S (S (S (S (S (S (S (S (S (S (S (S (S (S (S
                (S (S (S (S (S (S (S (S (S (S (S (S (S (S (S (S (S (S (S (S
                (S (S (S (S (S (S (S (S (S (S (S (S (S (S (S (S (S (S (S (S
                (S (S (S (S (S (S (S (S (S (S (S (S (S (S (S (S (S (S (S (S
                (S (S (S (S (S (S (S (S (S (S (S (S (S (S (S (S (S (S (S (S
                (S (S (S (S (S (S (S (S (S (S (S (S (S (S (S (S (S (S (S (S
                (S (S (S (S (S (S (S (S (S (S (S (S (S (S (S (S (S (S (S (S
                (S (S (S (S (S (S (S (S (S (S (S (S (S (S (S (S (S (S (S (S
                (S (S (S (S (S (S (S (S (S (S (S (S (S (S (S (S (S (S (S (S
                (S (S (S (S (S (S (S (S (S (S (S (S (S (S (S (S (S (S (S (S
                (S (S (S (S (S (S (S (S (S (S (S (S (S (S (S (S (S (S (S (S
                (S (S (S (S (S (S (S (S (S (S (S (S (S (S (S (S (S (S (S (S
                (S (S (S (S (S (S (S (S (S (S (S (S (S (S (S (S (S (S (S (S
                (S (S (S (S (S (S (S (S (S (S (S (S (S (S (S (S (S (S (S (S
                (S (S (S (S (S (S (S (S (S (S (S (S (S (S (S (S (S (S (S (S
                (S (S (S (S (S (S (S (S (S (S (S (S (S (S (S (S (S (S (S (S
                (S (S (S (S (S (S (S (S (S (S (S (S (S (S (S (S (S (S (S (S
                (S (S (S (S (S (S (S (S (S (S (S (S (S (S (S (S (S (S (S (S
                (S (S (S (S (S (S (S (S (S (S (S (S (S (S (S (S (S (S (S (S
                (S (S (S (S (S (S (S (S (S (S (S (S (S (S (S (S (S (S (S (S
                (S (S (S (S (S (S (S (S (S (S (S (S (S (S (S (S (S (S (S (S
                (S (S (S (S (S (S (S (S (S (S (S (S (S (S (S (S (S (S (S (S
                (S (S (S (S (S (S (S (S (S (S (S (S (S (S (S (S (S (S (S (S
                (S (S (S (S (S (S (S (S (S (S (S (S (S (S (S (S (S (S (S (S
                (S (S (S (S (S (S (S (S (S (S (S (S (S (S (S (S (S (S (S (S
                (S (S (S (S (S (S (S (S (S (S (S (S (S (S (S (S (S (S (S (S
                (S (S (S (S (S (S (S (S (S (S (S (S (S (S (S (S (S (S (S (S
                (S (S (S (S (S (S (S (S (S (S (S (S (S (S (S (S (S (S (S (S
                (S (S (S (S (S (S (S (S (S (S (S (S (S (S (S (S (S (S (S (S
                (S (S (S (S (S (S (S (S (S (S (S (S (S (S (S (S (S (S (S (S
                (S (S (S (S (S (S (S (S (S (S (S (S (S (S (S (S (S (S (S (S
                (S (S (S (S (S (S (S (S (S (S (S (S (S (S (S (S (S (S (S (S
                (S (S (S (S (S (S (S (S (S (S (S (S (S (S (S (S (S (S (S (S
                (S (S (S (S (S (S (S (S (S (S (S (S (S (S (S (S (S (S (S (S
                (S (S (S (S (S (S (S (S (S (S (S (S (S (S (S (S (S
                O))))))))))))))))))))))))))))))))))))))))))))))))))))))))))))))))))))))))))))))))))))))))))))))))))))))))))))))))))))))))))))))))))))))))))))))))))))))))))))))))))))))))))))))))))))))))))))))))))))))))))))))))))))))))))))))))))))))))))))))))))))))))))))))))))))))))))))))))))))))))))))))))))))))))))))))))))))))))))))))))))))))))))))))))))))))))))))))))))))))))))))))))))))))))))))))))))))))))))))))))))))))))))))))))))))))))))))))))))))))))))))))))))))))))))))))))))))))))))))))))))))))))))))))))))))))))))))))))))))))))))))))))))))))))))))))))))))))))))))))))))))))))))))))))))))))))))))))))))))))))))))))))))))))))))))))))))))))))))))))))))))))))))))))))))))))))))))))))))))))))))))))))))))))))))))))))))))))))))))))))))))))))))))))))))))))))))))))))))))))))))))))))))))))))))))))))))))))))))))))))))))))))))))))))))))))))))))))))))))))))))))))))))))))))))))))))))))))))))))))))))))))))))))))))))))))))))))))))))))))))))))))))))))))))))))))))))))))))))))
         else Ok runs0)))

(** val visual_runs_for_line :
    bool -> nat list -> (nat * nat) -> (nat list * run list) res **)

let visual_runs_for_line legacy levels line =
  bind (visual_runs_core legacy levels line) (fun runs -> Ok (levels, runs))

(** val deprecated_visual_runs :
    bool -> (nat * nat) -> nat list -> run list res **)

let deprecated_visual_runs legacy line levels =
  if negb
       ((&&) (Nat.leb (fst line) (length levels))
         (Nat.leb (snd line) (length levels)))
  then Panic (S (S (S (S (S (S (S (S (S (S (S (S (S (S (S (S (S (S (S (S (S
         (S (S (S (S (S (S (S (S O)))))))))))))))))))))))))))))
  else visual_runs_core legacy levels line

(** val count_while : ('a1 -> bool) -> 'a1 list -> nat **)

let rec count_while p = function
| [] -> O
| x :: t -> if p x then S (count_while p t) else O

(** val next_range : nat list -> nat -> nat -> nat * nat **)

let next_range levels start_index mx =
  if (||) (Nat.eqb (length levels) O) (Nat.leb (length levels) start_index)
  then (start_index, start_index)
  else let s =
         add start_index
           (count_while (fun l -> Nat.ltb l mx) (skipn start_index levels))
       in
       if Nat.leb (length levels) s
       then (s, s)
       else let en =
              add (S s)
                (count_while (fun l -> Nat.leb mx l) (skipn (S s) levels))
            in
            (s, en)

(** val reverse_range : nat -> nat list -> nat -> nat -> nat list res **)

let reverse_range site v a b =
  if (&&) (Nat.leb a b) (Nat.leb b (length v))
  then Ok
         (app (firstn a v)
           (app (rev (firstn (sub b a) (skipn a v))) (skipn b v)))
  else Panic site

(** val rv_inner :
    nat -> nat list -> nat -> nat list -> nat -> nat list res **)

let rec rv_inner fuel levels mx result range_end =
  match fuel with
  | O ->
    Panic (S (S (S (S (S (S (S (S (S (S (S (S (S (S (S (S (S (S (S (S (S (S
      (S (S (S (S (S (S (S (S (S (S (S (S (S (S (S (S (S (S (S (S (S (S (S (S
      (S (S (S (S (S (S (S (S (S (S (S (S (S (S (S (S (S (S (S (S (S (S (S (S
      (S (S (S (S (S (S (S (S (S (S (S (S (S (S (S (S (S (S (S (S (S (S (S (S
      (S (S (S (S (S (S (S (S (S (S (S (S (S (S (S (S (S (S (S (S (S (S (S (S
      (S (S (S (S (S (S (S (S (S (S (S (S (S (S (S (S (S (S (S (S (S (S (S (S
      (S (S (S (S (S (S (S (S (S (S (S (S (S (S (S (S (S (S (S (S (S (S (S (S
      (S (S (S (S (S (S (S (S (S (S (S (S (S (S (S (S (S (S (S (S (S (S (S (S
      (S (S (S (S (S (S (S (S (S (S (S (S (S (S (S (S (S (S (S (S (S (S (S (S
      (S (S (S (S (S (S (S (S (S (S (S (S (S (S (S (S (S (S (S (S (S (S (S (S
      (S (S (S (S (S (S (S (S (S (S (S (S (S (S (S (S (S (S (S (S (S (S (S (S
      (S (S (S (S (S (S (S (S (S (S (S (S (S (S (S (S (S (S (S (S (S (S (S (S
      (S (S (S (S (S (S (S (S (S (S (S (S (S (S (S (S (S (S (S (S (S (S (S (S
      (S (S (S (S (S (S (S (S (S (S (S (S (S (S (S (S (S (S (S (S (S (S (S (S
      (S (S (S (S (S (S (S (S (S (S (S (S (S (S (S (S (S (S (S (S (S (S (S (S
      (S (S (S (S (S (S (S (S (S (S (S (S (S (S (S (S (S (S (S (S (S (S (S (S
      (S (S (S (S (S (S (S (S (S (S (S (S (S (S (S (S (S (S (S (S (S (S (S (S
      (S (S (S (S (S (S (S (S (S (S (S (S (S (S (S (S (S (S (S (S (S (S (S (S
      (S (S (S (S (S (S (S (S (S (S (S (S (S (S (S (S (S (S (S (S (S (S (S (S
      (S (S (S (S (S (S (S (S (S (S (S (S (S (S (S (S (S (S (S (S (S (S (S (S
      (S (S (S (S (S (S (S (S (S (S (S (S (S (S (S (S (S (S (S (S (S (S (S (S
      (S (S (S (S (S (S (S (S (S (S (S (S (S (S (S (S (S (S (S (S (S (S (S (S
      (S (S (S (S (S (S (S (S (S (S (S (S (S (S (S (S (S (S (S (S (S (S (S (S
      (S (S (S (S (S (S (S (S (S (S (S (S (S (S (S (S (S (S (S (S (S (S (S (S
      (S (S (S (S (S (S (S (S (S (S (S (S (S (S (S (S (S (S (S (S (S (S (S (S
      (S (S (S (S (S (S (S (S (S (S (S (S (S (S (S (S (S (S (S (S (S (S (S (S
      (S (S (S (S (S (S (S (S (S (S (S (S (S (S (S (S (S (S (S (S (S (S (S (S
      (S (S (S (S (S (S (S (S (S (S (S (S (S (S (S (S (S (S (S (S (S (S (S (S
      (S (S (S (S (S (S (S (S (S (S (S (S (S (S (S (S (S (S (S (S (S (S (S (S
      (S (S (S (S (S (S (S (S (S (S (S (S (S (S (S (S (S (S (S (S (S (S (S (S
      (S (S (S (S (S (S (S (S (S (S (S (S (S (S (S (S (S (S (S (S (S (S (S (S
      (S (S (S (S (S (S (S (S (S (S (S (S (S (S (S (S (S (S (S (S (S (S (S (S
      (S (S (S (S (S (S (S (S (S (S (S (S (S (S (S (S (S (S (S (S (S (S (S (S
      (S (S (S (S (S (S (S (S (S (S (S (S (S (S (S (S (S (S (S (S (S (S (S (S
      (S (S (S (S (S (S (S (S (S (S (S (S (S (S (S (S (S (S (S (S (S (S (S (S
      (S (S (S (S (S (S (S (S (S (S (S (S (S (S (S (S (S (S (S (S (S (S (S (S
      (S (S (S (S (S (S (S (S (S (S (S (S (S (S (S (S (S (S (S (S (S (S (S (S
      (S (S (S (S (S (S (S (S (S (S (S (S (S (S (S (S (S (S (S (S (S (S (S (S
      (S (S (S (S (S (S (S (S (S (S (S (S (S (S (S (S (S (S (S (S (S (S (S (S
      (S (S (S (S (S (S (S (S (S (S (S (S (S (S (S (S (S (S (S (S (S (S (S (S
      (S (S (S (S (S (S (S (S (S (S (S (S (S (S (S (S (S (S (S (S (S (S (S (S
      (S (S (S (S (S (S (S (S (S (S (S (S (S (S (S (S (S (S (S (S (S (S (S (S
      (S (S (S (S (S (S (S (S (S (S (S (S (S (S (S (S (S (S (S (S (S (S (S (S
      (S (S (S (S (S (S (S (S (S (S (S (S (S (S (S (S (S (S (S (S (S (S (S (S
      (S (S (S (S (S (S (S (S (S (S (S (S (S (S (S (S (S (S (S (S (S (S (S (S
      (S (S (S (S (S (S (S (S (S (S (S (S (S (S (S (S (S (S (S (S (S (S (S (S
      (S (S (S (S (S (S (S (S (S (S (S (S (S (S (S (S (S (S (S (S (S (S (S (S
      (S (S (S (S (S (S (S (S (S (S (S (S (S (S (S (S (S (S (S (S (S (S (S (S
      (S (S (S (S (S (S (S (S (S (S (S (S (S (S (S (S (S (S (S (S (S (S (S (S
      (S (S (S (S (S (S (S (S (S (S (S (S (S (S (S (S (S (S (S (S (S (S (S (S
      (S (S (S (S (S (S (S (S (S (S (S (S (S (S (S (S (S (S (S (S (S (S (S (S
      (S (S (S (S (S (S (S (S (S (S (S (S (S (S (S (S (S (S (S (S (S (S (S (S
      (S (S (S (S (S (S (S (S (S (S (S (S (S (S (S (S (S (S (S (S (S (S (S (S
      (S (S (S (S (S (S (S (S (S (S (S (S (S (S (S (S (S (S (S (S (S (S (S (S
      (S (S (S (S (S (S (S (S (S (S (S (S (S (S (S (S (S (S (S (S (S (S (S (S
      (S (S (S (S (S (S (S (S (S (S (S (S (S (S (S (S (S (S (S (S (S (S (S (S
      (S (S (S (S (S (S (S (S (S (S (S (S (S (S (S (S (S (S (S (S (S (S (S (S
      (S (S (S (S (S (S (S (S (S (S (S (S (S (S (S (S (S (S (S (S (S (S (S (S
      (S (S (S (S (S (S (S (S (S (S (S (S (S (S (S (S (S (S (S (S (S (S (S (S
      (S (S (S (S (S (S (S (S (S (S (S (S (S (S (S (S (S (S (S (S (S (S (S (S
      (S (S (S (S (S (S (S (S (S (S (S (S (S (S (S (S (S (S (S (S (S (S (S (S
      (S (S (S (S (S (S (S (S (S (S (S (S (S (S (S (S (S (S (S (S (S (S (S (S
      (S (S (S (S (S (S (S (S (S (S (S (S (S (S (S (S (S (S (S (S (S (S (S (S
      (S (S (S (S (S (S (S (S (S (S (S (S (S (S (S (S (S (S (S (S (S (S (S (S
      (S (S (S (S (S (S (S (S (S (S (S (S (S (S (S (S (S (S (S (S (S (S (S (S
      (S (S (S (S (S (S (S (S (S (S (S (S (S (S (S (S (S (S (S (S (S (S (S (S
      (S (S (S (S (S (S (S (S (S (S (S (S (S (S (S (S (S (S (S (S (S (S (S (S
      (S (S (S (S (S (S (S (S (S (S (S (S (S (S (S (S (S (S (S (S (S (S (S (S
      (S (S (S (S (S (S (S (S (S (S (S (S (S (S (S (S (S (S (S (S (S (S (S (S
      (S (S (S (S (S (S (S (S (S (S (S (S (S (S (S (S (S (S (S (S (S (S (S (S
      (S (S (S (S (S (S (S (S (S (S (S (S (S (S (S (S (S (S (S (S (S (S (S (S
      (S (S (S (S (S (S (S (S (S (S (S (S (S (S (S (S (S (S (S (S (S (S (S (S
      (S (S (S (S (S (S (S (S (S (S (S (S (S (S (S (S (S (S (S (S (S (S (S (S
      (S (S (S (S (S (S (S (S (S (S (S (S (S (S (S (S (S (S (S (S (S (S (S (S
      (S (S (S (S (S (S (S (S (S (S (S (S (S (S (S (S (S (S (S (S (S (S (S (S
      (S (S (S (S (S (S (S (S (S (S (S (S (S (S (S (S (S (S (S (S (S (S (S (S
      (S (S (S (S (S (S (S (S (S (S (S (S (S (S (S (S (S (S (S (S (S (S (S (S
      (S (S (S (S (S (S (S (S (S (S (S (S (S (S (S (S (S (S (S (S (S (S (S (S
      (S (S (S (S (S (S (S (S (S (S (S (S (S (S (S (S (S (S (S (S (S (S (S (S
      (S (S (S (S (S (S (S (S (S (S (S (S (S (S (S (S (S (S (S (S (S (S (S (S
      (S (S (S (S (S (S (S (S (S (S (S (S (S (S (S (S (S (S (S (S (S (S (S (S
      (S (S (S (S (S (S (S (S (S (S (S (S (S (S (S (S (S (S (S (S (S (S (S (S
      (S (S (S (S (S (S (S (S (S (S (S (S (S (S (S (S (S (S (S (S (S (S (S (S
      (S (S (S (S (S (S (S (S (S (S (S (S (S (S (S (S (S (S (S (S (S (S (S (S
      (S (S (S (S (S (S (S (S (S (S (S (S (S (S (S (S (S (S (S (S (S (S (S (S
      (S (S (S (S (S (S (S (S (S (S (S (S (S (S (S (S (S (S (S (S (S (S (S (S
      (S (S (S (S (S (S (S (S (S (S (S (S (S (S (S (S (S (S (S (S (S (S (S (S
      (S (S (S (S (S (S (S (S (S (S (S (S (S (S (S (S (S (S (S (S (S (S (S (S
      (S (S (S (S (S (S (S (S (S (S (S (S (S (S (S (S (S (S (S (S (S (S (S (S
      (S (S (S (S (S (S (S (S (S (S (S (S (S (S (S (S (S (S (S (S (S (S (S (S
      (S (S (S (S (S (S (S (S (S (S (S (S (S (S (S (S (S (S (S (S (S (S (S (S
      (S (S (S (S (S (S (S (S (S (S (S (S (S (S (S (S (S (S (S (S (S (S (S (S
      (S (S (S (S (S (S (S (S (S (S (S (S (S (S (S (S (S (S (S (S (S (S (S (S
      (S (S (S (S (S (S (S (S (S (S (S (S (S (S (S (S (S (S (S (S (S (S (S (S
      (S (S (S (S (S (S (S (S (S (S (S (S (S (S (S (S (S (S (S (S (S (S (S (S
      (S (S (S (S (S (S (S (S (S (S (S (S (S (S (S (S (S (S (S (S (S (S (S (S
      (S (S (S (S (S (S (S (S (S (S (S (S (S (S (S (S (S (S (S (S (S (S (S (S
      (S (S (S (S (S (S (S (S (S (S (S (S (S (S (S (S (S (S (S (S (S (S (S (S
      (S (S (S (S (S (S (S (S (S (S (S (S (S (S (S (S (S (S (S (S (S (S (S (S
      (S (S (S (S (S (S (S (S (S (S (S (S (S (S (S (S (S (S (S (S (S (S (S (S
      (S (S (S (S (S (S (S (S (S (S (S (S (S (S (S (S (S (S (S (S (S (S (S (S
      (S (S (S (S (S (S (S (S (S (S (S (S (S (S (S (S (S (S (S (S (S (S (S (S
      (S (S (S (S (S (S (S (S (S (S (S (S (S (S (S (S (S (S (S (S (S (S (S (S
      (S (S (S (S (S (S (S (S (S (S (S (S (S (S (S (S (S (S (S (S (S (S (S (S
      (S (S (S (S (S (S (S (S (S (S (S (S (S (S (S (S (S (S (S (S (S (S (S (S
      (S (S (S (S (S (S (S (S (S (S (S (S (S (S (S (S (S (S (S (S (S (S (S (S
      (S (S (S (S (S (S (S (S (S (S (S (S (S (S (S (S (S (S (S (S (S (S (S (S
      (S (S (S (S (S (S (S (S (S (S (S (S (S (S (S (S (S (S (S (S (S (S (S (S
      (S (S (S (S (S (S (S (S (S (S (S (S (S (S (S (S (S (S (S (S (S (S (S (S
      (S (S (S (S (S (S (S (S (S (S (S (S (S (S (S (S (S (S (S (S (S (S (S (S
      (S (S (S (S (S (S (S (S (S (S (S (S (S (S (S (S (S (S (S (S (S (S (S (S
      (S (S (S (S (S (S (S (S (S (S (S (S (S (S (S (S (S (S (S (S (S (S (S (S
      (S (S (S (S (S (S (S (S (S (S (S (S (S (S (S (S (S (S (S (S (S (S (S (S
      (S (S (S (S (S (S (S (S (S (S (S (S (S (S (S (S (S (S (S (S (S (S (S (S
      (S (S (S (S (S (S (S (S (S (S (S (S (S (S (S (S (S (S (S (S (S (S (S (S
      (S (S (S (S (S (S (S (S (S (S (S (S (S (S (S (S (S (S (S (S (S (S (S (S
      (S (S (S (S (S (S (S (S (S (S (S (S (S (S (S (S (S (S (S (S (S (S (S (S
      (S (S (S (S (S (S (S (S (S (S (S (S (S (S (S (S (S (S (S (S (S (S (S (S
      (S (S (S (S (S (S (S (S (S (S (S (S (S (S (S (S (S (S (S (S (S (S (S (S
      (S (S (S (S (S (S (S (S (S (S (S (S (S (S (S (S (S (S (S (S (S (S (S (S
      (S (S (S (S (S (S (S (S (S (S (S (S (S (S (S (S (S (S (S (S (S (S (S (S
      (S (S (S (S (S (S (S (S (S (S (S (S (S (S (S (S (S (S (S (S (S (S (S (S
      (S (S (S (S (S (S (S (S (S (S (S (S (S (S (S (S (S (S (S (S (S (S (S (S
      (S (S (S (S (S (S (S (S (S (S (S (S (S (S (S (S (S (S (S (S (S (S (S (S
      (S (S (S (S (S (S (S (S (S (S (S (S (S (S (S (S (S (S (S (S (S (S (S (S
      (S (S (S (S (S (S (S (S (S (S (S (S (S (S (S (S (S (S (S (S (S (S (S (S
      (S (S (S (S (S (S (S (S (S (S (S (S (S (S (S (S (S (S (S (S (S (S (S (S
      (S (S (S (S (S (S (S (S (S (S (S (S (S (S (S (S (S (S (S (S (S (S (S (S
      (S (S (S (S (S (S (S (S (S (S (S (S (S (S (S (S (S (S (S (S (S (S (S (S
      (S (S (S (S (S (S (S (S (S (S (S (S (S (S (S (S (S (S (S (S (S (S (S (S
      (S (S (S (S (S (S (S (S (S (S (S (S (S (S (S (S (S (S (S (S (S (S (S (S
      (S (S (S (S (S (S (S (S (S (S (S (S (S (S (S (S (S (S (S (S (S (S (S (S
      (S (S (S (S (S (S (S (S (S (S (S (S (S (S (S (S (S (S (S (S (S (S (S (S
      (S (S (S (S (S (S (S (S (S (S (S (S (S (S (S (S (S (S (S (S (S (S (S (S
      (S (S (S (S (S (S (S (S (S (S (S (S (S (S (S (S (S (S (S (S (S (S (S (S
      (S (S (S (S (S (S (S (S (S (S (S (S (S (S (S (S (S (S (S (S (S (S (S (S
      (S (S (S (S (S (S (S (S (S (S (S (S (S (S (S (S (S (S (S (S (S (S (S (S
      (S (S (S (S (S (S (S (S (S (S (S (S (S (S (S (S (S (S (S (S (S (S (S (S
      (S (S (S (S (S (S (S (S (S (S (S (S (S (S (S (S (S (S (S (S (S (S (S (S
      (S (S (S (S (S (S (S (S (S (S (S (S (S (S (S (S (S (S (S (S (S (S (S (S
      (S (S (S (S (S (S (S (S (S (S (S (S (S (S (S (S (S (S (S (S (S (S (S (S
      (S (S (S (S (S (S (S (S (S (S (S (S (S (S (S (S (S (S (S (S (S (S (S (S
      (S (S (S (S (S (S (S (S (S (S (S (S (S (S (S (S (S (S (S (S (S (S (S (S
      (S (S (S (S (S (S (S (S (S (S (S (S (S (S (S (S (S (S (S (S (S (S (S (S
      (S (S (S (S (S (S (S (S (S (S (S (S (S (S (S (S (S (S (S (S (S (S (S (S
      (S (S (S (S (S (S (S (S (S (S (S (S (S (S (S (S (S (S (S (S (S (S (S (S
      (S (S (S (S (S (S (S (S (S (S (S (S (S (S (S (S (S (S (S (S (S (S (S (S
      (S (S (S (S (S (S (S (S (S (S (S (S (S (S (S (S (S (S (S (S (S (S (S (S
      (S (S (S (S (S (S (S (S (S (S (S (S (S (S (S (S (S (S (S (S (S (S (S (S
      (S (S (S (S (S (S (S (S (S (S (S (S (S (S (S (S (S (S (S (S (S (S (S (S
      (S (S (S (S (S (S (S (S (S (S (S (S (S (S (S (S (S (S (S (S (S (S (S (S
      (S (S (S (S (S (S (S (S (S (S (S (S (S (S (S (S (S (S (S (S (S (S (S (S
      (S (S (S (S (S (S (S (S (S (S (S (S (S (S (S (S (S (S (S (S (S (S (S (S
      (S (S (S (S (S (S (S (S (S (S (S (S (S (S (S (S (S (S (S (S (S (S (S (S
      (S (S (S (S (S (S (S (S (S (S (S (S (S (S (S (S (S (S (S (S (S (S (S (S
      (S (S (S (S (S (S (S (S (S (S (S (S (S (S (S (S (S (S (S (S (S (S (S (S
      (S (S (S (S (S (S (S (S (S (S (S (S (S (S (S (S (S (S (S (S (S (S (S (S
      (S (S (S (S (S (S (S (S (S (S (S (S (S (S (S (S (S (S (S (S (S (S (S (S
      (S (S (S (S (S (S (S (S (S (S (S (S (S (S (S (S (S (S (S (S (S (S (S (S
      (S (S (S (S (S (S (S (S (S (S (S (S (S (S (S (S (S (S (S (S (S (S (S (S
      (S (S (S (S (S (S (S (S (S (S (S (S (S (S (S (S (S (S (S (S (S (S (S (S
      (S (S (S (S (S (S (S (S (S (S (S (S (S (S (S (S (S (S (S (S (S (S (S (S
      (S (S (S (S (S (S (S (S (S (S (S (S (S (S (S (S (S (S (S (S (S (S (S (S
      (S (S (S (S (S (S (S (S (S (S (S (S (S (S (S (S (S (S (S (S (S (S (S (S
      (S (S (S (S (S (S (S (S (S (S (S (S (S (S (S (S (S (S (S (S (S (S (S (S
      (S (S (S (S (S (S (S (S (S (S (S (S (S (S (S (S (S (S (S (S (S (S (S (S
      (S (S (S (S (S (S (S (S (S (S (S (S (S (S (S (S (S (S (S (S (S (S (S (S
      (S (S (S (S (S (S (S (S (S (S (S (S (S (S (S (S (S (S (S (S (S (S (S (S
      (S (S (S (S (S (S (S (S (S (S (S (S (S (S (S (S (S (S (S (S (S (S (S (S
      (S (S (S (S (S (S (S (S (S (S (S (S (S (S (S (S (S (S (S (S (S (S (S (S
      (S (S (S (S (S (S (S (S (S (S (S (S (S (S (S (S (S (S (S (S (S (S (S (S
      (S (S (S (S (S (S (S (S (S (S (S (S (S (S (S (S (S (S (S (S (S (S (S (S
      (S (S (S (S (S (S (S (S (S (S (S (S (S (S (S (S (S (S (S (S (S (S (S (S
      (S (S (S (S (S (S (S (S (S (S (S (S (S (S (S (S (S (S (S (S (S (S (S (S
      (S (S (S (S (S (S (S (S (S (S (S (S (S (S (S (S (S (S (S (S (S (S (S (S
      (S (S (S (S (S (S (S (S (S (S (S (S (S (S (S (S (S (S (S (S (S (S (S (S
      (S (S (S (S (S (S (S (S (S (S (S (S (S (S (S (S (S (S (S (S (S (S (S (S
      (S (S (S (S (S (S (S (S (S (S (S (S (S (S (S (S (S (S (S (S (S (S (S (S
      (S (S (S (S (S (S (S (S (S (S (S (S (S (S (S (S (S (S (S (S (S (S (S (S
      (S (S (S (S (S (S (S (S (S (S (S (S (S (S (S (S (S (S (S (S (S (S (S (S
      (S (S (S (S (S (S (S (S (S (S (S (S (S (S (S (S (S (S (S (S (S (S (S (S
      (S (S (S (S (S (S (S (S (S (S (S (S (S (S (S (S (S (S (S (S (S (S (S (S
      (S (S (S (S (S (S (S (S (S (S (S (S (S (S (S (S (S (S (S (S (S (S (S (S
      (S (S (S (S (S (S (S (S (S (S (S (S (S (S (S (S (S (S (S (S (S (S (S (S
      (S (S (S (S (S (S (S (S (S (S (S (S (S (S (S (S (S (S (S (S (S (S (S (S
      (S (S (S (S (S (S (S (S (S (S (S (S (S (S (S (S (S (S (S (S (S (S (S (S
      (S (S (S (S (S (S (S (S (S (S (S (S (S (S (S (S (S (S (S (S (S (S (S (S
      (S (S (S (S (S (S (S (S (S (S (S (S (S (S (S (S (S (S (S (S (S (S (S (S
      (S (S (S (S (S (S (S (S (S (S (S (S (S (S (S (S (S (S (S (S (S (S (S (S
      (S (S (S (S (S (S (S (S (S (S (S (S (S (S (S (S (S (S (S (S (S (S (S (S
      (S (S (S (S (S (S (S (S (S (S (S (S (S (S (S (S (S (S (S (S (S (S (S (S
      (S (S (S (S (S (S (S (S (S (S (S (S (S (S (S (S (S (S (S (S (S (S (S (S
      (S (S (S (S (S (S (S (S (S (S (S (S (S (S (S (S (S (S (S (S (S (S (S (S
      (S (S (S (S (S (S (S (S (S (S (S (S (S (S (S (S (S (S (S (S (S (S (S (S
      (S (S (S (S (S (S (S (S (S (S (S (S (S (S (S (S (S (S (S (S (S (S (S (S
      (S (S (S (S (S (S (S (S (S (S (S (S (S (S (S (S (S (S (S (S (S (S (S (S
      (S (S (S (S (S (S (S (S (S (S (S (S (S (S (S (S (S (S (S (S (S (S (S (S
      (S (S (S (S (S (S (S (S (S (S (S (S (S (S (S (S (S (S (S (S (S (S (S (S
      (S (S (S (S (S (S (S (S (S (S (S (S (S (S (S (S (S (S (S (S (S (S (S (S
      (S (S (S (S (S (S (S (S (S (S (S (S (S (S (S (S (S (S (S (S (S (S (S (S
      (S (S (S (S (S (S (S (S (S (S (S (S (S (S (S (S (S (S (S (S (S (S (S (S
      (S (S (S (S (S (S (S (S (S (S (S (S (S (S (S (S (S (S (S (S (S (S (S (S
      (S (S (S (S (S (S (S (S (S (S (S (S (S (S (S (S (S (S (S (S (S (S (S (S
      (S (S (S (S (S (S (S (S (S (S (S (S (S (S (S (S (S (S (S (S (S (S (S (S
      (S (S (S (S (S (S (S (S (S (S (S (S (S (S (S (S (S (S (S (S (S (S (S (S
      (S (S (S (S (S (S (S (S (S (S (S (S (S (S (S (S (S (S (S (S (S (S (S (S
      (S (S (S (S (S (S (S (S (S (S (S (S (S (S (S (S (S (S (S (S (S (S (S (S
      (S (S (S (S (S (S (S (S (S (S (S (S (S (S (S (S (S (S (S (S (S (S (S (S
      (S (S (S (S (S (S (S
      O)))))))))))))))))))))))))))))))))))))))))))))))))))))))))))))))))))))))))))))))))))))))))))))))))))))))))))))))))))))))))))))))))))))))))))))))))))))))))))))))))))))))))))))))))))))))))))))))))))))))))))))))))))))))))))))))))))))))))))))))))))))))))))))))))))))))))))))))))))))))))))))))))))))))))))))))))))))))))))))))))))))))))))))))))))))))))))))))))))))))))))))))))))))))))))))))))))))))))))))))))))))))))))))))))))))))))))))))))))))))))))))))))))))))))))))))))))))))))))))))))))))))))))))))))))))))))))))))))))))))))))))))))))))))))))))))))))))))))))))))))))))))))))))))))))))))))))))))))))))))))))))))))))))))))))))))))))))))))))))))))))))))))))))))))))))))))))))))))))))))))))))))))))))))))))))))))))))))))))))))))))))))))))))))))))))))))))))))))))))))))))))))))))))))))))))))))))))))))))))))))))))))))))))))))))))))))))))))))))))))))))))))))))))))))))))))))))))))))))))))))))))))))))))))))))))))))))))))))))))))))))))))))))))))))))))))))))))))))))))))))))))))))))))))))))))))))))))))))))))))))))))))))))))))))))))))))))))))))))))))))))))))))))))))))))))))))))))))))))))))))))))))))))))))))))))))))))))))))))))))))))))))))))))))))))))))))))))))))))))))))))))))))))))))))))))))))))))))))))))))))))))))))))))))))))))))))))))))))))))))))))))))))))))))))))))))))))))))))))))))))))))))))))))))))))))))))))))))))))))))))))))))))))))))))))))))))))))))))))))))))))))))))))))))))))))))))))))))))))))))))))))))))))))))))))))))))))))))))))))))))))))))))))))))))))))))))))))))))))))))))))))))))))))))))))))))))))))))))))))))))))))))))))))))))))))))))))))))))))))))))))))))))))))))))))))))))))))))))))))))))))))))))))))))))))))))))))))))))))))))))))))))))))))))))))))))))))))))))))))))))))))))))))))))))))))))))))))))))))))))))))))))))))))))))))))))))))))))))))))))))))))))))))))))))))))))))))))))))))))))))))))))))))))))))))))))))))))))))))))))))))))))))))))))))))))))))))))))))))))))))))))))))))))))))))))))))))))))))))))))))))))))))))))))))))))))))))))))))))))))))))))))))))))))))))))))))))))))))))))))))))))))))))))))))))))))))))))))))))))))))))))))))))))))))))))))))))))))))))))))))))))))))))))))))))))))))))))))))))))))))))))))))))))))))))))))))))))))))))))))))))))))))))))))))))))))))))))))))))))))))))))))))))))))))))))))))))))))))))))))))))))))))))))))))))))))))))))))))))))))))))))))))))))))))))))))))))))))))))))))))))))))))))))))))))))))))))))))))))))))))))))))))))))))))))))))))))))))))))))))))))))))))))))))))))))))))))))))))))))))))))))))))))))))))))))))))))))))))))))))))))))))))))))))))))))))))))))))))))))))))))))))))))))))))))))))))))))))))))))))))))))))))))))))))))))))))))))))))))))))))))))))))))))))))))))))))))))))))))))))))))))))))))))))))))))))))))))))))))))))))))))))))))))))))))))))))))))))))))))))))))))))))))))))))))))))))))))))))))))))))))))))))))))))))))))))))))))))))))))))))))))))))))))))))))))))))))))))))))))))))))))))))))))))))))))))))))))))))))))))))))))))))))))))))))))))))))))))))))))))))))))))))))))))))))))))))))))))))))))))))))))))))))))))))))))))))))))))))))))))))))))))))))))))))))))))))))))))))))))))))))))))))))))))))))))))))))))))))))))))))))))))))))))))))))))))))))))))))))))))))))))))))))))))))))))))))))))))))))))))))))))))))))))))))))))))))))))))))))))))))))))))))))))))))))))))))))))))))))))))))))))))))))))))))))))))))))))))))))))))))))))))))))))))))))))))))))))))))))))))))))))))))))))))))))))))))))))))))))))))))))))))))))))))))))))))))))))))))))))))))))))))))))))))))))))))))))))))))))))))))))))))))))))))))))))))))))))))))))))))))))))))))))))))))))))))))))))))))))))))))))))))))))))))))))))))))))))))))))))))))))))))))))))))))))))))))))))))))))))))))))))))))))))))))))))))))))))))))))))))))))))))))))))))))))))))))))))))))))))))))))))))))))))))))))))))))))))))))))))))))))))))))))))))))))))))))))))))))))))))))))))))))))))))))))))))))))))))))))))))))))))))))))))))))))))))))))))))))))))))))))))))))))))))))))))))))))))))))))))))))))))))))))))))))))))))))))))))))))))))))))))))))))))))))))))))))))))))))))))))))))))))))))))))))))))))))))))))))))))))))))))))))))))))))))))))))))))))))))))))))))))))))))))))))))))))))))))))))))))))))))))))))))))))))))))))))))))))))))))))))))))))))))))))))))))))))))))))))))))))))))))))))))))))))))))))))))))))))))))))))))))))))))))))))))))))))))))))))))))))))))))))))))))))))))))))))))))))))))))))))))))))))))))))))))))))))))))))))))))))))))))))))))))))))))))))))))))))))))))))))))))))))))))))))))))))))))))))))))))))))))))))))))))))))))))))))))))))))))))))))))))))))))))))))))))))))))))))))))))))))))))))))))))))))))))))))))))))))))))))))))))))))))))))))))))))))))))))))))))))))))))))))))))))))))))))))))))))))))))))))))))))))))))))))))))))))))))))))))))))))))))))))))))))))))))))))))))))))))))))))))))))))))))))))))))))))))))))))))))))))))))))))))))))))))))))))))))))))))))))))))))))))))))))))))))))))))))))))))))))))))))))))))))))))))))))))))))))))))))))))))))))))))))))))))))))))))))))))))))))))))))))))))))))))))))))))))))))))))))))))))))))))))))))))))))))))))))))))))))))))))))))))))))))))))))))))))))))))))))
  | S f ->
    let (a, b) = next_range levels range_end mx in
    bind
      (reverse_range (S (S (S (S (S (S (S (S (S (S (S (S (S (S (S (S (S (S (S
        (S (S (S (S (S (S (S (S (S (S (S (S (S (S (S (S (S (S (S (S (S (S (S
        (S (S (S (S (S (S (S (S (S (S (S (S (S (S (S (S (S (S (S (S (S (S (S
        (S (S (S (S (S (S (S (S (S (S (S (S (S (S (S (S (S (S (S (S (S (S (S
        (S (S (S (S (S (S (S (S (S (S (S (S (S (S (S (S (S (S (S (S (S (S (S
        (S (S (S (S (S (S (S (S (S (S (S (S (S (S (S (S (S (S (S (S (S (S (S
        (S (S (S (S (S (S (S (S (S (S (S (S (S (S (S (S (S (S (S (S (S (S (S
        (S (S (S (S (S (S (S (S (S (S (S (S (S (S (S (S (S (S (S (S (S (S (S
        (S (S (S (S (S (S (S (S (S (S (S (S (S (S (S (S (S (S (S (S (S (S (S
        (S (S (S (S (S (S (S (S (S (S (S (S (S (S (S (S (S (S (S (S (S (S (S
        (S (S (S (S (S (S (S (S (S (S (S (S (S (S (S (S (S (S (S (S (S (S (S
        (S (S (S (S (S (S (S (S (S (S (S (S (S (S (S (S (S (S (S (S (S (S (S
        (S (S (S (S (S (S (S (S (S (S (S (S (S (S (S (S (S (S (S (S (S (S (S
        (S (S (S (S (S (S (S (S (S (S (S (S (S (S (S (S (S (S (S (S (S (S (S
        (S (S (S (S (S (S (S (S (S (S (S (S (S (S (S (S (S (S (S (S (S (S (S
        (S (S (S (S (S (S (S (S (S (S (S (S (S (S (S (S (S (S (S (S (S (S (S
        (S (S (S (S (S (S (S (S (S (S (S (S (S (S (S (S (S (S (S (S (S (S (S
        (S (S (S (S (S (S (S (S (S (S (S (S (S (S (S (S (S (S (S (S (S (S (S
        (S (S (S (S (S (S (S (S (S (S (S (S (S (S (S (S (S (S (S (S (S (S (S
        (S (S (S (S (S (S (S (S (S (S (S (S (S (S (S (S (S (S (S (S (S (S (S
        (S (S (S (S (S (S (S (S (S (S (S (S (S (S (S (S (S (S (S (S (S (S (S
        (S (S (S (S (S (S (S (S (S (S (S (S (S (S (S (S (S (S (S (S (S (S (S
        (S (S (S (S (S (S (S (S (S (S (S (S (S (S (S (S (S (S (S (S (S (S (S
        (S (S (S (S (S (S (S (S (S (S (S (S (S (S (S (S (S (S (S (S (S (S (S
        (S (S (S (S (S (S (S (S (S (S (S (S (S (S (S (S (S (S (S (S (S (S (S
        (S (S (S (S (S (S (S (S (S (S (S (S (S (S (S (S (S (S (S (S (S (S (S
        (S (S (S (S (S (S (S (S (S (S (S (S (S (S (S (S (S (S (S (S (S (S (S
        (S (S (S (S (S (S (S (S (S (S (S (S (S (S (S (S (S (S (S (S (S (S (S
        (S (S (S (S (S (S (S (S (S (S (S (S (S (S (S (S (S (S (S (S (S (S (S
        (S (S (S (S (S (S (S (S (S (S (S (S (S (S (S (S (S (S (S (S (S (S (S
        (S (S (S (S (S (S (S (S (S (S (S (S (S (S (S (S (S (S (S (S (S (S (S
        (S (S (S (S (S (S (S (S (S (S (S (S (S (S (S (S (S (S (S (S (S (S (S
        (S (S (S (S (S (S (S (S (S (S (S (S (S (S (S (S (S (S (S (S (S (S (S
        (S (S (S (S (S (S (S (S (S (S (S (S (S (S (S (S (S (S (S (S (S (S (S
        (S (S (S (S (S (S (S (S (S (S (S (S (S (S (S (S (S (S (S (S (S (S (S
        (S (S (S (S (S (S (S (S (S (S (S (S (S (S (S (S (S (S (S (S (S (S (S
        (S (S (S (S (S (S (S (S (S (S (S (S (S (S (S (S (S (S (S (S (S (S (S
        (S (S (S (S (S (S (S (S (S (S (S (S (S (S (S (S (S (S (S (S (S (S (S
        (S (S (S (S (S (S (S (S (S (S (S (S (S (S (S (S (S (S (S (S (S (S (S
        (S (S (S (S (S (S (S (S (S (S (S (S (S (S (S (S (S (S (S (S (S (S (S
        (S (S (S (S (S (S (S (S (S (S (S (S (S (S (S (S (S (S (S (S (S (S (S
        (S (S (S (S (S (S (S (S (S (S (S (S (S (S (S (S (S (S (S (S (S (S (S
        (S (S (S (S (S (S (S (S (S (S (S (S (S (S (S (S (S (S (S (S (S (S (S
        (S (S (S (S (S (S (S (S (S (S (S (S (S (S (S (S (S (S (S (S (S (S (S
        (S (S (S (S (S (S (S (S (S (S (S (S (S (S (S (S (S (S (S (S (S (S (S
        (S (S (S (S (S (S (S (S (S (S (S (S (S (S (S (S (S (S (S (S (S (S (S
        (S (S (S (S (S (S (S (S (S (S (S (S (S (S (S
        O)))))))))))))))))))))))))))))))))))))))))))))))))))))))))))))))))))))))))))))))))))))))))))))))))))))))))))))))))))))))))))))))))))))))))))))))))))))))))))))))))))))))))))))))))))))))))))))))))))))))))))))))))))))))))))))))))))))))))))))))))))))))))))))))))))))))))))))))))))))))))))))))))))))))))))))))))))))))))))))))))))))))))))))))))))))))))))))))))))))))))))))))))))))))))))))))))))))))))))))))))))))))))))))))))))))))))))))))))))))))))))))))))))))))))))))))))))))))))))))))))))))))))))))))))))))))))))))))))))))))))))))))))))))))))))))))))))))))))))))))))))))))))))))))))))))))))))))))))))))))))))))))))))))))))))))))))))))))))))))))))))))))))))))))))))))))))))))))))))))))))))))))))))))))))))))))))))))))))))))))))))))))))))))))))))))))))))))))))))))))))))))))))))))))))))))))))))))))))))))))))))))))))))))))))))))))))))))))))))))))))))))))))))))))))))))))))))))))))))))))))))))))))))))))))))))))))))))))))))))))))))))))))))))))))))))))))))))))))))))))))))))))))))))))))))))))))))))))))))))))))))))))))))))))))))))))))))))))))))))))))))))))))))))))))))))))))))))
        result a b) (fun result' ->
      if Nat.leb (length levels) b
      then Ok result'
      else rv_inner f levels mx result' b)

(** val rv_outer :
    nat -> nat list -> nat -> nat -> nat list -> nat list res **)

let rec rv_outer fuel levels mn mx result =
  match fuel with
  | O ->
    Panic (S (S (S (S (S (S (S (S (S (S (S (S (S (S (S (S (S (S (S (S (S (S
      (S (S (S (S (S (S (S (S (S (S (S (S (S (S (S (S (S (S (S (S (S (S (S (S
      (S (S (S (S (S (S (S (S (S (S (S (S (S (S (S (S (S (S (S (S (S (S (S (S
      (S (S (S (S (S (S (S (S (S (S (S (S (S (S (S (S (S (S (S (S (S (S (S (S
      (S (S (S (S (S (S (S (S (S (S (S (S (S (S (S (S (S (S (S (S (S (S (S (S
      (S (S (S (S (S (S (S (S (S (S (S (S (S (S (S (S (S (S (S (S (S (S (S (S
      (S (S (S (S (S (S (S (S (S (S (S (S (S (S (S (S (S (S (S (S (S (S (S (S
      (S (S (S (S (S (S (S (S (S (S (S (S (S (S (S (S (S (S (S (S (S (S (S (S
      (S (S (S (S (S (S (S (S (S (S (S (S (S (S (S (S (S (S (S (S (S (S (S (S
      (S (S (S (S (S (S (S (S (S (S (S (S (S (S (S (S (S (S (S (S (S (S (S (S
      (S (S (S (S (S (S (S (S (S (S (S (S (S (S (S (S (S (S (S (S (S (S (S (S
      (S (S (S (S (S (S (S (S (S (S (S (S (S (S (S (S (S (S (S (S (S (S (S (S
      (S (S (S (S (S (S (S (S (S (S (S (S (S (S (S (S (S (S (S (S (S (S (S (S
      (S (S (S (S (S (S (S (S (S (S (S (S (S (S (S (S (S (S (S (S (S (S (S (S
      (S (S (S (S (S (S (S (S (S (S (S (S (S (S (S (S (S (S (S (S (S (S (S (S
      (S (S (S (S (S (S (S (S (S (S (S (S (S (S (S (S (S (S (S (S (S (S (S (S
      (S (S (S (S (S (S (S (S (S (S (S (S (S (S (S (S (S (S (S (S (S (S (S (S
      (S (S (S (S (S (S (S (S (S (S (S (S (S (S (S (S (S (S (S (S (S (S (S (S
      (S (S (S (S (S (S (S (S (S (S (S (S (S (S (S (S (S (S (S (S (S (S (S (S
      (S (S (S (S (S (S (S (S (S (S (S (S (S (S (S (S (S (S (S (S (S (S (S (S
      (S (S (S (S (S (S (S (S (S (S (S (S (S (S (S (S (S (S (S (S (S (S (S (S
      (S (S (S (S (S (S (S (S (S (S (S (S (S (S (S (S (S (S (S (S (S (S (S (S
      (S (S (S (S (S (S (S (S (S (S (S (S (S (S (S (S (S (S (S (S (S (S (S (S
      (S (S (S (S (S (S (S (S (S (S (S (S (S (S (S (S (S (S (S (S (S (S (S (S
      (S (S (S (S (S (S (S (S (S (S (S (S (S (S (S (S (S (S (S (S (S (S (S (S
      (S (S (S (S (S (S (S (S (S (S (S (S (S (S (S (S (S (S (S (S (S (S (S (S
      (S (S (S (S (S (S (S (S (S (S (S (S (S (S (S (S (S (S (S (S (S (S (S (S
      (S (S (S (S (S (S (S (S (S (S (S (S (S (S (S (S (S (S (S (S (S (S (S (S
      (S (S (S (S (S (S (S (S (S (S (S (S (S (S (S (S (S (S (S (S (S (S (S (S
      (S (S (S (S (S (S (S (S (S (S (S (S (S (S (S (S (S (S (S (S (S (S (S (S
      (S (S (S (S (S (S (S (S (S (S (S (S (S (S (S (S (S (S (S (S (S (S (S (S
      (S (S (S (S (S (S (S (S (S (S (S (S (S (S (S (S (S (S (S (S (S (S (S (S
      (S (S (S (S (S (S (S (S (S (S (S (S (S (S (S (S (S (S (S (S (S (S (S (S
      (S (S (S (S (S (S (S (S (S (S (S (S (S (S (S (S (S (S (S (S (S (S (S (S
      (S (S (S (S (S (S (S (S (S (S (S (S (S (S (S (S (S (S (S (S (S (S (S (S
      (S (S (S (S (S (S (S (S (S (S (S (S (S (S (S (S (S (S (S (S (S (S (S (S
      (S (S (S (S (S (S (S (S (S (S (S (S (S (S (S (S (S (S (S (S (S (S (S (S
      (S (S (S (S (S (S (S (S (S (S (S (S (S (S (S (S (S (S (S (S (S (S (S (S
      (S (S (S (S (S (S (S (S (S (S (S (S (S (S (S (S (S (S (S (S (S (S (S (S
      (S (S (S (S (S (S (S (S (S (S (S (S (S (S (S (S (S (S (S (S (S (S (S (S
      (S (S (S (S (S (S (S (S (S (S (S (S (S (S (S (S (S (S (S (S (S (S (S (S
      (S (S (S (S (S (S (S (S (S (S (S (S (S (S (S (S (S (S (S (S (S (S (S (S
      (S (S (S (S (S (S (S (S (S (S (S (S (S (S (S (S (S (S (S (S (S (S (S (S
      (S (S (S (S (S (S (S (S (S (S (S (S (S (S (S (S (S (S (S (S (S (S (S (S
      (S (S (S (S (S (S (S (S (S (S (S (S (S (S (S (S (S (S (S (S (S (S (S (S
      (S (S (S (S (S (S (S (S (S (S (S (S (S (S (S (S (S (S (S (S (S (S (S (S
      (S (S (S (S (S (S (S (S (S (S (S (S (S (S (S (S (S (S (S (S (S (S (S (S
      (S (S (S (S (S (S (S (S (S (S (S (S (S (S (S (S (S (S (S (S (S (S (S (S
      (S (S (S (S (S (S (S (S (S (S (S (S (S (S (S (S (S (S (S (S (S (S (S (S
      (S (S (S (S (S (S (S (S (S (S (S (S (S (S (S (S (S (S (S (S (S (S (S (S
      (S (S (S (S (S (S (S (S (S (S (S (S (S (S (S (S (S (S (S (S (S (S (S (S
      (S (S (S (S (S (S (S (S (S (S (S (S (S (S (S (S (S (S (S (S (S (S (S (S
      (S (S (S (S (S (S (S (S (S (S (S (S (S (S (S (S (S (S (S (S (S (S (S (S
      (S (S (S (S (S (S (S (S (S (S (S (S (S (S (S (S (S (S (S (S (S (S (S (S
      (S (S (S (S (S (S (S (S (S (S (S (S (S (S (S (S (S (S (S (S (S (S (S (S
      (S (S (S (S (S (S (S (S (S (S (S (S (S (S (S (S (S (S (S (S (S (S (S (S
      (S (S (S (S (S (S (S (S (S (S (S (S (S (S (S (S (S (S (S (S (S (S (S (S
      (S (S (S (S (S (S (S (S (S (S (S (S (S (S (S (S (S (S (S (S (S (S (S (S
      (S (S (S (S (S (S (S (S (S (S (S (S (S (S (S (S (S (S (S (S (S (S (S (S
      (S (S (S (S (S (S (S (S (S (S (S (S (S (S (S (S (S (S (S (S (S (S (S (S
      (S (S (S (S (S (S (S (S (S (S (S (S (S (S (S (S (S (S (S (S (S (S (S (S
      (S (S (S (S (S (S (S (S (S (S (S (S (S (S (S (S (S (S (S (S (S (S (S (S
      (S (S (S (S (S (S (S (S (S (S (S (S (S (S (S (S (S (S (S (S (S (S (S (S
      (S (S (S (S (S (S (S (S (S (S (S (S (S (S (S (S (S (S (S (S (S (S (S (S
      (S (S (S (S (S (S (S (S (S (S (S (S (S (S (S (S (S (S (S (S (S (S (S (S
      (S (S (S (S (S (S (S (S (S (S (S (S (S (S (S (S (S (S (S (S (S (S (S (S
      (S (S (S (S (S (S (S (S (S (S (S (S (S (S (S (S (S (S (S (S (S (S (S (S
      (S (S (S (S (S (S (S (S (S (S (S (S (S (S (S (S (S (S (S (S (S (S (S (S
      (S (S (S (S (S (S (S (S (S (S (S (S (S (S (S (S (S (S (S (S (S (S (S (S
      (S (S (S (S (S (S (S (S (S (S (S (S (S (S (S (S (S (S (S (S (S (S (S (S
      (S (S (S (S (S (S (S (S (S (S (S (S (S (S (S (S (S (S (S (S (S (S (S (S
      (S (S (S (S (S (S (S (S (S (S (S (S (S (S (S (S (S (S (S (S (S (S (S (S
      (S (S (S (S (S (S (S (S (S (S (S (S (S (S (S (S (S (S (S (S (S (S (S (S
      (S (S (S (S (S (S (S (S (S (S (S (S (S (S (S (S (S (S (S (S (S (S (S (S
      (S (S (S (S (S (S (S (S (S (S (S (S (S (S (S (S (S (S (S (S (S (S (S (S
      (S (S (S (S (S (S (S (S (S (S (S (S (S (S (S (S (S (S (S (S (S (S (S (S
      (S (S (S (S (S (S (S (S (S (S (S (S (S (S (S (S (S (S (S (S (S (S (S (S
      (S (S (S (S (S (S (S (S (S (S (S (S (S (S (S (S (S (S (S (S (S (S (S (S
      (S (S (S (S (S (S (S (S (S (S (S (S (S (S (S (S (S (S (S (S (S (S (S (S
      (S (S (S (S (S (S (S (S (S (S (S (S (S (S (S (S (S (S (S (S (S (S (S (S
      (S (S (S (S (S (S (S (S (S (S (S (S (S (S (S (S (S (S (S (S (S (S (S (S
      (S (S (S (S (S (S (S (S (S (S (S (S (S (S (S (S (S (S (S (S (S (S (S (S
      (S (S (S (S (S (S (S (S (S (S (S (S (S (S (S (S (S (S (S (S (S (S (S (S
      (S (S (S (S (S (S (S (S (S (S (S (S (S (S (S (S (S (S (S (S (S (S (S (S
      (S (S (S (S (S (S (S (S (S (S (S (S (S (S (S (S (S (S (S (S (S (S (S (S
      (S (S (S (S (S (S (S (S (S (S (S (S (S (S (S (S (S (S (S (S (S (S (S (S
      (S (S (S (S (S (S (S (S (S (S (S (S (S (S (S (S (S (S (S (S (S (S (S (S
      (S (S (S (S (S (S (S (S (S (S (S (S (S (S (S (S (S (S (S (S (S (S (S (S
      (S (S (S (S (S (S (S (S (S (S (S (S (S (S (S (S (S (S (S (S (S (S (S (S
      (S (S (S (S (S (S (S (S (S (S (S (S (S (S (S (S (S (S (S (S (S (S (S (S
      (S (S (S (S (S (S (S (S (S (S (S (S (S (S (S (S (S (S (S (S (S (S (S (S
      (S (S (S (S (S (S (S (S (S (S (S (S (S (S (S (S (S (S (S (S (S (S (S (S
      (S (S (S (S (S (S (S (S (S (S (S (S (S (S (S (S (S (S (S (S (S (S (S (S
      (S (S (S (S (S (S (S (S (S (S (S (S (S (S (S (S (S (S (S (S (S (S (S (S
      (S (S (S (S (S (S (S (S (S (S (S (S (S (S (S (S (S (S (S (S (S (S (S (S
      (S (S (S (S (S (S (S (S (S (S (S (S (S (S (S (S (S (S (S (S (S (S (S (S
      (S (S (S (S (S (S (S (S (S (S (S (S (S (S (S (S (S (S (S (S (S (S (S (S
      (S (S (S (S (S (S (S (S (S (S (S (S (S (S (S (S (S (S (S (S (S (S (S (S
      (S (S (S (S (S (S (S (S (S (S (S (S (S (S (S (S (S (S (S (S (S (S (S (S
      (S (S (S (S (S (S (S (S (S (S (S (S (S (S (S (S (S (S (S (S (S (S (S (S
      (S (S (S (S (S (S (S (S (S (S (S (S (S (S (S (S (S (S (S (S (S (S (S (S
      (S (S (S (S (S (S (S (S (S (S (S (S (S (S (S (S (S (S (S (S (S (S (S (S
      (S (S (S (S (S (S (S (S (S (S (S (S (S (S (S (S (S (S (S (S (S (S (S (S
      (S (S (S (S (S (S (S (S (S (S (S (S (S (S (S (S (S (S (S (S (S (S (S (S
      (S (S (S (S (S (S (S (S (S (S (S (S (S (S (S (S (S (S (S (S (S (S (S (S
      (S (S (S (S (S (S (S (S (S (S (S (S (S (S (S (S (S (S (S (S (S (S (S (S
      (S (S (S (S (S (S (S (S (S (S (S (S (S (S (S (S (S (S (S (S (S (S (S (S
      (S (S (S (S (S (S (S (S (S (S (S (S (S (S (S (S (S (S (S (S (S (S (S (S
      (S (S (S (S (S (S (S (S (S (S (S (S (S (S (S (S (S (S (S (S (S (S (S (S
      (S (S (S (S (S (S (S (S (S (S (S (S (S (S (S (S (S (S (S (S (S (S (S (S
      (S (S (S (S (S (S (S (S (S (S (S (S (S (S (S (S (S (S (S (S (S (S (S (S
      (S (S (S (S (S (S (S (S (S (S (S (S (S (S (S (S (S (S (S (S (S (S (S (S
      (S (S (S (S (S (S (S (S (S (S (S (S (S (S (S (S (S (S (S (S (S (S (S (S
      (S (S (S (S (S (S (S (S (S (S (S (S (S (S (S (S (S (S (S (S (S (S (S (S
      (S (S (S (S (S (S (S (S (S (S (S (S (S (S (S (S (S (S (S (S (S (S (S (S
      (S (S (S (S (S (S (S (S (S (S (S (S (S (S (S (S (S (S (S (S (S (S (S (S
      (S (S (S (S (S (S (S (S (S (S (S (S (S (S (S (S (S (S (S (S (S (S (S (S
      (S (S (S (S (S (S (S (S (S (S (S (S (S (S (S (S (S (S (S (S (S (S (S (S
      (S (S (S (S (S (S (S (S (S (S (S (S (S (S (S (S (S (S (S (S (S (S (S (S
      (S (S (S (S (S (S (S (S (S (S (S (S (S (S (S (S (S (S (S (S (S (S (S (S
      (S (S (S (S (S (S (S (S (S (S (S (S (S (S (S (S (S (S (S (S (S (S (S (S
      (S (S (S (S (S (S (S (S (S (S (S (S (S (S (S (S (S (S (S (S (S (S (S (S
      (S (S (S (S (S (S (S (S (S (S (S (S (S (S (S (S (S (S (S (S (S (S (S (S
      (S (S (S (S (S (S (S (S (S (S (S (S (S (S (S (S (S (S (S (S (S (S (S (S
      (S (S (S (S (S (S (S (S (S (S (S (S (S (S (S (S (S (S (S (S (S (S (S (S
      (S (S (S (S (S (S (S (S (S (S (S (S (S (S (S (S (S (S (S (S (S (S (S (S
      (S (S (S (S (S (S (S (S (S (S (S (S (S (S (S (S (S (S (S (S (S (S (S (S
      (S (S (S (S (S (S (S (S (S (S (S (S (S (S (S (S (S (S (S (S (S (S (S (S
      (S (S (S (S (S (S (S (S (S (S (S (S (S (S (S (S (S (S (S (S (S (S (S (S
      (S (S (S (S (S (S (S (S (S (S (S (S (S (S (S (S (S (S (S (S (S (S (S (S
      (S (S (S (S (S (S (S (S (S (S (S (S (S (S (S (S (S (S (S (S (S (S (S (S
      (S (S (S (S (S (S (S (S (S (S (S (S (S (S (S (S (S (S (S (S (S (S (S (S
      (S (S (S (S (S (S (S (S (S (S (S (S (S (S (S (S (S (S (S (S (S (S (S (S
      (S (S (S (S (S (S (S (S (S (S (S (S (S (S (S (S (S (S (S (S (S (S (S (S
      (S (S (S (S (S (S (S (S (S (S (S (S (S (S (S (S (S (S (S (S (S (S (S (S
      (S (S (S (S (S (S (S (S (S (S (S (S (S (S (S (S (S (S (S (S (S (S (S (S
      (S (S (S (S (S (S (S (S (S (S (S (S (S (S (S (S (S (S (S (S (S (S (S (S
      (S (S (S (S (S (S (S (S (S (S (S (S (S (S (S (S (S (S (S (S (S (S (S (S
      (S (S (S (S (S (S (S (S (S (S (S (S (S (S (S (S (S (S (S (S (S (S (S (S
      (S (S (S (S (S (S (S (S (S (S (S (S (S (S (S (S (S (S (S (S (S (S (S (S
      (S (S (S (S (S (S (S (S (S (S (S (S (S (S (S (S (S (S (S (S (S (S (S (S
      (S (S (S (S (S (S (S (S (S (S (S (S (S (S (S (S (S (S (S (S (S (S (S (S
      (S (S (S (S (S (S (S (S (S (S (S (S (S (S (S (S (S (S (S (S (S (S (S (S
      (S (S (S (S (S (S (S (S (S (S (S (S (S (S (S (S (S (S (S (S (S (S (S (S
      (S (S (S (S (S (S (S (S (S (S (S (S (S (S (S (S (S (S (S (S (S (S (S (S
      (S (S (S (S (S (S (S (S (S (S (S (S (S (S (S (S (S (S (S (S (S (S (S (S
      (S (S (S (S (S (S (S (S (S (S (S (S (S (S (S (S (S (S (S (S (S (S (S (S
      (S (S (S (S (S (S (S (S (S (S (S (S (S (S (S (S (S (S (S (S (S (S (S (S
      (S (S (S (S (S (S (S (S (S (S (S (S (S (S (S (S (S (S (S (S (S (S (S (S
      (S (S (S (S (S (S (S (S (S (S (S (S (S (S (S (S (S (S (S (S (S (S (S (S
      (S (S (S (S (S (S (S (S (S (S (S (S (S (S (S (S (S (S (S (S (S (S (S (S
      (S (S (S (S (S (S (S (S (S (S (S (S (S (S (S (S (S (S (S (S (S (S (S (S
      (S (S (S (S (S (S (S (S (S (S (S (S (S (S (S (S (S (S (S (S (S (S (S (S
      (S (S (S (S (S (S (S (S (S (S (S (S (S (S (S (S (S (S (S (S (S (S (S (S
      (S (S (S (S (S (S (S (S (S (S (S (S (S (S (S (S (S (S (S (S (S (S (S (S
      (S (S (S (S (S (S (S (S (S (S (S (S (S (S (S (S (S (S (S (S (S (S (S (S
      (S (S (S (S (S (S (S (S (S (S (S (S (S (S (S (S (S (S (S (S (S (S (S (S
      (S (S (S (S (S (S (S (S (S (S (S (S (S (S (S (S (S (S (S (S (S (S (S (S
      (S (S (S (S (S (S (S (S (S (S (S (S (S (S (S (S (S (S (S (S (S (S (S (S
      (S (S (S (S (S (S (S (S (S (S (S (S (S (S (S (S (S (S (S (S (S (S (S (S
      (S (S (S (S (S (S (S (S (S (S (S (S (S (S (S (S (S (S (S (S (S (S (S (S
      (S (S (S (S (S (S (S (S (S (S (S (S (S (S (S (S (S (S (S (S (S (S (S (S
      (S (S (S (S (S (S (S (S (S (S (S (S (S (S (S (S (S (S (S (S (S (S (S (S
      (S (S (S (S (S (S (S (S (S (S (S (S (S (S (S (S (S (S (S (S (S (S (S (S
      (S (S (S (S (S (S (S (S (S (S (S (S (S (S (S (S (S (S (S (S (S (S (S (S
      (S (S (S (S (S (S (S (S (S (S (S (S (S (S (S (S (S (S (S (S (S (S (S (S
      (S (S (S (S (S (S (S (S (S (S (S (S (S (S (S (S (S (S (S (S (S (S (S (S
      (S (S (S (S (S (S (S (S (S (S (S (S (S (S (S (S (S (S (S (S (S (S (S (S
      (S (S (S (S (S (S (S (S (S (S (S (S (S (S (S (S (S (S (S (S (S (S (S (S
      (S (S (S (S (S (S (S (S (S (S (S (S (S (S (S (S (S (S (S (S (S (S (S (S
      (S (S (S (S (S (S (S (S (S (S (S (S (S (S (S (S (S (S (S (S (S (S (S (S
      (S (S (S (S (S (S (S (S (S (S (S (S (S (S (S (S (S (S (S (S (S (S (S (S
      (S (S (S (S (S (S (S (S (S (S (S (S (S (S (S (S (S (S (S (S (S (S (S (S
      (S (S (S (S (S (S (S (S (S (S (S (S (S (S (S (S (S (S (S (S (S (S (S (S
      (S (S (S (S (S (S (S (S (S (S (S (S (S (S (S (S (S (S (S (S (S (S (S (S
      (S (S (S (S (S (S (S (S (S (S (S (S (S (S (S (S (S (S (S (S (S (S (S (S
      (S (S (S (S (S (S (S (S (S (S (S (S (S (S (S (S (S (S (S (S (S (S (S (S
      (S (S (S (S (S (S (S (S (S (S (S (S (S (S (S (S (S (S (S (S (S (S (S (S
      (S (S (S (S (S (S (S (S (S (S (S (S (S (S (S (S (S (S (S (S (S (S (S (S
      (S (S (S (S (S (S (S (S (S (S (S (S (S (S (S (S (S (S (S (S (S (S (S (S
      (S (S (S (S (S (S (S (S (S (S (S (S (S (S (S (S (S (S (S (S (S (S (S (S
      (S (S (S (S (S (S (S (S (S (S (S (S (S (S (S (S (S (S (S (S (S (S (S (S
      (S (S (S (S (S (S (S (S (S (S (S (S (S (S (S (S (S (S (S (S (S (S (S (S
      (S (S (S (S (S (S (S (S (S (S (S (S (S (S (S (S (S (S (S (S (S (S (S (S
      (S (S (S (S (S (S (S (S (S (S (S (S (S (S (S (S (S (S (S (S (S (S (S (S
      (S (S (S (S (S (S (S (S (S (S (S (S (S (S (S (S (S (S (S (S (S (S (S (S
      (S (S (S (S (S (S (S (S (S (S (S (S (S (S (S (S (S (S (S (S (S (S (S (S
      (S (S (S (S (S (S (S (S (S (S (S (S (S (S (S (S (S (S (S (S (S (S (S (S
      (S (S (S (S (S (S (S (S (S (S (S (S (S (S (S (S (S (S (S (S (S (S (S (S
      (S (S (S (S (S (S (S (S (S (S (S (S (S (S (S (S (S (S (S (S (S (S (S (S
      (S (S (S (S (S (S (S (S (S (S (S (S (S (S (S (S (S (S (S (S (S (S (S (S
      (S (S (S (S (S (S (S (S (S (S (S (S (S (S (S (S (S (S (S (S (S (S (S (S
      (S (S (S (S (S (S (S (S (S (S (S (S (S (S (S (S (S (S (S (S (S (S (S (S
      (S (S (S (S (S (S (S (S (S (S (S (S (S (S (S (S (S (S (S (S (S (S (S (S
      (S (S (S (S (S (S (S (S (S (S (S (S (S (S (S (S (S (S (S (S (S (S (S (S
      (S (S (S (S (S (S (S (S (S (S (S (S (S (S (S (S (S (S (S (S (S (S (S (S
      (S (S (S (S (S (S (S (S (S (S (S (S (S (S (S (S (S (S (S (S (S (S (S (S
      (S (S (S (S (S (S (S (S (S (S (S (S (S (S (S (S (S (S (S (S (S (S (S (S
      (S (S (S (S (S (S (S (S (S (S (S (S (S (S (S (S (S (S (S (S (S (S (S (S
      (S (S (S (S (S (S (S (S (S (S (S (S (S (S (S (S (S (S (S (S (S (S (S (S
      (S (S (S (S (S (S (S (S (S (S (S (S (S (S (S (S (S (S (S (S (S (S (S (S
      (S (S (S (S (S (S (S (S (S (S (S (S (S (S (S (S (S (S (S (S (S (S (S (S
      (S (S (S (S (S (S (S (S (S (S (S (S (S (S (S (S (S (S (S (S (S (S (S (S
      (S (S (S (S (S (S (S (S (S (S (S (S (S (S (S (S (S (S (S (S (S (S (S (S
      (S (S (S (S (S (S (S (S (S (S (S (S (S (S (S (S (S (S (S (S (S (S (S (S
      (S (S (S (S (S (S (S (S (S (S (S (S (S (S (S (S (S (S (S (S (S (S (S (S
      (S (S (S (S (S (S (S (S (S (S (S (S (S (S (S (S (S (S (S (S (S (S (S (S
      (S (S (S (S (S (S (S (S (S (S (S (S (S (S (S (S (S (S (S (S (S (S (S (S
      (S (S (S (S (S (S
      O))))))))))))))))))))))))))))))))))))))))))))))))))))))))))))))))))))))))))))))))))))))))))))))))))))))))))))))))))))))))))))))))))))))))))))))))))))))))))))))))))))))))))))))))))))))))))))))))))))))))))))))))))))))))))))))))))))))))))))))))))))))))))))))))))))))))))))))))))))))))))))))))))))))))))))))))))))))))))))))))))))))))))))))))))))))))))))))))))))))))))))))))))))))))))))))))))))))))))))))))))))))))))))))))))))))))))))))))))))))))))))))))))))))))))))))))))))))))))))))))))))))))))))))))))))))))))))))))))))))))))))))))))))))))))))))))))))))))))))))))))))))))))))))))))))))))))))))))))))))))))))))))))))))))))))))))))))))))))))))))))))))))))))))))))))))))))))))))))))))))))))))))))))))))))))))))))))))))))))))))))))))))))))))))))))))))))))))))))))))))))))))))))))))))))))))))))))))))))))))))))))))))))))))))))))))))))))))))))))))))))))))))))))))))))))))))))))))))))))))))))))))))))))))))))))))))))))))))))))))))))))))))))))))))))))))))))))))))))))))))))))))))))))))))))))))))))))))))))))))))))))))))))))))))))))))))))))))))))))))))))))))))))))))))))))))))))))))))))))))))))))))))))))))))))))))))))))))))))))))))))))))))))))))))))))))))))))))))))))))))))))))))))))))))))))))))))))))))))))))))))))))))))))))))))))))))))))))))))))))))))))))))))))))))))))))))))))))))))))))))))))))))))))))))))))))))))))))))))))))))))))))))))))))))))))))))))))))))))))))))))))))))))))))))))))))))))))))))))))))))))))))))))))))))))))))))))))))))))))))))))))))))))))))))))))))))))))))))))))))))))))))))))))))))))))))))))))))))))))))))))))))))))))))))))))))))))))))))))))))))))))))))))))))))))))))))))))))))))))))))))))))))))))))))))))))))))))))))))))))))))))))))))))))))))))))))))))))))))))))))))))))))))))))))))))))))))))))))))))))))))))))))))))))))))))))))))))))))))))))))))))))))))))))))))))))))))))))))))))))))))))))))))))))))))))))))))))))))))))))))))))))))))))))))))))))))))))))))))))))))))))))))))))))))))))))))))))))))))))))))))))))))))))))))))))))))))))))))))))))))))))))))))))))))))))))))))))))))))))))))))))))))))))))))))))))))))))))))))))))))))))))))))))))))))))))))))))))))))))))))))))))))))))))))))))))))))))))))))))))))))))))))))))))))))))))))))))))))))))))))))))))))))))))))))))))))))))))))))))))))))))))))))))))))))))))))))))))))))))))))))))))))))))))))))))))))))))))))))))))))))))))))))))))))))))))))))))))))))))))))))))))))))))))))))))))))))))))))))))))))))))))))))))))))))))))))))))))))))))))))))))))))))))))))))))))))))))))))))))))))))))))))))))))))))))))))))))))))))))))))))))))))))))))))))))))))))))))))))))))))))))))))))))))))))))))))))))))))))))))))))))))))))))))))))))))))))))))))))))))))))))))))))))))))))))))))))))))))))))))))))))))))))))))))))))))))))))))))))))))))))))))))))))))))))))))))))))))))))))))))))))))))))))))))))))))))))))))))))))))))))))))))))))))))))))))))))))))))))))))))))))))))))))))))))))))))))))))))))))))))))))))))))))))))))))))))))))))))))))))))))))))))))))))))))))))))))))))))))))))))))))))))))))))))))))))))))))))))))))))))))))))))))))))))))))))))))))))))))))))))))))))))))))))))))))))))))))))))))))))))))))))))))))))))))))))))))))))))))))))))))))))))))))))))))))))))))))))))))))))))))))))))))))))))))))))))))))))))))))))))))))))))))))))))))))))))))))))))))))))))))))))))))))))))))))))))))))))))))))))))))))))))))))))))))))))))))))))))))))))))))))))))))))))))))))))))))))))))))))))))))))))))))))))))))))))))))))))))))))))))))))))))))))))))))))))))))))))))))))))))))))))))))))))))))))))))))))))))))))))))))))))))))))))))))))))))))))))))))))))))))))))))))))))))))))))))))))))))))))))))))))))))))))))))))))))))))))))))))))))))))))))))))))))))))))))))))))))))))))))))))))))))))))))))))))))))))))))))))))))))))))))))))))))))))))))))))))))))))))))))))))))))))))))))))))))))))))))))))))))))))))))))))))))))))))))))))))))))))))))))))))))))))))))))))))))))))))))))))))))))))))))))))))))))))))))))))))))))))))))))))))))))))))))))))))))))))))))))))))))))))))))))))))))))))))))))))))))))))))))))))))))))))))))))))))))))))))))))))))))))))))))))))))))))))))))))))))))))))))))))))))))))))))))))))))))))))))))))))))))))))))))))))))))))))))))))))))))))))))))))))))))))))))))))))))))))))))))))))))))))))))))))))))))))))))))))))))))))))))))))))))))))))))))))))))))))))))))))))))))))))))))))))))))))))))))))))))))))))))))))))))))))))))))))))))))))))))))))))))))))))))))))))))))))))))))))))))))))))))))))))))))))))))))))))))))))))))))))))))))))))))))))))))))))))))))))))))))))))))))))))))))))))))))))))))))))))))))))))))))))))))))))))))))))))))))))))))))))))))))))))))))))))))))))))))))))))))))))))))))))))))))))))))))))))))))))))))))))))))))))))))))))))))))))))))))))))))))))))))))))))))))))))))))))))))))))))))))))))))))))))))))))))))))))))))))))))))))))))))))))))))))))))))))))))))))))))))))))))))))))))))))))))))))))))))))))))))))))))))))))))))))))))))))))))))))))))))))))))))))))))))))))))))))))))))))))))))))))))))))))))))))))))))))))))))))))))))))))))))))))))))))))))))))))))))))))))))))))))))))))))))))))))))))))))))))))))))))))))))))))))))))))))))))))))))))))))))))))))))
  | S f ->
    if Nat.ltb mx mn
    then Ok result
    else bind (rv_inner (S (length levels)) levels mx result O)
           (fun result' ->
           match level_lower mx (S O) with
           | Some mx' -> rv_outer f levels mn mx' result'
           | None ->
             Panic (S (S (S (S (S (S (S (S (S (S (S (S (S (S (S (S (S (S (S
               (S (S (S (S (S (S (S (S (S (S (S (S (S (S (S (S (S (S (S (S (S
               (S (S (S (S (S (S (S (S (S (S (S (S (S (S (S (S (S (S (S (S (S
               (S (S (S (S (S (S (S (S (S (S (S (S (S (S (S (S (S (S (S (S (S
               (S (S (S (S (S (S (S (S (S (S (S (S (S (S (S (S (S (S (S (S (S
               (S (S (S (S (S (S (S (S (S (S (S (S (S (S (S (S (S (S (S (S (S
               (S (S (S (S (S (S (S (S (S (S (S (S (S (S (S (S (S (S (S (S (S
               (S (S (S (S (S (S (S (S (S (S (S (S (S (S (S (S (S (S (S (S (S
               (S (S (S (S (S (S (S (S (S (S (S (S (S (S (S (S (S (S (S (S (S
               (S (S (S (S (S (S (S (S (S (S (S (S (S (S (S (S (S (S (S (S (S
               (S (S (S (S (S (S (S (S (S (S (S (S (S (S (S (S (S (S (S (S (S
               (S (S (S (S (S (S (S (S (S (S (S (S (S (S (S (S (S (S (S (S (S
               (S (S (S (S (S (S (S (S (S (S (S (S (S (S (S (S (S (S (S (S (S
               (S (S (S (S (S (S (S (S (S (S (S (S (S (S (S (S (S (S (S (S (S
               (S (S (S (S (S (S (S (S (S (S (S (S (S (S (S (S (S (S (S (S (S
               (S (S (S (S (S (S (S (S (S (S (S (S (S (S (S (S (S (S (S (S (S
               (S (S (S (S (S (S (S (S (S (S (S (S (S (S (S (S (S (S (S (S (S
               (S (S (S (S (S (S (S (S (S (S (S (S (S (S (S (S (S (S (S (S (S
               (S (S (S (S (S (S (S (S (S (S (S (S (S (S (S (S (S (S (S (S (S
               (S (S (S (S (S (S (S (S (S (S (S (S (S (S (S (S (S (S (S (S (S
               (S (S (S (S (S (S (S (S (S (S (S (S (S (S (S (S (S (S (S (S (S
               (S (S (S (S (S (S (S (S (S (S (S (S (S (S (S (S (S (S (S (S (S
               (S (S (S (S (S (S (S (S (S (S (S (S (S (S (S (S (S (S (S (S (S
               (S (S (S (S (S (S (S (S (S (S (S (S (S (S (S (S (S (S (S (S (S
               (S (S (S (S (S (S (S (S (S (S (S (S (S (S (S (S (S (S (S (S (S
               (S (S (S (S (S (S (S (S (S (S (S (S (S (S (S (S (S (S (S (S (S
               (S (S (S (S (S (S (S (S (S (S (S (S (S (S (S (S (S (S (S (S (S
               (S (S (S (S (S (S (S (S (S (S (S (S (S (S (S (S (S (S (S (S (S
               (S (S (S (S (S (S (S (S (S (S (S (S (S (S (S (S (S (S (S (S (S
               (S (S (S (S (S (S (S (S (S (S (S (S (S (S (S (S (S (S (S (S (S
               (S (S (S (S (S (S (S (S (S (S (S (S (S (S (S (S (S (S (S (S (S
               (S (S (S (S (S (S (S (S (S (S (S (S (S (S (S (S (S (S (S (S (S
               (S (S (S (S (S (S (S (S (S (S (S (S (S (S (S (S (S (S (S (S (S
               (S (S (S (S (S (S (S (S (S (S (S (S (S (S (S (S (S (S (S (S (S
               (S (S (S (S (S (S (S (S (S (S (S (S (S (S (S (S (S (S (S (S (S
               (S (S (S (S (S (S (S (S (S (S (S (S (S (S (S (S (S (S (S (S (S
               (S (S (S (S (S (S (S (S (S (S (S (S (S (S (S (S (S (S (S (S (S
               (S (S (S (S (S (S (S (S (S (S (S (S (S (S (S (S (S (S (S (S (S
               (S (S (S (S (S (S (S (S (S (S (S (S (S (S (S (S (S (S (S (S (S
               (S (S (S (S (S (S (S (S (S (S (S (S (S (S (S (S (S (S (S (S (S
               (S (S (S (S (S (S (S (S (S (S (S (S (S (S (S (S (S (S (S (S (S
               (S (S (S (S (S (S (S (S (S (S (S (S (S (S (S (S (S (S (S (S (S
               (S (S (S (S (S (S (S (S (S (S (S (S (S (S (S (S (S (S (S (S (S
               (S (S (S (S (S (S (S (S (S (S (S (S (S (S (S (S (S (S (S (S (S
               (S (S (S (S (S (S (S (S (S (S (S (S (S (S (S (S (S (S (S (S (S
               (S (S (S (S (S (S (S (S (S (S (S (S (S (S (S (S (S (S (S (S (S
               (S (S (S (S (S (S (S (S (S (S (S (S (S (S (S (S (S (S (S (S (S
               (S (S (S (S (S (S (S (S (S (S (S (S (S (S (S (S (S (S (S (S (S
               (S (S (S (S (S (S (S (S (S (S (S (S (S (S (S (S (S (S (S (S (S
               (S (S (S (S (S (S (S (S (S (S (S (S (S (S (S (S (S (S (S (S (S
               (S (S (S (S (S (S (S (S (S (S (S (S (S (S (S (S (S (S (S (S (S
               (S (S (S (S (S (S (S
               O)))))))))))))))))))))))))))))))))))))))))))))))))))))))))))))))))))))))))))))))))))))))))))))))))))))))))))))))))))))))))))))))))))))))))))))))))))))))))))))))))))))))))))))))))))))))))))))))))))))))))))))))))))))))))))))))))))))))))))))))))))))))))))))))))))))))))))))))))))))))))))))))))))))))))))))))))))))))))))))))))))))))))))))))))))))))))))))))))))))))))))))))))))))))))))))))))))))))))))))))))))))))))))))))))))))))))))))))))))))))))))))))))))))))))))))))))))))))))))))))))))))))))))))))))))))))))))))))))))))))))))))))))))))))))))))))))))))))))))))))))))))))))))))))))))))))))))))))))))))))))))))))))))))))))))))))))))))))))))))))))))))))))))))))))))))))))))))))))))))))))))))))))))))))))))))))))))))))))))))))))))))))))))))))))))))))))))))))))))))))))))))))))))))))))))))))))))))))))))))))))))))))))))))))))))))))))))))))))))))))))))))))))))))))))))))))))))))))))))))))))))))))))))))))))))))))))))))))))))))))))))))))))))))))))))))))))))))))))))))))))))))))))))))))))))))))))))))))))))))))))))))))))))))))))))))))))))))))))))))))))))))))))))))))))))))))))))))))))))))

(** val reorder_visual : nat list -> nat list res **)

let reorder_visual levels = match levels with
| [] -> Ok []
| l0 :: _ ->
  let mn = fold_left Nat.min levels l0 in
  let mx = fold_left Nat.max levels l0 in
  let result = seq O (length levels) in
  if (&&) (Nat.eqb mn mx) (is_ltr mn)
  then Ok result
  else (match level_lowest_ge_rtl mn with
        | Some mn' ->
          rv_outer (S (S (S (S (S (S (S (S (S (S (S (S (S (S (S (S (S (S (S
            (S (S (S (S (S (S (S (S (S (S (S (S (S (S (S (S (S (S (S (S (S (S
            (S (S (S (S (S (S (S (S (S (S (S (S (S (S (S (S (S (S (S (S (S (S
            (S (S (S (S (S (S (S (S (S (S (S (S (S (S (S (S (S (S (S (S (S (S
            (S (S (S (S (S (S (S (S (S (S (S (S (S (S (S (S (S (S (S (S (S (S
            (S (S (S (S (S (S (S (S (S (S (S (S (S (S (S (S (S (S (S (S (S (S
            (S
            O))))))))))))))))))))))))))))))))))))))))))))))))))))))))))))))))))))))))))))))))))))))))))))))))))))))))))))))))))))))))))))))))))
            levels mn' mx result
        | None ->
          Panic (S (S (S (S (S (S (S (S (S (S (S (S (S (S (S (S (S (S (S (S
            (S (S (S (S (S (S (S (S (S (S (S (S (S (S (S (S (S (S (S (S (S (S
            (S (S (S (S (S (S (S (S (S (S (S (S (S (S (S (S (S (S (S (S (S (S
            (S (S (S (S (S (S (S (S (S (S (S (S (S (S (S (S (S (S (S (S (S (S
            (S (S (S (S (S (S (S (S (S (S (S (S (S (S (S (S (S (S (S (S (S (S
            (S (S (S (S (S (S (S (S (S (S (S (S (S (S (S (S (S (S (S (S (S (S
            (S (S (S (S (S (S (S (S (S (S (S (S (S (S (S (S (S (S (S (S (S (S
            (S (S (S (S (S (S (S (S (S (S (S (S (S (S (S (S (S (S (S (S (S (S
            (S (S (S (S (S (S (S (S (S (S (S (S (S (S (S (S (S (S (S (S (S (S
            (S (S (S (S (S (S (S (S (S (S (S (S (S (S (S (S (S (S (S (S (S (S
            (S (S (S (S (S (S (S (S (S (S (S (S (S (S (S (S (S (S (S (S (S (S
            (S (S (S (S (S (S (S (S (S (S (S (S (S (S (S (S (S (S (S (S (S (S
            (S (S (S (S (S (S (S (S (S (S (S (S (S (S (S (S (S (S (S (S (S (S
            (S (S (S (S (S (S (S (S (S (S (S (S (S (S (S (S (S (S (S (S (S (S
            (S (S (S (S (S (S (S (S (S (S (S (S (S (S (S (S (S (S (S (S (S (S
            (S (S (S (S (S (S (S (S (S (S (S (S (S (S (S (S (S (S (S (S (S (S
            (S (S (S (S (S (S (S (S (S (S (S (S (S (S (S (S (S (S (S (S (S (S
            (S (S (S (S (S (S (S (S (S (S (S (S (S (S (S (S (S (S (S (S (S (S
            (S (S (S (S (S (S (S (S (S (S (S (S (S (S (S (S (S (S (S (S (S (S
            (S (S (S (S (S (S (S (S (S (S (S (S (S (S (S (S (S (S (S (S (S (S
            (S (S (S (S (S (S (S (S (S (S (S (S (S (S (S (S (S (S (S (S (S (S
            (S (S (S (S (S (S (S (S (S (S (S (S (S (S (S (S (S (S (S (S (S (S
            (S (S (S (S (S (S (S (S (S (S (S (S (S (S (S (S (S (S (S (S (S (S
            (S (S (S (S (S (S (S (S (S (S (S (S (S (S (S (S (S (S (S (S (S (S
            (S (S (S (S (S (S (S (S (S (S (S (S (S (S (S (S (S (S (S (S (S (S
            (S (S (S (S (S (S (S (S (S (S (S (S (S (S (S (S (S (S (S (S (S (S
            (S (S (S (S (S (S (S (S (S (S (S (S (S (S (S (S (S (S (S (S (S (S
            (S (S (S (S (S (S (S (S (S (S (S (S (S (S (S (S (S (S (S (S (S (S
            (S (S (S (S (S (S (S (S (S (S (S (S (S (S (S (S (S (S (S (S (S (S
            (S (S (S (S (S (S (S (S (S (S (S (S (S (S (S (S (S (S (S (S (S (S
            (S (S (S (S (S (S (S (S (S (S (S (S (S (S (S (S (S (S (S (S (S (S
            (S (S (S (S (S (S (S (S (S (S (S (S (S (S (S (S (S (S (S (S (S (S
            (S (S (S (S (S (S (S (S (S (S (S (S (S (S (S (S (S (S (S (S (S (S
            (S (S (S (S (S (S (S (S (S (S (S (S (S (S (S (S (S (S (S (S (S (S
            (S (S (S (S (S (S (S (S (S (S (S (S (S (S (S (S (S (S (S (S (S (S
            (S (S (S (S (S (S (S (S (S (S (S (S (S (S (S (S (S (S (S (S (S (S
            (S (S (S (S (S (S (S (S (S (S (S (S (S (S (S (S (S (S (S (S (S (S
            (S (S (S (S (S (S (S (S (S (S (S (S (S (S (S (S (S (S (S (S (S (S
            (S (S (S (S (S (S (S (S (S (S (S (S (S (S (S (S (S (S (S (S (S (S
            (S (S (S (S (S (S (S (S (S (S (S (S (S (S (S (S (S (S (S (S (S (S
            (S (S (S (S (S (S (S (S (S (S (S (S (S (S (S (S (S (S (S (S (S (S
            (S (S (S (S (S (S (S (S (S (S (S (S (S (S (S (S (S (S (S (S (S (S
            (S (S (S (S (S (S (S (S (S (S (S (S (S (S (S (S (S (S (S (S (S (S
            (S (S (S (S (S (S (S (S (S (S (S (S (S (S (S (S (S (S (S (S (S (S
            (S (S (S (S (S (S (S (S (S (S (S (S (S (S (S (S (S (S (S (S (S (S
            (S (S (S (S (S (S (S (S (S (S (S (S (S (S (S (S (S (S (S (S (S (S
            (S (S (S (S (S (S (S (S (S (S (S (S (S (S (S (S (S (S (S (S (S (S
            (S (S (S (S (S (S (S (S (S (S (S (S (S (S (S (S (S (S (S (S (S (S
            (S (S (S
            O))))))))))))))))))))))))))))))))))))))))))))))))))))))))))))))))))))))))))))))))))))))))))))))))))))))))))))))))))))))))))))))))))))))))))))))))))))))))))))))))))))))))))))))))))))))))))))))))))))))))))))))))))))))))))))))))))))))))))))))))))))))))))))))))))))))))))))))))))))))))))))))))))))))))))))))))))))))))))))))))))))))))))))))))))))))))))))))))))))))))))))))))))))))))))))))))))))))))))))))))))))))))))))))))))))))))))))))))))))))))))))))))))))))))))))))))))))))))))))))))))))))))))))))))))))))))))))))))))))))))))))))))))))))))))))))))))))))))))))))))))))))))))))))))))))))))))))))))))))))))))))))))))))))))))))))))))))))))))))))))))))))))))))))))))))))))))))))))))))))))))))))))))))))))))))))))))))))))))))))))))))))))))))))))))))))))))))))))))))))))))))))))))))))))))))))))))))))))))))))))))))))))))))))))))))))))))))))))))))))))))))))))))))))))))))))))))))))))))))))))))))))))))))))))))))))))))))))))))))))))))))))))))))))))))))))))))))))))))))))))))))))))))))))))))))))))))))))))))))))))))))))))))))))))))))))))))))))))))))))))))))))))))))))))))

(** val encode_utf16 : n -> n list **)

let encode_utf16 c =
  if N.ltb c (Npos (XO (XO (XO (XO (XO (XO (XO (XO (XO (XO (XO (XO (XO (XO
       (XO (XO XH)))))))))))))))))
  then c :: []
  else (N.add (Npos (XO (XO (XO (XO (XO (XO (XO (XO (XO (XO (XO (XI (XI (XO
         (XI XH))))))))))))))))
         (N.div
           (N.sub c (Npos (XO (XO (XO (XO (XO (XO (XO (XO (XO (XO (XO (XO (XO
             (XO (XO (XO XH)))))))))))))))))) (Npos (XO (XO (XO (XO (XO (XO
           (XO (XO (XO (XO XH))))))))))))) :: ((N.add (Npos (XO (XO (XO (XO
                                                 (XO (XO (XO (XO (XO (XO (XI
                                                 (XI (XI (XO (XI
                                                 XH))))))))))))))))
                                                 (N.modulo
                                                   (N.sub c (Npos (XO (XO (XO
                                                     (XO (XO (XO (XO (XO (XO
                                                     (XO (XO (XO (XO (XO (XO
                                                     (XO XH))))))))))))))))))
                                                   (Npos (XO (XO (XO (XO (XO
                                                   (XO (XO (XO (XO (XO
                                                   XH))))))))))))) :: [])

(** val all_runs_ltr : nat list -> run list -> bool res **)

let rec all_runs_ltr levels = function
| [] -> Ok true
| r :: rest ->
  bind
    (get (S (S (S (S (S (S (S (S (S (S (S (S (S (S (S (S (S (S (S (S (S (S (S
      (S (S (S (S (S (S (S (S (S (S (S (S (S (S (S (S (S (S (S (S (S (S (S (S
      (S (S (S (S (S (S (S (S (S (S (S (S (S (S (S (S (S (S (S (S (S (S (S (S
      (S (S (S (S (S (S (S (S (S (S (S (S (S (S (S (S (S (S (S (S (S (S (S (S
      (S (S (S (S (S (S (S (S (S (S (S (S (S (S (S (S (S (S (S (S (S (S (S (S
      (S (S (S (S (S (S (S (S (S (S (S (S (S (S (S (S (S (S (S (S (S (S (S (S
      (S (S (S (S (S (S (S (S (S (S (S (S (S (S (S (S (S (S (S (S (S (S (S (S
      (S (S (S (S (S (S (S (S (S (S (S (S (S (S (S (S (S (S (S (S (S (S (S (S
      (S (S (S (S (S (S (S (S (S (S (S (S (S (S (S (S (S (S (S (S (S (S (S (S
      (S (S (S (S (S (S (S (S (S (S (S (S (S (S (S (S (S (S (S (S (S (S (S (S
      (S (S (S (S (S (S (S (S (S (S (S (S (S (S (S (S (S (S (S (S (S (S (S (S
      (S (S (S (S (S (S (S (S (S (S (S (S (S (S (S (S (S (S (S (S (S (S (S (S
      (S (S (S (S (S (S (S (S (S (S (S (S (S (S (S (S (S (S (S (S (S (S (S (S
      (S (S (S (S (S (S (S (S (S (S (S (S (S (S (S (S (S (S (S (S (S (S (S (S
      (S (S (S (S (S (S (S (S (S (S (S (S (S (S (S (S (S (S (S (S (S (S (S (S
      (S (S (S (S (S (S (S (S (S (S (S (S (S (S (S (S (S (S (S (S (S (S (S (S
      (S (S (S (S (S (S (S (S (S (S (S (S (S (S (S (S (S (S (S (S (S (S (S (S
      (S (S (S (S (S (S (S (S (S (S (S (S (S (S (S (S (S (S (S (S (S (S (S (S
      (S (S (S (S (S (S (S (S (S (S (S (S (S (S (S (S (S (S (S (S (S (S (S (S
      (S (S (S (S (S (S (S (S (S (S (S (S (S (S (S (S (S (S (S (S (S (S (S (S
      (S (S (S (S (S (S (S (S (S (S (S (S (S (S (S (S (S (S (S (S (S (S (S (S
      (S (S (S (S (S (S (S (S (S (S (S (S (S (S (S (S (S (S (S (S (S (S (S (S
      (S (S (S (S (S (S (S (S (S (S (S (S (S (S (S (S (S (S (S (S (S (S (S (S
      (S (S (S (S (S (S (S (S (S (S (S (S (S (S (S (S (S (S (S (S (S (S (S (S
      (S (S (S (S (S (S (S (S (S (S (S (S (S (S (S (S (S (S (S (S (S (S (S (S
      (S (S (S (S (S (S (S (S (S (S (S (S (S (S (S (S (S (S (S (S (S (S (S (S
      (S (S (S (S (S (S (S (S (S (S (S (S (S (S (S (S (S (S (S (S (S (S (S (S
      (S (S (S (S (S (S (S (S (S (S (S (S (S (S (S (S (S (S (S (S (S (S (S (S
      (S (S (S (S (S (S (S (S (S (S (S (S (S (S (S (S (S (S (S (S (S (S (S (S
      (S (S (S (S (S (S (S (S (S (S (S (S (S (S (S (S (S (S (S (S (S (S (S (S
      (S (S (S (S (S (S (S (S (S (S (S (S (S (S (S (S (S (S (S (S (S (S (S (S
      (S (S (S (S (S (S (S (S (S (S (S (S (S (S (S (S (S (S (S (S (S (S (S (S
      (S (S (S (S (S (S (S (S (S (S (S (S (S (S (S (S (S (S (S (S (S (S (S (S
      (S (S (S (S (S (S (S (S (S (S (S (S (S (S (S (S (S (S (S (S (S (S (S (S
      (S (S (S (S (S (S (S (S (S (S (S (S (S (S (S (S (S (S (S (S (S (S (S (S
      (S (S (S (S (S (S (S (S (S (S (S (S (S (S (S (S (S (S (S (S (S (S (S (S
      (S (S (S (S (S (S (S (S (S (S (S (S (S (S (S (S (S (S (S (S (S (S (S (S
      (S (S (S (S
      O)))))))))))))))))))))))))))))))))))))))))))))))))))))))))))))))))))))))))))))))))))))))))))))))))))))))))))))))))))))))))))))))))))))))))))))))))))))))))))))))))))))))))))))))))))))))))))))))))))))))))))))))))))))))))))))))))))))))))))))))))))))))))))))))))))))))))))))))))))))))))))))))))))))))))))))))))))))))))))))))))))))))))))))))))))))))))))))))))))))))))))))))))))))))))))))))))))))))))))))))))))))))))))))))))))))))))))))))))))))))))))))))))))))))))))))))))))))))))))))))))))))))))))))))))))))))))))))))))))))))))))))))))))))))))))))))))))))))))))))))))))))))))))))))))))))))))))))))))))))))))))))))))))))))))))))))))))))))))))))))))))))))))))))))))))))))))))))))))))))))))))))))))))))))))))))))))))))))))))))))))))))))))))))))))))))))))))))))))))))))))))))))))))))))))))))))))))))))))))))))))))))))))))))))))))))))))))))))))))))))))))))))))))))))))))))))))))))))))))))))))))))))))))
      levels (fst r)) (fun l ->
    if is_ltr l then all_runs_ltr levels rest else Ok false)

(** val emit_runs :
    enc -> bool -> n list -> nat list -> run list -> n list res **)

let rec emit_runs e legacy text levels = function
| [] -> Ok []
| r :: rest ->
  bind
    (get (S (S (S (S (S (S (S (S (S (S (S (S (S (S (S (S (S (S (S (S (S (S (S
      (S (S (S (S (S (S (S (S (S (S (S (S (S (S (S (S (S (S (S (S (S (S (S (S
      (S (S (S (S (S (S (S (S (S (S (S (S (S (S (S (S (S (S (S (S (S (S (S (S
      (S (S (S (S (S (S (S (S (S (S (S (S (S (S (S (S (S (S (S (S (S (S (S (S
      (S (S (S (S (S (S (S (S (S (S (S (S (S (S (S (S (S (S (S (S (S (S (S (S
      (S (S (S (S (S (S (S (S (S (S (S (S (S (S (S (S (S (S (S (S (S (S (S (S
      (S (S (S (S (S (S (S (S (S (S (S (S (S (S (S (S (S (S (S (S (S (S (S (S
      (S (S (S (S (S (S (S (S (S (S (S (S (S (S (S (S (S (S (S (S (S (S (S (S
      (S (S (S (S (S (S (S (S (S (S (S (S (S (S (S (S (S (S (S (S (S (S (S (S
      (S (S (S (S (S (S (S (S (S (S (S (S (S (S (S (S (S (S (S (S (S (S (S (S
      (S (S (S (S (S (S (S (S (S (S (S (S (S (S (S (S (S (S (S (S (S (S (S (S
      (S (S (S (S (S (S (S (S (S (S (S (S (S (S (S (S (S (S (S (S (S (S (S (S
      (S (S (S (S (S (S (S (S (S (S (S (S (S (S (S (S (S (S (S (S (S (S (S (S
      (S (S (S (S (S (S (S (S (S (S (S (S (S (S (S (S (S (S (S (S (S (S (S (S
      (S (S (S (S (S (S (S (S (S (S (S (S (S (S (S (S (S (S (S (S (S (S (S (S
      (S (S (S (S (S (S (S (S (S (S (S (S (S (S (S (S (S (S (S (S (S (S (S (S
      (S (S (S (S (S (S (S (S (S (S (S (S (S (S (S (S (S (S (S (S (S (S (S (S
      (S (S (S (S (S (S (S (S (S (S (S (S (S (S (S (S (S (S (S (S (S (S (S (S
      (S (S (S (S (S (S (S (S (S (S (S (S (S (S (S (S (S (S (S (S (S (S (S (S
      (S (S (S (S (S (S (S (S (S (S (S (S (S (S (S (S (S (S (S (S (S (S (S (S
      (S (S (S (S (S (S (S (S (S (S (S (S (S (S (S (S (S (S (S (S (S (S (S (S
      (S (S (S (S (S (S (S (S (S (S (S (S (S (S (S (S (S (S (S (S (S (S (S (S
      (S (S (S (S (S (S (S (S (S (S (S (S (S (S (S (S (S (S (S (S (S (S (S (S
      (S (S (S (S (S (S (S (S (S (S (S (S (S (S (S (S (S (S (S (S (S (S (S (S
      (S (S (S (S (S (S (S (S (S (S (S (S (S (S (S (S (S (S (S (S (S (S (S (S
      (S (S (S (S (S (S (S (S (S (S (S (S (S (S (S (S (S (S (S (S (S (S (S (S
      (S (S (S (S (S (S (S (S (S (S (S (S (S (S (S (S (S (S (S (S (S (S (S (S
      (S (S (S (S (S (S (S (S (S (S (S (S (S (S (S (S (S (S (S (S (S (S (S (S
      (S (S (S (S (S (S (S (S (S (S (S (S (S (S (S (S (S (S (S (S (S (S (S (S
      (S (S (S (S (S (S (S (S (S (S (S (S (S (S (S (S (S (S (S (S (S (S (S (S
      (S (S (S (S (S (S (S (S (S (S (S (S (S (S (S (S (S (S (S (S (S (S (S (S
      (S (S (S (S (S (S (S (S (S (S (S (S (S (S (S (S (S (S (S (S (S (S (S (S
      (S (S (S (S (S (S (S (S (S (S (S (S (S (S (S (S (S (S (S (S (S (S (S (S
      (S (S (S (S (S (S (S (S (S (S (S (S (S (S (S (S (S (S (S (S (S (S (S (S
      (S (S (S (S (S (S (S (S (S (S (S (S (S (S (S (S (S (S (S (S (S (S (S (S
      (S (S (S (S (S (S (S (S (S (S (S (S (S (S (S (S (S (S (S (S (S (S (S (S
      (S (S (S (S (S (S (S (S (S (S (S (S (S (S (S (S (S (S (S (S (S (S (S (S
      (S (S (S (S (S (S (S (S (S (S
      O)))))))))))))))))))))))))))))))))))))))))))))))))))))))))))))))))))))))))))))))))))))))))))))))))))))))))))))))))))))))))))))))))))))))))))))))))))))))))))))))))))))))))))))))))))))))))))))))))))))))))))))))))))))))))))))))))))))))))))))))))))))))))))))))))))))))))))))))))))))))))))))))))))))))))))))))))))))))))))))))))))))))))))))))))))))))))))))))))))))))))))))))))))))))))))))))))))))))))))))))))))))))))))))))))))))))))))))))))))))))))))))))))))))))))))))))))))))))))))))))))))))))))))))))))))))))))))))))))))))))))))))))))))))))))))))))))))))))))))))))))))))))))))))))))))))))))))))))))))))))))))))))))))))))))))))))))))))))))))))))))))))))))))))))))))))))))))))))))))))))))))))))))))))))))))))))))))))))))))))))))))))))))))))))))))))))))))))))))))))))))))))))))))))))))))))))))))))))))))))))))))))))))))))))))))))))))))))))))))))))))))))))))))))))))))))))))))))))))))))))))))))))))))))))))
      levels (fst r)) (fun l ->
    bind
      (t_subrange (S (S (S (S (S (S (S (S (S (S (S (S (S (S (S (S (S (S (S (S
        (S (S (S (S (S (S (S (S (S (S (S (S (S (S (S (S (S (S (S (S (S (S (S
        (S (S (S (S (S (S (S (S (S (S (S (S (S (S (S (S (S (S (S (S (S (S (S
        (S (S (S (S (S (S (S (S (S (S (S (S (S (S (S (S (S (S (S (S (S (S (S
        (S (S (S (S (S (S (S (S (S (S (S (S (S (S (S (S (S (S (S (S (S (S (S
        (S (S (S (S (S (S (S (S (S (S (S (S (S (S (S (S (S (S (S (S (S (S (S
        (S (S (S (S (S (S (S (S (S (S (S (S (S (S (S (S (S (S (S (S (S (S (S
        (S (S (S (S (S (S (S (S (S (S (S (S (S (S (S (S (S (S (S (S (S (S (S
        (S (S (S (S (S (S (S (S (S (S (S (S (S (S (S (S (S (S (S (S (S (S (S
        (S (S (S (S (S (S (S (S (S (S (S (S (S (S (S (S (S (S (S (S (S (S (S
        (S (S (S (S (S (S (S (S (S (S (S (S (S (S (S (S (S (S (S (S (S (S (S
        (S (S (S (S (S (S (S (S (S (S (S (S (S (S (S (S (S (S (S (S (S (S (S
        (S (S (S (S (S (S (S (S (S (S (S (S (S (S (S (S (S (S (S (S (S (S (S
        (S (S (S (S (S (S (S (S (S (S (S (S (S (S (S (S (S (S (S (S (S (S (S
        (S (S (S (S (S (S (S (S (S (S (S (S (S (S (S (S (S (S (S (S (S (S (S
        (S (S (S (S (S (S (S (S (S (S (S (S (S (S (S (S (S (S (S (S (S (S (S
        (S (S (S (S (S (S (S (S (S (S (S (S (S (S (S (S (S (S (S (S (S (S (S
        (S (S (S (S (S (S (S (S (S (S (S (S (S (S (S (S (S (S (S (S (S (S (S
        (S (S (S (S (S (S (S (S (S (S (S (S (S (S (S (S (S (S (S (S (S (S (S
        (S (S (S (S (S (S (S (S (S (S (S (S (S (S (S (S (S (S (S (S (S (S (S
        (S (S (S (S (S (S (S (S (S (S (S (S (S (S (S (S (S (S (S (S (S (S (S
        (S (S (S (S (S (S (S (S (S (S (S (S (S (S (S (S (S (S (S (S (S (S (S
        (S (S (S (S (S (S (S (S (S (S (S (S (S (S (S (S (S (S (S (S (S (S (S
        (S (S (S (S (S (S (S (S (S (S (S (S (S (S (S (S (S (S (S (S (S (S (S
        (S (S (S (S (S (S (S (S (S (S (S (S (S (S (S (S (S (S (S (S (S (S (S
        (S (S (S (S (S (S (S (S (S (S (S (S (S (S (S (S (S (S (S (S (S (S (S
        (S (S (S (S (S (S (S (S (S (S (S (S (S (S (S (S (S (S (S (S (S (S (S
        (S (S (S (S (S (S (S (S (S (S (S (S (S (S (S (S (S (S (S (S (S (S (S
        (S (S (S (S (S (S (S (S (S (S (S (S (S (S (S (S (S (S (S (S (S (S (S
        (S (S (S (S (S (S (S (S (S (S (S (S (S (S (S (S (S (S (S (S (S (S (S
        (S (S (S (S (S (S (S (S (S (S (S (S (S (S (S (S (S (S (S (S (S (S (S
        (S (S (S (S (S (S (S (S (S (S (S (S (S (S (S (S (S (S (S (S (S (S (S
        (S (S (S (S (S (S (S (S (S (S (S (S (S (S (S (S (S (S (S (S (S (S (S
        (S (S (S (S (S (S (S (S (S (S (S (S (S (S (S (S (S (S (S (S (S (S (S
        (S (S (S (S (S (S (S (S (S (S (S (S (S (S (S (S (S (S (S (S (S (S (S
        (S (S (S (S (S (S (S (S (S (S (S (S (S (S (S (S (S (S (S (S (S (S (S
        (S (S (S (S (S (S (S (S (S (S (S (S (S (S (S (S (S (S (S (S (S (S (S
        (S (S (S (S (S (S (S (S (S (S (S (S (S (S (S (S (S (S (S (S (S (S (S
        (S (S (S (S (S (S (S (S (S (S (S (S (S (S (S (S (S (S (S (S (S (S (S
        (S (S (S (S
        O))))))))))))))))))))))))))))))))))))))))))))))))))))))))))))))))))))))))))))))))))))))))))))))))))))))))))))))))))))))))))))))))))))))))))))))))))))))))))))))))))))))))))))))))))))))))))))))))))))))))))))))))))))))))))))))))))))))))))))))))))))))))))))))))))))))))))))))))))))))))))))))))))))))))))))))))))))))))))))))))))))))))))))))))))))))))))))))))))))))))))))))))))))))))))))))))))))))))))))))))))))))))))))))))))))))))))))))))))))))))))))))))))))))))))))))))))))))))))))))))))))))))))))))))))))))))))))))))))))))))))))))))))))))))))))))))))))))))))))))))))))))))))))))))))))))))))))))))))))))))))))))))))))))))))))))))))))))))))))))))))))))))))))))))))))))))))))))))))))))))))))))))))))))))))))))))))))))))))))))))))))))))))))))))))))))))))))))))))))))))))))))))))))))))))))))))))))))))))))))))))))))))))))))))))))))))))))))))))))))))))))))))))))))))))))))))))))))))))))))))))))))))))))))))))
        e text (fst r) (snd r)) (fun sub0 ->
      bind
        (if is_rtl l
         then bind (t_chars_rev e sub0) (fun cs -> Ok
                (match e with
                 | U16 -> flat_map encode_utf16 cs
                 | _ -> cs))
         else Ok
                (match e with
                 | U16 ->
                   if legacy
                   then sub0
                   else flat_map encode_utf16 (t_chars e sub0)
                 | _ -> sub0)) (fun out ->
        bind (emit_runs e legacy text levels rest) (fun rest' -> Ok
          (app out rest')))))

(** val reorder_line_core :
    enc -> bool -> n list -> (nat * nat) -> nat list -> run list -> n list res **)

let reorder_line_core e legacy text line levels runs =
  bind (all_runs_ltr levels runs) (fun all_ltr ->
    if all_ltr
    then t_subrange (S (S (S (S (S (S (S (S (S (S (S (S (S (S (S (S (S (S (S
           (S (S (S (S (S (S (S (S (S (S (S (S (S (S (S (S (S (S (S (S (S (S
           (S (S (S (S (S (S (S (S (S (S (S (S (S (S (S (S (S (S (S (S (S (S
           (S (S (S (S (S (S (S (S (S (S (S (S (S (S (S (S (S (S (S (S (S (S
           (S (S (S (S (S (S (S (S (S (S (S (S (S (S (S (S (S (S (S (S (S (S
           (S (S (S (S (S (S (S (S (S (S (S (S (S (S (S (S (S (S (S (S (S (S
           (S (S (S (S (S (S (S (S (S (S (S (S (S (S (S (S (S (S (S (S (S (S
           (S (S (S (S (S (S (S (S (S (S (S (S (S (S (S (S (S (S (S (S (S (S
           (S (S (S (S (S (S (S (S (S (S (S (S (S (S (S (S (S (S (S (S (S (S
           (S (S (S (S (S (S (S (S (S (S (S (S (S (S (S (S (S (S (S (S (S (S
           (S (S (S (S (S (S (S (S (S (S (S (S (S (S (S (S (S (S (S (S (S (S
           (S (S (S (S (S (S (S (S (S (S (S (S (S (S (S (S (S (S (S (S (S (S
           (S (S (S (S (S (S (S (S (S (S (S (S (S (S (S (S (S (S (S (S (S (S
           (S (S (S (S (S (S (S (S (S (S (S (S (S (S (S (S (S (S (S (S (S (S
           (S (S (S (S (S (S (S (S (S (S (S (S (S (S (S (S (S (S (S (S (S (S
           (S (S (S (S (S (S (S (S (S (S (S (S (S (S (S (S (S (S (S (S (S (S
           (S (S (S (S (S (S (S (S (S (S (S (S (S (S (S (S (S (S (S (S (S (S
           (S (S (S (S (S (S (S (S (S (S (S (S (S (S (S (S (S (S (S (S (S (S
           (S (S (S (S (S (S (S (S (S (S (S (S (S (S (S (S (S (S (S (S (S (S
           (S (S (S (S (S (S (S (S (S (S (S (S (S (S (S (S (S (S (S (S (S (S
           (S (S (S (S (S (S (S (S (S (S (S (S (S (S (S (S (S (S (S (S (S (S
           (S (S (S (S (S (S (S (S (S (S (S (S (S (S (S (S (S (S (S (S (S (S
           (S (S (S (S (S (S (S (S (S (S (S (S (S (S (S (S (S (S (S (S (S (S
           (S (S (S (S (S (S (S (S (S (S (S (S (S (S (S (S (S (S (S (S (S (S
           (S (S (S (S (S (S (S (S (S (S (S (S (S (S (S (S (S (S (S (S (S (S
           (S (S (S (S (S (S (S (S (S (S (S (S (S (S (S (S (S (S (S (S (S (S
           (S (S (S (S (S (S (S (S (S (S (S (S (S (S (S (S (S (S (S (S (S (S
           (S (S (S (S (S (S (S (S (S (S (S (S (S (S (S (S (S (S (S (S (S (S
           (S (S (S (S (S (S (S (S (S (S (S (S (S (S (S (S (S (S (S (S (S (S
           (S (S (S (S (S (S (S (S (S (S (S (S (S (S (S (S (S (S (S (S (S (S
           (S (S (S (S (S (S (S (S (S (S (S (S (S (S (S (S (S (S (S (S (S (S
           (S (S (S (S (S (S (S (S (S (S (S (S (S (S (S (S (S (S (S (S (S (S
           (S (S (S (S (S (S (S (S (S (S (S (S (S (S (S (S (S (S (S (S (S (S
           (S (S (S (S (S (S (S (S (S (S (S (S (S (S (S (S (S (S (S (S (S (S
           (S (S (S (S (S (S (S (S (S (S (S (S (S (S (S (S (S (S (S (S (S (S
           (S (S (S (S (S (S (S (S (S (S (S (S (S (S (S (S (S (S (S (S (S (S
           (S (S (S (S (S (S (S (S (S (S (S (S (S (S (S (S (S (S (S (S (S (S
           (S (S (S (S (S (S (S (S (S (S (S (S (S (S (S (S (S (S (S (S (S (S
           (S (S (S (S (S (S (S (S (S (S (S (S (S (S (S (S (S (S (S (S (S (S
           (S (S (S (S (S (S (S (S (S (S (S (S (S (S (S (S (S (S (S (S (S (S
           (S (S (S (S (S (S (S (S (S (S (S (S (S (S (S
           O))))))))))))))))))))))))))))))))))))))))))))))))))))))))))))))))))))))))))))))))))))))))))))))))))))))))))))))))))))))))))))))))))))))))))))))))))))))))))))))))))))))))))))))))))))))))))))))))))))))))))))))))))))))))))))))))))))))))))))))))))))))))))))))))))))))))))))))))))))))))))))))))))))))))))))))))))))))))))))))))))))))))))))))))))))))))))))))))))))))))))))))))))))))))))))))))))))))))))))))))))))))))))))))))))))))))))))))))))))))))))))))))))))))))))))))))))))))))))))))))))))))))))))))))))))))))))))))))))))))))))))))))))))))))))))))))))))))))))))))))))))))))))))))))))))))))))))))))))))))))))))))))))))))))))))))))))))))))))))))))))))))))))))))))))))))))))))))))))))))))))))))))))))))))))))))))))))))))))))))))))))))))))))))))))))))))))))))))))))))))))))))))))))))))))))))))))))))))))))))))))))))))))))))))))))))))))))))))))))))))))))))))))))))))))))))))))))))))))))))))))))))))))))
           e text (fst line) (snd line)
    else emit_runs e legacy text levels runs)

(** val reorder_line :
    enc -> bool -> n list -> bclass list -> nat list -> nat -> (nat * nat) ->
    n list res **)

let reorder_line e legacy text classes levels para_level0 line =
  bind
    (slice (S (S (S (S (S (S (S (S (S (S (S (S (S (S (S (S (S (S (S (S (S (S
      (S (S (S (S (S (S (S (S (S (S (S (S (S (S (S (S (S (S (S (S (S (S (S (S
      (S (S (S (S (S (S (S (S (S (S (S (S (S (S (S (S (S (S (S (S (S (S (S (S
      (S (S (S (S (S (S (S (S (S (S (S (S (S (S (S (S (S (S (S (S (S (S (S (S
      (S (S (S (S (S (S (S (S (S (S (S (S (S (S (S (S (S (S (S (S (S (S (S (S
      (S (S (S (S (S (S (S (S (S (S (S (S (S (S (S (S (S (S (S (S (S (S (S (S
      (S (S (S (S (S (S (S (S (S (S (S (S (S (S (S (S (S (S (S (S (S (S (S (S
      (S (S (S (S (S (S (S (S (S (S (S (S (S (S (S (S (S (S (S (S (S (S (S (S
      (S (S (S (S (S (S (S (S (S (S (S (S (S (S (S (S (S (S (S (S (S (S (S (S
      (S (S (S (S (S (S (S (S (S (S (S (S (S (S (S (S (S (S (S (S (S (S (S (S
      (S (S (S (S (S (S (S (S (S (S (S (S (S (S (S (S (S (S (S (S (S (S (S (S
      (S (S (S (S (S (S (S (S (S (S (S (S (S (S (S (S (S (S (S (S (S (S (S (S
      (S (S (S (S (S (S (S (S (S (S (S (S (S (S (S (S (S (S (S (S (S (S (S (S
      (S (S (S (S (S (S (S (S (S (S (S (S (S (S (S (S (S (S (S (S (S (S (S (S
      (S (S (S (S (S (S (S (S (S (S (S (S (S (S (S (S (S (S (S (S (S (S (S (S
      (S (S (S (S (S (S (S (S (S (S (S (S (S (S (S (S (S (S (S (S (S (S (S (S
      (S (S (S (S (S (S (S (S (S (S (S (S (S (S (S (S (S (S (S (S (S (S (S (S
      (S (S (S (S (S (S (S (S (S (S (S (S (S (S (S (S (S (S (S (S (S (S (S (S
      (S (S (S (S (S (S (S (S (S (S (S (S (S (S (S (S (S (S (S (S (S (S (S (S
      (S (S (S (S (S (S (S (S (S (S (S (S (S (S (S (S (S (S (S (S (S (S (S (S
      (S (S (S (S (S (S (S (S (S (S (S (S (S (S (S (S (S (S (S (S (S (S (S (S
      (S (S (S (S (S (S (S (S (S (S (S (S (S (S (S (S (S (S (S (S (S (S (S (S
      (S (S (S (S (S (S (S (S (S (S (S (S (S (S (S (S (S (S (S (S (S (S (S (S
      (S (S (S (S (S (S (S (S (S (S (S (S (S (S (S (S (S (S (S (S (S (S (S (S
      (S (S (S (S (S (S (S (S (S (S (S (S (S (S (S (S (S (S (S (S (S
      O)))))))))))))))))))))))))))))))))))))))))))))))))))))))))))))))))))))))))))))))))))))))))))))))))))))))))))))))))))))))))))))))))))))))))))))))))))))))))))))))))))))))))))))))))))))))))))))))))))))))))))))))))))))))))))))))))))))))))))))))))))))))))))))))))))))))))))))))))))))))))))))))))))))))))))))))))))))))))))))))))))))))))))))))))))))))))))))))))))))))))))))))))))))))))))))))))))))))))))))))))))))))))))))))))))))))))))))))))))))))))))))))))))))))))))))))))))))))))))))))))))))))))))))))))))))))))))))))))))))))))))))))))))))))))))))))))))))))))))))))))))))))))))))))))))))))))))))))))))
      levels (fst line) (snd line)) (fun ll ->
    if (&&) ((||) legacy (is_ltr para_level0)) (negb (levels_has_rtl ll))
    then t_subrange (S (S (S (S (S (S (S (S (S (S (S (S (S (S (S (S (S (S (S
           (S (S (S (S (S (S (S (S (S (S (S (S (S (S (S (S (S (S (S (S (S (S
           (S (S (S (S (S (S (S (S (S (S (S (S (S (S (S (S (S (S (S (S (S (S
           (S (S (S (S (S (S (S (S (S (S (S (S (S (S (S (S (S (S (S (S (S (S
           (S (S (S (S (S (S (S (S (S (S (S (S (S (S (S (S (S (S (S (S (S (S
           (S (S (S (S (S (S (S (S (S (S (S (S (S (S (S (S (S (S (S (S (S (S
           (S (S (S (S (S (S (S (S (S (S (S (S (S (S (S (S (S (S (S (S (S (S
           (S (S (S (S (S (S (S (S (S (S (S (S (S (S (S (S (S (S (S (S (S (S
           (S (S (S (S (S (S (S (S (S (S (S (S (S (S (S (S (S (S (S (S (S (S
           (S (S (S (S (S (S (S (S (S (S (S (S (S (S (S (S (S (S (S (S (S (S
           (S (S (S (S (S (S (S (S (S (S (S (S (S (S (S (S (S (S (S (S (S (S
           (S (S (S (S (S (S (S (S (S (S (S (S (S (S (S (S (S (S (S (S (S (S
           (S (S (S (S (S (S (S (S (S (S (S (S (S (S (S (S (S (S (S (S (S (S
           (S (S (S (S (S (S (S (S (S (S (S (S (S (S (S (S (S (S (S (S (S (S
           (S (S (S (S (S (S (S (S (S (S (S (S (S (S (S (S (S (S (S (S (S (S
           (S (S (S (S (S (S (S (S (S (S (S (S (S (S (S (S (S (S (S (S (S (S
           (S (S (S (S (S (S (S (S (S (S (S (S (S (S (S (S (S (S (S (S (S (S
           (S (S (S (S (S (S (S (S (S (S (S (S (S (S (S (S (S (S (S (S (S (S
           (S (S (S (S (S (S (S (S (S (S (S (S (S (S (S (S (S (S (S (S (S (S
           (S (S (S (S (S (S (S (S (S (S (S (S (S (S (S (S (S (S (S (S (S (S
           (S (S (S (S (S (S (S (S (S (S (S (S (S (S (S (S (S (S (S (S (S (S
           (S (S (S (S (S (S (S (S (S (S (S (S (S (S (S (S (S (S (S (S (S (S
           (S (S (S (S (S (S (S (S (S (S (S (S (S (S (S (S (S (S (S (S (S (S
           (S (S (S (S (S (S (S (S (S (S (S (S (S (S (S (S (S (S (S (S (S (S
           (S (S (S (S (S (S (S (S (S (S (S (S (S (S (S (S (S (S (S (S (S (S
           (S (S (S (S (S (S (S (S (S (S (S (S (S (S (S (S (S (S (S (S (S (S
           (S (S (S (S (S (S (S (S (S (S (S (S (S (S (S (S (S (S (S (S (S (S
           (S (S (S (S (S
           O))))))))))))))))))))))))))))))))))))))))))))))))))))))))))))))))))))))))))))))))))))))))))))))))))))))))))))))))))))))))))))))))))))))))))))))))))))))))))))))))))))))))))))))))))))))))))))))))))))))))))))))))))))))))))))))))))))))))))))))))))))))))))))))))))))))))))))))))))))))))))))))))))))))))))))))))))))))))))))))))))))))))))))))))))))))))))))))))))))))))))))))))))))))))))))))))))))))))))))))))))))))))))))))))))))))))))))))))))))))))))))))))))))))))))))))))))))))))))))))))))))))))))))))))))))))))))))))))))))))))))))))))))))))))))))))))))))))))))))))))))))))))))))))))))))))))))))))))))))
           e text (fst line) (snd line)
    else bind
           (reordered_levels e legacy text classes levels para_level0 line)
           (fun lv ->
           bind (visual_runs_for_line legacy lv line) (fun x ->
             let (lv0, runs) = x in
             reorder_line_core e legacy text line lv0 runs)))

type direction =
| Ltr
| Rtl
| Mixed

(** val para_direction_from : bool -> bool -> nat list -> direction **)

let rec para_direction_from ltr rtl = function
| [] -> if ltr then Ltr else Rtl
| l :: rest ->
  if is_ltr l
  then if rtl then Mixed else para_direction_from true rtl rest
  else if is_rtl l
       then if ltr then Mixed else para_direction_from ltr true rest
       else para_direction_from ltr rtl rest

(** val para_direction : nat list -> direction **)

let para_direction levels =
  para_direction_from false false levels

(** val paragraph_direction : nat list -> para_info -> direction res **)

let paragraph_direction levels p =
  bind
    (slice (S (S (S (S (S (S (S (S (S (S (S (S (S (S (S (S (S (S (S (S (S (S
      (S (S (S (S (S (S (S (S (S (S (S (S (S (S (S (S (S (S (S (S (S (S (S (S
      (S (S (S (S (S (S (S (S (S (S (S (S (S (S (S (S (S (S (S (S (S (S (S (S
      (S (S (S (S (S (S (S (S (S (S (S (S (S (S (S (S (S (S (S (S (S (S (S (S
      (S (S (S (S (S (S (S (S (S (S (S (S (S (S (S (S (S (S (S (S (S (S (S (S
      (S (S (S (S (S (S (S (S (S (S (S (S (S (S (S (S (S (S (S (S (S (S (S (S
      (S (S (S (S (S (S (S (S (S (S (S (S (S (S (S (S (S (S (S (S (S (S (S (S
      (S (S (S (S (S (S (S (S (S (S (S (S (S (S (S (S (S (S (S (S (S (S (S (S
      (S (S (S (S (S (S (S (S (S (S (S (S (S (S (S (S (S (S (S (S (S (S (S (S
      (S (S (S (S (S (S (S (S (S (S (S (S (S (S (S (S (S (S (S (S (S (S (S (S
      (S (S (S (S (S (S (S (S (S (S (S (S (S (S (S (S (S (S (S (S (S (S (S (S
      (S (S (S (S (S (S (S (S (S (S (S (S (S (S (S (S (S (S (S (S (S (S (S (S
      (S (S (S (S (S (S (S (S (S (S (S (S (S (S (S (S (S (S (S (S (S (S (S (S
      (S (S (S (S (S (S (S (S (S (S (S (S (S (S (S (S (S (S (S (S (S (S (S (S
      (S (S (S (S (S (S (S (S (S (S (S (S (S (S (S (S (S (S (S (S (S (S (S (S
      (S (S (S (S (S (S (S (S (S (S (S (S (S (S (S (S (S (S (S (S (S (S (S (S
      (S (S (S (S (S (S (S (S (S (S (S (S (S (S (S (S (S (S (S (S (S (S (S (S
      (S (S (S (S (S (S (S (S (S (S (S (S (S (S (S (S (S (S (S (S (S (S (S (S
      (S (S (S (S (S (S (S (S (S (S (S (S (S (S (S (S (S (S (S (S (S (S (S (S
      (S (S (S (S (S (S (S (S (S (S (S (S (S (S (S (S (S (S (S (S (S (S (S (S
      (S (S (S (S (S (S (S (S (S (S (S (S (S (S (S (S (S (S (S (S (S (S (S (S
      (S (S (S (S (S (S (S (S (S (S (S (S (S (S (S (S (S (S (S (S (S (S (S (S
      (S (S (S (S (S (S (S (S (S (S (S (S (S (S (S (S (S (S (S (S (S (S (S (S
      (S (S (S (S (S (S (S (S (S (S (S (S (S (S (S (S (S (S (S (S (S (S (S (S
      (S (S (S (S (S (S (S (S (S (S (S (S (S (S (S (S (S (S (S (S (S (S (S (S
      (S (S (S (S (S (S (S (S (S (S (S (S (S (S (S (S (S (S (S (S (S (S (S (S
      (S (S (S (S (S (S (S (S (S (S (S (S (S (S (S (S (S (S (S (S (S (S (S (S
      (S (S (S (S (S (S (S (S (S (S (S (S (S (S (S (S (S (S (S (S (S (S (S (S
      (S (S (S (S (S (S (S (S (S (S (S (S (S (S (S (S (S (S (S (S (S (S (S (S
      (S (S (S (S (S (S (S (S (S (S (S (S (S (S (S (S (S (S (S (S (S (S (S (S
      (S (S (S (S (S (S (S (S (S (S (S (S (S (S (S (S (S (S (S (S (S (S (S (S
      (S (S (S (S (S (S (S (S (S (S (S (S (S (S (S (S (S (S (S (S (S (S (S (S
      (S (S (S (S (S (S (S (S (S (S (S (S (S (S (S (S (S (S (S (S (S (S (S (S
      (S (S (S (S (S (S (S (S (S (S (S (S (S (S (S (S (S (S (S (S (S (S (S (S
      (S (S (S (S (S (S (S (S (S (S (S (S (S (S (S (S (S (S (S (S (S (S (S (S
      (S (S (S (S (S (S (S (S (S (S (S (S (S (S (S (S (S (S (S (S (S (S (S (S
      (S (S (S (S (S (S (S (S (S (S (S (S (S (S (S (S (S (S (S (S (S (S (S (S
      (S (S (S (S (S (S (S (S (S (S (S (S (S (S (S (S (S (S (S (S (S (S (S (S
      (S (S (S (S (S (S (S (S (S (S (S (S (S (S (S (S (S (S (S (S (S (S (S (S
      (S (S (S (S (S (S (S (S (S (S (S (S (S (S (S (S (S (S (S (S (S (S (S (S
      (S (S (S (S (S (S (S (S (S (S (S (S (S (S (S (S (S (S (S (S (S (S (S (S
      (S (S (S (S (S (S (S (S (S (S (S (S (S (S (S (S (S (S (S (S (S (S (S (S
      (S (S (S (S (S (S (S (S (S (S (S (S (S (S (S (S (S (S (S (S (S (S (S (S
      (S (S (S (S (S (S (S (S (S (S (S (S (S (S (S (S (S (S (S (S (S (S (S (S
      (S (S (S (S (S (S (S (S (S (S (S (S (S (S (S (S (S (S (S (S (S (S (S (S
      (S (S (S (S (S (S (S (S (S (S (S (S (S (S (S (S (S (S (S (S (S (S (S (S
      (S (S (S (S (S (S (S (S (S (S (S (S (S (S (S (S (S (S (S (S (S (S (S (S
      (S (S (S (S (S (S (S (S (S (S (S (S (S (S (S (S (S (S (S (S (S (S (S (S
      (S (S (S (S (S (S (S (S (S (S (S (S (S (S (S (S (S (S (S (S (S (S (S (S
      (S (S (S (S (S (S (S (S (S (S (S (S (S (S (S (S (S (S (S (S (S (S (S (S
      (S (S (S (S (S (S (S (S (S (S (S (S (S (S (S (S (S (S (S (S (S (S
      O))))))))))))))))))))))))))))))))))))))))))))))))))))))))))))))))))))))))))))))))))))))))))))))))))))))))))))))))))))))))))))))))))))))))))))))))))))))))))))))))))))))))))))))))))))))))))))))))))))))))))))))))))))))))))))))))))))))))))))))))))))))))))))))))))))))))))))))))))))))))))))))))))))))))))))))))))))))))))))))))))))))))))))))))))))))))))))))))))))))))))))))))))))))))))))))))))))))))))))))))))))))))))))))))))))))))))))))))))))))))))))))))))))))))))))))))))))))))))))))))))))))))))))))))))))))))))))))))))))))))))))))))))))))))))))))))))))))))))))))))))))))))))))))))))))))))))))))))))))))))))))))))))))))))))))))))))))))))))))))))))))))))))))))))))))))))))))))))))))))))))))))))))))))))))))))))))))))))))))))))))))))))))))))))))))))))))))))))))))))))))))))))))))))))))))))))))))))))))))))))))))))))))))))))))))))))))))))))))))))))))))))))))))))))))))))))))))))))))))))))))))))))))))))))))))))))))))))))))))))))))))))))))))))))))))))))))))))))))))))))))))))))))))))))))))))))))))))))))))))))))))))))))))))))))))))))))))))))))))))))))))))))))))))))))))))))))))))))))))))))))))))))))))))))))))))))))))))))))))))))))))))))))))))))))))))))))))))))))))))))))))))))))))))))))))))))))))))))))))))))))))))))))))))))))))
      levels p.p_start p.p_end) (fun sl -> Ok (para_direction sl))

(** val paragraph_level_at : nat list -> para_info -> nat -> nat res **)

let paragraph_level_at levels p pos =
  get (S (S (S (S (S (S (S (S (S (S (S (S (S (S (S (S (S (S (S (S (S (S (S (S
    (S (S (S (S (S (S (S (S (S (S (S (S (S (S (S (S (S (S (S (S (S (S (S (S
    (S (S (S (S (S (S (S (S (S (S (S (S (S (S (S (S (S (S (S (S (S (S (S (S
    (S (S (S (S (S (S (S (S (S (S (S (S (S (S (S (S (S (S (S (S (S (S (S (S
    (S (S (S (S (S (S (S (S (S (S (S (S (S (S (S (S (S (S (S (S (S (S (S (S
    (S (S (S (S (S (S (S (S (S (S (S (S (S (S (S (S (S (S (S (S (S (S (S (S
    (S (S (S (S (S (S (S (S (S (S (S (S (S (S (S (S (S (S (S (S (S (S (S (S
    (S (S (S (S (S (S (S (S (S (S (S (S (S (S (S (S (S (S (S (S (S (S (S (S
    (S (S (S (S (S (S (S (S (S (S (S (S (S (S (S (S (S (S (S (S (S (S (S (S
    (S (S (S (S (S (S (S (S (S (S (S (S (S (S (S (S (S (S (S (S (S (S (S (S
    (S (S (S (S (S (S (S (S (S (S (S (S (S (S (S (S (S (S (S (S (S (S (S (S
    (S (S (S (S (S (S (S (S (S (S (S (S (S (S (S (S (S (S (S (S (S (S (S (S
    (S (S (S (S (S (S (S (S (S (S (S (S (S (S (S (S (S (S (S (S (S (S (S (S
    (S (S (S (S (S (S (S (S (S (S (S (S (S (S (S (S (S (S (S (S (S (S (S (S
    (S (S (S (S (S (S (S (S (S (S (S (S (S (S (S (S (S (S (S (S (S (S (S (S
    (S (S (S (S (S (S (S (S (S (S (S (S (S (S (S (S (S (S (S (S (S (S (S (S
    (S (S (S (S (S (S (S (S (S (S (S (S (S (S (S (S (S (S (S (S (S (S (S (S
    (S (S (S (S (S (S (S (S (S (S (S (S (S (S (S (S (S (S (S (S (S (S (S (S
    (S (S (S (S (S (S (S (S (S (S (S (S (S (S (S (S (S (S (S (S (S (S (S (S
    (S (S (S (S (S (S (S (S (S (S (S (S (S (S (S (S (S (S (S (S (S (S (S (S
    (S (S (S (S (S (S (S (S (S (S (S (S (S (S (S (S (S (S (S (S (S (S (S (S
    (S (S (S (S (S (S (S (S (S (S (S (S (S (S (S (S (S (S (S (S (S (S (S (S
    (S (S (S (S (S (S (S (S (S (S (S (S (S (S (S (S (S (S (S (S (S (S (S (S
    (S (S (S (S (S (S (S (S (S (S (S (S (S (S (S (S (S (S (S (S (S (S (S (S
    (S (S (S (S (S (S (S (S (S (S (S (S (S (S (S (S (S (S (S (S (S (S (S (S
    (S (S (S (S (S (S (S (S (S (S (S (S (S (S (S (S (S (S (S (S (S (S (S (S
    (S (S (S (S (S (S (S (S (S (S (S (S (S (S (S (S (S (S (S (S (S (S (S (S
    (S (S (S (S (S (S (S (S (S (S (S (S (S (S (S (S (S (S (S (S (S (S (S (S
    (S (S (S (S (S (S (S (S (S (S (S (S (S (S (S (S (S (S (S (S (S (S (S (S
    (S (S (S (S (S (S (S (S (S (S (S (S (S (S (S (S (S (S (S (S (S (S (S (S
    (S (S (S (S (S (S (S (S (S (S (S (S (S (S (S (S (S (S (S (S (S (S (S (S
    (S (S (S (S (S (S (S (S (S (S (S (S (S (S (S (S (S (S (S (S (S (S (S (S
    (S (S (S (S (S (S (S (S (S (S (S (S (S (S (S (S (S (S (S (S (S (S (S (S
    (S (S (S (S (S (S (S (S (S (S (S (S (S (S (S (S (S (S (S (S (S (S (S (S
    (S (S (S (S (S (S (S (S (S (S (S (S (S (S (S (S (S (S (S (S (S (S (S (S
    (S (S (S (S (S (S (S (S (S (S (S (S (S (S (S (S (S (S (S (S (S (S (S (S
    (S (S (S (S (S (S (S (S (S (S (S (S (S (S (S (S (S (S (S (S (S (S (S (S
    (S (S (S (S (S (S (S (S (S (S (S (S (S (S (S (S (S (S (S (S (S (S (S (S
    (S (S (S (S (S (S (S (S (S (S (S (S (S (S (S (S (S (S (S (S (S (S (S (S
    (S (S (S (S (S (S (S (S (S (S (S (S (S (S (S (S (S (S (S (S (S (S (S (S
    (S (S (S (S (S (S (S (S (S (S (S (S (S (S (S (S (S (S (S (S (S (S (S (S
    (S (S (S (S (S (S (S (S (S (S (S (S (S (S (S (S (S (S (S (S (S (S (S (S
    (S (S (S (S (S (S (S (S (S (S (S (S (S (S (S (S (S (S (S (S (S (S (S (S
    (S (S (S (S (S (S (S (S (S (S (S (S (S (S (S (S (S (S (S (S (S (S (S (S
    (S (S (S (S (S (S (S (S (S (S (S (S (S (S (S (S (S (S (S (S (S (S (S (S
    (S (S (S (S (S (S (S (S (S (S (S (S (S (S (S (S (S (S (S (S (S (S (S (S
    (S (S (S (S (S (S (S (S (S (S (S (S (S (S (S (S (S (S (S (S (S (S (S (S
    (S (S (S (S (S (S (S (S (S (S (S (S (S (S (S (S (S (S (S (S (S (S (S (S
    (S (S (S (S (S (S (S (S (S (S (S (S (S (S (S (S (S (S (S (S (S (S (S (S
    (S (S (S (S (S (S (S (S (S (S (S (S (S (S (S (S (S (S (S (S (S (S (S (S
    (S (S (S (S (S (S (S (S (S (S (S (S (S (S (S (S (S (S (S (S (S (S (S (S
    (S (S (S
    O)))))))))))))))))))))))))))))))))))))))))))))))))))))))))))))))))))))))))))))))))))))))))))))))))))))))))))))))))))))))))))))))))))))))))))))))))))))))))))))))))))))))))))))))))))))))))))))))))))))))))))))))))))))))))))))))))))))))))))))))))))))))))))))))))))))))))))))))))))))))))))))))))))))))))))))))))))))))))))))))))))))))))))))))))))))))))))))))))))))))))))))))))))))))))))))))))))))))))))))))))))))))))))))))))))))))))))))))))))))))))))))))))))))))))))))))))))))))))))))))))))))))))))))))))))))))))))))))))))))))))))))))))))))))))))))))))))))))))))))))))))))))))))))))))))))))))))))))))))))))))))))))))))))))))))))))))))))))))))))))))))))))))))))))))))))))))))))))))))))))))))))))))))))))))))))))))))))))))))))))))))))))))))))))))))))))))))))))))))))))))))))))))))))))))))))))))))))))))))))))))))))))))))))))))))))))))))))))))))))))))))))))))))))))))))))))))))))))))))))))))))))))))))))))))))))))))))))))))))))))))))))))))))))))))))))))))))))))))))))))))))))))))))))))))))))))))))))))))))))))))))))))))))))))))))))))))))))))))))))))))))))))))))))))))))))))))))))))))))))))))))))))))))))))))))))))))))))))))))))))))))))))))))))))))))))))))))))))))))))))))))))))))))))))))))))))))))))))))))))))))))))))))))))))))))))))))))
    levels (add p.p_start pos)

(** val bidi_info_has_rtl : bidi_info -> bool **)

let bidi_info_has_rtl bi =
  levels_has_rtl bi.bi_levels

(** val para_bidi_info_has_rtl : bool -> para_bidi_info -> bool **)

let para_bidi_info_has_rtl legacy pb =
  (||) (negb pb.pb_pure) ((&&) (negb legacy) (is_rtl pb.pb_level))

(** val base_direction_from :
    datasource -> bool -> nat -> n list -> direction **)

let rec base_direction_from ds use_full_text isolate_level = function
| [] -> Mixed
| c :: rest ->
  (match ds.ds_class c with
   | AL ->
     if Nat.eqb isolate_level O
     then Rtl
     else base_direction_from ds use_full_text isolate_level rest
   | B ->
     if use_full_text
     then base_direction_from ds use_full_text O rest
     else Mixed
   | FSI -> base_direction_from ds use_full_text (S isolate_level) rest
   | L ->
     if Nat.eqb isolate_level O
     then Ltr
     else base_direction_from ds use_full_text isolate_level rest
   | LRI -> base_direction_from ds use_full_text (S isolate_level) rest
   | PDI ->
     base_direction_from ds use_full_text (sub isolate_level (S O)) rest
   | R ->
     if Nat.eqb isolate_level O
     then Rtl
     else base_direction_from ds use_full_text isolate_level rest
   | RLI -> base_direction_from ds use_full_text (S isolate_level) rest
   | _ -> base_direction_from ds use_full_text isolate_level rest)

(** val get_base_direction :
    enc -> datasource -> bool -> n list -> direction **)

let get_base_direction e ds use_full_text text =
  base_direction_from ds use_full_text O (t_chars e text)

(** val is_strong : bclass -> bool **)

let is_strong = function
| AL -> true
| L -> true
| R -> true
| _ -> false

(** val is_init : bclass -> bool **)

let is_init = function
| FSI -> true
| LRI -> true
| RLI -> true
| _ -> false

(** val is_removed : bclass -> bool **)

let is_removed = function
| BN -> true
| LRE -> true
| LRO -> true
| PDF -> true
| RLE -> true
| RLO -> true
| _ -> false

(** val is_ni : bclass -> bool **)

let is_ni = function
| B -> true
| FSI -> true
| LRI -> true
| ON -> true
| PDI -> true
| RLI -> true
| SS -> true
| WS -> true
| _ -> false

(** val is_iso_ctl : bclass -> bool **)

let is_iso_ctl = function
| FSI -> true
| LRI -> true
| PDI -> true
| RLI -> true
| _ -> false

(** val snth : 'a1 list -> nat -> 'a1 -> 'a1 **)

let snth l i d =
  nth i l d

(** val setnth : 'a1 list -> nat -> 'a1 -> 'a1 list **)

let rec setnth l i x =
  match l with
  | [] -> []
  | h :: t -> (match i with
               | O -> x :: t
               | S j -> h :: (setnth t j x))

(** val match_pdi_from : bclass list -> nat -> nat -> nat option **)

let rec match_pdi_from l depth j =
  match l with
  | [] -> None
  | c :: t ->
    if is_init c
    then match_pdi_from t (S depth) (S j)
    else if ceq c PDI
         then if Nat.eqb depth (S O)
              then Some j
              else match_pdi_from t (sub depth (S O)) (S j)
         else match_pdi_from t depth (S j)

(** val matching_pdi : bclass list -> nat -> nat option **)

let matching_pdi cls i =
  match_pdi_from (skipn (S i) cls) (S O) (S i)

(** val first_strong_fuel :
    nat -> bclass list -> nat -> nat -> bclass option **)

let rec first_strong_fuel fuel cls i hi =
  match fuel with
  | O -> None
  | S f ->
    if Nat.leb hi i
    then None
    else (match nth_error cls i with
          | Some c ->
            if is_strong c
            then Some c
            else if is_init c
                 then (match matching_pdi cls i with
                       | Some j ->
                         if Nat.leb hi j
                         then None
                         else first_strong_fuel f cls (S j) hi
                       | None -> None)
                 else first_strong_fuel f cls (S i) hi
          | None -> None)

(** val first_strong : bclass list -> nat -> nat -> bclass option **)

let first_strong cls lo hi =
  first_strong_fuel (S (sub hi lo)) cls lo hi

(** val para_level : bclass list -> nat option -> nat **)

let para_level cls = function
| Some d -> d
| None ->
  (match first_strong cls O (length cls) with
   | Some b -> (match b with
                | AL -> S O
                | R -> S O
                | _ -> O)
   | None -> O)

(** val fsi_strong : bclass list -> nat -> bclass option **)

let fsi_strong cls i =
  first_strong cls (S i)
    (match matching_pdi cls i with
     | Some j -> j
     | None -> length cls)

(** val reported_classes : bclass list -> bclass list **)

let reported_classes cls =
  map (fun ic ->
    let (i, c) = ic in
    if ceq c FSI
    then (match fsi_strong cls i with
          | Some b -> (match b with
                       | L -> LRI
                       | _ -> RLI)
          | None -> FSI)
    else c) (combine (seq O (length cls)) cls)

type ovr =
| ONone
| OvL
| OvR

type sentry = (nat * ovr) * bool

(** val max_depth_spec : nat **)

let max_depth_spec =
  S (S (S (S (S (S (S (S (S (S (S (S (S (S (S (S (S (S (S (S (S (S (S (S (S
    (S (S (S (S (S (S (S (S (S (S (S (S (S (S (S (S (S (S (S (S (S (S (S (S
    (S (S (S (S (S (S (S (S (S (S (S (S (S (S (S (S (S (S (S (S (S (S (S (S
    (S (S (S (S (S (S (S (S (S (S (S (S (S (S (S (S (S (S (S (S (S (S (S (S
    (S (S (S (S (S (S (S (S (S (S (S (S (S (S (S (S (S (S (S (S (S (S (S (S
    (S (S (S (S
    O))))))))))))))))))))))))))))))))))))))))))))))))))))))))))))))))))))))))))))))))))))))))))))))))))))))))))))))))))))))))))))

(** val next_odd : nat -> nat **)

let next_odd l =
  if Nat.even l then add l (S O) else add l (S (S O))

(** val next_even : nat -> nat **)

let next_even l =
  if Nat.even l then add l (S (S O)) else add l (S O)

(** val pop_isolate : sentry list -> sentry list **)

let rec pop_isolate = function
| [] -> []
| s :: r -> let (_, b) = s in if b then r else pop_isolate r

(** val ovr_class : ovr -> bclass -> bclass **)

let ovr_class o c =
  match o with
  | ONone -> c
  | OvL -> L
  | OvR -> R

type xstate = { x_stack : sentry list; x_oi : nat; x_oe : nat; x_vi : nat }

(** val top_of : sentry list -> nat -> sentry **)

let top_of st pl =
  match st with
  | [] -> ((pl, ONone), false)
  | s :: _ -> s

(** val x_step :
    bclass list -> nat -> xstate -> nat -> bclass -> (xstate * nat
    option) * bclass **)

let x_step cls0 pl s i c0 =
  let c =
    if ceq c0 FSI
    then (match fsi_strong cls0 i with
          | Some b -> (match b with
                       | AL -> RLI
                       | R -> RLI
                       | _ -> LRI)
          | None -> LRI)
    else c0
  in
  let (p, _) = top_of s.x_stack pl in
  let (tl_, to0) = p in
  (match c with
   | B -> ((s, (Some pl)), c0)
   | BN -> ((s, None), c0)
   | LRE ->
     let nl =
       match c with
       | RLE -> next_odd tl_
       | RLO -> next_odd tl_
       | _ -> next_even tl_
     in
     if (&&) ((&&) (Nat.leb nl max_depth_spec) (Nat.eqb s.x_oi O))
          (Nat.eqb s.x_oe O)
     then (({ x_stack = (((nl,
            (match c with
             | LRO -> OvL
             | RLO -> OvR
             | _ -> ONone)), false) :: s.x_stack); x_oi = s.x_oi; x_oe =
            s.x_oe; x_vi = s.x_vi }, None), c0)
     else (({ x_stack = s.x_stack; x_oi = s.x_oi; x_oe =
            (if Nat.eqb s.x_oi O then S s.x_oe else s.x_oe); x_vi = s.x_vi },
            None), c0)
   | LRI ->
     let nl = match c with
              | RLI -> next_odd tl_
              | _ -> next_even tl_ in
     let s' =
       if (&&) ((&&) (Nat.leb nl max_depth_spec) (Nat.eqb s.x_oi O))
            (Nat.eqb s.x_oe O)
       then { x_stack = (((nl, ONone), true) :: s.x_stack); x_oi = s.x_oi;
              x_oe = s.x_oe; x_vi = (S s.x_vi) }
       else { x_stack = s.x_stack; x_oi = (S s.x_oi); x_oe = s.x_oe; x_vi =
              s.x_vi }
     in
     ((s', (Some tl_)), (ovr_class to0 c0))
   | LRO ->
     let nl =
       match c with
       | RLE -> next_odd tl_
       | RLO -> next_odd tl_
       | _ -> next_even tl_
     in
     if (&&) ((&&) (Nat.leb nl max_depth_spec) (Nat.eqb s.x_oi O))
          (Nat.eqb s.x_oe O)
     then (({ x_stack = (((nl,
            (match c with
             | LRO -> OvL
             | RLO -> OvR
             | _ -> ONone)), false) :: s.x_stack); x_oi = s.x_oi; x_oe =
            s.x_oe; x_vi = s.x_vi }, None), c0)
     else (({ x_stack = s.x_stack; x_oi = s.x_oi; x_oe =
            (if Nat.eqb s.x_oi O then S s.x_oe else s.x_oe); x_vi = s.x_vi },
            None), c0)
   | PDF ->
     let s' =
       if Nat.ltb O s.x_oi
       then s
       else if Nat.ltb O s.x_oe
            then { x_stack = s.x_stack; x_oi = s.x_oi; x_oe =
                   (sub s.x_oe (S O)); x_vi = s.x_vi }
            else (match s.x_stack with
                  | [] -> s
                  | s0 :: below ->
                    let (_, b) = s0 in
                    if b
                    then s
                    else (match below with
                          | [] -> s
                          | _ :: _ ->
                            { x_stack = below; x_oi = s.x_oi; x_oe = s.x_oe;
                              x_vi = s.x_vi }))
     in
     ((s', None), c0)
   | PDI ->
     let s' =
       if Nat.ltb O s.x_oi
       then { x_stack = s.x_stack; x_oi = (sub s.x_oi (S O)); x_oe = s.x_oe;
              x_vi = s.x_vi }
       else if Nat.eqb s.x_vi O
            then s
            else { x_stack = (pop_isolate s.x_stack); x_oi = s.x_oi; x_oe =
                   O; x_vi = (sub s.x_vi (S O)) }
     in
     let (p0, _) = top_of s'.x_stack pl in
     let (tl2, to2) = p0 in ((s', (Some tl2)), (ovr_class to2 c0))
   | RLE ->
     let nl =
       match c with
       | RLE -> next_odd tl_
       | RLO -> next_odd tl_
       | _ -> next_even tl_
     in
     if (&&) ((&&) (Nat.leb nl max_depth_spec) (Nat.eqb s.x_oi O))
          (Nat.eqb s.x_oe O)
     then (({ x_stack = (((nl,
            (match c with
             | LRO -> OvL
             | RLO -> OvR
             | _ -> ONone)), false) :: s.x_stack); x_oi = s.x_oi; x_oe =
            s.x_oe; x_vi = s.x_vi }, None), c0)
     else (({ x_stack = s.x_stack; x_oi = s.x_oi; x_oe =
            (if Nat.eqb s.x_oi O then S s.x_oe else s.x_oe); x_vi = s.x_vi },
            None), c0)
   | RLI ->
     let nl = match c with
              | RLI -> next_odd tl_
              | _ -> next_even tl_ in
     let s' =
       if (&&) ((&&) (Nat.leb nl max_depth_spec) (Nat.eqb s.x_oi O))
            (Nat.eqb s.x_oe O)
       then { x_stack = (((nl, ONone), true) :: s.x_stack); x_oi = s.x_oi;
              x_oe = s.x_oe; x_vi = (S s.x_vi) }
       else { x_stack = s.x_stack; x_oi = (S s.x_oi); x_oe = s.x_oe; x_vi =
              s.x_vi }
     in
     ((s', (Some tl_)), (ovr_class to0 c0))
   | RLO ->
     let nl =
       match c with
       | RLE -> next_odd tl_
       | RLO -> next_odd tl_
       | _ -> next_even tl_
     in
     if (&&) ((&&) (Nat.leb nl max_depth_spec) (Nat.eqb s.x_oi O))
          (Nat.eqb s.x_oe O)
     then (({ x_stack = (((nl,
            (match c with
             | LRO -> OvL
             | RLO -> OvR
             | _ -> ONone)), false) :: s.x_stack); x_oi = s.x_oi; x_oe =
            s.x_oe; x_vi = s.x_vi }, None), c0)
     else (({ x_stack = s.x_stack; x_oi = s.x_oi; x_oe =
            (if Nat.eqb s.x_oi O then S s.x_oe else s.x_oe); x_vi = s.x_vi },
            None), c0)
   | _ -> ((s, (Some tl_)), (ovr_class to0 c0)))

(** val x_run :
    bclass list -> nat -> xstate -> nat -> bclass list -> nat option
    list * bclass list **)

let rec x_run cls0 pl s i = function
| [] -> ([], [])
| c0 :: rest ->
  let (p, c) = x_step cls0 pl s i c0 in
  let (s', lv) = p in
  let (lvs, cs) = x_run cls0 pl s' (S i) rest in ((lv :: lvs), (c :: cs))

(** val explicit_levels :
    bclass list -> nat -> nat option list * bclass list **)

let explicit_levels cls0 pl =
  x_run cls0 pl { x_stack = (((pl, ONone), false) :: []); x_oi = O; x_oe = O;
    x_vi = O } O cls0

(** val remaining : bclass list -> nat list **)

let remaining cls0 =
  filter (fun i -> negb (is_removed (snth cls0 i BN))) (seq O (length cls0))

(** val level_runs_from :
    nat option list -> nat list -> nat option -> nat list -> nat list list **)

let rec level_runs_from lev cur curl = function
| [] -> (match cur with
         | [] -> []
         | _ :: _ -> cur :: [])
| i :: rest ->
  let li = snth lev i None in
  (match cur with
   | [] -> level_runs_from lev (i :: []) li rest
   | _ :: _ ->
     if match li with
        | Some a -> (match curl with
                     | Some b -> Nat.eqb a b
                     | None -> false)
        | None -> false
     then level_runs_from lev (app cur (i :: [])) curl rest
     else cur :: (level_runs_from lev (i :: []) li rest))

(** val level_runs : nat option list -> nat list -> nat list list **)

let level_runs lev idx =
  level_runs_from lev [] None idx

(** val last_of : nat list -> nat **)

let last_of l =
  last l O

(** val first_of : nat list -> nat **)

let first_of l =
  hd O l

(** val run_starting_at : nat list list -> nat -> nat list option **)

let rec run_starting_at runs p =
  match runs with
  | [] -> None
  | r :: rest ->
    if Nat.eqb (first_of r) p then Some r else run_starting_at rest p

(** val continuation :
    bclass list -> nat list list -> nat list -> nat list option **)

let continuation cls0 runs r =
  let l = last_of r in
  if is_init (snth cls0 l ON)
  then (match matching_pdi cls0 l with
        | Some j -> run_starting_at runs j
        | None -> None)
  else None

(** val chain :
    nat -> bclass list -> nat list list -> nat list -> nat list **)

let rec chain fuel cls0 runs r =
  match fuel with
  | O -> r
  | S f ->
    (match continuation cls0 runs r with
     | Some r' -> app r (chain f cls0 runs r')
     | None -> r)

(** val isolating_sequences :
    bclass list -> nat option list -> nat list list **)

let isolating_sequences cls0 lev =
  let runs = level_runs lev (remaining cls0) in
  let targets =
    map (fun q ->
      match continuation cls0 runs q with
      | Some r' -> Some (first_of r')
      | None -> None) runs
  in
  let is_cont = fun r ->
    existsb (fun t ->
      match t with
      | Some p -> Nat.eqb p (first_of r)
      | None -> false) targets
  in
  map (chain (length runs) cls0 runs)
    (filter (fun r -> negb (is_cont r)) runs)

(** val w1 : bclass -> bclass list -> bclass list **)

let rec w1 prev = function
| [] -> []
| c :: r ->
  let c' = if ceq c NSM then if is_iso_ctl prev then ON else prev else c in
  c' :: (w1 c' r)

(** val w2 : bclass -> bclass list -> bclass list **)

let rec w2 strong = function
| [] -> []
| c :: r ->
  let c' = if (&&) (ceq c EN) (ceq strong AL) then AN else c in
  c' :: (w2 (if is_strong c then c else strong) r)

(** val w3 : bclass list -> bclass list **)

let w3 t =
  map (fun c -> if ceq c AL then R else c) t

(** val w4 : bclass option -> bclass list -> bclass list **)

let rec w4 prev = function
| [] -> []
| c :: r ->
  let c' =
    match prev with
    | Some b ->
      (match b with
       | AN ->
         (match c with
          | CS ->
            (match r with
             | [] -> c
             | b0 :: _ -> (match b0 with
                           | AN -> AN
                           | _ -> c))
          | _ -> c)
       | EN ->
         (match c with
          | CS ->
            (match r with
             | [] -> c
             | b0 :: _ -> (match b0 with
                           | EN -> EN
                           | _ -> c))
          | ES ->
            (match r with
             | [] -> c
             | b0 :: _ -> (match b0 with
                           | EN -> EN
                           | _ -> c))
          | _ -> c)
       | _ -> c)
    | None -> c
  in
  c' :: (w4 (Some c) r)

(** val w5_fwd : bclass -> bclass list -> bclass list **)

let rec w5_fwd prev = function
| [] -> []
| c :: r ->
  let c' = if (&&) (ceq c ET) (ceq prev EN) then EN else c in
  c' :: (w5_fwd c' r)

(** val w5 : bclass list -> bclass list **)

let w5 t =
  rev (w5_fwd ON (rev (w5_fwd ON t)))

(** val w6 : bclass list -> bclass list **)

let w6 t =
  map (fun c -> match c with
                | CS -> ON
                | ES -> ON
                | ET -> ON
                | _ -> c) t

(** val w7 : bclass -> bclass list -> bclass list **)

let rec w7 strong = function
| [] -> []
| c :: r ->
  let c' = if (&&) (ceq c EN) (ceq strong L) then L else c in
  c' :: (w7 (match c with
             | L -> c
             | R -> c
             | _ -> strong) r)

(** val weak : bclass -> bclass list -> bclass list **)

let weak sos t =
  w7 sos (w6 (w5 (w4 None (w3 (w2 sos (w1 sos t))))))

(** val bd16_match : n -> (n * nat) list -> (nat * (n * nat) list) option **)

let rec bd16_match key = function
| [] -> None
| p0 :: below ->
  let (k, p) = p0 in
  if N.eqb k key then Some (p, below) else bd16_match key below

(** val bd16 :
    bclass list -> (n * bool) option list -> nat -> (n * nat) list ->
    (nat * nat) list -> (nat * nat) list **)

let rec bd16 t brk k st pairs =
  match t with
  | [] -> pairs
  | c :: tr ->
    (match brk with
     | [] -> pairs
     | b :: br ->
       (match b with
        | Some p ->
          let (key, is_open) = p in
          if ceq c ON
          then if is_open
               then if Nat.leb (S (S (S (S (S (S (S (S (S (S (S (S (S (S (S
                         (S (S (S (S (S (S (S (S (S (S (S (S (S (S (S (S (S
                         (S (S (S (S (S (S (S (S (S (S (S (S (S (S (S (S (S
                         (S (S (S (S (S (S (S (S (S (S (S (S (S (S
                         O)))))))))))))))))))))))))))))))))))))))))))))))))))))))))))))))
                         (length st)
                    then pairs
                    else bd16 tr br (S k) ((key, k) :: st) pairs
               else (match bd16_match key st with
                     | Some p0 ->
                       let (p1, below) = p0 in
                       bd16 tr br (S k) below (app pairs ((p1, k) :: []))
                     | None -> bd16 tr br (S k) st pairs)
          else bd16 tr br (S k) st pairs
        | None -> bd16 tr br (S k) st pairs))

(** val insert_by_fst :
    (nat * nat) -> (nat * nat) list -> (nat * nat) list **)

let rec insert_by_fst p l = match l with
| [] -> p :: []
| q :: r ->
  if Nat.ltb (fst p) (fst q) then p :: l else q :: (insert_by_fst p r)

(** val bracket_pairs :
    bclass list -> (n * bool) option list -> (nat * nat) list **)

let bracket_pairs t brk =
  fold_left (fun acc p -> insert_by_fst p acc) (bd16 t brk O [] []) []

(** val strong_dir : bclass -> bclass option **)

let strong_dir = function
| AN -> Some R
| EN -> Some R
| L -> Some L
| R -> Some R
| _ -> None

(** val opt_ceq : bclass option -> bclass -> bool **)

let opt_ceq o c =
  match o with
  | Some x -> ceq x c
  | None -> false

(** val nsm_follow :
    bool list -> bclass -> nat -> nat -> bclass list -> bclass list **)

let rec nsm_follow orig_nsm d k fuel t =
  match fuel with
  | O -> t
  | S f ->
    if snth orig_nsm k false
    then nsm_follow orig_nsm d (S k) f (setnth t k d)
    else t

(** val n0_one :
    bclass -> bclass -> bool list -> bclass list -> (nat * nat) -> bclass list **)

let n0_one sos edir orig_nsm t = function
| (a, b) ->
  let inside = firstn (sub (sub b a) (S O)) (skipn (S a) t) in
  let found_e = existsb (fun c -> opt_ceq (strong_dir c) edir) inside in
  let found_o =
    existsb (fun c ->
      match strong_dir c with
      | Some d -> negb (ceq d edir)
      | None -> false) inside
  in
  let new0 =
    if found_e
    then Some edir
    else if found_o
         then let ctx =
                match find (fun c ->
                        match strong_dir c with
                        | Some _ -> true
                        | None -> false) (rev (firstn a t)) with
                | Some c ->
                  (match strong_dir c with
                   | Some d -> d
                   | None -> sos)
                | None -> sos
              in
              Some ctx
         else None
  in
  (match new0 with
   | Some d ->
     let t0 = setnth (setnth t a d) b d in
     nsm_follow orig_nsm d (S b) (length t0)
       (nsm_follow orig_nsm d (S a) (length t0) t0)
   | None -> t)

(** val next_dirs : bclass -> bclass list -> bclass list **)

let rec next_dirs eos = function
| [] -> []
| _ :: r ->
  let ns = next_dirs eos r in
  (match r with
   | [] -> eos
   | x :: _ ->
     if is_ni x
     then hd eos ns
     else (match strong_dir x with
           | Some d -> d
           | None -> x)) :: ns

(** val n12 :
    bclass -> bclass -> bclass list -> bclass list -> bclass list **)

let rec n12 lead edir t nexts =
  match t with
  | [] -> []
  | c :: r ->
    (match nexts with
     | [] -> []
     | nx :: nr ->
       if is_ni c
       then (if ceq lead nx then lead else edir) :: (n12 lead edir r nr)
       else c :: (n12 (match strong_dir c with
                       | Some d -> d
                       | None -> c) edir r nr))

(** val neutral : bclass -> bclass -> bclass -> bclass list -> bclass list **)

let neutral sos eos edir t =
  n12 sos edir t (next_dirs eos t)

(** val implicit_level : nat -> bclass -> nat **)

let implicit_level l c =
  if Nat.even l
  then (match c with
        | AN -> add l (S (S O))
        | EN -> add l (S (S O))
        | R -> add l (S O)
        | _ -> l)
  else (match c with
        | AN -> add l (S O)
        | EN -> add l (S O)
        | L -> add l (S O)
        | _ -> l)

(** val dir_of_level : nat -> bclass **)

let dir_of_level l =
  if Nat.even l then L else R

(** val lev_at : nat option list -> nat -> nat -> nat **)

let lev_at xlev pl i =
  match snth xlev i None with
  | Some l -> l
  | None -> pl

(** val seq_sos : nat option list -> nat -> nat list -> nat list -> bclass **)

let seq_sos xlev pl idx sq =
  let first = first_of sq in
  let pred =
    match rev (filter (fun i -> Nat.ltb i first) idx) with
    | [] -> pl
    | i :: _ -> lev_at xlev pl i
  in
  dir_of_level (Nat.max (lev_at xlev pl first) pred)

(** val seq_eos :
    bclass list -> nat option list -> nat -> nat list -> nat list -> bclass **)

let seq_eos cls0 xlev pl idx sq =
  let last_ = last_of sq in
  let succ0 =
    if (&&) (is_init (snth cls0 last_ ON))
         (match matching_pdi cls0 last_ with
          | Some _ -> false
          | None -> true)
    then pl
    else (match filter (fun i -> Nat.ltb last_ i) idx with
          | [] -> pl
          | i :: _ -> lev_at xlev pl i)
  in
  dir_of_level (Nat.max (lev_at xlev pl last_) succ0)

(** val resolve_classes :
    bclass -> bclass -> bclass -> (n * bool) option list -> bool list ->
    bclass list -> bclass list **)

let resolve_classes sos eos edir brks orig_nsm t0 =
  let t1 = weak sos t0 in
  let pairs = bracket_pairs t1 brks in
  let t2 = fold_left (n0_one sos edir orig_nsm) pairs t1 in
  neutral sos eos edir t2

(** val resolve_sequence :
    bclass list -> bclass list -> (n * bool) option list -> nat option list
    -> nat -> nat list -> nat list -> (nat * nat) list **)

let resolve_sequence cls0 cls brk xlev pl idx sq =
  let sos = seq_sos xlev pl idx sq in
  let eos = seq_eos cls0 xlev pl idx sq in
  let edir = dir_of_level (lev_at xlev pl (first_of sq)) in
  let t3 =
    resolve_classes sos eos edir (map (fun i -> snth brk i None) sq)
      (map (fun i -> ceq (snth cls0 i ON) NSM) sq)
      (map (fun i -> snth cls i ON) sq)
  in
  map (fun ic -> ((fst ic),
    (implicit_level (lev_at xlev pl (fst ic)) (snd ic)))) (combine sq t3)

(** val assoc_nat : nat -> (nat * nat) list -> nat option **)

let rec assoc_nat k = function
| [] -> None
| p :: r -> let (a, b) = p in if Nat.eqb a k then Some b else assoc_nat k r

(** val x_classes : bclass list -> bclass list -> bclass list **)

let x_classes cls0 xcls =
  map (fun p -> match fst p with
                | FSI -> snd p
                | x -> x) (combine xcls (reported_classes cls0))

(** val resolve_paragraph :
    bclass list -> (n * bool) option list -> nat option -> nat * nat option
    list **)

let resolve_paragraph cls0 brk dir =
  let pl = para_level cls0 dir in
  let (xlev, xcls) = explicit_levels cls0 pl in
  let cls = x_classes cls0 xcls in
  let idx = remaining cls0 in
  let seqs = isolating_sequences cls0 xlev in
  let assigned = flat_map (resolve_sequence cls0 cls brk xlev pl idx) seqs in
  (pl,
  (map (fun i ->
    if is_removed (snth cls0 i BN)
    then None
    else (match assoc_nat i assigned with
          | Some l -> Some l
          | None -> snth xlev i None)) (seq O (length cls0))))

(** val split_paragraphs_from :
    ('a1 -> bclass) -> 'a1 list -> 'a1 list -> 'a1 list list **)

let rec split_paragraphs_from cls cur = function
| [] -> (match cur with
         | [] -> []
         | _ :: _ -> cur :: [])
| x :: r ->
  if ceq (cls x) B
  then (app cur (x :: [])) :: (split_paragraphs_from cls [] r)
  else split_paragraphs_from cls (app cur (x :: [])) r

(** val split_paragraphs : ('a1 -> bclass) -> 'a1 list -> 'a1 list list **)

let split_paragraphs cls l =
  split_paragraphs_from cls [] l

(** val fill_removed : nat -> nat option list -> nat list **)

let rec fill_removed prev = function
| [] -> []
| o :: r ->
  (match o with
   | Some x -> x :: (fill_removed x r)
   | None -> prev :: (fill_removed prev r))

(** val l1_candidate : bclass -> bool **)

let l1_candidate c = match c with
| FSI -> true
| LRI -> true
| PDI -> true
| RLI -> true
| WS -> true
| _ -> is_removed c

(** val l1_reset_flags : bclass list -> bool list * bool **)

let rec l1_reset_flags = function
| [] -> ([], true)
| c :: r ->
  let (fl, st) = l1_reset_flags r in
  (match c with
   | B -> ((true :: fl), true)
   | SS -> ((true :: fl), true)
   | _ -> if l1_candidate c then ((st :: fl), st) else ((false :: fl), false))

(** val l1_apply :
    nat -> nat -> bclass list -> bool list -> nat list -> nat list **)

let rec l1_apply pl prev cls flags lev =
  match cls with
  | [] -> []
  | c :: cr ->
    (match flags with
     | [] -> []
     | f :: fr ->
       (match lev with
        | [] -> []
        | l :: lr ->
          let l' = if f then pl else if is_removed c then prev else l in
          l' :: (l1_apply pl l' cr fr lr)))

(** val l1 : nat -> bclass list -> nat list -> nat list **)

let l1 pl cls lev =
  l1_apply pl pl cls (fst (l1_reset_flags cls)) lev

(** val rev_runs_ge :
    nat -> (nat * nat) list -> (nat * nat) list -> (nat * nat) list **)

let rec rev_runs_ge k xs acc =
  match xs with
  | [] -> acc
  | x :: r ->
    if Nat.leb k (snd x)
    then rev_runs_ge k r (x :: acc)
    else app acc (x :: (rev_runs_ge k r []))

(** val l2_down : nat -> nat -> (nat * nat) list -> (nat * nat) list **)

let rec l2_down k lo xs =
  match k with
  | O -> xs
  | S k' -> if Nat.leb lo k then l2_down k' lo (rev_runs_ge k xs []) else xs

(** val lowest_odd : nat list -> nat option **)

let lowest_odd lv =
  fold_left (fun acc l ->
    if Nat.odd l
    then (match acc with
          | Some m -> Some (Nat.min m l)
          | None -> Some l)
    else acc) lv None

(** val l2 : nat list -> nat list **)

let l2 lv =
  match lowest_odd lv with
  | Some lo ->
    map fst
      (l2_down (fold_left Nat.max lv O) lo (combine (seq O (length lv)) lv))
  | None -> seq O (length lv)

(** val is_hi : n -> bool **)

let is_hi u =
  (&&)
    (N.leb (Npos (XO (XO (XO (XO (XO (XO (XO (XO (XO (XO (XO (XI (XI (XO (XI
      XH)))))))))))))))) u)
    (N.leb u (Npos (XI (XI (XI (XI (XI (XI (XI (XI (XI (XI (XO (XI (XI (XO
      (XI XH)))))))))))))))))

(** val is_lo : n -> bool **)

let is_lo u =
  (&&)
    (N.leb (Npos (XO (XO (XO (XO (XO (XO (XO (XO (XO (XO (XI (XI (XI (XO (XI
      XH)))))))))))))))) u)
    (N.leb u (Npos (XI (XI (XI (XI (XI (XI (XI (XI (XI (XI (XI (XI (XI (XO
      (XI XH)))))))))))))))))

(** val decode16 : n list -> (n * nat) list **)

let rec decode16 = function
| [] -> []
| u :: r ->
  if is_hi u
  then (match r with
        | [] ->
          ((Npos (XI (XO (XI (XI (XI (XI (XI (XI (XI (XI (XI (XI (XI (XI (XI
            XH)))))))))))))))), (S O)) :: []
        | d :: r' ->
          if is_lo d
          then ((N.add
                  (N.add (Npos (XO (XO (XO (XO (XO (XO (XO (XO (XO (XO (XO
                    (XO (XO (XO (XO (XO XH)))))))))))))))))
                    (N.mul
                      (N.sub u (Npos (XO (XO (XO (XO (XO (XO (XO (XO (XO (XO
                        (XO (XI (XI (XO (XI XH))))))))))))))))) (Npos (XO (XO
                      (XO (XO (XO (XO (XO (XO (XO (XO XH)))))))))))))
                  (N.sub d (Npos (XO (XO (XO (XO (XO (XO (XO (XO (XO (XO (XI
                    (XI (XI (XO (XI XH)))))))))))))))))), (S (S
                 O))) :: (decode16 r')
          else ((Npos (XI (XO (XI (XI (XI (XI (XI (XI (XI (XI (XI (XI (XI (XI
                 (XI XH)))))))))))))))), (S O)) :: (decode16 r))
  else if is_lo u
       then ((Npos (XI (XO (XI (XI (XI (XI (XI (XI (XI (XI (XI (XI (XI (XI
              (XI XH)))))))))))))))), (S O)) :: (decode16 r)
       else (u, (S O)) :: (decode16 r)

type tcase = { tc_enc : enc; tc_ds : datasource; tc_text : n list;
               tc_dir : nat option; tc_lines : (nat * nat) list }

type line_obs = { lo_line : (nat * nat); lo_rl : nat list res;
                  lo_rlc : nat list res; lo_vr : (nat list * run list) res;
                  lo_dvr : run list res; lo_ro : n list res;
                  lo_rv : nat list res }

type text_obs = { to_ii : (bclass list * para_info list) res;
                  to_bi : bidi_info res; to_bi_has_rtl : bool res;
                  to_bi_dirs : direction list res;
                  to_bi_level_at : nat list list res;
                  to_bi_lines : line_obs list; to_pi : para_bidi_info res;
                  to_pi_has_rtl : bool res; to_pi_dir : direction res;
                  to_pi_lines : line_obs list; to_bd : direction res;
                  to_bdf : direction res; to_sub : bidi_info res list }

(** val para_of_line : para_info list -> (nat * nat) -> para_info res **)

let para_of_line paras line =
  match find (fun p ->
          (&&) (Nat.leb p.p_start (fst line)) (Nat.ltb (fst line) p.p_end))
          paras with
  | Some p -> Ok p
  | None -> Panic (S O)

(** val model_line :
    bool -> enc -> n list -> bclass list -> nat list -> nat res ->
    (nat * nat) -> line_obs **)

let model_line legacy e text classes levels pl line =
  let rl =
    bind pl (fun l -> reordered_levels e legacy text classes levels l line)
  in
  { lo_line = line; lo_rl = rl; lo_rlc =
  (bind pl (fun l ->
    reordered_levels_per_char e legacy text classes levels l line)); lo_vr =
  (bind rl (fun lv -> visual_runs_for_line legacy lv line)); lo_dvr =
  (bind rl (fun lv -> deprecated_visual_runs legacy line lv)); lo_ro =
  (bind pl (fun l -> reorder_line e legacy text classes levels l line));
  lo_rv =
  (bind rl (fun lv ->
    bind (slice (S (S O)) lv (fst line) (snd line)) reorder_visual)) }

(** val panic_line : (nat * nat) -> line_obs **)

let panic_line line =
  { lo_line = line; lo_rl = (Panic (S (S (S O)))); lo_rlc = (Panic (S (S (S
    O)))); lo_vr = (Panic (S (S (S O)))); lo_dvr = (Panic (S (S (S O))));
    lo_ro = (Panic (S (S (S O)))); lo_rv = (Panic (S (S (S O)))) }

(** val model_obs : bool -> tcase -> text_obs **)

let model_obs legacy c =
  let e = c.tc_enc in
  let ds = c.tc_ds in
  let text = c.tc_text in
  let bi = bidi_info_new_gen e ds legacy text c.tc_dir in
  let pi = para_bidi_info_new_gen e ds legacy text c.tc_dir in
  { to_ii =
  (bind (compute_initial_info e ds text c.tc_dir true) (fun ii -> Ok
    (ii.in_classes, ii.in_paras))); to_bi = bi; to_bi_has_rtl =
  (bind bi (fun b -> Ok (bidi_info_has_rtl b))); to_bi_dirs =
  (bind bi (fun b -> map_res (paragraph_direction b.bi_levels) b.bi_paras));
  to_bi_level_at =
  (bind bi (fun b ->
    map_res (fun p ->
      map_res (paragraph_level_at b.bi_levels p)
        (range O (sub p.p_end p.p_start))) b.bi_paras)); to_bi_lines =
  (match bi with
   | Ok b ->
     map (fun line ->
       model_line legacy e text b.bi_classes b.bi_levels
         (bind (para_of_line b.bi_paras line) (fun p -> Ok p.p_level)) line)
       c.tc_lines
   | Panic _ -> map panic_line c.tc_lines); to_pi = pi; to_pi_has_rtl =
  (bind pi (fun p -> Ok (para_bidi_info_has_rtl legacy p))); to_pi_dir =
  (bind pi (fun p -> Ok (para_direction p.pb_levels))); to_pi_lines =
  (match pi with
   | Ok p ->
     map (model_line legacy e text p.pb_classes p.pb_levels (Ok p.pb_level))
       c.tc_lines
   | Panic _ -> map panic_line c.tc_lines); to_bd = (Ok
  (get_base_direction e ds false text)); to_bdf = (Ok
  (get_base_direction e ds true text)); to_sub =
  (match bi with
   | Ok b ->
     map (fun p ->
       bind (t_subrange (S (S (S (S O)))) e text p.p_start p.p_end)
         (fun sub0 -> bidi_info_new_gen e ds legacy sub0 c.tc_dir)) b.bi_paras
   | Panic _ -> []) }

(** val model_line_given :
    bool -> enc -> n list -> bclass list -> nat list -> nat res -> line_obs
    -> line_obs **)

let model_line_given legacy e text classes levels pl given =
  let line = given.lo_line in
  let own = model_line legacy e text classes levels pl line in
  let rl_in = match given.lo_rl with
              | Ok lv -> Ok lv
              | Panic _ -> own.lo_rl in
  { lo_line = line; lo_rl = own.lo_rl; lo_rlc = own.lo_rlc; lo_vr =
  (bind rl_in (fun lv -> visual_runs_for_line legacy lv line)); lo_dvr =
  (bind rl_in (fun lv -> deprecated_visual_runs legacy line lv)); lo_ro =
  own.lo_ro; lo_rv =
  (bind rl_in (fun lv ->
    bind (slice (S (S O)) lv (fst line) (snd line)) reorder_visual)) }

(** val model_lines_bi :
    bool -> tcase -> bidi_info -> line_obs list -> line_obs list **)

let model_lines_bi legacy c b given =
  map (fun g ->
    model_line_given legacy c.tc_enc c.tc_text b.bi_classes b.bi_levels
      (bind (para_of_line b.bi_paras g.lo_line) (fun p -> Ok p.p_level)) g)
    given

(** val model_lines_pi :
    bool -> tcase -> para_bidi_info -> line_obs list -> line_obs list **)

let model_lines_pi legacy c p given =
  map
    (model_line_given legacy c.tc_enc c.tc_text p.pb_classes p.pb_levels (Ok
      p.pb_level)) given

(** val model_queries_bi :
    bool -> tcase -> bidi_info -> ((bool res * direction list res) * nat list
    list res) * bidi_info res list **)

let model_queries_bi legacy c b =
  ((((Ok (bidi_info_has_rtl b)),
    (map_res (paragraph_direction b.bi_levels) b.bi_paras)),
    (map_res (fun p ->
      map_res (paragraph_level_at b.bi_levels p)
        (range O (sub p.p_end p.p_start))) b.bi_paras)),
    (map (fun p ->
      bind
        (t_subrange (S (S (S (S O)))) c.tc_enc c.tc_text p.p_start p.p_end)
        (fun sub0 -> bidi_info_new_gen c.tc_enc c.tc_ds legacy sub0 c.tc_dir))
      b.bi_paras))

(** val model_queries_pi :
    bool -> para_bidi_info -> bool res * direction res **)

let model_queries_pi legacy p =
  ((Ok (para_bidi_info_has_rtl legacy p)), (Ok (para_direction p.pb_levels)))

(** val list_eqb2 : ('a1 -> 'a2 -> bool) -> 'a1 list -> 'a2 list -> bool **)

let rec list_eqb2 eqb0 l3 l4 =
  match l3 with
  | [] -> (match l4 with
           | [] -> true
           | _ :: _ -> false)
  | x :: t1 ->
    (match l4 with
     | [] -> false
     | y :: t2 -> (&&) (eqb0 x y) (list_eqb2 eqb0 t1 t2))

(** val nat_list_eqb : nat list -> nat list -> bool **)

let nat_list_eqb =
  list_eqb Nat.eqb

(** val cls_list_eqb : bclass list -> bclass list -> bool **)

let cls_list_eqb =
  list_eqb ceq

(** val n_list_eqb : n list -> n list -> bool **)

let n_list_eqb =
  list_eqb N.eqb

(** val run_eqb : run -> run -> bool **)

let run_eqb a b =
  (&&) (Nat.eqb (fst a) (fst b)) (Nat.eqb (snd a) (snd b))

(** val para_eqb : para_info -> para_info -> bool **)

let para_eqb a b =
  (&&) ((&&) (Nat.eqb a.p_start b.p_start) (Nat.eqb a.p_end b.p_end))
    (Nat.eqb a.p_level b.p_level)

(** val dir_eqb : direction -> direction -> bool **)

let dir_eqb a b =
  match a with
  | Ltr -> (match b with
            | Ltr -> true
            | _ -> false)
  | Rtl -> (match b with
            | Rtl -> true
            | _ -> false)
  | Mixed -> (match b with
              | Mixed -> true
              | _ -> false)

(** val okb : 'a1 res -> ('a1 -> bool) -> bool **)

let okb r p =
  match r with
  | Ok a -> p a
  | Panic _ -> false

(** val case_chars : tcase -> (n * nat) list **)

let case_chars c =
  match c.tc_enc with
  | U8 -> map (fun cp -> (cp, (len_utf8 cp))) c.tc_text
  | U16 -> decode16 c.tc_text
  | U32 -> map (fun cp -> (cp, (S O))) c.tc_text

(** val expand : nat list -> 'a1 list -> 'a1 list **)

let expand lens vals =
  flat_map (fun lv -> repeat (snd lv) (fst lv)) (combine lens vals)

(** val starts_from : nat -> nat list -> nat list **)

let rec starts_from pos = function
| [] -> []
| l :: r -> pos :: (starts_from (add pos l) r)

(** val total : nat list -> nat **)

let total lens =
  fold_left Nat.add lens O

(** val at_starts : nat list -> 'a1 list -> 'a1 option list **)

let at_starts lens v =
  map (nth_error v) (starts_from O lens)

(** val uniform : ('a1 -> 'a1 -> bool) -> nat list -> 'a1 list -> bool **)

let rec uniform eqb0 lens v =
  match lens with
  | [] -> (match v with
           | [] -> true
           | _ :: _ -> false)
  | l :: r ->
    (match firstn l v with
     | [] -> (&&) (Nat.eqb l O) (uniform eqb0 r (skipn l v))
     | x :: l0 ->
       let blk = x :: l0 in
       (&&) ((&&) (Nat.eqb (length blk) l) (forallb (eqb0 x) blk))
         (uniform eqb0 r (skipn l v)))

type spec_para = { sp_start : nat; sp_end : nat; sp_lens : nat list;
                   sp_cls : bclass list; sp_reported : bclass list;
                   sp_level : nat; sp_levels : nat list }

(** val spec_paras_from :
    datasource -> nat option -> nat -> (n * nat) list list -> spec_para list **)

let rec spec_paras_from ds dir pos = function
| [] -> []
| p :: rest ->
  let lens = map snd p in
  let cls = map (fun ch -> ds.ds_class (fst ch)) p in
  let brk = map (fun ch -> ds.ds_bracket (fst ch)) p in
  let (pl, lv) = resolve_paragraph cls brk dir in
  { sp_start = pos; sp_end = (add pos (total lens)); sp_lens = lens; sp_cls =
  cls; sp_reported = (reported_classes cls); sp_level = pl; sp_levels =
  (fill_removed pl lv) } :: (spec_paras_from ds dir (add pos (total lens))
                              rest)

(** val spec_text : tcase -> spec_para list **)

let spec_text c =
  spec_paras_from c.tc_ds c.tc_dir O
    (split_paragraphs (fun ch -> c.tc_ds.ds_class (fst ch)) (case_chars c))

(** val spec_single : tcase -> spec_para list **)

let spec_single c =
  match case_chars c with
  | [] -> []
  | p :: l -> spec_paras_from c.tc_ds c.tc_dir O ((p :: l) :: [])

(** val is_single_paragraph : tcase -> bool **)

let is_single_paragraph c =
  Nat.leb (length (spec_text c)) (S O)

(** val opt_nat_eqb : nat option -> nat -> bool **)

let opt_nat_eqb a b =
  match a with
  | Some x -> Nat.eqb x b
  | None -> false

(** val levels_follow_spec : spec_para list -> nat list -> bool **)

let levels_follow_spec sps levels =
  let lens = flat_map (fun s -> s.sp_lens) sps in
  let want = flat_map (fun s -> s.sp_levels) sps in
  (&&) (Nat.eqb (length levels) (total lens))
    (list_eqb2 opt_nat_eqb (at_starts lens levels) want)

(** val c01_judge : tcase -> text_obs -> bool **)

let c01_judge c o =
  (&&) (okb o.to_bi (fun b -> levels_follow_spec (spec_text c) b.bi_levels))
    (if is_single_paragraph c
     then okb o.to_pi (fun p ->
            levels_follow_spec (spec_single c) p.pb_levels)
     else true)

(** val paras_follow_spec : spec_para list -> para_info list -> bool **)

let paras_follow_spec sps paras =
  list_eqb2 (fun p s ->
    (&&) ((&&) (Nat.eqb p.p_start s.sp_start) (Nat.eqb p.p_end s.sp_end))
      (Nat.eqb p.p_level s.sp_level)) paras sps

(** val classes_follow_spec : spec_para list -> bclass list -> bool **)

let classes_follow_spec sps classes =
  cls_list_eqb classes
    (flat_map (fun s -> expand s.sp_lens s.sp_reported) sps)

(** val c02_judge : tcase -> text_obs -> bool **)

let c02_judge c o =
  let sps = spec_text c in
  (&&)
    ((&&)
      (okb o.to_ii (fun x ->
        (&&) (classes_follow_spec sps (fst x)) (paras_follow_spec sps (snd x))))
      (okb o.to_bi (fun b ->
        (&&) (classes_follow_spec sps b.bi_classes)
          (paras_follow_spec sps b.bi_paras))))
    (if is_single_paragraph c
     then okb o.to_pi (fun p ->
            (&&) (classes_follow_spec (spec_single c) p.pb_classes)
              (match spec_single c with
               | [] ->
                 Nat.eqb p.pb_level
                   (match c.tc_dir with
                    | Some d -> d
                    | None -> O)
               | s :: l ->
                 (match l with
                  | [] -> Nat.eqb p.pb_level s.sp_level
                  | _ :: _ ->
                    Nat.eqb p.pb_level
                      (match c.tc_dir with
                       | Some d -> d
                       | None -> O))))
     else true)

(** val chars_in :
    nat -> nat -> nat -> (n * nat) list -> (n * nat) list option **)

let rec chars_in pos a b = function
| [] -> if (||) (Nat.eqb pos b) (Nat.leb b a) then Some [] else None
| ch :: rest ->
  if Nat.ltb pos a
  then if Nat.ltb a (add pos (snd ch))
       then None
       else chars_in (add pos (snd ch)) a b rest
  else if Nat.ltb pos b
       then if Nat.ltb b (add pos (snd ch))
            then None
            else (match chars_in (add pos (snd ch)) a b rest with
                  | Some r -> Some (ch :: r)
                  | None -> None)
       else Some []

(** val l1_expected :
    tcase -> nat list -> nat -> (nat * nat) -> nat list option **)

let l1_expected c stored pl = function
| (a, b) ->
  (match chars_in O a b (case_chars c) with
   | Some lch ->
     let lens = map snd lch in
     let cls = map (fun ch -> c.tc_ds.ds_class (fst ch)) lch in
     let seg = firstn (sub b a) (skipn a stored) in
     let at_0 = at_starts lens seg in
     if forallb (fun x -> match x with
                          | Some _ -> true
                          | None -> false) at_0
     then let per_char =
            l1 pl cls
              (map (fun x -> match x with
                             | Some l -> l
                             | None -> O) at_0)
          in
          Some
          (app (firstn a stored)
            (app (expand lens per_char) (skipn b stored)))
     else None
   | None -> None)

(** val line_l1_ok : tcase -> nat list -> nat -> line_obs -> bool **)

let line_l1_ok c stored pl lo =
  match l1_expected c stored pl lo.lo_line with
  | Some want ->
    (&&) (okb lo.lo_rl (fun got -> nat_list_eqb got want))
      (okb lo.lo_rlc (fun got ->
        (&&)
          (list_eqb2 opt_nat_eqb (at_starts (map snd (case_chars c)) want)
            got) (Nat.eqb (length got) (length (case_chars c)))))
  | None -> false

(** val level_of_line : para_info list -> (nat * nat) -> nat **)

let level_of_line paras line =
  match find (fun p ->
          (&&) (Nat.leb p.p_start (fst line)) (Nat.ltb (fst line) p.p_end))
          paras with
  | Some p -> p.p_level
  | None -> O

(** val c03_judge : tcase -> text_obs -> bool **)

let c03_judge c o =
  (&&)
    (okb o.to_bi (fun b ->
      forallb (fun lo ->
        line_l1_ok c b.bi_levels (level_of_line b.bi_paras lo.lo_line) lo)
        o.to_bi_lines))
    (okb o.to_pi (fun p ->
      forallb (line_l1_ok c p.pb_levels p.pb_level) o.to_pi_lines))

(** val c04_judge_levels : nat list -> nat list res -> bool **)

let c04_judge_levels lv out =
  okb out (fun got ->
    (&&) (nat_list_eqb got (l2 lv)) (Nat.eqb (length got) (length lv)))

(** val line_rv_ok : line_obs -> bool **)

let line_rv_ok lo =
  match lo.lo_rl with
  | Ok lv ->
    let (a, b) = lo.lo_line in
    c04_judge_levels (firstn (sub b a) (skipn a lv)) lo.lo_rv
  | Panic _ -> false

(** val c04_judge : tcase -> text_obs -> bool **)

let c04_judge _ o =
  (&&) (forallb line_rv_ok o.to_bi_lines) (forallb line_rv_ok o.to_pi_lines)

(** val runs_cover : nat -> nat -> run list -> bool **)

let runs_cover a b runs =
  let sorted =
    fold_left (fun acc r ->
      let rec ins l = match l with
      | [] -> r :: []
      | q :: t -> if Nat.ltb (fst r) (fst q) then r :: l else q :: (ins t)
      in ins acc) runs []
  in
  let rec go pos = function
  | [] -> Nat.eqb pos b
  | r :: t ->
    (&&) ((&&) (Nat.eqb (fst r) pos) (Nat.ltb (fst r) (snd r))) (go (snd r) t)
  in go a sorted

(** val run_uniform_maximal : nat -> nat -> nat list -> run -> bool **)

let run_uniform_maximal a b lv r =
  match nth_error lv (fst r) with
  | Some l ->
    (&&)
      ((&&)
        (forallb (fun i -> opt_nat_eqb (nth_error lv i) l)
          (range (fst r) (snd r)))
        ((||) (Nat.eqb (fst r) a)
          (negb (opt_nat_eqb (nth_error lv (sub (fst r) (S O))) l))))
      ((||) (Nat.eqb (snd r) b) (negb (opt_nat_eqb (nth_error lv (snd r)) l)))
  | None -> false

(** val runs_visual_order : nat -> nat -> nat list -> run list -> nat list **)

let runs_visual_order _ _ lv runs =
  flat_map (fun r ->
    match nth_error lv (fst r) with
    | Some l ->
      if Nat.odd l then rev (range (fst r) (snd r)) else range (fst r) (snd r)
    | None -> []) runs

(** val line_runs_ok : line_obs -> bool **)

let line_runs_ok lo =
  let (a, b) = lo.lo_line in
  (match lo.lo_rl with
   | Ok rl ->
     (match lo.lo_vr with
      | Ok a0 ->
        let (lv, runs) = a0 in
        (&&)
          ((&&)
            ((&&) ((&&) (nat_list_eqb lv rl) (runs_cover a b runs))
              (forallb (run_uniform_maximal a b lv) runs))
            (nat_list_eqb (runs_visual_order a b lv runs)
              (map (fun i -> add a i) (l2 (firstn (sub b a) (skipn a lv))))))
          (okb lo.lo_dvr (fun d -> list_eqb run_eqb d runs))
      | Panic _ -> false)
   | Panic _ -> false)

(** val c05_judge : tcase -> text_obs -> bool **)

let c05_judge _ o =
  (&&) (forallb line_runs_ok o.to_bi_lines)
    (forallb line_runs_ok o.to_pi_lines)

(** val encode_chars : enc -> n list -> n list **)

let encode_chars e chs =
  match e with
  | U16 -> flat_map encode_utf16 chs
  | _ -> chs

(** val reorder_expected :
    tcase -> nat list -> nat -> (nat * nat) -> n list option **)

let reorder_expected c stored pl = function
| (a, b) ->
  (match chars_in O a b (case_chars c) with
   | Some lch ->
     let lens = map snd lch in
     let cls = map (fun ch -> c.tc_ds.ds_class (fst ch)) lch in
     let seg = firstn (sub b a) (skipn a stored) in
     let per_char =
       l1 pl cls
         (map (fun x -> match x with
                        | Some l -> l
                        | None -> O) (at_starts lens seg))
     in
     Some
     (encode_chars c.tc_enc
       (map (fun i -> fst (nth i lch (N0, O))) (l2 per_char)))
   | None -> None)

(** val unpaired_free : tcase -> bool **)

let unpaired_free c =
  match c.tc_enc with
  | U16 ->
    (||) (forallb (fun u -> negb ((||) (is_hi u) (is_lo u))) c.tc_text)
      (n_list_eqb
        (flat_map (fun ch -> encode_utf16 (fst ch)) (decode16 c.tc_text))
        c.tc_text)
  | _ -> true

(** val line_reorder_ok : tcase -> nat list -> nat -> line_obs -> bool **)

let line_reorder_ok c stored pl lo =
  match reorder_expected c stored pl lo.lo_line with
  | Some want -> okb lo.lo_ro (fun got -> n_list_eqb got want)
  | None -> false

(** val c06_judge : tcase -> text_obs -> bool **)

let c06_judge c o =
  if negb (unpaired_free c)
  then true
  else (&&)
         (okb o.to_bi (fun b ->
           forallb (fun lo ->
             line_reorder_ok c b.bi_levels
               (level_of_line b.bi_paras lo.lo_line) lo) o.to_bi_lines))
         (okb o.to_pi (fun p ->
           forallb (line_reorder_ok c p.pb_levels p.pb_level) o.to_pi_lines))

(** val line_no_panic : line_obs -> bool **)

let line_no_panic lo =
  (&&)
    ((&&)
      ((&&) ((&&) ((&&) (is_ok lo.lo_rl) (is_ok lo.lo_rlc)) (is_ok lo.lo_vr))
        (is_ok lo.lo_dvr)) (is_ok lo.lo_ro)) (is_ok lo.lo_rv)

(** val c07_judge : tcase -> text_obs -> bool **)

let c07_judge _ o =
  (&&)
    ((&&)
      ((&&)
        ((&&)
          ((&&)
            ((&&)
              ((&&)
                ((&&)
                  ((&&)
                    ((&&)
                      ((&&) ((&&) (is_ok o.to_ii) (is_ok o.to_bi))
                        (is_ok o.to_bi_has_rtl)) (is_ok o.to_bi_dirs))
                    (is_ok o.to_bi_level_at))
                  (forallb line_no_panic o.to_bi_lines)) (is_ok o.to_pi))
              (is_ok o.to_pi_has_rtl)) (is_ok o.to_pi_dir))
          (forallb line_no_panic o.to_pi_lines)) (is_ok o.to_bd))
      (is_ok o.to_bdf)) (forallb is_ok o.to_sub)

(** val levels_bounded : para_info list -> nat list -> bool **)

let levels_bounded paras levels =
  forallb (fun p ->
    forallb (fun i ->
      match nth_error levels i with
      | Some l ->
        (&&) (Nat.leb p.p_level l)
          (Nat.leb l (S (S (S (S (S (S (S (S (S (S (S (S (S (S (S (S (S (S (S
            (S (S (S (S (S (S (S (S (S (S (S (S (S (S (S (S (S (S (S (S (S (S
            (S (S (S (S (S (S (S (S (S (S (S (S (S (S (S (S (S (S (S (S (S (S
            (S (S (S (S (S (S (S (S (S (S (S (S (S (S (S (S (S (S (S (S (S (S
            (S (S (S (S (S (S (S (S (S (S (S (S (S (S (S (S (S (S (S (S (S (S
            (S (S (S (S (S (S (S (S (S (S (S (S (S (S (S (S (S (S (S
            O)))))))))))))))))))))))))))))))))))))))))))))))))))))))))))))))))))))))))))))))))))))))))))))))))))))))))))))))))))))))))))))))
      | None -> false) (range p.p_start p.p_end)) paras

(** val c08_judge : tcase -> text_obs -> bool **)

let c08_judge c o =
  let lens = map snd (case_chars c) in
  (&&)
    ((&&)
      ((&&) (okb o.to_ii (fun x -> uniform ceq lens (fst x)))
        (okb o.to_bi (fun b ->
          (&&)
            ((&&) (uniform ceq lens b.bi_classes)
              (uniform Nat.eqb lens b.bi_levels))
            (levels_bounded b.bi_paras b.bi_levels))))
      (okb o.to_pi (fun p ->
        (&&)
          ((&&) (uniform ceq lens p.pb_classes)
            (uniform Nat.eqb lens p.pb_levels))
          (forallb (fun l ->
            (&&) (Nat.leb p.pb_level l)
              (Nat.leb l (S (S (S (S (S (S (S (S (S (S (S (S (S (S (S (S (S
                (S (S (S (S (S (S (S (S (S (S (S (S (S (S (S (S (S (S (S (S
                (S (S (S (S (S (S (S (S (S (S (S (S (S (S (S (S (S (S (S (S
                (S (S (S (S (S (S (S (S (S (S (S (S (S (S (S (S (S (S (S (S
                (S (S (S (S (S (S (S (S (S (S (S (S (S (S (S (S (S (S (S (S
                (S (S (S (S (S (S (S (S (S (S (S (S (S (S (S (S (S (S (S (S
                (S (S (S (S (S (S (S (S (S
                O))))))))))))))))))))))))))))))))))))))))))))))))))))))))))))))))))))))))))))))))))))))))))))))))))))))))))))))))))))))))))))))))
            p.pb_levels))))
    (forallb (fun lo ->
      (&&) (okb lo.lo_rl (uniform Nat.eqb lens))
        (okb lo.lo_rlc (fun v -> Nat.eqb (length v) (length lens))))
      (app o.to_bi_lines o.to_pi_lines))

(** val res_eqb : ('a1 -> 'a1 -> bool) -> 'a1 res -> 'a1 res -> bool **)

let res_eqb eqb0 x y =
  match x with
  | Ok a -> (match y with
             | Ok b -> eqb0 a b
             | Panic _ -> false)
  | Panic _ -> (match y with
                | Ok _ -> false
                | Panic _ -> true)

(** val line_obs_eqb : line_obs -> line_obs -> bool **)

let line_obs_eqb x y =
  (&&)
    ((&&)
      ((&&) (res_eqb nat_list_eqb x.lo_rl y.lo_rl)
        (res_eqb nat_list_eqb x.lo_rlc y.lo_rlc))
      (res_eqb (fun a b ->
        (&&) (nat_list_eqb (fst a) (fst b)) (list_eqb run_eqb (snd a) (snd b)))
        x.lo_vr y.lo_vr)) (res_eqb n_list_eqb x.lo_ro y.lo_ro)

(** val c10_judge : tcase -> text_obs -> bool **)

let c10_judge c o =
  okb o.to_bi (fun b ->
    (&&)
      ((&&) (Nat.eqb (length o.to_sub) (length b.bi_paras))
        (forallb (fun ps ->
          let (p, s) = ps in
          okb s (fun sb ->
            (&&)
              ((&&)
                (cls_list_eqb sb.bi_classes
                  (firstn (sub p.p_end p.p_start)
                    (skipn p.p_start b.bi_classes)))
                (nat_list_eqb sb.bi_levels
                  (firstn (sub p.p_end p.p_start)
                    (skipn p.p_start b.bi_levels))))
              (match sb.bi_paras with
               | [] -> false
               | q :: l ->
                 (match l with
                  | [] ->
                    (&&)
                      ((&&) (Nat.eqb q.p_start O)
                        (Nat.eqb q.p_end (sub p.p_end p.p_start)))
                      (Nat.eqb q.p_level p.p_level)
                  | _ :: _ -> false)))) (combine b.bi_paras o.to_sub)))
      (if is_single_paragraph c
       then (&&)
              (okb o.to_pi (fun p ->
                (&&)
                  ((&&) (cls_list_eqb p.pb_classes b.bi_classes)
                    (nat_list_eqb p.pb_levels b.bi_levels))
                  (match b.bi_paras with
                   | [] -> (match c.tc_text with
                            | [] -> true
                            | _ :: _ -> false)
                   | q :: l ->
                     (match l with
                      | [] -> Nat.eqb p.pb_level q.p_level
                      | _ :: _ ->
                        (match c.tc_text with
                         | [] -> true
                         | _ :: _ -> false)))))
              (list_eqb line_obs_eqb o.to_bi_lines o.to_pi_lines)
       else true))

(** val x_overflows :
    bclass list -> nat -> xstate -> nat -> bclass list -> bool **)

let rec x_overflows cls0 pl s i = function
| [] -> false
| c0 :: rest ->
  let (p, _) = x_step cls0 pl s i c0 in
  let (s', _) = p in
  (||) ((||) (Nat.ltb O s'.x_oi) (Nat.ltb O s'.x_oe))
    (x_overflows cls0 pl s' (S i) rest)

(** val reaches_limits : datasource -> spec_para -> (n * nat) list -> bool **)

let reaches_limits _ sp _ =
  x_overflows sp.sp_cls sp.sp_level { x_stack = (((sp.sp_level, ONone),
    false) :: []); x_oi = O; x_oe = O; x_vi = O } O sp.sp_cls

(** val many_brackets : tcase -> bool **)

let many_brackets c =
  Nat.leb (S (S (S (S (S (S (S (S (S (S (S (S (S (S (S (S (S (S (S (S (S (S
    (S (S (S (S (S (S (S (S (S (S (S (S (S (S (S (S (S (S (S (S (S (S (S (S
    (S (S (S (S (S (S (S (S (S (S (S (S (S (S (S (S (S
    O)))))))))))))))))))))))))))))))))))))))))))))))))))))))))))))))
    (length
      (filter (fun ch ->
        match c.tc_ds.ds_bracket (fst ch) with
        | Some p -> let (_, b) = p in b
        | None -> false) (case_chars c)))

(** val case_reaches_limits : tcase -> bool **)

let case_reaches_limits c =
  (||) (many_brackets c)
    (existsb (fun sp -> reaches_limits c.tc_ds sp []) (spec_text c))

(** val c11_judge : tcase -> text_obs -> bool **)

let c11_judge c o =
  (&&)
    ((&&)
      (okb o.to_bi (fun b ->
        forallb (fun l ->
          Nat.leb l (S (S (S (S (S (S (S (S (S (S (S (S (S (S (S (S (S (S (S
            (S (S (S (S (S (S (S (S (S (S (S (S (S (S (S (S (S (S (S (S (S (S
            (S (S (S (S (S (S (S (S (S (S (S (S (S (S (S (S (S (S (S (S (S (S
            (S (S (S (S (S (S (S (S (S (S (S (S (S (S (S (S (S (S (S (S (S (S
            (S (S (S (S (S (S (S (S (S (S (S (S (S (S (S (S (S (S (S (S (S (S
            (S (S (S (S (S (S (S (S (S (S (S (S (S (S (S (S (S (S (S
            O)))))))))))))))))))))))))))))))))))))))))))))))))))))))))))))))))))))))))))))))))))))))))))))))))))))))))))))))))))))))))))))))
          b.bi_levels))
      (okb o.to_pi (fun p ->
        forallb (fun l ->
          Nat.leb l (S (S (S (S (S (S (S (S (S (S (S (S (S (S (S (S (S (S (S
            (S (S (S (S (S (S (S (S (S (S (S (S (S (S (S (S (S (S (S (S (S (S
            (S (S (S (S (S (S (S (S (S (S (S (S (S (S (S (S (S (S (S (S (S (S
            (S (S (S (S (S (S (S (S (S (S (S (S (S (S (S (S (S (S (S (S (S (S
            (S (S (S (S (S (S (S (S (S (S (S (S (S (S (S (S (S (S (S (S (S (S
            (S (S (S (S (S (S (S (S (S (S (S (S (S (S (S (S (S (S (S
            O)))))))))))))))))))))))))))))))))))))))))))))))))))))))))))))))))))))))))))))))))))))))))))))))))))))))))))))))))))))))))))))))
          p.pb_levels)))
    (if case_reaches_limits c then c01_judge c o else true)

(** val spec_direction : bclass list -> direction **)

let spec_direction cls =
  match first_strong cls O (length cls) with
  | Some b -> (match b with
               | L -> Ltr
               | _ -> Rtl)
  | None -> Mixed

(** val c16_judge : tcase -> text_obs -> bool **)

let c16_judge c o =
  let paras =
    map (map (fun ch -> c.tc_ds.ds_class (fst ch)))
      (split_paragraphs (fun ch -> c.tc_ds.ds_class (fst ch)) (case_chars c))
  in
  let want = match paras with
             | [] -> Mixed
             | p :: _ -> spec_direction p in
  let want_full =
    match find (fun p -> negb (dir_eqb (spec_direction p) Mixed)) paras with
    | Some p -> spec_direction p
    | None -> Mixed
  in
  (&&)
    ((&&) (okb o.to_bd (fun d -> dir_eqb d want))
      (okb o.to_bdf (fun d -> dir_eqb d want_full)))
    (match c.tc_dir with
     | Some _ -> true
     | None ->
       okb o.to_bi (fun b ->
         match want with
         | Ltr ->
           (match b.bi_paras with
            | [] -> true
            | p :: _ -> Nat.eqb p.p_level O)
         | Rtl ->
           (match b.bi_paras with
            | [] -> true
            | p :: _ -> Nat.eqb p.p_level (S O))
         | Mixed -> true))

(** val line_text : tcase -> (nat * nat) -> n list option **)

let line_text c line =
  match c.tc_enc with
  | U16 ->
    Some (firstn (sub (snd line) (fst line)) (skipn (fst line) c.tc_text))
  | _ ->
    option_map (map fst) (chars_in O (fst line) (snd line) (case_chars c))

(** val all_even : nat list -> bool **)

let all_even l =
  forallb Nat.even l

(** val all_odd : nat list -> bool **)

let all_odd l =
  forallb Nat.odd l

(** val direction_ok' : nat list -> direction -> bool **)

let direction_ok' lv d =
  match lv with
  | [] -> (match d with
           | Mixed -> false
           | _ -> true)
  | _ :: _ ->
    (match d with
     | Ltr -> all_even lv
     | Rtl -> all_odd lv
     | Mixed -> (&&) (negb (all_even lv)) (negb (all_odd lv)))

(** val c17_judge : tcase -> text_obs -> bool **)

let c17_judge c o =
  (&&)
    (okb o.to_bi (fun b ->
      (&&)
        ((&&)
          (okb o.to_bi_dirs (fun ds_ ->
            (&&) (Nat.eqb (length ds_) (length b.bi_paras))
              (forallb (fun pd ->
                direction_ok'
                  (firstn (sub (fst pd).p_end (fst pd).p_start)
                    (skipn (fst pd).p_start b.bi_levels)) (snd pd))
                (combine b.bi_paras ds_))))
          (okb o.to_bi_level_at (fun la ->
            (&&) (Nat.eqb (length la) (length b.bi_paras))
              (forallb (fun pl ->
                nat_list_eqb (snd pl)
                  (firstn (sub (fst pl).p_end (fst pl).p_start)
                    (skipn (fst pl).p_start b.bi_levels)))
                (combine b.bi_paras la)))))
        (okb o.to_bi_has_rtl (fun h -> eqb h (existsb Nat.odd b.bi_levels)))))
    (okb o.to_pi (fun p ->
      (&&) (okb o.to_pi_dir (direction_ok' p.pb_levels))
        (okb o.to_pi_has_rtl (fun h ->
          if h
          then true
          else (&&) (negb (existsb Nat.odd p.pb_levels))
                 (forallb (fun lo ->
                   match line_text c lo.lo_line with
                   | Some want ->
                     okb lo.lo_ro (fun got -> n_list_eqb got want)
                   | None -> false) o.to_pi_lines)))))

(** val opt_eqb : ('a1 -> 'a1 -> bool) -> 'a1 option -> 'a1 option -> bool **)

let opt_eqb eqb0 a b =
  match a with
  | Some x -> (match b with
               | Some y -> eqb0 x y
               | None -> false)
  | None -> (match b with
             | Some _ -> false
             | None -> true)

(** val unit_to_char_from : nat -> nat -> nat list -> nat -> nat option **)

let rec unit_to_char_from k pos lens u =
  if Nat.eqb pos u
  then Some k
  else (match lens with
        | [] -> None
        | l :: r -> unit_to_char_from (S k) (add pos l) r u)

(** val unit_to_char : nat list -> nat -> nat option **)

let unit_to_char lens u =
  unit_to_char_from O O lens u

(** val char_range : nat list -> (nat * nat) -> (nat * nat) option **)

let char_range lens r =
  match unit_to_char lens (fst r) with
  | Some a ->
    (match unit_to_char lens (snd r) with
     | Some b -> Some (a, b)
     | None -> None)
  | None -> None

(** val opt_run_eqb : run option -> run option -> bool **)

let opt_run_eqb =
  opt_eqb run_eqb

(** val res_rel : ('a1 -> 'a2 -> bool) -> 'a1 res -> 'a2 res -> bool **)

let res_rel rel x y =
  match x with
  | Ok a -> (match y with
             | Ok b -> rel a b
             | Panic _ -> false)
  | Panic _ -> (match y with
                | Ok _ -> false
                | Panic _ -> true)

(** val line_agree :
    nat list -> nat list -> bool -> line_obs -> line_obs -> bool **)

let line_agree l16 l8 wf x16 x8 =
  (&&)
    ((&&)
      ((&&)
        ((&&)
          (opt_run_eqb (char_range l16 x16.lo_line)
            (char_range l8 x8.lo_line))
          (res_rel nat_list_eqb x16.lo_rlc x8.lo_rlc))
        (res_rel (fun a b ->
          list_eqb (opt_eqb Nat.eqb) (at_starts l16 a) (at_starts l8 b))
          x16.lo_rl x8.lo_rl))
      (res_rel (fun a b ->
        list_eqb opt_run_eqb (map (char_range l16) (snd a))
          (map (char_range l8) (snd b))) x16.lo_vr x8.lo_vr))
    (res_rel (fun a b ->
      (&&) (n_list_eqb (map fst (decode16 a)) b)
        (if wf then n_list_eqb a (flat_map encode_utf16 b) else true))
      x16.lo_ro x8.lo_ro)

(** val para_agree :
    nat list -> nat list -> para_info -> para_info -> bool **)

let para_agree l16 l8 p q =
  (&&)
    (opt_run_eqb (char_range l16 (p.p_start, p.p_end))
      (char_range l8 (q.p_start, q.p_end))) (Nat.eqb p.p_level q.p_level)

(** val c09_judge : tcase -> text_obs -> tcase -> text_obs -> bool **)

let c09_judge c16 o16 c8 o8 =
  let l16 = map snd (case_chars c16) in
  let l8 = map snd (case_chars c8) in
  let wf = unpaired_free c16 in
  (&&)
    ((&&)
      ((&&)
        ((&&)
          ((&&)
            ((&&)
              ((&&)
                ((&&)
                  ((&&)
                    ((&&)
                      ((&&)
                        (n_list_eqb (map fst (case_chars c16))
                          (map fst (case_chars c8)))
                        (res_rel (fun a b ->
                          (&&)
                            (list_eqb (opt_eqb ceq) (at_starts l16 (fst a))
                              (at_starts l8 (fst b)))
                            (list_eqb2 (para_agree l16 l8) (snd a) (snd b)))
                          o16.to_ii o8.to_ii))
                      (res_rel (fun a b ->
                        (&&)
                          ((&&)
                            (list_eqb (opt_eqb ceq)
                              (at_starts l16 a.bi_classes)
                              (at_starts l8 b.bi_classes))
                            (list_eqb (opt_eqb Nat.eqb)
                              (at_starts l16 a.bi_levels)
                              (at_starts l8 b.bi_levels)))
                          (list_eqb2 (para_agree l16 l8) a.bi_paras
                            b.bi_paras)) o16.to_bi o8.to_bi))
                    (res_rel eqb o16.to_bi_has_rtl o8.to_bi_has_rtl))
                  (res_rel (list_eqb dir_eqb) o16.to_bi_dirs o8.to_bi_dirs))
                (list_eqb2 (line_agree l16 l8 wf) o16.to_bi_lines
                  o8.to_bi_lines))
              (res_rel (fun a b ->
                (&&)
                  ((&&)
                    ((&&)
                      (list_eqb (opt_eqb ceq) (at_starts l16 a.pb_classes)
                        (at_starts l8 b.pb_classes))
                      (list_eqb (opt_eqb Nat.eqb) (at_starts l16 a.pb_levels)
                        (at_starts l8 b.pb_levels)))
                    (Nat.eqb a.pb_level b.pb_level)) (eqb a.pb_pure b.pb_pure))
                o16.to_pi o8.to_pi))
            (res_rel eqb o16.to_pi_has_rtl o8.to_pi_has_rtl))
          (res_rel dir_eqb o16.to_pi_dir o8.to_pi_dir))
        (list_eqb2 (line_agree l16 l8 wf) o16.to_pi_lines o8.to_pi_lines))
      (res_rel dir_eqb o16.to_bd o8.to_bd))
    (res_rel dir_eqb o16.to_bdf o8.to_bdf)

(** val lastn : nat -> 'a1 list -> 'a1 list **)

let lastn n0 l =
  skipn (sub (length l) n0) l

(** val c13_judge : nat -> nat -> text_obs -> text_obs -> bool **)

let c13_judge pu su o1 o2 =
  (&&)
    (res_rel (fun a b ->
      (&&)
        ((&&)
          ((&&)
            ((&&)
              (nat_list_eqb (firstn pu a.bi_levels) (firstn pu b.bi_levels))
              (nat_list_eqb (lastn su a.bi_levels) (lastn su b.bi_levels)))
            (Nat.leb (add pu su) (length a.bi_levels)))
          (Nat.leb (add pu su) (length b.bi_levels)))
        (nat_list_eqb (map (fun p -> p.p_level) a.bi_paras)
          (map (fun p -> p.p_level) b.bi_paras))) o1.to_bi o2.to_bi)
    (res_rel (fun a b ->
      (&&)
        ((&&) (nat_list_eqb (firstn pu a.pb_levels) (firstn pu b.pb_levels))
          (nat_list_eqb (lastn su a.pb_levels) (lastn su b.pb_levels)))
        (Nat.eqb a.pb_level b.pb_level)) o1.to_pi o2.to_pi)

(** val char_at_spec : (n * nat) list -> nat -> (n * nat) option **)

let rec char_at_spec dec i =
  match dec with
  | [] -> None
  | p :: r ->
    let (c, l) = p in
    if Nat.eqb i O
    then Some (c, l)
    else if Nat.ltb i l then None else char_at_spec r (sub i l)

(** val deque_run : n list -> bool list -> n option list **)

let rec deque_run chars = function
| [] -> []
| b :: r ->
  if b
  then (match chars with
        | [] -> None :: (deque_run chars r)
        | c :: cs -> (Some c) :: (deque_run cs r))
  else (match rev chars with
        | [] -> None :: (deque_run chars r)
        | c :: cs -> (Some c) :: (deque_run (rev cs) r))

(** val iter16_run :
    bool -> n list -> (nat * nat) -> bool list -> n option list res **)

let rec iter16_run legacy t st = function
| [] -> Ok []
| b :: r ->
  if b
  then let (x, st') =
         if legacy then chars16_next_legacy t st else chars16_next t st
       in
       bind (iter16_run legacy t st' r) (fun rest -> Ok (x :: rest))
  else bind (chars16_next_back t st) (fun xs ->
         bind (iter16_run legacy t (snd xs) r) (fun rest -> Ok
           ((fst xs) :: rest)))

(** val iter16_program : bool -> n list -> bool list -> n option list res **)

let iter16_program legacy t ops =
  iter16_run legacy t (chars16_new t) ops

(** val c18_iter_judge : n list -> bool list -> n option list res -> bool **)

let c18_iter_judge t ops out =
  okb out (fun got ->
    list_eqb (opt_eqb N.eqb) got (deque_run (map fst (decode16 t)) ops))

(** val lI_check : tcase -> bool **)

let lI_check c =
  let chars = case_chars c in
  let lens = map snd chars in
  let cps = map fst chars in
  let us = fun i -> fold_left Nat.add (firstn i lens) O in
  (&&)
    (match bidi_info_new c.tc_enc c.tc_ds c.tc_text c.tc_dir with
     | Ok b ->
       (match bidi_info_new U32 c.tc_ds cps c.tc_dir with
        | Ok b' ->
          (&&)
            ((&&) (cls_list_eqb b.bi_classes (expand lens b'.bi_classes))
              (nat_list_eqb b.bi_levels (expand lens b'.bi_levels)))
            (list_eqb para_eqb b.bi_paras
              (map (fun p -> { p_start = (us p.p_start); p_end =
                (us p.p_end); p_level = p.p_level }) b'.bi_paras))
        | Panic _ -> false)
     | Panic _ ->
       (match bidi_info_new U32 c.tc_ds cps c.tc_dir with
        | Ok _ -> false
        | Panic _ -> true))
    (match para_bidi_info_new c.tc_enc c.tc_ds c.tc_text c.tc_dir with
     | Ok p ->
       (match para_bidi_info_new U32 c.tc_ds cps c.tc_dir with
        | Ok p' ->
          (&&)
            ((&&)
              ((&&) (cls_list_eqb p.pb_classes (expand lens p'.pb_classes))
                (nat_list_eqb p.pb_levels (expand lens p'.pb_levels)))
              (Nat.eqb p.pb_level p'.pb_level)) (eqb p.pb_pure p'.pb_pure)
        | Panic _ -> false)
     | Panic _ ->
       (match para_bidi_info_new U32 c.tc_ds cps c.tc_dir with
        | Ok _ -> false
        | Panic _ -> true))

(** val seq_idx : irs -> nat list **)

let seq_idx sq =
  flat_map run_range sq.irs_runs

(** val live : bclass list -> nat -> bool **)

let live oc i =
  not_removed_by_x9 (nth i oc BN)

(** val live_idx : bclass list -> irs -> nat list **)

let live_idx oc sq =
  filter (live oc) (seq_idx sq)

(** val at_ : 'a1 -> 'a1 list -> nat list -> 'a1 list **)

let at_ d v l =
  map (fun i -> nth i v d) l

(** val transparent_from : bclass list -> bclass list -> nat list -> bool **)

let rec transparent_from oc v = function
| [] -> true
| j :: r ->
  (&&)
    (if live oc j
     then true
     else let c = nth j v BN in
          (||) ((||) (ceq c BN) (ceq c ON))
            (match find (live oc) r with
             | Some j' -> ceq (nth j' v BN) c
             | None -> false)) (transparent_from oc v r)

(** val transparent : bclass list -> bclass list -> irs -> bool **)

let transparent oc v sq =
  transparent_from oc v (seq_idx sq)

(** val bn_exact : bclass list -> bclass list -> irs -> bool **)

let bn_exact oc pc sq =
  forallb (fun i -> eqb (ceq (nth i pc BN) BN) (negb (live oc i)))
    (seq_idx sq)

(** val sq_weak_spec : bclass list -> bclass list -> irs -> bclass list **)

let sq_weak_spec oc pc sq =
  weak sq.irs_sos (at_ BN pc (live_idx oc sq))

(** val sq_ecls : nat list -> irs -> bclass **)

let sq_ecls lv sq =
  level_class (nth (match sq.irs_runs with
                    | [] -> O
                    | r0 :: _ -> fst r0) lv O)

(** val sq_neutral_spec :
    datasource -> n list -> bclass list -> nat list -> bclass list -> irs ->
    bclass list **)

let sq_neutral_spec ds cps oc lv pc1 sq =
  let li = live_idx oc sq in
  let t1 = at_ BN pc1 li in
  let brks = map (fun i -> ds.ds_bracket (nth i cps N0)) li in
  let onsm = map (fun i -> ceq (nth i oc BN) NSM) li in
  let ecls = sq_ecls lv sq in
  neutral sq.irs_sos sq.irs_eos ecls
    (fold_left (n0_one sq.irs_sos ecls onsm) (bracket_pairs t1 brks) t1)

(** val nonempty : 'a1 list -> bool **)

let nonempty = function
| [] -> false
| _ :: _ -> true

(** val runs_live : bclass list -> run list -> nat list list **)

let runs_live oc runs =
  filter nonempty (map (fun r -> filter (live oc) (run_range r)) runs)

(** val nat_ll_eqb : nat list list -> nat list list -> bool **)

let nat_ll_eqb =
  list_eqb (list_eqb Nat.eqb)

(** val runs_bd7 :
    bclass list -> nat option list -> bclass list -> nat list -> run list ->
    bool **)

let runs_bd7 cls0 xlev oc lv runs =
  (&&)
    ((&&) (nat_ll_eqb (runs_live oc runs) (level_runs xlev (remaining cls0)))
      (forallb (fun r ->
        forallb (fun i ->
          match nth i xlev None with
          | Some l -> Nat.eqb l (nth (fst r) lv O)
          | None -> false) (filter (live oc) (run_range r))) runs))
    (forallb (fun r -> live oc (fst r)) (tl runs))

type seq3 = (nat list * bclass) * bclass

(** val seq3_eqb : seq3 -> seq3 -> bool **)

let seq3_eqb a b =
  (&&)
    ((&&) (list_eqb Nat.eqb (fst (fst a)) (fst (fst b)))
      (ceq (snd (fst a)) (snd (fst b)))) (ceq (snd a) (snd b))

(** val insert_seq3 : seq3 -> seq3 list -> seq3 list **)

let rec insert_seq3 x l = match l with
| [] -> x :: []
| y :: r ->
  if Nat.ltb (hd O (fst (fst x))) (hd O (fst (fst y)))
  then x :: l
  else y :: (insert_seq3 x r)

(** val sort_seq3 : seq3 list -> seq3 list **)

let sort_seq3 l =
  fold_left (fun acc x -> insert_seq3 x acc) l []

(** val model_seq3 : bclass list -> irs list -> seq3 list **)

let model_seq3 oc seqs =
  filter (fun t -> nonempty (fst (fst t)))
    (map (fun sq -> (((live_idx oc sq), sq.irs_sos), sq.irs_eos)) seqs)

(** val spec_seq3 : bclass list -> nat option list -> nat -> seq3 list **)

let spec_seq3 cls0 xlev pl =
  let idx = remaining cls0 in
  map (fun s -> ((s, (seq_sos xlev pl idx s)), (seq_eos cls0 xlev pl idx s)))
    (isolating_sequences cls0 xlev)

(** val map2_implicit : nat list -> bclass list -> nat list **)

let rec map2_implicit lv pc =
  match lv with
  | [] -> []
  | l :: lr ->
    (match pc with
     | [] -> []
     | c :: cr -> (implicit_level l c) :: (map2_implicit lr cr))

(** val stage_check_seqs :
    datasource -> n list -> bclass list -> nat list -> bclass list -> irs
    list -> (nat, bclass list) sum **)

let rec stage_check_seqs ds cps oc lv pc = function
| [] -> Inr pc
| sq :: rest ->
  if negb (bn_exact oc pc sq)
  then Inl (S (S (S (S (S (S (S (S (S (S O))))))))))
  else if negb (forallb not_removed_by_x9 (at_ BN pc (live_idx oc sq)))
       then Inl (S (S (S (S (S (S (S (S (S (S (S (S (S (S (S (S
              O))))))))))))))))
       else (match resolve_weak U32 cps sq pc with
             | Ok pc1 ->
               if negb
                    (cls_list_eqb (at_ BN pc1 (live_idx oc sq))
                      (sq_weak_spec oc pc sq))
               then Inl (S (S (S (S (S (S (S (S (S (S (S (S O))))))))))))
               else if negb (transparent oc pc1 sq)
                    then Inl (S (S (S (S (S (S (S (S (S (S (S (S (S
                           O)))))))))))))
                    else if negb
                              (forallb (fun c ->
                                (||) (is_ni c)
                                  (match strong_dir c with
                                   | Some _ -> true
                                   | None -> false))
                                (at_ BN pc1 (live_idx oc sq)))
                         then Inl (S (S (S (S (S (S (S (S (S (S (S (S (S (S
                                (S (S (S O)))))))))))))))))
                         else (match resolve_neutral U32 ds cps sq lv oc pc1 with
                               | Ok pc2 ->
                                 if negb
                                      (cls_list_eqb
                                        (at_ BN pc2 (live_idx oc sq))
                                        (sq_neutral_spec ds cps oc lv pc1 sq))
                                 then Inl (S (S (S (S (S (S (S (S (S (S (S (S
                                        (S (S (S O)))))))))))))))
                                 else stage_check_seqs ds cps oc lv pc2 rest
                               | Panic _ ->
                                 Inl (S (S (S (S (S (S (S (S (S (S (S (S (S
                                   (S O)))))))))))))))
             | Panic _ -> Inl (S (S (S (S (S (S (S (S (S (S (S O))))))))))))

(** val stage_check_para : datasource -> n list -> nat option -> nat **)

let stage_check_para ds cps dir =
  let cls0 = map ds.ds_class cps in
  let brk = map ds.ds_bracket cps in
  let k = length cps in
  let pl = para_level cls0 dir in
  let oc = reported_classes cls0 in
  let (xlev, _) = explicit_levels cls0 pl in
  (match explicit_compute U32 cps pl oc (repeat pl k) oc with
   | Ok a ->
     let (p, runs) = a in
     let (lv, pc0) = p in
     if negb (runs_bd7 cls0 xlev oc lv runs)
     then S (S O)
     else let check_with = fun has_iso ->
            match isolating_run_sequences pl oc lv runs has_iso with
            | Ok seqs ->
              if negb
                   (list_eqb seq3_eqb (sort_seq3 (model_seq3 oc seqs))
                     (sort_seq3 (spec_seq3 cls0 xlev pl)))
              then S (S (S (S O)))
              else (match stage_check_seqs ds cps oc lv pc0 seqs with
                    | Inl n0 -> n0
                    | Inr pc ->
                      (match resolve_levels pc lv with
                       | Ok lv2 ->
                         if negb (nat_list_eqb lv2 (map2_implicit lv pc))
                         then S (S (S (S (S (S (S (S (S (S (S (S (S (S (S (S
                                (S (S (S (S (S O))))))))))))))))))))
                         else (match assign_levels_to_removed_chars pl oc lv2 with
                               | Ok lv3 ->
                                 if nat_list_eqb lv3
                                      (fill_removed pl
                                        (snd (resolve_paragraph cls0 brk dir)))
                                 then O
                                 else S (S (S (S (S (S (S (S (S (S (S (S (S
                                        (S (S (S (S (S (S (S (S (S (S
                                        O))))))))))))))))))))))
                               | Panic _ ->
                                 S (S (S (S (S (S (S (S (S (S (S (S (S (S (S
                                   (S (S (S (S (S (S (S O))))))))))))))))))))))
                       | Panic _ ->
                         S (S (S (S (S (S (S (S (S (S (S (S (S (S (S (S (S (S
                           (S (S O)))))))))))))))))))))
            | Panic _ -> S (S (S O))
          in
          (match check_with true with
           | O ->
             if existsb is_isolate_init oc
             then O
             else (match check_with false with
                   | O -> O
                   | S n0 ->
                     add (S (S (S (S (S (S (S (S (S (S (S (S (S (S (S (S (S
                       (S (S (S (S (S (S (S (S (S (S (S (S (S (S (S (S (S (S
                       (S (S (S (S (S (S (S (S (S (S (S (S (S (S (S (S (S (S
                       (S (S (S (S (S (S (S (S (S (S (S (S (S (S (S (S (S (S
                       (S (S (S (S (S (S (S (S (S (S (S (S (S (S (S (S (S (S
                       (S (S (S (S (S (S (S (S (S (S (S
                       O))))))))))))))))))))))))))))))))))))))))))))))))))))))))))))))))))))))))))))))))))))))))))))))))))))
                       (S n0))
           | S n0 -> S n0)
   | Panic _ -> S O)

(** val stage_check : tcase -> nat **)

let stage_check c =
  let paras =
    split_paragraphs (fun ch -> c.tc_ds.ds_class (fst ch)) (case_chars c)
  in
  fold_left (fun acc p ->
    match acc with
    | O -> stage_check_para c.tc_ds (map fst p) c.tc_dir
    | S _ -> acc) paras O
