(* ModelLine.v — executable model of the line-level API:
   reorder_levels (L1, lib.rs:1146), reordered_levels(_per_char), visual_runs_for_line (lib.rs:930),
   deprecated::visual_runs, reorder_visual (lib.rs:1002), reorder_line (lib.rs:884 / utf16.rs:558)
   with the callers' early exits, para_direction, level_at, has_rtl, get_base_direction_impl.
   Repaired code is modelled (D1: all units of a removed character are written; D2: a line entirely
   at level 126 returns its single run; D3: early exit also needs an even paragraph level;
   D4: ParagraphBidiInfo::has_rtl also looks at the paragraph level; D8: utf16 reorder_line reads
   unpaired surrogates as U+FFFD in LTR runs as well); [legacy := true] selects the
   unrepaired behaviour, used by the refutation lemmas in Proofs/Legacy.v. *)
From BidiVerif Require Import Base ConstsGen ModelText ModelResolve.

(* ================================================================== *)
(* reorder_levels, lib.rs:1146-1200 *)

Section Line.
Variable e : enc.

Record l1_state := { l1_from : option nat; l1_prev : nat; l1_levels : list nat }.

Definition l1_step (legacy : bool) (line_classes : list bclass) (para_level : nat)
           (st : l1_state) (ic : nat * N) : res l1_state :=
  let '(i, c) := ic in
  k <- get 1158 line_classes i ;;
  let from_or_i := match l1_from st with Some f => Some f | None => Some i end in
  '(from, to, levels) <-
    match k with
    | B | SS => Ok (from_or_i, Some (i + char_len e c), l1_levels st)
    | WS | FSI | LRI | RLI | PDI => Ok (from_or_i, None, l1_levels st)
    | RLE | LRE | RLO | LRO | PDF | BN =>
      levels <- (if legacy then upd 1180 (l1_levels st) i (l1_prev st)
                 else set_range 1183 (l1_levels st) i (i + char_len e c) (l1_prev st)) ;;
      Ok (from_or_i, None, levels)
    | _ => Ok (None, None, l1_levels st)
    end ;;
  '(from, levels) <-
    match from, to with
    | Some f, Some t => levels <- set_range 1187 levels f t para_level ;; Ok (None, levels)
    | _, _ => Ok (from, levels)
    end ;;
  prev <- get 1193 levels i ;;
  Ok {| l1_from := from; l1_prev := prev; l1_levels := levels |}.

Fixpoint l1_fold (legacy : bool) (line_classes : list bclass) (para_level : nat)
         (st : l1_state) (l : list (nat * N)) : res l1_state :=
  match l with
  | [] => Ok st
  | ic :: rest => st' <- l1_step legacy line_classes para_level st ic ;;
                  l1_fold legacy line_classes para_level st' rest
  end.

Definition reorder_levels (legacy : bool) (line_classes : list bclass) (line_levels : list nat)
           (line_text : list N) (para_level : nat) : res (list nat) :=
  st <- l1_fold legacy line_classes para_level
                {| l1_from := Some 0; l1_prev := para_level; l1_levels := line_levels |}
                (t_char_indices e line_text) ;;
  match l1_from st with
  | Some f => set_range 1196 (l1_levels st) f (length (l1_levels st)) para_level
  | None => Ok (l1_levels st)
  end.

(* {BidiInfo,ParagraphBidiInfo}::reordered_levels (lib.rs:546, 783; utf16.rs:226, 459) *)
Definition reordered_levels (legacy : bool) (text : list N) (classes : list bclass) (levels : list nat)
           (para_level : nat) (line : nat * nat) : res (list nat) :=
  let '(a, b) := line in
  if negb ((a <=? length levels) && (b <=? length levels)) then Panic 547 else
  line_classes <- slice 551 classes a b ;;
  line_levels <- slice 552 levels a b ;;
  line_text <- t_subrange 557 e text a b ;;
  new_line <- reorder_levels legacy line_classes line_levels line_text para_level ;;
  Ok (firstn a levels ++ new_line ++ skipn b levels).

Definition reordered_levels_per_char (legacy : bool) (text : list N) (classes : list bclass)
           (levels : list nat) (para_level : nat) (line : nat * nat) : res (list nat) :=
  lv <- reordered_levels legacy text classes levels para_level line ;;
  map_res (fun ic => get 584 lv (fst ic)) (t_char_indices e text).

End Line.

(* ================================================================== *)
(* visual_runs_for_line, lib.rs:930-986, and deprecated::visual_runs *)

(* `for (i, &new_level) in levels.iter().enumerate().take(line.end).skip(start + 1)` *)
Fixpoint find_runs (levels : list nat) (idxs : list nat) (start run_level mn mx : nat) (runs : list run)
  : res (list run * nat * nat * nat) :=
  match idxs with
  | [] => Ok (runs, start, mn, mx)
  | i :: rest =>
    match nth_error levels i with
    | None => Ok (runs, start, mn, mx)                     (* iterator exhausted before line.end *)
    | Some nl =>
      if negb (nl =? run_level)
      then find_runs levels rest i nl (Nat.min nl mn) (Nat.max nl mx) (runs ++ [(start, i)])
      else find_runs levels rest start run_level mn mx runs
    end
  end.

(* one pass of "reverse every maximal sequence of runs whose level is >= max_level";
   [acc] is the current sequence, already reversed *)
Fixpoint reverse_run_seqs (levels : list nat) (mx : nat) (runs : list run) (acc : list run)
  : res (list run) :=
  match runs with
  | [] => Ok acc
  | r :: rest =>
    l <- get 963 levels (fst r) ;;
    if l <? mx then rest' <- reverse_run_seqs levels mx rest [] ;; Ok (acc ++ r :: rest')
    else reverse_run_seqs levels mx rest (r :: acc)
  end.

Fixpoint runs_l2_loop (fuel : nat) (levels : list nat) (runs : list run) (mx mn : nat) : res (list run) :=
  match fuel with
  | O => Panic 4998
  | S f =>
    if mx <? mn then Ok runs else
    runs' <- reverse_run_seqs levels mx runs [] ;;
    match level_lower mx 1 with
    | None => Panic 983
    | Some mx' => runs_l2_loop f levels runs' mx' mn
    end
  end.

Definition visual_runs_core (legacy : bool) (levels : list nat) (line : nat * nat) : res (list run) :=
  let '(a, b) := line in
  run_level <- get 934 levels a ;;
  '(runs, start, mn, mx) <- find_runs levels (range (a + 1) b) a run_level run_level run_level [] ;;
  let runs := runs ++ [(start, b)] in
  match level_lowest_ge_rtl mn with
  | None => if legacy then Panic 956 else Ok runs             (* repaired (D2) *)
  | Some mn' => runs_l2_loop 130 levels runs mx mn'
  end.

Definition visual_runs_for_line (legacy : bool) (levels : list nat) (line : nat * nat)
  : res (list nat * list run) :=
  runs <- visual_runs_core legacy levels line ;;
  Ok (levels, runs).

Definition deprecated_visual_runs (legacy : bool) (line : nat * nat) (levels : list nat) : res (list run) :=
  if negb ((fst line <=? length levels) && (snd line <=? length levels)) then Panic 29 else
  visual_runs_core legacy levels line.

(* ================================================================== *)
(* reorder_visual, lib.rs:1002-1080 *)

Fixpoint count_while {A} (p : A -> bool) (l : list A) : nat :=
  match l with
  | x :: t => if p x then S (count_while p t) else 0
  | [] => 0
  end.

Definition next_range (levels : list nat) (start_index mx : nat) : nat * nat :=
  if (length levels =? 0) || (length levels <=? start_index) then (start_index, start_index) else
  let s := start_index + count_while (fun l => l <? mx) (skipn start_index levels) in
  if length levels <=? s then (s, s) else
  let en := S s + count_while (fun l => mx <=? l) (skipn (S s) levels) in
  (s, en).

(* result[a..b].reverse() *)
Definition reverse_range (site : nat) (v : list nat) (a b : nat) : res (list nat) :=
  if (a <=? b) && (b <=? length v)
  then Ok (firstn a v ++ rev (firstn (b - a) (skipn a v)) ++ skipn b v)
  else Panic site.

Fixpoint rv_inner (fuel : nat) (levels : list nat) (mx : nat) (result : list nat) (range_end : nat)
  : res (list nat) :=
  match fuel with
  | O => Panic 4997
  | S f =>
    let '(a, b) := next_range levels range_end mx in
    result' <- reverse_range 1069 result a b ;;
    if length levels <=? b then Ok result' else rv_inner f levels mx result' b
  end.

Fixpoint rv_outer (fuel : nat) (levels : list nat) (mn mx : nat) (result : list nat) : res (list nat) :=
  match fuel with
  | O => Panic 4996
  | S f =>
    if mx <? mn then Ok result else
    result' <- rv_inner (S (length levels)) levels mx result 0 ;;
    match level_lower mx 1 with
    | None => Panic 1076
    | Some mx' => rv_outer f levels mn mx' result'
    end
  end.

Definition reorder_visual (levels : list nat) : res (list nat) :=
  match levels with
  | [] => Ok []
  | l0 :: _ =>
    let mn := fold_left Nat.min levels l0 in
    let mx := fold_left Nat.max levels l0 in
    let result := seq 0 (length levels) in
    if (mn =? mx) && is_ltr mn then Ok result else
    match level_lowest_ge_rtl mn with
    | None => Panic 1057
    | Some mn' => rv_outer 130 levels mn' mx result
    end
  end.

(* ================================================================== *)
(* reorder_line (lib.rs:884 for str; utf16.rs:558 for [u16]) and the callers' early exit *)

Definition encode_utf16 (c : N) : list N :=
  if (c <? 65536)%N then [c]
  else [(55296 + (c - 65536) / 1024)%N; (56320 + (c - 65536) mod 1024)%N].

Section ReorderLine.
Variable e : enc.

Fixpoint all_runs_ltr (levels : list nat) (runs : list run) : res bool :=
  match runs with
  | [] => Ok true
  | r :: rest => l <- get 891 levels (fst r) ;;
                 if is_ltr l then all_runs_ltr levels rest else Ok false
  end.

Fixpoint emit_runs (legacy : bool) (text : list N) (levels : list nat) (runs : list run) : res (list N) :=
  match runs with
  | [] => Ok []
  | r :: rest =>
    l <- get 897 levels (fst r) ;;
    sub <- t_subrange 898 e text (fst r) (snd r) ;;
    out <- (if is_rtl l
            then cs <- t_chars_rev e sub ;;
                 Ok (match e with U8 => cs | U16 => flat_map encode_utf16 cs | U32 => cs end)
            else Ok (match e with
                     | U8 => sub
                     | U32 => sub
                     | U16 => if legacy then sub                       (* raw copy: D8 *)
                              else flat_map encode_utf16 (t_chars e sub) (* repaired *)
                     end)) ;;
    rest' <- emit_runs legacy text levels rest ;;
    Ok (out ++ rest')
  end.

Definition reorder_line_core (legacy : bool) (text : list N) (line : nat * nat) (levels : list nat) (runs : list run)
  : res (list N) :=
  all_ltr <- all_runs_ltr levels runs ;;
  if all_ltr then t_subrange 892 e text (fst line) (snd line)
  else emit_runs legacy text levels runs.

(* BidiInfo::reorder_line(para, line) / ParagraphBidiInfo::reorder_line(line) *)
Definition reorder_line (legacy : bool) (text : list N) (classes : list bclass) (levels : list nat)
           (para_level : nat) (line : nat * nat) : res (list N) :=
  ll <- slice 595 levels (fst line) (snd line) ;;
  if (legacy || is_ltr para_level) && negb (levels_has_rtl ll)        (* repaired (D3) *)
  then t_subrange 596 e text (fst line) (snd line)
  else
    lv <- reordered_levels e legacy text classes levels para_level line ;;
    '(lv, runs) <- visual_runs_for_line legacy lv line ;;
    reorder_line_core legacy text line lv runs.

End ReorderLine.

(* ================================================================== *)
(* summary queries *)

Inductive direction := Ltr | Rtl | Mixed.

Fixpoint para_direction_from (ltr rtl : bool) (levels : list nat) : direction :=   (* lib.rs:1233 *)
  match levels with
  | [] => if ltr then Ltr else Rtl
  | l :: rest =>
    if is_ltr l then (if rtl then Mixed else para_direction_from true rtl rest)
    else if is_rtl l then (if ltr then Mixed else para_direction_from ltr true rest)
    else para_direction_from ltr rtl rest
  end.
Definition para_direction (levels : list nat) : direction := para_direction_from false false levels.

(* Paragraph::direction / level_at (lib.rs:1219-1228) *)
Definition paragraph_direction (levels : list nat) (p : para_info) : res direction :=
  sl <- slice 1220 levels (p_start p) (p_end p) ;; Ok (para_direction sl).
Definition paragraph_level_at (levels : list nat) (p : para_info) (pos : nat) : res nat :=
  get 1227 levels (p_start p + pos).

Definition bidi_info_has_rtl (bi : bidi_info) : bool := levels_has_rtl (bi_levels bi).   (* lib.rs:682 *)
Definition para_bidi_info_has_rtl (legacy : bool) (pb : para_bidi_info) : bool :=          (* lib.rs:857, repaired (D4) *)
  negb (pb_pure pb) || (negb legacy && is_rtl (pb_level pb)).

(* get_base_direction_impl, lib.rs:1327-1348 *)
Fixpoint base_direction_from (ds : datasource) (use_full_text : bool) (isolate_level : nat) (cs : list N)
  : direction :=
  match cs with
  | [] => Mixed
  | c :: rest =>
    match ds_class ds c with
    | LRI | RLI | FSI => base_direction_from ds use_full_text (S isolate_level) rest
    | PDI => base_direction_from ds use_full_text (isolate_level - 1) rest
    | L => if isolate_level =? 0 then Ltr else base_direction_from ds use_full_text isolate_level rest
    | R | AL => if isolate_level =? 0 then Rtl else base_direction_from ds use_full_text isolate_level rest
    | B => if use_full_text then base_direction_from ds use_full_text 0 rest else Mixed
    | _ => base_direction_from ds use_full_text isolate_level rest
    end
  end.
Definition get_base_direction (e : enc) (ds : datasource) (use_full_text : bool) (text : list N) : direction :=
  base_direction_from ds use_full_text 0 (t_chars e text).
