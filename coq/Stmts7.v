(* Stmts7.v — pinned statements, seventh group: C13 (isolates isolate) at the level of the
   specification, and C09 in final (judge) form.
   C13 is a statement about two texts; through C01 (the model's levels are the specification's) it
   reduces to a theorem about Spec.v alone, stated here. *)
From BidiVerif Require Import Base ConstsGen TablesGen ModelText ModelResolve ModelLine Spec Obs Judge StageRel
     Stmts Stmts2 Stmts3 Stmts4 Stmts5 Stmts6.

(* isolate controls balanced inside a list: no PDI without an initiator before it in the list, no
   initiator without a PDI after it in the list *)
Fixpoint iso_bal (d : nat) (l : list bclass) : bool :=
  match l with
  | [] => d =? 0
  | c :: r => if is_init c then iso_bal (S d) r
              else if c =c PDI then match d with O => false | S d' => iso_bal d' r end
              else iso_bal d r
  end.

(* the X1-X8 state reached after the first n characters of the paragraph *)
Fixpoint x_state_after (cls0 : list bclass) (pl : nat) (s : xstate) (i : nat) (l : list bclass) (n : nat) : xstate :=
  match n, l with
  | S n', c0 :: rest => let '(s', _, _) := x_step cls0 pl s i c0 in x_state_after cls0 pl s' (S i) rest n'
  | _, _ => s
  end.
Definition x_init (pl : nat) : xstate := {| x_stack := [(pl, ONone, false)]; x_oi := 0; x_oe := 0; x_vi := 0 |}.

(* "at a nesting depth below the limit": when the initiator at position n is reached it is pushed
   (no overflow pending, next level within 125) *)
Definition initiator_valid (cls0 : list bclass) (pl n : nat) : Prop :=
  let s := x_state_after cls0 pl (x_init pl) 0 cls0 n in
  let '(tl_, _, _) := top_of (x_stack s) pl in
  x_oi s = 0 /\ x_oe s = 0 /\
  (match nth n cls0 ON with RLI => next_odd tl_ | _ => next_even tl_ end) <= max_depth_spec.

Section C13.
Variables prefix suffix c1 c2 : list bclass.
Variable ini : bclass.
Variables bp bs b1 b2 : list (option (N * bool)).   (* bracket data of prefix, suffix, contents *)
Variables bi bq : option (N * bool).                 (* ... of the initiator and the PDI *)
Variable dir : option nat.

Let t1 := prefix ++ [ini] ++ c1 ++ [PDI] ++ suffix.
Let t2 := prefix ++ [ini] ++ c2 ++ [PDI] ++ suffix.
Let k1 := bp ++ [bi] ++ b1 ++ [bq] ++ bs.
Let k2 := bp ++ [bi] ++ b2 ++ [bq] ++ bs.
Let np := length prefix.

Definition c13_hyps : Prop :=
  (ini = LRI \/ ini = RLI) /\
  iso_bal 0 c1 = true /\ iso_bal 0 c2 = true /\
  Forall (fun c => c <> B) c1 /\ Forall (fun c => c <> B) c2 /\
  single_para t1 /\ single_para t2 /\
  length bp = length prefix /\ length bs = length suffix /\ length b1 = length c1 /\ length b2 = length c2 /\
  dir3 dir /\
  initiator_valid t1 (para_level t1 dir) np.

(* positions outside the pair: [0, np] (prefix and initiator) and the PDI with the suffix *)
Definition outside1 (j : nat) : nat := if j <=? np then j else j + length c1.
Definition outside2 (j : nat) : nat := if j <=? np then j else j + length c2.
(* j ranges over 0 .. np + 1 + length suffix : j <= np is prefix/initiator, j = np+1 the PDI, beyond the suffix *)

(* (a) the paragraph level, (b) the explicit levels and classes outside are unchanged *)
Definition C13_explicit_spec : Prop :=
  c13_hyps ->
  para_level t1 dir = para_level t2 dir /\
  let pl := para_level t1 dir in
  let '(xl1, xc1) := explicit_levels t1 pl in
  let '(xl2, xc2) := explicit_levels t2 pl in
  forall j, j <= np + 1 + length suffix ->
    nth (outside1 j) xl1 None = nth (outside2 j) xl2 None /\
    nth (outside1 j) xc1 ON = nth (outside2 j) xc2 ON.

(* the full statement at the level of the specification: resolved levels outside are unchanged *)
Definition C13_spec_full : Prop :=
  c13_hyps ->
  fst (resolve_paragraph t1 k1 dir) = fst (resolve_paragraph t2 k2 dir) /\
  forall j, j <= np + 1 + length suffix ->
    nth (outside1 j) (snd (resolve_paragraph t1 k1 dir)) None
      = nth (outside2 j) (snd (resolve_paragraph t2 k2 dir)) None.
End C13.

Definition C13_explicit : Prop :=
  forall prefix suffix c1 c2 ini bp bs b1 b2 dir,
    C13_explicit_spec prefix suffix c1 c2 ini bp bs b1 b2 dir.
Definition C13_full : Prop :=
  forall prefix suffix c1 c2 ini bp bs b1 b2 bi bq dir,
    C13_spec_full prefix suffix c1 c2 ini bp bs b1 b2 bi bq dir.

(* ------------------------------------------------------------------ C13 in judge form *)
(* two cases whose texts are  P ++ [I] ++ X ++ [Q] ++ S  with the same P, I, Q, S (characters with
   their unit lengths), I of class LRI/RLI, Q of class PDI, contents B-free and isolate-balanced,
   each text a single paragraph, the initiator valid (pushed) when reached *)
Definition iso_pair (c1 c2 : tcase) (pu su : nat) : Prop :=
  tc_enc c2 = tc_enc c1 /\ tc_ds c2 = tc_ds c1 /\ tc_dir c2 = tc_dir c1 /\
  exists (P S X1 X2 : list (N * nat)) (I Q : N * nat),
    case_chars c1 = P ++ [I] ++ X1 ++ [Q] ++ S /\
    case_chars c2 = P ++ [I] ++ X2 ++ [Q] ++ S /\
    pu = total (map snd (P ++ [I])) /\ su = total (map snd (Q :: S)) /\
    let cl := fun ch : N * nat => ds_class (tc_ds c1) (fst ch) in
    let br := fun ch : N * nat => ds_bracket (tc_ds c1) (fst ch) in
    cl Q = PDI /\
    c13_hyps (map cl P) (map cl S) (map cl X1) (map cl X2) (cl I)
             (map br P) (map br S) (map br X1) (map br X2) (tc_dir c1).

Definition C13_final : Prop :=
  forall c1 c2 pu su,
    valid_case c1 -> valid_case c2 -> iso_pair c1 c2 pu su ->
    C13_judge pu su (model_obs false c1) (model_obs false c2) = true.
