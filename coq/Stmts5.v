(* Stmts5.v — pinned statements, fifth group: the line-level API (L1, runs, reordering) at character
   level and its length independence, and the FINAL form of the property theorems:
   "for every valid case, the judge holds on the model's observation" — the judge being the very
   predicate that is extracted and applied to the real crate's outputs. *)
From BidiVerif Require Import Base ConstsGen TablesGen ModelText ModelResolve ModelLine Spec Obs Judge Stmts Stmts2 Stmts3 Stmts4.

(* ------------------------------------------------------------------ character level (U32) *)
Definition sub {A} (l : list A) (i j : nat) : list A := firstn (j - i) (skipn i l).

(* L1 on a line of characters i..j-1: everything outside unchanged *)
Definition CL_reordered_levels : Prop :=
  forall cps cls lv pl i j,
    length cls = length cps -> length lv = length cps -> i <= j -> j <= length cps ->
    reordered_levels U32 false cps cls lv pl (i, j)
      = Ok (firstn i lv ++ Spec.l1 pl (sub cls i j) (sub lv i j) ++ skipn j lv) /\
    reordered_levels_per_char U32 false cps cls lv pl (i, j)
      = Ok (firstn i lv ++ Spec.l1 pl (sub cls i j) (sub lv i j) ++ skipn j lv).

(* reorder_line: exactly the line's characters, permuted by L2 of the per-character L1 levels;
   the line itself when no level is odd after L1 *)
Definition CL_reorder_line : Prop :=
  forall cps cls lv pl i j,
    length cls = length cps -> length lv = length cps -> i < j -> j <= length cps ->
    Forall (fun l => l <= 126) lv -> pl <= 126 ->
    let l1v := Spec.l1 pl (sub cls i j) (sub lv i j) in
    reorder_line U32 false cps cls lv pl (i, j)
      = Ok (map (fun x => nth (i + x) cps 0%N) (Spec.l2 l1v)) /\
    (forallb Nat.even l1v = true -> reorder_line U32 false cps cls lv pl (i, j) = Ok (sub cps i j)).

(* ------------------------------------------------------------------ length independence of the line API *)
Section LL.
Variable e : enc.
Variable text : list N.
Let chars := view_of e text.
Let cps := map fst chars.
Let lens := map snd chars.
Let k := length chars.

Definition ll_reordered_levels_statement : Prop :=
  forall cls lv pl i j out',
    length cls = k -> length lv = k -> i <= j -> j <= k ->
    reordered_levels U32 false cps cls lv pl (i, j) = Ok out' ->
    reordered_levels e false text (expand lens cls) (expand lens lv) pl (ustart lens i, ustart lens j)
      = Ok (expand lens out') /\
    reordered_levels_per_char e false text (expand lens cls) (expand lens lv) pl (ustart lens i, ustart lens j)
      = Ok out'.

Definition ll_visual_runs_statement : Prop :=
  forall lv i j runs',
    length lv = k -> i < j -> j <= k ->
    visual_runs_for_line false lv (i, j) = Ok (lv, runs') ->
    visual_runs_for_line false (expand lens lv) (ustart lens i, ustart lens j)
      = Ok (expand lens lv, map (urun lens) runs').

(* well-formed text: re-encoding the characters gives the text back (always true for U8 / U32) *)
Definition well_formed (e' : enc) (t : list N) : Prop :=
  encode_chars e' (map fst (view_of e' t)) = t.

Definition ll_reorder_line_statement : Prop :=
  forall cls lv pl i j out',
    length cls = k -> length lv = k -> i < j -> j <= k -> well_formed e text ->
    reorder_line U32 false cps cls lv pl (i, j) = Ok out' ->
    reorder_line e false text (expand lens cls) (expand lens lv) pl (ustart lens i, ustart lens j)
      = Ok (encode_chars e out').
End LL.

Definition LL_reordered_levels : Prop := forall e text, valid_text e text -> ll_reordered_levels_statement e text.
Definition LL_visual_runs : Prop := forall e text, valid_text e text -> ll_visual_runs_statement e text.
Definition LL_reorder_line : Prop := forall e text, valid_text e text -> ll_reorder_line_statement e text.

(* ------------------------------------------------------------------ final form of the property theorems *)
(* a line = a non-empty range of whole characters *)
Definition valid_line (lens : list nat) (line : nat * nat) : Prop :=
  exists i j, i < j /\ j <= length lens /\ fst line = ustart lens i /\ snd line = ustart lens j.

Definition valid_case (c : tcase) : Prop :=
  (tc_enc c = U8 \/ tc_enc c = U16) /\
  valid_text (tc_enc c) (tc_text c) /\
  fsi_proviso (tc_enc c) (tc_ds c) (case_chars c) /\
  dir3 (tc_dir c) /\
  Forall (valid_line (map snd (case_chars c))) (tc_lines c).

Definition C02_final : Prop := forall c, valid_case c -> C02_judge c (model_obs false c) = true.
Definition C03_final : Prop := forall c, valid_case c -> C03_judge c (model_obs false c) = true.
Definition C04_final : Prop := forall c, valid_case c -> C04_judge c (model_obs false c) = true.
Definition C05_final : Prop := forall c, valid_case c -> C05_judge c (model_obs false c) = true.
Definition C06_final : Prop := forall c, valid_case c -> C06_judge c (model_obs false c) = true.
Definition C07_final : Prop := forall c, valid_case c -> C07_judge c (model_obs false c) = true.
Definition C08_final : Prop := forall c, valid_case c -> C08_judge c (model_obs false c) = true.
Definition C10_final : Prop := forall c, valid_case c -> C10_judge c (model_obs false c) = true.
Definition C16_final : Prop := forall c, valid_case c -> C16_judge c (model_obs false c) = true.
Definition C17_final : Prop := forall c, valid_case c -> C17_judge c (model_obs false c) = true.
Definition C01_final : Prop := forall c, valid_case c -> C01_judge c (model_obs false c) = true.
Definition C11_final : Prop := forall c, valid_case c -> C11_judge c (model_obs false c) = true.

(* C09: a UTF-16 case and the UTF-8 case of the same characters, with corresponding lines *)
Definition twin_cases (c16 c8 : tcase) : Prop :=
  tc_enc c16 = U16 /\ tc_enc c8 = U8 /\ tc_ds c8 = tc_ds c16 /\ tc_dir c8 = tc_dir c16 /\
  tc_text c8 = map fst (decode16 (tc_text c16)) /\
  exists clines : list (nat * nat),
    tc_lines c16 = map (urun (map snd (case_chars c16))) clines /\
    tc_lines c8 = map (urun (map snd (case_chars c8))) clines.
Definition C09_final : Prop :=
  forall c16 c8, valid_case c16 -> valid_case c8 -> twin_cases c16 c8 ->
    C09_judge c16 (model_obs false c16) c8 (model_obs false c8) = true.
