(* Extract.v — OCaml extraction of the model, the specification and the judges (ExtrOcamlBasic only;
   nat, N, positive stay Coq inductives). *)
From Coq Require Import ExtrOcamlBasic.
From BidiVerif Require Import Base ConstsGen TablesGen ModelText ModelResolve ModelLine Spec Obs Judge StageRel.
Extraction Language OCaml.
Extraction "bidi_model.ml"
  model_obs model_lines_bi model_lines_pi model_queries_bi model_queries_pi hardcoded_ds hardcoded_class hardcoded_bracket
  C01_judge C02_judge C03_judge C04_judge C04_judge_levels C05_judge C06_judge C07_judge C08_judge
  C10_judge C11_judge case_reaches_limits LI_check stage_check C16_judge C17_judge
  reorder_visual l2 decode16 case_chars spec_text is_single_paragraph
  char_at16 char_indices16 indices_lengths16 chars16 chars16_rev chars16_new chars16_next chars16_next_back
  chars16_next_legacy iter16_program C18_iter_judge char_at_spec C09_judge C13_judge char_at8 char_indices8 t_indices_lengths t_chars t_chars_rev t_len
  level_new level_new_explicit level_raise level_raise_explicit level_lower level_next_ltr level_next_rtl
  level_lowest_ge_rtl is_ltr is_rtl level_class levels_has_rtl max_explicit_depth max_implicit_depth
  bidi_class_table bidi_pairs_table unicode_version bracket_limit
  fc_ALM fc_LRM fc_RLM fc_LRI fc_RLI fc_FSI fc_PDI fc_LRE fc_RLE fc_PDF fc_LRO fc_RLO.
