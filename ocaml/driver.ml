(* driver.ml — the model side of the correspondence check and the judge runner.
   Hand-written glue only: parsing, int <-> Coq numbers, printing.  Everything that decides
   anything (the model, the specification, the judges) is extracted from Coq (bidi_model.ml).

   usage: driver corr  <cases> <impl-output> <verdicts-out>     text / vector / iterator cases
          driver tables                                          model-side dump for C14/C15
          driver levels                                          model-side dump for C19
   env  VERIF_LEGACY=1 runs the unrepaired ("legacy") variant of the model (self-test only). *)
open Bidi_model

let legacy = (try Sys.getenv "VERIF_LEGACY" = "1" with Not_found -> false)

(* ---------- numbers ---------- *)
let rec nat_of_int i = if i <= 0 then O else S (nat_of_int (i - 1))
let int_of_nat n = let rec go acc = function O -> acc | S m -> go (acc + 1) m in go 0 n
let rec pos_of_int i = if i = 1 then XH else if i land 1 = 0 then XO (pos_of_int (i lsr 1)) else XI (pos_of_int (i lsr 1))
let n_of_int i = if i = 0 then N0 else Npos (pos_of_int i)
let rec int_of_pos = function XH -> 1 | XO p -> 2 * int_of_pos p | XI p -> 2 * int_of_pos p + 1
let int_of_n = function N0 -> 0 | Npos p -> int_of_pos p

(* small cache: nat values are reused constantly *)
let nat_cache = Array.init 4096 (fun _ -> O)
let () = for i = 1 to 4095 do nat_cache.(i) <- S nat_cache.(i - 1) done
let nat_of_int i = if i >= 0 && i < 4096 then nat_cache.(i) else nat_of_int i

(* ---------- classes ---------- *)
let class_name = function
  | AL -> "AL" | AN -> "AN" | B -> "B" | BN -> "BN" | CS -> "CS" | EN -> "EN" | ES -> "ES" | ET -> "ET"
  | FSI -> "FSI" | L -> "L" | LRE -> "LRE" | LRI -> "LRI" | LRO -> "LRO" | NSM -> "NSM" | ON -> "ON"
  | PDF -> "PDF" | PDI -> "PDI" | R -> "R" | RLE -> "RLE" | RLI -> "RLI" | RLO -> "RLO" | SS -> "S" | WS -> "WS"
let class_of_name = function
  | "AL" -> AL | "AN" -> AN | "B" -> B | "BN" -> BN | "CS" -> CS | "EN" -> EN | "ES" -> ES | "ET" -> ET
  | "FSI" -> FSI | "L" -> L | "LRE" -> LRE | "LRI" -> LRI | "LRO" -> LRO | "NSM" -> NSM | "ON" -> ON
  | "PDF" -> PDF | "PDI" -> PDI | "R" -> R | "RLE" -> RLE | "RLI" -> RLI | "RLO" -> RLO | "S" -> SS | "WS" -> WS
  | s -> failwith ("class " ^ s)

(* ---------- parsing helpers ---------- *)
let split c s = String.split_on_char c s
let csv s = if s = "" then [] else split ',' s
let hex s = int_of_string ("0x" ^ s)
let hexlist s = if s = "-" || s = "" then [] else List.map hex (split ',' s)
let range_of s = match split '-' s with [a; b] -> (int_of_string a, int_of_string b) | _ -> failwith ("range " ^ s)
let nat_pair (a, b) = (nat_of_int a, nat_of_int b)

let p0 = Panic O
let res_of s f = if s = "P" then p0 else Ok (f s)
let levels_of s = List.map (fun x -> nat_of_int (int_of_string x)) (csv s)
let classes_of s = List.map class_of_name (csv s)
let paras_of s =
  List.map (fun x -> match split ':' x with
    | [r; l] -> let (a, b) = range_of r in { p_start = nat_of_int a; p_end = nat_of_int b; p_level = nat_of_int (int_of_string l) }
    | _ -> failwith "para") (csv s)
let runs_of s = List.map (fun x -> nat_pair (range_of x)) (csv s)
let dir_of = function "L" -> Ltr | "R" -> Rtl | "M" -> Mixed | s -> failwith ("dir " ^ s)
let units_of s = List.map (fun x -> n_of_int (hex x)) (csv s)

let bidi_info_of s = match split '|' s with
  | [c; l; p] -> { bi_classes = classes_of c; bi_levels = levels_of l; bi_paras = paras_of p }
  | _ -> failwith "bidi_info"

let line_of s = match split '~' s with
  | [r; rl; rlc; vrl; vrr; dvr; ro; rv] ->
    { lo_line = nat_pair (range_of r);
      lo_rl = res_of rl levels_of;
      lo_rlc = res_of rlc levels_of;
      lo_vr = (if vrl = "P" || vrr = "P" then p0 else Ok (levels_of vrl, runs_of vrr));
      lo_dvr = res_of dvr runs_of;
      lo_ro = res_of ro units_of;
      lo_rv = res_of rv levels_of }
  | _ -> failwith ("line obs " ^ s)
let lines_of s = if s = "" then [] else List.map line_of (split '/' s)

let fields_of (parts : string list) : (string, string) Hashtbl.t =
  let h = Hashtbl.create 16 in
  List.iter (fun kv -> match String.index_opt kv '=' with
    | Some i -> Hashtbl.replace h (String.sub kv 0 i) (String.sub kv (i + 1) (String.length kv - i - 1))
    | None -> ()) parts;
  h

let obs_of_impl (h : (string, string) Hashtbl.t) : text_obs =
  let g k = try Hashtbl.find h k with Not_found -> "P" in
  { to_ii = res_of (g "ii") (fun s -> match split '|' s with [c; p] -> (classes_of c, paras_of p) | _ -> failwith "ii");
    to_bi = res_of (g "bi") bidi_info_of;
    to_bi_has_rtl = res_of (g "bih") (fun s -> s = "1");
    to_bi_dirs = res_of (g "bid") (fun s -> List.map dir_of (csv s));
    to_bi_level_at = res_of (g "bila") (fun s -> if s = "" then [] else List.map levels_of (split ';' s));
    to_bi_lines = lines_of (g "bil");
    to_pi = res_of (g "pi") (fun s -> match split '|' s with
      | [c; l; pl; pure] -> { pb_classes = classes_of c; pb_levels = levels_of l; pb_level = nat_of_int (int_of_string pl); pb_pure = (pure = "1") }
      | _ -> failwith "pi");
    to_pi_has_rtl = res_of (g "pih") (fun s -> s = "1");
    to_pi_dir = res_of (g "pid") dir_of;
    to_pi_lines = lines_of (g "pil");
    to_bd = res_of (g "bd") dir_of;
    to_bdf = res_of (g "bdf") dir_of;
    to_sub = (let s = g "sub" in if s = "" || s = "P" then [] else List.map (fun x -> res_of x bidi_info_of) (split '/' s)) }

(* ---------- data sources ---------- *)
let memo_class = Hashtbl.create 1024
let memo_brk = Hashtbl.create 1024
let hardcoded_memo : datasource =
  { ds_class = (fun c -> let k = int_of_n c in
                 match Hashtbl.find_opt memo_class k with Some x -> x | None -> let x = hardcoded_class c in Hashtbl.add memo_class k x; x);
    ds_bracket = (fun c -> let k = int_of_n c in
                 match Hashtbl.find_opt memo_brk k with Some x -> x | None -> let x = hardcoded_bracket c in Hashtbl.add memo_brk k x; x) }

let ds_of s : datasource =
  if s = "-" then hardcoded_memo else begin
    let tbl = Hashtbl.create 64 in
    List.iter (fun ent -> match split ':' ent with
      | [cp; k; b] ->
        let brk = if b = "-" then None else Some (n_of_int (hex (String.sub b 1 (String.length b - 1))), b.[0] = 'o') in
        Hashtbl.replace tbl (hex cp) (class_of_name k, brk)
      | _ -> failwith "ds entry") (csv s);
    { ds_class = (fun c -> match Hashtbl.find_opt tbl (int_of_n c) with Some (k, _) -> k | None -> L);
      ds_bracket = (fun c -> match Hashtbl.find_opt tbl (int_of_n c) with Some (_, b) -> b | None -> None) }
  end

(* ---------- normalisation before comparing model and implementation ---------- *)
let nr = function Ok x -> Ok x | Panic _ -> p0
let norm_line l = { l with lo_rl = nr l.lo_rl; lo_rlc = nr l.lo_rlc; lo_vr = nr l.lo_vr; lo_dvr = nr l.lo_dvr; lo_ro = nr l.lo_ro; lo_rv = nr l.lo_rv }

(* field-by-field diff; returns the names of the differing fields *)
let diff_obs (m : text_obs) (i : text_obs) : string list =
  let d = ref [] in
  let chk name a b = if a <> b then d := name :: !d in
  chk "ii" (nr m.to_ii) i.to_ii;
  (match nr m.to_bi, i.to_bi with
   | Ok a, Ok b ->
     chk "bi.classes" a.bi_classes b.bi_classes; chk "bi.levels" a.bi_levels b.bi_levels; chk "bi.paras" a.bi_paras b.bi_paras
   | a, b -> chk "bi" a b);
  chk "bi.has_rtl" (nr m.to_bi_has_rtl) i.to_bi_has_rtl;
  chk "bi.dirs" (nr m.to_bi_dirs) i.to_bi_dirs;
  chk "bi.level_at" (nr m.to_bi_level_at) i.to_bi_level_at;
  let lines pfx ml il =
    if List.length ml <> List.length il then d := (pfx ^ ".lines") :: !d
    else List.iter2 (fun a b ->
      let a = norm_line a in
      chk (pfx ^ ".rl") a.lo_rl b.lo_rl; chk (pfx ^ ".rlc") a.lo_rlc b.lo_rlc; chk (pfx ^ ".vr") a.lo_vr b.lo_vr;
      chk (pfx ^ ".dvr") a.lo_dvr b.lo_dvr; chk (pfx ^ ".ro") a.lo_ro b.lo_ro; chk (pfx ^ ".rv") a.lo_rv b.lo_rv) ml il in
  lines "bi" m.to_bi_lines i.to_bi_lines;
  (match nr m.to_pi, i.to_pi with
   | Ok a, Ok b ->
     chk "pi.classes" a.pb_classes b.pb_classes; chk "pi.levels" a.pb_levels b.pb_levels;
     chk "pi.level" a.pb_level b.pb_level; chk "pi.pure" a.pb_pure b.pb_pure
   | a, b -> chk "pi" a b);
  chk "pi.has_rtl" (nr m.to_pi_has_rtl) i.to_pi_has_rtl;
  chk "pi.dir" (nr m.to_pi_dir) i.to_pi_dir;
  lines "pi" m.to_pi_lines i.to_pi_lines;
  chk "bd" (nr m.to_bd) i.to_bd;
  chk "bdf" (nr m.to_bdf) i.to_bdf;
  chk "sub" (List.map nr m.to_sub) i.to_sub;
  List.sort_uniq compare !d

(* ---------- non-triviality rules (measured, per property) ---------- *)
let has_class c pred = List.exists (fun (cp, _) -> pred (c.tc_ds.ds_class cp)) (case_chars c)
let nontrivial_props (c : tcase) (o : text_obs) (fam : string) (is_ds : bool) : string list =
  let chars = case_chars c in
  let multi = List.exists (fun (_, l) -> int_of_nat l > 1) chars in
  let nparas = List.length (spec_text c) in
  let not_pure = has_class c (fun k -> match k with L | WS | ON | SS | B | ES | ET | CS | EN | NSM | BN -> false | _ -> true) || c.tc_dir = Some (S O) in
  let any_line p = List.exists p (o.to_bi_lines @ o.to_pi_lines) in
  let line_levels l = match l.lo_rl with Ok lv -> let (a, b) = l.lo_line in
      let a = int_of_nat a and b = int_of_nat b in
      List.filteri (fun i _ -> i >= a && i < b) (List.map int_of_nat lv) | Panic _ -> [] in
  let reset_class k = (match k with WS | SS | B | FSI | LRI | RLI | PDI | RLE | LRE | RLO | LRO | PDF | BN -> true | _ -> false) in
  let l = ref [] in
  let add p cond = if cond then l := p :: !l in
  add "C01" not_pure;
  add "C02" (nparas >= 2 || has_class c (fun k -> match k with FSI | LRI | RLI | R | AL -> true | _ -> false));
  add "C03" (o.to_bi_lines <> [] && has_class c reset_class);
  add "C04" (any_line (fun x -> List.exists (fun v -> v land 1 = 1) (line_levels x)));
  add "C05" (any_line (fun x -> List.length (List.sort_uniq compare (line_levels x)) >= 2));
  add "C06" (any_line (fun x -> List.exists (fun v -> v land 1 = 1) (line_levels x)));
  add "C07" (chars <> []);
  add "C08" multi;
  add "C10" (nparas >= 2);
  add "C11" (case_reaches_limits c);
  add "C12" is_ds;
  add "C16" (has_class c (fun k -> match k with FSI | LRI | RLI | PDI | B -> true | _ -> false));
  add "C17" (not_pure || c.tc_dir <> None);
  !l

(* ---------- the correspondence run ---------- *)
type pending = { pc : tcase; po : text_obs }

let () =
  match Array.to_list Sys.argv with
  | _ :: "corr" :: cases :: impl :: outp :: _ ->
    let ic = open_in cases and ii = open_in impl and oc = open_out outp in
    let pend : (string, pending) Hashtbl.t = Hashtbl.create 64 in
    let ncase = ref 0 in
    (try
       while true do
         let cl = input_line ic in
         if cl <> "" && cl.[0] <> '#' then begin
           let il = (try input_line ii with End_of_file -> "MISSING") in
           incr ncase;
           let cf = Array.of_list (split '\t' cl) in
           let ifs = split '\t' il in
           let kind = cf.(0) and id = cf.(1) in
           let verdict =
             (match ifs with
              | k :: i :: _ when k = kind && i = id -> ()
              | _ -> failwith (Printf.sprintf "case/impl lines out of step at case %s: %s" id il));
             let h = fields_of ifs in
             let g k = try Hashtbl.find h k with Not_found -> "P" in
             match kind with
             | "T" ->
               let enc = if cf.(2) = "8" then U8 else U16 in
               let dir = (match cf.(3) with "a" -> None | "0" -> Some O | _ -> Some (S O)) in
               let tags = if Array.length cf > 7 then split ' ' cf.(7) else [] in
               let fam = (match tags with f :: _ -> f | [] -> "?") in
               let c = { tc_enc = enc; tc_ds = ds_of cf.(5); tc_text = List.map n_of_int (hexlist cf.(4)); tc_dir = dir;
                         tc_lines = (if cf.(6) = "-" then [] else List.map (fun x -> nat_pair (range_of x)) (csv cf.(6))) } in
               let io = obs_of_impl h in
               let mo = model_obs legacy c in
               (* downstream functions are compared on the implementation's own upstream results *)
               let mo = (match io.to_bi with
                 | Ok b ->
                   let (((h, ds), la), sub) = model_queries_bi legacy c b in
                   { mo with to_bi_lines = model_lines_bi legacy c b io.to_bi_lines;
                             to_bi_has_rtl = h; to_bi_dirs = ds; to_bi_level_at = la; to_sub = sub }
                 | Panic _ -> mo) in
               let mo = (match io.to_pi with
                 | Ok p ->
                   let (h, d) = model_queries_pi legacy p in
                   { mo with to_pi_lines = model_lines_pi legacy c p io.to_pi_lines; to_pi_has_rtl = h; to_pi_dir = d }
                 | Panic _ -> mo) in
               let diffs = diff_obs mo io in
               let diffs = if (not legacy) && not (lI_check c) then "model.li" :: diffs else diffs in
               let diffs = if legacy then diffs else
                 (match int_of_nat (stage_check c) with 0 -> diffs | n -> ("model.stage" ^ string_of_int n) :: diffs) in
               let jf = ref [] in
               let j name f = if not (f c io) then jf := name :: !jf in
               j "C01" c01_judge; j "C02" c02_judge; j "C03" c03_judge; j "C04" c04_judge; j "C05" c05_judge;
               j "C06" c06_judge; j "C07" c07_judge; j "C08" c08_judge; j "C10" c10_judge; j "C11" c11_judge;
               j "C16" c16_judge; j "C17" c17_judge;
               let is_ds = cf.(5) <> "-" in
               if is_ds && not (c01_judge c io && c02_judge c io) then jf := "C12" :: !jf;
               let conv = g "conv" in
               if conv = "0" || conv = "P" then jf := "C12" :: !jf;
               if conv = "P" then jf := "C07" :: !jf;
               let nt = ref (nontrivial_props c io fam is_ds) in
               (* paired judges *)
               List.iter (fun t ->
                 match split ':' t with
                 | ["twin"; id16] ->
                   (match Hashtbl.find_opt pend id16 with
                    | Some p ->
                      if not (c09_judge p.pc p.po c io) then jf := "C09" :: !jf;
                      if List.exists (fun (cp, l) -> int_of_n cp >= 0x10000 || (int_of_n cp = 0xFFFD && int_of_nat l = 1)) (case_chars p.pc)
                      then nt := "C09" :: !nt;
                      Hashtbl.remove pend id16
                    | None -> jf := "C09" :: !jf)
                 | ["iso"; id1; pu; su] ->
                   (match Hashtbl.find_opt pend id1 with
                    | Some p ->
                      if not (c13_judge (nat_of_int (int_of_string pu)) (nat_of_int (int_of_string su)) p.po io) then jf := "C13" :: !jf;
                      nt := "C13" :: !nt;
                      Hashtbl.remove pend id1
                    | None -> jf := "C13" :: !jf)
                 | _ -> ()) tags;
               if enc = U16 || fam = "ISO" then Hashtbl.replace pend id { pc = c; po = io };
               Printf.sprintf "T\t%s\t%s\tDIFF=%s\tJFAIL=%s\tNT=%s" id fam (String.concat "," diffs)
                 (String.concat "," (List.sort_uniq compare !jf)) (String.concat "," (List.sort_uniq compare !nt))
             | "V" ->
               let lv = if cf.(2) = "-" then [] else levels_of cf.(2) in
               let io = res_of (g "rv") levels_of in
               let mo = nr (reorder_visual lv) in
               let d = if mo <> io then "rv" else "" in
               let d = if g "same" <> "1" then (if d = "" then "same" else d ^ ",same") else d in
               let jf = if c04_judge_levels lv io then "" else "C04" in
               let jf = if io = p0 then (if jf = "" then "C07" else jf ^ ",C07") else jf in
               let nt = if List.exists (fun x -> int_of_nat x land 1 = 1) lv then "C04" else "" in
               Printf.sprintf "V\t%s\tV\tDIFF=%s\tJFAIL=%s\tNT=%s" id d jf nt
             | "I" ->
               let t = List.map n_of_int (hexlist cf.(2)) in
               let ops = List.init (String.length cf.(3)) (fun k -> cf.(3).[k] = 'f') in
               let parse s = List.map (fun x -> if x = "N" then None else Some (n_of_int (hex x))) (csv s) in
               let io = res_of (g "out") parse in
               let mo = nr (iter16_program legacy t ops) in
               let d = if mo <> io then "iter" else "" in
               let jf = if c18_iter_judge t ops io then "" else "C18" in
               let jf = if io = p0 then (if jf = "" then "C07" else jf ^ ",C07") else jf in
               let nt = if List.exists (fun u -> let u = int_of_n u in u >= 0xD800 && u <= 0xDFFF) t && List.mem false ops && List.mem true ops then "C18" else "" in
               Printf.sprintf "I\t%s\tI\tDIFF=%s\tJFAIL=%s\tNT=%s" id d jf nt
             | "S" ->
               let cps = List.map n_of_int (hexlist cf.(3)) in
               let enc = if cf.(2) = "16" then U16 else U8 in
               let n = int_of_nat (t_len enc cps) in
               let hx v = Printf.sprintf "%x" (int_of_n v) in
               let cat f i = match f (nat_of_int i) with Some (c, l) -> Printf.sprintf "%s:%d" (hx c) (int_of_nat l) | None -> "N" in
               let ca_model = String.concat "," (List.init (n + 2) (cat (fun i -> match enc with U16 -> char_at16 cps i | U8 -> char_at8 cps i))) in
               let dec = case_chars { tc_enc = enc; tc_ds = hardcoded_memo; tc_text = cps; tc_dir = None; tc_lines = [] } in
               let ca_spec = String.concat "," (List.init (n + 2) (cat (fun i -> char_at_spec dec i))) in
               let ci_of l = String.concat "," (List.map (fun (p, c) -> Printf.sprintf "%d:%s" (int_of_nat p) (hx c)) l) in
               let il_of l = String.concat "," (List.map (fun (p, l) -> Printf.sprintf "%d:%d" (int_of_nat p) (int_of_nat l)) l) in
               let ch_of l = String.concat "," (List.map hx l) in
               let ci_model = ci_of (match enc with U16 -> char_indices16 cps | U8 -> char_indices8 cps) in
               let il_model = il_of (t_indices_lengths enc cps) in
               let ch_model = ch_of (t_chars enc cps) in
               let rev_model = (match t_chars_rev enc cps with Ok l -> ch_of l | Panic _ -> "P") in
               (* spec strings from the decoding *)
               let starts = let rec go p = function [] -> [] | (c, l) :: r -> (p, c, l) :: go (p + int_of_nat l) r in go 0 dec in
               let ci_spec = String.concat "," (List.map (fun (p, c, _) -> Printf.sprintf "%d:%s" p (hx c)) starts) in
               let il_spec = String.concat "," (List.map (fun (p, _, l) -> Printf.sprintf "%d:%d" p (int_of_nat l)) starts) in
               let ch_spec = ch_of (List.map fst dec) in
               let rev_spec = ch_of (List.rev (List.map fst dec)) in
               let total = List.fold_left (fun a (_, l) -> a + int_of_nat l) 0 dec in
               let d = ref [] and jf = ref [] in
               let chk name m i = if m <> i then d := name :: !d in
               let jdg name s i = if s <> i then jf := name :: !jf in
               chk "len" (string_of_int n) (g "len"); chk "ca" ca_model (g "ca"); chk "ci" ci_model (g "ci");
               chk "il" il_model (g "il"); chk "ch" ch_model (g "ch"); chk "rev" rev_model (g "rev");
               jdg "len" (string_of_int total) (g "len"); jdg "ca" ca_spec (g "ca"); jdg "ci" ci_spec (g "ci");
               jdg "il" il_spec (g "il"); jdg "ch" ch_spec (g "ch"); jdg "rev" rev_spec (g "rev");
               let panicked = List.exists (fun k -> g k = "P") ["len"; "ca"; "ci"; "il"; "ch"; "rev"] in
               let nt = if List.exists (fun u -> let u = int_of_n u in (u >= 0xD800 && u <= 0xDFFF) || u >= 0x80) cps then "C18" else "" in
               Printf.sprintf "S\t%s\tS\tDIFF=%s\tJFAIL=%s%s\tNT=%s" id (String.concat "," !d)
                 (if !jf = [] then "" else "C18") (if panicked then (if !jf = [] then "C07" else ",C07") else "") nt
             | k -> failwith ("kind " ^ k)
           in
           output_string oc verdict; output_char oc '\n'
         end
       done
     with End_of_file -> ());
    Hashtbl.iter (fun id _ -> ignore id) pend;
    close_out oc;
    Printf.printf "cases=%d\n" !ncase
  | _ :: "tables" :: _ ->
    (* the model's view of the class table, as maximal constant segments over all scalar values *)
    let (a, b), c = unicode_version in
    Printf.printf "version=%d.%d.%d\n" (int_of_n a) (int_of_n b) (int_of_n c);
    Printf.printf "max_explicit_depth=%d\n" (int_of_nat max_explicit_depth);
    Printf.printf "max_implicit_depth=%d\n" (int_of_nat max_implicit_depth);
    (* walk the table ranges in order, filling gaps with L, skipping surrogates, merging neighbours *)
    let segs = ref [] in
    let push lo hi k =
      if lo <= hi then
        match !segs with
        | (plo, phi, pk) :: rest when pk = k && phi + 1 = lo -> segs := (plo, hi, pk) :: rest
        | _ -> segs := (lo, hi, k) :: !segs in
    let push_nosurr lo hi k =
      if hi < 0xD800 || lo > 0xDFFF then push lo hi k
      else begin push lo (min hi 0xD7FF) k; push (max lo 0xE000) hi k end in
    (* correctness of this walk relies on the table being sorted and disjoint: proved for the
       regenerated table in Proofs/Tables.v; the pointwise model is hardcoded_class *)
    let pos = ref 0 in
    List.iter (fun ((lo, hi), k) ->
      let lo = int_of_n lo and hi = int_of_n hi in
      if lo > !pos then push_nosurr !pos (lo - 1) L;
      push_nosurr lo hi k; pos := hi + 1) bidi_class_table;
    if !pos <= 0x10FFFF then push_nosurr !pos 0x10FFFF L;
    (* spot-check the walk against the pointwise model on every segment end *)
    List.iter (fun (lo, hi, k) ->
      if hardcoded_class (n_of_int lo) <> k || hardcoded_class (n_of_int hi) <> k then
        Printf.printf "MODEL-INCONSISTENT %x %x\n" lo hi) !segs;
    (* a segment boundary inside the surrogate gap must not merge *)
    let out = List.rev !segs in
    let rec emit = function
      | (lo, hi, k) :: ((lo2, _, k2) :: _ as rest) when k = k2 && hi + 1 = lo2 -> ignore lo; emit rest
      | (lo, hi, k) :: rest -> Printf.printf "C %x %x %s\n" lo hi (class_name k); emit rest
      | [] -> () in
    emit out;
    (* brackets: every character occurring in the pairs table, in code point order *)
    let chars = List.sort_uniq compare (List.concat_map (fun ((o, c), _) -> [int_of_n o; int_of_n c]) bidi_pairs_table) in
    List.iter (fun cp -> match hardcoded_bracket (n_of_int cp) with
      | Some (key, op) -> Printf.printf "B %x %x %d\n" cp (int_of_n key) (if op then 1 else 0);
                          let k = class_name (hardcoded_class (n_of_int cp)) in Printf.printf "BC %x %s %s\n" cp k k
      | None -> ()) chars;
    List.iter (fun (nm, v) -> Printf.printf "F %s %x %s\n" nm (int_of_n v) (class_name (hardcoded_class v)))
      ["ALM", fc_ALM; "LRM", fc_LRM; "RLM", fc_RLM; "LRI", fc_LRI; "RLI", fc_RLI; "FSI", fc_FSI; "PDI", fc_PDI;
       "LRE", fc_LRE; "RLE", fc_RLE; "PDF", fc_PDF; "LRO", fc_LRO; "RLO", fc_RLO]
  | _ :: "enum" :: spec :: shard :: nshards :: _ ->
    (* bounded-exhaustive tie: the same enumeration as `bidi-harness enum`; the implementation's lines arrive on stdin *)
    let shard = int_of_string shard and nshards = int_of_string nshards in
    let ic = open_in spec in
    let counter = ref 0 and compared = ref 0 and bad = ref 0 in
    let hex n = Printf.sprintf "%x." n in
    (try
       while true do
         let line = input_line ic in
         match List.filter (fun x -> x <> "") (split ' ' line) with
         | ["E"; maxlen; dirs; alpha] ->
           let maxlen = int_of_string maxlen in
           let alpha = Array.of_list (List.map (fun tok -> List.map (fun h -> int_of_string ("0x" ^ h)) (split '+' tok)) (split ',' alpha)) in
           let n = Array.length alpha in
           for len = 1 to maxlen do
             let total = int_of_float (float_of_int n ** float_of_int len) in
             for code = 0 to total - 1 do
               incr counter;
               if !counter mod nshards = shard then begin
                 let c = ref code in
                 let cps = List.concat (List.init len (fun _ -> let x = alpha.(!c mod n) in c := !c / n; x)) in
                 let text = List.map n_of_int cps in
                 for di = 0 to String.length dirs - 1 do
                   let d = dirs.[di] in
                   let dir = (match d with 'a' -> None | '0' -> Some O | _ -> Some (S O)) in
                   let mine = (match bidi_info_new U8 hardcoded_ds text dir with
                     | Ok b -> String.concat "" (List.map (fun p -> hex (int_of_nat p.p_level)) b.bi_paras) ^ "|" ^
                               String.concat "" (List.map (fun l -> hex (int_of_nat l)) b.bi_levels)
                     | Panic _ -> "PANIC") in
                   let theirs = (try input_line stdin with End_of_file -> "MISSING") in
                   incr compared;
                   if mine <> theirs then begin
                     incr bad;
                     if !bad <= 40 then
                       Printf.printf "ENUM-MISMATCH\t%s\t%s\timpl=%s\tmodel=%s\n"
                         (String.concat "," (List.map (Printf.sprintf "%x") cps))
                         (String.make 1 d) theirs mine
                   end
                 done
               end
             done
           done
         | _ -> ()
       done
     with End_of_file -> ());
    Printf.printf "ENUM-DONE\tcompared=%d\tmismatches=%d\n" !compared !bad
  | _ :: "levels" :: _ ->
    let ol = function Some l -> string_of_int (int_of_nat l) | None -> "E" in
    let line name f = Printf.printf "%s\t%s\n" name (String.concat "," (List.init 256 f)) in
    line "new" (fun n -> ol (level_new (nat_of_int n)));
    line "new_explicit" (fun n -> ol (level_new_explicit (nat_of_int n)));
    line "from_u8" (fun n -> match level_new (nat_of_int n) with Some l -> string_of_int (int_of_nat l) | None -> "P");
    for l = 0 to 126 do
      let lv = nat_of_int l in
      let mut name f = Printf.printf "%s\t%d\t%s\n" name l (String.concat "," (List.init 256 (fun a ->
        match f lv (nat_of_int a) with Some x -> string_of_int (int_of_nat x) | None -> "E" ^ string_of_int l))) in
      mut "raise" level_raise; mut "raise_explicit" level_raise_explicit; mut "lower" level_lower;
      Printf.printf "unary\t%d\tnext_ltr=%s\tnext_rtl=%s\tlowest_ge_rtl=%s\tis_ltr=%d\tis_rtl=%d\tnumber=%d\tu8=%d\tclass=%s\teq_str=1\n"
        l (ol (level_next_ltr lv)) (ol (level_next_rtl lv)) (ol (level_lowest_ge_rtl lv))
        (if is_ltr lv then 1 else 0) (if is_rtl lv then 1 else 0) l l (class_name (level_class lv));
      Printf.printf "ord\t%d\t%s\n" l (String.concat "," (List.init 127 (fun m ->
        Printf.sprintf "%d%d%d" (if l < m then 1 else 0) (if l = m then 1 else 0) (if l > m then 1 else 0))))
    done;
    let alpha = [0; 1; 2; 125; 126] in
    let cur = ref [[]] in
    for _len = 0 to 5 do
      List.iter (fun s -> Printf.printf "has_rtl\t%s\t%d\t1\n" (String.concat "," (List.map string_of_int s))
                    (if levels_has_rtl (List.map nat_of_int s) then 1 else 0)) !cur;
      cur := List.concat_map (fun s -> List.map (fun a -> s @ [a]) alpha) !cur
    done;
    List.iter (fun n ->
      List.iter (fun (pat, base, last) ->
        let v = List.init n (fun i -> nat_of_int (if i = n - 1 then last else base)) in
        Printf.printf "has_rtl_long\t%d\t%s\t%d\n" n pat (if levels_has_rtl v then 1 else 0))
        ["odd", 1, 1; "odd3", 3, 3; "even", 0, 0; "even+odd", 2, 125; "max", 126, 126])
      [127; 128; 129; 255; 256; 257; 511; 512; 513; 1024; 65535; 65536; 65537];
    Printf.printf "consts\tltr=0\trtl=1\tLTR_LEVEL=0\tRTL_LEVEL=1\tmax_explicit=%d\tmax_implicit=%d\n"
      (int_of_nat max_explicit_depth) (int_of_nat max_implicit_depth)
  | _ -> prerr_endline "usage: driver corr|tables|levels ..."; exit 2
